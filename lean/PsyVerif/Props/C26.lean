import PsyVerif.Model.Atomic
import PsyVerif.Lemmas.AtomicTiling
import PsyVerif.Gen.AtomicSkel

/-! C26 — a rejected transformation leaves the code unchanged.

1. Generic protocol (`Model/Atomic.lean`: `Prog` = done / prim / check / call / tryCall, `run`, `Atomic`, `NoRefuse`):
   `C26_validate_first` — "validate first, and every later check (own or of a nested transformation) is implied by it"
   is sound for ALL transformations of that shape, by induction over the program; composition rules
   (`C26_atomic_check`, `_tail_call`, `_try_restore`) and the converse `C26_mutation_before_refusal`.
2. Hand-written models of the composite / irregular transformations, each with a correspondence check against the
   real `apply()` (harness/props/c26_models.py):
     LoopTiling2DTrans (+ ChunkLoopTrans, LoopSwapTrans; concrete validate/apply on loop nests)   theorem
     OMPLoopTrans family (reprod symbols)            pinned counterexample · fixed theorem (commit 50629ec)
     OMPTaskTrans (collapse; inlining)                2 pinned counterexamples · fixed theorem (ef452d1, 30dd17e)
     ArrayReductionBaseTrans (tmp_var; mask)          2 pinned counterexamples · fixed theorems (bb4519c, 30a1a75)
     AlgTrans / LFRicAlgTrans (one nested per invoke) pinned counterexample · fixed theorem (0f1a318)
     GOceanExtractTrans / LFRicExtractTrans           pinned counterexample · fixed theorem
                                                      (fixes/C26-extract-validate-before-side-effects.patch)
     ArrayAssignment2LoopsTrans (verbose)             counterexample = known finding · partial theorem
     KernelModuleInlineTrans                          counterexample = known finding · partial theorem
     Sign2CodeTrans, CreateNemoPSyTrans               theorems (nested validate holds by construction)
3. Protocol skeletons (`Model/AtomicSkel.lean`, `Lemmas/AtomicSkel.lean`, `Gen/AtomicSkel.lean` regenerated from the
   live source by harness/props/c26_skel.py): `C26_safe_skeleton_atomic` — if in the source order of `apply()` no check
   and no nested apply is reachable after a mutation, the transformation is atomic under EVERY interpretation of its
   checks and mutations; `C26_all_expected_safe` re-checks this shape for the 61 transformations recorded as safe
   (HoistTrans, LoopFuseTrans, InlineTrans, the region transformations, Dynamo0p3ColourTrans,
   Dynamo0p3RedundantComputationTrans, the intrinsic-to-code transformations, …).  The extraction is cross-checked at
   run time by a monitor of tree / symbol-table mutations (harness/props/c26_monitor.py).
Everything else is covered by the generic differential sweep only (exploration, listed in the evidence). -/
namespace C26

variable {S : Type}

/-! ### Helper lemmas -/

theorem noRefuse_mono (p : Prog S) : ∀ (P Q : S → Prop), (∀ s, Q s → P s) → NoRefuse p P → NoRefuse p Q := by
  induction p with
  | done => intros; trivial
  | prim f k ih =>
    intro P Q hPQ h
    exact ih _ _ (fun s' ⟨s, hs, e⟩ => ⟨s, hPQ s hs, e⟩) h
  | check c k ih =>
    intro P Q hPQ h
    exact ⟨fun s hs => h.1 s (hPQ s hs), ih _ _ hPQ h.2⟩
  | call g k _ ihk =>
    intro P Q hPQ h
    exact ⟨fun s hs => h.1 s (hPQ s hs), ihk _ _ (fun s' ⟨s, hs, e⟩ => ⟨s, hPQ s hs, e⟩) h.2⟩
  | tryCall g hd k _ ihk =>
    intro P Q hPQ h
    exact ⟨fun s hs => h.1 s (hPQ s hs), ihk _ _ (fun s' ⟨s, hs, e⟩ => ⟨s, hPQ s hs, e⟩) h.2⟩

/-- A program all of whose checks are implied by the precondition never raises. -/
theorem noRefuse_sound (p : Prog S) : ∀ (P : S → Prop) (s : S), NoRefuse p P → P s → (run p s).2 = .accepted := by
  induction p with
  | done => intros; rfl
  | prim f k ih =>
    intro P s h hs
    exact ih _ (f s) h ⟨s, hs, rfl⟩
  | check c k ih =>
    intro P s h hs
    simp only [run, h.1 s hs, if_true]
    exact ih P s h.2 hs
  | call g k ihg ihk =>
    intro P s h hs
    have hg := ihg s _ s (h.1 s hs) rfl
    have hk := ihk _ (run (g s) s).1 h.2 ⟨s, hs, rfl⟩
    simp only [run]
    cases hr : run (g s) s with
    | mk s' o =>
      rw [hr] at hg hk
      simp only at hg hk
      subst hg
      simpa using hk
  | tryCall g hd k ihg ihk =>
    intro P s h hs
    have hg := ihg s _ s (h.1 s hs) rfl
    have hk := ihk _ (run (g s) s).1 h.2 ⟨s, hs, rfl⟩
    simp only [run]
    cases hr : run (g s) s with
    | mk s' o =>
      rw [hr] at hg hk
      simp only at hg hk
      subst hg
      simpa using hk

/-! ## The property -/

/-- **Soundness of the protocol.**  If `apply` is "`validate`, then a body in which every later check
    and every nested transformation's `validate` is implied by the outer `validate`" then a refusal leaves
    the state untouched — for every transformation of that shape. -/
theorem C26_validate_first (v : S → Bool) (body : Prog S)
    (h : NoRefuse body (fun s => v s = true)) (s : S) :
    (run (validateThen v body) s).2 = .refused → (run (validateThen v body) s).1 = s := by
  intro hr
  simp only [validateThen, run] at hr ⊢
  by_cases hv : v s = true
  · simp only [hv, if_true] at hr
    rw [noRefuse_sound body _ s h hv] at hr
    cases hr
  · simp [hv]

theorem C26_atomic_validate_first (v : S → Bool) (body : Prog S)
    (h : NoRefuse body (fun s => v s = true)) : Atomic (validateThen v body) :=
  fun s => C26_validate_first v body h s

/-- Further checks made by `apply` itself before the first mutation are harmless
    (`Dynamo0p3ColourTrans.apply`, `GOceanOMPParallelLoopTrans.apply`). -/
theorem C26_atomic_check (c : S → Bool) (k : Prog S) (hk : Atomic k) : Atomic (.check c k) := by
  intro s hr
  simp only [run] at hr ⊢
  by_cases hc : c s = true
  · simp only [hc, if_true] at hr ⊢
    exact hk s hr
  · simp [hc]

/-- Calling an atomic transformation as the last step (`super().apply(...)`) is atomic. -/
theorem C26_atomic_tail_call (g : S → Prog S) (hg : ∀ s, Atomic (g s)) : Atomic (.call g .done) := by
  intro s hr
  simp only [run] at hr ⊢
  cases h : run (g s) s with
  | mk s' o =>
    rw [h] at hr
    cases o with
    | accepted => simp at hr
    | refused =>
      have := hg s s (by rw [h])
      rw [h] at this
      simpa using this

/-- A handler that restores the entry state makes a refused nested call harmless. -/
theorem C26_atomic_try_restore (g : S → Prog S) (h : S → S → S) (k : Prog S)
    (hrestore : ∀ s, (run (g s) s).2 = .refused → h s (run (g s) s).1 = s)
    (hk : ∀ s, (run (g s) s).2 = .accepted → (run k (run (g s) s).1).2 = .accepted) :
    Atomic (.tryCall g h k) := by
  intro s hr
  simp only [run] at hr ⊢
  cases hg : run (g s) s with
  | mk s' o =>
    rw [hg] at hr
    cases o with
    | accepted =>
      have := hk s (by rw [hg])
      rw [hg] at this
      simp only at hr this
      rw [this] at hr
      cases hr
    | refused =>
      have := hrestore s (by rw [hg])
      rw [hg] at this
      simpa using this

/-- **The protocol is necessary**: a mutation followed by a check that can fail on the mutated state
    is not atomic (cases (a) and (b) of the sweep: mutate before validating; raise after mutating). -/
theorem C26_mutation_before_refusal (f : S → S) (c : S → Bool) (k : Prog S) (s : S)
    (hf : f s ≠ s) (hc : c (f s) = false) : ¬ Atomic (.prim f (.check c k)) := by
  intro h
  have := h s (by simp [run, hc])
  simp [run, hc] at this
  exact hf this

/-! ### OMPLoopTrans -/

/-- `ParallelLoopTrans.apply` validates before it detaches the loop. -/
theorem C26_ParallelLoopTrans (v : OmpState → Bool) : Atomic (parallelLoopApply v) :=
  C26_atomic_validate_first v _ (by simp [NoRefuse])

/-- Full statement for the pinned `OMPLoopTrans.apply`. -/
def C26_OMPLoopTrans_pinned_statement : Prop :=
  ∀ (reprod : Bool) (v : OmpState → Bool), Atomic (ompLoopPinned reprod v)

/-- Pinned code: with `reprod` a refusal leaves `th_idx`/`nthreads` declared. -/
theorem C26_OMPLoopTrans_pinned_counterexample : ¬ C26_OMPLoopTrans_pinned_statement := by
  intro h
  have := h true (fun _ => false) ⟨false, false, false⟩ (by decide)
  revert this
  decide

/-- Pinned code, side condition "no reproducible reductions": atomic. -/
theorem C26_OMPLoopTrans_pinned_partial (v : OmpState → Bool) : Atomic (ompLoopPinned false v) := by
  intro s hr
  have hd : ompDeclare false s = s := rfl
  simp only [ompLoopPinned, run, hd] at hr ⊢
  have := C26_ParallelLoopTrans v s
  cases h : run (parallelLoopApply v) s with
  | mk s' o =>
    rw [h] at hr this
    cases o with
    | accepted => simp at hr
    | refused => simpa using this

example : ¬ Atomic (ompLoopPinned true (fun _ => false)) := by
  intro h
  have := h ⟨false, false, false⟩ (by decide)
  revert this
  decide

/-- Fixed code (the fix commits 50629ec / ef452d1 in /repo and `fixes/C26-arrayreduction-tmp-after-validate.patch`): atomic for every validate that does not
    depend on the two declared symbols (it is called again by `super().apply`). -/
theorem C26_OMPLoopTrans (reprod : Bool) (v : OmpState → Bool)
    (hv : ∀ s, v (ompDeclare reprod s) = v s) : Atomic (ompLoopFixed reprod v) := by
  apply C26_atomic_validate_first
  simp only [NoRefuse, parallelLoopApply, validateThen]
  refine ⟨?_, trivial⟩
  rintro s ⟨s0, h0, rfl⟩
  refine ⟨?_, trivial⟩
  rintro x rfl
  rw [hv]
  exact h0

/-- non-vacuity: a validate that looks only at `wrapped` satisfies the hypothesis, accepts some states
    and refuses others -/
example : (∀ s, (fun s : OmpState => !s.wrapped) (ompDeclare true s) = (fun s : OmpState => !s.wrapped) s)
    ∧ (run (ompLoopFixed true (fun s => !s.wrapped)) ⟨false, false, false⟩) = (⟨true, true, true⟩, .accepted)
    ∧ (run (ompLoopFixed true (fun s => !s.wrapped)) ⟨false, false, true⟩) = (⟨false, false, true⟩, .refused) := by
  refine ⟨?_, by decide, by decide⟩
  intro s; cases s; simp [ompDeclare]

/-! ### OMPTaskTrans -/

def C26_OMPTaskTrans_pinned_statement : Prop :=
  ∀ (collapseSet : Bool) (v : TaskState → Bool), Atomic (ompTaskPinned collapseSet v)

/-- Pinned code: with a `collapse` option the refusal comes after inlining and after the loop was detached. -/
theorem C26_OMPTaskTrans_pinned_counterexample : ¬ C26_OMPTaskTrans_pinned_statement := by
  intro h
  have := h true (fun _ => true) ⟨false, false, false⟩ (by decide)
  revert this
  decide

/-- Pinned code, second defect: the loop validates, its calls are inlined, and the re-validation of the inlined
    loop inside `ParallelLoopTrans.apply` refuses (`v` depends on `inlined`). -/
theorem C26_OMPTaskTrans_pinned_counterexample_inlining :
    ¬ Atomic (ompTaskPinned false (fun s => !s.inlined)) := by
  intro h
  have := h ⟨false, false, false⟩ (by decide)
  revert this
  decide

/-- Fixed code: atomic for EVERY validate (it is also evaluated on the inlined form before anything is changed). -/
theorem C26_OMPTaskTrans (collapseSet : Bool) (v : TaskState → Bool) : Atomic (ompTaskFixed collapseSet v) := by
  apply C26_atomic_validate_first
  simp only [NoRefuse, validateThen]
  refine ⟨?_, trivial⟩
  rintro s ⟨s0, h0, rfl⟩
  simp only [Bool.and_eq_true, Bool.not_eq_true'] at h0
  refine ⟨?_, ?_, trivial⟩
  · rintro x rfl
    simp [h0.1.2, h0.2]
  · rintro x ⟨y, rfl, rfl⟩
    simp [h0.2]

example : run (ompTaskFixed false (fun s => !s.inlined)) ⟨false, false, false⟩ = (⟨false, false, false⟩, .refused) := by
  decide
example : run (ompTaskFixed true (fun _ => true)) ⟨false, false, false⟩ = (⟨false, false, false⟩, .refused) := by
  decide
example : run (ompTaskFixed false (fun _ => true)) ⟨false, false, false⟩ = (⟨true, true, true⟩, .accepted) := by
  decide
example : run (ompTaskPinned true (fun _ => true)) ⟨false, false, false⟩ = (⟨true, true, false⟩, .refused) := by
  decide

/-! ### AlgTrans / LFRicAlgTrans -/

theorem noRefuse_seqCalls (l : List (Step S)) : ∀ (P : S → Prop),
    (∀ s, P s → l.all (fun t => t.valid s) = true) →
    (∀ t ∈ l, ∀ u ∈ l, ∀ s, u.valid (t.mutate s) = u.valid s) →
    NoRefuse (seqCalls l) P := by
  induction l with
  | nil => intros; trivial
  | cons t rest ih =>
    intro P hP hinv
    simp only [seqCalls, NoRefuse, Step.prog, validateThen]
    refine ⟨?_, ?_⟩
    · intro s hs
      refine ⟨?_, trivial⟩
      rintro x rfl
      have := hP x hs
      simp only [List.all_cons, Bool.and_eq_true] at this
      exact this.1
    · apply ih
      · rintro s' ⟨s, hs, rfl⟩
        have h := hP s hs
        simp only [List.all_cons, Bool.and_eq_true] at h
        simp only [run, h.1, if_true]
        rw [List.all_eq_true] at h ⊢
        intro u hu
        rw [hinv t (List.mem_cons_self ..) u (List.mem_cons_of_mem _ hu)]
        exact h.2 u hu
      · intro a ha u hu
        exact hinv a (List.mem_cons_of_mem _ ha) u (List.mem_cons_of_mem _ hu)

def C26_AlgTrans_pinned_statement : Prop :=
  ∀ (v : AlgState → Bool) (invokes : List (Step AlgState)), Atomic (algTransPinned v invokes)

/-- Pinned code: the first invoke is raised, the second is refused — the tree keeps the raised first invoke. -/
theorem C26_AlgTrans_pinned_counterexample : ¬ C26_AlgTrans_pinned_statement := by
  intro h
  have := h (fun _ => true)
    [⟨fun _ => true, fun s => { s with first := true }⟩, ⟨fun _ => false, fun s => { s with second := true }⟩]
    ⟨false, false⟩ (by decide)
  revert this
  decide

/-- Pinned code is atomic when there is at most one invoke call. -/
theorem C26_AlgTrans_pinned_partial (v : S → Bool) (t : Step S) : Atomic (algTransPinned v [t]) := by
  intro s hr
  simp only [algTransPinned, validateThen, seqCalls, Step.prog, run] at hr ⊢
  by_cases hv : v s = true
  · by_cases ht : t.valid s = true
    · simp [hv, ht] at hr
    · have ht' : t.valid s = false := by simpa using ht
      simp [hv, ht']
  · simp [hv]

/-- Fixed code: atomic for any number of invokes, provided raising one invoke does not change the validity of
    the others (each nested validate only looks at its own call). -/
theorem C26_AlgTrans (v : S → Bool) (invokes : List (Step S))
    (hinv : ∀ t ∈ invokes, ∀ u ∈ invokes, ∀ s, u.valid (t.mutate s) = u.valid s) :
    Atomic (algTransFixed v invokes) := by
  apply C26_atomic_validate_first
  apply noRefuse_seqCalls _ _ _ hinv
  intro s hs
  simp only [Bool.and_eq_true] at hs
  exact hs.2

example : run (algTransFixed (fun _ => true)
    [⟨fun _ => true, fun s : AlgState => { s with first := true }⟩, ⟨fun _ => false, fun s => { s with second := true }⟩])
    ⟨false, false⟩ = (⟨false, false⟩, .refused) := by decide
example : run (algTransFixed (fun _ => true)
    [⟨fun _ => true, fun s : AlgState => { s with first := true }⟩, ⟨fun _ => true, fun s => { s with second := true }⟩])
    ⟨false, false⟩ = (⟨true, true⟩, .accepted) := by decide

/-- `CreateNemoPSyTrans` (one nested CreateNemoInvokeScheduleTrans per Routine found by `walk(Routine)`, whose
    validate only asks for a Routine): every nested validate holds by construction. -/
theorem C26_CreateNemoPSyTrans (v : S → Bool) (mutations : List (S → S)) :
    Atomic (algTransPinned v (mutations.map fun f => ⟨fun _ => true, f⟩)) := by
  apply C26_atomic_validate_first
  apply noRefuse_seqCalls
  · intro s _
    simp [List.all_map]
  · intro t ht u hu s
    simp only [List.mem_map] at ht hu
    obtain ⟨_, _, rfl⟩ := hu
    rfl

/-! ### GOceanExtractTrans / LFRicExtractTrans -/

def C26_ExtractTrans_pinned_statement : Prop :=
  ∀ (createDriver : Bool) (nodesOk v : ExtractState → Bool), Atomic (extractPinned createDriver nodesOk v)

/-- Pinned code: a refusal (e.g. "distributed memory is not supported") has already reserved a region name — the next
    accepted region is called `…:r1` — and, with `create_driver`, written a driver file. -/
theorem C26_ExtractTrans_pinned_counterexample : ¬ C26_ExtractTrans_pinned_statement := by
  intro h
  have := h true (fun _ => true) (fun _ => false) ⟨0, false, false⟩ (by decide)
  revert this
  decide

/-- Fixed code: atomic for every validate that does not depend on the reserved name / the driver file. -/
theorem C26_ExtractTrans (createDriver : Bool) (nodesOk v : ExtractState → Bool)
    (hv : ∀ s, v (extractReserve createDriver s) = v s) : Atomic (extractFixed createDriver nodesOk v) := by
  apply C26_atomic_check
  apply C26_atomic_validate_first
  simp only [NoRefuse, psyDataApply, validateThen]
  refine ⟨?_, trivial⟩
  rintro s ⟨s0, h0, rfl⟩
  refine ⟨?_, trivial⟩
  rintro x rfl
  rw [hv]
  exact h0

example : run (extractFixed true (fun _ => true) (fun _ => false)) ⟨0, false, false⟩ = (⟨0, false, false⟩, .refused) := by
  decide
example : run (extractFixed true (fun _ => true) (fun _ => true)) ⟨0, false, false⟩ = (⟨1, true, true⟩, .accepted) := by
  decide
example : run (extractPinned true (fun _ => true) (fun _ => false)) ⟨0, false, false⟩ = (⟨1, true, false⟩, .refused) := by
  decide

/-! ### KernelModuleInlineTrans -/

def C26_KernelModuleInline_statement : Prop :=
  ∀ (exists_ same : Bool) (v : KmiState → Bool), Atomic (kernelModuleInline exists_ same v)

/-- A second call of a kernel whose already inlined copy was transformed meanwhile: the kernel schedule is prepared
    (imports moved into the routine), then the routines are found to differ (known finding). -/
theorem C26_KernelModuleInline_counterexample : ¬ C26_KernelModuleInline_statement := by
  intro h
  have := h true false (fun _ => true) ⟨false, false⟩ (by decide)
  revert this
  decide

/-- Atomic whenever no routine of that name is in the container yet, or the existing one is the same. -/
theorem C26_KernelModuleInline_partial (exists_ same : Bool) (v : KmiState → Bool)
    (h : exists_ = false ∨ same = true) : Atomic (kernelModuleInline exists_ same v) := by
  apply C26_atomic_validate_first
  simp only [NoRefuse]
  refine ⟨?_, trivial⟩
  rintro s _
  rcases h with h | h <;> subst h
  · simp [NoRefuse]
  · cases exists_ <;> simp [NoRefuse]

example : run (kernelModuleInline true false (fun _ => true)) ⟨false, false⟩ = (⟨true, false⟩, .refused) := by decide
example : run (kernelModuleInline false false (fun _ => true)) ⟨false, false⟩ = (⟨true, true⟩, .accepted) := by decide

/-! ### Sign2CodeTrans -/

/-- The validate of the nested Abs2CodeTrans holds by construction of the node it is given: atomic for every
    outer validate. -/
theorem C26_Sign2CodeTrans (v : SignState → Bool) : Atomic (sign2code v) := by
  apply C26_atomic_validate_first
  simp only [NoRefuse, validateThen]
  refine ⟨?_, trivial⟩
  rintro s ⟨s0, _, rfl⟩
  refine ⟨?_, trivial⟩
  rintro x rfl
  simp [absValidate]

example : run (sign2code (fun _ => true)) ⟨false, false, false, false, false⟩
    = (⟨true, true, true, true, true⟩, .accepted) := by decide
example : run (sign2code (fun s => s.finished)) ⟨false, false, false, false, false⟩
    = (⟨false, false, false, false, false⟩, .refused) := by decide

/-! ### ArrayReductionBaseTrans -/

def C26_ArrayReduction_pinned_statement : Prop :=
  ∀ (increment : Bool) (v a2l : RedState → Bool), Atomic (reductionPinned increment v a2l)

/-- Pinned code: `x = x + SUM(a(idx(1:3)))` — the nested ArrayAssignment2LoopsTrans refuses, the statement
    is restored but `tmp_var` stays declared. -/
theorem C26_ArrayReduction_pinned_counterexample : ¬ C26_ArrayReduction_pinned_statement := by
  intro h
  have := h true (fun _ => true) (fun _ => false) ⟨0, false, false⟩ (by decide)
  revert this
  decide

/-- Pinned code, side condition "the assignment is not an increment" (no temporary needed): atomic. -/
theorem C26_ArrayReduction_pinned_partial (v a2l : RedState → Bool) :
    Atomic (reductionPinned false v a2l) := by
  intro s hr
  have hd : ∀ x, redDeclareTmp false x = x := fun _ => rfl
  simp only [reductionPinned, validateThen, run, hd, a2lApply] at hr ⊢
  by_cases hv : v s = true
  · by_cases ha : a2l (redRewrite s) = true
    · simp [hv, ha] at hr
    · have ha' : a2l (redRewrite s) = false := by simpa using ha
      simp only [hv, ha', Bool.false_eq_true, ↓reduceIte]
      cases s; simp [redRestore, redRewrite]
  · simp [hv]

/-- Fixed code: atomic, for every nested validate that does not depend on the temporary's declaration. -/
theorem C26_ArrayReduction (increment : Bool) (v a2l : RedState → Bool)
    (ha : ∀ s, a2l (redDeclareTmp increment s) = a2l s) :
    Atomic (reductionFixed increment v a2l) := by
  intro s hr
  simp only [reductionFixed, validateThen, run, a2lApply] at hr ⊢
  by_cases hv : v s = true
  · by_cases h1 : a2l (redRewrite s) = true
    · simp [hv, h1, ha] at hr
    · have h1' : a2l (redRewrite s) = false := by simpa using h1
      simp only [hv, h1', Bool.false_eq_true, ↓reduceIte]
      cases s; simp [redRestore, redRewrite]
  · simp [hv]

example : run (reductionFixed true (fun _ => true) (fun _ => false)) ⟨0, false, false⟩
    = (⟨0, false, false⟩, .refused) := by decide
example : run (reductionFixed true (fun _ => true) (fun _ => true)) ⟨0, false, false⟩
    = (⟨3, true, true⟩, .accepted) := by decide
example : run (reductionPinned true (fun _ => true) (fun _ => false)) ⟨0, false, false⟩
    = (⟨0, true, false⟩, .refused) := by decide

/-- Pinned code with a `mask=` argument: `x = sum(f(a), mask=m)` is refused by the nested transformation and the
    statement put back reads `mask=m(:)`. -/
theorem C26_ArrayReduction_mask_pinned_counterexample :
    ¬ Atomic (reductionMaskPinned true (fun _ => true) (fun _ => false)) := by
  intro h
  have := h ⟨0, false⟩ (by decide)
  revert this
  decide

/-- Fixed code (mask expanded on a copy): atomic. -/
theorem C26_ArrayReduction_mask (v a2l : MaskState → Bool) : Atomic (reductionMaskFixed v a2l) := by
  intro s hr
  simp only [reductionMaskFixed, reductionMaskPinned, validateThen, run, Bool.false_eq_true, ↓reduceIte] at hr ⊢
  by_cases hv : v s = true
  · by_cases h1 : a2l { s with tree := 1 } = true
    · simp [hv, h1] at hr
    · have h1' : a2l { s with tree := 1 } = false := by simpa using h1
      simp only [hv, h1', Bool.false_eq_true, ↓reduceIte]
  · simp [hv]

example : run (reductionMaskFixed (fun _ => true) (fun _ => false)) ⟨0, false⟩ = (⟨0, false⟩, .refused) := by decide
example : run (reductionMaskPinned true (fun _ => true) (fun _ => false)) ⟨0, false⟩ = (⟨0, true⟩, .refused) := by
  decide

/-! ### ArrayAssignment2LoopsTrans with `verbose` -/

def C26_ArrayAssignment2Loops_statement : Prop :=
  ∀ (verbose : Bool) (c1 c2 : A2LState → Bool), Atomic (a2lVerbose verbose c1 c2)

/-- `verbose` makes `validate` itself write a comment before it raises (known finding). -/
theorem C26_ArrayAssignment2Loops_counterexample : ¬ C26_ArrayAssignment2Loops_statement := by
  intro h
  have := h true (fun _ => true) (fun _ => false) ⟨false, false⟩ (by decide)
  revert this
  decide

/-- Without `verbose` (the default) the transformation is atomic. -/
theorem C26_ArrayAssignment2Loops_partial (c1 c2 : A2LState → Bool) : Atomic (a2lVerbose false c1 c2) := by
  intro s hr
  have hd : a2lComment false c2 s = s := rfl
  simp only [a2lVerbose, run, hd] at hr ⊢
  by_cases h1 : c1 s = true
  · simp only [h1, if_true] at hr ⊢
    by_cases h2 : c2 s = true
    · simp [h2] at hr
    · simp [h2]
  · simp [h1]

example : run (a2lVerbose false (fun _ => true) (fun _ => false)) ⟨false, false⟩ = (⟨false, false⟩, .refused) := by
  decide
example : run (a2lVerbose true (fun _ => true) (fun _ => false)) ⟨false, false⟩ = (⟨true, false⟩, .refused) := by
  decide

end C26

/-! ### LoopTiling2DTrans = ChunkLoopTrans ∘ ChunkLoopTrans ∘ LoopSwapTrans -/
namespace C26.Tiling

/-- `ChunkLoopTrans.apply` on the root loop: validate, then mutate. -/
theorem C26_ChunkLoopTrans (cs : Int) : Atomic (chunkProg cs id (fun f => f)) :=
  C26_atomic_validate_first _ _ (by simp [NoRefuse])

/-- `LoopSwapTrans.apply` (target found by `walk(Loop)[1]`): validate, then mutate. -/
theorem C26_LoopSwapTrans : Atomic swapProgWalk1 :=
  C26_atomic_validate_first _ _ (by simp [NoRefuse])

/-- `ChunkLoopTrans` / `LoopSwapTrans` applied directly by a script. -/
theorem C26_ChunkLoopTrans_direct (o : Opts) : Atomic (chunkTransProg o) :=
  C26_atomic_validate_first _ _ (by simp [NoRefuse])

theorem C26_LoopSwapTrans_direct : Atomic swapTransProg :=
  C26_atomic_validate_first _ _ (by simp [NoRefuse])

/-- Every nested `validate` run by `LoopTiling2DTrans.apply` (chunk outer, chunk inner on the tree after the
    first chunk, swap on the tree after both) is implied by `LoopTiling2DTrans.validate`. -/
theorem C26_LoopTiling2D_nested_validates_implied (o : Opts) (s : St) (hw : WF s.tab)
    (hv : tilingValidate o s = true) : (run (tilingProg o) s).2 = .accepted :=
  tiling_accepts o s hw hv

/-- **`LoopTiling2DTrans`: a refusal leaves the nest and the symbol table untouched**, for every nest,
    every option value and every well-formed tag dictionary. -/
theorem C26_LoopTiling2D (o : Opts) (s : St) (hw : WF s.tab) :
    (run (tilingProg o) s).2 = .refused → (run (tilingProg o) s).1 = s := by
  intro hr
  by_cases hv : tilingValidate o s = true
  · rw [tiling_accepts o s hw hv] at hr
    cases hr
  · simp [tilingProg, validateThen, run, hv]

/-- sample nests (symbols: 0 = j, 1 = i, 2 = n, 3 = a; no tags yet) -/
def hdr (v : Nat) (start stop : List Nat) : Hdr :=
  { var := v, start := start, stop := stop, step := .lit 1, chunked := false, tab := false }
def tab0 : Tab := { bound := 4, tags := fun _ => none }
def rect : Stmt := .loop (hdr 0 [] [2]) (.loop (hdr 1 [] [2]) (.leaf [3] false false .nil) .nil) .nil
def triangular : Stmt := .loop (hdr 0 [] [2]) (.loop (hdr 1 [0] [2]) (.leaf [3] false false .nil) .nil) .nil

theorem C26_example_tab_wf : WF tab0 := ⟨fun _ _ h => by simp [tab0] at h, fun _ _ _ h => by simp [tab0] at h⟩

/-- non-vacuity: the rectangular nest is accepted and becomes the 4-deep tiled nest … -/
example : (run (tilingProg ⟨.int 4, false⟩) ⟨rect, tab0⟩).2 = .accepted := by decide
example : (run (tilingProg ⟨.int 4, false⟩) ⟨rect, tab0⟩).1.nest =
    .loop { var := 5, start := [], stop := [2], step := .lit 4, chunked := true, tab := false }
      (.leaf [4] false false
        (.loop { var := 7, start := [], stop := [2], step := .lit 4, chunked := true, tab := false }
          (.loop { var := 0, start := [5], stop := [4], step := .lit 1, chunked := true, tab := false }
            (.leaf [6] false false
              (.loop { var := 1, start := [7], stop := [6], step := .lit 1, chunked := true, tab := false }
                (.leaf [3] false false .nil) .nil)) .nil) .nil)) .nil := by decide
/-- … the triangular nest, a bad tile size and an unsupported option are refused with the nest untouched. -/
example : (run (tilingProg ⟨.int 4, false⟩) ⟨triangular, tab0⟩).2 = .refused
    ∧ (run (tilingProg ⟨.int 4, false⟩) ⟨triangular, tab0⟩).1.nest = triangular := by decide
example : (run (tilingProg ⟨.int 0, false⟩) ⟨rect, tab0⟩).2 = .refused := by decide
example : (run (tilingProg ⟨.absent, true⟩) ⟨rect, tab0⟩).2 = .refused := by decide
example : WF tab0 ∧ tilingValidate ⟨.int 4, false⟩ ⟨rect, tab0⟩ = true := ⟨C26_example_tab_wf, by decide⟩

/-- The well-formedness hypothesis is needed: if one symbol carries both the tag `j_el_inner` and the tag
    `i_out_var` the nested LoopSwapTrans refuses after both loops have been chunked. -/
theorem C26_LoopTiling2D_needs_wf :
    let bad : Tab := { bound := 5, tags := fun k => if k = elKey 0 ∨ k = outKey 1 then some 4 else none }
    (run (tilingProg ⟨.int 4, false⟩) ⟨rect, bad⟩).2 = .refused ∧
    (run (tilingProg ⟨.int 4, false⟩) ⟨rect, bad⟩).1.nest ≠ rect := by
  decide

end C26.Tiling

/-! ### Protocol skeletons extracted from the source of every `apply()` (translator `harness/props/c26_skel.py`) -/
namespace C26.Skel

/-- **A safe skeleton is atomic**: if, in the source order of `apply()` (helpers inlined, both branches of every `if`,
    any number of loop iterations), no check and no nested `apply()` is reachable after a mutation, then the
    transformation is atomic — whatever the checks test, whatever the mutations do, whichever branches are taken —
    provided the transformations it calls are atomic. -/
theorem C26_safe_skeleton_atomic {S : Type} (sk : Skel) (h : safe sk = true) (e : Env S)
    (hn : ∀ i, Atomic (e.nest i)) : Atomic (interp e sk) :=
  safe_atomic sk h e hn

/-- every transformation recorded as having a safe skeleton still has one in the current source tree
    (the list is regenerated from the live code on every run) -/
theorem C26_all_expected_safe : ∀ sk ∈ Gen.expectedSafe, safe sk = true := by decide

theorem C26_expected_safe_atomic {S : Type} (sk : Skel) (hm : sk ∈ Gen.expectedSafe) (e : Env S)
    (hn : ∀ i, Atomic (e.nest i)) : Atomic (interp e sk) :=
  safe_atomic sk (C26_all_expected_safe sk hm) e hn

/-- the analysis is not vacuous: it rejects "mutate, then check" and "nested apply after a mutation" … -/
example : safe (.atom (.mutate 0) (.atom (.check 1) .nil)) = false := by decide
example : safe (.atom (.check 0) (.atom (.mutate 1) (.atom (.nested 2) .nil))) = false := by decide
example : safe (.atom (.check 0) (.loop 1 (.atom (.check 2) (.atom (.mutate 3) .nil)) .nil)) = false := by decide
/-- … rejects the pinned shapes of the transformations that needed a fix or a hand-written model … -/
example : safe Gen.sk_LoopTiling2DTrans = false ∧ safe Gen.sk_AlgTrans = false ∧ safe Gen.sk_Sum2LoopTrans = false := by
  decide
/-- … and accepts e.g. HoistTrans, LoopFuseTrans, InlineTrans, the region and intrinsic transformations. -/
example : safe Gen.sk_HoistTrans = true ∧ safe Gen.sk_LoopFuseTrans = true ∧ safe Gen.sk_InlineTrans = true
    ∧ safe Gen.sk_ACCKernelsTrans = true ∧ safe Gen.sk_Matmul2CodeTrans = true ∧ safe Gen.sk_Dynamo0p3ColourTrans = true := by
  decide
/-- a concrete interpretation: validate refuses, nothing is touched; validate accepts, the mutation happens -/
example : run (interp (S := Nat) ⟨fun _ s => s != 0, fun _ s => s + 1, fun _ => .done, fun _ _ => true, fun _ _ => 1⟩
    Gen.sk_HoistTrans) 0 = (0, .refused) := by decide
example : run (interp (S := Nat) ⟨fun _ s => s != 0, fun _ s => s + 1, fun _ => .done, fun _ _ => true, fun _ _ => 1⟩
    Gen.sk_HoistTrans) 5 = (6, .accepted) := by decide

end C26.Skel
