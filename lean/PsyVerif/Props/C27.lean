import PsyVerif.Model.Topo
import PsyVerif.Lemmas.ModClosure
import Mathlib.Order.WellFounded
import Mathlib.Data.Fintype.Basic
import Mathlib.Order.RelClasses
import Mathlib.Data.Finite.Defs
import Mathlib.Logic.Relation
import Mathlib.Data.Fintype.EquivFin
import Mathlib.Order.WellFoundedSet
/-! # C27 — Module dependency sort orders dependencies first

Model: `PsyVerif/Model/Topo.lean` (`sortModules` mirrors `ModuleManager.sort_modules`).
Quantification: every dependency map (any number of modules, any dependency lists,
cycles, self-dependencies and unknown names included).  The only hypothesis of the
first theorem is that keys are distinct, which holds for every Python `dict`. -/
namespace C27

/-! ## helper lemmas -/

theorem firstFree_spec {g : Graph} {m} (h : firstFree g = some m) : (m, []) ∈ g := by
  induction g with
  | nil => simp [firstFree] at h
  | cons e rest ih =>
    obtain ⟨k, ds⟩ := e
    simp only [firstFree] at h
    split at h
    · rename_i he
      cases h
      have : ds = [] := by simpa using he
      subst this; simp
    · exact List.mem_cons_of_mem _ (ih h)

theorem firstFree_some_of_mem {g : Graph} {m} (h : (m, []) ∈ g) : ∃ m', firstFree g = some m' := by
  induction g with
  | nil => simp at h
  | cons e rest ih =>
    obtain ⟨k, ds⟩ := e
    simp only [firstFree]
    split
    · exact ⟨_, rfl⟩
    · rename_i hne
      rcases List.mem_cons.mp h with h | h
      · cases h; simp at hne
      · exact ih h

theorem firstFree_mem {g : Graph} {m} (h : firstFree g = some m) : m ∈ keys g := by
  have := firstFree_spec h
  exact List.mem_map.mpr ⟨_, this, rfl⟩

theorem firstMin_mem {g : Graph} {m n} (h : firstMin g = some (m, n)) : m ∈ keys g := by
  induction g generalizing m n with
  | nil => simp [firstMin] at h
  | cons e rest ih =>
    obtain ⟨k, ds⟩ := e
    simp only [firstMin] at h
    split at h
    · simp_all [keys]
    · rename_i m' n' heq
      split at h
      · simp_all [keys]
      · have := ih heq
        simp_all [keys]

theorem firstMin_some {g : Graph} (h : g ≠ []) : ∃ p, firstMin g = some p := by
  cases g with
  | nil => contradiction
  | cons e rest =>
    obtain ⟨k, ds⟩ := e
    simp only [firstMin]
    split
    · exact ⟨_, rfl⟩
    · split <;> exact ⟨_, rfl⟩

theorem pick_mem {g : Graph} {m} (h : pick g = some m) : m ∈ keys g := by
  unfold pick at h
  split at h
  · rename_i m' hf; cases h; exact firstFree_mem hf
  · cases hm : firstMin g with
    | none => simp [hm] at h
    | some p => obtain ⟨a, b⟩ := p; simp [hm] at h; subst h; exact firstMin_mem hm

theorem pick_some {g : Graph} (h : g ≠ []) : ∃ m, pick g = some m := by
  unfold pick
  split
  · exact ⟨_, rfl⟩
  · obtain ⟨p, hp⟩ := firstMin_some h; exact ⟨p.1, by simp [hp]⟩

theorem keys_removeMod (g : Graph) (m : Name) : keys (removeMod g m) = (keys g).filter (· != m) := by
  simp [keys, removeMod, List.map_map, List.filter_map]
  rfl

theorem keys_prune (g : Graph) : keys (prune g) = keys g := by
  simp [keys, prune, List.map_map]

theorem removeMod_length_lt {g : Graph} {m} (hmem : m ∈ keys g) :
    (removeMod g m).length < g.length := by
  have h1 : (removeMod g m).length = (keys (removeMod g m)).length := by simp [keys]
  have h2 : ((keys g).filter (· != m)).length < (keys g).length :=
    List.length_filter_lt_length_iff_exists.mpr ⟨m, hmem, by simp⟩
  have h3 : (keys g).length = g.length := by simp [keys]
  have h4 := congrArg List.length (keys_removeMod g m)
  omega

theorem sortAux_perm : ∀ (fuel : Nat) (g : Graph), (keys g).Nodup → g.length ≤ fuel →
    (sortAux fuel g).Perm (keys g) := by
  intro fuel
  induction fuel with
  | zero =>
    intro g _ hl
    have : g = [] := by cases g <;> simp_all
    subst this
    simp [sortAux, keys]
  | succ n ih =>
    intro g hnd hl
    by_cases hg : g = []
    · subst hg; simp [sortAux, pick, firstFree, firstMin, keys]
    · obtain ⟨m, hm⟩ := pick_some hg
      have hmem := pick_mem hm
      simp only [sortAux, hm]
      have hk := keys_removeMod g m
      have hnd' : (keys (removeMod g m)).Nodup := by rw [hk]; exact hnd.filter _
      have hlen : (removeMod g m).length ≤ n := by
        have := removeMod_length_lt hmem; omega
      have := ih (removeMod g m) hnd' hlen
      rw [hk] at this
      have hfe : (keys g).filter (· != m) = (keys g).erase m := by
        rw [List.Nodup.erase_eq_filter hnd]
      rw [hfe] at this
      exact (List.Perm.cons m this).trans (List.perm_cons_erase hmem).symm

/-! ## dependency relation, acyclicity -/

/-- `d` is a *known* dependency of `m` in `g`. -/
def depRel (g : Graph) (d m : Name) : Prop := ∃ ds, (m, ds) ∈ g ∧ d ∈ ds ∧ d ∈ keys g

/-- "The known dependencies contain no cycle": no module reaches itself through one or
more known-dependency edges (self-dependencies are cycles). -/
def Acyclic (g : Graph) : Prop := ∀ m, ¬ Relation.TransGen (depRel g) m m

/-- every dependency mentioned is a key (true after the pruning loop) -/
def Closed (g : Graph) : Prop := ∀ m ds d, (m, ds) ∈ g → d ∈ ds → d ∈ keys g

theorem entry_unique {g : Graph} (hnd : (keys g).Nodup) {m ds ds'}
    (h1 : (m, ds) ∈ g) (h2 : (m, ds') ∈ g) : ds = ds' := by
  induction g with
  | nil => simp at h1
  | cons e rest ih =>
    simp only [keys, List.map_cons, List.nodup_cons] at hnd
    rcases List.mem_cons.mp h1 with h1 | h1 <;> rcases List.mem_cons.mp h2 with h2 | h2
    · rw [← h1] at h2; cases h2; rfl
    · exfalso; apply hnd.1; rw [← h1]; exact List.mem_map.mpr ⟨_, h2, rfl⟩
    · exfalso; apply hnd.1; rw [← h2]; exact List.mem_map.mpr ⟨_, h1, rfl⟩
    · exact ih hnd.2 h1 h2

/-- A non-empty closed acyclic graph has an entry without dependencies. -/
theorem exists_sink {g : Graph} (hne : g ≠ []) (hc : Closed g) (ha : Acyclic g) :
    ∃ m, (m, []) ∈ g := by
  classical
  let K := {x : Name // x ∈ keys g}
  let r : K → K → Prop := fun a b => Relation.TransGen (depRel g) a.1 b.1
  have : IsTrans K r := ⟨fun _ _ _ h1 h2 => Relation.TransGen.trans h1 h2⟩
  have : Std.Irrefl r := ⟨fun a h => ha a.1 h⟩
  have : Finite K := List.finite_toSet (keys g) |>.to_subtype
  have wf : WellFounded r := Finite.wellFounded_of_trans_of_irrefl r
  obtain ⟨e, he⟩ := List.exists_mem_of_ne_nil g hne
  have hk : e.1 ∈ keys g := List.mem_map.mpr ⟨e, he, rfl⟩
  obtain ⟨a, -, hmin⟩ := wf.has_min Set.univ ⟨⟨e.1, hk⟩, trivial⟩
  obtain ⟨⟨m, ds⟩, hmem, hfst⟩ := List.mem_map.mp a.2
  refine ⟨m, ?_⟩
  cases ds with
  | nil => exact hmem
  | cons d rest =>
    exfalso
    have hd : d ∈ keys g := hc m (d :: rest) d hmem (by simp)
    refine hmin ⟨d, hd⟩ trivial ?_
    refine Relation.TransGen.single ⟨d :: rest, ?_, by simp, hd⟩
    simpa [← hfst] using hmem

theorem mem_removeMod {g : Graph} {m0 m ds} (h : (m, ds) ∈ g) (hne : m ≠ m0) :
    (m, ds.filter (· != m0)) ∈ removeMod g m0 := by
  unfold removeMod
  refine List.mem_map.mpr ⟨(m, ds), ?_, rfl⟩
  exact List.mem_filter.mpr ⟨h, by simpa using hne⟩

theorem of_mem_removeMod {g : Graph} {m0 m ds'} (h : (m, ds') ∈ removeMod g m0) :
    ∃ ds, (m, ds) ∈ g ∧ ds' = ds.filter (· != m0) ∧ m ≠ m0 := by
  unfold removeMod at h
  obtain ⟨⟨k, ds⟩, hk, heq⟩ := List.mem_map.mp h
  obtain ⟨hk1, hk2⟩ := List.mem_filter.mp hk
  cases heq
  exact ⟨ds, hk1, rfl, by simpa using hk2⟩

theorem closed_removeMod {g : Graph} (hc : Closed g) (m0 : Name) : Closed (removeMod g m0) := by
  intro m ds' d hm hd
  obtain ⟨ds, hmem, rfl, _⟩ := of_mem_removeMod hm
  obtain ⟨hd1, hd2⟩ := List.mem_filter.mp hd
  rw [keys_removeMod]
  exact List.mem_filter.mpr ⟨hc m ds d hmem hd1, hd2⟩

theorem depRel_removeMod {g : Graph} {m0 d m} (h : depRel (removeMod g m0) d m) : depRel g d m := by
  obtain ⟨ds', hm, hd, hk⟩ := h
  obtain ⟨ds, hmem, rfl, _⟩ := of_mem_removeMod hm
  rw [keys_removeMod] at hk
  exact ⟨ds, hmem, (List.mem_filter.mp hd).1, (List.mem_filter.mp hk).1⟩

theorem transGen_mono {r p : Name → Name → Prop} (hrp : ∀ a b, r a b → p a b) {a b}
    (h : Relation.TransGen r a b) : Relation.TransGen p a b := by
  induction h with
  | single h => exact .single (hrp _ _ h)
  | tail _ h ih => exact .tail ih (hrp _ _ h)

theorem acyclic_removeMod {g : Graph} (ha : Acyclic g) (m0 : Name) : Acyclic (removeMod g m0) :=
  fun m h => ha m (transGen_mono (fun _ _ => depRel_removeMod) h)

theorem pick_free_of_acyclic {g : Graph} (hne : g ≠ []) (hc : Closed g) (ha : Acyclic g) :
    ∃ m, pick g = some m ∧ (m, []) ∈ g := by
  obtain ⟨m, hm⟩ := exists_sink hne hc ha
  obtain ⟨m', hm'⟩ := firstFree_some_of_mem hm
  exact ⟨m', by simp [pick, hm'], firstFree_spec hm'⟩

theorem sortAux_order : ∀ (fuel : Nat) (g : Graph), (keys g).Nodup → Closed g → Acyclic g →
    g.length ≤ fuel → ∀ m ds d, (m, ds) ∈ g → d ∈ ds →
    (sortAux fuel g).idxOf d < (sortAux fuel g).idxOf m := by
  intro fuel
  induction fuel with
  | zero =>
    intro g _ _ _ hl m ds d hm _
    have : g = [] := by cases g <;> simp_all
    subst this; simp at hm
  | succ n ih =>
    intro g hnd hc ha hl m ds d hm hd
    have hne : g ≠ [] := by intro h; subst h; simp at hm
    obtain ⟨m0, hp, hfree⟩ := pick_free_of_acyclic hne hc ha
    have hmem0 : m0 ∈ keys g := pick_mem hp
    simp only [sortAux, hp]
    have hmne : m ≠ m0 := by
      intro h; subst h
      have := entry_unique hnd hm hfree
      subst this; simp at hd
    by_cases hd0 : d = m0
    · subst hd0
      rw [List.idxOf_cons_self, List.idxOf_cons_ne _ (Ne.symm hmne)]
      omega
    · have hnd' : (keys (removeMod g m0)).Nodup := by
        rw [keys_removeMod]; exact hnd.filter _
      have hlen : (removeMod g m0).length ≤ n := by
        have := removeMod_length_lt hmem0; omega
      have := ih (removeMod g m0) hnd' (closed_removeMod hc m0) (acyclic_removeMod ha m0) hlen
        m (ds.filter (· != m0)) d (mem_removeMod hm hmne)
        (List.mem_filter.mpr ⟨hd, by simpa using hd0⟩)
      rw [List.idxOf_cons_ne _ (Ne.symm hmne), List.idxOf_cons_ne _ (Ne.symm hd0)]
      omega

theorem closed_prune (g : Graph) : Closed (prune g) := by
  intro m ds' d hm hd
  unfold prune at hm
  obtain ⟨⟨k, ds⟩, _, heq⟩ := List.mem_map.mp hm
  cases heq
  rw [keys_prune]
  simpa using (List.mem_filter.mp hd).2

theorem depRel_prune {g : Graph} {d m} (h : depRel (prune g) d m) : depRel g d m := by
  obtain ⟨ds', hm, hd, hk⟩ := h
  unfold prune at hm
  obtain ⟨⟨k, ds⟩, hmem, heq⟩ := List.mem_map.mp hm
  cases heq
  rw [keys_prune] at hk
  exact ⟨ds, hmem, (List.mem_filter.mp hd).1, hk⟩

/-! ## The property -/

/-- **C27, clause 1 and 4**: every listed module is returned exactly once — for every
map, cyclic or not, with or without unknown dependencies. -/
theorem C27_perm (g : Graph) (h : (keys g).Nodup) : (sortModules g).Perm (keys g) := by
  have := sortAux_perm g.length (prune g) (by rw [keys_prune]; exact h) (by simp [prune])
  rw [keys_prune] at this
  exact this

/-- consequence: the result has no duplicates -/
theorem C27_nodup (g : Graph) (h : (keys g).Nodup) : (sortModules g).Nodup :=
  (C27_perm g h).nodup_iff.mpr h

/-- **C27, clause 2**: when the known dependencies contain no cycle, every module comes
after each of its known dependencies. -/
theorem C27_order (g : Graph) (h : (keys g).Nodup) (ha : Acyclic g) :
    ∀ m ds d, (m, ds) ∈ g → d ∈ ds → d ∈ keys g →
      (sortModules g).idxOf d < (sortModules g).idxOf m := by
  intro m ds d hm hd hk
  have hac : Acyclic (prune g) := fun x hx => ha x (transGen_mono (fun _ _ => depRel_prune) hx)
  refine sortAux_order g.length (prune g) (by rw [keys_prune]; exact h) (closed_prune g) hac
    (by simp [prune]) m (ds.filter (fun d => (keys g).contains d)) d ?_ ?_
  · exact List.mem_map.mpr ⟨(m, ds), hm, rfl⟩
  · exact List.mem_filter.mpr ⟨hd, by simpa using hk⟩

/-- **C27, clause 3**: unknown dependencies are ignored — the result is the one obtained
for the map from which they have been deleted. -/
theorem C27_unknown_ignored (g : Graph) : sortModules g = sortModules (prune g) := by
  have hpp : prune (prune g) = prune g := by
    have h1 : prune (prune g) = (prune g).map fun (m, ds) =>
        (m, ds.filter (fun d => (keys (prune g)).contains d)) := rfl
    rw [h1, keys_prune]
    unfold prune
    rw [List.map_map]
    apply List.map_congr_left
    intro ⟨m, ds⟩ _
    simp [List.filter_filter]
  unfold sortModules
  rw [hpp]; simp [prune]

/-! ## The producer of the map: `get_all_dependencies_recursively`

`LFRicExtractDriverCreator` sorts the map computed by the worklist closure modelled in
`Model/ModClosure.lean`.  The theorems below hold for every finite file system `w`, every
duplicate-free initial set and **every pop order** of the `todo` set (the oracle `o`). -/

/-- the worklist loop terminates (within `fuelBound` iterations) -/
theorem C27_closure_terminates (w : World) (init : List Name) (o : List Nat) (h : init.Nodup) :
    (closureSt w init o).todo = [] := (closureSt_spec w init o h).2

theorem C27_closure_keys_nodup (w : World) (init : List Name) (o : List Nat) (h : init.Nodup) :
    (keys (closure w init o)).Nodup := (closureSt_spec w init o h).1.keysNodup

theorem mem_keys_iff {g : Graph} {m : Name} : m ∈ keys g ↔ ∃ ds, (m, ds) ∈ g := by
  simp [keys]

theorem reach_cases (w : World) (init : List Name) (o : List Nat) (h : init.Nodup) {m : Name}
    (hr : Reach w init m) :
    m ∈ keys (closure w init o) ∨ m ∈ (closureSt w init o).notFound ∨ m ∈ w.ignores := by
  obtain ⟨hinv, htodo⟩ := closureSt_spec w init o h
  induction hr with
  | init hm =>
    rcases hinv.initC _ hm with h1 | h1 | h1 | h1
    · rw [htodo] at h1; simp at h1
    · exact .inl h1
    · exact .inr (.inl h1)
    · exact .inr (.inr h1)
  | @use m d u _ hinfo hig hd ih =>
    rcases ih with h1 | h1 | h1
    · obtain ⟨ds, hds⟩ := mem_keys_iff.mp h1
      obtain ⟨u', hu', _, hfil⟩ := hinv.entry m ds hds
      rw [hinfo] at hu'; cases hu'
      by_cases hnf : d ∈ (closureSt w init o).notFound
      · exact .inr (.inl hnf)
      · have hdds : d ∈ ds := by rw [hfil]; exact List.mem_filter.mpr ⟨hd, by simpa using hnf⟩
        rcases hinv.closed m ds d hds hdds with h2 | h2 | h2
        · exact .inl h2
        · rw [htodo] at h2; simp at h2
        · exact .inr (.inr h2)
    · have := (hinv.nf m h1).1; rw [hinfo] at this; cases this
    · exact absurd h1 hig

/-- **completeness and soundness of the keys**: the returned map lists exactly the modules
that are reachable from the initial set through found, non-ignored modules and that are
themselves found and not ignored ("This dictionary will be complete") -/
theorem C27_closure_keys (w : World) (init : List Name) (o : List Nat) (h : init.Nodup) (m : Name) :
    m ∈ keys (closure w init o) ↔ Reach w init m ∧ (w.info m).isSome ∧ m ∉ w.ignores := by
  obtain ⟨hinv, _⟩ := closureSt_spec w init o h
  constructor
  · intro hm
    obtain ⟨ds, hds⟩ := mem_keys_iff.mp hm
    obtain ⟨u, hu, hig, _⟩ := hinv.entry m ds hds
    exact ⟨hinv.sound m (.inr (.inl hm)), by simp [hu], hig⟩
  · rintro ⟨hr, hf, hig⟩
    rcases reach_cases w init o h hr with h1 | h1 | h1
    · exact h1
    · have := (hinv.nf m h1).1; rw [this] at hf; simp at hf
    · exact absurd h1 hig

/-- the modules recorded as not found are exactly the reachable ones without a source file -/
theorem closure_notFound (w : World) (init : List Name) (o : List Nat) (h : init.Nodup) (m : Name) :
    m ∈ (closureSt w init o).notFound ↔ Reach w init m ∧ w.info m = none ∧ m ∉ w.ignores := by
  obtain ⟨hinv, _⟩ := closureSt_spec w init o h
  constructor
  · intro hm
    exact ⟨hinv.sound m (.inr (.inr hm)), hinv.nf m hm⟩
  · rintro ⟨hr, hn, hig⟩
    rcases reach_cases w init o h hr with h1 | h1 | h1
    · obtain ⟨ds, hds⟩ := mem_keys_iff.mp h1
      obtain ⟨u, hu, _, _⟩ := hinv.entry m ds hds
      rw [hn] at hu; cases hu
    · exact h1
    · exact absurd h1 hig

/-- **the values**: the dependency set recorded for a module is its USE list minus the
modules that could not be found (ignored modules stay, `sort_modules` drops them) -/
theorem C27_closure_entry (w : World) (init : List Name) (o : List Nat) (h : init.Nodup)
    {m : Name} {ds : List Name} (hm : (m, ds) ∈ closure w init o) :
    ∃ u, w.info m = some u ∧ ∀ d, d ∈ ds ↔ d ∈ u ∧ ((w.info d).isSome ∨ d ∈ w.ignores) := by
  obtain ⟨hinv, htodo⟩ := closureSt_spec w init o h
  obtain ⟨u, hu, hig, hfil⟩ := hinv.entry m ds hm
  refine ⟨u, hu, fun d => ?_⟩
  constructor
  · intro hd
    have hd' : d ∈ u ∧ d ∉ (closureSt w init o).notFound := by
      rw [hfil] at hd; simpa using List.mem_filter.mp hd
    refine ⟨hd'.1, ?_⟩
    rcases hinv.closed m ds d hm hd with h1 | h1 | h1
    · exact .inl ((C27_closure_keys w init o h d).mp h1).2.1
    · rw [htodo] at h1; simp at h1
    · exact .inr h1
  · rintro ⟨hd, hfi⟩
    rw [hfil]
    refine List.mem_filter.mpr ⟨hd, ?_⟩
    have : d ∉ (closureSt w init o).notFound := by
      intro hnf
      have := hinv.nf d hnf
      rcases hfi with h1 | h1
      · rw [this.1] at h1; simp at h1
      · exact this.2 h1
    simpa using this

/-- **pop-order independence**: although `todo.pop()` removes an arbitrary element, the
returned map is the same *as a map* for every order (only the dict order differs) -/
theorem C27_closure_deterministic (w : World) (init : List Name) (o₁ o₂ : List Nat) (h : init.Nodup) :
    (∀ m, m ∈ keys (closure w init o₁) ↔ m ∈ keys (closure w init o₂)) ∧
    (∀ m ds₁ ds₂, (m, ds₁) ∈ closure w init o₁ → (m, ds₂) ∈ closure w init o₂ → ds₁ = ds₂) := by
  refine ⟨fun m => by rw [C27_closure_keys w init o₁ h, C27_closure_keys w init o₂ h], ?_⟩
  intro m ds₁ ds₂ h1 h2
  obtain ⟨u₁, hu₁, _, hf₁⟩ := (closureSt_spec w init o₁ h).1.entry m ds₁ h1
  obtain ⟨u₂, hu₂, _, hf₂⟩ := (closureSt_spec w init o₂ h).1.entry m ds₂ h2
  rw [hu₁] at hu₂; cases hu₂
  rw [hf₁, hf₂]
  apply List.filter_congr
  intro d _
  have := (closure_notFound w init o₁ h d).trans (closure_notFound w init o₂ h d).symm
  by_cases hd : d ∈ (closureSt w init o₁).notFound
  · simp [hd, this.mp hd]
  · have hd2 : d ∉ (closureSt w init o₂).notFound := fun h' => hd (this.mpr h')
    simp [hd, hd2]

/-- "module `m` uses module `d`" in the file system -/
def useRel (w : World) (d m : Name) : Prop := ∃ u, w.info m = some u ∧ d ∈ u

/-- **the pipeline is complete**: closure-then-sort returns each required module exactly once -/
theorem C27_pipeline_perm (w : World) (init : List Name) (o : List Nat) (h : init.Nodup) :
    (pipeline w init o).Perm (keys (closure w init o)) :=
  C27_perm _ (C27_closure_keys_nodup w init o h)

theorem C27_pipeline_complete (w : World) (init : List Name) (o : List Nat) (h : init.Nodup) (m : Name) :
    m ∈ pipeline w init o ↔ Reach w init m ∧ (w.info m).isSome ∧ m ∉ w.ignores := by
  rw [(C27_pipeline_perm w init o h).mem_iff, C27_closure_keys w init o h]

/-- **the pipeline orders dependencies first**: if the USE relation of the file system has
no cycle, every module in the result comes after every found, non-ignored module it uses —
for every pop order of the closure -/
theorem C27_pipeline_order (w : World) (init : List Name) (o : List Nat) (h : init.Nodup)
    (hac : ∀ m, ¬ Relation.TransGen (useRel w) m m) :
    ∀ m u d, m ∈ pipeline w init o → w.info m = some u → d ∈ u → (w.info d).isSome →
      d ∉ w.ignores → (pipeline w init o).idxOf d < (pipeline w init o).idxOf m := by
  intro m u d hm hu hd hdf hdi
  have hmk : m ∈ keys (closure w init o) := (C27_pipeline_perm w init o h).mem_iff.mp hm
  obtain ⟨ds, hds⟩ := mem_keys_iff.mp hmk
  obtain ⟨u', hu', hent⟩ := C27_closure_entry w init o h hds
  rw [hu] at hu'; cases hu'
  have hmr := (C27_closure_keys w init o h m).mp hmk
  have hdk : d ∈ keys (closure w init o) :=
    (C27_closure_keys w init o h d).mpr ⟨.use hmr.1 hu hmr.2.2 hd, hdf, hdi⟩
  have hacg : Acyclic (closure w init o) := by
    intro x hx
    refine hac x (transGen_mono ?_ hx)
    intro a b ⟨ds', hb, ha, _⟩
    obtain ⟨u'', hu'', hent'⟩ := C27_closure_entry w init o h hb
    exact ⟨u'', hu'', ((hent' a).mp ha).1⟩
  exact C27_order _ (C27_closure_keys_nodup w init o h) hacg m ds d hds
    ((hent d).mpr ⟨hd, .inl hdf⟩) hdk

/-! ## non-vacuity: the hypotheses are met by concrete non-trivial maps -/

/-- an acyclic map with an unknown dependency (9) and a diamond -/
def gOk : Graph := [(1, [2, 3]), (2, [4, 9]), (3, [4]), (4, [])]

example : (keys gOk).Nodup := by decide
example : sortModules gOk = [4, 2, 3, 1] := by decide

theorem gOk_acyclic : Acyclic gOk := by
  -- a rank function strictly decreasing along known-dependency edges
  have hrank : ∀ d m : Nat, depRel gOk d m → m < d := by
    intro d m ⟨ds, hm, hd, hk⟩
    simp [gOk, keys] at hm hk
    rcases hm with ⟨rfl, rfl⟩ | ⟨rfl, rfl⟩ | ⟨rfl, rfl⟩ | ⟨rfl, rfl⟩
    · simp at hd; rcases hd with rfl | rfl <;> decide
    · simp at hd; rcases hd with rfl | rfl
      · decide
      · simp at hk
    · simp at hd; subst hd; decide
    · simp at hd
  have : ∀ a b : Nat, Relation.TransGen (depRel gOk) a b → b < a := by
    intro a b h
    induction h with
    | single h => exact hrank _ _ h
    | tail _ h ih => exact Nat.lt_trans (hrank _ _ h) ih
  intro m h
  exact Nat.lt_irrefl _ (this m m h)

/-- a cyclic map with a self-dependency still yields every module once -/
example : sortModules [(1, [2]), (2, [1]), (3, [3, 1])] = [1, 2, 3] := by decide

/-- a file system with a diamond, an ignored module (7), a module without source (9) and an
unreachable module (5); the closure from {1} under three different pop orders -/
def wOk : World := { files := [(1, [2, 3, 7]), (2, [4, 9]), (3, [4]), (4, []), (5, [1])], ignores := [7] }

example : closure wOk [1] [] = [(1, [2, 3, 7]), (2, [4]), (3, [4]), (4, [])] := by decide
example : closure wOk [1] [0, 2, 1, 1] = [(1, [2, 3, 7]), (3, [4]), (4, []), (2, [4])] := by decide
example : pipeline wOk [1] [] = [4, 2, 3, 1] := by decide
example : pipeline wOk [1] [0, 2, 1, 1] = [4, 3, 2, 1] := by decide
/-- the not-found module discovered *after* its user was recorded is removed retroactively -/
example : closure wOk [1, 2] [1] = [(2, [4]), (1, [2, 3, 7]), (4, []), (3, [4])] := by decide

end C27
