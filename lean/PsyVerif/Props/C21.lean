import PsyVerif.Model.ArgOrder
import PsyVerif.Model.ArgOrderDoc
import PsyVerif.Gen.ArgOrder
/-! # C21 — LFRic kernel calls match the kernel interface for all metadata

**Mode: the model follows the FIXED code** (fix commits 41c6d86 basis/diff-basis arrays in `gh_shape`
order, 45c0541 stub stencil-size rank, fcd21de `nfaces_re_h` declaration are in /repo).

Model
* `Model/ArgOrder.lean`: `Metadata`; `walk` = `ArgOrdering.generate` (every branch, incl. the
  name-triggered boundary-condition kernels and the refusals); `callExpand` = `KernCallArgList`
  overrides, `stubExpand` = `KernStubArgList` overrides (incl. the base-class no-ops the stub class
  inherits), `accExpand` = `KernCallAccArgList` overrides; `callExpandPinned` = the caller before the fix.
* `Gen/ArgOrder.lean`: per argument class (`Atom`) the type/kind/rank the PSy layer passes and the
  stub declares, and the stub's intent — regenerated on every run from the real overrides on probe kernels.
* `Model/ArgOrderDoc.lean`: `docOrderAll` = independent formalisation of the user guide's argument
  rules for general-purpose, CMA assembly / application / matrix-matrix, inter-grid and domain kernels.

Property theorems (section "The property" and below; everything above are helper lemmas)
* `C21_agree`            call and stub agree position by position (count, type, kind, rank), ALL metadata
                          for which a stub is produced; `C21_leaf_agree`, `C21_gen_consistent`,
                          `C21_table_observed`, `C21_agree_observed` (table facts / non-vacuity),
                          `C21_stub_refusal_iff` (exactly when there is no stub), `C21_intent` (stub intents =
                          documented access→intent rule), `C21_nfaces_h_once`.
* `C21_pinned_counterexample`  the statement is false of the caller before the fix (evaluator listed before a quadrature shape).
* documented order: `C21_doc_partial` (general-purpose), `C21_doc_cma_assembly`, `C21_doc_cma_apply`,
  `C21_doc_cma_matrix_matrix`, `C21_doc_intergrid`, `C21_doc_domain_partial` + `C21_doc_domain_whole_is_doc`,
  summarised by `C21_doc_all_partial`; the full clause `C21_doc_all_statement` is FALSE
  (`C21_doc_all_counterexample`), one witness theorem per documentation-vs-code difference:
  `C21_doc_counterexample` (xory1d direction), `C21_doc_counterexample_diff_first`,
  `C21_doc_cma_assembly_counterexample` (ncell_3d), `C21_doc_cma_apply_counterexample` (indirection maps),
  `C21_doc_domain_counterexample` (whole dofmap), `C21_doc_refarray_type_counterexample` (normals documented integer).
* OpenACC variant: `C21_acc_covers_arrays`, `C21_acc_only_call_arrays` (cell-column kernels: the data list
  names exactly the device arrays behind the call's array arguments), `C21_acc_isArray_of_rank`,
  `C21_acc_domain_counterexample` (domain kernels: the whole dofmap is missing from the list).

Out of scope (named): user-supplied DoF kernels (the guide says unimplemented; PSy generation crashes),
CMA kernels with `meta_mesh` (both generators crash), documented rules for the two boundary-condition
kernels (none exist), CMA/inter-grid/domain kernels with basis/reference-element/mesh metadata (their
sections are silent).  These are replayed as `robustness_observations` in the evidence.

Quantification: every `Metadata` value (any number and combination of arguments, function
spaces, shapes, properties); no size bound. -/
namespace C21

/-! ## helper lemmas -/

/-- atoms only the PSy-layer side ever passes (inter-grid and domain kernels, which the stub
generator refuses) -/
def Atom.callerOnly : Atom → Bool
  | .cellMap | .ncpcX | .ncpcY | .ncellF | .ncell2dNoHalos | .dofmapWhole => true
  | _ => false

/-- parameter combinations a valid kernel can have -/
def Atom.wf : Atom → Bool
  | .fieldData dt acc => dt != .logical && acc != .sum
  | .opData acc | .cmaMatrix acc => acc == .read || acc == .write || acc == .readwrite
  | .scalar _ acc => acc == .read
  | .opProxy => false     -- OpenACC data list only, never a kernel argument
  | _ => true

def Call.wf : Call → Bool
  | .field dt acc | .fieldVector dt acc _ => dt != .logical && acc != .sum
  | .operator acc | .cmaOperator acc _ => acc == .read || acc == .write || acc == .readwrite
  | .scalar _ acc => acc == .read
  | _ => true

def Arg.valid : Arg → Bool
  | .field dt vec acc _ _ _ => dt != .logical && acc != .sum && vec ≥ 1
  | .op acc _ _ | .cma acc _ _ => acc == .read || acc == .write || acc == .readwrite
  | .scalar _ acc => acc == .read

/-- Validity of kernel metadata as far as the theorems need it (a consequence of what
`LFRicKernMetadata` accepts): legal data-type/access combinations, a basis function is requested
iff `gh_shape` is given, shapes are not repeated, user kernels do not operate on DoFs, and neither
`generate` nor the caller's boundary-condition sanity check refuses. -/
def valid (md : Metadata) : Bool :=
  md.args.all Arg.valid && md.operatesOn != .dof &&
  (md.shapes.isEmpty == !md.basisRequired) && md.funcs.all Func.needs &&
  callRefusal md == none

abbrev Valid (md : Metadata) : Prop := valid md = true

/-- the stub generator produces a stub for this metadata -/
abbrev StubSupported (md : Metadata) : Prop := stubRefusal md = none

theorem stubSupported_facts {md : Metadata} (h : StubSupported md) :
    md.isIntergrid = false ∧ md.operatesOn = .cellColumn := by
  unfold StubSupported stubRefusal at h
  split at h
  · simp at h
  · rename_i h1
    split at h
    · simp at h
    · rename_i h2
      constructor
      · simpa using h1
      · simpa using h2

theorem mem_stencilCalls {c : Call} {st : Stencil} (h : c ∈ stencilCalls st) :
    c = .stencilUnknownExtent ∨ c = .stencil2dUnknownExtent ∨ c = .stencil2dMaxExtent ∨
    c = .stencilUnknownDirection ∨ c = .stencil ∨ c = .stencil2d := by
  cases st <;> simp [stencilCalls] at h <;> grind

theorem mem_funcCalls {c : Call} {f : Option Func} (h : c ∈ funcCalls f) : c = .basis ∨ c = .diffBasis := by
  cases f with
  | none => simp [funcCalls] at h
  | some f =>
    simp only [funcCalls, List.mem_append] at h
    rcases h with h | h <;> split at h <;> simp at h <;> simp [h]

/-- the calls whose two expansions differ -/
def Call.special : Call → Bool
  | .ncell2dNoHalos | .cellMap | .fsIntergrid _ => true
  | _ => false

theorem argCalls_not_special {a : Arg} {c : Call} (h : c ∈ argCalls a) : c.special = false := by
  cases a with
  | field dt vec acc fs st m =>
    simp only [argCalls, List.mem_append] at h
    rcases h with h | h
    · split at h <;> simp at h <;> subst h <;> rfl
    · rcases mem_stencilCalls h with h | h | h | h | h | h <;> subst h <;> rfl
  | op acc t f => simp [argCalls] at h; subst h; rfl
  | cma acc t f => simp [argCalls] at h; subst h; rfl
  | scalar dt acc => simp [argCalls] at h; subst h; rfl

theorem fsCalls_special {md : Metadata} {fs : FS} {c : Call} (h : c ∈ fsCalls md fs)
    (hs : c.special = true) : md.isIntergrid = true := by
  simp only [fsCalls, List.mem_append] at h
  rcases h with (((h | h) | h) | h) | h
  · split at h <;> simp at h; subst h; simp [Call.special] at hs
  · split at h
    · split at h
      · assumption
      · simp at h; subst h; simp [Call.special] at hs
    · simp at h
  · split at h
    · split at h <;> simp at h <;> subst h <;> simp [Call.special] at hs
    · simp at h
  · rcases mem_funcCalls h with h | h <;> subst h <;> simp [Call.special] at hs
  · split at h <;> simp at h; subst h; simp [Call.special] at hs

/-- a call whose expansions differ only occurs for domain or inter-grid kernels -/
theorem walk_special {md : Metadata} {c : Call} (h : c ∈ walk md) (hs : c.special = true) :
    md.isIntergrid = true ∨ md.operatesOn = .domain := by
  simp only [walk, List.mem_append, List.mem_flatMap] at h
  rcases h with (((((((((h | h) | h) | h) | h) | h) | h) | h) | h) | h) | h
  · split at h <;> simp at h; subst h; simp [Call.special] at hs
  · split at h <;> simp at h; subst h; simp [Call.special] at hs
  · split at h
    · rename_i hd; right; simpa using hd
    · simp at h
  · split at h <;> simp at h; subst h; simp [Call.special] at hs
  · split at h
    · rename_i hi; left; exact hi
    · simp at h
  · obtain ⟨a, _, ha⟩ := h
    rw [argCalls_not_special ha] at hs; simp at hs
  · obtain ⟨fs, _, hfs⟩ := h
    left; exact fsCalls_special hfs hs
  · split at h <;> simp at h; subst h; simp [Call.special] at hs
  · split at h <;> simp at h; subst h; simp [Call.special] at hs
  · split at h <;> simp at h; subst h; simp [Call.special] at hs
  · split at h <;> simp at h; subst h; simp [Call.special] at hs

/-- for a kernel the stub generator supports, the (fixed) caller and the stub expand every call of
the walk into the same atoms -/
theorem expand_eq {md : Metadata} (h : StubSupported md) {c : Call} (hc : c ∈ walk md) :
    callExpand md c = stubExpand md c := by
  obtain ⟨hi, ho⟩ := stubSupported_facts h
  by_cases hs : c.special = true
  · rcases walk_special hc hs with h1 | h1
    · rw [hi] at h1; simp at h1
    · rw [ho] at h1; simp at h1
  · cases c <;> first
      | rfl
      | (simp [callExpand, callExpandWith, stubExpand, cellOrDomain, ho]; done)
      | (exfalso; simp [Call.special] at hs)

theorem flatMap_congr_mem {α β} (l : List α) (f g : α → List β) (h : ∀ a ∈ l, f a = g a) :
    l.flatMap f = l.flatMap g := by
  induction l with
  | nil => rfl
  | cons x xs ih =>
    simp only [List.flatMap_cons]
    rw [h x (by simp), ih (fun a ha => h a (by simp [ha]))]

theorem callArgs_eq_stubArgs {md : Metadata} (h : StubSupported md) : callArgs md = stubArgs md := by
  unfold callArgs stubArgs
  exact flatMap_congr_mem _ _ _ (fun c hc => expand_eq h hc)

theorem mem_basisByShape {md : Metadata} {q e a : Atom} (h : a ∈ basisByShape md q e) : a = q ∨ a = e := by
  simp only [basisByShape, List.mem_flatMap] at h
  obtain ⟨s, _, hs⟩ := h
  split at hs
  · simp at hs; exact Or.inl hs
  · exact Or.inr (List.eq_of_mem_replicate hs)

theorem mem_refAtoms {ps : List RefProp} {a : Atom} (h : a ∈ refAtoms ps) :
    (∃ k, a = .nfacesRe k) ∨ (∃ p, a = .refArray p) := by
  simp only [refAtoms, List.mem_append, List.mem_map] at h
  rcases h with ⟨k, _, rfl⟩ | ⟨p, _, rfl⟩
  · exact Or.inl ⟨k, rfl⟩
  · exact Or.inr ⟨p, rfl⟩

theorem mem_meshAtoms {md : Metadata} {a : Atom} (h : a ∈ meshAtoms md) :
    a = .nfacesRe .h ∨ a = .adjacentFace := by
  simp only [meshAtoms, List.mem_flatMap] at h
  obtain ⟨p, _, hp⟩ := h
  cases p
  simp only [List.mem_append] at hp
  rcases hp with hp | hp
  · split at hp <;> simp at hp; exact Or.inl hp
  · simp at hp; exact Or.inr hp

theorem mem_qrAtoms {s : Shape} {a : Atom} (h : a ∈ qrAtoms s) :
    a = .npXy ∨ a = .npZ ∨ a = .weightsXy ∨ a = .weightsZ ∨ a = .nfacesQr ∨ a = .nedgesQr ∨
    a = .npXyz ∨ a = .weightsXyz := by
  cases s <;> simp [qrAtoms] at h <;> grind

/-- atoms of a well-formed call are well-formed and (stub side) never caller-only -/
theorem stubExpand_atoms {md : Metadata} {c : Call} {a : Atom} (hc : c.wf = true) (h : a ∈ stubExpand md c) :
    a.callerOnly = false ∧ a.wf = true := by
  cases c <;> simp only [stubExpand] at h
  case basis => rcases mem_basisByShape h with h | h <;> subst h <;> exact ⟨rfl, rfl⟩
  case diffBasis => rcases mem_basisByShape h with h | h <;> subst h <;> exact ⟨rfl, rfl⟩
  case refElement => rcases mem_refAtoms h with ⟨k, rfl⟩ | ⟨p, rfl⟩ <;> exact ⟨rfl, rfl⟩
  case meshProperties => rcases mem_meshAtoms h with h | h <;> subst h <;> exact ⟨rfl, rfl⟩
  case quadRule =>
    simp only [List.mem_flatMap] at h
    obtain ⟨s, _, hs⟩ := h
    rcases mem_qrAtoms hs with h | h | h | h | h | h | h | h <;> subst h <;> exact ⟨rfl, rfl⟩
  case fieldVector dt acc n =>
    have := List.eq_of_mem_replicate h; subst this
    exact ⟨rfl, by simp [Call.wf, Atom.wf] at hc ⊢; try exact hc⟩
  case cmaOperator acc same =>
    simp only [List.mem_cons, List.mem_map] at h
    rcases h with rfl | ⟨p, _, rfl⟩
    · exact ⟨rfl, by simp [Call.wf, Atom.wf] at hc ⊢; try exact hc⟩
    · exact ⟨rfl, rfl⟩
  all_goals (simp at h)
  all_goals first
    | (subst h; exact ⟨rfl, by simp [Call.wf, Atom.wf] at hc ⊢; try exact hc⟩)
    | (rcases h with h | h <;> subst h <;> exact ⟨rfl, by simp [Call.wf, Atom.wf] at hc ⊢; try exact hc⟩)

theorem argCalls_wf {a : Arg} (ha : a.valid = true) {c : Call} (h : c ∈ argCalls a) : c.wf = true := by
  cases a with
  | field dt vec acc fs st m =>
    simp only [argCalls, List.mem_append] at h
    simp only [Arg.valid, Bool.and_eq_true] at ha
    rcases h with h | h
    · split at h <;> simp at h <;> subst h <;> simp [Call.wf, ha.1]
    · rcases mem_stencilCalls h with h | h | h | h | h | h <;> subst h <;> rfl
  | op acc t f => simp [argCalls] at h; subst h; simpa [Call.wf, Arg.valid] using ha
  | cma acc t f => simp [argCalls] at h; subst h; simpa [Call.wf, Arg.valid] using ha
  | scalar dt acc => simp [argCalls] at h; subst h; simpa [Call.wf, Arg.valid] using ha

theorem fsCalls_wf {md : Metadata} {fs : FS} {c : Call} (h : c ∈ fsCalls md fs) : c.wf = true := by
  simp only [fsCalls, List.mem_append] at h
  rcases h with (((h | h) | h) | h) | h
  · split at h <;> simp at h; subst h; rfl
  · split at h
    · split at h <;> simp at h <;> subst h <;> rfl
    · simp at h
  · split at h
    · split at h <;> simp at h <;> subst h <;> rfl
    · simp at h
  · rcases mem_funcCalls h with h | h <;> subst h <;> rfl
  · split at h <;> simp at h; subst h; rfl

theorem walk_wf {md : Metadata} (hv : md.args.all Arg.valid = true) {c : Call} (h : c ∈ walk md) :
    c.wf = true := by
  simp only [walk, List.mem_append, List.mem_flatMap] at h
  rcases h with (((((((((h | h) | h) | h) | h) | h) | h) | h) | h) | h) | h
  · split at h <;> simp at h; subst h; rfl
  · split at h <;> simp at h; subst h; rfl
  · split at h <;> simp at h; subst h; rfl
  · split at h <;> simp at h; subst h; rfl
  · split at h <;> simp at h; subst h; rfl
  · obtain ⟨a, hmem, ha⟩ := h
    exact argCalls_wf (List.all_eq_true.mp hv a hmem) ha
  · obtain ⟨fs, _, hfs⟩ := h
    exact fsCalls_wf hfs
  · split at h <;> simp at h; subst h; rfl
  · split at h <;> simp at h; subst h; rfl
  · split at h <;> simp at h; subst h; rfl
  · split at h <;> simp at h; subst h; rfl

theorem valid_args {md : Metadata} (h : Valid md) : md.args.all Arg.valid = true := by
  unfold Valid valid at h
  simp only [Bool.and_eq_true] at h
  exact h.1.1.1.1

/-! ### lemmas for the documented order -/

/-- side condition excluding the two places where the user guide and the code differ: an `xory1d`
stencil (the guide lists the direction argument after the stencil dofmap, the code passes it
before), and a `func_type` entry naming `gh_diff_basis` before `gh_basis` (the guide says
"in the order specified in the metadata", the code always passes basis first). -/
def Arg.notXory1d : Arg → Bool
  | .field _ _ _ _ st _ => st != .xory1d
  | _ => true

def docSide (md : Metadata) : Bool :=
  md.args.all Arg.notXory1d && md.funcs.all (fun f => !(f.diffFirst && f.basis && f.diff))

theorem any_congr_mem_c21 {α} (l : List α) (f g : α → Bool) (h : ∀ a ∈ l, f a = g a) : l.any f = l.any g := by
  induction l with
  | nil => rfl
  | cons x xs ih =>
    simp only [List.any_cons]
    rw [h x (by simp), ih (fun a ha => h a (by simp [ha]))]

theorem flatMap_flatMap_c21 {α β γ} (l : List α) (f : α → List β) (g : β → List γ) :
    (l.flatMap f).flatMap g = l.flatMap (fun a => (f a).flatMap g) := by
  induction l with
  | nil => rfl
  | cons x xs ih => simp [List.flatMap_cons, List.flatMap_append, ih]

theorem evalShapes_eq {md : Metadata} (h : Valid md) : md.evalShapes = md.shapes := by
  unfold Valid valid at h
  simp only [Bool.and_eq_true] at h
  have h3 := h.1.1.2
  unfold Metadata.evalShapes
  split
  · rfl
  · rename_i hb
    have hb' : md.basisRequired = false := by simpa using hb
    rw [hb'] at h3
    have : md.shapes.isEmpty = true := by simpa using h3
    exact (List.isEmpty_iff.mp this).symm

theorem dedupAux_mesh_seen : ∀ l : List MeshProp, dedupAux [MeshProp.adjacentFace] l = []
  | [] => rfl
  | .adjacentFace :: xs => by
    simp only [dedupAux]
    have : [MeshProp.adjacentFace].contains MeshProp.adjacentFace = true := by decide
    rw [if_pos this]
    exact dedupAux_mesh_seen xs

theorem dedup_mesh : ∀ l : List MeshProp, dedup l = if l.isEmpty then [] else [MeshProp.adjacentFace]
  | [] => rfl
  | .adjacentFace :: xs => by
    simp only [dedup, dedupAux]
    have : ([] : List MeshProp).contains MeshProp.adjacentFace = false := by decide
    simp [dedupAux_mesh_seen]

theorem mesh_contains : ∀ l : List MeshProp, l.contains MeshProp.adjacentFace = !l.isEmpty
  | [] => rfl
  | .adjacentFace :: xs => by simp

theorem flatMap_qr_filter : ∀ l : List Shape,
    (l.filter Shape.isQuad).flatMap qrAtoms = l.flatMap qrAtoms
  | [] => rfl
  | s :: xs => by
    cases s <;> simp [List.filter, Shape.isQuad, qrAtoms, List.flatMap_cons, flatMap_qr_filter xs]

theorem docQuadrature_eq (md : Metadata) : docQuadrature md = md.shapes.flatMap qrAtoms := by
  unfold docQuadrature
  congr 1

/-- rule 3 against the per-argument part of the walk -/
theorem arg_doc {md : Metadata} {a : Arg} (hc : a.isCma = false)
    (hx : a.notXory1d = true) :
    (argCalls a).flatMap (stubExpand md) = docArg a := by
  cases a with
  | field dt vec acc fs st m =>
    cases st <;> simp [Arg.notXory1d] at hx <;>
      by_cases hv : vec > 1 <;>
      simp [argCalls, stencilCalls, docArg, docStencil, stubExpand, hv, List.flatMap_cons]
  | op acc t f => simp [argCalls, docArg, stubExpand, List.flatMap_cons]
  | cma acc t f => simp [Arg.isCma] at hc
  | scalar dt acc => simp [argCalls, docArg, stubExpand, List.flatMap_cons]

theorem noCma_cmaOp {md : Metadata} (h : md.hasCma = false) : md.cmaOp = .none := by
  unfold Metadata.hasCma at h
  have : md.args.filter Arg.isCma = [] := by
    rw [List.filter_eq_nil_iff]
    intro a ha
    have := List.any_eq_false.mp h a ha
    simpa using this
  simp [Metadata.cmaOp, this]

theorem noCma_cmaOnSpace {md : Metadata} (h : md.hasCma = false) (fs : FS) : md.cmaOnSpace fs = false := by
  unfold Metadata.hasCma at h
  unfold Metadata.cmaOnSpace
  rw [List.any_eq_false]
  intro a ha
  have := List.any_eq_false.mp h a ha
  simp [this]

theorem basisByShape_doc {md : Metadata} (hv : Valid md) (q e : Atom) :
    basisByShape md q e = docOperation md q e := by
  unfold basisByShape docOperation
  rw [evalShapes_eq hv]

theorem funcs_doc {md : Metadata} (hv : Valid md) (f : Func)
    (hf : (!(f.diffFirst && f.basis && f.diff)) = true) :
    (funcCalls (some f)).flatMap (stubExpand md) = docFuncs md (some f) := by
  simp only [funcCalls, docFuncs, List.flatMap_append]
  cases hb : f.basis <;> cases hd : f.diff <;> cases hdf : f.diffFirst <;>
    simp [hb, hd, hdf, stubExpand, basisByShape_doc hv, List.flatMap_cons] at hf ⊢

/-- rule 4 against the per-function-space part of the walk -/
theorem fs_doc {md : Metadata} (hv : Valid md) (hsc : docScope md = true) (hside : docSide md = true)
    (fs : FS) : (fsCalls md fs).flatMap (stubExpand md) = docSpace md fs := by
  simp only [docScope, Bool.and_eq_true] at hsc
  obtain ⟨⟨⟨_, hcma⟩, hig⟩, hbc⟩ := hsc
  have hcma' : md.hasCma = false := by simpa using hcma
  have hig' : md.isIntergrid = false := by simpa using hig
  have hbc' : md.bc = .none := by simpa using hbc
  have hfunc : (funcCalls (md.findFunc fs)).flatMap (stubExpand md) = docFuncs md (md.findFunc fs) := by
    cases hfind : md.findFunc fs with
    | none => simp [funcCalls, docFuncs]
    | some f =>
      have hmem : f ∈ md.funcs := List.mem_of_find?_eq_some hfind
      simp only [docSide, Bool.and_eq_true] at hside
      exact funcs_doc hv f (List.all_eq_true.mp hside.2 f hmem)
  simp only [fsCalls, docSpace, noCma_cmaOp hcma', noCma_cmaOnSpace hcma', hig', hbc', List.flatMap_append, hfunc]
  by_cases hfo : md.fieldOnSpace fs = true <;> simp [hfo, stubExpand, List.flatMap_cons]

/-! ## The property -/

/-- Per-leaf agreement, checked against the regenerated tables: for every argument class both sides
can produce, the actual the PSy layer passes and the dummy the stub declares have the same type,
kind and rank. -/
theorem C21_leaf_agree : ∀ a : Atom, a.callerOnly = false → Gen.callSig a = Gen.stubSig a := by
  intro a h
  cases a <;> first
    | rfl
    | (exfalso; simp [Atom.callerOnly] at h; done)
    | (rename_i x y; cases x <;> cases y <;> rfl)
    | (rename_i x; cases x <;> rfl)

/-- The translator saw one signature per argument class and classified every argument. -/
theorem C21_gen_consistent : Gen.consistent = true := by decide

/-- Every argument class that a valid kernel can produce was observed on the real code (so the
agreement below is never about an unobserved table entry). -/
theorem C21_table_observed : ∀ a : Atom, a.wf = true →
    (Gen.callSig a).isSome = true ∧ (a.callerOnly = false → (Gen.stubSig a).isSome = true) := by
  intro a h
  cases a <;> first
    | exact ⟨rfl, fun _ => rfl⟩
    | exact ⟨rfl, fun h' => by simp [Atom.callerOnly] at h'⟩
    | (exfalso; simp [Atom.wf] at h; done)
    | (rename_i x y; cases x <;> cases y <;> first | exact ⟨rfl, fun _ => rfl⟩ | (exfalso; simp [Atom.wf] at h; done))
    | (rename_i x; cases x <;> first | exact ⟨rfl, fun _ => rfl⟩ | (exfalso; simp [Atom.wf] at h; done))

/-- **C21 (agreement)**: for every metadata for which a stub is produced, the argument list passed by
the PSy layer and the dummy-argument list of the stub agree position by position in count, type,
kind and rank. -/
theorem C21_agree : ∀ md : Metadata, StubSupported md →
    (callArgs md).map Gen.callSig = (stubArgs md).map Gen.stubSig := by
  intro md h
  rw [callArgs_eq_stubArgs h]
  apply List.map_congr_left
  intro a ha
  simp only [stubArgs, List.mem_flatMap] at ha
  obtain ⟨c, _, hac⟩ := ha
  -- caller-only atoms never occur on the stub side (whatever the parameters of the call)
  apply C21_leaf_agree
  cases c <;> simp only [stubExpand] at hac
  case basis => rcases mem_basisByShape hac with h | h <;> subst h <;> rfl
  case diffBasis => rcases mem_basisByShape hac with h | h <;> subst h <;> rfl
  case refElement => rcases mem_refAtoms hac with ⟨k, rfl⟩ | ⟨p, rfl⟩ <;> rfl
  case meshProperties => rcases mem_meshAtoms hac with h | h <;> subst h <;> rfl
  case quadRule =>
    simp only [List.mem_flatMap] at hac
    obtain ⟨s, _, hs⟩ := hac
    rcases mem_qrAtoms hs with h | h | h | h | h | h | h | h <;> subst h <;> rfl
  case fieldVector dt acc n => have := List.eq_of_mem_replicate hac; subst this; rfl
  case cmaOperator acc same =>
    simp only [List.mem_cons, List.mem_map] at hac
    rcases hac with rfl | ⟨p, _, rfl⟩ <;> rfl
  all_goals (simp at hac)
  all_goals first
    | (subst hac; rfl)
    | (rcases hac with h | h <;> subst h <;> rfl)

/-- … and for valid metadata every compared entry is an observed signature (non-vacuity of the
table lookup): both lists consist of `some _`. -/
theorem C21_agree_observed : ∀ md : Metadata, Valid md → StubSupported md →
    ∀ a ∈ stubArgs md, (Gen.callSig a).isSome = true ∧ (Gen.stubSig a).isSome = true := by
  intro md hv hs a ha
  simp only [stubArgs, List.mem_flatMap] at ha
  obtain ⟨c, hc, hac⟩ := ha
  have hcw := walk_wf (valid_args hv) hc
  obtain ⟨h1, h2⟩ := stubExpand_atoms hcw hac
  obtain ⟨h3, h4⟩ := C21_table_observed a h2
  exact ⟨h3, h4 h1⟩

/-- **C21 (intent)**: the intent the stub declares for every argument class is the documented one
(`gh_read` → `in`, updating accesses → `inout`, implicit arguments `in`). -/
theorem C21_intent : ∀ a : Atom, a.wf = true → a.callerOnly = false → Gen.stubIntent a = a.docIntent := by
  intro a h hc
  cases a <;> first
    | rfl
    | (exfalso; simp [Atom.callerOnly] at hc; done)
    | (exfalso; simp [Atom.wf] at h; done)
    | (rename_i x y; cases x <;> cases y <;> first | rfl | (exfalso; simp [Atom.wf] at h; done))
    | (rename_i x; cases x <;> first | rfl | (exfalso; simp [Atom.wf] at h; done))

/-- The stub generator's refusals are exactly: inter-grid kernels, kernels not operating on cell
columns, basis functions on an `any_*space`, and `generate`'s own refusals. -/
theorem C21_stub_refusal_iff (md : Metadata) :
    StubSupported md ↔ (md.isIntergrid = false ∧ md.operatesOn = .cellColumn ∧
      md.funcs.any (fun f => f.needs && decide (f.fs ≥ anySpaceBase)) = false ∧ generateRefusal md = none) := by
  unfold StubSupported stubRefusal
  constructor
  · intro h
    split at h
    · simp at h
    · rename_i h1
      split at h
      · simp at h
      · rename_i h2
        split at h
        · simp at h
        · rename_i h3
          split at h
          · simp at h
          · rename_i h4
            exact ⟨by simpa using h1, by simpa using h2, by simpa using h3, h4⟩
  · rintro ⟨h1, h2, h3, h4⟩
    simp [h1, h2, h3, h4]

/-! ### the pinned caller (before `fixes/C21-basis-shape-order.patch`) -/

/-- witness: two fields on `w1`/`w2`, `func_type(w1, gh_basis)`, `gh_shape = (/gh_evaluator, gh_quadrature_xyoz/)` -/
def witnessEvalFirst : Metadata :=
  { operatesOn := .cellColumn
    args := [.field .real 1 .inc 1 .none .none, .field .real 1 .read 2 .none .none]
    funcs := [{ fs := 1, basis := true, diff := false }]
    shapes := [.evaluator, .xyoz], targets := [], refelem := [], mesh := [], bc := .none }

/-- the statement of C21 for the PINNED `KernCallArgList` -/
def C21_pinned_statement : Prop :=
  ∀ md : Metadata, Valid md → StubSupported md →
    (callArgsPinned md).map Gen.callSig = (stubArgs md).map Gen.stubSig

/-- The pinned caller passes every quadrature basis array before the evaluator arrays, the stub
(and the documentation) follow the order of `gh_shape`: ranks 4,3 against 3,4. -/
theorem C21_pinned_counterexample : ¬ C21_pinned_statement := by
  intro h
  have := h witnessEvalFirst (by decide) (by decide)
  revert this
  decide

example : Valid witnessEvalFirst ∧ StubSupported witnessEvalFirst := by decide
example : (callArgs witnessEvalFirst).map Gen.callSig = (stubArgs witnessEvalFirst).map Gen.stubSig := by decide

/-! ### the documented order -/


/-- the full documentation clause -/
def C21_doc_statement : Prop :=
  ∀ md : Metadata, Valid md → ∀ d, docOrder md = some d → stubArgs md = d

def witnessXory1d : Metadata :=
  { operatesOn := .cellColumn
    args := [.field .real 1 .inc 1 .none .none, .field .real 1 .read 2 .xory1d .none]
    funcs := [], shapes := [], targets := [], refelem := [], mesh := [], bc := .none }

def witnessDiffFirst : Metadata :=
  { operatesOn := .cellColumn
    args := [.field .real 1 .inc 1 .none .none]
    funcs := [{ fs := 1, basis := true, diff := true, diffFirst := true }]
    shapes := [.xyoz], targets := [], refelem := [], mesh := [], bc := .none }

theorem C21_doc_counterexample : ¬ C21_doc_statement := by
  intro h
  have := h witnessXory1d (by decide) _ rfl
  revert this
  decide

theorem C21_doc_counterexample_diff_first :
    Valid witnessDiffFirst ∧ docSide witnessDiffFirst = false ∧
    docOrder witnessDiffFirst ≠ some (stubArgs witnessDiffFirst) := by decide

/-- **C21 (documented order)**, general-purpose kernels: outside the two documented-vs-implemented
differences (`docSide`), the stub's — hence also the caller's (`C21_agree`) — argument list is
exactly the one prescribed by rules 1–7 of the user guide. -/
theorem C21_doc_partial : ∀ md : Metadata, Valid md → docSide md = true →
    ∀ d, docOrder md = some d → stubArgs md = d := by
  intro md hv hside d hd
  unfold docOrder at hd
  split at hd
  · rename_i hsc
    injection hd with hd
    subst hd
    have hsc' := hsc
    simp only [docScope, Bool.and_eq_true] at hsc'
    obtain ⟨⟨⟨hop, hcma⟩, hig⟩, hbc⟩ := hsc'
    have hcma' : md.hasCma = false := by simpa using hcma
    have hig' : md.isIntergrid = false := by simpa using hig
    have hbc' : md.bc = .none := by simpa using hbc
    have hop' : md.operatesOn = .cellColumn := by simpa using hop
    have hargs : (md.args.flatMap argCalls).flatMap (stubExpand md) = md.args.flatMap docArg := by
      rw [flatMap_flatMap_c21]
      apply flatMap_congr_mem
      intro a ha
      simp only [docSide, Bool.and_eq_true] at hside
      refine arg_doc ?_ (List.all_eq_true.mp hside.1 a ha)
      have := List.any_eq_false.mp (by simpa [Metadata.hasCma] using hcma') a ha
      simpa using this
    have hfss : (md.uniqueFss.flatMap (fsCalls md)).flatMap (stubExpand md)
        = (dedup (md.args.flatMap Arg.spaces)).flatMap (docSpace md) := by
      rw [flatMap_flatMap_c21]
      apply flatMap_congr_mem
      intro fs _
      exact fs_doc hv hsc hside fs
    have hop2 : md.hasOperator = md.hasLma := by
      unfold Metadata.hasOperator Metadata.hasLma
      apply any_congr_mem_c21
      intro a ha
      have := List.any_eq_false.mp (by simpa [Metadata.hasCma] using hcma') a ha
      simp [this]
    have href : (if (!md.refelem.isEmpty) = true then [Call.refElement] else []).flatMap (stubExpand md)
        = docRefElement md.refelem := by
      cases hr : md.refelem with
      | nil => rfl
      | cons x xs => simp [stubExpand, hr, refAtoms, docRefElement, List.flatMap_cons]
    have hmesh : (if (!md.mesh.isEmpty) = true then [Call.meshProperties] else []).flatMap (stubExpand md)
        = docMesh md := by
      unfold docMesh
      rw [mesh_contains]
      cases hm : md.mesh with
      | nil => rfl
      | cons x xs =>
        cases x
        simp [stubExpand, meshAtoms, hm, dedup_mesh, List.flatMap_cons]
    have hqr : (if (!md.qrShapes.isEmpty) = true then [Call.quadRule] else []).flatMap (stubExpand md)
        = docQuadrature md := by
      rw [docQuadrature_eq, ← flatMap_qr_filter, ← evalShapes_eq hv]
      change _ = md.qrShapes.flatMap qrAtoms
      cases hq : md.qrShapes with
      | nil => rfl
      | cons x xs => simp [stubExpand, hq, List.flatMap_cons]
    simp only [docGeneral, stubArgs, walk, List.flatMap_append, hargs, hfss, href, hmesh, hqr, noCma_cmaOp hcma',
      hcma', hig', hbc', hop', hop2]
    cases md.hasLma <;> simp [stubExpand, List.flatMap_cons]
  · simp at hd

example : Valid witnessDiffFirst := by decide
/-- non-vacuity of `C21_doc_partial`: a kernel with an LMA operator, a field vector with a region
stencil, basis functions, two shapes, reference-element and mesh properties is in its scope -/
def docExample : Metadata :=
  { operatesOn := .cellColumn
    args := [.op .write 0 1, .field .real 3 .read 0 .region .none, .scalar .integer .read,
             .field .real 1 .read 2 .cross2d .none]
    funcs := [{ fs := 0, basis := true, diff := true }]
    shapes := [.evaluator, .face], targets := [0, 1]
    refelem := [.normalsV, .outH], mesh := [.adjacentFace], bc := .none }
example : Valid docExample ∧ docSide docExample = true ∧ StubSupported docExample ∧
    docOrder docExample = some (stubArgs docExample) ∧ (stubArgs docExample).length = 35 := by decide

/-! ### `nfaces_re_h` with the `adjacent_face` mesh property (rules 5 and 6.1): passed exactly once -/
def meshWitness (ps : List RefProp) : Metadata :=
  { operatesOn := .cellColumn
    args := [.scalar .real .read, .field .real 1 .inc 1 .none .none]
    funcs := [], shapes := [], targets := [], refelem := ps, mesh := [.adjacentFace], bc := .none }

/-- for every single reference-element property together with `adjacent_face`, `nfaces_re_h` occurs
exactly once in the stub's list, before `adjacent_face`, and the list is the documented one -/
theorem C21_nfaces_h_once : ∀ p : RefProp,
    (stubArgs (meshWitness [p])).count (.nfacesRe .h) = 1 ∧
    docOrder (meshWitness [p]) = some (stubArgs (meshWitness [p])) ∧
    callArgs (meshWitness [p]) = stubArgs (meshWitness [p]) := by
  intro p; cases p <;> decide

/-! ### the documented order: CMA, inter-grid and domain kernels -/

theorem plain_facts {md : Metadata} (h : md.plain = true) :
    md.funcs = [] ∧ md.shapes = [] ∧ md.refelem = [] ∧ md.mesh = [] := by
  simp only [Metadata.plain, Bool.and_eq_true, List.isEmpty_iff] at h
  exact ⟨h.1.1.1, h.1.1.2, h.1.2, h.2⟩

theorem plain_qrShapes {md : Metadata} (h : md.funcs = []) : md.qrShapes = [] := by
  simp [Metadata.qrShapes, Metadata.evalShapes, Metadata.basisRequired, h]

theorem cmaOp_hasCma {md : Metadata} (h : md.cmaOp ≠ .none) : md.hasCma = true := by
  unfold Metadata.cmaOp at h
  by_cases he : (md.args.filter Arg.isCma).isEmpty = true
  · simp [he] at h
  · unfold Metadata.hasCma
    rw [List.any_eq_true]
    have hne : md.args.filter Arg.isCma ≠ [] := by simpa [List.isEmpty_iff] using he
    cases hf : md.args.filter Arg.isCma with
    | nil => exact absurd hf hne
    | cons a rest =>
      have hm : a ∈ md.args.filter Arg.isCma := by rw [hf]; simp
      rw [List.mem_filter] at hm
      exact ⟨a, hm.1, hm.2⟩

theorem hasCma_hasOperator {md : Metadata} (h : md.hasCma = true) : md.hasOperator = true := by
  unfold Metadata.hasCma at h
  unfold Metadata.hasOperator
  rw [List.any_eq_true] at h ⊢
  obtain ⟨a, ha, hc⟩ := h
  exact ⟨a, ha, by simp [hc]⟩

theorem section_cma {md : Metadata} {s : DocSection} (h : docSection md = some s)
    (hs : s = .cmaAssembly ∨ s = .cmaApply ∨ s = .cmaMatrixMatrix) :
    md.bc = .none ∧ md.isIntergrid = false ∧ md.operatesOn = .cellColumn ∧ md.plain = true ∧
    ((s = .cmaAssembly ∧ md.cmaOp = .assembly) ∨ (s = .cmaApply ∧ md.cmaOp = .apply) ∨
     (s = .cmaMatrixMatrix ∧ md.cmaOp = .matrixMatrix)) := by
  unfold docSection at h
  split at h
  · simp at h
  · rename_i h1
    simp only [Bool.or_eq_true, not_or] at h1
    have hbc : md.bc = .none := by simpa using h1.1
    have hdof : md.operatesOn ≠ .dof := by simpa using h1.2
    split at h
    · split at h
      · injection h with h; subst h; rcases hs with hs | hs | hs <;> cases hs
      · simp at h
    · rename_i hig
      split at h
      · split at h
        · injection h with h; subst h; rcases hs with hs | hs | hs <;> cases hs
        · simp at h
      · rename_i hdom
        have hcc : md.operatesOn = .cellColumn := by
          cases hoo : md.operatesOn <;> simp_all
        have hig' : md.isIntergrid = false := by simpa using hig
        split at h
        · injection h with h; subst h; rcases hs with hs | hs | hs <;> cases hs
        · rename_i hc; split at h
          · rename_i hp; injection h with h; subst h; exact ⟨hbc, hig', hcc, hp, Or.inl ⟨rfl, hc⟩⟩
          · simp at h
        · rename_i hc; split at h
          · rename_i hp; injection h with h; subst h; exact ⟨hbc, hig', hcc, hp, Or.inr (Or.inl ⟨rfl, hc⟩)⟩
          · simp at h
        · rename_i hc; split at h
          · rename_i hp; injection h with h; subst h; exact ⟨hbc, hig', hcc, hp, Or.inr (Or.inr ⟨rfl, hc⟩)⟩
          · simp at h

theorem cmaOperator_doc (md : Metadata) (acc : Access) (t f : FS) :
    (argCalls (.cma acc t f)).flatMap (stubExpand md) = docCmaOperator acc t f := by
  cases h : (t == f) <;> simp [argCalls, stubExpand, docCmaOperator, cmaParams, h, List.flatMap_cons, bne]

theorem assembly_arg {md : Metadata} {a : Arg} (ho : a.isOp = false) (hx : a.notXory1d = true) :
    (argCalls a).flatMap (stubExpand md) = docAssemblyArg a := by
  cases a with
  | field dt vec acc fs st m => exact arg_doc rfl hx
  | op acc t f => simp [Arg.isOp] at ho
  | cma acc t f => exact cmaOperator_doc md acc t f
  | scalar dt acc => exact arg_doc rfl hx

/-- side condition for assembly kernels: the (single) LMA operator is the first `meta_args` entry.
Otherwise the documented single `ncell_3d` (rule 4) and the implemented `<op>_ncell_3d` directly
before every LMA operator are at different positions. -/
def lmaFirstOnly (md : Metadata) : Bool :=
  match md.args with
  | a :: rest => a.isOp && !rest.any Arg.isOp
  | [] => false

/-- **documented order, CMA assembly kernels** -/
theorem C21_doc_cma_assembly : ∀ md : Metadata, docSide md = true → lmaFirstOnly md = true →
    docSection md = some .cmaAssembly → stubArgs md = docAssembly md := by
  intro md hside hl hsec
  obtain ⟨hbc, hig, hoo, hp, hc⟩ := section_cma hsec (Or.inl rfl)
  have hc : md.cmaOp = .assembly := by
    rcases hc with ⟨_, h⟩ | ⟨h, _⟩ | ⟨h, _⟩
    · exact h
    · cases h
    · cases h
  have hcma : md.hasCma = true := cmaOp_hasCma (by rw [hc]; simp)
  have hop : md.hasOperator = true := hasCma_hasOperator hcma
  obtain ⟨hf, _, _, _⟩ := plain_facts hp
  have hfss : (md.uniqueFss.flatMap (fsCalls md)).flatMap (stubExpand md)
      = (dedup (md.args.flatMap Arg.spaces)).flatMap (docAssemblySpace md) := by
    rw [flatMap_flatMap_c21]
    apply flatMap_congr_mem
    intro fs _
    simp only [fsCalls, docAssemblySpace, hc, hig, hbc, Metadata.findFunc, hf, List.find?_nil, funcCalls,
      List.flatMap_append]
    by_cases h1 : md.fieldOnSpace fs = true <;> by_cases h2 : md.cmaOnSpace fs = true <;>
      simp [h1, h2, stubExpand, List.flatMap_cons]
  simp only [docSide, Bool.and_eq_true] at hside
  have hargs : (md.args.flatMap argCalls).flatMap (stubExpand md)
      = Atom.opNcell3d :: md.args.flatMap docAssemblyArg := by
    unfold lmaFirstOnly at hl
    cases hargs : md.args with
    | nil => simp [hargs] at hl
    | cons a rest =>
      simp only [hargs, Bool.and_eq_true] at hl
      have hrest : (rest.flatMap argCalls).flatMap (stubExpand md) = rest.flatMap docAssemblyArg := by
        rw [flatMap_flatMap_c21]
        apply flatMap_congr_mem
        intro b hb
        refine assembly_arg ?_ (List.all_eq_true.mp hside.1 b (by rw [hargs]; simp [hb]))
        have := hl.2
        simp only [Bool.not_eq_true', List.any_eq_false] at this
        simpa using this b hb
      cases a with
      | op acc t f =>
        simp [List.flatMap_cons, argCalls, stubExpand, docAssemblyArg, hrest]
      | field dt vec acc fs st m => simp [Arg.isOp] at hl
      | cma acc t f => simp [Arg.isOp] at hl
      | scalar dt acc => simp [Arg.isOp] at hl
  obtain ⟨_, _, hr, hm⟩ := plain_facts hp
  have hq := plain_qrShapes hf
  simp only [stubArgs, walk, docAssembly, List.flatMap_append, hargs, hfss, hc, hop, hcma, hig, hoo]
  simp [hbc, hr, hm, hq, stubExpand, List.flatMap_cons]


/-- structure of an application kernel (what `_validate_cma` enforces): plain fields and CMA
operators only, and a field on every function space -/
def validApply (md : Metadata) : Bool :=
  md.args.all (fun a => match a with
    | .field _ vec _ _ st _ => vec ≤ 1 && st == .none
    | .cma .. => true
    | _ => false) &&
  md.uniqueFss.all md.fieldOnSpace

/-- side condition for application kernels: the operator maps a space to itself (so there is one
function space).  With two spaces the guide lists both indirection maps after all the
ndf/undf/dofmap triples (rules 5, 6) while the code passes each with its space. -/
def applySameSpace (md : Metadata) : Bool :=
  match md.args.find? Arg.isCma with
  | some (.cma _ t f) => t == f && md.uniqueFss == [t]
  | _ => false

theorem docIndirection_find : ∀ (args : List Arg) {acc : Access} {t f : FS},
    args.find? Arg.isCma = some (.cma acc t f) →
    docIndirection args = [Atom.indirectionMap] ++ (if t != f then [Atom.indirectionMap] else [])
  | [], _, _, _, h => by simp at h
  | a :: rest, acc, t, f, h => by
    cases a with
    | cma acc' t' f' =>
      simp [List.find?, Arg.isCma] at h
      obtain ⟨_, rfl, rfl⟩ := h
      rfl
    | field dt vec a2 fs st m =>
      simp only [List.find?, Arg.isCma] at h
      simpa [docIndirection] using docIndirection_find rest h
    | op a2 t' f' =>
      simp only [List.find?, Arg.isCma] at h
      simpa [docIndirection] using docIndirection_find rest h
    | scalar dt a2 =>
      simp only [List.find?, Arg.isCma] at h
      simpa [docIndirection] using docIndirection_find rest h

/-- **documented order, CMA application / inverse-application kernels** -/
theorem C21_doc_cma_apply : ∀ md : Metadata, validApply md = true → applySameSpace md = true →
    docSection md = some .cmaApply → stubArgs md = docApply md := by
  intro md hva hsame hsec
  obtain ⟨hbc, hig, hoo, hp, hc⟩ := section_cma hsec (Or.inr (Or.inl rfl))
  have hc : md.cmaOp = .apply := by
    rcases hc with ⟨h, _⟩ | ⟨_, h⟩ | ⟨h, _⟩
    · cases h
    · exact h
    · cases h
  have hcma : md.hasCma = true := cmaOp_hasCma (by rw [hc]; simp)
  have hop : md.hasOperator = true := hasCma_hasOperator hcma
  obtain ⟨hf, _, hr, hm⟩ := plain_facts hp
  have hq := plain_qrShapes hf
  simp only [validApply, Bool.and_eq_true] at hva
  unfold applySameSpace at hsame
  cases hfind : md.args.find? Arg.isCma with
  | none => simp [hfind] at hsame
  | some a =>
    cases a with
    | cma acc t f =>
      simp only [hfind, Bool.and_eq_true] at hsame
      have htf : t = f := by simpa using hsame.1
      have hu : md.uniqueFss = [t] := by simpa using hsame.2
      subst htf
      have hmem : Arg.cma acc t t ∈ md.args := List.mem_of_find?_eq_some hfind
      have hcon : md.cmaOnSpace t = true := by
        unfold Metadata.cmaOnSpace
        rw [List.any_eq_true]
        exact ⟨_, hmem, by simp [Arg.isCma, Arg.spaces]⟩
      have hfo : md.fieldOnSpace t = true := by
        have := List.all_eq_true.mp hva.2 t (by rw [hu]; simp)
        exact this
      have hargs : (md.args.flatMap argCalls).flatMap (stubExpand md) = md.args.flatMap docApplyArg := by
        rw [flatMap_flatMap_c21]
        apply flatMap_congr_mem
        intro b hb
        have hb' := List.all_eq_true.mp hva.1 b hb
        cases b with
        | field dt vec a2 fs st m =>
          simp only [Bool.and_eq_true] at hb'
          have hst : st = .none := by simpa using hb'.2
          have hv : ¬ vec > 1 := by have := hb'.1; simp at this; omega
          subst hst
          simp [argCalls, stencilCalls, docApplyArg, stubExpand, hv, List.flatMap_cons]
        | cma a2 t' f' => exact cmaOperator_doc md a2 t' f'
        | op a2 t' f' => simp at hb'
        | scalar dt a2 => simp at hb'
      have hu' : dedup (md.args.flatMap Arg.spaces) = [t] := hu
      simp only [stubArgs, walk, docApply, List.flatMap_append, hargs, hc, hop, hcma, hig, hoo, hu, hu',
        docIndirection_find md.args hfind]
      simp [hbc, hr, hm, hq, hf, hc, hig, hfo, hcon, fsCalls, funcCalls, Metadata.findFunc, stubExpand,
        List.flatMap_cons]
    | field dt vec a2 fs st m => simp [hfind] at hsame
    | op a2 t f => simp [hfind] at hsame
    | scalar dt a2 => simp [hfind] at hsame

/-- structure of a matrix-matrix kernel: CMA operators and scalars only -/
def validMatrixMatrix (md : Metadata) : Bool := md.args.all fun a => a.isCma || a.isScalar

/-- **documented order, CMA matrix-matrix kernels** (no side condition) -/
theorem C21_doc_cma_matrix_matrix : ∀ md : Metadata, validMatrixMatrix md = true →
    docSection md = some .cmaMatrixMatrix → stubArgs md = docMatrixMatrix md := by
  intro md hvm hsec
  obtain ⟨hbc, hig, hoo, hp, hc⟩ := section_cma hsec (Or.inr (Or.inr rfl))
  have hc : md.cmaOp = .matrixMatrix := by
    rcases hc with ⟨h, _⟩ | ⟨h, _⟩ | ⟨_, h⟩
    · cases h
    · cases h
    · exact h
  have hcma : md.hasCma = true := cmaOp_hasCma (by rw [hc]; simp)
  have hop : md.hasOperator = true := hasCma_hasOperator hcma
  obtain ⟨hf, _, hr, hm⟩ := plain_facts hp
  have hq := plain_qrShapes hf
  have hargs : (md.args.flatMap argCalls).flatMap (stubExpand md) = md.args.flatMap docMatrixMatrixArg := by
    rw [flatMap_flatMap_c21]
    apply flatMap_congr_mem
    intro b hb
    have hb' := List.all_eq_true.mp hvm b hb
    cases b with
    | cma a2 t' f' => exact cmaOperator_doc md a2 t' f'
    | scalar dt a2 => simp [argCalls, docMatrixMatrixArg, stubExpand, List.flatMap_cons]
    | field dt vec a2 fs st m => simp [Arg.isCma, Arg.isScalar] at hb'
    | op a2 t' f' => simp [Arg.isCma, Arg.isScalar] at hb'
  have hnof : ∀ fs, md.fieldOnSpace fs = false := by
    intro fs
    unfold Metadata.fieldOnSpace
    rw [List.any_eq_false]
    intro a ha
    have := List.all_eq_true.mp hvm a ha
    cases a <;> simp_all [Arg.isField, Arg.isCma, Arg.isScalar]
  have hfss : (md.uniqueFss.flatMap (fsCalls md)).flatMap (stubExpand md) = [] := by
    rw [flatMap_flatMap_c21]
    rw [List.flatMap_eq_nil_iff]
    intro fs _
    simp only [fsCalls, hc, hig, hbc, hnof fs, Metadata.findFunc, hf, List.find?_nil, funcCalls]
    by_cases h2 : md.cmaOnSpace fs = true <;> simp [h2]
  simp only [stubArgs, walk, docMatrixMatrix, List.flatMap_append, hargs, hfss, hc, hop, hcma, hig, hoo]
  simp [hbc, hr, hm, hq, stubExpand, List.flatMap_cons]


theorem noOperator_noCma {md : Metadata} (h : md.hasOperator = false) : md.hasCma = false := by
  unfold Metadata.hasOperator at h
  unfold Metadata.hasCma
  rw [List.any_eq_false] at h ⊢
  intro a ha
  have := h a ha
  simp only [Bool.or_eq_true, not_or] at this
  exact this.2

/-- rule 3 against the per-argument part of the walk, PSy-layer side -/
theorem arg_doc_call {md : Metadata} {a : Arg} (hc : a.isCma = false) (hx : a.notXory1d = true) :
    (argCalls a).flatMap (callExpand md) = docArg a := by
  cases a with
  | field dt vec acc fs st m =>
    cases st <;> simp [Arg.notXory1d] at hx <;>
      by_cases hv : vec > 1 <;>
      simp [argCalls, stencilCalls, docArg, docStencil, callExpand, callExpandWith, hv, List.flatMap_cons]
  | op acc t f => simp [argCalls, docArg, callExpand, callExpandWith, List.flatMap_cons]
  | cma acc t f => simp [Arg.isCma] at hc
  | scalar dt acc => simp [argCalls, docArg, callExpand, callExpandWith, List.flatMap_cons]

theorem section_intergrid {md : Metadata} (h : docSection md = some .interGrid) :
    md.bc = .none ∧ md.isIntergrid = true ∧ md.operatesOn = .cellColumn ∧ md.hasOperator = false ∧
    md.plain = true := by
  unfold docSection at h
  split at h
  · simp at h
  · rename_i h1
    simp only [Bool.or_eq_true, not_or] at h1
    have hbc : md.bc = .none := by simpa using h1.1
    split at h
    · rename_i hig
      split at h
      · rename_i hc
        simp only [Bool.and_eq_true] at hc
        exact ⟨hbc, hig, by simpa using hc.1.1, by simpa using hc.1.2, hc.2⟩
      · simp at h
    · split at h
      · split at h <;> simp at h
      · split at h
        · simp at h
        all_goals (split at h <;> simp at h)

/-- structure of an inter-grid kernel: there is a field on every function space (only fields are
permitted) -/
def validInterGrid (md : Metadata) : Bool := md.uniqueFss.all md.fieldOnSpace

/-- **documented order, inter-grid kernels** (PSy-layer side; the stub generator refuses them) -/
theorem C21_doc_intergrid : ∀ md : Metadata, docSide md = true → validInterGrid md = true →
    docSection md = some .interGrid → callArgs md = docInterGrid md := by
  intro md hside hvi hsec
  obtain ⟨hbc, hig, hoo, hnop, hp⟩ := section_intergrid hsec
  have hcma := noOperator_noCma hnop
  have hc := noCma_cmaOp hcma
  obtain ⟨hf, _, hr, hm⟩ := plain_facts hp
  have hq := plain_qrShapes hf
  simp only [docSide, Bool.and_eq_true] at hside
  have hargs : (md.args.flatMap argCalls).flatMap (callExpand md) = md.args.flatMap docArg := by
    rw [flatMap_flatMap_c21]
    apply flatMap_congr_mem
    intro a ha
    refine arg_doc_call ?_ (List.all_eq_true.mp hside.1 a ha)
    have := List.any_eq_false.mp (by simpa [Metadata.hasCma] using hcma) a ha
    simpa using this
  have hfss : (md.uniqueFss.flatMap (fsCalls md)).flatMap (callExpand md)
      = (dedup (md.args.flatMap Arg.spaces)).flatMap (docInterGridSpace md) := by
    rw [flatMap_flatMap_c21]
    apply flatMap_congr_mem
    intro fs hfs
    have hfo : md.fieldOnSpace fs = true := List.all_eq_true.mp hvi fs hfs
    simp only [fsCalls, docInterGridSpace, hc, hig, hbc, hfo, noCma_cmaOnSpace hcma, Metadata.findFunc, hf,
      List.find?_nil, funcCalls, List.flatMap_append]
    cases hfine : md.fineSpace fs <;>
      simp [callExpand, callExpandWith, cellOrDomain, hoo, List.flatMap_cons]
  simp only [callArgs, walk, docInterGrid, List.flatMap_append, hargs, hfss, hc, hnop, hcma, hig, hoo]
  simp [hbc, hr, hm, hq, callExpand, callExpandWith, cellOrDomain, hoo, List.flatMap_cons]

theorem section_domain {md : Metadata} (h : docSection md = some .domain) :
    md.bc = .none ∧ md.isIntergrid = false ∧ md.operatesOn = .domain ∧ md.hasOperator = false ∧
    md.plain = true := by
  unfold docSection at h
  split at h
  · simp at h
  · rename_i h1
    simp only [Bool.or_eq_true, not_or] at h1
    have hbc : md.bc = .none := by simpa using h1.1
    split at h
    · split at h <;> simp at h
    · rename_i hig
      split at h
      · rename_i hdom
        split at h
        · rename_i hc
          simp only [Bool.and_eq_true] at hc
          exact ⟨hbc, by simpa using hig, by simpa using hdom, by simpa using hc.1, hc.2⟩
        · simp at h
      · split at h
        · simp at h
        all_goals (split at h <;> simp at h)

/-- rule 4 with the whole (rank-2) dofmap: what is implemented for domain kernels -/
def docSpaceWhole (md : Metadata) (fs : FS) : List Atom :=
  [Atom.ndf] ++ (if md.fieldOnSpace fs then [Atom.undf, Atom.dofmapWhole] else [])

/-- the documented list of a domain kernel with the rank-1 dofmap of rule 4.2.2 replaced by the
whole dofmap -/
def docDomainWhole (md : Metadata) : List Atom :=
  [Atom.nlayers, .ncell2dNoHalos] ++ md.args.flatMap docArg ++
  (dedup (md.args.flatMap Arg.spaces)).flatMap (docSpaceWhole md)

def Atom.wholeMap : Atom → Atom
  | .dofmap => .dofmapWhole
  | a => a

/-- **documented order, domain kernels** (PSy-layer side): the call is the documented list except that
every dofmap is the whole dofmap -/
theorem C21_doc_domain_partial : ∀ md : Metadata, docSide md = true →
    docSection md = some .domain → callArgs md = docDomainWhole md := by
  intro md hside hsec
  obtain ⟨hbc, hig, hoo, hnop, hp⟩ := section_domain hsec
  have hcma := noOperator_noCma hnop
  have hc := noCma_cmaOp hcma
  obtain ⟨hf, _, hr, hm⟩ := plain_facts hp
  have hq := plain_qrShapes hf
  simp only [docSide, Bool.and_eq_true] at hside
  have hargs : (md.args.flatMap argCalls).flatMap (callExpand md) = md.args.flatMap docArg := by
    rw [flatMap_flatMap_c21]
    apply flatMap_congr_mem
    intro a ha
    refine arg_doc_call ?_ (List.all_eq_true.mp hside.1 a ha)
    have := List.any_eq_false.mp (by simpa [Metadata.hasCma] using hcma) a ha
    simpa using this
  have hfss : (md.uniqueFss.flatMap (fsCalls md)).flatMap (callExpand md)
      = (dedup (md.args.flatMap Arg.spaces)).flatMap (docSpaceWhole md) := by
    rw [flatMap_flatMap_c21]
    apply flatMap_congr_mem
    intro fs _
    simp only [fsCalls, docSpaceWhole, hc, hig, hbc, noCma_cmaOnSpace hcma, Metadata.findFunc, hf,
      List.find?_nil, funcCalls, List.flatMap_append]
    by_cases hfo : md.fieldOnSpace fs = true <;>
      simp [hfo, callExpand, callExpandWith, cellOrDomain, hoo, List.flatMap_cons]
  simp only [callArgs, walk, docDomainWhole, List.flatMap_append, hargs, hfss, hc, hnop, hcma, hig, hoo]
  simp [hbc, hr, hm, hq, callExpand, callExpandWith, cellOrDomain, hoo, List.flatMap_cons]

theorem docArg_wholeMap (a : Arg) : (docArg a).map Atom.wholeMap = docArg a := by
  cases a with
  | field dt vec acc fs st m =>
    cases st <;> by_cases hv : vec > 1 <;> simp [docArg, docStencil, hv, Atom.wholeMap]
  | op acc t f => simp [docArg, Atom.wholeMap]
  | cma acc t f => simp [docArg]
  | scalar dt acc => simp [docArg, Atom.wholeMap]

/-- `docDomainWhole` is exactly the documented list with `dofmap ↦ whole dofmap` -/
theorem C21_doc_domain_whole_is_doc : ∀ md : Metadata, docSection md = some .domain →
    docDomainWhole md = (docDomain md).map Atom.wholeMap := by
  intro md hsec
  obtain ⟨_, _, _, _, hp⟩ := section_domain hsec
  obtain ⟨hf, hs, hr, hm⟩ := plain_facts hp
  have h1 : (md.args.flatMap docArg).map Atom.wholeMap = md.args.flatMap docArg := by
    rw [List.map_flatMap]
    apply flatMap_congr_mem
    intro a _
    exact docArg_wholeMap a
  have h2 : ((dedup (md.args.flatMap Arg.spaces)).flatMap (docSpace md)).map Atom.wholeMap
      = (dedup (md.args.flatMap Arg.spaces)).flatMap (docSpaceWhole md) := by
    rw [List.map_flatMap]
    apply flatMap_congr_mem
    intro fs _
    by_cases hfo : md.fieldOnSpace fs = true <;>
      simp [docSpace, docSpaceWhole, docFuncs, Metadata.findFunc, hf, hfo, Atom.wholeMap]
  simp only [docDomain, docDomainWhole, List.map_append, h1, h2]
  simp [docRefElement, docMesh, docQuadrature, hr, hm, hs, dedup, dedupAux, Atom.wholeMap]


theorem cmaOp_none_noCma {md : Metadata} (h : md.cmaOp = .none) : md.hasCma = false := by
  unfold Metadata.cmaOp at h
  by_cases he : (md.args.filter Arg.isCma).isEmpty = true
  · unfold Metadata.hasCma
    rw [List.any_eq_false]
    intro a ha hc
    have : a ∈ md.args.filter Arg.isCma := List.mem_filter.mpr ⟨ha, hc⟩
    rw [List.isEmpty_iff.mp he] at this
    simp at this
  · exfalso
    have he' : (md.args.filter Arg.isCma).isEmpty = false := by simpa using he
    simp only [he', Bool.false_eq_true, if_false] at h
    split at h
    · simp at h
    · split at h <;> simp at h

theorem section_general {md : Metadata} (h : docSection md = some .general) : docScope md = true := by
  unfold docSection at h
  split at h
  · simp at h
  · rename_i h1
    simp only [Bool.or_eq_true, not_or] at h1
    have hbc : md.bc = .none := by simpa using h1.1
    have hdof : md.operatesOn ≠ .dof := by simpa using h1.2
    split at h
    · split at h <;> simp at h
    · rename_i hig
      split at h
      · split at h <;> simp at h
      · rename_i hdom
        have hcc : md.operatesOn = .cellColumn := by
          cases hoo : md.operatesOn <;> simp_all
        split at h
        · rename_i hc
          simp [docScope, hcc, cmaOp_none_noCma hc, hbc, hig]
        all_goals (split at h <;> simp at h)

/-- the side conditions of all sub-sections: `docSide` (xory1d direction, diff-basis-first) plus,
per sub-section, the structural validity `LFRicKernMetadata` enforces and the exclusion of the
documented-vs-implemented difference of that sub-section; domain kernels always differ
(`C21_doc_domain_partial` states what holds instead) -/
def docSideAll (md : Metadata) : Bool :=
  docSide md &&
  match docSection md with
  | some .cmaAssembly => lmaFirstOnly md
  | some .cmaApply => validApply md && applySameSpace md
  | some .cmaMatrixMatrix => validMatrixMatrix md
  | some .interGrid => validInterGrid md
  | some .domain => false
  | _ => true

/-- **C21 (documented order), all sub-sections of the user guide**: under the side conditions the
stub's list (inter-grid: the call's list, there is no stub) is exactly the documented one, and so is
the call's list whenever a stub exists. -/
theorem C21_doc_all_partial : ∀ md : Metadata, Valid md → docSideAll md = true →
    ∀ d, docOrderAll md = some d →
      (docSection md = some .interGrid → callArgs md = d) ∧
      (docSection md ≠ some .interGrid → stubArgs md = d ∧ (StubSupported md → callArgs md = d)) := by
  intro md hv hside d hd
  unfold docOrderAll at hd
  simp only [docSideAll, Bool.and_eq_true] at hside
  obtain ⟨hs1, hs2⟩ := hside
  cases hsec : docSection md with
  | none => simp [hsec] at hd
  | some sec =>
    simp only [hsec, Option.map_some, Option.some.injEq] at hd
    subst hd
    have key : sec ≠ .interGrid → stubArgs md = docOrderOf md sec := by
      intro hne
      cases sec with
      | general =>
        have hsc := section_general hsec
        exact C21_doc_partial md hv hs1 _ (by simp [docOrder, hsc, docOrderOf])
      | cmaAssembly => simp only [hsec] at hs2; exact C21_doc_cma_assembly md hs1 hs2 hsec
      | cmaApply =>
        simp only [hsec, Bool.and_eq_true] at hs2
        exact C21_doc_cma_apply md hs2.1 hs2.2 hsec
      | cmaMatrixMatrix => simp only [hsec] at hs2; exact C21_doc_cma_matrix_matrix md hs2 hsec
      | interGrid => exact absurd rfl hne
      | domain => simp [hsec] at hs2
    constructor
    · intro hi
      injection hi with hi
      subst hi
      simp only [hsec] at hs2
      exact C21_doc_intergrid md hs1 hs2 hsec
    · intro hne
      have hne' : sec ≠ .interGrid := fun h => hne (by rw [h])
      exact ⟨key hne', fun hss => by rw [callArgs_eq_stubArgs hss]; exact key hne'⟩

/-! #### witnesses of the further documentation-vs-code differences, and non-vacuity -/

/-- assembly kernel whose LMA operator is not the first argument -/
def witnessAssembly : Metadata :=
  { operatesOn := .cellColumn, args := [.cma .write 0 1, .op .read 0 1]
    funcs := [], shapes := [], targets := [], refelem := [], mesh := [], bc := .none }
/-- application kernel with different to- and from-spaces -/
def witnessApply : Metadata :=
  { operatesOn := .cellColumn
    args := [.field .real 1 .inc 0 .none .none, .field .real 1 .read 1 .none .none, .cma .read 0 1]
    funcs := [], shapes := [], targets := [], refelem := [], mesh := [], bc := .none }
/-- the simplest domain kernel -/
def witnessDomain : Metadata :=
  { operatesOn := .domain, args := [.scalar .real .read, .field .real 1 .readwrite 9 .none .none]
    funcs := [], shapes := [], targets := [], refelem := [], mesh := [], bc := .none }

/-- the full documentation clause over all sub-sections -/
def C21_doc_all_statement : Prop :=
  ∀ md : Metadata, Valid md → ∀ d, docOrderAll md = some d → callArgs md = d

theorem C21_doc_cma_assembly_counterexample :
    Valid witnessAssembly ∧ StubSupported witnessAssembly ∧
    docOrderAll witnessAssembly ≠ some (stubArgs witnessAssembly) ∧
    docOrderAll witnessAssembly ≠ some (callArgs witnessAssembly) := by decide

theorem C21_doc_cma_apply_counterexample :
    Valid witnessApply ∧ StubSupported witnessApply ∧ validApply witnessApply = true ∧
    docOrderAll witnessApply ≠ some (stubArgs witnessApply) ∧
    docOrderAll witnessApply ≠ some (callArgs witnessApply) := by decide

theorem C21_doc_domain_counterexample :
    Valid witnessDomain ∧ docSection witnessDomain = some .domain ∧
    docOrderAll witnessDomain ≠ some (callArgs witnessDomain) := by decide

theorem C21_doc_all_counterexample : ¬ C21_doc_all_statement := by
  intro h
  have := h witnessDomain (by decide) _ rfl
  revert this
  decide

/-- non-vacuity of every sub-section of `C21_doc_all_partial` -/
def exAssembly : Metadata :=
  { operatesOn := .cellColumn, args := [.op .read 0 1, .cma .write 0 1, .field .real 1 .read 1 .none .none, .scalar .real .read]
    funcs := [], shapes := [], targets := [], refelem := [], mesh := [], bc := .none }
def exApply : Metadata :=
  { operatesOn := .cellColumn
    args := [.field .real 1 .inc 2 .none .none, .cma .read 2 2, .field .real 1 .read 2 .none .none]
    funcs := [], shapes := [], targets := [], refelem := [], mesh := [], bc := .none }
def exMatrixMatrix : Metadata :=
  { operatesOn := .cellColumn, args := [.cma .write 0 1, .scalar .real .read, .cma .read 1 1]
    funcs := [], shapes := [], targets := [], refelem := [], mesh := [], bc := .none }
def exInterGrid : Metadata :=
  { operatesOn := .cellColumn
    args := [.field .real 3 .inc 1 .none .fine, .field .real 1 .read 2 .none .coarse]
    funcs := [], shapes := [], targets := [], refelem := [], mesh := [], bc := .none }
example : Valid exAssembly ∧ docSideAll exAssembly = true ∧ docSection exAssembly = some .cmaAssembly ∧
    docOrderAll exAssembly = some (stubArgs exAssembly) ∧ (stubArgs exAssembly).length = 21 := by decide
example : Valid exApply ∧ docSideAll exApply = true ∧ docSection exApply = some .cmaApply ∧
    docOrderAll exApply = some (callArgs exApply) := by decide
example : Valid exMatrixMatrix ∧ docSideAll exMatrixMatrix = true ∧
    docSection exMatrixMatrix = some .cmaMatrixMatrix ∧
    docOrderAll exMatrixMatrix = some (stubArgs exMatrixMatrix) := by decide
example : Valid exInterGrid ∧ docSideAll exInterGrid = true ∧ docSection exInterGrid = some .interGrid ∧
    docOrderAll exInterGrid = some (callArgs exInterGrid) ∧ stubRefusal exInterGrid = some .intergrid := by decide
example : docSide witnessDomain = true ∧ callArgs witnessDomain = docDomainWhole witnessDomain ∧
    docDomainWhole witnessDomain = [.nlayers, .ncell2dNoHalos, .scalar .real .read, .fieldData .real .readwrite,
      .ndf, .undf, .dofmapWhole] := by decide

/-- The user guide (rules 5.1-5.3) documents the reference-element normals arrays as `integer`; the
stub declares (and the PSy layer passes) `real(r_def)` arrays, as the LFRic infrastructure does. -/
theorem C21_doc_refarray_type_counterexample :
    ∀ p : RefProp, (Gen.stubSig (.refArray p)).map Sig.ty = some Ty.real ∧
      (Gen.stubSig (.refArray p)).map Sig.ty ≠ some docRefArrayTy := by
  intro p; cases p <;> decide

/-! ### the OpenACC data-region list (`KernCallAccArgList`) -/

/-- arguments whose data lives in an array that must be present on the device (a stencil size is
passed as an element of a pointer array) -/
def Atom.isArray : Atom → Bool
  | .cellMap | .fieldData _ _ | .stencilSize | .stencilSize2d | .stencilMap | .stencilMap2d
  | .opData _ | .cmaMatrix _ | .dofmap | .dofmapWhole | .bandedMap | .indirectionMap
  | .basisQuad | .basisEval | .diffBasisQuad | .diffBasisEval | .boundaryDofs | .refArray _
  | .adjacentFace | .weightsXy | .weightsZ | .weightsXyz => true
  | _ => false

/-- the device array behind an actual argument: a dofmap column is a section of the whole dofmap -/
def Atom.device : Atom → Atom
  | .dofmap => .dofmapWhole
  | a => a

/-- the actual argument of this class has rank ≥ 1 according to the generated table -/
def Atom.callRankPositive (a : Atom) : Bool :=
  match Gen.callSig a with
  | some s => decide (s.rank ≥ 1)
  | none => false

/-- link with the generated table: every actual of rank ≥ 1 is classified as an array -/
theorem C21_acc_isArray_of_rank : ∀ a : Atom, a.callRankPositive = true → a.isArray = true := by
  intro a
  cases a <;> (try (rename_i x y; cases x <;> cases y)) <;> (try (rename_i x; cases x)) <;> decide

theorem acc_expand_covers {md : Metadata} (hoo : md.operatesOn = .cellColumn) {c : Call} {a : Atom}
    (h : a ∈ callExpand md c) (ha : a.isArray = true) : a.device ∈ accExpand md c := by
  cases c <;> simp only [callExpand, callExpandWith] at h
  case cellMap => simp at h; rcases h with h | h | h | h <;> subst h <;> simp [Atom.isArray] at ha <;> simp [accExpand, Atom.device]
  case operator acc => simp at h; rcases h with h | h <;> subst h <;> simp [Atom.isArray] at ha <;> simp [accExpand, Atom.device]
  case scalar dt acc => simp at h; subst h; simp [Atom.isArray] at ha
  case fsCompulsoryField =>
    simp [hoo] at h
    rcases h with h | h <;> subst h <;> simp [Atom.isArray] at ha <;> simp [accExpand, Atom.device, hoo]
  case fsIntergrid fine =>
    cases fine <;> simp [hoo, cellOrDomain] at h
    · rcases h with h | h <;> subst h <;> simp [Atom.isArray] at ha <;> simp [accExpand, Atom.device, hoo]
    · rcases h with h | h | h <;> subst h <;> simp [Atom.isArray] at ha <;> simp [accExpand, Atom.device]
  case basis =>
    simp only [Bool.false_eq_true, if_false] at h
    have : a.device = a := by rcases mem_basisByShape h with h' | h' <;> subst h' <;> rfl
    rw [this]; simpa [accExpand, callExpand, callExpandWith] using h
  case diffBasis =>
    simp only [Bool.false_eq_true, if_false] at h
    have : a.device = a := by rcases mem_basisByShape h with h' | h' <;> subst h' <;> rfl
    rw [this]; simpa [accExpand, callExpand, callExpandWith] using h
  case refElement =>
    have : a.device = a := by rcases mem_refAtoms h with ⟨k, rfl⟩ | ⟨p, rfl⟩ <;> rfl
    rw [this]; simpa [accExpand, callExpand, callExpandWith] using h
  case meshProperties =>
    have : a.device = a := by rcases mem_meshAtoms h with h' | h' <;> subst h' <;> rfl
    rw [this]; simpa [accExpand, callExpand, callExpandWith] using h
  case quadRule =>
    have : a.device = a := by
      simp only [List.mem_flatMap] at h
      obtain ⟨s, _, hs⟩ := h
      rcases mem_qrAtoms hs with h' | h' | h' | h' | h' | h' | h' | h' <;> subst h' <;> rfl
    rw [this]; simpa [accExpand, callExpand, callExpandWith] using h
  case fieldVector dt acc n =>
    have := List.eq_of_mem_replicate h; subst this
    simpa [accExpand, callExpand, callExpandWith, Atom.device] using h
  case cmaOperator acc same =>
    have : a.device = a := by
      simp only [List.mem_cons, List.mem_map] at h
      rcases h with rfl | ⟨p, _, rfl⟩ <;> rfl
    rw [this]; simpa [accExpand, callExpand, callExpandWith] using h
  case meshHeight => split at h <;> simp at h; subst h; simp [Atom.isArray] at ha
  case fsCommon => split at h <;> simp at h; subst h; simp [Atom.isArray] at ha
  all_goals (simp at h)
  all_goals first
    | (subst h; simp [accExpand, callExpand, callExpandWith, Atom.device])
    | (rcases h with h | h <;> subst h <;> simp [accExpand, callExpand, callExpandWith, Atom.device])

/-- **C21 for the OpenACC variant** (`KernCallAccArgList`, the list from which `ACCEnterDataTrans`
builds the data region): for every kernel that operates on cell columns, the device array behind
every array argument of the kernel call is named in the OpenACC list. -/
theorem C21_acc_covers_arrays : ∀ md : Metadata, md.operatesOn = .cellColumn →
    ∀ a ∈ callArgs md, a.isArray = true → a.device ∈ accArgs md := by
  intro md hoo a ha harr
  simp only [callArgs, List.mem_flatMap] at ha
  obtain ⟨c, hc, hac⟩ := ha
  simp only [accArgs, List.mem_flatMap]
  exact ⟨c, hc, acc_expand_covers hoo hac harr⟩

/-- … and nothing but scalars, sizes and the operator proxy is added: every array of the OpenACC list is
the device array of an actual argument (cell-column kernels) -/
theorem C21_acc_only_call_arrays : ∀ md : Metadata, md.operatesOn = .cellColumn →
    ∀ a ∈ accArgs md, a.isArray = true → ∃ b ∈ callArgs md, b.device = a := by
  intro md hoo a ha harr
  simp only [accArgs, List.mem_flatMap] at ha
  obtain ⟨c, hc, hac⟩ := ha
  have key : ∃ b ∈ callExpand md c, b.device = a := by
    cases c <;> simp only [accExpand] at hac
    case cellMap =>
      simp at hac; rcases hac with h | h <;> subst h
      · exact ⟨.cellMap, by simp [callExpand, callExpandWith], rfl⟩
      · simp [Atom.isArray] at harr
    case operator acc =>
      simp at hac; rcases hac with h | h | h <;> subst h
      · simp [Atom.isArray] at harr
      · simp [Atom.isArray] at harr
      · exact ⟨.opData acc, by simp [callExpand, callExpandWith], rfl⟩
    case scalar dt acc => simp at hac
    case fsCompulsoryField =>
      simp [hoo] at hac; rcases hac with h | h <;> subst h
      · simp [Atom.isArray] at harr
      · exact ⟨.dofmap, by simp [callExpand, callExpandWith, hoo], rfl⟩
    case fsIntergrid fine =>
      cases fine <;> simp [hoo] at hac
      · rcases hac with h | h <;> subst h
        · simp [Atom.isArray] at harr
        · exact ⟨.dofmap, by simp [callExpand, callExpandWith, hoo], rfl⟩
      · subst hac
        exact ⟨.dofmapWhole, by simp [callExpand, callExpandWith], rfl⟩
    case basis =>
      simp only [callExpand, callExpandWith, Bool.false_eq_true, if_false] at hac
      exact ⟨a, by simpa [callExpand, callExpandWith] using hac,
        by rcases mem_basisByShape hac with h' | h' <;> subst h' <;> rfl⟩
    case diffBasis =>
      simp only [callExpand, callExpandWith, Bool.false_eq_true, if_false] at hac
      exact ⟨a, by simpa [callExpand, callExpandWith] using hac,
        by rcases mem_basisByShape hac with h' | h' <;> subst h' <;> rfl⟩
    case refElement =>
      simp only [callExpand, callExpandWith] at hac
      exact ⟨a, by simpa [callExpand, callExpandWith] using hac,
        by rcases mem_refAtoms hac with ⟨k, rfl⟩ | ⟨p, rfl⟩ <;> rfl⟩
    case meshProperties =>
      simp only [callExpand, callExpandWith] at hac
      exact ⟨a, by simpa [callExpand, callExpandWith] using hac,
        by rcases mem_meshAtoms hac with h' | h' <;> subst h' <;> rfl⟩
    case quadRule =>
      simp only [callExpand, callExpandWith] at hac
      refine ⟨a, by simpa [callExpand, callExpandWith] using hac, ?_⟩
      simp only [List.mem_flatMap] at hac
      obtain ⟨s, _, hs⟩ := hac
      rcases mem_qrAtoms hs with h' | h' | h' | h' | h' | h' | h' | h' <;> subst h' <;> rfl
    case fieldVector dt acc n =>
      simp only [callExpand, callExpandWith] at hac
      have := List.eq_of_mem_replicate hac
      exact ⟨a, by simpa [callExpand, callExpandWith] using hac, by subst this; rfl⟩
    case cmaOperator acc same =>
      simp only [callExpand, callExpandWith] at hac
      refine ⟨a, by simpa [callExpand, callExpandWith] using hac, ?_⟩
      simp only [List.mem_cons, List.mem_map] at hac
      rcases hac with rfl | ⟨p, _, rfl⟩ <;> rfl
    case meshHeight =>
      simp only [callExpand, callExpandWith] at hac
      split at hac <;> simp at hac; subst hac; simp [Atom.isArray] at harr
    case fsCommon =>
      simp only [callExpand, callExpandWith] at hac
      split at hac <;> simp at hac; subst hac; simp [Atom.isArray] at harr
    all_goals (simp only [callExpand, callExpandWith] at hac; simp at hac)
    all_goals first
      | exact ⟨a, by rw [hac]; simp [callExpand, callExpandWith], by rw [hac]; rfl⟩
      | (rw [hac] at harr; simp [Atom.isArray] at harr; done)
      | (rcases hac with h | h <;> first
          | exact ⟨a, by rw [h]; simp [callExpand, callExpandWith], by rw [h]; rfl⟩
          | (rw [h] at harr; simp [Atom.isArray] at harr; done))
  obtain ⟨b, hb, hba⟩ := key
  exact ⟨b, by simp only [callArgs, List.mem_flatMap]; exact ⟨c, hc, hb⟩, hba⟩

/-- domain kernels: `KernCallAccArgList.fs_compulsory_field` returns early unless the kernel operates
on cell columns, so the whole dofmap the call passes is NOT named in the OpenACC list -/
theorem C21_acc_domain_counterexample :
    Atom.dofmapWhole ∈ callArgs witnessDomain ∧ Atom.dofmapWhole ∉ accArgs witnessDomain := by decide

end C21
