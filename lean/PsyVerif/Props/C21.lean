import PsyVerif.Model.ArgOrder
import PsyVerif.Model.ArgOrderDoc
import PsyVerif.Gen.ArgOrder
/-! # C21 — LFRic kernel calls match the kernel interface for all metadata

Model: `Model/ArgOrder.lean` (`walk` = `ArgOrdering.generate`, `callExpand` = `KernCallArgList`
overrides WITH `fixes/C21-basis-shape-order.patch`, `stubExpand` = `KernStubArgList`),
signature tables `Gen/ArgOrder.lean` regenerated from the real overrides on every run,
`Model/ArgOrderDoc.lean` (`docOrder` = the documented rules for general-purpose kernels).

Quantification: every `Metadata` value (any number and combination of arguments, function
spaces, shapes, properties); no size bound. -/
namespace C21

/-! ## helper lemmas -/

/-- atoms only the PSy-layer side ever passes (inter-grid and domain kernels, which the stub
generator refuses) -/
def Atom.callerOnly : Atom → Bool
  | .cellMap | .ncpcX | .ncpcY | .ncellF | .ncell2dNoHalos | .dofmapWhole => true
  | _ => false

/-- parameter combinations a valid kernel can have -/
def Atom.wf : Atom → Bool
  | .fieldData dt acc => dt != .logical && acc != .sum
  | .opData acc | .cmaMatrix acc => acc == .read || acc == .write || acc == .readwrite
  | .scalar _ acc => acc == .read
  | _ => true

def Call.wf : Call → Bool
  | .field dt acc | .fieldVector dt acc _ => dt != .logical && acc != .sum
  | .operator acc | .cmaOperator acc _ => acc == .read || acc == .write || acc == .readwrite
  | .scalar _ acc => acc == .read
  | _ => true

def Arg.valid : Arg → Bool
  | .field dt vec acc _ _ _ => dt != .logical && acc != .sum && vec ≥ 1
  | .op acc _ _ | .cma acc _ _ => acc == .read || acc == .write || acc == .readwrite
  | .scalar _ acc => acc == .read

/-- Validity of kernel metadata as far as the theorems need it (a consequence of what
`LFRicKernMetadata` accepts): legal data-type/access combinations, a basis function is requested
iff `gh_shape` is given, shapes are not repeated, user kernels do not operate on DoFs, and neither
`generate` nor the caller's boundary-condition sanity check refuses. -/
def valid (md : Metadata) : Bool :=
  md.args.all Arg.valid && md.operatesOn != .dof &&
  (md.shapes.isEmpty == !md.basisRequired) && md.funcs.all Func.needs &&
  callRefusal md == none

abbrev Valid (md : Metadata) : Prop := valid md = true

/-- the stub generator produces a stub for this metadata -/
abbrev StubSupported (md : Metadata) : Prop := stubRefusal md = none

theorem stubSupported_facts {md : Metadata} (h : StubSupported md) :
    md.isIntergrid = false ∧ md.operatesOn = .cellColumn := by
  unfold StubSupported stubRefusal at h
  split at h
  · simp at h
  · rename_i h1
    split at h
    · simp at h
    · rename_i h2
      constructor
      · simpa using h1
      · simpa using h2

theorem mem_stencilCalls {c : Call} {st : Stencil} (h : c ∈ stencilCalls st) :
    c = .stencilUnknownExtent ∨ c = .stencil2dUnknownExtent ∨ c = .stencil2dMaxExtent ∨
    c = .stencilUnknownDirection ∨ c = .stencil ∨ c = .stencil2d := by
  cases st <;> simp [stencilCalls] at h <;> grind

theorem mem_funcCalls {c : Call} {f : Option Func} (h : c ∈ funcCalls f) : c = .basis ∨ c = .diffBasis := by
  cases f with
  | none => simp [funcCalls] at h
  | some f =>
    simp only [funcCalls, List.mem_append] at h
    rcases h with h | h <;> split at h <;> simp at h <;> simp [h]

/-- the calls whose two expansions differ -/
def Call.special : Call → Bool
  | .ncell2dNoHalos | .cellMap | .fsIntergrid _ => true
  | _ => false

theorem argCalls_not_special {a : Arg} {c : Call} (h : c ∈ argCalls a) : c.special = false := by
  cases a with
  | field dt vec acc fs st m =>
    simp only [argCalls, List.mem_append] at h
    rcases h with h | h
    · split at h <;> simp at h <;> subst h <;> rfl
    · rcases mem_stencilCalls h with h | h | h | h | h | h <;> subst h <;> rfl
  | op acc t f => simp [argCalls] at h; subst h; rfl
  | cma acc t f => simp [argCalls] at h; subst h; rfl
  | scalar dt acc => simp [argCalls] at h; subst h; rfl

theorem fsCalls_special {md : Metadata} {fs : FS} {c : Call} (h : c ∈ fsCalls md fs)
    (hs : c.special = true) : md.isIntergrid = true := by
  simp only [fsCalls, List.mem_append] at h
  rcases h with (((h | h) | h) | h) | h
  · split at h <;> simp at h; subst h; simp [Call.special] at hs
  · split at h
    · split at h
      · assumption
      · simp at h; subst h; simp [Call.special] at hs
    · simp at h
  · split at h
    · split at h <;> simp at h <;> subst h <;> simp [Call.special] at hs
    · simp at h
  · rcases mem_funcCalls h with h | h <;> subst h <;> simp [Call.special] at hs
  · split at h <;> simp at h; subst h; simp [Call.special] at hs

/-- a call whose expansions differ only occurs for domain or inter-grid kernels -/
theorem walk_special {md : Metadata} {c : Call} (h : c ∈ walk md) (hs : c.special = true) :
    md.isIntergrid = true ∨ md.operatesOn = .domain := by
  simp only [walk, List.mem_append, List.mem_flatMap] at h
  rcases h with (((((((((h | h) | h) | h) | h) | h) | h) | h) | h) | h) | h
  · split at h <;> simp at h; subst h; simp [Call.special] at hs
  · split at h <;> simp at h; subst h; simp [Call.special] at hs
  · split at h
    · rename_i hd; right; simpa using hd
    · simp at h
  · split at h <;> simp at h; subst h; simp [Call.special] at hs
  · split at h
    · rename_i hi; left; exact hi
    · simp at h
  · obtain ⟨a, _, ha⟩ := h
    rw [argCalls_not_special ha] at hs; simp at hs
  · obtain ⟨fs, _, hfs⟩ := h
    left; exact fsCalls_special hfs hs
  · split at h <;> simp at h; subst h; simp [Call.special] at hs
  · split at h <;> simp at h; subst h; simp [Call.special] at hs
  · split at h <;> simp at h; subst h; simp [Call.special] at hs
  · split at h <;> simp at h; subst h; simp [Call.special] at hs

/-- for a kernel the stub generator supports, the (fixed) caller and the stub expand every call of
the walk into the same atoms -/
theorem expand_eq {md : Metadata} (h : StubSupported md) {c : Call} (hc : c ∈ walk md) :
    callExpand md c = stubExpand md c := by
  obtain ⟨hi, ho⟩ := stubSupported_facts h
  by_cases hs : c.special = true
  · rcases walk_special hc hs with h1 | h1
    · rw [hi] at h1; simp at h1
    · rw [ho] at h1; simp at h1
  · cases c <;> first
      | rfl
      | (simp [callExpand, callExpandWith, stubExpand, cellOrDomain, ho]; done)
      | (exfalso; simp [Call.special] at hs)

theorem flatMap_congr_mem {α β} (l : List α) (f g : α → List β) (h : ∀ a ∈ l, f a = g a) :
    l.flatMap f = l.flatMap g := by
  induction l with
  | nil => rfl
  | cons x xs ih =>
    simp only [List.flatMap_cons]
    rw [h x (by simp), ih (fun a ha => h a (by simp [ha]))]

theorem callArgs_eq_stubArgs {md : Metadata} (h : StubSupported md) : callArgs md = stubArgs md := by
  unfold callArgs stubArgs
  exact flatMap_congr_mem _ _ _ (fun c hc => expand_eq h hc)

theorem mem_basisByShape {md : Metadata} {q e a : Atom} (h : a ∈ basisByShape md q e) : a = q ∨ a = e := by
  simp only [basisByShape, List.mem_flatMap] at h
  obtain ⟨s, _, hs⟩ := h
  split at hs
  · simp at hs; exact Or.inl hs
  · exact Or.inr (List.eq_of_mem_replicate hs)

theorem mem_refAtoms {ps : List RefProp} {a : Atom} (h : a ∈ refAtoms ps) :
    (∃ k, a = .nfacesRe k) ∨ (∃ p, a = .refArray p) := by
  simp only [refAtoms, List.mem_append, List.mem_map] at h
  rcases h with ⟨k, _, rfl⟩ | ⟨p, _, rfl⟩
  · exact Or.inl ⟨k, rfl⟩
  · exact Or.inr ⟨p, rfl⟩

theorem mem_meshAtoms {md : Metadata} {a : Atom} (h : a ∈ meshAtoms md) :
    a = .nfacesRe .h ∨ a = .adjacentFace := by
  simp only [meshAtoms, List.mem_flatMap] at h
  obtain ⟨p, _, hp⟩ := h
  cases p
  simp only [List.mem_append] at hp
  rcases hp with hp | hp
  · split at hp <;> simp at hp; exact Or.inl hp
  · simp at hp; exact Or.inr hp

theorem mem_qrAtoms {s : Shape} {a : Atom} (h : a ∈ qrAtoms s) :
    a = .npXy ∨ a = .npZ ∨ a = .weightsXy ∨ a = .weightsZ ∨ a = .nfacesQr ∨ a = .nedgesQr ∨
    a = .npXyz ∨ a = .weightsXyz := by
  cases s <;> simp [qrAtoms] at h <;> grind

/-- atoms of a well-formed call are well-formed and (stub side) never caller-only -/
theorem stubExpand_atoms {md : Metadata} {c : Call} {a : Atom} (hc : c.wf = true) (h : a ∈ stubExpand md c) :
    a.callerOnly = false ∧ a.wf = true := by
  cases c <;> simp only [stubExpand] at h
  case basis => rcases mem_basisByShape h with h | h <;> subst h <;> exact ⟨rfl, rfl⟩
  case diffBasis => rcases mem_basisByShape h with h | h <;> subst h <;> exact ⟨rfl, rfl⟩
  case refElement => rcases mem_refAtoms h with ⟨k, rfl⟩ | ⟨p, rfl⟩ <;> exact ⟨rfl, rfl⟩
  case meshProperties => rcases mem_meshAtoms h with h | h <;> subst h <;> exact ⟨rfl, rfl⟩
  case quadRule =>
    simp only [List.mem_flatMap] at h
    obtain ⟨s, _, hs⟩ := h
    rcases mem_qrAtoms hs with h | h | h | h | h | h | h | h <;> subst h <;> exact ⟨rfl, rfl⟩
  case fieldVector dt acc n =>
    have := List.eq_of_mem_replicate h; subst this
    exact ⟨rfl, by simp [Call.wf, Atom.wf] at hc ⊢; try exact hc⟩
  case cmaOperator acc same =>
    simp only [List.mem_cons, List.mem_map] at h
    rcases h with rfl | ⟨p, _, rfl⟩
    · exact ⟨rfl, by simp [Call.wf, Atom.wf] at hc ⊢; try exact hc⟩
    · exact ⟨rfl, rfl⟩
  all_goals (simp at h)
  all_goals first
    | (subst h; exact ⟨rfl, by simp [Call.wf, Atom.wf] at hc ⊢; try exact hc⟩)
    | (rcases h with h | h <;> subst h <;> exact ⟨rfl, by simp [Call.wf, Atom.wf] at hc ⊢; try exact hc⟩)

theorem argCalls_wf {a : Arg} (ha : a.valid = true) {c : Call} (h : c ∈ argCalls a) : c.wf = true := by
  cases a with
  | field dt vec acc fs st m =>
    simp only [argCalls, List.mem_append] at h
    simp only [Arg.valid, Bool.and_eq_true] at ha
    rcases h with h | h
    · split at h <;> simp at h <;> subst h <;> simp [Call.wf, ha.1]
    · rcases mem_stencilCalls h with h | h | h | h | h | h <;> subst h <;> rfl
  | op acc t f => simp [argCalls] at h; subst h; simpa [Call.wf, Arg.valid] using ha
  | cma acc t f => simp [argCalls] at h; subst h; simpa [Call.wf, Arg.valid] using ha
  | scalar dt acc => simp [argCalls] at h; subst h; simpa [Call.wf, Arg.valid] using ha

theorem fsCalls_wf {md : Metadata} {fs : FS} {c : Call} (h : c ∈ fsCalls md fs) : c.wf = true := by
  simp only [fsCalls, List.mem_append] at h
  rcases h with (((h | h) | h) | h) | h
  · split at h <;> simp at h; subst h; rfl
  · split at h
    · split at h <;> simp at h <;> subst h <;> rfl
    · simp at h
  · split at h
    · split at h <;> simp at h <;> subst h <;> rfl
    · simp at h
  · rcases mem_funcCalls h with h | h <;> subst h <;> rfl
  · split at h <;> simp at h; subst h; rfl

theorem walk_wf {md : Metadata} (hv : md.args.all Arg.valid = true) {c : Call} (h : c ∈ walk md) :
    c.wf = true := by
  simp only [walk, List.mem_append, List.mem_flatMap] at h
  rcases h with (((((((((h | h) | h) | h) | h) | h) | h) | h) | h) | h) | h
  · split at h <;> simp at h; subst h; rfl
  · split at h <;> simp at h; subst h; rfl
  · split at h <;> simp at h; subst h; rfl
  · split at h <;> simp at h; subst h; rfl
  · split at h <;> simp at h; subst h; rfl
  · obtain ⟨a, hmem, ha⟩ := h
    exact argCalls_wf (List.all_eq_true.mp hv a hmem) ha
  · obtain ⟨fs, _, hfs⟩ := h
    exact fsCalls_wf hfs
  · split at h <;> simp at h; subst h; rfl
  · split at h <;> simp at h; subst h; rfl
  · split at h <;> simp at h; subst h; rfl
  · split at h <;> simp at h; subst h; rfl

theorem valid_args {md : Metadata} (h : Valid md) : md.args.all Arg.valid = true := by
  unfold Valid valid at h
  simp only [Bool.and_eq_true] at h
  exact h.1.1.1.1

/-! ### lemmas for the documented order -/

/-- side condition excluding the two places where the user guide and the code differ: an `xory1d`
stencil (the guide lists the direction argument after the stencil dofmap, the code passes it
before), and a `func_type` entry naming `gh_diff_basis` before `gh_basis` (the guide says
"in the order specified in the metadata", the code always passes basis first). -/
def Arg.notXory1d : Arg → Bool
  | .field _ _ _ _ st _ => st != .xory1d
  | _ => true

def docSide (md : Metadata) : Bool :=
  md.args.all Arg.notXory1d && md.funcs.all (fun f => !(f.diffFirst && f.basis && f.diff))

theorem any_congr_mem_c21 {α} (l : List α) (f g : α → Bool) (h : ∀ a ∈ l, f a = g a) : l.any f = l.any g := by
  induction l with
  | nil => rfl
  | cons x xs ih =>
    simp only [List.any_cons]
    rw [h x (by simp), ih (fun a ha => h a (by simp [ha]))]

theorem flatMap_flatMap_c21 {α β γ} (l : List α) (f : α → List β) (g : β → List γ) :
    (l.flatMap f).flatMap g = l.flatMap (fun a => (f a).flatMap g) := by
  induction l with
  | nil => rfl
  | cons x xs ih => simp [List.flatMap_cons, List.flatMap_append, ih]

theorem evalShapes_eq {md : Metadata} (h : Valid md) : md.evalShapes = md.shapes := by
  unfold Valid valid at h
  simp only [Bool.and_eq_true] at h
  have h3 := h.1.1.2
  unfold Metadata.evalShapes
  split
  · rfl
  · rename_i hb
    have hb' : md.basisRequired = false := by simpa using hb
    rw [hb'] at h3
    have : md.shapes.isEmpty = true := by simpa using h3
    exact (List.isEmpty_iff.mp this).symm

theorem dedupAux_mesh_seen : ∀ l : List MeshProp, dedupAux [MeshProp.adjacentFace] l = []
  | [] => rfl
  | .adjacentFace :: xs => by
    simp only [dedupAux]
    have : [MeshProp.adjacentFace].contains MeshProp.adjacentFace = true := by decide
    rw [if_pos this]
    exact dedupAux_mesh_seen xs

theorem dedup_mesh : ∀ l : List MeshProp, dedup l = if l.isEmpty then [] else [MeshProp.adjacentFace]
  | [] => rfl
  | .adjacentFace :: xs => by
    simp only [dedup, dedupAux]
    have : ([] : List MeshProp).contains MeshProp.adjacentFace = false := by decide
    simp [dedupAux_mesh_seen]

theorem mesh_contains : ∀ l : List MeshProp, l.contains MeshProp.adjacentFace = !l.isEmpty
  | [] => rfl
  | .adjacentFace :: xs => by simp

theorem flatMap_qr_filter : ∀ l : List Shape,
    (l.filter Shape.isQuad).flatMap qrAtoms = l.flatMap qrAtoms
  | [] => rfl
  | s :: xs => by
    cases s <;> simp [List.filter, Shape.isQuad, qrAtoms, List.flatMap_cons, flatMap_qr_filter xs]

theorem docQuadrature_eq (md : Metadata) : docQuadrature md = md.shapes.flatMap qrAtoms := by
  unfold docQuadrature
  congr 1

/-- rule 3 against the per-argument part of the walk -/
theorem arg_doc {md : Metadata} {a : Arg} (hc : a.isCma = false)
    (hx : a.notXory1d = true) :
    (argCalls a).flatMap (stubExpand md) = docArg a := by
  cases a with
  | field dt vec acc fs st m =>
    cases st <;> simp [Arg.notXory1d] at hx <;>
      by_cases hv : vec > 1 <;>
      simp [argCalls, stencilCalls, docArg, docStencil, stubExpand, hv, List.flatMap_cons]
  | op acc t f => simp [argCalls, docArg, stubExpand, List.flatMap_cons]
  | cma acc t f => simp [Arg.isCma] at hc
  | scalar dt acc => simp [argCalls, docArg, stubExpand, List.flatMap_cons]

theorem noCma_cmaOp {md : Metadata} (h : md.hasCma = false) : md.cmaOp = .none := by
  unfold Metadata.hasCma at h
  have : md.args.filter Arg.isCma = [] := by
    rw [List.filter_eq_nil_iff]
    intro a ha
    have := List.any_eq_false.mp h a ha
    simpa using this
  simp [Metadata.cmaOp, this]

theorem noCma_cmaOnSpace {md : Metadata} (h : md.hasCma = false) (fs : FS) : md.cmaOnSpace fs = false := by
  unfold Metadata.hasCma at h
  unfold Metadata.cmaOnSpace
  rw [List.any_eq_false]
  intro a ha
  have := List.any_eq_false.mp h a ha
  simp [this]

theorem basisByShape_doc {md : Metadata} (hv : Valid md) (q e : Atom) :
    basisByShape md q e = docOperation md q e := by
  unfold basisByShape docOperation
  rw [evalShapes_eq hv]

theorem funcs_doc {md : Metadata} (hv : Valid md) (f : Func)
    (hf : (!(f.diffFirst && f.basis && f.diff)) = true) :
    (funcCalls (some f)).flatMap (stubExpand md) = docFuncs md (some f) := by
  simp only [funcCalls, docFuncs, List.flatMap_append]
  cases hb : f.basis <;> cases hd : f.diff <;> cases hdf : f.diffFirst <;>
    simp [hb, hd, hdf, stubExpand, basisByShape_doc hv, List.flatMap_cons] at hf ⊢

/-- rule 4 against the per-function-space part of the walk -/
theorem fs_doc {md : Metadata} (hv : Valid md) (hsc : docScope md = true) (hside : docSide md = true)
    (fs : FS) : (fsCalls md fs).flatMap (stubExpand md) = docSpace md fs := by
  simp only [docScope, Bool.and_eq_true] at hsc
  obtain ⟨⟨⟨_, hcma⟩, hig⟩, hbc⟩ := hsc
  have hcma' : md.hasCma = false := by simpa using hcma
  have hig' : md.isIntergrid = false := by simpa using hig
  have hbc' : md.bc = .none := by simpa using hbc
  have hfunc : (funcCalls (md.findFunc fs)).flatMap (stubExpand md) = docFuncs md (md.findFunc fs) := by
    cases hfind : md.findFunc fs with
    | none => simp [funcCalls, docFuncs]
    | some f =>
      have hmem : f ∈ md.funcs := List.mem_of_find?_eq_some hfind
      simp only [docSide, Bool.and_eq_true] at hside
      exact funcs_doc hv f (List.all_eq_true.mp hside.2 f hmem)
  simp only [fsCalls, docSpace, noCma_cmaOp hcma', noCma_cmaOnSpace hcma', hig', hbc', List.flatMap_append, hfunc]
  by_cases hfo : md.fieldOnSpace fs = true <;> simp [hfo, stubExpand, List.flatMap_cons]

/-! ## The property -/

/-- Per-leaf agreement, checked against the regenerated tables: for every argument class both sides
can produce, the actual the PSy layer passes and the dummy the stub declares have the same type,
kind and rank. -/
theorem C21_leaf_agree : ∀ a : Atom, a.callerOnly = false → Gen.callSig a = Gen.stubSig a := by
  intro a h
  cases a <;> first
    | rfl
    | (exfalso; simp [Atom.callerOnly] at h; done)
    | (rename_i x y; cases x <;> cases y <;> rfl)
    | (rename_i x; cases x <;> rfl)

/-- The translator saw one signature per argument class and classified every argument. -/
theorem C21_gen_consistent : Gen.consistent = true := by decide

/-- Every argument class that a valid kernel can produce was observed on the real code (so the
agreement below is never about an unobserved table entry). -/
theorem C21_table_observed : ∀ a : Atom, a.wf = true →
    (Gen.callSig a).isSome = true ∧ (a.callerOnly = false → (Gen.stubSig a).isSome = true) := by
  intro a h
  cases a <;> first
    | exact ⟨rfl, fun _ => rfl⟩
    | exact ⟨rfl, fun h' => by simp [Atom.callerOnly] at h'⟩
    | (rename_i x y; cases x <;> cases y <;> first | exact ⟨rfl, fun _ => rfl⟩ | (exfalso; simp [Atom.wf] at h; done))
    | (rename_i x; cases x <;> first | exact ⟨rfl, fun _ => rfl⟩ | (exfalso; simp [Atom.wf] at h; done))

/-- **C21 (agreement)**: for every metadata for which a stub is produced, the argument list passed by
the PSy layer and the dummy-argument list of the stub agree position by position in count, type,
kind and rank. -/
theorem C21_agree : ∀ md : Metadata, StubSupported md →
    (callArgs md).map Gen.callSig = (stubArgs md).map Gen.stubSig := by
  intro md h
  rw [callArgs_eq_stubArgs h]
  apply List.map_congr_left
  intro a ha
  simp only [stubArgs, List.mem_flatMap] at ha
  obtain ⟨c, _, hac⟩ := ha
  -- caller-only atoms never occur on the stub side (whatever the parameters of the call)
  apply C21_leaf_agree
  cases c <;> simp only [stubExpand] at hac
  case basis => rcases mem_basisByShape hac with h | h <;> subst h <;> rfl
  case diffBasis => rcases mem_basisByShape hac with h | h <;> subst h <;> rfl
  case refElement => rcases mem_refAtoms hac with ⟨k, rfl⟩ | ⟨p, rfl⟩ <;> rfl
  case meshProperties => rcases mem_meshAtoms hac with h | h <;> subst h <;> rfl
  case quadRule =>
    simp only [List.mem_flatMap] at hac
    obtain ⟨s, _, hs⟩ := hac
    rcases mem_qrAtoms hs with h | h | h | h | h | h | h | h <;> subst h <;> rfl
  case fieldVector dt acc n => have := List.eq_of_mem_replicate hac; subst this; rfl
  case cmaOperator acc same =>
    simp only [List.mem_cons, List.mem_map] at hac
    rcases hac with rfl | ⟨p, _, rfl⟩ <;> rfl
  all_goals (simp at hac)
  all_goals first
    | (subst hac; rfl)
    | (rcases hac with h | h <;> subst h <;> rfl)

/-- … and for valid metadata every compared entry is an observed signature (non-vacuity of the
table lookup): both lists consist of `some _`. -/
theorem C21_agree_observed : ∀ md : Metadata, Valid md → StubSupported md →
    ∀ a ∈ stubArgs md, (Gen.callSig a).isSome = true ∧ (Gen.stubSig a).isSome = true := by
  intro md hv hs a ha
  simp only [stubArgs, List.mem_flatMap] at ha
  obtain ⟨c, hc, hac⟩ := ha
  have hcw := walk_wf (valid_args hv) hc
  obtain ⟨h1, h2⟩ := stubExpand_atoms hcw hac
  obtain ⟨h3, h4⟩ := C21_table_observed a h2
  exact ⟨h3, h4 h1⟩

/-- **C21 (intent)**: the intent the stub declares for every argument class is the documented one
(`gh_read` → `in`, updating accesses → `inout`, implicit arguments `in`). -/
theorem C21_intent : ∀ a : Atom, a.wf = true → a.callerOnly = false → Gen.stubIntent a = a.docIntent := by
  intro a h hc
  cases a <;> first
    | rfl
    | (exfalso; simp [Atom.callerOnly] at hc; done)
    | (rename_i x y; cases x <;> cases y <;> first | rfl | (exfalso; simp [Atom.wf] at h; done))
    | (rename_i x; cases x <;> first | rfl | (exfalso; simp [Atom.wf] at h; done))

/-- The stub generator's refusals are exactly: inter-grid kernels, kernels not operating on cell
columns, basis functions on an `any_*space`, and `generate`'s own refusals. -/
theorem C21_stub_refusal_iff (md : Metadata) :
    StubSupported md ↔ (md.isIntergrid = false ∧ md.operatesOn = .cellColumn ∧
      md.funcs.any (fun f => f.needs && decide (f.fs ≥ anySpaceBase)) = false ∧ generateRefusal md = none) := by
  unfold StubSupported stubRefusal
  constructor
  · intro h
    split at h
    · simp at h
    · rename_i h1
      split at h
      · simp at h
      · rename_i h2
        split at h
        · simp at h
        · rename_i h3
          split at h
          · simp at h
          · rename_i h4
            exact ⟨by simpa using h1, by simpa using h2, by simpa using h3, h4⟩
  · rintro ⟨h1, h2, h3, h4⟩
    simp [h1, h2, h3, h4]

/-! ### the pinned caller (before `fixes/C21-basis-shape-order.patch`) -/

/-- witness: two fields on `w1`/`w2`, `func_type(w1, gh_basis)`, `gh_shape = (/gh_evaluator, gh_quadrature_xyoz/)` -/
def witnessEvalFirst : Metadata :=
  { operatesOn := .cellColumn
    args := [.field .real 1 .inc 1 .none .none, .field .real 1 .read 2 .none .none]
    funcs := [{ fs := 1, basis := true, diff := false }]
    shapes := [.evaluator, .xyoz], targets := [], refelem := [], mesh := [], bc := .none }

/-- the statement of C21 for the PINNED `KernCallArgList` -/
def C21_pinned_statement : Prop :=
  ∀ md : Metadata, Valid md → StubSupported md →
    (callArgsPinned md).map Gen.callSig = (stubArgs md).map Gen.stubSig

/-- The pinned caller passes every quadrature basis array before the evaluator arrays, the stub
(and the documentation) follow the order of `gh_shape`: ranks 4,3 against 3,4. -/
theorem C21_pinned_counterexample : ¬ C21_pinned_statement := by
  intro h
  have := h witnessEvalFirst (by decide) (by decide)
  revert this
  decide

example : Valid witnessEvalFirst ∧ StubSupported witnessEvalFirst := by decide
example : (callArgs witnessEvalFirst).map Gen.callSig = (stubArgs witnessEvalFirst).map Gen.stubSig := by decide

/-! ### the documented order -/


/-- the full documentation clause -/
def C21_doc_statement : Prop :=
  ∀ md : Metadata, Valid md → ∀ d, docOrder md = some d → stubArgs md = d

def witnessXory1d : Metadata :=
  { operatesOn := .cellColumn
    args := [.field .real 1 .inc 1 .none .none, .field .real 1 .read 2 .xory1d .none]
    funcs := [], shapes := [], targets := [], refelem := [], mesh := [], bc := .none }

def witnessDiffFirst : Metadata :=
  { operatesOn := .cellColumn
    args := [.field .real 1 .inc 1 .none .none]
    funcs := [{ fs := 1, basis := true, diff := true, diffFirst := true }]
    shapes := [.xyoz], targets := [], refelem := [], mesh := [], bc := .none }

theorem C21_doc_counterexample : ¬ C21_doc_statement := by
  intro h
  have := h witnessXory1d (by decide) _ rfl
  revert this
  decide

theorem C21_doc_counterexample_diff_first :
    Valid witnessDiffFirst ∧ docSide witnessDiffFirst = false ∧
    docOrder witnessDiffFirst ≠ some (stubArgs witnessDiffFirst) := by decide

/-- **C21 (documented order)**, general-purpose kernels: outside the two documented-vs-implemented
differences (`docSide`), the stub's — hence also the caller's (`C21_agree`) — argument list is
exactly the one prescribed by rules 1–7 of the user guide. -/
theorem C21_doc_partial : ∀ md : Metadata, Valid md → docSide md = true →
    ∀ d, docOrder md = some d → stubArgs md = d := by
  intro md hv hside d hd
  unfold docOrder at hd
  split at hd
  · rename_i hsc
    injection hd with hd
    subst hd
    have hsc' := hsc
    simp only [docScope, Bool.and_eq_true] at hsc'
    obtain ⟨⟨⟨hop, hcma⟩, hig⟩, hbc⟩ := hsc'
    have hcma' : md.hasCma = false := by simpa using hcma
    have hig' : md.isIntergrid = false := by simpa using hig
    have hbc' : md.bc = .none := by simpa using hbc
    have hop' : md.operatesOn = .cellColumn := by simpa using hop
    have hargs : (md.args.flatMap argCalls).flatMap (stubExpand md) = md.args.flatMap docArg := by
      rw [flatMap_flatMap_c21]
      apply flatMap_congr_mem
      intro a ha
      simp only [docSide, Bool.and_eq_true] at hside
      refine arg_doc ?_ (List.all_eq_true.mp hside.1 a ha)
      have := List.any_eq_false.mp (by simpa [Metadata.hasCma] using hcma') a ha
      simpa using this
    have hfss : (md.uniqueFss.flatMap (fsCalls md)).flatMap (stubExpand md)
        = (dedup (md.args.flatMap Arg.spaces)).flatMap (docSpace md) := by
      rw [flatMap_flatMap_c21]
      apply flatMap_congr_mem
      intro fs _
      exact fs_doc hv hsc hside fs
    have hop2 : md.hasOperator = md.hasLma := by
      unfold Metadata.hasOperator Metadata.hasLma
      apply any_congr_mem_c21
      intro a ha
      have := List.any_eq_false.mp (by simpa [Metadata.hasCma] using hcma') a ha
      simp [this]
    have href : (if (!md.refelem.isEmpty) = true then [Call.refElement] else []).flatMap (stubExpand md)
        = docRefElement md.refelem := by
      cases hr : md.refelem with
      | nil => rfl
      | cons x xs => simp [stubExpand, hr, refAtoms, docRefElement, List.flatMap_cons]
    have hmesh : (if (!md.mesh.isEmpty) = true then [Call.meshProperties] else []).flatMap (stubExpand md)
        = docMesh md := by
      unfold docMesh
      rw [mesh_contains]
      cases hm : md.mesh with
      | nil => rfl
      | cons x xs =>
        cases x
        simp [stubExpand, meshAtoms, hm, dedup_mesh, List.flatMap_cons]
    have hqr : (if (!md.qrShapes.isEmpty) = true then [Call.quadRule] else []).flatMap (stubExpand md)
        = docQuadrature md := by
      rw [docQuadrature_eq, ← flatMap_qr_filter, ← evalShapes_eq hv]
      change _ = md.qrShapes.flatMap qrAtoms
      cases hq : md.qrShapes with
      | nil => rfl
      | cons x xs => simp [stubExpand, hq, List.flatMap_cons]
    simp only [stubArgs, walk, List.flatMap_append, hargs, hfss, href, hmesh, hqr, noCma_cmaOp hcma',
      hcma', hig', hbc', hop', hop2]
    cases md.hasLma <;> simp [stubExpand, List.flatMap_cons]
  · simp at hd

example : Valid witnessDiffFirst := by decide
/-- non-vacuity of `C21_doc_partial`: a kernel with an LMA operator, a field vector with a region
stencil, basis functions, two shapes, reference-element and mesh properties is in its scope -/
def docExample : Metadata :=
  { operatesOn := .cellColumn
    args := [.op .write 0 1, .field .real 3 .read 0 .region .none, .scalar .integer .read,
             .field .real 1 .read 2 .cross2d .none]
    funcs := [{ fs := 0, basis := true, diff := true }]
    shapes := [.evaluator, .face], targets := [0, 1]
    refelem := [.normalsV, .outH], mesh := [.adjacentFace], bc := .none }
example : Valid docExample ∧ docSide docExample = true ∧ StubSupported docExample ∧
    docOrder docExample = some (stubArgs docExample) ∧ (stubArgs docExample).length = 35 := by decide

/-! ### `nfaces_re_h` with the `adjacent_face` mesh property (rules 5 and 6.1): passed exactly once -/
def meshWitness (ps : List RefProp) : Metadata :=
  { operatesOn := .cellColumn
    args := [.scalar .real .read, .field .real 1 .inc 1 .none .none]
    funcs := [], shapes := [], targets := [], refelem := ps, mesh := [.adjacentFace], bc := .none }

/-- for every single reference-element property together with `adjacent_face`, `nfaces_re_h` occurs
exactly once in the stub's list, before `adjacent_face`, and the list is the documented one -/
theorem C21_nfaces_h_once : ∀ p : RefProp,
    (stubArgs (meshWitness [p])).count (.nfacesRe .h) = 1 ∧
    docOrder (meshWitness [p]) = some (stubArgs (meshWitness [p])) ∧
    callArgs (meshWitness [p]) = stubArgs (meshWitness [p]) := by
  intro p; cases p <;> decide

end C21
