import PsyVerif.Lemmas.RegionDataSem
/-! # C13 — OpenACC data regions move all data the region needs

Model (`Model/RegionData.lean`): `clauses` = `create_data_movement_deep_copy_refs` +
`_update_data_movement_clauses` on the access list `sacc` (incl. DO WHILE: condition first, and
calls as `RStmt.code`: READWRITE of the by-reference arguments): `has_read_write` → `copy`
(tested first), read-only → `copyin`, never read or textually written first → `copyout`, else
`copy`; `clausesP` adds the parents of structure members (deep copy); `accDataTrans(P)` =
`ACCDataTrans` validate/apply (refusals: empty list, CodeBlock/Return, `enter data`);
`execACC` = host store + device store whose fresh contents `γ` are ARBITRARY (poison = the
theorems quantify over `γ`), whole region on the device, copyin/copy at entry, copyout/copy at
exit element by element; scalars in no clause are shared (outside the claim).  Theorems about
regions with calls carry the explicit hypothesis `covered` (the callee touches only its arguments).

Theorems (all for every `fuel`, `σ`, `γ`)
* `C13_statement` is FALSE of the code at HEAD: `partial_copyout_counterexample`
  (`a(1)=5; b(2)=a(2)` gets `copyout(a,b)`), `write_only_copyout_counterexample` (`a(1)=5`).
* `C13_clauses_arrays`, `C13_clauses_disjoint`, `C13_copyout_char`, `C13_readwrite_copy`,
  `C13_refusals` — structure of the generated clauses and of the refusals.
* `C13_partial` (+ `C13_host_arrays_partial`, `C13_no_poison_partial`, `C13_trans_partial`) —
  whole-store equality with host execution when no touched array lands in `copyout`;
  `writeThenCall_exact`: `a(1)=5; call bump(a, ..)` is exact because READWRITE wins.
* `C13_deviation_covered_partial` — SYNTACTIC side condition `CopyoutCovered` (`chk`): if
  `copyout` arrays are read at most at elements covered by an earlier unconditional store to
  the same element, no undefined value is ever consumed and the only damage is junk copied back
  over elements the region left untouched; `C13_deviation_partial` (never read) is the special
  case (`copyoutCovered_of_notRead`); `C13_covered_partial` — no damage if every declared
  element is changed.
* `C13_parents_irrelevant` — adding the structure parents to the clauses changes nothing on
  the other variables, so the above carries over to `clausesP`.
Outside the model: `present`/`update` directives, kernels/parallel regions, CodeBlocks
(refused by `ACCDataTrans`). -/
namespace C13
open MiniF RegionData

variable {fuel : Nat}

theorem mem_arrays {s : RStmt} {x : Nat} :
    x ∈ arrays s ↔ isArr (sacc s) x = true := by
  simp only [arrays, arraysE, List.mem_filter, mem_varsOf]
  constructor
  · exact fun h => h.2
  · intro h
    obtain ⟨e, he, hv, _⟩ := isArr_iff.mp h
    exact ⟨⟨e, he, hv⟩, h⟩

theorem mem_cin {s : RStmt} {x : Nat} :
    x ∈ (clauses s).cin ↔ x ∈ arrays s ∧ clauseOf (sacc s) x = .copyin := by
  simp [clauses, clausesE, arrays, List.mem_filter]

theorem mem_cout {s : RStmt} {x : Nat} :
    x ∈ (clauses s).cout ↔ x ∈ arrays s ∧ clauseOf (sacc s) x = .copyout := by
  simp [clauses, clausesE, arrays, List.mem_filter]

theorem mem_cpy {s : RStmt} {x : Nat} :
    x ∈ (clauses s).cpy ↔ x ∈ arrays s ∧ clauseOf (sacc s) x = .copy := by
  simp [clauses, clausesE, arrays, List.mem_filter]

/-- every touched array is in exactly one clause -/
theorem arr_partition {s : RStmt} {x : Nat} (h : x ∈ arrays s) :
    x ∈ (clauses s).cin ∨ x ∈ (clauses s).cout ∨ x ∈ (clauses s).cpy := by
  rw [mem_cin, mem_cout, mem_cpy]
  cases hc : clauseOf (sacc s) x
  · exact Or.inl ⟨h, rfl⟩
  · exact Or.inr (Or.inl ⟨h, rfl⟩)
  · exact Or.inr (Or.inr ⟨h, rfl⟩)

theorem copyin_not_written {s : RStmt} {x : Nat} (h : clauseOf (sacc s) x = .copyin) :
    isWritten (sacc s) x = false := by
  unfold clauseOf at h
  split at h
  · exact absurd h (by decide)
  split at h
  · split at h
    · split at h <;> exact absurd h (by decide)
    · rename_i hw; simpa using hw
  · exact absurd h (by decide)

theorem copyout_read_first {s : RStmt} {x : Nat} (h : clauseOf (sacc s) x = .copyout)
    (hr : isRead (sacc s) x = true) : writtenFirst (sacc s) x = true := by
  unfold clauseOf at h
  rw [if_pos hr] at h
  split at h
  · exact absurd h (by decide)
  split at h
  · split at h
    · assumption
    · exact absurd h (by decide)
  · exact absurd h (by decide)

theorem cin_frame {s : RStmt} (hcv : covered s = true) {l : Loc} (h : l.1 ∈ (clauses s).cin) (σ : Store) :
    (rexec fuel s σ) l = σ l := by
  obtain ⟨x, i, j⟩ := l
  apply rexec_frame
  intro hw
  have := copyin_not_written (mem_cin.mp h).2
  rw [wvars_written hcv hw] at this
  exact absurd this (by decide)

/-! ## The property -/

/-- the full claim: for every content `γ` of fresh device memory, every touched host array
holds the same values after the data region as after executing the region on the host -/
def C13_statement : Prop :=
  ∀ (fuel : Nat) (s : RStmt) (σ γ : Store), covered s = true → ∀ x ∈ arrays s, ∀ i j,
    (execACC fuel (clauses s) s σ γ) (x, i, j) = (rexec fuel s σ) (x, i, j)

/-- structure of the generated clauses: only arrays; `copyin` = read-only; an array goes to
`copyout` iff it is never read or its first textual access is a write; otherwise `copy` -/
theorem C13_clauses_arrays (s : RStmt) (x : Nat)
    (h : x ∈ (clauses s).cin ∨ x ∈ (clauses s).cout ∨ x ∈ (clauses s).cpy) :
    isArr (sacc s) x = true := by
  rw [mem_cin, mem_cout, mem_cpy] at h
  rcases h with h | h | h <;> exact mem_arrays.mp h.1

theorem C13_clauses_disjoint (s : RStmt) (x : Nat) :
    ¬ (x ∈ (clauses s).cin ∧ x ∈ (clauses s).cout) ∧ ¬ (x ∈ (clauses s).cin ∧ x ∈ (clauses s).cpy)
    ∧ ¬ (x ∈ (clauses s).cout ∧ x ∈ (clauses s).cpy) := by
  rw [mem_cin, mem_cout, mem_cpy]
  refine ⟨?_, ?_, ?_⟩ <;> (rintro ⟨⟨_, h1⟩, ⟨_, h2⟩⟩; rw [h1] at h2; exact absurd h2 (by decide))

theorem C13_copyout_char (s : RStmt) (x : Nat) :
    x ∈ (clauses s).cout ↔
      isArr (sacc s) x = true ∧ hasRW (sacc s) x = false ∧
        (isRead (sacc s) x = false ∨ writtenFirst (sacc s) x = true) := by
  rw [mem_cout, mem_arrays]
  constructor
  · rintro ⟨ha, hc⟩
    have hrw : hasRW (sacc s) x = false := by
      cases hq : hasRW (sacc s) x
      · rfl
      · unfold clauseOf at hc; rw [if_pos hq] at hc; exact absurd hc (by decide)
    refine ⟨ha, hrw, ?_⟩
    cases hr : isRead (sacc s) x
    · exact Or.inl rfl
    · exact Or.inr (copyout_read_first hc hr)
  · rintro ⟨ha, hrw, h⟩
    refine ⟨ha, ?_⟩
    unfold clauseOf
    rcases h with h | h
    · simp [h, hrw]
    · cases hr : isRead (sacc s) x
      · simp [hrw]
      · have hw : isWritten (sacc s) x = true := by
          unfold writtenFirst firstOf at h
          split at h
          · rename_i e he
            rw [isWritten_iff]
            have := List.find?_some he
            exact ⟨e, List.mem_of_find?_eq_some he, by simpa using this, h⟩
          · exact absurd h (by decide)
        simp [hw, h, hrw]

/-- **READWRITE goes to `copy`**: an array with a READWRITE access anywhere in the region (a
by-reference argument of a call of unknown intent) is in `copy`, whatever its first access -/
theorem C13_readwrite_copy (s : RStmt) (x : Nat) (ha : isArr (sacc s) x = true)
    (h : hasRW (sacc s) x = true) : x ∈ (clauses s).cpy := by
  rw [mem_cpy, mem_arrays]
  exact ⟨ha, by unfold clauseOf; rw [if_pos h]⟩

/-- **data movement is sufficient, partial**: if no touched array is put in `copyout`, the data
region leaves the host exactly as host execution does — whatever the device memory held -/
theorem C13_partial (s : RStmt) (hcv : covered s = true) (h : FullyWrittenOrRead s) (σ γ : Store) :
    execACC fuel (clauses s) s σ γ = rexec fuel s σ := by
  unfold FullyWrittenOrRead at h
  have hpart : ∀ x, x ∈ arrays s → x ∈ (clauses s).cin ∨ x ∈ (clauses s).cpy := by
    intro x hx
    rcases arr_partition hx with h1 | h1 | h1
    · exact Or.inl h1
    · rw [h] at h1; cases h1
    · exact Or.inr h1
  have hd : devInit (clauses s) (arrays s) σ γ = σ := by
    apply Store.ext; funext l
    simp only [devInit, Bool.or_eq_true, List.contains_iff_mem]
    split
    · rfl
    · rename_i h1
      split
      · rename_i h2
        rcases h2 with h2 | h2
        · rw [h] at h2; cases h2
        · exact absurd (hpart _ h2) h1
      · rfl
  unfold execACC
  rw [hd]
  apply Store.ext; funext l
  simp only [hostFinal, Bool.or_eq_true, List.contains_iff_mem]
  split
  · rfl
  · rename_i h1
    split
    · rename_i h2
      rcases h2 with h2 | h2
      · exact (cin_frame hcv h2 σ).symm
      · rcases hpart _ h2 with h3 | h3
        · exact (cin_frame hcv h3 σ).symm
        · exact absurd (Or.inr h3) h1
    · rfl

/-- in particular the host arrays agree (the form of `C13_statement`) and the result does
not depend on the undefined device contents: no poison is consumed or copied back -/
theorem C13_host_arrays_partial (s : RStmt) (hcv : covered s = true) (h : FullyWrittenOrRead s) (σ γ : Store) :
    ∀ x ∈ arrays s, ∀ i j, (execACC fuel (clauses s) s σ γ) (x, i, j) = (rexec fuel s σ) (x, i, j) := by
  intro x _ i j; rw [C13_partial s hcv h]

theorem C13_no_poison_partial (s : RStmt) (hcv : covered s = true) (h : FullyWrittenOrRead s) (σ γ γ' : Store) :
    execACC fuel (clauses s) s σ γ = execACC fuel (clauses s) s σ γ' := by
  rw [C13_partial s hcv h, C13_partial s hcv h]

/-- the same through the transformation: whenever `ACCDataTrans` accepts -/
theorem C13_trans_partial (hasEnter : Bool) (items : List Item) (c : Clauses)
    (hacc : accDataTrans hasEnter items = some c) (hcv : covered (rseqs (itemsStmt items)) = true)
    (h : FullyWrittenOrRead (rseqs (itemsStmt items))) (σ γ : Store) :
    execACC fuel c (rseqs (itemsStmt items)) σ γ = rexec fuel (rseqs (itemsStmt items)) σ := by
  unfold accDataTrans at hacc
  split at hacc
  · exact absurd hacc (by simp)
  · simp only [Option.some.injEq] at hacc
    subst hacc
    exact C13_partial _ hcv h σ γ

/-- refusals of `ACCDataTrans.validate` on the modelled inputs -/
theorem C13_refusals (hasEnter : Bool) (items : List Item) :
    accDataTrans hasEnter items = none ↔ (items = [] ∨ hasExcluded items = true ∨ hasEnter = true) := by
  unfold accDataTrans
  split
  · rename_i h
    simp only [Bool.or_eq_true, List.isEmpty_iff] at h
    simp only [true_iff]
    rcases h with (h | h) | h
    · exact Or.inl h
    · exact Or.inr (Or.inl h)
    · exact Or.inr (Or.inr h)
  · rename_i h
    simp only [Bool.or_eq_true, List.isEmpty_iff, not_or] at h
    simp only [reduceCtorEq, false_iff, not_or]
    exact ⟨h.1.1, h.1.2, h.2⟩

/-- reads of `copyout` arrays only at covered elements: implied by "never read" -/
theorem copyoutCovered_of_notRead (s : RStmt) (hcv : covered s = true) (h : CopyoutNotRead s) : CopyoutCovered s := by
  unfold CopyoutNotRead copyoutNotRead at h
  simp only [List.all_eq_true, Bool.not_eq_true'] at h
  apply chk_of_reads s hcv
  intro ev he hw
  simp only [nonCout, List.mem_filter, mem_varsOf, Bool.not_eq_true', List.contains_eq_mem,
    decide_eq_false_iff_not]
  refine ⟨⟨ev, he, rfl⟩, fun hout => ?_⟩
  have := h _ hout
  rw [isRead_iff.mpr ⟨ev, he, rfl, hw⟩] at this
  exact absurd this (by decide)

/-- **exact damage, partial** (syntactic side condition): if every read of a `copyout` array is
of an element covered by an earlier unconditional store of the region (`CopyoutCovered`; in
particular if those arrays are never read), every location ends as on the host, except that an
element of a `copyout` array which the region leaves untouched receives the undefined device
value — no undefined value is ever consumed -/
theorem C13_deviation_covered_partial (s : RStmt) (hcv : covered s = true) (h : CopyoutCovered s) (σ γ : Store) (l : Loc) :
    (execACC fuel (clauses s) s σ γ) l = (rexec fuel s σ) l ∨
      (l.1 ∈ (clauses s).cout ∧ (execACC fuel (clauses s) s σ γ) l = γ l ∧ (rexec fuel s σ) l = σ l) := by
  let K : List Nat := nonCout s
  let A0 : Loc → Prop := fun l => l.1 ∉ (clauses s).cout
  have hkok : KOK A0 K (sacc s) := by
    intro ev he hw hk l' hc hout
    simp only [K, nonCout, List.mem_filter, Bool.not_eq_true', List.contains_eq_mem,
      decide_eq_false_iff_not] at hk
    rw [hc.1] at hout
    exact hk.2 hout
  obtain ⟨D, hD⟩ := Option.isSome_iff_exists.mp h
  let d0 := devInit (clauses s) (arrays s) σ γ
  have hd0 : ∀ l', l'.1 ∉ (clauses s).cout → d0 l' = σ l' := by
    intro l' hl'
    simp only [d0, devInit, Bool.or_eq_true, List.contains_iff_mem]
    split
    · rfl
    · rename_i h1
      split
      · rename_i h2
        rcases h2 with h2 | h2
        · exact absurd h2 hl'
        · rcases arr_partition h2 with h3 | h3 | h3
          · exact absurd (Or.inl h3) h1
          · exact absurd h3 hl'
          · exact absurd (Or.inr h3) h1
      · rfl
  have h0 : SimS A0 ([], []) d0 σ d0 σ := by
    refine ⟨⟨?_, fun l' => Or.inr ⟨rfl, rfl⟩⟩, fun p hp => by cases hp⟩
    intro l' hl'
    rcases hl' with hl' | hl'
    · exact hd0 l' hl'
    · exact absurd hl'.1 (by simp)
  have hs := (chk_sim (fuel := fuel) s hcv ([], []) D d0 σ hD hkok h0).1.sim
  have hE : (execACC fuel (clauses s) s σ γ) l = (hostFinal (clauses s) (arrays s) σ (rexec fuel s d0)) l := rfl
  rw [hE]
  simp only [hostFinal, Bool.or_eq_true, List.contains_iff_mem]
  by_cases hout : l.1 ∈ (clauses s).cout
  · have hnot : ¬ (l.1 ∈ (clauses s).cin ∨ l.1 ∈ (clauses s).cpy) := by
      rintro (h1 | h1)
      · exact (C13_clauses_disjoint s l.1).1 ⟨h1, hout⟩
      · exact (C13_clauses_disjoint s l.1).2.2 ⟨hout, h1⟩
    rw [if_pos (Or.inl hout)]
    rcases hs.rel l with h1 | ⟨h1, h2⟩
    · exact Or.inl h1
    · right
      refine ⟨hout, ?_, h2⟩
      rw [h1]
      simp only [d0, devInit, Bool.or_eq_true, List.contains_iff_mem]
      rw [if_neg hnot, if_pos (Or.inl hout)]
  · left
    have hag : (rexec fuel s d0) l = (rexec fuel s σ) l := hs.agree l (Or.inl hout)
    split
    · exact hag
    · rename_i h1
      split
      · rename_i h2
        rcases h2 with h2 | h2
        · exact (cin_frame hcv h2 σ).symm
        · rcases arr_partition h2 with h3 | h3 | h3
          · exact (cin_frame hcv h3 σ).symm
          · exact absurd h3 hout
          · exact absurd (Or.inr h3) h1
      · exact hag

/-- the same under the stronger "copyout arrays are never read" -/
theorem C13_deviation_partial (s : RStmt) (hcv : covered s = true) (h : CopyoutNotRead s) (σ γ : Store) (l : Loc) :
    (execACC fuel (clauses s) s σ γ) l = (rexec fuel s σ) l ∨
      (l.1 ∈ (clauses s).cout ∧ (execACC fuel (clauses s) s σ γ) l = γ l ∧ (rexec fuel s σ) l = σ l) :=
  C13_deviation_covered_partial s hcv (copyoutCovered_of_notRead s hcv h) σ γ l

/-- **full coverage suffices, partial**: if the `copyout` arrays are read at covered elements only and the region
changes every element of them inside the declared extents `Ext`, the host agrees with host
execution on all declared elements — the situation `copyout` is meant for -/
theorem C13_covered_partial (s : RStmt) (hcv : covered s = true) (h : CopyoutCovered s) (σ γ : Store) (Ext : Loc → Prop)
    (hcov : ∀ l, l.1 ∈ (clauses s).cout → Ext l → (rexec fuel s σ) l ≠ σ l) :
    ∀ l, Ext l → (execACC fuel (clauses s) s σ γ) l = (rexec fuel s σ) l := by
  intro l hl
  rcases C13_deviation_covered_partial s hcv h σ γ l with h1 | ⟨hout, _, h3⟩
  · exact h1
  · exact absurd h3 (hcov l hout hl)

/-! ### structure members: the parents added for the deep copy do not matter -/

theorem mem_withParents {par : List (Nat × Nat)} {l : List Nat} {x : Nat}
    (hx : ∀ q ∈ par, q.2 ≠ x) : x ∈ withParents par l ↔ x ∈ l := by
  simp only [withParents, mem_dedup, List.mem_append, parentsOf, List.mem_filterMap, Option.map_eq_some_iff]
  constructor
  · rintro (⟨y, _, q, hq, rfl⟩ | h)
    · exact absurd rfl (hx q (List.mem_of_find?_eq_some hq))
    · exact h
  · exact fun h => Or.inr h

/-- **parents are irrelevant**: if the parent ids are not variables of the region (a structure
is only accessed through its members), the data region with the parents added to the clauses
(`clausesP`, what the real directive carries) behaves on every other variable exactly like the
one with the member clauses only — so the theorems about `clauses` carry over -/
theorem C13_parents_irrelevant (par : List (Nat × Nat)) (s : RStmt) (hcv : covered s = true)
    (hpar : ∀ q ∈ par, ∀ e ∈ sacc s, e.var ≠ q.2) (σ γ : Store) (l : Loc)
    (hl : ∀ q ∈ par, q.2 ≠ l.1) :
    (execACC fuel (clausesP par s) s σ γ) l = (execACC fuel (clauses s) s σ γ) l := by
  let K : List Nat := varsOf (sacc s)
  let A0 : Loc → Prop := fun l' => ∀ q ∈ par, q.2 ≠ l'.1
  have hmem : ∀ (L : List Nat) (l' : Loc), A0 l' → ((withParents par L).contains l'.1 = L.contains l'.1) := by
    intro L l' h'
    rw [Bool.eq_iff_iff]
    simp only [List.contains_iff_mem]
    exact mem_withParents h'
  have hkok : KOK A0 K (sacc s) := by
    intro ev he _ _ l' hc q hq
    rw [hc.1]
    exact (hpar q hq ev he).symm
  obtain ⟨D, hD⟩ := Option.isSome_iff_exists.mp
    (chk_of_reads (K := K) s hcv ([], []) (fun ev he _ => mem_varsOf.mpr ⟨ev, he, rfl⟩))
  let dP := devInit (clausesP par s) (arrays s) σ γ
  let d0 := devInit (clauses s) (arrays s) σ γ
  have hd : ∀ l', A0 l' → dP l' = d0 l' := by
    intro l' h'
    simp only [dP, d0, devInit, clausesP, hmem _ l' h']
  have h0 : SimS A0 ([], []) dP d0 dP d0 := by
    refine ⟨⟨?_, fun l' => Or.inr ⟨rfl, rfl⟩⟩, fun p hp => by cases hp⟩
    intro l' hl'
    rcases hl' with hl' | hl'
    · exact hd l' hl'
    · exact absurd hl'.1 (by simp)
  have hs := (chk_sim (fuel := fuel) s hcv ([], []) D dP d0 hD hkok h0).1.sim
  have hag : (rexec fuel s dP) l = (rexec fuel s d0) l := hs.agree l (Or.inl hl)
  show (hostFinal (clausesP par s) (arrays s) σ (rexec fuel s dP)) l
    = (hostFinal (clauses s) (arrays s) σ (rexec fuel s d0)) l
  simp only [hostFinal, clausesP, hmem _ l hl, hag]

/-! ### calls of unknown intent (`RStmt.code`): READWRITE arguments go to `copy` -/

/-- `call bump(a, s, b(k))` of unknown intent (a=0 b=1 s=4 k=5), callee `x(1)=x(2)+y; y=y+z; z=3` -/
def callBump : RStmt :=
  .code [.rw 0 true, .rw 4 false, .rw 1 true, .rd (.var 5)]
    (.seq (.store1 0 (.lit 1) (.bin .add (.idx1 0 (.lit 2)) (.var 4)))
      (.seq (.assign 4 (.bin .add (.var 4) (.idx1 1 (.var 5)))) (.store1 1 (.var 5) (.lit 3))))

example : covered callBump = true ∧ clauses callBump = ⟨[], [], [0, 1]⟩ ∧ FullyWrittenOrRead callBump := by decide

/-- `a(1) = 5; call bump(a, s, b(k))`: the first access of `a` is a (partial) WRITE, but the
READWRITE access of the call puts `a` in `copy` (`has_read_write` is tested first) — so the
hypothesis of `C13_partial` holds and the data region is exact -/
def writeThenCall : RStmt := .seq (.store1 0 (.lit 1) (.lit 5)) callBump

example : covered writeThenCall = true ∧ writtenFirst (sacc writeThenCall) 0 = true
    ∧ clauses writeThenCall = ⟨[], [], [0, 1]⟩ ∧ FullyWrittenOrRead writeThenCall := by decide

theorem writeThenCall_exact (σ γ : Store) :
    execACC fuel (clauses writeThenCall) writeThenCall σ γ = rexec fuel writeThenCall σ :=
  C13_partial writeThenCall (by decide) (by decide) σ γ

/-- with `copyout(a)` instead (first-access rule applied before `has_read_write`) the callee
reads the undefined device `a(2)`: host `a(1)` ends as 7 + s instead of a(2) + s -/
example : (execACC 0 ⟨[], [0], [1]⟩ writeThenCall (storeOf [((0, 2, 0), 1)]) (storeOf [((0, 2, 0), 7)])) (0, 1, 0) = 7
    ∧ (rexec 0 writeThenCall (storeOf [((0, 2, 0), 1)])) (0, 1, 0) = 1 := by decide

/-! ## The defect: partially written arrays are put in `copyout` -/

/-- `a(1) = 5 ; b(2) = a(2)` with `a = 0`, `b = 1` -/
def wit : RStmt := .seq (.store1 0 (.lit 1) (.lit 5)) (.store1 1 (.lit 2) (.idx1 0 (.lit 2)))
def σw : Store := storeOf []
/-- device memory that happens to hold 7 at `a(2)` -/
def γw : Store := storeOf [((0, 2, 0), 7)]

example : clauses wit = ⟨[], [0, 1], []⟩ := by decide
example : accDataTrans false [.stmt (.store1 0 (.lit 1) (.lit 5)), .stmt (.store1 1 (.lit 2) (.idx1 0 (.lit 2)))]
    = some ⟨[], [0, 1], []⟩ := by decide

/-- `copyout(a,b)`: the device reads `a(2)` that was never copied in, and the host's `b(2)`
receives it -/
theorem partial_copyout_counterexample : ¬ C13_statement := by
  intro h
  have h1 := h 0 wit σw γw (by decide) 1 (by decide) 2 0
  revert h1
  decide

/-- `a(1) = 5` alone gets `copyout(a)`: nothing undefined is read, but the host's `a(2)` is
overwritten with the device's undefined `a(2)` -/
def wit2 : RStmt := .store1 0 (.lit 1) (.lit 5)

example : clauses wit2 = ⟨[], [0], []⟩ := by decide
example : CopyoutNotRead wit2 ∧ ¬ FullyWrittenOrRead wit2 := by decide

theorem write_only_copyout_counterexample :
    ¬ (∀ (fuel : Nat) (σ γ : Store), ∀ x ∈ arrays wit2, ∀ i j,
        (execACC fuel (clauses wit2) wit2 σ γ) (x, i, j) = (rexec fuel wit2 σ) (x, i, j)) := by
  intro h
  have h1 := h 0 σw γw 0 (by decide) 2 0
  revert h1
  decide

/-! ## Non-vacuity and sanity evaluations -/

/-- `do i = 1, n: a(i) = a(i) + b(i) * t; enddo; if (b(1) > 0) then c(2) = c(2) + 1`
(a=0 b=1 c=2 i=3 n=4 t=5) -/
def good : RStmt :=
  .seq (.loop 3 (.lit 1) (.var 4) (.lit 1)
         (.store1 0 (.var 3) (.bin .add (.idx1 0 (.var 3)) (.bin .mul (.idx1 1 (.var 3)) (.var 5)))))
       (.ite (.bin .gt (.idx1 1 (.lit 1)) (.lit 0))
         (.store1 2 (.lit 2) (.bin .add (.idx1 2 (.lit 2)) (.lit 1))) .skip)

example : clauses good = ⟨[1], [], [0, 2]⟩ := by decide
example : FullyWrittenOrRead good ∧ CopyoutNotRead good := by decide
/-- scalars never appear in a clause -/
example : ¬ (clauses good).cin.contains 5 ∧ ¬ (clauses good).cpy.contains 3 := by decide
example : ¬ CopyoutNotRead wit := by decide
/-- `do i = 1, 3: a(i) = b(i) + 1` with extent a(1:3): `copyin(b) copyout(a)`, every declared
element of `a` is changed (hypothesis of `C13_covered_partial`) -/
def cover : RStmt :=
  .loop 2 (.lit 1) (.lit 3) (.lit 1) (.store1 0 (.var 2) (.bin .add (.idx1 1 (.var 2)) (.lit 1)))
example : clauses cover = ⟨[1], [0], []⟩ ∧ CopyoutNotRead cover ∧ CopyoutCovered cover := by decide
example : ∀ i : Fin 3, (rexec 0 cover (storeOf [])) (0, (i.val : Int) + 1, 0)
    ≠ (storeOf []) (0, (i.val : Int) + 1, 0) := by decide
/-- `g%d(1) = a(1) + g%e(1)` (a=0, g%d=1, g%e=2, parent g=9): `copyin(a,g,g%e) copyout(g,g%d)` -/
example : clausesP [(1, 9), (2, 9)] (.store1 1 (.lit 1) (.bin .add (.idx1 0 (.lit 1)) (.idx1 2 (.lit 1))))
    = ⟨[9, 0, 2], [9, 1], []⟩ := by decide
example : accDataTrans true [.stmt good] = none := by decide
example : accDataTrans false [.stmt good, .excluded .skip] = none := by decide
example : accDataTrans false [] = none := by decide

/-- `do while (r(1) > 0 .and. w > 0): r(1) = 0; w = w - 1` (r=0 w=1): the condition is the first
access, so `r` is first read and gets `copy`, not `copyout` -/
def wloop : RStmt :=
  .whileDo (.bin .and (.bin .gt (.idx1 0 (.lit 1)) (.lit 0)) (.bin .gt (.var 1) (.lit 0)))
    (.seq (.store1 0 (.lit 1) (.lit 0)) (.assign 1 (.bin .sub (.var 1) (.lit 1))))

example : clauses wloop = ⟨[], [], [0]⟩ ∧ FullyWrittenOrRead wloop := by decide
/-- with `copyout(r)` instead (body recorded before the condition) the loop would test junk:
here the device holds 0 at `r(1)`, the loop is skipped and `w` stays 1, the host run gives 0 -/
example : (execACC 5 ⟨[], [0], []⟩ wloop (storeOf [((0, 1, 0), 3), ((1, 0, 0), 1)]) (storeOf [])) (1, 0, 0) = 1
    ∧ (rexec 5 wloop (storeOf [((0, 1, 0), 3), ((1, 0, 0), 1)])) (1, 0, 0) = 0 := by decide

/-- `do i = 1, n: a(i) = b(i) * 2; c(i) = a(i) + 1` (a=0 b=1 c=2 i=3 n=4): `a` is `copyout`
although it is read — but only at the element just written: `CopyoutCovered` holds (the
"same index in the same loop" criterion), `CopyoutNotRead` does not -/
def cover2 : RStmt :=
  .loop 3 (.lit 1) (.var 4) (.lit 1)
    (.seq (.store1 0 (.var 3) (.bin .mul (.idx1 1 (.var 3)) (.lit 2)))
          (.store1 2 (.var 3) (.bin .add (.idx1 0 (.var 3)) (.lit 1))))

example : (clauses cover2).cout.contains 0 ∧ CopyoutCovered cover2 ∧ ¬ CopyoutNotRead cover2 := by decide
/-- whereas the witness reads the uncovered `a(2)` -/
example : ¬ CopyoutCovered wit := by decide

end C13
