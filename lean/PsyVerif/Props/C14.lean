import PsyVerif.Lemmas.TreeAcyclic
import PsyVerif.Gen.NodeKinds
/-! # C14 — The PSyIR tree stays well-formed under any sequence of edits

Model: `PsyVerif/Model/Tree.lean` — the child-list operations of
`src/psyclone/psyir/nodes/node.py` **with fixes/C14-childrenlist.patch applied** (the pinned
code violates the property in five ways, see the fix file and DESIGN §5).  `step K h op` mirrors
one public operation; `K` is the `_validate_child` table of the node classes (the concrete one
is regenerated from the live classes into `PsyVerif/Gen/NodeKinds.lean`; every theorem below
holds for *all* tables, so it cannot be invalidated by a change of a `_validate_child`).

Quantification: every heap (any number of nodes of any kinds, any shape satisfying `WF`),
every operation with arbitrary `Int` indices and arbitrary operand nodes, every history.

`WF` (in `Lemmas/TreeHeap.lean`) is: a listed child points back to its parent and has no pending
constructor-parent flag; no list contains a node twice; a node whose parent link is established
is listed by that parent; each child is of a kind valid at its position. -/
namespace C14

variable {K : Kinds} {h : Heap}

/-! ## helper lemmas: the composite Node operations -/

theorem setChildren_wf (wf : WF K h) (p : Id) (xs : List Id) : WF K (setChildren K h p xs).1 := by
  unfold setChildren
  split
  · exact wf
  · split
    · exact wf
    · split
      · exact wf
      · have hw := popAll_wf (K := K) wf p (h.children p).length
        split
        · rename_i h1 heq
          rw [heq] at hw
          exact extend_wf hw p xs
        · exact hw

theorem detach_wf (wf : WF K h) (x : Id) : WF K (detach K h x).1 := by
  unfold detach
  split
  · exact wf
  · simp only
    split
    · exact delitem_wf wf _ _
    · exact wf

theorem replaceWith_wf (wf : WF K h) (x y : Id) : WF K (replaceWith K h x y).1 := by
  unfold replaceWith
  split
  · exact wf
  · simp only
    split
    · exact wf
    · split
      · exact wf
      · split
        · exact wf
        · exact setitem_wf wf _ _ _

/-! atomicity of the primitive operations: every refusal returns the heap it was given -/

theorem append_atomic (p x : Id) : (append K h p x).2 ≠ .ok → (append K h p x).1 = h := by
  unfold append; simp only; split <;> (try split) <;> simp

theorem insert_atomic (p : Id) (i : Int) (x : Id) :
    (insert K h p i x).2 ≠ .ok → (insert K h p i x).1 = h := by
  unfold insert; simp only; split <;> (try split) <;> (try split) <;> simp

theorem setitem_atomic (p : Id) (i : Int) (x : Id) :
    (setitem K h p i x).2 ≠ .ok → (setitem K h p i x).1 = h := by
  unfold setitem; simp only
  split
  · simp
  · split
    · simp
    · split
      · simp
      · split <;> simp

theorem extend_atomic (p : Id) (xs : List Id) :
    (extend K h p xs).2 ≠ .ok → (extend K h p xs).1 = h := by
  unfold extend; simp only; split <;> (try split) <;> (try split) <;> simp

theorem delAt_atomic (p : Id) (k : Nat) : (delAt K h p k).2 ≠ .ok → (delAt K h p k).1 = h := by
  unfold delAt; simp only
  split
  · simp
  · split <;> simp

theorem delitem_atomic (p : Id) (i : Int) :
    (delitem K h p i).2 ≠ .ok → (delitem K h p i).1 = h := by
  unfold delitem
  split
  · simp
  · exact delAt_atomic p _

theorem remove_atomic (p x : Id) : (remove K h p x).2 ≠ .ok → (remove K h p x).1 = h := by
  unfold remove; simp only
  split
  · exact delAt_atomic p _
  · simp

theorem reverse_atomic (p : Id) : (reverse K h p).2 ≠ .ok → (reverse K h p).1 = h := by
  unfold reverse; simp only; split <;> simp

/-- The `children` setter validates before it mutates: once its checks have passed, neither
`pop_all_children` nor the final `extend` can refuse (on a well-formed heap). -/
theorem setChildren_atomic (wf : WF K h) (p : Id) (xs : List Id) :
    (setChildren K h p xs).2 ≠ .ok → (setChildren K h p xs).1 = h := by
  unfold setChildren
  split
  · simp
  · split
    · simp
    · split
      · simp
      · rename_i hv ho hn
        simp only [Bool.not_eq_true', Bool.not_eq_false, List.all_eq_true, Bool.and_eq_true,
          Bool.or_eq_true, beq_iff_eq] at hv ho hn
        obtain ⟨H, hH, c1, c2, c3, c4, c5⟩ := popAll_spec K p (h.children p).length h (Nat.le_refl _)
        rw [hH]
        simp only
        intro hne
        exfalso
        apply hne
        -- the final `extend` succeeds
        unfold extend
        have e1 : validFrom K H p xs (H.children p).length = true := by
          rw [c1]; simp only [if_true, List.length_nil]
          rw [validFrom_congr c2]; exact hv
        have e2 : (xs.all fun x => orphanOk H p x && noCycle H p x) = true := by
          simp only [List.all_eq_true, Bool.and_eq_true]
          intro x hx
          obtain ⟨hpo, hcy⟩ := ho x hx
          constructor
          · unfold orphanOk
            rw [c4, c5]
            by_cases hin : x ∈ h.children p
            · simp [hin]
            · simp only [hin, if_false]
              rcases hpo with hp | hor
              · rw [hp]
                have : h.ctor x = true := by
                  cases hct : h.ctor x
                  · exact absurd (wf.back x p hp hct) hin
                  · rfl
                simp [this]
              · exact hor
          · unfold noCycle at hcy ⊢
            rw [c3]
            cases hoc : onChain H x (h.size + 1) (some p)
            · rfl
            · have := onChain_mono (h := h) (H := H) (by
                intro c; rw [c4]; by_cases hc : c ∈ h.children p <;> simp [hc]) x _ _ hoc
              simp [this] at hcy
        simp [e1, e2, hn]

theorem popAll_ok (K : Kinds) (h : Heap) (p : Id) : (popAll K p (h.children p).length h).2 = .ok := by
  obtain ⟨H, hH, _⟩ := popAll_spec K p (h.children p).length h (Nat.le_refl _)
  rw [hH]

theorem detach_atomic (x : Id) : (detach K h x).2 ≠ .ok → (detach K h x).1 = h := by
  unfold detach
  split
  · simp
  · simp only
    split
    · exact delitem_atomic _ _
    · simp

theorem replaceWith_atomic (x y : Id) :
    (replaceWith K h x y).2 ≠ .ok → (replaceWith K h x y).1 = h := by
  unfold replaceWith
  split
  · simp
  · simp only
    split
    · simp
    · split
      · simp
      · split
        · simp
        · exact setitem_atomic _ _ _

/-! ## The property -/

/-- **C14, clause 1 (one step)**: every public tree-editing operation — whatever its operands
and (positive, negative or out-of-range) index, and whether it succeeds or raises — takes a
well-formed tree to a well-formed tree. -/
theorem C14_preserve (K : Kinds) (h : Heap) (op : Op) (wf : WF K h) : WF K (step K h op).1 := by
  cases op with
  | append p x => exact append_wf wf p x
  | insert p i x => exact insert_wf wf p i x
  | addchild p x i => cases i with
    | none => exact append_wf wf p x
    | some i => exact insert_wf wf p i x
  | extend p xs => exact extend_wf wf p xs
  | iadd p xs => exact extend_wf wf p xs
  | setitem p i x => exact setitem_wf wf p i x
  | delitem p i => exact delitem_wf wf p i
  | pop p i => exact delitem_wf wf p i
  | remove p x => exact remove_wf wf p x
  | reverse p => exact reverse_wf wf p
  | clear p => exact clear_wf wf p
  | sort p => exact wf
  | imul p => exact wf
  | setChildren p xs => exact setChildren_wf wf p xs
  | popAll p => exact popAll_wf wf p _
  | detach x => exact detach_wf wf x
  | replaceWith x y => exact replaceWith_wf wf x y

/-- **C14, clause 2**: an operation that raises an error (any outcome other than `ok`) leaves
the tree exactly as it was. -/
theorem C14_atomic (K : Kinds) (h : Heap) (op : Op) (wf : WF K h) :
    (step K h op).2 ≠ .ok → (step K h op).1 = h := by
  cases op with
  | append p x => exact append_atomic p x
  | insert p i x => exact insert_atomic p i x
  | addchild p x i => cases i with
    | none => exact append_atomic p x
    | some i => exact insert_atomic p i x
  | extend p xs => exact extend_atomic p xs
  | iadd p xs => exact extend_atomic p xs
  | setitem p i x => exact setitem_atomic p i x
  | delitem p i => exact delitem_atomic p i
  | pop p i => exact delitem_atomic p i
  | remove p x => exact remove_atomic p x
  | reverse p => exact reverse_atomic p
  | clear p => intro hne; exact absurd rfl hne
  | sort p => intro _; rfl
  | imul p => intro _; rfl
  | setChildren p xs => exact setChildren_atomic wf p xs
  | popAll p => intro hne; exact absurd (popAll_ok K h p) hne
  | detach x => exact detach_atomic x
  | replaceWith x y => exact replaceWith_atomic x y

/-- **C14 for histories**: after any sequence of operations (of any length) started in a
well-formed tree, the tree is well-formed. -/
theorem C14_reachable (K : Kinds) (h₀ : Heap) (wf : WF K h₀) (ops : List Op) : WF K (run K h₀ ops) := by
  induction ops generalizing h₀ with
  | nil => exact wf
  | cons o os ih => exact ih (step K h₀ o).1 (C14_preserve K h₀ o wf)

/-- … and in every state of the history a raising operation changes nothing: combined form
over all prefixes of a history. -/
theorem C14_reachable_atomic (K : Kinds) (h₀ : Heap) (wf : WF K h₀) (ops : List Op) (op : Op) :
    (step K (run K h₀ ops) op).2 ≠ .ok → (step K (run K h₀ ops) op).1 = run K h₀ ops :=
  C14_atomic K _ op (C14_reachable K h₀ wf ops)

/-- What `WF` says in the words of the property: a node whose parent link is established is
listed exactly once by that parent and by no other node. -/
theorem C14_listed_exactly_once (K : Kinds) (h : Heap) (wf : WF K h) (c p : Id)
    (hp : h.parent c = some p) (hc : h.ctor c = false) :
    (h.children p).count c = 1 ∧ ∀ q, q ≠ p → c ∉ h.children q := by
  refine ⟨by rw [(wf.nodup p).count]; simp [wf.back c p hp hc], fun q hq hin => ?_⟩
  have := (wf.link q c hin).1
  rw [hp] at this
  exact hq (by simpa using this.symm)

/-- … and every listed child is of a kind that `_validate_child` accepts at its position. -/
theorem C14_children_valid (K : Kinds) (h : Heap) (wf : WF K h) (p : Id) (i : Nat) (c : Id)
    (hc : (h.children p)[i]? = some c) : K.valid (h.kind p) i (h.kind c) = true :=
  wf.valid p i c hc

/-- `pop_all_children` and `clear` never raise. -/
theorem C14_popAll_never_raises (K : Kinds) (h : Heap) (p : Id) : (step K h (.popAll p)).2 = .ok :=
  popAll_ok K h p

/-- **C14, tree shape**: no operation can create a cycle of parent links (the repaired code
refuses to add a node below itself or below one of its descendants) — so every reachable state is
a forest and the upward walks of `update_signal` / `_check_not_ancestor` terminate.  `Acyclic` =
existence of a rank that strictly decreases along parent links (`Lemmas/TreeAcyclic.lean`). -/
theorem C14_acyclic_preserve (K : Kinds) (h : Heap) (op : Op) (hac : Acyclic h) :
    Acyclic (step K h op).1 := by
  cases op with
  | append p x => exact append_acyclic hac p x
  | insert p i x => exact insert_acyclic hac p i x
  | addchild p x i => cases i with
    | none => exact append_acyclic hac p x
    | some i => exact insert_acyclic hac p i x
  | extend p xs => exact extend_acyclic hac p xs
  | iadd p xs => exact extend_acyclic hac p xs
  | setitem p i x => exact setitem_acyclic hac p i x
  | delitem p i => exact delitem_acyclic hac p i
  | pop p i => exact delitem_acyclic hac p i
  | remove p x => exact remove_acyclic hac p x
  | reverse p => exact reverse_acyclic hac p
  | clear p => exact clear_acyclic hac p
  | sort p => exact hac
  | imul p => exact hac
  | setChildren p xs => exact setChildren_acyclic hac p xs
  | popAll p => exact popAll_acyclic hac p _
  | detach x => exact detach_acyclic hac x
  | replaceWith x y => exact replaceWith_acyclic hac x y

theorem C14_acyclic_reachable (K : Kinds) (h₀ : Heap) (hac : Acyclic h₀) (ops : List Op) :
    Acyclic (run K h₀ ops) := by
  induction ops generalizing h₀ with
  | nil => exact hac
  | cons o os ih => exact ih (step K h₀ o).1 (C14_acyclic_preserve K h₀ o hac)

/-- what `Acyclic` gives: following parent links from the parent of a node never leads back to
that node — after any history. -/
theorem C14_no_self_ancestor (K : Kinds) (h₀ : Heap) (hac : Acyclic h₀) (ops : List Op) (n q : Id)
    (hp : (run K h₀ ops).parent n = some q) : ¬ Anc (run K h₀ ops) n q :=
  (C14_acyclic_reachable K h₀ hac ops).no_self_ancestor hp

/-- Any concrete heap given as a list of node records that passes the executable test is
well-formed (used for the non-vacuity examples below). -/
theorem C14_wf_of_check (K : Kinds) (rs : List Rec) (hc : wfCheck K (Heap.ofList rs) rs.length = true) :
    WF K (Heap.ofList rs) :=
  wf_of_check _ _ (ofList_out rs) hc

/-! ## non-vacuity: a loop inside an if-block, with the kind table of the live classes

```
0 IfBlock ── 1 Reference (condition)
         └── 2 Schedule (if-body) ── 3 Loop ── 4,5,6 Reference (start, stop, step)
                                           └── 7 Schedule (loop body) ── 8 Assignment
orphans: 9 Literal, 10 Schedule, 11 Assignment, 12 Assignment constructed with parent=7
``` -/
open Gen in
def t0 : List Rec := [
  ⟨kIfBlock, none, false, [1, 2]⟩, ⟨kReference, some 0, false, []⟩, ⟨kSchedule, some 0, false, [3]⟩,
  ⟨kLoop, some 2, false, [4, 5, 6, 7]⟩, ⟨kReference, some 3, false, []⟩, ⟨kReference, some 3, false, []⟩,
  ⟨kReference, some 3, false, []⟩, ⟨kSchedule, some 3, false, [8]⟩, ⟨kAssignment, some 7, false, []⟩,
  ⟨kLiteral, none, false, []⟩, ⟨kSchedule, none, false, []⟩, ⟨kAssignment, none, false, []⟩,
  ⟨kAssignment, some 7, true, []⟩]

def h0 : Heap := Heap.ofList t0

/-- the hypothesis of all theorems is met by a non-trivial tree -/
theorem h0_wf : WF Gen.kinds h0 := C14_wf_of_check Gen.kinds t0 (by decide +kernel)

theorem h0_acyclic : Acyclic h0 := acyclic_ofList t0 (by decide +kernel)

/-- a history with negative and out-of-range indices, refusals and successes -/
def hist : List Op := [
  .pop 3 (-2),          -- would leave the loop body at position 2: refused
  .insert 2 (-1) 11,    -- Assignment 11 before the Loop in the if-body
  .delitem 3 (-5),      -- before the start of the list
  .setitem 0 (-1) 10,   -- replace the if-body by the orphan Schedule 10
  .append 7 2,          -- the detached if-body is an ancestor of the loop body: refused
  .append 7 12,         -- completes the constructor-parent link of node 12
  .insert 3 (-9) 9,     -- clamped to position 0, would displace the loop bounds/body: refused
  .setChildren 7 [12, 8, 9],   -- Literal 9 is not a Statement: refused, nothing popped
  .setChildren 7 [12, 8],      -- reorders the existing children
  .pop 7 (-1), .detach 3, .replaceWith 1 9, .remove 10 8]

example : outcomes Gen.kinds h0 hist =
    [.generationError, .ok, .indexError, .ok, .generationError, .ok, .generationError,
     .generationError, .ok, .ok, .ok, .ok, .valueError] := by decide +kernel

example : (run Gen.kinds h0 hist).children 0 = [9, 10] ∧ (run Gen.kinds h0 hist).children 2 = [11] ∧
    (run Gen.kinds h0 hist).children 7 = [12] ∧ (run Gen.kinds h0 hist).parent 3 = none ∧
    (run Gen.kinds h0 hist).parent 8 = none ∧ (run Gen.kinds h0 hist).ctor 12 = false := by
  decide +kernel

/-- the end state of that history is well-formed — by the general theorem -/
example : WF Gen.kinds (run Gen.kinds h0 hist) := C14_reachable Gen.kinds h0 h0_wf hist

example : Acyclic (run Gen.kinds h0 hist) := C14_acyclic_reachable Gen.kinds h0 h0_acyclic hist

/-- the hypothesis of `C14_atomic` (a refusal) is satisfiable, and the conclusion is observed -/
example : (step Gen.kinds h0 (.pop 3 (-2))).2 ≠ .ok := by decide +kernel
example : (step Gen.kinds h0 (.pop 3 (-2))).1 = h0 := C14_atomic Gen.kinds h0 _ h0_wf (by decide +kernel)

/-- sanity evaluations of the index conventions -/
example : positiveIndex 4 (-2) = some 2 ∧ positiveIndex 4 (-4) = some 0 ∧ positiveIndex 4 (-5) = none ∧
    positiveIndex 4 7 = some 7 := by decide
example : clampIndex 4 (-1) = 3 ∧ clampIndex 4 (-9) = 0 ∧ clampIndex 4 9 = 4 ∧ clampIndex 4 2 = 2 := by decide

/-- the pinned (unrepaired) normalisation `len - index` of a negative index: for `pop(-2)` on the
four children of a Loop it yields position 6, the displaced-children loop `range(7, 4)` is empty,
and the Schedule ends at position 2 where `_validate_child` rejects it. -/
example : Gen.kinds.valid Gen.kLoop 2 Gen.kSchedule = false ∧ Gen.kinds.valid Gen.kLoop 3 Gen.kSchedule = true := by
  decide +kernel

/-! ## why the repair is needed: the pinned `pop` breaks well-formedness

`positiveindex = index if index >= 0 else len(self) - index` (pinned node.py) is used for the
validation of the displaced children, while the list operation itself uses Python's index. -/

def popPinned (K : Kinds) (h : Heap) (p : Id) (i : Int) : Heap × Outcome :=
  let l := h.children p
  let pos : Nat := if 0 ≤ i then i.toNat else ((l.length : Int) - i).toNat
  if !validFrom K h p (l.drop (pos + 1)) pos then (h, .generationError)
  else match positiveIndex l.length i with
    | none => (h, .indexError)
    | some k => match l[k]? with
      | none => (h, .indexError)
      | some old => ((h.unlink old).setKids p (l.eraseIdx k), .ok)

/-- `Loop.children.pop(-2)` on the pinned code succeeds and leaves the loop body (a Schedule) at
position 2 — the witness replayed against the real code by the harness (corpus case 1). -/
theorem C14_pinned_pop_counterexample :
    (popPinned Gen.kinds h0 3 (-2)).2 = .ok ∧ ¬ WF Gen.kinds (popPinned Gen.kinds h0 3 (-2)).1 := by
  refine ⟨by decide +kernel, fun wf => ?_⟩
  have := wf.valid 3 2 7 (by decide +kernel)
  revert this
  decide +kernel

end C14
