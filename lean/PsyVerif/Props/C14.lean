import PsyVerif.Lemmas.TreeFuel
import PsyVerif.Gen.NodeKinds
/-! # C14 — The PSyIR tree stays well-formed under any sequence of edits

Model: `PsyVerif/Model/Tree.lean` — the child-list operations of
`src/psyclone/psyir/nodes/node.py` as repaired by the `fix:` commits derived from
fixes/C14-childrenlist.patch (the pinned code violated the property in five ways: negative
indices validated against `len - index`; `remove()` locating by `==`; the `children` setter
popping before validating; duplicates accepted by `extend`; an ancestor accepted below its own
descendant).  `step K h op` mirrors one public operation on a heap `id ↦ kind, children, parent,
constructor-parent flag`; refusals are explicit outcomes.  Operations covered: `append`, `insert`,
`addchild` (with/without index), `extend`, `+=`, `*=`, `__setitem__`, `__delitem__`, `pop`, `remove`,
`reverse`, `clear`, `sort`, the `children` setter, `pop_all_children`, `detach` (also on a root),
`replace_with` (both values of `keep_name_in_context`), `Call.append_named_arg/insert_named_arg/
replace_named_arg` and the named branch of `replace_with` (on `CState` = heap + the lazily
reconciled `_argument_names`, see `cstep`), and the forms rejected by type (`children[i:j] = …`, `del children[i:j]`, `pop(slice)`,
a non-list for the setter, a non-Node / non-bool for `replace_with`).  `lst = node.children` is an
alias of the node's list, so operations through such a handle are the same operations.

`K` is the `_validate_child` table of the node classes; the concrete one is regenerated from the
live classes into `PsyVerif/Gen/NodeKinds.lean`; every theorem holds for *all* tables.

Theorems (all for every heap / operation / `Int` index / history, no bound on sizes):
* `C14_preserve`, `C14_atomic`, `C14_reachable`, `C14_reachable_atomic` — `WF` is preserved by every
  step; a raising step changes nothing; lifted to histories;
* `C14_acyclic_preserve`, `C14_acyclic_reachable`, `C14_no_self_ancestor` — the links stay a forest;
* `C14_inRange_preserve`, `C14_ancestor_fuel_adequate` — the bounded ancestor walk of the model never
  runs out of fuel and equals the unbounded Python loop (pigeonhole over a rank function);
* `C14_constructed_wf` — everything built from constructor-fresh nodes (`Loop.create`,
  `IfBlock.create`, `Assignment.create`, `children=[…]` arguments) is well-formed;
* `C14_statement`, `C14_statement_constructed` — the property in its own words;
* `C14_listed_exactly_once`, `C14_children_valid`, `C14_popAll_never_raises`, `C14_wf_of_check`;
* list handles (`lst = node.children`, used before/after `children =` assignments):
  `C14_statement_handles` (def), `C14_statement_handles_holds`, `C14_handles_preserve`,
  `C14_handles_atomic`; `C14_stale_handle_counterexample` — the pinned setter (before 6dd9337);
* named arguments: `cstep_tree` (the tree effect of every named-argument operation is that of one
  plain operation or none), `C14_named_preserve`, `C14_named_atomic`, `C14_named_reachable`,
  `C14_named_conservative` (without names `replace_with` is the plain model); two observed
  wrong-edit behaviours of the real `replace_with` are reproduced as `example`s (no clause broken);
* `C14_pinned_pop_counterexample` — why the repair was needed.

`WF` (in `Lemmas/TreeHeap.lean`) is: a listed child points back to its parent and has no pending
constructor-parent flag; no list contains a node twice; a node whose parent link is established
is listed by that parent; each child is of a kind valid at its position. -/
namespace C14

variable {K : Kinds} {h : Heap}

/-! ## helper lemmas: the composite Node operations -/

theorem setChildren_wf (wf : WF K h) (p : Id) (xs : List Id) : WF K (setChildren K h p xs).1 := by
  unfold setChildren
  split
  · exact wf
  · split
    · exact wf
    · split
      · exact wf
      · have hw := popAll_wf (K := K) wf p (h.children p).length
        split
        · rename_i h1 heq
          rw [heq] at hw
          exact extend_wf hw p xs
        · exact hw

theorem detach_wf (wf : WF K h) (x : Id) : WF K (detach K h x).1 := by
  unfold detach
  split
  · exact wf
  · simp only
    split
    · exact delitem_wf wf _ _
    · exact wf

theorem replaceWith_wf (wf : WF K h) (x y : Id) (keep : Bool) : WF K (replaceWith K h x y keep).1 := by
  unfold replaceWith
  split
  · exact wf
  · simp only
    split
    · exact wf
    · split
      · exact wf
      · split
        · exact wf
        · exact setitem_wf wf _ _ _

/-! atomicity of the primitive operations: every refusal returns the heap it was given -/

theorem append_atomic (p x : Id) : (append K h p x).2 ≠ .ok → (append K h p x).1 = h := by
  unfold append; simp only; split <;> (try split) <;> simp

theorem insert_atomic (p : Id) (i : Int) (x : Id) :
    (insert K h p i x).2 ≠ .ok → (insert K h p i x).1 = h := by
  unfold insert; simp only; split <;> (try split) <;> (try split) <;> simp

theorem setitem_atomic (p : Id) (i : Int) (x : Id) :
    (setitem K h p i x).2 ≠ .ok → (setitem K h p i x).1 = h := by
  unfold setitem; simp only
  split
  · simp
  · split
    · simp
    · split
      · simp
      · split <;> simp

theorem extend_atomic (p : Id) (xs : List Id) :
    (extend K h p xs).2 ≠ .ok → (extend K h p xs).1 = h := by
  unfold extend; simp only; split <;> (try split) <;> (try split) <;> simp

theorem delAt_atomic (p : Id) (k : Nat) : (delAt K h p k).2 ≠ .ok → (delAt K h p k).1 = h := by
  unfold delAt; simp only
  split
  · simp
  · split <;> simp

theorem delitem_atomic (p : Id) (i : Int) :
    (delitem K h p i).2 ≠ .ok → (delitem K h p i).1 = h := by
  unfold delitem
  split
  · simp
  · exact delAt_atomic p _

theorem remove_atomic (p x : Id) : (remove K h p x).2 ≠ .ok → (remove K h p x).1 = h := by
  unfold remove; simp only
  split
  · exact delAt_atomic p _
  · simp

theorem reverse_atomic (p : Id) : (reverse K h p).2 ≠ .ok → (reverse K h p).1 = h := by
  unfold reverse; simp only; split <;> simp

/-- The `children` setter validates before it mutates: once its checks have passed, neither
`pop_all_children` nor the final `extend` can refuse (on a well-formed heap). -/
theorem setChildren_atomic (wf : WF K h) (p : Id) (xs : List Id) :
    (setChildren K h p xs).2 ≠ .ok → (setChildren K h p xs).1 = h := by
  unfold setChildren
  split
  · simp
  · split
    · simp
    · split
      · simp
      · rename_i hv ho hn
        simp only [Bool.not_eq_true', Bool.not_eq_false, List.all_eq_true, Bool.and_eq_true,
          Bool.or_eq_true, beq_iff_eq] at hv ho hn
        obtain ⟨H, hH, c1, c2, c3, c4, c5⟩ := popAll_spec K p (h.children p).length h (Nat.le_refl _)
        rw [hH]
        simp only
        intro hne
        exfalso
        apply hne
        -- the final `extend` succeeds
        unfold extend
        have e1 : validFrom K H p xs (H.children p).length = true := by
          rw [c1]; simp only [if_true, List.length_nil]
          rw [validFrom_congr c2]; exact hv
        have e2 : (xs.all fun x => orphanOk H p x && noCycle H p x) = true := by
          simp only [List.all_eq_true, Bool.and_eq_true]
          intro x hx
          obtain ⟨hpo, hcy⟩ := ho x hx
          constructor
          · unfold orphanOk
            rw [c4, c5]
            by_cases hin : x ∈ h.children p
            · simp [hin]
            · simp only [hin, if_false]
              rcases hpo with hp | hor
              · rw [hp]
                have : h.ctor x = true := by
                  cases hct : h.ctor x
                  · exact absurd (wf.back x p hp hct) hin
                  · rfl
                simp [this]
              · exact hor
          · unfold noCycle at hcy ⊢
            rw [c3]
            cases hoc : onChain H x (h.size + 1) (some p)
            · rfl
            · have := onChain_mono (h := h) (H := H) (by
                intro c; rw [c4]; by_cases hc : c ∈ h.children p <;> simp [hc]) x _ _ hoc
              simp [this] at hcy
        simp [e1, e2, hn]

theorem popAll_ok (K : Kinds) (h : Heap) (p : Id) : (popAll K p (h.children p).length h).2 = .ok := by
  obtain ⟨H, hH, _⟩ := popAll_spec K p (h.children p).length h (Nat.le_refl _)
  rw [hH]

theorem detach_atomic (x : Id) : (detach K h x).2 ≠ .ok → (detach K h x).1 = h := by
  unfold detach
  split
  · simp
  · simp only
    split
    · exact delitem_atomic _ _
    · simp

theorem replaceWith_atomic (x y : Id) (keep : Bool) :
    (replaceWith K h x y keep).2 ≠ .ok → (replaceWith K h x y keep).1 = h := by
  unfold replaceWith
  split
  · simp
  · simp only
    split
    · simp
    · split
      · simp
      · split
        · simp
        · exact setitem_atomic _ _ _

/-! fresh nodes -/

theorem fresh_fields (specs : List (Kind × Option Id)) (i : Id) :
    (Heap.fresh specs).children i = [] ∧
    (Heap.fresh specs).ctor i = ((Heap.fresh specs).parent i).isSome ∧
    (Heap.fresh specs).parent i = (specs[i]?).bind (·.2) ∧
    (Heap.fresh specs).size = specs.length := by
  simp only [Heap.fresh, Heap.ofList, List.getElem?_map, List.length_map]
  cases specs[i]? <;> simp

theorem freshOk_spec {specs : List (Kind × Option Id)} (hok : freshOk specs = true) {c q : Id}
    (hp : (Heap.fresh specs).parent c = some q) : q < c ∧ c < specs.length := by
  rw [(fresh_fields specs c).2.2.1] at hp
  cases hs : specs[c]? with
  | none => rw [hs] at hp; simp at hp
  | some sp =>
    obtain ⟨k, po⟩ := sp
    rw [hs] at hp
    simp only [Option.bind_some] at hp
    subst hp
    have hc : c < specs.length := (List.getElem?_eq_some_iff.mp hs).1
    simp only [freshOk, List.all_eq_true, List.mem_range] at hok
    have := hok c hc
    rw [hs] at this
    exact ⟨by simpa using this, hc⟩

/-! ## The property -/

/-- **C14, clause 1 (one step)**: every public tree-editing operation — whatever its operands
and (positive, negative or out-of-range) index, and whether it succeeds or raises — takes a
well-formed tree to a well-formed tree. -/
theorem C14_preserve (K : Kinds) (h : Heap) (op : Op) (wf : WF K h) : WF K (step K h op).1 := by
  cases op with
  | append p x => exact append_wf wf p x
  | insert p i x => exact insert_wf wf p i x
  | addchild p x i => cases i with
    | none => exact append_wf wf p x
    | some i => exact insert_wf wf p i x
  | extend p xs => exact extend_wf wf p xs
  | iadd p xs => exact extend_wf wf p xs
  | setitem p i x => exact setitem_wf wf p i x
  | delitem p i => exact delitem_wf wf p i
  | pop p i => exact delitem_wf wf p i
  | remove p x => exact remove_wf wf p x
  | reverse p => exact reverse_wf wf p
  | clear p => exact clear_wf wf p
  | sort p => exact wf
  | imul p => exact wf
  | setChildren p xs => exact setChildren_wf wf p xs
  | popAll p => exact popAll_wf wf p _
  | detach x => exact detach_wf wf x
  | replaceWith x y keep => exact replaceWith_wf wf x y keep
  | appendNamedArg p x => exact append_wf wf p x
  | insertNamedArg p i x => exact insert_wf wf p _ x
  | setslice p => exact wf
  | delslice p => exact wf
  | setChildrenNonList p => exact wf
  | replaceWithNonNode x => exact wf
  | replaceWithBadFlag x y => exact wf

/-- **C14, clause 2**: an operation that raises an error (any outcome other than `ok`) leaves
the tree exactly as it was. -/
theorem C14_atomic (K : Kinds) (h : Heap) (op : Op) (wf : WF K h) :
    (step K h op).2 ≠ .ok → (step K h op).1 = h := by
  cases op with
  | append p x => exact append_atomic p x
  | insert p i x => exact insert_atomic p i x
  | addchild p x i => cases i with
    | none => exact append_atomic p x
    | some i => exact insert_atomic p i x
  | extend p xs => exact extend_atomic p xs
  | iadd p xs => exact extend_atomic p xs
  | setitem p i x => exact setitem_atomic p i x
  | delitem p i => exact delitem_atomic p i
  | pop p i => exact delitem_atomic p i
  | remove p x => exact remove_atomic p x
  | reverse p => exact reverse_atomic p
  | clear p => intro hne; exact absurd rfl hne
  | sort p => intro _; rfl
  | imul p => intro _; rfl
  | setChildren p xs => exact setChildren_atomic wf p xs
  | popAll p => intro hne; exact absurd (popAll_ok K h p) hne
  | detach x => exact detach_atomic x
  | replaceWith x y keep => exact replaceWith_atomic x y keep
  | appendNamedArg p x => exact append_atomic p x
  | insertNamedArg p i x => exact insert_atomic p _ x
  | setslice p => intro _; rfl
  | delslice p => intro _; rfl
  | setChildrenNonList p => intro _; rfl
  | replaceWithNonNode x => intro _; rfl
  | replaceWithBadFlag x y => intro _; rfl

/-- **C14 for histories**: after any sequence of operations (of any length) started in a
well-formed tree, the tree is well-formed. -/
theorem C14_reachable (K : Kinds) (h₀ : Heap) (wf : WF K h₀) (ops : List Op) : WF K (run K h₀ ops) := by
  induction ops generalizing h₀ with
  | nil => exact wf
  | cons o os ih => exact ih (step K h₀ o).1 (C14_preserve K h₀ o wf)

/-- … and in every state of the history a raising operation changes nothing: combined form
over all prefixes of a history. -/
theorem C14_reachable_atomic (K : Kinds) (h₀ : Heap) (wf : WF K h₀) (ops : List Op) (op : Op) :
    (step K (run K h₀ ops) op).2 ≠ .ok → (step K (run K h₀ ops) op).1 = run K h₀ ops :=
  C14_atomic K _ op (C14_reachable K h₀ wf ops)

/-- What `WF` says in the words of the property: a node whose parent link is established is
listed exactly once by that parent and by no other node. -/
theorem C14_listed_exactly_once (K : Kinds) (h : Heap) (wf : WF K h) (c p : Id)
    (hp : h.parent c = some p) (hc : h.ctor c = false) :
    (h.children p).count c = 1 ∧ ∀ q, q ≠ p → c ∉ h.children q := by
  refine ⟨by rw [(wf.nodup p).count]; simp [wf.back c p hp hc], fun q hq hin => ?_⟩
  have := (wf.link q c hin).1
  rw [hp] at this
  exact hq (by simpa using this.symm)

/-- … and every listed child is of a kind that `_validate_child` accepts at its position. -/
theorem C14_children_valid (K : Kinds) (h : Heap) (wf : WF K h) (p : Id) (i : Nat) (c : Id)
    (hc : (h.children p)[i]? = some c) : K.valid (h.kind p) i (h.kind c) = true :=
  wf.valid p i c hc

/-- `pop_all_children` and `clear` never raise. -/
theorem C14_popAll_never_raises (K : Kinds) (h : Heap) (p : Id) : (step K h (.popAll p)).2 = .ok :=
  popAll_ok K h p

/-- **C14, tree shape**: no operation can create a cycle of parent links (the repaired code
refuses to add a node below itself or below one of its descendants) — so every reachable state is
a forest and the upward walks of `update_signal` / `_check_not_ancestor` terminate.  `Acyclic` =
existence of a rank that strictly decreases along parent links (`Lemmas/TreeAcyclic.lean`). -/
theorem C14_acyclic_preserve (K : Kinds) (h : Heap) (op : Op) (hac : Acyclic h) :
    Acyclic (step K h op).1 := by
  cases op with
  | append p x => exact append_acyclic hac p x
  | insert p i x => exact insert_acyclic hac p i x
  | addchild p x i => cases i with
    | none => exact append_acyclic hac p x
    | some i => exact insert_acyclic hac p i x
  | extend p xs => exact extend_acyclic hac p xs
  | iadd p xs => exact extend_acyclic hac p xs
  | setitem p i x => exact setitem_acyclic hac p i x
  | delitem p i => exact delitem_acyclic hac p i
  | pop p i => exact delitem_acyclic hac p i
  | remove p x => exact remove_acyclic hac p x
  | reverse p => exact reverse_acyclic hac p
  | clear p => exact clear_acyclic hac p
  | sort p => exact hac
  | imul p => exact hac
  | setChildren p xs => exact setChildren_acyclic hac p xs
  | popAll p => exact popAll_acyclic hac p _
  | detach x => exact detach_acyclic hac x
  | replaceWith x y keep => exact replaceWith_acyclic hac x y keep
  | appendNamedArg p x => exact append_acyclic hac p x
  | insertNamedArg p i x => exact insert_acyclic hac p _ x
  | setslice p => exact hac
  | delslice p => exact hac
  | setChildrenNonList p => exact hac
  | replaceWithNonNode x => exact hac
  | replaceWithBadFlag x y => exact hac

theorem C14_acyclic_reachable (K : Kinds) (h₀ : Heap) (hac : Acyclic h₀) (ops : List Op) :
    Acyclic (run K h₀ ops) := by
  induction ops generalizing h₀ with
  | nil => exact hac
  | cons o os ih => exact ih (step K h₀ o).1 (C14_acyclic_preserve K h₀ o hac)

/-- what `Acyclic` gives: following parent links from the parent of a node never leads back to
that node — after any history. -/
theorem C14_no_self_ancestor (K : Kinds) (h₀ : Heap) (hac : Acyclic h₀) (ops : List Op) (n q : Id)
    (hp : (run K h₀ ops).parent n = some q) : ¬ Anc (run K h₀ ops) n q :=
  (C14_acyclic_reachable K h₀ hac ops).no_self_ancestor hp

/-- the allocated-nodes invariant: operations on allocated nodes only link allocated nodes -/
theorem C14_inRange_preserve (K : Kinds) (n : Nat) (h : Heap) (op : Op) (hir : InRangeS n h)
    (hids : ∀ i ∈ op.ids, i < n) : InRangeS n (step K h op).1 := by
  cases op with
  | append p x => exact append_inRange hir p x (hids p (by simp [Op.ids])) (hids x (by simp [Op.ids]))
  | insert p i x => exact insert_inRange hir p i x (hids p (by simp [Op.ids])) (hids x (by simp [Op.ids]))
  | addchild p x i => cases i with
    | none => exact append_inRange hir p x (hids p (by simp [Op.ids])) (hids x (by simp [Op.ids]))
    | some i => exact insert_inRange hir p i x (hids p (by simp [Op.ids])) (hids x (by simp [Op.ids]))
  | extend p xs =>
    exact extend_inRange hir p xs (hids p (by simp [Op.ids])) (fun x hx => hids x (by simp [Op.ids, hx]))
  | iadd p xs =>
    exact extend_inRange hir p xs (hids p (by simp [Op.ids])) (fun x hx => hids x (by simp [Op.ids, hx]))
  | setitem p i x => exact setitem_inRange hir p i x (hids p (by simp [Op.ids])) (hids x (by simp [Op.ids]))
  | delitem p i => exact delitem_inRange hir p i
  | pop p i => exact delitem_inRange hir p i
  | remove p x => exact remove_inRange hir p x
  | reverse p => exact reverse_inRange hir p
  | clear p => exact clear_inRange hir p
  | sort p => exact hir
  | imul p => exact hir
  | setChildren p xs =>
    exact setChildren_inRange hir p xs (hids p (by simp [Op.ids])) (fun x hx => hids x (by simp [Op.ids, hx]))
  | popAll p => exact popAll_inRange hir p _
  | detach x => exact detach_inRange hir x
  | replaceWith x y keep => exact replaceWith_inRange hir x y keep (hids y (by simp [Op.ids]))
  | appendNamedArg p x => exact append_inRange hir p x (hids p (by simp [Op.ids])) (hids x (by simp [Op.ids]))
  | insertNamedArg p i x =>
    exact insert_inRange hir p _ x (hids p (by simp [Op.ids])) (hids x (by simp [Op.ids]))
  | setslice p => exact hir
  | delslice p => exact hir
  | setChildrenNonList p => exact hir
  | replaceWithNonNode x => exact hir
  | replaceWithBadFlag x y => exact hir

/-- **The fuel of the model is adequate**: on a heap with acyclic links whose linked nodes are
among the `size` allocated ones, the bounded ancestor walk of the model never runs out of fuel
and decides exactly what the unbounded `while cursor is not None` loop of `_check_not_ancestor`
decides: it refuses iff the item is the target node or one of its ancestors.  So `step` is the
Python, not an approximation of it. -/
theorem C14_ancestor_fuel_adequate (h : Heap) (hac : Acyclic h) (hir : InRangeS h.size h) (p x : Id) :
    exh h (h.size + 1) (some p) = false ∧ (noCycle h p x = true ↔ ¬ Anc h x p) :=
  ⟨not_exh hir hac p, noCycle_sound, noCycle_complete hir hac⟩

/-- the three invariants together -/
structure Good (K : Kinds) (n : Nat) (h : Heap) : Prop where
  wf : WF K h
  acyclic : Acyclic h
  inRange : InRangeS n h

theorem C14_good_reachable (K : Kinds) (n : Nat) (h₀ : Heap) (g : Good K n h₀) (ops : List Op)
    (hops : ∀ o ∈ ops, ∀ i ∈ o.ids, i < n) : Good K n (run K h₀ ops) := by
  induction ops generalizing h₀ with
  | nil => exact g
  | cons o os ih =>
    refine ih (step K h₀ o).1 ⟨C14_preserve K h₀ o g.wf, C14_acyclic_preserve K h₀ o g.acyclic,
      C14_inRange_preserve K n h₀ o g.inRange (hops o (by simp))⟩ (fun o' ho' => hops o' (by simp [ho']))

/-- **Trees built by the constructors are well-formed.**  `Heap.fresh specs` is what
`Cls()` / `Cls(parent=p)` calls leave (`freshOk`: a constructor parent exists before the node
that names it); every `create()` method and every `children=[...]` constructor argument then only
uses the modelled operations (`Loop.create` = `Schedule(parent=loop, children=body)` i.e. `extend`,
then the `children` setter; likewise `IfBlock.create`, `Assignment.create`), so whatever they
build is covered by `ops`. -/
theorem C14_constructed_wf (K : Kinds) (specs : List (Kind × Option Id)) (hok : freshOk specs = true)
    (ops : List Op) (hops : ∀ o ∈ ops, ∀ i ∈ o.ids, i < specs.length) :
    Good K specs.length (run K (Heap.fresh specs) ops) := by
  refine C14_good_reachable K _ _ ⟨?_, ?_, ?_⟩ ops hops
  · refine ⟨?_, ?_, ?_, ?_⟩
    · intro p c hc; rw [(fresh_fields specs p).1] at hc; simp at hc
    · intro p; rw [(fresh_fields specs p).1]; simp
    · intro c p hp hc
      rw [(fresh_fields specs c).2.1, hp] at hc; simp at hc
    · intro p i c hc; rw [(fresh_fields specs p).1] at hc; simp at hc
  · exact ⟨fun i => i, fun c q hp => (freshOk_spec hok hp).1⟩
  · refine ⟨(fresh_fields specs 0).2.2.2, fun c q hp => ?_⟩
    have := freshOk_spec hok hp
    exact ⟨this.2, Nat.lt_trans this.1 this.2⟩

/-- **C14, the statement in the words of the property.**  Start from any well-formed tree (in
particular, by `C14_constructed_wf`, from anything the constructors build) and apply any sequence
of public tree-editing operations — adding, inserting, replacing, removing, popping, detaching,
clearing or re-assigning children, with positive, negative or out-of-range positions, valid or
not.  Then, in the state reached:
1. every node whose parent link is established is listed exactly once by that parent and by no
   other node;
2. every listed child points back to the node that lists it and is of a kind valid at its position;
3. no node is its own ancestor;
4. whatever operation comes next, if it raises an error it leaves the tree exactly as it was;
5. the model's bounded ancestor walk coincides with the unbounded loop of the code. -/
theorem C14_statement (K : Kinds) (n : Nat) (h₀ : Heap) (g : Good K n h₀) (ops : List Op)
    (hops : ∀ o ∈ ops, ∀ i ∈ o.ids, i < n) :
    let h := run K h₀ ops
    (∀ c p, h.parent c = some p → h.ctor c = false →
        (h.children p).count c = 1 ∧ ∀ q, q ≠ p → c ∉ h.children q) ∧
    (∀ p i c, (h.children p)[i]? = some c →
        h.parent c = some p ∧ K.valid (h.kind p) i (h.kind c) = true) ∧
    (∀ c q, h.parent c = some q → ¬ Anc h c q) ∧
    (∀ op, (step K h op).2 ≠ .ok → (step K h op).1 = h) ∧
    (∀ p x, noCycle h p x = true ↔ ¬ Anc h x p) := by
  intro h
  have gh : Good K n h := C14_good_reachable K n h₀ g ops hops
  refine ⟨fun c p hp hc => C14_listed_exactly_once K h gh.wf c p hp hc, ?_, ?_, ?_, ?_⟩
  · intro p i c hc
    exact ⟨(gh.wf.link p c (List.mem_of_getElem? hc)).1, gh.wf.valid p i c hc⟩
  · intro c q hp; exact gh.acyclic.no_self_ancestor hp
  · intro op; exact C14_atomic K h op gh.wf
  · intro p x
    have hir : InRangeS h.size h := by have := gh.inRange; rw [← this.1] at this; exact this
    exact (C14_ancestor_fuel_adequate h gh.acyclic hir p x).2

/-- the statement for histories that start from constructor-built nodes -/
theorem C14_statement_constructed (K : Kinds) (specs : List (Kind × Option Id))
    (hok : freshOk specs = true) (build ops : List Op)
    (hb : ∀ o ∈ build, ∀ i ∈ o.ids, i < specs.length) (hops : ∀ o ∈ ops, ∀ i ∈ o.ids, i < specs.length) :
    let h := run K (run K (Heap.fresh specs) build) ops
    WF K h ∧ Acyclic h ∧ (∀ op, (step K h op).2 ≠ .ok → (step K h op).1 = h) := by
  intro h
  have g := C14_good_reachable K _ _ (C14_constructed_wf K specs hok build hb) ops hops
  exact ⟨g.wf, g.acyclic, fun op => C14_atomic K h op g.wf⟩

/-- Any concrete heap given as a list of node records that passes the executable test is
well-formed (used for the non-vacuity examples below). -/
theorem C14_wf_of_check (K : Kinds) (rs : List Rec) (hc : wfCheck K (Heap.ofList rs) rs.length = true) :
    WF K (Heap.ofList rs) :=
  wf_of_check _ _ (ofList_out rs) hc

/-! ## non-vacuity: a loop inside an if-block, with the kind table of the live classes

```
0 IfBlock ── 1 Reference (condition)
         └── 2 Schedule (if-body) ── 3 Loop ── 4,5,6 Reference (start, stop, step)
                                           └── 7 Schedule (loop body) ── 8 Assignment
orphans: 9 Literal, 10 Schedule, 11 Assignment, 12 Assignment constructed with parent=7
``` -/
open Gen in
def t0 : List Rec := [
  ⟨kIfBlock, none, false, [1, 2]⟩, ⟨kReference, some 0, false, []⟩, ⟨kSchedule, some 0, false, [3]⟩,
  ⟨kLoop, some 2, false, [4, 5, 6, 7]⟩, ⟨kReference, some 3, false, []⟩, ⟨kReference, some 3, false, []⟩,
  ⟨kReference, some 3, false, []⟩, ⟨kSchedule, some 3, false, [8]⟩, ⟨kAssignment, some 7, false, []⟩,
  ⟨kLiteral, none, false, []⟩, ⟨kSchedule, none, false, []⟩, ⟨kAssignment, none, false, []⟩,
  ⟨kAssignment, some 7, true, []⟩]

def h0 : Heap := Heap.ofList t0

/-- the hypothesis of all theorems is met by a non-trivial tree -/
theorem h0_wf : WF Gen.kinds h0 := C14_wf_of_check Gen.kinds t0 (by decide +kernel)

theorem h0_acyclic : Acyclic h0 := acyclic_ofList t0 (by decide +kernel)

/-- a history with negative and out-of-range indices, refusals and successes -/
def hist : List Op := [
  .pop 3 (-2),          -- would leave the loop body at position 2: refused
  .insert 2 (-1) 11,    -- Assignment 11 before the Loop in the if-body
  .delitem 3 (-5),      -- before the start of the list
  .setitem 0 (-1) 10,   -- replace the if-body by the orphan Schedule 10
  .append 7 2,          -- the detached if-body is an ancestor of the loop body: refused
  .append 7 12,         -- completes the constructor-parent link of node 12
  .insert 3 (-9) 9,     -- clamped to position 0, would displace the loop bounds/body: refused
  .setChildren 7 [12, 8, 9],   -- Literal 9 is not a Statement: refused, nothing popped
  .setChildren 7 [12, 8],      -- reorders the existing children
  .pop 7 (-1), .detach 3, .replaceWith 1 9 true, .remove 10 8]

example : outcomes Gen.kinds h0 hist =
    [.generationError, .ok, .indexError, .ok, .generationError, .ok, .generationError,
     .generationError, .ok, .ok, .ok, .ok, .valueError] := by decide +kernel

example : (run Gen.kinds h0 hist).children 0 = [9, 10] ∧ (run Gen.kinds h0 hist).children 2 = [11] ∧
    (run Gen.kinds h0 hist).children 7 = [12] ∧ (run Gen.kinds h0 hist).parent 3 = none ∧
    (run Gen.kinds h0 hist).parent 8 = none ∧ (run Gen.kinds h0 hist).ctor 12 = false := by
  decide +kernel

/-- the end state of that history is well-formed — by the general theorem -/
example : WF Gen.kinds (run Gen.kinds h0 hist) := C14_reachable Gen.kinds h0 h0_wf hist

example : Acyclic (run Gen.kinds h0 hist) := C14_acyclic_reachable Gen.kinds h0 h0_acyclic hist

/-- the hypothesis of `C14_atomic` (a refusal) is satisfiable, and the conclusion is observed -/
example : (step Gen.kinds h0 (.pop 3 (-2))).2 ≠ .ok := by decide +kernel
example : (step Gen.kinds h0 (.pop 3 (-2))).1 = h0 := C14_atomic Gen.kinds h0 _ h0_wf (by decide +kernel)

/-- sanity evaluations of the index conventions -/
example : positiveIndex 4 (-2) = some 2 ∧ positiveIndex 4 (-4) = some 0 ∧ positiveIndex 4 (-5) = none ∧
    positiveIndex 4 7 = some 7 := by decide
example : clampIndex 4 (-1) = 3 ∧ clampIndex 4 (-9) = 0 ∧ clampIndex 4 9 = 4 ∧ clampIndex 4 2 = 2 := by decide

/-- the pinned (unrepaired) normalisation `len - index` of a negative index: for `pop(-2)` on the
four children of a Loop it yields position 6, the displaced-children loop `range(7, 4)` is empty,
and the Schedule ends at position 2 where `_validate_child` rejects it. -/
example : Gen.kinds.valid Gen.kLoop 2 Gen.kSchedule = false ∧ Gen.kinds.valid Gen.kLoop 3 Gen.kSchedule = true := by
  decide +kernel

/-! ## why the repair is needed: the pinned `pop` breaks well-formedness

`positiveindex = index if index >= 0 else len(self) - index` (pinned node.py) is used for the
validation of the displaced children, while the list operation itself uses Python's index. -/

def popPinned (K : Kinds) (h : Heap) (p : Id) (i : Int) : Heap × Outcome :=
  let l := h.children p
  let pos : Nat := if 0 ≤ i then i.toNat else ((l.length : Int) - i).toNat
  if !validFrom K h p (l.drop (pos + 1)) pos then (h, .generationError)
  else match positiveIndex l.length i with
    | none => (h, .indexError)
    | some k => match l[k]? with
      | none => (h, .indexError)
      | some old => ((h.unlink old).setKids p (l.eraseIdx k), .ok)

/-- `Loop.children.pop(-2)` on the pinned code succeeds and leaves the loop body (a Schedule) at
position 2 — the witness replayed against the real code by the harness (corpus case 1). -/
theorem C14_pinned_pop_counterexample :
    (popPinned Gen.kinds h0 3 (-2)).2 = .ok ∧ ¬ WF Gen.kinds (popPinned Gen.kinds h0 3 (-2)).1 := by
  refine ⟨by decide +kernel, fun wf => ?_⟩
  have := wf.valid 3 2 7 (by decide +kernel)
  revert this
  decide +kernel

/-! ## non-vacuity of `C14_constructed_wf`: the shapes built by the `create()` methods -/

open Gen in
/-- `Loop.create(var, start, stop, step, [stmt])`: `loop = Loop()`, `Schedule(parent=loop,
children=[stmt])`, `loop.children = [start, stop, step, schedule]` -/
def loopCreateSpecs : List (Kind × Option Id) :=
  [(kReference, none), (kLiteral, none), (kLiteral, none), (kAssignment, none), (kLoop, none), (kSchedule, some 4)]
def loopCreateOps : List Op := [.extend 5 [3], .setChildren 4 [0, 1, 2, 5]]

example : freshOk loopCreateSpecs = true := by decide
example : ∀ o ∈ loopCreateOps, ∀ i ∈ o.ids, i < loopCreateSpecs.length := by decide
example : outcomes Gen.kinds (Heap.fresh loopCreateSpecs) loopCreateOps = [.ok, .ok] := by decide +kernel
example : (run Gen.kinds (Heap.fresh loopCreateSpecs) loopCreateOps).children 4 = [0, 1, 2, 5] ∧
    (run Gen.kinds (Heap.fresh loopCreateSpecs) loopCreateOps).children 5 = [3] ∧
    (run Gen.kinds (Heap.fresh loopCreateSpecs) loopCreateOps).ctor 5 = false := by decide +kernel
example : WF Gen.kinds (run Gen.kinds (Heap.fresh loopCreateSpecs) loopCreateOps) :=
  (C14_constructed_wf Gen.kinds loopCreateSpecs (by decide) loopCreateOps (by decide)).wf

open Gen in
/-- `IfBlock.create(cond, [s1], [s2])` and `Assignment.create(lhs, rhs)` -/
def ifCreateSpecs : List (Kind × Option Id) :=
  [(kReference, none), (kAssignment, none), (kAssignment, none), (kIfBlock, none), (kSchedule, some 3),
   (kSchedule, some 3), (kReference, none), (kLiteral, none)]
def ifCreateOps : List Op :=
  [.setChildren 1 [6, 7],                       -- Assignment.create
   .extend 4 [1], .extend 5 [2], .setChildren 3 [0, 4, 5]]

example : freshOk ifCreateSpecs = true := by decide
example : outcomes Gen.kinds (Heap.fresh ifCreateSpecs) ifCreateOps = [.ok, .ok, .ok, .ok] := by decide +kernel
example : (run Gen.kinds (Heap.fresh ifCreateSpecs) ifCreateOps).children 3 = [0, 4, 5] ∧
    (run Gen.kinds (Heap.fresh ifCreateSpecs) ifCreateOps).children 1 = [6, 7] ∧
    (run Gen.kinds (Heap.fresh ifCreateSpecs) ifCreateOps).parent 1 = some 4 := by decide +kernel

/-- the hypotheses of `C14_statement` are met by `h0` (13 allocated nodes) and `hist` -/
example : Good Gen.kinds 13 h0 :=
  ⟨h0_wf, h0_acyclic, rfl, by
    intro c q hp
    have hc : c < 13 := by
      by_cases hc : c < 13
      · exact hc
      · have hp' : (Heap.ofList t0).parent c = some q := hp
        rw [(ofList_out t0 c (Nat.le_of_not_lt hc)).2] at hp'; cases hp'
    refine ⟨hc, ?_⟩
    have : ∀ c : Fin 13, ∀ q, h0.parent c.1 = some q → q < 13 := by decide +kernel
    exact this ⟨c, hc⟩ q hp⟩
example : ∀ o ∈ hist, ∀ i ∈ o.ids, i < 13 := by decide

/-! ## list handles

`lst = node.children` is the node's own list object and stays so (the repaired setter refills it
instead of installing a new one), so an operation through a handle — taken before or after any
number of `children =` assignments — is the operation on the node. -/

/-- **C14 with handles**: histories that mix operations on nodes with ChildrenList methods called
through earlier-taken handles keep the tree well-formed … -/
def C14_statement_handles : Prop :=
  ∀ (K : Kinds) (s : HState) (ops : List HOp), WF K s.heap → WF K (hrun K s ops).heap

theorem C14_handles_preserve (K : Kinds) (s : HState) (o : HOp) (wf : WF K s.heap) :
    WF K (hstep K s o).1.heap := by
  cases o with
  | cur op => exact C14_preserve K s.heap op wf
  | take p => exact wf
  | via k lop =>
    simp only [hstep]
    split
    · exact wf
    · exact C14_preserve K s.heap _ wf

theorem C14_statement_handles_holds : C14_statement_handles := by
  intro K s ops wf
  induction ops generalizing s with
  | nil => exact wf
  | cons o os ih => exact ih (hstep K s o).1 (C14_handles_preserve K s o wf)

/-- … and a raising operation through a handle changes neither the tree nor the handles. -/
theorem C14_handles_atomic (K : Kinds) (s : HState) (o : HOp) (wf : WF K s.heap) :
    (hstep K s o).2 ≠ .ok → (hstep K s o).1.heap = s.heap ∧ (hstep K s o).1.handles = s.handles := by
  cases o with
  | cur op => intro hne; exact ⟨C14_atomic K s.heap op wf hne, rfl⟩
  | take p => intro hne; exact absurd rfl hne
  | via k lop =>
    simp only [hstep]
    split
    · intro hne; exact absurd rfl hne
    · intro hne; exact ⟨C14_atomic K s.heap _ wf hne, rfl⟩

/-- non-vacuity: a handle taken *before* a setter assignment is used after it -/
def histH : List HOp :=
  [.take 7, .cur (.setChildren 7 [8]), .via 0 (.append 11), .via 0 (.pop (-3)), .via 0 (.insert (-1) 12)]
example : ((hrun Gen.kinds ⟨h0, []⟩ histH).heap.children 7 = [8, 12, 11]) ∧
    (hrun Gen.kinds ⟨h0, []⟩ histH).heap.parent 11 = some 7 := by decide +kernel
example : WF Gen.kinds (hrun Gen.kinds ⟨h0, []⟩ histH).heap :=
  C14_statement_handles_holds Gen.kinds ⟨h0, []⟩ histH h0_wf

/-! ### why fix 6dd9337 was needed: the pinned setter left a stale list object behind -/

/-- `lst = n7.children; n7.children = [n8]; lst.append(n11)` on the pinned code: node 11 gets
parent 7 although 7 does not list it (the witness of the fixed finding `C14-stale-children-list`;
with 6dd9337 reverted the harness finds such histories on the real code). -/
theorem C14_stale_handle_counterexample :
    ¬ (∀ (K : Kinds) (s : HStatePinned) (ops : List HOpPinned), WF K s.heap → WF K (hrunPinned K s ops).heap) := by
  intro hs
  have wf := hs Gen.kinds ⟨h0, []⟩ [.cur (.setChildren 7 [8]), .viaStale 0 (.append 11)] h0_wf
  have := wf.back 11 7 (by decide +kernel) (by decide +kernel)
  revert this
  decide +kernel

/-- the same through other methods of the stale object: `insert`, `extend`, `+=` -/
example : (hrunPinned Gen.kinds ⟨h0, []⟩ [.cur (.setChildren 7 [8]), .viaStale 0 (.insert (-4) 11)]).heap.parent 11 = some 7 ∧
    (hrunPinned Gen.kinds ⟨h0, []⟩ [.cur (.setChildren 7 [8]), .viaStale 0 (.extend [11, 12])]).heap.parent 12 = some 7 ∧
    (hrunPinned Gen.kinds ⟨h0, []⟩ [.cur (.setChildren 7 [8]), .viaStale 0 (.extend [11, 12])]).heap.children 7 = [8] := by
  decide +kernel

/-! ## named arguments of Call nodes

`cstep` adds `Call._argument_names` (lazily reconciled) to the state and models
`append_named_arg`, `insert_named_arg`, `replace_named_arg`, the `argument_names` property and
the named branch of `replace_with`.  Whatever the names are, the effect on the *tree* is that of
one modelled list operation (or none), so every theorem above carries over. -/

/-- the tree effect of a named-argument operation is that of a plain operation, or nothing -/
theorem cstep_tree (K : Kinds) (s : CState) (o : COp) :
    (cstep K s o).1.heap = s.heap ∨
    ∃ op, (cstep K s o).1.heap = (step K s.heap op).1 ∧ (cstep K s o).2 = (step K s.heap op).2 := by
  have hrep : ∀ (s : CState) (q : Id) (nm : ArgName) (y : Id),
      (replaceNamedArg K s q nm y).1.heap = s.heap ∨
      ∃ op, (replaceNamedArg K s q nm y).1.heap = (step K s.heap op).1 ∧
        (replaceNamedArg K s q nm y).2 = (step K s.heap op).2 := by
    intro s q nm y
    unfold replaceNamedArg
    simp only
    split
    · left; rfl
    · rename_i j _
      right
      refine ⟨.setitem q ((j : Int) + 1) y, ?_⟩
      simp only [step]
      split <;> simp_all [CState.setNames]
  cases o with
  | plain op => right; exact ⟨op, rfl, rfl⟩
  | replaceNamed p nm y => exact hrep s p nm y
  | argumentNames p => left; rfl
  | appendNamed p nm x =>
    cases nm with
    | none => right; exact ⟨.append p x, rfl, rfl⟩
    | some n =>
      simp only [cstep, appendNamedArgC]
      split
      · left; rfl
      · right; exact ⟨.append p x, rfl, rfl⟩
  | insertNamed p nm i x =>
    cases nm with
    | none => right; exact ⟨.insert p (i + 1) x, rfl, rfl⟩
    | some n =>
      simp only [cstep, insertNamedArgC]
      split
      · left; rfl
      · right; exact ⟨.insert p (i + 1) x, rfl, rfl⟩
  | replaceWith x y keep =>
    simp only [cstep, replaceWithC]
    split
    · left; rfl
    · rename_i q _
      split
      · left; rfl
      · split
        · split
          · left; rfl
          · split
            · left; rfl
            · right; exact ⟨.setitem q _ y, rfl, rfl⟩
            · rename_i nm _
              exact hrep _ q nm y
        · split
          · left; rfl
          · right; exact ⟨.setitem q _ y, rfl, rfl⟩

/-- **C14 with named arguments**: every operation of the extended model preserves `WF` … -/
theorem C14_named_preserve (K : Kinds) (s : CState) (o : COp) (wf : WF K s.heap) :
    WF K (cstep K s o).1.heap := by
  rcases cstep_tree K s o with h | ⟨op, h, _⟩
  · rw [h]; exact wf
  · rw [h]; exact C14_preserve K s.heap op wf

/-- … and when it raises, the tree is exactly as it was (the lazily maintained name list may have
been reconciled, which is not part of the tree). -/
theorem C14_named_atomic (K : Kinds) (s : CState) (o : COp) (wf : WF K s.heap) :
    (cstep K s o).2 ≠ .ok → (cstep K s o).1.heap = s.heap := by
  intro hne
  rcases cstep_tree K s o with h | ⟨op, h, h2⟩
  · exact h
  · rw [h]; exact C14_atomic K s.heap op wf (by rw [← h2]; exact hne)

theorem C14_named_reachable (K : Kinds) (s : CState) (ops : List COp) (wf : WF K s.heap) :
    WF K (crun K s ops).heap := by
  induction ops generalizing s with
  | nil => exact wf
  | cons o os ih => exact ih (cstep K s o).1 (C14_named_preserve K s o wf)

theorem reconcile_none {args : List Id} {es : List Entry} (hn : ∀ e ∈ es, e.2 = none) :
    (reconcile args es).length = args.length ∧ ∀ e ∈ reconcile args es, e.2 = none := by
  refine ⟨by simp [reconcile], ?_⟩
  intro e he
  simp only [reconcile, List.mem_map] at he
  obtain ⟨c, _, rfl⟩ := he
  split
  · rename_i e' hf; exact hn e' (List.mem_of_find?_eq_some hf)
  · rfl

/-- **conservativity**: while no argument is named, the named-argument model of `replace_with`
is the plain one (`step … (.replaceWith x y keep)`), including the `IndexError` of a call without
arguments. -/
theorem C14_named_conservative (K : Kinds) (s : CState) (x y : Id) (keep : Bool)
    (hn : ∀ q, ∀ e ∈ s.names q, e.2 = none) :
    (replaceWithC K s x y keep).1.heap = (replaceWith K s.heap x y keep).1 ∧
    (replaceWithC K s x y keep).2 = (replaceWith K s.heap x y keep).2 := by
  unfold replaceWithC replaceWith
  simp only
  split
  · exact ⟨rfl, rfl⟩
  · rename_i q _
    split
    · exact ⟨rfl, rfl⟩
    · by_cases hk : (s.heap.children q).idxOf x < (s.heap.children q).length
      · by_cases hka : (keep && K.argNames (s.heap.kind q)) = true
        · obtain ⟨hlen, hnone⟩ := reconcile_none (args := (s.heap.children q).drop 1) (hn q)
          simp only [hka, hk, if_true, Bool.true_and, decide_true, Bool.not_true]
          generalize hes : reconciled s q = es
          have hes' : es = reconcile ((s.heap.children q).drop 1) (s.names q) := by rw [← hes]; rfl
          rw [hes'] at *
          clear hes hes'
          generalize reconcile ((s.heap.children q).drop 1) (s.names q) = es at *
          simp only [List.length_drop] at hlen
          by_cases h0 : (s.heap.children q).idxOf x = 0 ∧ (s.heap.children q).length = 1
          · have : es = [] := List.length_eq_zero_iff.mp (by omega)
            subst this
            simp [pyGet, positiveIndex, h0.1, h0.2, CState.setNames]
          · have hcond : ((s.heap.children q).idxOf x == 0 && (s.heap.children q).length == 1) = false := by
              cases hh : ((s.heap.children q).idxOf x == 0 && (s.heap.children q).length == 1)
              · rfl
              · simp at hh; exact absurd hh h0
            simp only [hcond, Bool.false_eq_true, if_false]
            have hget : ∃ e, pyGet es (((s.heap.children q).idxOf x : Int) - 1) = some e ∧ e ∈ es := by
              unfold pyGet positiveIndex
              by_cases hz : (s.heap.children q).idxOf x = 0
              · have hl : 2 ≤ (s.heap.children q).length := by omega
                have h1 : ¬ (0 : Int) ≤ ((s.heap.children q).idxOf x : Int) - 1 := by omega
                have h2 : (0 : Int) ≤ ((s.heap.children q).idxOf x : Int) - 1 + (es.length : Int) := by omega
                simp only [h1, h2, if_true, if_false]
                have h3 : (((s.heap.children q).idxOf x : Int) - 1 + (es.length : Int)).toNat < es.length := by omega
                exact ⟨es[_]'h3, by simp [h3], List.getElem_mem h3⟩
              · have h1 : (0 : Int) ≤ ((s.heap.children q).idxOf x : Int) - 1 := by omega
                simp only [h1, if_true]
                have h3 : (((s.heap.children q).idxOf x : Int) - 1).toNat < es.length := by omega
                exact ⟨es[_]'h3, by simp [h3], List.getElem_mem h3⟩
            obtain ⟨e, hge, hme⟩ := hget
            obtain ⟨a, b⟩ := e
            have : b = none := hnone _ hme
            subst this
            simp [hge, CState.setNames]
        · simp only [hka, hk, Bool.false_eq_true, if_false, decide_true, Bool.not_true]
          have : (keep && K.argNames (s.heap.kind q) && ((s.heap.children q).idxOf x == 0) &&
              ((s.heap.children q).length == 1)) = false := by
            simp only [Bool.not_eq_true] at hka; simp [hka]
          simp [this]
      · by_cases hka : (keep && K.argNames (s.heap.kind q)) = true <;>
          simp [hka, hk, CState.setNames]

/-! ### observations on the real `replace_with` (the tree stays well-formed, no C14 clause is
broken, but a different child is replaced / the edit is refused) -/

open Gen in
/-- a call `r(lit, foo=lit)`: 0 Call, 1 routine Reference, 2 Literal, 3 Literal named `foo`;
4 and 5 spare References -/
def c0 : CState :=
  { heap := Heap.ofList [⟨kCall, none, false, [1, 2, 3]⟩, ⟨kReference, some 0, false, []⟩,
      ⟨kLiteral, some 0, false, []⟩, ⟨kLiteral, some 0, false, []⟩, ⟨kReference, none, false, []⟩,
      ⟨kReference, none, false, []⟩]
    names := fun i => if i = 0 then [(2, none), (3, some ⟨7, true⟩)] else [] }

/-- `call.children[0].replace_with(x)`: `argument_names[position - 1]` is `argument_names[-1]`,
the name of the LAST argument, so the last argument is replaced, not the routine reference. -/
example : (cstep Gen.kinds c0 (.replaceWith 1 4 true)).2 = .ok ∧
    (cstep Gen.kinds c0 (.replaceWith 1 4 true)).1.heap.children 0 = [1, 2, 4] := by decide +kernel
/-- with `keep_name_in_context=False` the routine reference is replaced -/
example : (cstep Gen.kinds c0 (.replaceWith 1 4 false)).1.heap.children 0 = [4, 2, 3] := by decide +kernel
/-- an argument whose name is not all lower case cannot be replaced keeping its name:
`replace_named_arg` compares `name.lower()` with the un-lowered name → `ValueError` -/
example : (cstep Gen.kinds (c0.setNames 0 [(2, none), (3, some ⟨7, false⟩)]) (.replaceWith 3 4 true)).2 = .valueError := by
  decide +kernel
example : (cstep Gen.kinds c0 (.replaceWith 3 4 true)).2 = .ok ∧
    (cstep Gen.kinds c0 (.replaceWith 3 4 true)).1.names 0 = [(2, none), (4, some ⟨7, true⟩)] := by decide +kernel

end C14
