import PsyVerif.Model.SymMaths
import PsyVerif.Lemmas.SymMaths
import PsyVerif.Lemmas.SymMathsComplete
import Mathlib.Tactic.Ring
import Mathlib.Tactic.FieldSimp
import Mathlib.Data.Rat.Floor
import Mathlib.Algebra.Order.Field.Rat
/-! # C17 — Symbolic comparisons agree with Fortran integer arithmetic

Model: `PsyVerif/Model/SymMaths.lean`.  `toSym brk` is the `SymPyWriter` translation.  The DEPLOYED model is
`brk = true` (since /repo commit ab94ce4 the inherited `FortranWriter.binaryoperation_node` brackets a left operand
of `**`; the harness treats an unbracketed live writer as a broken correspondence and every wrong verdict on a
left-nested power as a failing input).  `brk = false` is the writer of the pinned snapshot, where `(a**k)**m`
reached SymPy as `a**(k**m)`; it is kept for the kernel-checked counterexamples only; `evalQ` is what SymPy reasons about (exact
rational division, floored `Mod`, symbols and array functions arbitrary); `evalF` is Fortran.

SymPy (`simplify`, `expand`, `solveset`) is an external library.  It enters in two ways:
* as the explicit *contract* `SymEq` / `SymDiffConst` (SymPy only declares a difference zero / a non-zero integer
  if it is so for every valuation) — theorems `…_contract_partial`, valid for MIN, MAX and array accesses too;
* not at all: on the polynomial fragment (+ division by non-zero constants) the model contains its own decision
  procedure `normQ`, and `modelEqual / modelNever / modelSolve / modelExpand` are compared with the real
  SymPy-based functions by the correspondence check — theorems `…_partial`.

The full statement `C17_statement` is FALSE of the code (integer `/`, MOD; on the pinned snapshot also left-nested `**`); it is kept as
a `def`, refuted on concrete witnesses, and proved under the decidable side condition `frag brk e = true`
(no `/`, no MOD, and — while the writer does not bracket — no left-nested `**`). -/
namespace C17
open IExpr

/-! ## The property -/

/-- Contract for SymPy's "the simplified difference is `Zero`". -/
def SymEq (e1 e2 : IExpr) : Prop := ∀ ρ : QEnv, evalQ e1 ρ = evalQ e2 ρ
/-- Contract for SymPy's "the simplified difference is the `Integer` c". -/
def SymDiffConst (e1 e2 : IExpr) (c : Int) : Prop := ∀ ρ : QEnv, evalQ e1 ρ - evalQ e2 ρ = (c : Rat)

/-- `equal` clause for one pair -/
def EqualOK (e1 e2 : IExpr) : Prop :=
  ∀ ρ : Env, defined e1 ρ = true → defined e2 ρ = true → evalF e1 ρ = evalF e2 ρ
/-- `never_equal` clause for one pair -/
def NeverOK (e1 e2 : IExpr) : Prop :=
  ∀ ρ : Env, defined e1 ρ = true → defined e2 ρ = true → evalF e1 ρ ≠ evalF e2 ρ

/-- The property at full strength, for a writer with bracketing behaviour `brk`: every verdict SymPy may give under
its contract on the translated expressions is true of the Fortran values; every reported (integer) solution is a
solution; expansion preserves the value. -/
def C17_statement (brk : Bool) : Prop :=
  (∀ e1 e2, SymEq (toSym brk e1) (toSym brk e2) → EqualOK e1 e2) ∧
  (∀ e1 e2 c, c ≠ 0 → SymDiffConst (toSym brk e1) (toSym brk e2) c → NeverOK e1 e2) ∧
  (∀ x e1 e2 s, modelSolve brk x e1 e2 = .one s → ∀ (ρ : Env) (z : Int), evalPoly s (liftEnv ρ) = (z : Rat) →
      defined e1 (ρ.set x z) = true → defined e2 (ρ.set x z) = true →
      evalF e1 (ρ.set x z) = evalF e2 (ρ.set x z)) ∧
  (∀ e p, modelExpand brk e = some p → ∀ ρ : Env, defined e ρ = true → evalPoly p (liftEnv ρ) = (evalF e ρ : Rat))

/-! ### the executable model is an instance of the contract -/

/-- `normQ` is sound for the SymPy denotation, for *every* expression it accepts (including `/` by constants). -/
theorem C17_normPoly_sound {e : IExpr} {p : Poly} (h : normQ e = some p) (ρ : QEnv) :
    evalPoly p ρ = evalQ e ρ := normQ_sound e h ρ

theorem C17_modelEqual_contract {brk : Bool} {e1 e2 : IExpr} (h : modelEqual brk e1 e2 = true) :
    SymEq (toSym brk e1) (toSym brk e2) := by
  intro ρ
  unfold modelEqual at h
  split at h
  · next hn =>
    have := normQ_sound _ hn ρ
    simp only [evalPoly_nil, evalQ] at this
    exact (sub_eq_zero.mp this.symm)
  · cases h

theorem C17_modelNever_contract {brk : Bool} {e1 e2 : IExpr} (h : modelNever brk e1 e2 = true) :
    ∃ c : Int, c ≠ 0 ∧ SymDiffConst (toSym brk e1) (toSym brk e2) c := by
  unfold modelNever at h
  split at h
  · next c hn =>
    simp only [Bool.and_eq_true, beq_iff_eq, bne_iff_ne, ne_eq] at h
    refine ⟨c.num, ?_, ?_⟩
    · intro h0; exact h.2 (Rat.zero_of_num_zero h0)
    · intro ρ
      have := normQ_sound _ hn ρ
      simp only [evalPoly_cons, evalPoly_nil, evalMono_nil, evalQ] at this
      rw [← this, Rat.coe_int_num_of_den_eq_one h.1]; ring
  · cases h

/-! ### positive results on the fragment -/

/-- The translation is a homomorphism on the fragment: what SymPy sees, evaluated at the lifted integer valuation,
is the Fortran value. -/
theorem C17_hom {brk : Bool} {e : IExpr} (h : frag brk e = true) (ρ : Env) :
    evalQ (toSym brk e) (liftEnv ρ) = (evalF e ρ : Rat) := hom_aux brk ρ e h

theorem C17_equal_contract_partial {brk : Bool} {e1 e2 : IExpr} (h1 : frag brk e1 = true) (h2 : frag brk e2 = true)
    (h : SymEq (toSym brk e1) (toSym brk e2)) : ∀ ρ : Env, evalF e1 ρ = evalF e2 ρ := by
  intro ρ
  have := h (liftEnv ρ)
  rw [C17_hom h1, C17_hom h2] at this
  exact_mod_cast this

theorem C17_never_equal_contract_partial {brk : Bool} {e1 e2 : IExpr} {c : Int}
    (h1 : frag brk e1 = true) (h2 : frag brk e2 = true) (hc : c ≠ 0)
    (h : SymDiffConst (toSym brk e1) (toSym brk e2) c) : ∀ ρ : Env, evalF e1 ρ ≠ evalF e2 ρ := by
  intro ρ heq
  have := h (liftEnv ρ)
  rw [C17_hom h1, C17_hom h2, heq, sub_self] at this
  exact hc (by exact_mod_cast this.symm)

/-- `equal` says True on a pair of the fragment ⇒ the Fortran values agree for every integer valuation. -/
theorem C17_equal_partial {brk : Bool} {e1 e2 : IExpr} (h1 : frag brk e1 = true) (h2 : frag brk e2 = true)
    (h : modelEqual brk e1 e2 = true) : ∀ ρ : Env, evalF e1 ρ = evalF e2 ρ :=
  C17_equal_contract_partial h1 h2 (C17_modelEqual_contract h)

/-- `never_equal` says True on a pair of the fragment ⇒ the Fortran values differ for every integer valuation. -/
theorem C17_never_equal_partial {brk : Bool} {e1 e2 : IExpr} (h1 : frag brk e1 = true) (h2 : frag brk e2 = true)
    (h : modelNever brk e1 e2 = true) : ∀ ρ : Env, evalF e1 ρ ≠ evalF e2 ρ := by
  obtain ⟨c, hc, hd⟩ := C17_modelNever_contract h
  exact C17_never_equal_contract_partial h1 h2 hc hd

/-- Every integer solution reported for an equation of the fragment that is linear in `x` is a solution. -/
theorem C17_solve_sound_partial {brk : Bool} {x : Nat} {e1 e2 : IExpr} {s : Poly}
    (h1 : frag brk e1 = true) (h2 : frag brk e2 = true) (h : modelSolve brk x e1 e2 = .one s)
    (ρ : Env) (z : Int) (hz : evalPoly s (liftEnv ρ) = (z : Rat)) :
    evalF e1 (ρ.set x z) = evalF e2 (ρ.set x z) := by
  unfold modelSolve at h
  split at h
  · cases h
  · next d hd =>
    simp only at h
    split at h
    · split at h <;> cases h
    · next m a hx =>
      split at h
      · next hma =>
        obtain ⟨rfl, ha⟩ := hma
        cases h
        have h0 := solve_core ha hx ρ z hz
        rw [normQ_sound _ hd] at h0
        simp only [evalQ] at h0
        have h0' : evalQ (toSym brk e1) (liftEnv (ρ.set x z)) = evalQ (toSym brk e2) (liftEnv (ρ.set x z)) :=
          sub_eq_zero.mp h0
        rw [C17_hom h1, C17_hom h2] at h0'
        exact_mod_cast h0'
      · cases h
    · cases h

/-- `expand` on the fragment returns a polynomial with the value of the original expression. -/
theorem C17_expand_preserves {brk : Bool} {e : IExpr} {p : Poly} (hf : frag brk e = true)
    (h : modelExpand brk e = some p) (ρ : Env) : evalPoly p (liftEnv ρ) = (evalF e ρ : Rat) := by
  unfold modelExpand at h
  rw [normQ_sound _ h, C17_hom hf]

/-- Expressions of the fragment never meet a zero divisor: the partial theorems need no definedness hypothesis. -/
theorem C17_frag_defined {brk : Bool} {e : IExpr} (h : frag brk e = true) (ρ : Env) : defined e ρ = true := by
  induction e with
  | lit n => rfl
  | var v => rfl
  | neg a ih => simp only [frag] at h; simp [defined, ih h]
  | add a b iha ihb => simp only [frag, Bool.and_eq_true] at h; simp [defined, iha h.1, ihb h.2]
  | sub a b iha ihb => simp only [frag, Bool.and_eq_true] at h; simp [defined, iha h.1, ihb h.2]
  | mul a b iha ihb => simp only [frag, Bool.and_eq_true] at h; simp [defined, iha h.1, ihb h.2]
  | div a b => simp [frag] at h
  | pow a k ih => simp only [frag, Bool.and_eq_true] at h; simp [defined, ih h.2]
  | mod a b => simp [frag] at h
  | min a b iha ihb => simp only [frag, Bool.and_eq_true] at h; simp [defined, iha h.1, ihb h.2]
  | max a b iha ihb => simp only [frag, Bool.and_eq_true] at h; simp [defined, iha h.1, ihb h.2]
  | arr1 f i ih => simp only [frag] at h; simp [defined, ih h]
  | arr2 f i j ihi ihj => simp only [frag, Bool.and_eq_true] at h; simp [defined, ihi h.1, ihj h.2]

/-- A writer that brackets left-nested powers translates every tree to itself. -/
theorem C17_toSym_bracketed_id (e : IExpr) : toSym true e = e := by
  unfold toSym
  induction e <;> simp_all [toSymAux, wrapPow]

/-! ### completeness of the normal form (the verdicts of the model are exact on its domain) -/

/-- outputs of `normQ` are canonical: monomials sorted, terms strictly sorted, no zero coefficient -/
theorem C17_normPoly_canonical {e : IExpr} {p : Poly} (h : normQ e = some p) : Canon p := normQ_canon e h

/-- Converse of `C17_equal_partial`: if two expressions of the fragment (whose translated difference is in the domain
of `normQ`) have the same Fortran value for every integer valuation, the model's `equal` says True.  (ℤ is infinite:
polynomials that agree on ℤ have the same normal form.) -/
theorem C17_equal_complete {brk : Bool} {e1 e2 : IExpr} {d : Poly} (h1 : frag brk e1 = true) (h2 : frag brk e2 = true)
    (hd : normQ (.sub (toSym brk e1) (toSym brk e2)) = some d) (h : ∀ ρ : Env, evalF e1 ρ = evalF e2 ρ) :
    modelEqual brk e1 e2 = true := by
  have hd0 : d = [] := by
    apply canon_vanish_int (normQ_canon _ hd)
    intro ρ
    rw [normQ_sound _ hd]
    simp only [evalQ]
    rw [C17_hom h1, C17_hom h2, h ρ, sub_self]
  unfold modelEqual
  rw [hd, hd0]

/-- Converse of `C17_never_equal_partial`: a difference that is the same non-zero integer at every integer valuation
is recognised by the model's `never_equal`. -/
theorem C17_never_equal_complete {brk : Bool} {e1 e2 : IExpr} {d : Poly} {c : Int} (hc : c ≠ 0)
    (h1 : frag brk e1 = true) (h2 : frag brk e2 = true)
    (hd : normQ (.sub (toSym brk e1) (toSym brk e2)) = some d) (h : ∀ ρ : Env, evalF e1 ρ - evalF e2 ρ = c) :
    modelNever brk e1 e2 = true := by
  have hcan := normQ_canon _ hd
  have hcq : (c : Rat) ≠ 0 := by exact_mod_cast hc
  have hev : ∀ ρ : Env, evalPoly d (liftEnv ρ) = (c : Rat) := by
    intro ρ
    rw [normQ_sound _ hd]
    simp only [evalQ]
    rw [C17_hom h1, C17_hom h2, ← h ρ]; push_cast; ring
  have hz : insTerm [] (-(c : Rat)) d = [] := by
    apply canon_vanish_int (insTerm_canon _ (by simp [MonoSorted]) hcan)
    intro ρ
    rw [evalPoly_insTerm, hev ρ, evalMono_nil]; ring
  have hd1 : d = [([], (c : Rat))] := by
    cases d with
    | nil => simp [insTerm, hcq] at hz
    | cons t p =>
      obtain ⟨m', c'⟩ := t
      simp only [insTerm] at hz
      split at hz
      · next hm =>
        subst hm
        split at hz
        · next hs =>
          subst hz
          have : c' = (c : Rat) := by linarith
          rw [this]
        · cases hz
      · split at hz
        · split at hz <;> cases hz
        · cases hz
  unfold modelNever
  rw [hd, hd1]
  simp [hc]

/-- All four clauses hold when restricted to the fragment. -/
theorem C17_statement_partial (brk : Bool) :
    (∀ e1 e2, frag brk e1 = true → frag brk e2 = true → SymEq (toSym brk e1) (toSym brk e2) → EqualOK e1 e2) ∧
    (∀ e1 e2 c, frag brk e1 = true → frag brk e2 = true → c ≠ 0 →
        SymDiffConst (toSym brk e1) (toSym brk e2) c → NeverOK e1 e2) ∧
    (∀ x e1 e2 s, frag brk e1 = true → frag brk e2 = true → modelSolve brk x e1 e2 = .one s →
        ∀ (ρ : Env) (z : Int), evalPoly s (liftEnv ρ) = (z : Rat) → evalF e1 (ρ.set x z) = evalF e2 (ρ.set x z)) ∧
    (∀ e p, frag brk e = true → modelExpand brk e = some p →
        ∀ ρ : Env, evalPoly p (liftEnv ρ) = (evalF e ρ : Rat)) :=
  ⟨fun _ _ h1 h2 h ρ _ _ => C17_equal_contract_partial h1 h2 h ρ,
   fun _ _ _ h1 h2 hc h ρ _ _ => C17_never_equal_contract_partial h1 h2 hc h ρ,
   fun _ _ _ _ h1 h2 h ρ z hz => C17_solve_sound_partial h1 h2 h ρ z hz,
   fun _ _ hf h ρ => C17_expand_preserves hf h ρ⟩

/-! ### witnesses: the pinned translation is wrong outside the fragment -/

/-- valuation with every scalar equal to `z` -/
def ρc (z : Int) : Env := { var := fun _ => z, f1 := fun _ _ => 0, f2 := fun _ _ _ => 0 }
def n : IExpr := var 0

/-- `n/2*2` is declared equal to `n`; at n = 1 Fortran gives 0 ≠ 1. -/
theorem C17_witness_div_equal :
    modelEqual false (mul (div n (lit 2)) (lit 2)) n = true ∧
    defined (mul (div n (lit 2)) (lit 2)) (ρc 1) = true ∧
    evalF (mul (div n (lit 2)) (lit 2)) (ρc 1) ≠ evalF n (ρc 1) := by decide +kernel

/-- `(n+2)/2` and `n/2` are declared never equal; at n = -1 both are 0. -/
theorem C17_witness_div_never :
    modelNever false (div (add n (lit 2)) (lit 2)) (div n (lit 2)) = true ∧
    defined (div (add n (lit 2)) (lit 2)) (ρc (-1)) = true ∧ defined (div n (lit 2)) (ρc (-1)) = true ∧
    evalF (div (add n (lit 2)) (lit 2)) (ρc (-1)) = evalF (div n (lit 2)) (ρc (-1)) := by decide +kernel

/-- `(n**2)**3` reaches SymPy as `n**(2**3)` and is declared equal to `n**8`; at n = 2: 64 ≠ 256. -/
theorem C17_witness_pow_equal :
    modelEqual false (pow (pow n 2) 3) (pow n 8) = true ∧
    evalF (pow (pow n 2) 3) (ρc 2) ≠ evalF (pow n 8) (ρc 2) := by decide +kernel

/-- a writer that brackets left-nested powers does not have this defect -/
theorem C17_pow_bracketed :
    modelEqual true (pow (pow n 2) 3) (pow n 8) = false ∧ modelEqual true (pow (pow n 2) 3) (pow n 6) = true := by
  decide +kernel

theorem qmod_add_self (q : Rat) : qmod (q + 2) 2 = qmod q 2 := by
  unfold qmod
  have h : (q + 2) / 2 = q / 2 + 1 := by field_simp
  have hf : ((q / 2 + 1).floor : Int) = (q / 2).floor + 1 := by
    have hfl : ∀ r : Rat, r.floor = ⌊r⌋ := fun _ => rfl
    rw [hfl, hfl]
    exact Int.floor_add_one (q / 2)
  rw [h, hf]; push_cast; ring

/-- `mod(n,2)` and `mod(n+2,2)` denote the same for SymPy (floored `Mod`), but Fortran MOD has the sign of the
dividend: at n = -1 the values are -1 and 1. -/
theorem C17_witness_mod_equal :
    SymEq (toSym false (mod n (lit 2))) (toSym false (mod (add n (lit 2)) (lit 2))) ∧
    defined (mod n (lit 2)) (ρc (-1)) = true ∧ defined (mod (add n (lit 2)) (lit 2)) (ρc (-1)) = true ∧
    evalF (mod n (lit 2)) (ρc (-1)) ≠ evalF (mod (add n (lit 2)) (lit 2)) (ρc (-1)) := by
  refine ⟨?_, by decide, by decide, by decide⟩
  intro ρ
  simp only [toSym, toSymAux, wrapPow, evalQ, n]
  have := qmod_add_self (ρ.var 0)
  simpa using this.symm

/-- The full statement is false of the pinned translation … -/
theorem C17_counterexample : ¬ C17_statement false := by
  intro h
  have hw := C17_witness_div_equal
  exact hw.2.2 (h.1 _ _ (C17_modelEqual_contract hw.1) (ρc 1) hw.2.1 (by decide))

/-- … and stays false if only the bracketing of `**` is repaired (integer `/` is still exact division). -/
theorem C17_counterexample_bracketed : ¬ C17_statement true := by
  intro h
  have hw : modelEqual true (mul (div n (lit 2)) (lit 2)) n = true := by decide +kernel
  have hne : evalF (mul (div n (lit 2)) (lit 2)) (ρc 1) ≠ evalF n (ρc 1) := by decide
  exact hne (h.1 _ _ (C17_modelEqual_contract hw) (ρc 1) (by decide) (by decide))

/-- the `never_equal` clause alone is false as well -/
theorem C17_counterexample_never :
    ¬ (∀ e1 e2 c, c ≠ 0 → SymDiffConst (toSym false e1) (toSym false e2) c → NeverOK e1 e2) := by
  intro h
  have hw := C17_witness_div_never
  obtain ⟨c, hc, hd⟩ := C17_modelNever_contract hw.1
  exact h _ _ c hc hd (ρc (-1)) hw.2.1 hw.2.2.1 hw.2.2.2

/-- the `expand` clause alone is false: `expand((n+1)/2*2)` is `n+1`, at n = 0 Fortran gives 0. -/
theorem C17_counterexample_expand :
    ¬ (∀ e p, modelExpand false e = some p → ∀ ρ : Env, defined e ρ = true →
        evalPoly p (liftEnv ρ) = (evalF e ρ : Rat)) := by
  intro h
  have hp : modelExpand false (mul (div (add n (lit 1)) (lit 2)) (lit 2)) = some [([], 1), ([0], 1)] := by
    decide +kernel
  have := h _ _ hp (ρc 0) (by decide)
  revert this
  simp [evalPoly_cons, evalPoly_nil, evalMono_cons, evalMono_nil, liftEnv, ρc, evalF, n]

/-! ### non-vacuity and sanity evaluations -/

-- hypotheses of `C17_equal_partial` are satisfiable on a non-trivial pair: i² − j² vs (i−j)(i+j)
example : frag false (sub (pow (var 0) 2) (pow (var 1) 2)) = true ∧
    frag false (mul (sub (var 0) (var 1)) (add (var 0) (var 1))) = true ∧
    modelEqual false (sub (pow (var 0) 2) (pow (var 1) 2)) (mul (sub (var 0) (var 1)) (add (var 0) (var 1))) = true := by
  decide +kernel
-- … of `C17_never_equal_partial`: 2*(i+1) vs 2*i − 3
example : frag false (mul (lit 2) (add (var 0) (lit 1))) = true ∧
    modelNever false (mul (lit 2) (add (var 0) (lit 1))) (sub (mul (lit 2) (var 0)) (lit 3)) = true := by decide +kernel
-- … of `C17_solve_sound_partial`: 2*x + j = j + 4  ⇒  x = 2
example : modelSolve false 0 (add (mul (lit 2) (var 0)) (var 1)) (add (var 1) (lit 4)) = .one [([], 2)] := by
  decide +kernel
-- solution that depends on other variables: i + d + 1 = j  ⇒  d = j − i − 1   (d = var 2)
example : modelSolve false 2 (add (add (var 0) (var 2)) (lit 1)) (var 1) = .one [([], -1), ([0], -1), ([1], 1)] := by
  decide +kernel
-- no solution / every value is a solution / not linear
example : modelSolve false 0 (add (var 0) (lit 1)) (var 0) = .empty := by decide +kernel
example : modelSolve false 0 (var 1) (var 1) = .independent := by decide +kernel
example : modelSolve false 0 (mul (var 0) (var 0)) (lit 4) = .unknown := by decide +kernel
-- … of `C17_expand_preserves`: (i+j)² expands to i² + 2ij + j²
example : modelExpand false (pow (add (var 0) (var 1)) 2) = some [([0, 0], 1), ([0, 1], 2), ([1, 1], 1)] := by
  decide +kernel
-- hypotheses of `C17_equal_complete` are satisfiable: the domain condition holds on a non-trivial pair
example : (normQ (.sub (toSym false (pow (add (var 0) (lit 1)) 2)) (toSym false (add (mul (var 0) (var 0)) (add (mul (lit 2) (var 0)) (lit 1)))))).isSome = true := by
  decide +kernel
-- the contract theorems apply to MIN/MAX/array accesses, which `normQ` refuses
example : frag false (min (arr1 0 (add (var 0) (lit 1))) (max (var 1) (arr2 1 (var 0) (var 1)))) = true := by decide
example : normQ (min (var 0) (var 1)) = none := by decide
-- the fragment really excludes the defect classes
example : frag false (div n (lit 2)) = false ∧ frag true (div n (lit 2)) = false ∧ frag false (mod n (lit 2)) = false ∧
    frag false (pow (pow n 2) 3) = false ∧ frag true (pow (pow n 2) 3) = true := by decide
-- Fortran semantics: truncation towards zero, MOD with the sign of the dividend; SymPy: 7/2 − 3 = 1/2 is no Integer
example : evalF (div (lit (-7)) (lit 2)) (ρc 0) = -3 ∧ evalF (mod (lit (-7)) (lit 2)) (ρc 0) = -1 ∧
    evalF (mod (lit 7) (lit (-2))) (ρc 0) = 1 := by decide
example : modelNever false (div (lit 7) (lit 2)) (lit 3) = false ∧ modelEqual false (div (lit 7) (lit 2)) (lit 3) = false := by
  decide +kernel
-- the translation: nested unary minus and subtraction keep their structure, left-nested power does not
example : toSym false (sub (var 0) (neg (neg (var 1)))) = sub (var 0) (neg (neg (var 1))) := by decide
example : toSym false (pow (pow (pow n 2) 1) 3) = pow n 2 ∧ toSym true (pow (pow n 2) 3) = pow (pow n 2) 3 := by decide

end C17
