import PsyVerif.Model.SymMaths
import PsyVerif.Lemmas.SymMaths
import PsyVerif.Lemmas.SymMathsComplete
import Mathlib.Tactic.Ring
import Mathlib.Tactic.FieldSimp
import Mathlib.Data.Rat.Floor
import Mathlib.Algebra.Order.Field.Rat
import Mathlib.Data.Rat.Lemmas
/-! # C17 — Symbolic comparisons agree with Fortran integer arithmetic

Model: `PsyVerif/Model/SymMaths.lean`.
* `IExpr`: literals, variables, unary minus, + − * /, `**` with a natural literal exponent (`pow`) and with an arbitrary
  integer expression as exponent (`powe`: symbolic / negative), MOD, MIN, MAX (binary; the harness folds n-ary calls),
  array accesses of rank 1–3 as uninterpreted applied symbols.
* `evalF`: Fortran (truncating `/`, MOD with the sign of the dividend, negative exponent = `1/a**|b|` truncated);
  `defined`: no zero divisor, no `0**negative`.
* `toSym brk`: the `SymPyWriter` translation.  The DEPLOYED model is `brk = true` (since /repo commit ab94ce4 the
  inherited `FortranWriter.binaryoperation_node` brackets a left operand of `**`; the harness treats an unbracketed live
  writer as a broken correspondence and every wrong verdict on a left-nested power as a failing input).  `brk = false`
  is the writer of the pinned snapshot, where `(a**k)**m` reached SymPy as `a**(k**m)`; it is kept for the kernel-checked
  counterexamples only (and is only meant for literal exponent chains).
* `evalQ`: what SymPy reasons about (exact rational division, floored `Mod`, rational powers, symbols and array
  functions arbitrary).

SymPy (`simplify`, `expand`, `solveset`) is an external library.  It enters in two ways:
* as explicit *contracts* `SymEq` / `SymDiffConst` / `SolveSetSound` (SymPy only declares a difference zero / a non-zero
  integer / an element of a FiniteSet a root if it is so for every valuation) — theorems `…_contract_partial`, valid for
  MIN, MAX and array accesses too, and for every kind of `solveset` result the Python code distinguishes (`pySolve`);
* not at all: on the polynomial fragment (+ division by non-zero constants) the model contains its own decision
  procedure `normQ` (sound, canonical, total on polynomials and complete over ℤ), and `modelEqual / modelNever /
  modelSolve / modelExpand` are compared with the real SymPy-based functions by the correspondence check — theorems
  `…_partial`, `…_complete`.

The full statement `C17_statement` is FALSE of the code (integer `/`, MOD, negative/symbolic exponents; on the pinned
snapshot also left-nested `**`); it is kept as a `def`, refuted on concrete witnesses, and proved under the decidable side
condition `frag brk e = true`: no `/`, no MOD, every exponent a natural literal, and — while the writer does not
bracket — no left-nested `**`.

Use by the dependence analysis (C08): `never_equal e₁ e₂ = True` on the fragment means the two subscripts differ for
every valuation (`C17_never_equal_partial`) — at the SAME valuation: it says nothing about different loop iterations
(`C17_never_equal_same_valuation_only`), and `False` does not mean the subscripts can coincide
(`C17_never_equal_not_necessary`). -/
namespace C17
open IExpr

/-! ## The property -/

/-- Contract for SymPy's "the simplified difference is `Zero`". -/
def SymEq (e1 e2 : IExpr) : Prop := ∀ ρ : QEnv, evalQ e1 ρ = evalQ e2 ρ
/-- Contract for SymPy's "the simplified difference is the `Integer` c". -/
def SymDiffConst (e1 e2 : IExpr) (c : Int) : Prop := ∀ ρ : QEnv, evalQ e1 ρ - evalQ e2 ρ = (c : Rat)

/-- `equal` clause for one pair -/
def EqualOK (e1 e2 : IExpr) : Prop :=
  ∀ ρ : Env, defined e1 ρ = true → defined e2 ρ = true → evalF e1 ρ = evalF e2 ρ
/-- `never_equal` clause for one pair -/
def NeverOK (e1 e2 : IExpr) : Prop :=
  ∀ ρ : Env, defined e1 ρ = true → defined e2 ρ = true → evalF e1 ρ ≠ evalF e2 ρ

/-- `s` (a function of the other symbols) is a root of `e1 = e2` in `x` for every valuation -/
def RootOf (e1 e2 : IExpr) (x : Nat) (s : QEnv → Rat) : Prop :=
  ∀ ρ : QEnv, evalQ e1 (ρ.set x (s ρ)) = evalQ e2 (ρ.set x (s ρ))
/-- Contract for `solveset`: the members of a `FiniteSet` are roots (nothing is assumed about the other kinds) -/
def SolveSetSound (e1 e2 : IExpr) (x : Nat) : SolveSet (QEnv → Rat) → Prop
  | .finite l => ∀ s ∈ l, RootOf e1 e2 x s
  | _ => True

/-- The property at full strength, for a writer with bracketing behaviour `brk`: every verdict SymPy may give under
its contract on the translated expressions is true of the Fortran values; every reported (integer) solution is a
solution; expansion preserves the value. -/
def C17_statement (brk : Bool) : Prop :=
  (∀ e1 e2, SymEq (toSym brk e1) (toSym brk e2) → EqualOK e1 e2) ∧
  (∀ e1 e2 c, c ≠ 0 → SymDiffConst (toSym brk e1) (toSym brk e2) c → NeverOK e1 e2) ∧
  (∀ x e1 e2 (S : SolveSet (QEnv → Rat)), SolveSetSound (toSym brk e1) (toSym brk e2) x S →
      ∀ l, pySolve S = .sols l → ∀ s ∈ l, ∀ (ρ : Env) (z : Int), s (liftEnv ρ) = (z : Rat) →
      defined e1 (ρ.set x z) = true → defined e2 (ρ.set x z) = true →
      evalF e1 (ρ.set x z) = evalF e2 (ρ.set x z)) ∧
  (∀ e p, modelExpand brk e = some p → ∀ ρ : Env, defined e ρ = true → evalPoly p (liftEnv ρ) = (evalF e ρ : Rat))

/-! ### the executable model is an instance of the contract -/

/-- `normQ` is sound for the SymPy denotation, for *every* expression it accepts (including `/` by constants). -/
theorem C17_normPoly_sound {e : IExpr} {p : Poly} (h : normQ e = some p) (ρ : QEnv) :
    evalPoly p ρ = evalQ e ρ := normQ_sound e h ρ

theorem C17_modelEqual_contract {brk : Bool} {e1 e2 : IExpr} (h : modelEqual brk e1 e2 = true) :
    SymEq (toSym brk e1) (toSym brk e2) := by
  intro ρ
  unfold modelEqual at h
  split at h
  · next hn =>
    have := normQ_sound _ hn ρ
    simp only [evalPoly_nil, evalQ] at this
    exact (sub_eq_zero.mp this.symm)
  · cases h

theorem C17_modelNever_contract {brk : Bool} {e1 e2 : IExpr} (h : modelNever brk e1 e2 = true) :
    ∃ c : Int, c ≠ 0 ∧ SymDiffConst (toSym brk e1) (toSym brk e2) c := by
  unfold modelNever at h
  split at h
  · next c hn =>
    simp only [Bool.and_eq_true, beq_iff_eq, bne_iff_ne, ne_eq] at h
    refine ⟨c.num, ?_, ?_⟩
    · intro h0; exact h.2 (Rat.zero_of_num_zero h0)
    · intro ρ
      have := normQ_sound _ hn ρ
      simp only [evalPoly_cons, evalPoly_nil, evalMono_nil, evalQ] at this
      rw [← this, Rat.coe_int_num_of_den_eq_one h.1]; ring
  · cases h

/-! ### positive results on the fragment -/

/-- The translation is a homomorphism on the fragment: what SymPy sees, evaluated at the lifted integer valuation,
is the Fortran value. -/
theorem C17_hom {brk : Bool} {e : IExpr} (h : frag brk e = true) (ρ : Env) :
    evalQ (toSym brk e) (liftEnv ρ) = (evalF e ρ : Rat) := hom_aux brk ρ e h

theorem C17_equal_contract_partial {brk : Bool} {e1 e2 : IExpr} (h1 : frag brk e1 = true) (h2 : frag brk e2 = true)
    (h : SymEq (toSym brk e1) (toSym brk e2)) : ∀ ρ : Env, evalF e1 ρ = evalF e2 ρ := by
  intro ρ
  have := h (liftEnv ρ)
  rw [C17_hom h1, C17_hom h2] at this
  exact_mod_cast this

theorem C17_never_equal_contract_partial {brk : Bool} {e1 e2 : IExpr} {c : Int}
    (h1 : frag brk e1 = true) (h2 : frag brk e2 = true) (hc : c ≠ 0)
    (h : SymDiffConst (toSym brk e1) (toSym brk e2) c) : ∀ ρ : Env, evalF e1 ρ ≠ evalF e2 ρ := by
  intro ρ heq
  have := h (liftEnv ρ)
  rw [C17_hom h1, C17_hom h2, heq, sub_self] at this
  exact hc (by exact_mod_cast this.symm)

/-- `equal` says True on a pair of the fragment ⇒ the Fortran values agree for every integer valuation. -/
theorem C17_equal_partial {brk : Bool} {e1 e2 : IExpr} (h1 : frag brk e1 = true) (h2 : frag brk e2 = true)
    (h : modelEqual brk e1 e2 = true) : ∀ ρ : Env, evalF e1 ρ = evalF e2 ρ :=
  C17_equal_contract_partial h1 h2 (C17_modelEqual_contract h)

/-- `never_equal` says True on a pair of the fragment ⇒ the Fortran values differ for every integer valuation. -/
theorem C17_never_equal_partial {brk : Bool} {e1 e2 : IExpr} (h1 : frag brk e1 = true) (h2 : frag brk e2 = true)
    (h : modelNever brk e1 e2 = true) : ∀ ρ : Env, evalF e1 ρ ≠ evalF e2 ρ := by
  obtain ⟨c, hc, hd⟩ := C17_modelNever_contract h
  exact C17_never_equal_contract_partial h1 h2 hc hd

/-- Every integer solution reported for an equation of the fragment that is linear in `x` is a solution. -/
theorem C17_solve_sound_partial {brk : Bool} {x : Nat} {e1 e2 : IExpr} {s : Poly}
    (h1 : frag brk e1 = true) (h2 : frag brk e2 = true) (h : modelSolve brk x e1 e2 = .one s)
    (ρ : Env) (z : Int) (hz : evalPoly s (liftEnv ρ) = (z : Rat)) :
    evalF e1 (ρ.set x z) = evalF e2 (ρ.set x z) := by
  unfold modelSolve at h
  split at h
  · cases h
  · next d hd =>
    simp only at h
    split at h
    · split at h <;> cases h
    · next m a hx =>
      split at h
      · next hma =>
        obtain ⟨rfl, ha⟩ := hma
        cases h
        have h0 := solve_core ha hx ρ z hz
        rw [normQ_sound _ hd] at h0
        simp only [evalQ] at h0
        have h0' : evalQ (toSym brk e1) (liftEnv (ρ.set x z)) = evalQ (toSym brk e2) (liftEnv (ρ.set x z)) :=
          sub_eq_zero.mp h0
        rw [C17_hom h1, C17_hom h2] at h0'
        exact_mod_cast h0'
      · cases h
    · cases h

/-- `solve_equal_for` returns concrete solutions exactly for `EmptySet` (none) and `FiniteSet` (its members); every
other kind of `solveset` result becomes the string "independent" or a `ValueError`. -/
theorem C17_pySolve_sols_iff {σ : Type} (S : SolveSet σ) (l : List σ) :
    pySolve S = .sols l ↔ (S = .empty ∧ l = []) ∨ S = .finite l := by
  cases S <;> simp [pySolve, eq_comm]

theorem C17_pySolve_independent_iff {σ : Type} (S : SolveSet σ) :
    pySolve S = .independent ↔ S = .complexes ∨ S = .conditionSet ∨ S = .imageSet ∨ S = .union := by
  cases S <;> simp [pySolve]

/-- General soundness of `solve_equal_for` on the fragment, for every branch that returns concrete solutions: under the
`solveset` contract, each returned solution that takes an integer value is a solution of the Fortran equation. -/
theorem C17_solve_sound_contract_partial {brk : Bool} {x : Nat} {e1 e2 : IExpr} {S : SolveSet (QEnv → Rat)}
    (h1 : frag brk e1 = true) (h2 : frag brk e2 = true) (hS : SolveSetSound (toSym brk e1) (toSym brk e2) x S)
    {l : List (QEnv → Rat)} (hl : pySolve S = .sols l) {s : QEnv → Rat} (hs : s ∈ l)
    (ρ : Env) (z : Int) (hz : s (liftEnv ρ) = (z : Rat)) :
    evalF e1 (ρ.set x z) = evalF e2 (ρ.set x z) := by
  rcases (C17_pySolve_sols_iff S l).mp hl with ⟨_, rfl⟩ | rfl
  · cases hs
  · have := hS s hs (liftEnv ρ)
    rw [hz, ← liftEnv_set, C17_hom h1, C17_hom h2] at this
    exact_mod_cast this

/-- the executable linear solver satisfies the `solveset` contract (for every expression it accepts) -/
theorem C17_modelSolve_contract {brk : Bool} {x : Nat} {e1 e2 : IExpr} {s : Poly}
    (h : modelSolve brk x e1 e2 = .one s) : RootOf (toSym brk e1) (toSym brk e2) x (evalPoly s) := by
  intro ρ
  unfold modelSolve at h
  split at h
  · cases h
  · next d hd =>
    simp only at h
    split at h
    · split at h <;> cases h
    · next m a hx =>
      split at h
      · next hma =>
        obtain ⟨rfl, ha⟩ := hma
        cases h
        have h0 := solve_coreQ ha hx ρ
        rw [normQ_sound _ hd] at h0
        simp only [evalQ] at h0
        exact sub_eq_zero.mp h0
      · cases h
    · cases h

/-- `solve` is a pure function of (e1, e2, unknown): in any call history the answer to a query is the answer to that
query alone, whatever was asked before or after.  (The model has no state; the correspondence check plays call
histories against the real code to detect state there, e.g. a cache keyed without the unknown.) -/
theorem C17_solve_history_independent (pre post : List SolveQuery) (q : SolveQuery) :
    (solveHistory (pre ++ q :: post))[pre.length]? = some (modelSolve q.brk q.x q.e1 q.e2) := by
  simp [solveHistory, solveAnswer]

/-- `expand` on the fragment returns a polynomial with the value of the original expression. -/
theorem C17_expand_preserves {brk : Bool} {e : IExpr} {p : Poly} (hf : frag brk e = true)
    (h : modelExpand brk e = some p) (ρ : Env) : evalPoly p (liftEnv ρ) = (evalF e ρ : Rat) := by
  unfold modelExpand at h
  rw [normQ_sound _ h, C17_hom hf]

/-- Expressions of the fragment never meet a zero divisor: the partial theorems need no definedness hypothesis. -/
theorem C17_frag_defined {brk : Bool} {e : IExpr} (h : frag brk e = true) (ρ : Env) : defined e ρ = true := by
  induction e with
  | lit n => rfl
  | var v => rfl
  | neg a ih => simp only [frag] at h; simp [defined, ih h]
  | add a b iha ihb => simp only [frag, Bool.and_eq_true] at h; simp [defined, iha h.1, ihb h.2]
  | sub a b iha ihb => simp only [frag, Bool.and_eq_true] at h; simp [defined, iha h.1, ihb h.2]
  | mul a b iha ihb => simp only [frag, Bool.and_eq_true] at h; simp [defined, iha h.1, ihb h.2]
  | div a b => simp [frag] at h
  | pow a k ih => simp only [frag, Bool.and_eq_true] at h; simp [defined, ih h.2]
  | mod a b => simp [frag] at h
  | min a b iha ihb => simp only [frag, Bool.and_eq_true] at h; simp [defined, iha h.1, ihb h.2]
  | max a b iha ihb => simp only [frag, Bool.and_eq_true] at h; simp [defined, iha h.1, ihb h.2]
  | arr1 f i ih => simp only [frag] at h; simp [defined, ih h]
  | arr2 f i j ihi ihj => simp only [frag, Bool.and_eq_true] at h; simp [defined, ihi h.1, ihj h.2]
  | arr3 f i j k ihi ihj ihk =>
    simp only [frag, Bool.and_eq_true] at h; simp [defined, ihi h.1.1, ihj h.1.2, ihk h.2]
  | powe a b => simp [frag] at h

/-- A writer that brackets left-nested powers translates every tree to itself. -/
theorem C17_toSym_bracketed_id (e : IExpr) : toSym true e = e := by
  unfold toSym
  induction e <;> simp_all [toSymAux, wrapPow]

/-! ### completeness of the normal form (the verdicts of the model are exact on its domain) -/

/-- outputs of `normQ` are canonical: monomials sorted, terms strictly sorted, no zero coefficient -/
theorem C17_normPoly_canonical {e : IExpr} {p : Poly} (h : normQ e = some p) : Canon p := normQ_canon e h

/-- `normQ` is total on polynomial expressions (and so is the translated difference of two of them) -/
theorem C17_normQ_total {e : IExpr} (h : isPoly e = true) : ∃ d, normQ e = some d := normQ_total h

/-- Converse of `C17_equal_partial`: if two polynomial expressions of the fragment have the same Fortran value for
every integer valuation, the model's `equal` says True.  (ℤ is infinite: polynomials that agree on ℤ have the same
normal form.) -/
theorem C17_equal_complete {brk : Bool} {e1 e2 : IExpr} (p1 : isPoly e1 = true) (p2 : isPoly e2 = true)
    (h1 : frag brk e1 = true) (h2 : frag brk e2 = true) (h : ∀ ρ : Env, evalF e1 ρ = evalF e2 ρ) :
    modelEqual brk e1 e2 = true := by
  obtain ⟨d, hd⟩ := normQ_diff_total brk p1 p2
  have hd0 : d = [] := by
    apply canon_vanish_int (normQ_canon _ hd)
    intro ρ
    rw [normQ_sound _ hd]
    simp only [evalQ]
    rw [C17_hom h1, C17_hom h2, h ρ, sub_self]
  unfold modelEqual
  rw [hd, hd0]

/-- Converse of `C17_never_equal_partial`: a difference that is the same non-zero integer at every integer valuation
is recognised by the model's `never_equal`. -/
theorem C17_never_equal_complete {brk : Bool} {e1 e2 : IExpr} {c : Int} (hc : c ≠ 0)
    (p1 : isPoly e1 = true) (p2 : isPoly e2 = true) (h1 : frag brk e1 = true) (h2 : frag brk e2 = true)
    (h : ∀ ρ : Env, evalF e1 ρ - evalF e2 ρ = c) : modelNever brk e1 e2 = true := by
  obtain ⟨d, hd⟩ := normQ_diff_total brk p1 p2
  have hcan := normQ_canon _ hd
  have hcq : (c : Rat) ≠ 0 := by exact_mod_cast hc
  have hev : ∀ ρ : Env, evalPoly d (liftEnv ρ) = (c : Rat) := by
    intro ρ
    rw [normQ_sound _ hd]
    simp only [evalQ]
    rw [C17_hom h1, C17_hom h2, ← h ρ]; push_cast; ring
  have hz : insTerm [] (-(c : Rat)) d = [] := by
    apply canon_vanish_int (insTerm_canon _ (by simp [MonoSorted]) hcan)
    intro ρ
    rw [evalPoly_insTerm, hev ρ, evalMono_nil]; ring
  have hd1 : d = [([], (c : Rat))] := by
    cases d with
    | nil => simp [insTerm, hcq] at hz
    | cons t p =>
      obtain ⟨m', c'⟩ := t
      simp only [insTerm] at hz
      split at hz
      · next hm =>
        subst hm
        split at hz
        · next hs =>
          subst hz
          have : c' = (c : Rat) := by linarith
          rw [this]
        · cases hz
      · split at hz
        · split at hz <;> cases hz
        · cases hz
  unfold modelNever
  rw [hd, hd1]
  simp [hc]

/-- All four clauses hold when restricted to the fragment. -/
theorem C17_statement_partial (brk : Bool) :
    (∀ e1 e2, frag brk e1 = true → frag brk e2 = true → SymEq (toSym brk e1) (toSym brk e2) → EqualOK e1 e2) ∧
    (∀ e1 e2 c, frag brk e1 = true → frag brk e2 = true → c ≠ 0 →
        SymDiffConst (toSym brk e1) (toSym brk e2) c → NeverOK e1 e2) ∧
    (∀ x e1 e2 (S : SolveSet (QEnv → Rat)), frag brk e1 = true → frag brk e2 = true →
        SolveSetSound (toSym brk e1) (toSym brk e2) x S → ∀ l, pySolve S = .sols l → ∀ s ∈ l,
        ∀ (ρ : Env) (z : Int), s (liftEnv ρ) = (z : Rat) → evalF e1 (ρ.set x z) = evalF e2 (ρ.set x z)) ∧
    (∀ e p, frag brk e = true → modelExpand brk e = some p →
        ∀ ρ : Env, evalPoly p (liftEnv ρ) = (evalF e ρ : Rat)) :=
  ⟨fun _ _ h1 h2 h ρ _ _ => C17_equal_contract_partial h1 h2 h ρ,
   fun _ _ _ h1 h2 hc h ρ _ _ => C17_never_equal_contract_partial h1 h2 hc h ρ,
   fun _ _ _ _ h1 h2 hS _ hl _ hs ρ z hz => C17_solve_sound_contract_partial h1 h2 hS hl hs ρ z hz,
   fun _ _ hf h ρ => C17_expand_preserves hf h ρ⟩

/-! ### witnesses: the pinned translation is wrong outside the fragment -/

/-- valuation with every scalar equal to `z` -/
def ρc (z : Int) : Env := { var := fun _ => z, f1 := fun _ _ => 0, f2 := fun _ _ _ => 0, f3 := fun _ _ _ _ => 0 }
def n : IExpr := var 0

/-- `n/2*2` is declared equal to `n`; at n = 1 Fortran gives 0 ≠ 1. -/
theorem C17_witness_div_equal :
    modelEqual false (mul (div n (lit 2)) (lit 2)) n = true ∧
    defined (mul (div n (lit 2)) (lit 2)) (ρc 1) = true ∧
    evalF (mul (div n (lit 2)) (lit 2)) (ρc 1) ≠ evalF n (ρc 1) := by decide +kernel

/-- `(n+2)/2` and `n/2` are declared never equal; at n = -1 both are 0. -/
theorem C17_witness_div_never :
    modelNever false (div (add n (lit 2)) (lit 2)) (div n (lit 2)) = true ∧
    defined (div (add n (lit 2)) (lit 2)) (ρc (-1)) = true ∧ defined (div n (lit 2)) (ρc (-1)) = true ∧
    evalF (div (add n (lit 2)) (lit 2)) (ρc (-1)) = evalF (div n (lit 2)) (ρc (-1)) := by decide +kernel

/-- `(n**2)**3` reaches SymPy as `n**(2**3)` and is declared equal to `n**8`; at n = 2: 64 ≠ 256. -/
theorem C17_witness_pow_equal :
    modelEqual false (pow (pow n 2) 3) (pow n 8) = true ∧
    evalF (pow (pow n 2) 3) (ρc 2) ≠ evalF (pow n 8) (ρc 2) := by decide +kernel

/-- a writer that brackets left-nested powers does not have this defect -/
theorem C17_pow_bracketed :
    modelEqual true (pow (pow n 2) 3) (pow n 8) = false ∧ modelEqual true (pow (pow n 2) 3) (pow n 6) = true := by
  decide +kernel

theorem qmod_add_self (q : Rat) : qmod (q + 2) 2 = qmod q 2 := by
  unfold qmod
  have h : (q + 2) / 2 = q / 2 + 1 := by field_simp
  have hf : ((q / 2 + 1).floor : Int) = (q / 2).floor + 1 := by
    have hfl : ∀ r : Rat, r.floor = ⌊r⌋ := fun _ => rfl
    rw [hfl, hfl]
    exact Int.floor_add_one (q / 2)
  rw [h, hf]; push_cast; ring

/-- `mod(n,2)` and `mod(n+2,2)` denote the same for SymPy (floored `Mod`), but Fortran MOD has the sign of the
dividend: at n = -1 the values are -1 and 1. -/
theorem C17_witness_mod_equal :
    SymEq (toSym false (mod n (lit 2))) (toSym false (mod (add n (lit 2)) (lit 2))) ∧
    defined (mod n (lit 2)) (ρc (-1)) = true ∧ defined (mod (add n (lit 2)) (lit 2)) (ρc (-1)) = true ∧
    evalF (mod n (lit 2)) (ρc (-1)) ≠ evalF (mod (add n (lit 2)) (lit 2)) (ρc (-1)) := by
  refine ⟨?_, by decide, by decide, by decide⟩
  intro ρ
  simp only [toSym, toSymAux, wrapPow, evalQ, n]
  have := qmod_add_self (ρ.var 0)
  simpa using this.symm

/-- The full statement is false of the pinned translation … -/
theorem C17_counterexample : ¬ C17_statement false := by
  intro h
  have hw := C17_witness_div_equal
  exact hw.2.2 (h.1 _ _ (C17_modelEqual_contract hw.1) (ρc 1) hw.2.1 (by decide))

/-- … and stays false if only the bracketing of `**` is repaired (integer `/` is still exact division). -/
theorem C17_counterexample_bracketed : ¬ C17_statement true := by
  intro h
  have hw : modelEqual true (mul (div n (lit 2)) (lit 2)) n = true := by decide +kernel
  have hne : evalF (mul (div n (lit 2)) (lit 2)) (ρc 1) ≠ evalF n (ρc 1) := by decide
  exact hne (h.1 _ _ (C17_modelEqual_contract hw) (ρc 1) (by decide) (by decide))

/-- the `never_equal` clause alone is false as well -/
theorem C17_counterexample_never :
    ¬ (∀ e1 e2 c, c ≠ 0 → SymDiffConst (toSym false e1) (toSym false e2) c → NeverOK e1 e2) := by
  intro h
  have hw := C17_witness_div_never
  obtain ⟨c, hc, hd⟩ := C17_modelNever_contract hw.1
  exact h _ _ c hc hd (ρc (-1)) hw.2.1 hw.2.2.1 hw.2.2.2

/-- the `expand` clause alone is false: `expand((n+1)/2*2)` is `n+1`, at n = 0 Fortran gives 0. -/
theorem C17_counterexample_expand :
    ¬ (∀ e p, modelExpand false e = some p → ∀ ρ : Env, defined e ρ = true →
        evalPoly p (liftEnv ρ) = (evalF e ρ : Rat)) := by
  intro h
  have hp : modelExpand false (mul (div (add n (lit 1)) (lit 2)) (lit 2)) = some [([], 1), ([0], 1)] := by
    decide +kernel
  have := h _ _ hp (ρc 0) (by decide)
  revert this
  simp [evalPoly_cons, evalPoly_nil, evalMono_cons, evalMono_nil, liftEnv, ρc, evalF, n]

theorem qpow_two_succ (q : Rat) : qpow 2 q * 2 = qpow 2 (q + 1) := by
  unfold qpow
  have hden : (q + 1).den = q.den := by simp
  by_cases h : q.den = 1
  · have hq : ((q.num : Int) : Rat) = q := Rat.coe_int_num_of_den_eq_one h
    have hnum : (q + 1).num = q.num + 1 := by
      have : q + 1 = ((q.num + 1 : Int) : Rat) := by push_cast; rw [hq]
      rw [this, Rat.num_intCast]
    rw [if_pos h, if_pos (hden ▸ h), hnum, qzpow_eq_zpow, qzpow_eq_zpow, zpow_add_one₀ (by norm_num)]
  · rw [if_neg h, if_neg (hden ▸ h)]; simp

/-- `2**n*2` and `2**(n+1)` denote the same for SymPy (rational powers), but an integer power with a negative
exponent truncates in Fortran: at n = -1 the values are 0 and 1.  (The writer brackets nothing here: `brk = true`.) -/
theorem C17_witness_negexp_equal :
    SymEq (toSym true (mul (powe (lit 2) n) (lit 2))) (toSym true (powe (lit 2) (add n (lit 1)))) ∧
    defined (mul (powe (lit 2) n) (lit 2)) (ρc (-1)) = true ∧ defined (powe (lit 2) (add n (lit 1))) (ρc (-1)) = true ∧
    evalF (mul (powe (lit 2) n) (lit 2)) (ρc (-1)) ≠ evalF (powe (lit 2) (add n (lit 1))) (ρc (-1)) := by
  refine ⟨?_, by decide, by decide, by decide⟩
  intro ρ
  simp only [C17_toSym_bracketed_id, evalQ, n]
  have := qpow_two_succ (ρ.var 0)
  simpa using this

/-- the `equal` clause fails on symbolic exponents even with the repaired writer and without `/` or MOD -/
theorem C17_counterexample_negexp :
    ¬ (∀ e1 e2, SymEq (toSym true e1) (toSym true e2) → EqualOK e1 e2) := by
  intro h
  have hw := C17_witness_negexp_equal
  exact hw.2.2.2 (h _ _ hw.1 (ρc (-1)) hw.2.1 hw.2.2.1)

/-! ### warnings for users of `never_equal` (dependence analysis, C08) -/

/-- `never_equal = False` does NOT mean the subscripts can coincide: `2*i` and `2*j+1` never coincide over ℤ, but their
difference is symbolic, so the code (and the model) answer False.  (Sufficient, not necessary.) -/
theorem C17_never_equal_not_necessary :
    modelNever true (mul (lit 2) (var 0)) (add (mul (lit 2) (var 1)) (lit 1)) = false ∧
    ∀ ρ : Env, evalF (mul (lit 2) (var 0)) ρ ≠ evalF (add (mul (lit 2) (var 1)) (lit 1)) ρ := by
  refine ⟨by decide +kernel, ?_⟩
  intro ρ
  simp only [evalF]
  omega

/-- `never_equal = True` compares the two expressions at the SAME valuation: `i` and `i+1` are never equal, yet the
value of `i+1` in iteration i = 0 is the value of `i` in iteration i = 1 (a loop-carried dependence). -/
theorem C17_never_equal_same_valuation_only :
    modelNever true (var 0) (add (var 0) (lit 1)) = true ∧
    evalF (var 0) ((ρc 0).set 0 1) = evalF (add (var 0) (lit 1)) ((ρc 0).set 0 0) := by
  refine ⟨by decide +kernel, by decide⟩

/-! ### non-vacuity and sanity evaluations -/

-- hypotheses of `C17_equal_partial` are satisfiable on a non-trivial pair: i² − j² vs (i−j)(i+j)
example : frag false (sub (pow (var 0) 2) (pow (var 1) 2)) = true ∧
    frag false (mul (sub (var 0) (var 1)) (add (var 0) (var 1))) = true ∧
    modelEqual false (sub (pow (var 0) 2) (pow (var 1) 2)) (mul (sub (var 0) (var 1)) (add (var 0) (var 1))) = true := by
  decide +kernel
-- … of `C17_never_equal_partial`: 2*(i+1) vs 2*i − 3
example : frag false (mul (lit 2) (add (var 0) (lit 1))) = true ∧
    modelNever false (mul (lit 2) (add (var 0) (lit 1))) (sub (mul (lit 2) (var 0)) (lit 3)) = true := by decide +kernel
-- … of `C17_solve_sound_partial`: 2*x + j = j + 4  ⇒  x = 2
example : modelSolve false 0 (add (mul (lit 2) (var 0)) (var 1)) (add (var 1) (lit 4)) = .one [([], 2)] := by
  decide +kernel
-- solution that depends on other variables: i + d + 1 = j  ⇒  d = j − i − 1   (d = var 2)
example : modelSolve false 2 (add (add (var 0) (var 2)) (lit 1)) (var 1) = .one [([], -1), ([0], -1), ([1], 1)] := by
  decide +kernel
-- no solution / every value is a solution / not linear
example : modelSolve false 0 (add (var 0) (lit 1)) (var 0) = .empty := by decide +kernel
example : modelSolve false 0 (var 1) (var 1) = .independent := by decide +kernel
example : modelSolve false 0 (mul (var 0) (var 0)) (lit 4) = .unknown := by decide +kernel
-- … of `C17_expand_preserves`: (i+j)² expands to i² + 2ij + j²
example : modelExpand false (pow (add (var 0) (var 1)) 2) = some [([0, 0], 1), ([0, 1], 2), ([1, 1], 1)] := by
  decide +kernel
-- hypotheses of `C17_equal_complete` are satisfiable on a non-trivial pair: (i+1)² and i*i + (2*i + 1)
example : isPoly (pow (add (var 0) (lit 1)) 2) = true ∧ frag true (pow (add (var 0) (lit 1)) 2) = true ∧
    isPoly (add (mul (var 0) (var 0)) (add (mul (lit 2) (var 0)) (lit 1))) = true ∧
    modelEqual true (pow (add (var 0) (lit 1)) 2) (add (mul (var 0) (var 0)) (add (mul (lit 2) (var 0)) (lit 1))) = true := by
  decide +kernel
-- the `solveset` classification: a FiniteSet is returned as is, an ImageSet / Union / ConditionSet becomes "independent"
example : pySolve (SolveSet.finite [1, 2]) = PySolve.sols [1, 2] ∧ pySolve (SolveSet.empty : SolveSet Nat) = .sols [] := ⟨rfl, rfl⟩
example : pySolve (SolveSet.imageSet : SolveSet Nat) = .independent ∧ pySolve (SolveSet.union : SolveSet Nat) = .independent ∧
    pySolve (SolveSet.conditionSet : SolveSet Nat) = .independent := ⟨rfl, rfl, rfl⟩
-- Fortran integer powers with negative exponents: 2**(-1) = 0, 1**(-3) = 1, (-1)**(-3) = -1; 0**(-1) is undefined
example : evalF (powe (lit 2) (neg (lit 1))) (ρc 0) = 0 ∧ evalF (powe (lit 1) (neg (lit 3))) (ρc 0) = 1 ∧
    evalF (powe (neg (lit 1)) (neg (lit 3))) (ρc 0) = -1 ∧ defined (powe (lit 0) (neg (lit 1))) (ρc 0) = false := by decide
-- symbolic exponents are outside the fragment and outside `normQ`; rank-3 accesses are inside the fragment
example : frag true (powe (lit 2) n) = false ∧ normQ (powe (lit 2) n) = none ∧
    frag true (arr3 0 (var 0) (add (var 1) (lit 1)) (var 2)) = true := by decide
-- the contract theorems apply to MIN/MAX/array accesses, which `normQ` refuses
example : frag false (min (arr1 0 (add (var 0) (lit 1))) (max (var 1) (arr2 1 (var 0) (var 1)))) = true := by decide
example : normQ (min (var 0) (var 1)) = none := by decide
-- the fragment really excludes the defect classes
example : frag false (div n (lit 2)) = false ∧ frag true (div n (lit 2)) = false ∧ frag false (mod n (lit 2)) = false ∧
    frag false (pow (pow n 2) 3) = false ∧ frag true (pow (pow n 2) 3) = true := by decide
-- Fortran semantics: truncation towards zero, MOD with the sign of the dividend; SymPy: 7/2 − 3 = 1/2 is no Integer
example : evalF (div (lit (-7)) (lit 2)) (ρc 0) = -3 ∧ evalF (mod (lit (-7)) (lit 2)) (ρc 0) = -1 ∧
    evalF (mod (lit 7) (lit (-2))) (ρc 0) = 1 := by decide
example : modelNever false (div (lit 7) (lit 2)) (lit 3) = false ∧ modelEqual false (div (lit 7) (lit 2)) (lit 3) = false := by
  decide +kernel
-- the translation: nested unary minus and subtraction keep their structure, left-nested power does not
example : toSym false (sub (var 0) (neg (neg (var 1)))) = sub (var 0) (neg (neg (var 1))) := by decide
example : toSym false (pow (pow (pow n 2) 1) 3) = pow n 2 ∧ toSym true (pow (pow n 2) 3) = pow (pow n 2) 3 := by decide

end C17
