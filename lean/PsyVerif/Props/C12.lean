import PsyVerif.Lemmas.RegionDataSem
/-! # C12 — Extraction regions record every input and output they need

Model (`Model/RegionData.lean`): `inputs/outputs/inOut` = `CallTreeUtils.get_in_out_parameters`
on the ordered access list `sacc` = `VariablesAccessInfo` (assignment, IF, DO incl. dependent
bounds, DO WHILE: condition then body, and unanalysed code `RStmt.code acc body`: a CodeBlock —
READWRITE of every name at HEAD —, an assignment whose RHS holds an expression CodeBlock, a call
of unknown intent or of a PURE subroutine of the same container — READWRITE of the by-reference
arguments bound to non-intent(in) dummies; READWRITE = READ;WRITE pair flagged `rw`);
`extractTrans`/`inOutItems` = `ExtractTrans` refusal of CodeBlock/Return regions and the plain
lists; `inputsCalls/outputsCalls` = the merge of per-routine summaries for non-local variables.
Semantics: `RegionData.rexec` (= `MiniF.exec`, `rexec_ofStmt`, plus fuel-bounded `DO WHILE`, plus
`code acc body` = `body`; every theorem holds for every `fuel`).  Theorems about regions that
contain unanalysed code carry the explicit hypothesis `covered` (the code touches only what its
access list announces; `covered_ofStmt`: trivially true without such code).

Theorems
* `C12_outputs`, `C12_outputs_region`, `C12_outputs_minif`, `C12_extract_outputs`,
  `C12_outputs_calls` — every variable the region can modify is an output (statement lists,
  CodeBlocks, calls, accepted extraction regions, regions of kernel calls).
* `C12_outputs_char`, `C12_inputs_char` — what the lists are.
* `C12_statement` (replay at full strength) and `C12_inputs_statement` (every stored value is
  determined by the recorded inputs) are FALSE of the code at HEAD:
  `partial_write_counterexample`, `partial_write_inputs_counterexample` (`a(1)=5; b(2)=a(2)`),
  `write_only_replay_counterexample` (`a(1)=5`), `own_bounds_counterexample` (`do i = i, 2`),
  `section_codeblock_replay_counterexample` (`b(1:3) = (/ (t+ii, ii=1,3) /)`).
* `C12_inputs_partial`, `C12_replay_partial`, `C12_replay_region_partial` — proved under the
  purely SYNTACTIC, decidable side conditions `WholeFirstWrites` / `OutputsDefined` (`chk`): a
  first-written variable may be read only where it is an unconditionally assigned scalar
  (earlier in an enclosing sequence, in both branches of an IF, a loop variable) or an array
  element covered by an earlier unconditional store to the textually same element, nothing its
  index depends on having been written since (`chk` looks INTO unanalysed code with the recorded
  inputs).  `C12_covering_write_sufficient`, `cover2_inputs_sufficient`.
* `C12_code_rw_output`, `C12_codeblock_names_in_out`, `C12_codeblock_outputsDefined`,
  `C12_codeblock_replay` — FIXED mode for `fix: every name used in a CodeBlock is reported as a
  READWRITE access`: the names of a CodeBlock are inputs and outputs, and a region that is one
  CodeBlock satisfies the full replay claim; `codeblock_names_example`; `callBump`.
* `C12_inputs_not_minimal`, `C12_inputs_not_value_minimal` — the converse is false.
* `C12_extract_refuses`, `C12_extract_lists` — the refusal of extraction regions.
* `C12_inputs_calls_super` — merged per-routine inputs contain the inputs of the inlined region.
Outside the theorems (differential run + gfortran oracle only): what a CodeBlock actually does
(the harness exports CodeBlock bodies as `skip`; calls are inlined and executed by the model),
LFRic kernel call trees. -/
namespace C12
open MiniF RegionData

variable {fuel : Nat}

/-- two stores agree on the cells of the variables in `V` (all elements of a variable the
region accesses as an array; the single cell of a scalar) -/
def AgreeV (s : RStmt) (V : List Nat) (σ τ : Store) : Prop :=
  ∀ x ∈ V, ∀ i j, (isArr (sacc s) x = true ∨ (i = 0 ∧ j = 0)) → σ (x, i, j) = τ (x, i, j)

/-- the cells of the recorded inputs -/
def baseA (s : RStmt) : Loc → Prop :=
  fun l => l.1 ∈ inputs s ∧ (isArr (sacc s) l.1 = true ∨ (l.2.1 = 0 ∧ l.2.2 = 0))

theorem kok_base (s : RStmt) : KOK (baseA s) (inputs s) (sacc s) := by
  intro e he _ hk l hc
  refine ⟨hc.1 ▸ hk, ?_⟩
  rcases hc.2 with h | h
  · left; rw [isArr_iff]; exact ⟨e, he, hc.1.symm, h⟩
  · right; exact h

/-- from agreement on the recorded inputs to the simulation invariant after the region -/
theorem sim_final {s : RStmt} {S : Defs} {σ τ : Store} (hcv : covered s = true)
    (hc : chk (inputs s) s ([], []) = some S) (h : AgreeV s (inputs s) σ τ) : SimS (baseA s) S σ τ (rexec fuel s σ) (rexec fuel s τ) := by
  have h0 : SimS (baseA s) ([], []) σ τ σ τ := by
    refine ⟨⟨?_, fun l => Or.inr ⟨rfl, rfl⟩⟩, fun p hp => by cases hp⟩
    intro l hl
    obtain ⟨x, i, j⟩ := l
    rcases hl with hl | hl
    · exact h x hl.1 i j hl.2
    · exact absurd hl.1 (by simp)
  exact (chk_sim s hcv ([], []) S σ τ hc (kok_base s) h0).1

theorem outDefined_chk {s : RStmt} (h : OutputsDefined s) : WholeFirstWrites s := by
  unfold OutputsDefined outDefined at h
  unfold WholeFirstWrites
  split at h
  · rename_i D hD; simp [hD]
  · exact absurd h (by simp)

/-! ## The property -/

/-- the full claim: replaying the region from a store that agrees with the original one on
the recorded inputs reproduces the recorded outputs -/
def C12_statement : Prop :=
  ∀ (fuel : Nat) (s : RStmt) (σ τ : Store), covered s = true → AgreeV s (inputs s) σ τ →
    AgreeV s (outputs s) (rexec fuel s σ) (rexec fuel s τ)

/-- the input half alone: every value the region stores is determined by the recorded inputs
(each location ends with the same value in both runs, or is left untouched by both) -/
def C12_inputs_statement : Prop :=
  ∀ (fuel : Nat) (s : RStmt) (σ τ : Store), covered s = true → AgreeV s (inputs s) σ τ →
    ∀ l, (rexec fuel s σ) l = (rexec fuel s τ) l ∨ ((rexec fuel s σ) l = σ l ∧ (rexec fuel s τ) l = τ l)

/-- **outputs are complete** (all regions, all stores): a variable any element of which the
region changes is in the output list -/
theorem C12_outputs (s : RStmt) (hc : covered s = true) (σ : Store) (x : Nat) (i j : Int)
    (h : (rexec fuel s σ) (x, i, j) ≠ σ (x, i, j)) : x ∈ outputs s := by
  apply Classical.byContradiction
  intro hx
  apply h
  apply rexec_frame
  intro hw
  exact hx (mem_outputsE.mpr (wvars_written hc hw))

/-- the same for a region given as a list of consecutive statements -/
theorem C12_outputs_region (region : List RStmt) (hc : covered (rseqs region) = true) (σ : Store)
    (x : Nat) (i j : Int)
    (h : (rexec fuel (rseqs region) σ) (x, i, j) ≠ σ (x, i, j)) : x ∈ (inOut region).2 :=
  C12_outputs (rseqs region) hc σ x i j h

/-- an output is exactly a variable with a WRITE access; an input exactly a variable whose
first access is not a WRITE -/
theorem C12_outputs_char (s : RStmt) (x : Nat) : x ∈ outputs s ↔ isWritten (sacc s) x = true :=
  mem_outputsE

theorem C12_inputs_char (s : RStmt) (x : Nat) :
    x ∈ inputs s ↔ (∃ e ∈ sacc s, e.var = x) ∧ writtenFirst (sacc s) x = false := by
  simp [inputs, inputsE, List.mem_filter, mem_varsOf]

/-- **inputs are complete, partial**: if every first-written variable that is read is a scalar
defined unconditionally before those reads, the values the region stores do not depend on
anything but the recorded inputs -/
theorem C12_inputs_partial (s : RStmt) (hc : covered s = true) (hw : WholeFirstWrites s) (σ τ : Store)
    (h : AgreeV s (inputs s) σ τ) :
    ∀ l, (rexec fuel s σ) l = (rexec fuel s τ) l ∨ ((rexec fuel s σ) l = σ l ∧ (rexec fuel s τ) l = τ l) := by
  obtain ⟨D, hD⟩ := Option.isSome_iff_exists.mp hw
  exact (sim_final hc hD h).sim.rel

/-- **replay, partial**: if moreover every output is an input or such an unconditionally
defined scalar, replaying from the recorded inputs reproduces the recorded outputs -/
theorem C12_replay_partial (s : RStmt) (hc : covered s = true) (ho : OutputsDefined s) (σ τ : Store)
    (h : AgreeV s (inputs s) σ τ) : AgreeV s (outputs s) (rexec fuel s σ) (rexec fuel s τ) := by
  unfold OutputsDefined outDefined at ho
  split at ho
  · rename_i D hD
    have hs := sim_final (fuel := fuel) hc hD h
    intro x hx i j hcell
    simp only [List.all_eq_true, Bool.or_eq_true, List.contains_iff_mem, Bool.and_eq_true,
      Bool.not_eq_true'] at ho
    apply hs.sim.agree
    rcases ho x hx with hin | ⟨hd, ha⟩
    · exact Or.inl ⟨hin, hcell⟩
    · right
      rcases hcell with hcell | hcell
      · rw [ha] at hcell; exact absurd hcell (by decide)
      · exact ⟨hd, hcell⟩
  · exact absurd ho (by simp)

/-- region form of the replay theorem, in terms of `inOut` -/
theorem C12_replay_region_partial (region : List RStmt) (hc : covered (rseqs region) = true)
    (ho : OutputsDefined (rseqs region)) (σ τ : Store) (h : AgreeV (rseqs region) (inOut region).1 σ τ) :
    AgreeV (rseqs region) (inOut region).2 (rexec fuel (rseqs region) σ) (rexec fuel (rseqs region) τ) :=
  C12_replay_partial (rseqs region) hc ho σ τ h

/-! ## The defect: `is_written_first` is "first textual access is a write" -/

/-- `a(1) = 5 ; b(2) = a(2)` with `a = 0`, `b = 1` -/
def wit : RStmt := .seq (.store1 0 (.lit 1) (.lit 5)) (.store1 1 (.lit 2) (.idx1 0 (.lit 2)))
def σw : Store := storeOf []
def τw : Store := storeOf [((0, 2, 0), 1)]

example : inOut [.store1 0 (.lit 1) (.lit 5), .store1 1 (.lit 2) (.idx1 0 (.lit 2))] = ([], [0, 1]) := by
  decide
example : ¬ WholeFirstWrites wit := by decide

theorem wit_inputs : inputs wit = [] := by decide

/-- the pinned code reports no input for the witness, but `b(2)` after the region is the
incoming `a(2)` -/
theorem partial_write_counterexample : ¬ C12_statement := by
  intro h
  have h1 := h 0 wit σw τw (by decide) (by intro x hx; rw [wit_inputs] at hx; cases hx) 1 (by decide) 2 0
    (Or.inl (by decide))
  revert h1
  decide

theorem partial_write_inputs_counterexample : ¬ C12_inputs_statement := by
  intro h
  have h1 := h 0 wit σw τw (by decide) (by intro x hx; rw [wit_inputs] at hx; cases hx) (1, 2, 0)
  revert h1
  decide

/-- `a(1) = 5` alone: nothing upward-exposed is missed (`WholeFirstWrites` holds), but the
recorded output `a` is not reproduced by a replay that knows no input -/
def wit2 : RStmt := .store1 0 (.lit 1) (.lit 5)

example : WholeFirstWrites wit2 ∧ ¬ OutputsDefined wit2 := by decide

theorem write_only_replay_counterexample :
    ¬ (∀ fuel σ τ, AgreeV wit2 (inputs wit2) σ τ → AgreeV wit2 (outputs wit2) (rexec fuel wit2 σ) (rexec fuel wit2 τ)) := by
  intro h
  have hin : inputs wit2 = [] := by decide
  have h1 := h 0 σw τw (by intro x hx; rw [hin] at hx; cases hx) 0 (by decide) 2 0 (Or.inl (by decide))
  revert h1
  decide

/-- `do i = i, 2 ; s = s + 1 ; enddo` (i=0, s=1): the loop's WRITE of `i` precedes the READ of
`i` in its own bound in the access list, so `i` is no input, but it fixes the trip count -/
def wit3 : RStmt := .loop 0 (.var 0) (.lit 2) (.lit 1) (.assign 1 (.bin .add (.var 1) (.lit 1)))

theorem wit3_inputs : inputs wit3 = [1] := by decide

theorem own_bounds_counterexample :
    ¬ (∀ fuel σ τ, AgreeV wit3 (inputs wit3) σ τ → AgreeV wit3 (outputs wit3) (rexec fuel wit3 σ) (rexec fuel wit3 τ)) := by
  intro h
  have h1 := h 0 (storeOf [((0, 0, 0), 1)]) (storeOf [((0, 0, 0), 5)])
    (by
      intro x hx i j _
      rw [wit3_inputs] at hx
      have hx1 : x = 1 := by simpa using hx
      subst hx1
      simp [storeOf, Store.set])
    1 (by decide) 0 0 (Or.inr ⟨rfl, rfl⟩)
  revert h1
  decide

/-! ## Non-vacuity and sanity evaluations -/

/-- `t = a(3); do i = 1, n: b(i) = a(i) + t; enddo; s = s + 1`  (a=0 b=1 t=2 i=3 n=4 s=5) -/
def good : RStmt :=
  .seq (.assign 2 (.idx1 0 (.lit 3)))
    (.seq (.loop 3 (.lit 1) (.var 4) (.lit 1)
            (.store1 1 (.var 3) (.bin .add (.idx1 0 (.var 3)) (.var 2))))
          (.assign 5 (.bin .add (.var 5) (.lit 1))))

example : (inputs good).contains 0 ∧ (inputs good).contains 4 ∧ (inputs good).contains 5
    ∧ ¬ (inputs good).contains 2 ∧ ¬ (inputs good).contains 3 := by decide
example : WholeFirstWrites good := by decide
/-- `b` is only partially written, so the whole-output replay needs `b` as an input -/
example : ¬ OutputsDefined good := by decide

/-- the same with `b(i) = b(i) + a(i) + t` (b is then an input): both side conditions hold -/
def good2 : RStmt :=
  .seq (.assign 2 (.idx1 0 (.lit 3)))
    (.seq (.loop 3 (.lit 1) (.var 4) (.lit 1)
            (.store1 1 (.var 3) (.bin .add (.idx1 1 (.var 3)) (.bin .add (.idx1 0 (.var 3)) (.var 2)))))
          (.assign 5 (.bin .add (.var 5) (.lit 1))))

example : WholeFirstWrites good2 ∧ OutputsDefined good2 := by decide
example : (outputs good2).contains 1 ∧ (outputs good2).contains 2 ∧ (outputs good2).contains 3
    ∧ (outputs good2).contains 5 ∧ ¬ (outputs good2).contains 0 := by decide

/-- conditionally written scalar that is read afterwards: rejected -/
example : ¬ WholeFirstWrites (.seq (.ite (.var 0) (.assign 1 (.lit 1)) .skip) (.assign 2 (.var 1))) := by
  decide
/-- loop variable read in its own bounds (`do i = i, 5`): the loop's WRITE of `i` comes first
in the access list, so `i` is no input; rejected -/
example : inputs (.loop 0 (.var 0) (.lit 5) (.lit 1) .skip) = [] := by decide
example : ¬ WholeFirstWrites (.loop 0 (.var 0) (.lit 5) (.lit 1) .skip) := by decide

/-! ## Covering writes: the syntactic criterion is sufficient; inputs are not minimal

`WholeFirstWrites` is purely syntactic (`chk`).  Besides unconditionally assigned scalars it
accepts *covering writes*: a read of `a(i)` after an unconditional store to the textually same
`a(i)` in the same statement sequence, nothing `i` depends on having been written in between.
`C12_inputs_partial` is proved from `chk` alone, so this criterion — the one a conservative
`is_written_first` could implement without def-use chains — is proved sufficient. -/

/-- **a covering write is sufficient** (the step): an unconditional store to `a(i)` whose
operands may be evaluated and whose index does not depend on `a` makes `a(i)` a covered
element; `okX` then accepts reads of `.idx1 a i` although `a` is not a recorded input, and
`chk_sim` (behind `C12_inputs_partial`) shows both runs agree on that element -/
theorem C12_covering_write_sufficient (K : List Nat) (S : Defs) (a : Nat) (i e : Expr)
    (hi : okX K S i = true) (he : okX K S e = true) (hm : mentions i a = false) :
    ∃ S', chk K (.store1 a i e) S = some S' ∧ (a, i) ∈ S'.2 ∧ S'.1 = S.1 :=
  ⟨(S.1, (a, i) :: killA S.2 [a]), by simp [chk, hi, he, hm], by simp, rfl⟩

/-- `do i = 1, n: a(i) = b(i) * 2; c(i) = a(i) + 1; enddo` (a=0 b=1 c=2 i=3 n=4): `a` is written
first and read — at the covered element only: not an input, and the theorem applies -/
def cover2 : RStmt :=
  .loop 3 (.lit 1) (.var 4) (.lit 1)
    (.seq (.store1 0 (.var 3) (.bin .mul (.idx1 1 (.var 3)) (.lit 2)))
          (.store1 2 (.var 3) (.bin .add (.idx1 0 (.var 3)) (.lit 1))))

example : ¬ (inputs cover2).contains 0 ∧ WholeFirstWrites cover2 := by decide

theorem cover2_inputs_sufficient (σ τ : Store) (h : AgreeV cover2 (inputs cover2) σ τ) :
    ∀ l, (rexec fuel cover2 σ) l = (rexec fuel cover2 τ) l
      ∨ ((rexec fuel cover2 σ) l = σ l ∧ (rexec fuel cover2 τ) l = τ l) :=
  C12_inputs_partial cover2 (by decide) (by decide) σ τ h

/-- reading a different element (`a(i+1)`), or the same text after the index variable changed,
is not covered -/
example : ¬ WholeFirstWrites (.loop 3 (.lit 1) (.var 4) (.lit 1)
    (.seq (.store1 0 (.var 3) (.lit 7))
          (.store1 2 (.var 3) (.idx1 0 (.bin .add (.var 3) (.lit 1)))))) := by decide
example : ¬ WholeFirstWrites (.seq (.store1 0 (.var 3) (.lit 7))
    (.seq (.assign 3 (.bin .add (.var 3) (.lit 1))) (.assign 5 (.idx1 0 (.var 3))))) := by decide
/-- a store under a condition covers nothing after the IF; one in BOTH branches does (scalars) -/
example : ¬ WholeFirstWrites (.seq (.ite (.var 1) (.store1 0 (.lit 1) (.lit 7)) .skip)
    (.assign 5 (.idx1 0 (.lit 1)))) := by decide
example : WholeFirstWrites (.seq (.ite (.var 1) (.assign 2 (.lit 1)) (.assign 2 (.lit 5)))
    (.assign 3 (.var 2))) := by decide

/-- **inputs are not minimal** (the converse direction is false): a variable is reported as
input as soon as its first textual access is a read, even if no execution reads it (dead
branch) — here `a` is an input of `if (0 /= 0) s = a(1)`, and the region is the identity -/
def deadRead : RStmt := .ite (.lit 0) (.assign 1 (.idx1 0 (.lit 1))) .skip

theorem C12_inputs_not_minimal :
    0 ∈ inputs deadRead ∧ ∀ (fuel : Nat) (σ : Store), rexec fuel deadRead σ = σ := by
  refine ⟨by decide, fun fuel σ => ?_⟩
  simp [deadRead, rexec, eval]

/-- nor value-minimal: `s = a(1) - a(1)` reads `a(1)` on every execution, but the result does
not depend on it -/
def uselessRead : RStmt := .assign 1 (.bin .sub (.idx1 0 (.lit 1)) (.idx1 0 (.lit 1)))

theorem C12_inputs_not_value_minimal :
    0 ∈ inputs uselessRead ∧ ∀ (fuel : Nat) (σ : Store), rexec fuel uselessRead σ = σ.set (1, 0, 0) 0 := by
  refine ⟨by decide, fun fuel σ => ?_⟩
  simp [uselessRead, rexec, eval, evalBin]

/-! ## DO WHILE, CodeBlocks, agreement with MiniF -/

/-- on while-free statements the semantics is `MiniF.exec`, so the theorems above are about
MiniF programs -/
theorem C12_outputs_minif (s : Stmt) (σ : Store) (x : Nat) (i j : Int)
    (h : (exec s σ) (x, i, j) ≠ σ (x, i, j)) : x ∈ outputs (ofStmt s) := by
  rw [← rexec_ofStmt 0 s] at h
  exact C12_outputs (ofStmt s) (covered_ofStmt s) σ x i j h

/-- `do while (a(1) > 0 .and. w > 0): a(1) = 0; b(w) = a(1) + 1; w = w - 1` (a=0 b=1 w=2):
the condition is recorded before the body, so `a` and `w` are inputs -/
def wloop : RStmt :=
  .whileDo (.bin .and (.bin .gt (.idx1 0 (.lit 1)) (.lit 0)) (.bin .gt (.var 2) (.lit 0)))
    (.seq (.store1 0 (.lit 1) (.lit 0))
      (.seq (.store1 1 (.var 2) (.bin .add (.idx1 0 (.lit 1)) (.lit 1)))
            (.assign 2 (.bin .sub (.var 2) (.lit 1)))))

example : (inputs wloop).contains 0 ∧ (inputs wloop).contains 2 ∧ ¬ (inputs wloop).contains 1 := by decide
example : WholeFirstWrites wloop ∧ ¬ OutputsDefined wloop := by decide
/-- a scalar assigned in the body is NOT defined after the loop (zero iterations possible) -/
example : ¬ WholeFirstWrites (.seq (.whileDo (.var 0) (.seq (.assign 1 (.lit 1)) (.assign 0 (.lit 0))))
    (.assign 2 (.var 1))) := by decide
/-- the loop really iterates under `decide` (fuel 5): `w = 2` gives `b(2) = 1`, `w = 0` -/
example : (rexec 5 wloop (storeOf [((0, 1, 0), 3), ((2, 0, 0), 2)])) (1, 2, 0) = 1
    ∧ (rexec 5 wloop (storeOf [((0, 1, 0), 3), ((2, 0, 0), 2)])) (2, 0, 0) = 1 := by decide

/-- `ExtractTrans` refuses exactly the regions that contain an excluded node (CodeBlock,
Return), and otherwise records `get_in_out_parameters` of the region -/
theorem C12_extract_refuses (items : List Item) :
    extractTrans items = none ↔ hasExcluded items = true := by
  unfold extractTrans
  split <;> simp_all

theorem C12_extract_lists (items : List Item) (l : List Nat × List Nat)
    (h : extractTrans items = some l) : hasExcluded items = false ∧ l = inOut (itemsStmt items) := by
  unfold extractTrans at h
  split at h
  · exact absurd h (by simp)
  · rename_i hx
    simp only [Option.some.injEq] at h
    exact ⟨by simpa using hx, h.symm⟩

/-- hence for every ACCEPTED extraction region the theorems above apply to the recorded lists -/
theorem C12_extract_outputs (items : List Item) (l : List Nat × List Nat)
    (h : extractTrans items = some l) (hc : covered (rseqs (itemsStmt items)) = true)
    (σ : Store) (x : Nat) (i j : Int)
    (hx : (rexec fuel (rseqs (itemsStmt items)) σ) (x, i, j) ≠ σ (x, i, j)) : x ∈ l.2 := by
  rw [(C12_extract_lists items l h).2]
  exact C12_outputs_region (itemsStmt items) hc σ x i j hx

example : extractTrans [.stmt wloop, .excluded .skip] = none := by decide
/-! ## Unanalysed code: CodeBlocks and calls of unknown intent (`RStmt.code acc body`)

At HEAD `CodeBlock.reference_accesses` reports READWRITE of every name the CodeBlock uses, and
`Call.reference_accesses` READWRITE of every by-reference argument of a call of unknown intent.
All theorems above hold for regions containing such code under the explicit hypothesis `covered`
(the code touches nothing but what its access list announces).  Consequences: -/

theorem mem_accEvs {acc : List Acc} {e : Ev} : e ∈ accEvs acc ↔ ∃ a ∈ acc, e ∈ accEv a := by
  induction acc with
  | nil => simp [accEvs]
  | cons a r ih => simp [accEvs, ih]

/-- every READWRITE-accessed name (each name of a CodeBlock, each by-reference argument of a call
of unknown intent) is an output -/
theorem C12_code_rw_output (acc : List Acc) (body : RStmt) (x : Nat) (arr : Bool)
    (h : Acc.rw x arr ∈ acc) : x ∈ outputs (.code acc body) := by
  rw [C12_outputs_char, isWritten_iff]
  refine ⟨⟨x, true, arr, true⟩, ?_, rfl, rfl⟩
  simp only [sacc]
  exact mem_accEvs.mpr ⟨_, h, by simp [accEv]⟩

/-- the access list of a statement CodeBlock: READWRITE of every name, in `get_symbol_names` order -/
def cbAcc (names : List (Nat × Bool)) : List Acc := names.map (fun n => Acc.rw n.1 n.2)

theorem writtenFirst_cb (names : List (Nat × Bool)) (x : Nat) :
    writtenFirst (accEvs (cbAcc names)) x = false := by
  induction names with
  | nil => rfl
  | cons n r ih =>
    unfold writtenFirst firstOf at ih ⊢
    simp only [cbAcc, List.map_cons, accEvs, accEv, List.cons_append, List.nil_append, List.find?_cons]
    by_cases h : n.1 = x
    · simp [h]
    · have hb : (n.1 == x) = false := by simpa using h
      simp only [hb]
      exact ih

theorem cb_input {names : List (Nat × Bool)} {body : RStmt} {x : Nat}
    (hx : ∃ e ∈ accEvs (cbAcc names), e.var = x) : x ∈ inputs (.code (cbAcc names) body) :=
  (C12_inputs_char _ _).mpr ⟨by simpa [sacc] using hx, by simpa [sacc] using writtenFirst_cb names x⟩

/-- **a CodeBlock's names are inputs and outputs**: whatever a CodeBlock may read is recorded
and whatever it may change is recorded (the pre-fix code recorded nothing) -/
theorem C12_codeblock_names_in_out (names : List (Nat × Bool)) (body : RStmt) (n : Nat × Bool)
    (h : n ∈ names) :
    n.1 ∈ inputs (.code (cbAcc names) body) ∧ n.1 ∈ outputs (.code (cbAcc names) body) := by
  have hm : Acc.rw n.1 n.2 ∈ cbAcc names := List.mem_map.mpr ⟨n, h, rfl⟩
  refine ⟨cb_input ⟨⟨n.1, false, n.2, true⟩, mem_accEvs.mpr ⟨_, hm, by simp [accEv]⟩, rfl⟩, ?_⟩
  exact C12_code_rw_output _ body n.1 n.2 hm

/-- **a region that is one CodeBlock satisfies the full claim**: both side conditions hold, so
(with `C12_replay_partial`) replaying it from the recorded inputs reproduces the recorded outputs -/
theorem C12_codeblock_outputsDefined (names : List (Nat × Bool)) (body : RStmt)
    (hc : covered (.code (cbAcc names) body) = true) : OutputsDefined (.code (cbAcc names) body) := by
  simp only [covered, Bool.and_eq_true] at hc
  have hs : (chk (inputs (.code (cbAcc names) body)) body ([], [])).isSome = true := by
    apply chk_of_reads body hc.2
    intro ev he _
    obtain ⟨e', he', hv', _, _⟩ := coveredBy_iff.mp hc.1 ev he
    exact cb_input ⟨e', he', hv'⟩
  obtain ⟨S, hS⟩ := Option.isSome_iff_exists.mp hs
  unfold OutputsDefined outDefined
  simp only [chk, hS]
  simp only [List.all_eq_true, Bool.or_eq_true, List.contains_iff_mem]
  intro x hx
  left
  obtain ⟨e, he, hv, _⟩ := isWritten_iff.mp ((C12_outputs_char _ _).mp hx)
  exact cb_input ⟨e, by simpa [sacc] using he, hv⟩

theorem C12_codeblock_replay (names : List (Nat × Bool)) (body : RStmt)
    (hc : covered (.code (cbAcc names) body) = true) (σ τ : Store)
    (h : AgreeV (.code (cbAcc names) body) (inputs (.code (cbAcc names) body)) σ τ) :
    AgreeV (.code (cbAcc names) body) (outputs (.code (cbAcc names) body))
      (rexec fuel (.code (cbAcc names) body) σ) (rexec fuel (.code (cbAcc names) body) τ) :=
  C12_replay_partial _ hc (C12_codeblock_outputsDefined names body hc) σ τ h

/-- `forall (ii = 2:4) c(ii) = s0 + ii` (c=2 s0=6 ii=3; ii is construct-local and unchanged) -/
def cbForall : RStmt :=
  .code (cbAcc [(3, false), (2, true), (3, false), (6, false), (3, false)])
    (.seq (.store1 2 (.lit 2) (.bin .add (.var 6) (.lit 2)))
      (.seq (.store1 2 (.lit 3) (.bin .add (.var 6) (.lit 3))) (.store1 2 (.lit 4) (.bin .add (.var 6) (.lit 4)))))

example : covered cbForall = true ∧ OutputsDefined cbForall
    ∧ (inputs cbForall).contains 6 ∧ (inputs cbForall).contains 2 ∧ (outputs cbForall).contains 2 := by decide
/-- code that touches a variable its access list does not announce is excluded by `covered` -/
example : covered (.code (cbAcc [(3, false)]) (.assign 6 (.lit 1))) = false := by decide

/-- `b(1:3) = (/ (t + ii, ii = 1, 3) /)` (b=1 t=2 ii=3): an assignment whose RHS is an expression
CodeBlock — READWRITE t, ii, ii; the READs of the section bounds; WRITE b.  `t` and `ii` are now
inputs, but `b`'s first access is the (partial) WRITE: `b` is no input, and the recorded `b` is
not reproduced — an instance of the partial-first-write defect, not of CodeBlock invisibility -/
def cbSection : RStmt :=
  .code [.rw 2 false, .rw 3 false, .rw 3 false, .rd (.bin .add (.lit 1) (.lit 3)), .wr 1 true]
    (.seq (.store1 1 (.lit 1) (.bin .add (.var 2) (.lit 1)))
      (.seq (.store1 1 (.lit 2) (.bin .add (.var 2) (.lit 2))) (.store1 1 (.lit 3) (.bin .add (.var 2) (.lit 3)))))

example : covered cbSection = true ∧ inputs cbSection = [2, 3] ∧ (outputs cbSection).contains 1
    ∧ (outputs cbSection).contains 2 ∧ WholeFirstWrites cbSection ∧ ¬ OutputsDefined cbSection := by decide

theorem section_codeblock_replay_counterexample :
    ¬ (∀ fuel σ τ, AgreeV cbSection (inputs cbSection) σ τ →
        AgreeV cbSection (outputs cbSection) (rexec fuel cbSection σ) (rexec fuel cbSection τ)) := by
  intro h
  have hin : inputs cbSection = [2, 3] := by decide
  have h1 := h 0 (storeOf []) (storeOf [((1, 5, 0), 9)])
    (by
      intro x hx i j _
      rw [hin] at hx
      have hx1 : x = 2 ∨ x = 3 := by simpa using hx
      rcases hx1 with rfl | rfl <;> simp [storeOf, Store.set])
    1 (by decide) 5 0 (Or.inl (by decide))
  revert h1
  decide

/-- `call bump(a, s, b(k))` of unknown intent (a=0 b=1 s=4 k=5), callee `x(1)=x(2)+y; y=y+z; z=3`:
READWRITE a, s, b and READ k; every argument is input and output, both side conditions hold -/
def callBump : RStmt :=
  .code [.rw 0 true, .rw 4 false, .rw 1 true, .rd (.var 5)]
    (.seq (.store1 0 (.lit 1) (.bin .add (.idx1 0 (.lit 2)) (.var 4)))
      (.seq (.assign 4 (.bin .add (.var 4) (.idx1 1 (.var 5)))) (.store1 1 (.var 5) (.lit 3))))

example : covered callBump = true ∧ OutputsDefined callBump ∧ (inputs callBump).contains 5
    ∧ ¬ (outputs callBump).contains 5 := by decide

/-- plain `get_in_out_parameters` on `s1 = 0; <CodeBlock using s0, ii>` (s1=1 s0=0 ii=7): the
CodeBlock's names are inputs and outputs; `ExtractTrans` still refuses the region -/
theorem codeblock_names_example :
    inOutItems [.stmt (.assign 1 (.lit 0)), .excluded (.code (cbAcc [(0, false), (7, false)]) .skip)]
      = ([0, 7], [1, 0, 7])
    ∧ extractTrans [.stmt (.assign 1 (.lit 0)), .excluded (.code (cbAcc [(0, false), (7, false)]) .skip)] = none := by
  decide

/-! ## Regions of calls: non-local (module) variables reached through kernels / routines

`inputsCalls` / `outputsCalls` merge the callees' own access summaries (the pinned
`_resolve_calls_and_unknowns`).  The semantic reference is the region with the callee bodies
inlined, `rseqs bodies`: the merged outputs are complete, and the merged inputs contain every
input of the inlined region (they over-approximate: a variable first written by an earlier
callee and read by a later one is still listed). -/

theorem sacc_seqs_cons (b : RStmt) (r : List RStmt) : sacc (rseqs (b :: r)) = sacc b ++ sacc (rseqs r) := by
  cases r with
  | nil => simp [rseqs, sacc]
  | cons c r => simp [rseqs, sacc]

theorem mem_unionMap {f : RStmt → List Nat} {bodies : List RStmt} {x : Nat} :
    x ∈ unionMap f bodies ↔ ∃ b ∈ bodies, x ∈ f b := by
  induction bodies with
  | nil => simp [unionMap]
  | cons b r ih => simp [unionMap, ih]

theorem written_seqs {bodies : List RStmt} {x : Nat} (h : isWritten (sacc (rseqs bodies)) x = true) :
    ∃ b ∈ bodies, isWritten (sacc b) x = true := by
  induction bodies with
  | nil => simp [rseqs, sacc, isWritten] at h
  | cons b r ih =>
    rw [sacc_seqs_cons, isWritten, List.any_append, Bool.or_eq_true] at h
    rcases h with h | h
    · exact ⟨b, by simp, h⟩
    · obtain ⟨c, hc, hw⟩ := ih h
      exact ⟨c, List.mem_cons_of_mem _ hc, hw⟩

/-- **outputs are complete for regions of calls**: a non-local variable that the inlined
region changes is written by some callee, hence in the merged output list -/
theorem C12_outputs_calls (G : List Nat) (bodies : List RStmt) (hc : covered (rseqs bodies) = true)
    (σ : Store) (x : Nat) (i j : Int) (hG : x ∈ G) (h : (rexec fuel (rseqs bodies) σ) (x, i, j) ≠ σ (x, i, j)) : x ∈ outputsCalls G bodies := by
  have h1 := (C12_outputs_char _ _).mp (C12_outputs (rseqs bodies) hc σ x i j h)
  obtain ⟨b, hb, hw⟩ := written_seqs h1
  simp only [outputsCalls, List.mem_filter, mem_dedup, mem_unionMap, List.contains_iff_mem]
  exact ⟨⟨b, hb, (C12_outputs_char _ _).mpr hw⟩, hG⟩

theorem inputs_seqs {bodies : List RStmt} {x : Nat} (h : x ∈ inputs (rseqs bodies)) :
    ∃ b ∈ bodies, x ∈ inputs b := by
  induction bodies with
  | nil => simp [rseqs, inputs, inputsE, sacc, varsOf, dedup] at h
  | cons b r ih =>
    rw [C12_inputs_char, sacc_seqs_cons] at h
    obtain ⟨⟨e, he, hv⟩, hf⟩ := h
    unfold writtenFirst firstOf at hf
    rw [List.find?_append] at hf
    cases hb : (sacc b).find? (fun e => e.var == x) with
    | some e' =>
      rw [hb] at hf
      try simp only [Option.or] at hf
      refine ⟨b, by simp, (C12_inputs_char _ _).mpr ⟨⟨e', List.mem_of_find?_eq_some hb, ?_⟩, ?_⟩⟩
      · simpa using List.find?_some hb
      · unfold writtenFirst firstOf; rw [hb]; exact hf
    | none =>
      rw [hb] at hf
      try simp only [Option.or] at hf
      have hnb : e ∉ sacc b := by
        intro hmem
        have := List.find?_eq_none.mp hb e hmem
        simp [hv] at this
      have her : e ∈ sacc (rseqs r) := by
        rcases List.mem_append.mp he with h1 | h1
        · exact absurd h1 hnb
        · exact h1
      obtain ⟨c, hc, hin⟩ := ih ((C12_inputs_char _ _).mpr ⟨⟨e, her, hv⟩, hf⟩)
      exact ⟨c, List.mem_cons_of_mem _ hc, hin⟩

/-- **inputs are complete for regions of calls** relative to the inlined region: every
non-local input of `rseqs bodies` is in the merged input list.  Together with
`C12_inputs_partial` / `C12_replay_partial` for `rseqs bodies` (agreement on a superset of the
inputs implies agreement on the inputs) the partial theorems carry over. -/
theorem C12_inputs_calls_super (G : List Nat) (bodies : List RStmt) (x : Nat) (hG : x ∈ G)
    (h : x ∈ inputs (rseqs bodies)) : x ∈ inputsCalls G bodies := by
  obtain ⟨b, hb, hin⟩ := inputs_seqs h
  simp only [inputsCalls, List.mem_filter, mem_dedup, mem_unionMap, List.contains_iff_mem]
  exact ⟨⟨b, hb, hin⟩, hG⟩

/-- reader kernel then writer kernel on the module variable 0 (`F(1) = F(1) + g` ; `g = 2`):
the merged lists contain `g` as input and output in both call orders -/
def readerK : RStmt := .store1 1 (.lit 1) (.bin .add (.idx1 1 (.lit 1)) (.var 0))
def writerK : RStmt := .seq (.assign 0 (.lit 2)) readerK

example : inputsCalls [0] [readerK, writerK] = [0] ∧ outputsCalls [0] [readerK, writerK] = [0] := by decide
example : inputsCalls [0] [writerK, readerK] = [0] ∧ outputsCalls [0] [writerK, readerK] = [0] := by decide
/-- the inlined reference needs `g` as input only when the reader runs first -/
example : (inputs (rseqs [readerK, writerK])).contains 0 ∧ ¬ (inputs (rseqs [writerK, readerK])).contains 0 := by
  decide

end C12
