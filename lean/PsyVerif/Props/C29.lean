import PsyVerif.Model.KernOut
/-! # C29 — Transformed-kernel output never clobbers other kernels

Model: `PsyVerif/Model/KernOut.lean` (`step` mirrors the atomic steps of
`CodedKern.rename_and_write`).  Quantification: ANY family of runs (`cfg : RunId → Cfg`, so the number of
runs is unbounded), ANY initial directory contents `fs0`, ANY schedule (list of run ids = interleaving of
the atomic steps). -/
namespace C29

/-! ## helper definitions and lemmas -/

@[simp] theorem setFile_loc (s : State) (nm : Name) (f : File) : (s.setFile nm f).loc = s.loc := rfl
@[simp] theorem setLoc_fs (s : State) (r : RunId) (l : Local) : (s.setLoc r l).fs = s.fs := rfl
@[simp] theorem setLoc_loc_self (s : State) (r : RunId) (l : Local) : (s.setLoc r l).loc r = l := by
  simp [State.setLoc]
theorem setLoc_loc_ne (s : State) {r r' : RunId} (l : Local) (h : r' ≠ r) :
    (s.setLoc r l).loc r' = s.loc r' := by simp [State.setLoc, h]
@[simp] theorem setFile_fs_self (s : State) (nm : Name) (f : File) : (s.setFile nm f).fs nm = some f := by
  simp [State.setFile]
theorem setFile_fs_ne (s : State) {nm nm' : Name} (f : File) (h : nm' ≠ nm) :
    (s.setFile nm f).fs nm' = s.fs nm' := by simp [State.setFile, h]

/-- Run `r` created `<base>_<i>_mod.f90` itself; `written` tells whether its text is already in place. -/
def Owns (c : Cfg) (fs0 fs : FS) (r : RunId) (i : Nat) (written : Bool) : Prop :=
  fs0 ⟨c.base, i⟩ = none ∧ (c.mode = .single → i = 0) ∧
  ∃ f, fs ⟨c.base, i⟩ = some f ∧ f.owner = some r ∧
    (if written then f.data = some (rendered c i) ∧ f.writers = [r] else f.data = none ∧ f.writers = [])

/-- Run `r` ('single' scheme) found `<base>_<i>_mod.f90` already present. -/
def Reads (c : Cfg) (fs : FS) (i : Nat) : Prop :=
  c.mode = .single ∧ i = 0 ∧ fs ⟨c.base, i⟩ ≠ none

/-- Per-run invariant, by program counter. -/
def RunOK (c : Cfg) (fs0 fs : FS) (r : RunId) (l : Local) : Prop :=
  match l.pc with
  | .create i => (∀ j, j < i → fs ⟨c.base, j⟩ ≠ none) ∧ (c.mode = .single → i = 0)
  | .rename i true => Owns c fs0 fs r i false
  | .rename i false => Reads c fs i
  | .render i true => l.tag = some i ∧ Owns c fs0 fs r i false
  | .render i false => l.tag = some i ∧ Reads c fs i
  | .write i => l.tag = some i ∧ l.code = some (rendered c i) ∧ Owns c fs0 fs r i false
  | .close i => l.tag = some i ∧ Owns c fs0 fs r i true
  | .readback i => l.tag = some i ∧ l.code = some (rendered c i) ∧ Reads c fs i
  | .compare i got => l.tag = some i ∧ l.code = some (rendered c i) ∧ Reads c fs i ∧
      ∀ x, got = some x → ∃ f, fs ⟨c.base, i⟩ = some f ∧ f.data = some x
  | .done i .wrote => l.tag = some i ∧ Owns c fs0 fs r i true
  | .done i .reused => l.tag = some i ∧ Reads c fs i ∧
      ∃ f, fs ⟨c.base, i⟩ = some f ∧ f.data = some (rendered c i)
  | .done i .failed => l.tag = some i ∧ Reads c fs i

structure Inv (cfg : RunId → Cfg) (fs0 : FS) (s : State) : Prop where
  pre : ∀ nm f, fs0 nm = some f → s.fs nm = some f
  fresh : ∀ nm f, s.fs nm = some f → fs0 nm = none →
    ∃ r, f.owner = some r ∧ nm.base = (cfg r).base ∧ held (s.loc r).pc = some nm.idx
  runs : ∀ r, RunOK (cfg r) fs0 s.fs r (s.loc r)

/-- How one step of run `r` may change the directory: every existing file stays as it is, except that
an empty file owned by `r` may be replaced (written). -/
def Ext (r : RunId) (fs fs' : FS) : Prop :=
  ∀ nm f, fs nm = some f → fs' nm = some f ∨ (f.owner = some r ∧ f.data = none ∧ ∃ f', fs' nm = some f')

theorem Ext.refl (r : RunId) (fs : FS) : Ext r fs fs := fun _ _ h => Or.inl h

theorem Ext.exists {r fs fs'} (h : Ext r fs fs') {nm} (hn : fs nm ≠ none) : fs' nm ≠ none := by
  cases hf : fs nm with
  | none => exact absurd hf hn
  | some f =>
    rcases h nm f hf with h | ⟨_, _, f', h⟩ <;> simp [h]

theorem Ext.data {r fs fs'} (h : Ext r fs fs') {nm f x} (hf : fs nm = some f) (hd : f.data = some x) :
    fs' nm = some f := by
  rcases h nm f hf with h | ⟨_, h0, _⟩
  · exact h
  · rw [hd] at h0; cases h0

theorem Owns.frame {c fs0 fs fs' r r' i w} (h : Ext r fs fs') (hne : r' ≠ r)
    (ho : Owns c fs0 fs r' i w) : Owns c fs0 fs' r' i w := by
  obtain ⟨h0, hs, f, hf, hown, hw⟩ := ho
  refine ⟨h0, hs, f, ?_, hown, hw⟩
  rcases h _ f hf with h | ⟨ho, _, _⟩
  · exact h
  · rw [hown] at ho; cases ho; exact absurd rfl hne

theorem Reads.frame {c fs fs' r i} (h : Ext r fs fs') (hr : Reads c fs i) : Reads c fs' i :=
  ⟨hr.1, hr.2.1, h.exists hr.2.2⟩

/-- Frame lemma: a step of run `r` preserves the per-run invariant of every other run. -/
theorem RunOK.frame {c fs0 fs fs' r r' l} (h : Ext r fs fs') (hne : r' ≠ r)
    (hr : RunOK c fs0 fs r' l) : RunOK c fs0 fs' r' l := by
  unfold RunOK at hr ⊢
  split at hr
  · exact ⟨fun j hj => h.exists (hr.1 j hj), hr.2⟩
  · exact hr.frame h hne
  · exact hr.frame h
  · exact ⟨hr.1, hr.2.frame h hne⟩
  · exact ⟨hr.1, hr.2.frame h⟩
  · exact ⟨hr.1, hr.2.1, hr.2.2.frame h hne⟩
  · exact ⟨hr.1, hr.2.frame h hne⟩
  · exact ⟨hr.1, hr.2.1, hr.2.2.frame h⟩
  · refine ⟨hr.1, hr.2.1, hr.2.2.1.frame h, fun x hx => ?_⟩
    obtain ⟨f, hf, hd⟩ := hr.2.2.2 x hx
    exact ⟨f, h.data hf hd, hd⟩
  · exact ⟨hr.1, hr.2.frame h hne⟩
  · obtain ⟨ht, hrd, f, hf, hd⟩ := hr
    exact ⟨ht, hrd.frame h, f, h.data hf hd, hd⟩
  · exact ⟨hr.1, hr.2.frame h⟩

theorem inv_local {cfg : RunId → Cfg} {fs0 : FS} {s : State} {r : RunId} {l' : Local}
    (hI : Inv cfg fs0 s) (hh : held l'.pc = held (s.loc r).pc)
    (hr : RunOK (cfg r) fs0 s.fs r l') : Inv cfg fs0 (s.setLoc r l') := by
  refine ⟨hI.pre, fun nm f hf h0 => ?_, fun r' => ?_⟩
  · obtain ⟨r0, ho, hb, hh0⟩ := hI.fresh nm f hf h0
    refine ⟨r0, ho, hb, ?_⟩
    by_cases h : r0 = r
    · subst h; simpa [State.setLoc, hh] using hh0
    · simpa [State.setLoc, h] using hh0
  · by_cases h : r' = r
    · subst h; simpa [State.setLoc] using hr
    · simpa [State.setLoc, h] using hI.runs r'

theorem ext_setFile {s : State} {r : RunId} {nm : Name} {f' : File}
    (hold : ∀ f, s.fs nm = some f → f.owner = some r ∧ f.data = none) :
    Ext r s.fs (s.setFile nm f').fs := by
  intro nm' f hf
  by_cases h : nm' = nm
  · subst h
    exact Or.inr ⟨(hold f hf).1, (hold f hf).2, f', by simp [State.setFile]⟩
  · exact Or.inl (by simpa [State.setFile, h] using hf)

theorem inv_fs {cfg : RunId → Cfg} {fs0 : FS} {s : State} {r : RunId} {nm : Name} {f' : File}
    {l' : Local} (hI : Inv cfg fs0 s) (h0 : fs0 nm = none)
    (hold : ∀ f, s.fs nm = some f → f.owner = some r ∧ f.data = none)
    (hown : f'.owner = some r) (hbase : nm.base = (cfg r).base) (hheld : held l'.pc = some nm.idx)
    (hheld_old : ∀ j, held (s.loc r).pc = some j → j = nm.idx)
    (hr : RunOK (cfg r) fs0 (s.setFile nm f').fs r l') :
    Inv cfg fs0 ((s.setFile nm f').setLoc r l') := by
  have hext : Ext r s.fs (s.setFile nm f').fs := ext_setFile hold
  refine ⟨fun nm' f hf => ?_, fun nm' f hf h0' => ?_, fun r' => ?_⟩
  · have hne : nm' ≠ nm := by intro h; subst h; rw [h0] at hf; cases hf
    simpa [State.setLoc, State.setFile, hne] using hI.pre nm' f hf
  · by_cases hnm : nm' = nm
    · subst hnm
      have : f = f' := by simpa [State.setLoc, State.setFile] using hf.symm
      subst this
      exact ⟨r, hown, hbase, by simpa [State.setLoc] using hheld⟩
    · have hf' : s.fs nm' = some f := by simpa [State.setLoc, State.setFile, hnm] using hf
      obtain ⟨r0, ho, hb, hh0⟩ := hI.fresh nm' f hf' h0'
      refine ⟨r0, ho, hb, ?_⟩
      by_cases h : r0 = r
      · subst h
        exfalso; apply hnm
        have hidx := hheld_old _ hh0
        have hb' : nm'.base = nm.base := by rw [hb, hbase]
        cases nm'; cases nm; simp only [Name.mk.injEq]; exact ⟨hb', hidx⟩
      · simpa [setLoc_loc_ne _ _ h] using hh0
  · by_cases h : r' = r
    · subst h; simpa [State.setLoc] using hr
    · have := (hI.runs r').frame hext h
      simpa [setLoc_loc_ne _ _ h] using this

/-- The invariant is preserved by every step of every run. -/
theorem step_inv {cfg : RunId → Cfg} {fs0 : FS} {s : State} (r : RunId)
    (hI : Inv cfg fs0 s) : Inv cfg fs0 (step cfg s r) := by
  have hr := hI.runs r
  unfold step
  simp only []
  split
  · -- create
    rename_i i hpc
    unfold RunOK at hr; rw [hpc] at hr; simp only [] at hr
    split
    · -- the file does not exist: O_EXCL create succeeds
      rename_i hnone
      have h0 : fs0 ⟨(cfg r).base, i⟩ = none := by
        cases h : fs0 ⟨(cfg r).base, i⟩ with
        | none => rfl
        | some f => have := hI.pre _ f h; rw [hnone] at this; cases this
      apply inv_fs hI h0
      · intro f hf; rw [hnone] at hf; cases hf
      · rfl
      · rfl
      · simp [held]
      · intro j hj; simp [hpc, held] at hj
      · simp only [RunOK]
        exact ⟨h0, hr.2, _, setFile_fs_self _ _ _, rfl, by simp⟩
    · rename_i f hsome
      apply inv_local hI
      · by_cases hm : (cfg r).mode = .single <;> simp [hm, held, hpc]
      · unfold RunOK
        by_cases hm : (cfg r).mode = .single
        · have := hr.2 hm; subst this
          simp [hm, Reads, hsome]
        · simp only [hm, if_false]
          refine ⟨fun j hj => ?_, fun h => h.elim⟩
          by_cases hji : j = i
          · subst hji; simp [hsome]
          · exact hr.1 j (by omega)
  · -- rename
    rename_i i fd hpc
    cases fd
    · have hr' : Reads (cfg r) s.fs i := by simpa [RunOK, hpc] using hr
      exact inv_local hI (by simp [held, hpc]) (by simpa [RunOK] using hr')
    · have hr' : Owns (cfg r) fs0 s.fs r i false := by simpa [RunOK, hpc] using hr
      exact inv_local hI (by simp [held, hpc]) (by simpa [RunOK] using hr')
  · -- render
    rename_i i fd hpc
    cases fd
    · have hr' : (s.loc r).tag = some i ∧ Reads (cfg r) s.fs i := by simpa [RunOK, hpc] using hr
      exact inv_local hI (by simp [held, hpc]) (by simp [RunOK, hr'.1, hr'.2, rendered])
    · have hr' : (s.loc r).tag = some i ∧ Owns (cfg r) fs0 s.fs r i false := by
        simpa [RunOK, hpc] using hr
      exact inv_local hI (by simp [held, hpc]) (by simp [RunOK, hr'.1, hr'.2, rendered])
  · -- write
    rename_i i hpc
    have hr' : (s.loc r).tag = some i ∧ (s.loc r).code = some (rendered (cfg r) i) ∧
        Owns (cfg r) fs0 s.fs r i false := by simpa [RunOK, hpc] using hr
    obtain ⟨ht, hc, h0, hs, f, hf, hown, hd, hw⟩ := hr'
    split
    · rename_i f' hf'
      have : f' = f := by rw [hf] at hf'; cases hf'; rfl
      subst this
      apply inv_fs hI h0
      · intro f'' hf''; rw [hf] at hf''; cases hf''; exact ⟨hown, by simpa using hd⟩
      · exact hown
      · rfl
      · simp [held]
      · intro j hj; simpa [hpc, held] using hj.symm
      · simp only [RunOK]
        refine ⟨ht, h0, hs, _, setFile_fs_self _ _ _, hown, ?_⟩
        skip
        simp [hc, hw]
    · rename_i hnone; rw [hf] at hnone; cases hnone
  · -- close
    rename_i i hpc
    have hr' : (s.loc r).tag = some i ∧ Owns (cfg r) fs0 s.fs r i true := by simpa [RunOK, hpc] using hr
    exact inv_local hI (by simp [held, hpc]) (by simpa [RunOK] using hr')
  · -- readback
    rename_i i hpc
    have hr' : (s.loc r).tag = some i ∧ (s.loc r).code = some (rendered (cfg r) i) ∧
        Reads (cfg r) s.fs i := by simpa [RunOK, hpc] using hr
    refine inv_local hI (by simp [held, hpc]) ?_
    simp only [RunOK]
    refine ⟨hr'.1, hr'.2.1, hr'.2.2, fun x hx => ?_⟩
    cases hf : s.fs ⟨(cfg r).base, i⟩ with
    | none => simp [hf] at hx
    | some f => exact ⟨f, rfl, by simpa [hf] using hx⟩
  · -- compare
    rename_i i got hpc
    have hr' : (s.loc r).tag = some i ∧ (s.loc r).code = some (rendered (cfg r) i) ∧
        Reads (cfg r) s.fs i ∧ ∀ x, got = some x → ∃ f, s.fs ⟨(cfg r).base, i⟩ = some f ∧ f.data = some x := by
      simpa [RunOK, hpc] using hr
    by_cases hg : got = (s.loc r).code
    · refine inv_local hI (by simp [held, hpc, hg]) ?_
      simp only [hg, if_true, RunOK]
      exact ⟨hr'.1, hr'.2.2.1, hr'.2.2.2 _ (hg.trans hr'.2.1)⟩
    · refine inv_local hI (by simp [held, hpc, hg]) ?_
      simp only [hg, if_false, RunOK]
      exact ⟨hr'.1, hr'.2.2.1⟩
  · exact hI

theorem init_inv (cfg : RunId → Cfg) (fs0 : FS) : Inv cfg fs0 (init fs0) := by
  refine ⟨fun _ _ h => h, fun nm f hf h0 => ?_, fun r => ?_⟩
  · simp [init, h0] at hf
  · simp [init, RunOK]

theorem run_inv {cfg : RunId → Cfg} {fs0 : FS} (sched : List RunId) {s : State}
    (hI : Inv cfg fs0 s) : Inv cfg fs0 (run cfg s sched) := by
  induction sched generalizing s with
  | nil => exact hI
  | cons r rest ih => exact ih (step_inv r hI)

theorem owns_of_held {c : Cfg} {fs0 fs : FS} {r : RunId} {l : Local} {i : Nat}
    (hh : held l.pc = some i) (hr : RunOK c fs0 fs r l) : ∃ w, Owns c fs0 fs r i w := by
  unfold RunOK at hr
  split at hr <;> rename_i hpc <;> simp [hpc, held] at hh <;> subst hh
  · exact ⟨_, hr⟩
  · exact ⟨_, hr.2⟩
  · exact ⟨_, hr.2.2⟩
  · exact ⟨_, hr.2⟩
  · exact ⟨_, hr.2⟩

theorem done_single_idx {c : Cfg} {fs0 fs : FS} {r : RunId} {l : Local} {i : Nat} {res : Res}
    (hpc : l.pc = .done i res) (hm : c.mode = .single) (hr : RunOK c fs0 fs r l) : i = 0 := by
  unfold RunOK at hr
  cases res <;> simp [hpc] at hr
  · exact hr.2.2.1 hm
  · exact hr.2.1.2.1
  · exact hr.2.2.1

theorem done_ok_file {c : Cfg} {fs0 fs : FS} {r : RunId} {l : Local} {i : Nat} {res : Res}
    (hpc : l.pc = .done i res) (hres : res ≠ .failed) (hr : RunOK c fs0 fs r l) :
    l.tag = some i ∧ ∃ f, fs ⟨c.base, i⟩ = some f ∧ f.data = some (rendered c i) := by
  unfold RunOK at hr
  cases res <;> simp [hpc] at hr
  · obtain ⟨ht, _, _, f, hf, _, hd, _⟩ := hr
    exact ⟨ht, f, hf, hd⟩
  · exact ⟨hr.1, hr.2.2⟩
  · exact absurd rfl hres

theorem step_loc_ne (cfg : RunId → Cfg) (s : State) {r r' : RunId} (h : r' ≠ r) :
    (step cfg s r).loc r' = s.loc r' := by
  unfold step
  simp only []
  split <;> (try split) <;> simp [setLoc_loc_ne _ _ h]

theorem runToEnd_done (cfg : RunId → Cfg) (s : State) (r : RunId) (n : Nat) {i res}
    (h : (s.loc r).pc = .done i res) : runToEnd cfg n s r = s := by
  induction n with
  | zero => rfl
  | succ n ih =>
    have : step cfg s r = s := by unfold step; simp [h]
    simp only [runToEnd, run, List.replicate, List.foldl_cons, this]
    exact ih

theorem runToEnd_create_none (cfg : RunId → Cfg) (s : State) (r : RunId)
    (hpc : (s.loc r).pc = .create 0) (hnone : s.fs ⟨(cfg r).base, 0⟩ = none) :
    (runToEnd cfg 6 s r).fs = (s.setFile ⟨(cfg r).base, 0⟩ ⟨some (rendered (cfg r) 0), some r, [r]⟩).fs ∧
    ((runToEnd cfg 6 s r).loc r).pc = .done 0 .wrote := by
  refine ⟨?_, ?_⟩
  · funext x
    by_cases hx : x = ⟨(cfg r).base, 0⟩ <;>
      simp [runToEnd, run, List.replicate, step, hpc, hnone, rendered, State.setFile, State.setLoc, hx]
  · simp [runToEnd, run, List.replicate, step, hpc, hnone, State.setFile, State.setLoc]

theorem runToEnd_create_some (cfg : RunId → Cfg) (s : State) (r : RunId) (f : File)
    (hm : (cfg r).mode = .single)
    (hpc : (s.loc r).pc = .create 0) (hsome : s.fs ⟨(cfg r).base, 0⟩ = some f) :
    (runToEnd cfg 6 s r).fs = s.fs ∧
    ((runToEnd cfg 6 s r).loc r).pc =
      .done 0 (if f.data = some (rendered (cfg r) 0) then .reused else .failed) := by
  by_cases hd : f.data = some ⟨(cfg r).kern, (cfg r).base, some 0⟩ <;>
    simp [runToEnd, run, List.replicate, step, hpc, hsome, hm, rendered, State.setLoc, hd]

theorem runToEnd_loc_ne (cfg : RunId → Cfg) (s : State) {r r' : RunId} (n : Nat) (h : r' ≠ r) :
    (runToEnd cfg n s r).loc r' = s.loc r' := by
  induction n generalizing s with
  | zero => rfl
  | succ n ih =>
    simp only [runToEnd, run, List.replicate, List.foldl_cons]
    have := ih (step cfg s r)
    simp only [runToEnd, run] at this
    rw [this, step_loc_ne cfg s h]

/-- The schedule that runs the listed runs one after the other, each to completion. -/
def seqSchedule (order : List RunId) : List RunId := order.flatMap (List.replicate 6)

theorem run_append (cfg : RunId → Cfg) (s : State) (a b : List RunId) :
    run cfg s (a ++ b) = run cfg (run cfg s a) b := by simp [run, List.foldl_append]

theorem runSeq_eq_run (cfg : RunId → Cfg) (s : State) (order : List RunId) :
    run cfg s (seqSchedule order) = runSeq cfg s order := by
  induction order generalizing s with
  | nil => rfl
  | cons r rest ih =>
    simp only [seqSchedule, List.flatMap_cons, run_append]
    exact ih _

/-- State between two sequential runs. -/
def SeqOK (cfg : RunId → Cfg) (s : State) : Prop :=
  ∀ r, (s.loc r).pc = .create 0 ∨
    ∃ res, (s.loc r).pc = .done 0 res ∧ s.fs ⟨(cfg r).base, 0⟩ ≠ none ∧
      (res ≠ .failed ↔ ∃ f, s.fs ⟨(cfg r).base, 0⟩ = some f ∧ f.data = some (rendered (cfg r) 0))

theorem seq_step {cfg : RunId → Cfg} (hs : ∀ r, (cfg r).mode = .single) {s : State} (h : SeqOK cfg s)
    (r : RunId) :
    SeqOK cfg (runToEnd cfg 6 s r) ∧ ∃ res, ((runToEnd cfg 6 s r).loc r).pc = .done 0 res := by
  rcases h r with hpc | ⟨res, hpc, hex, hiff⟩
  · cases hfs : s.fs ⟨(cfg r).base, 0⟩ with
    | none =>
      obtain ⟨hfs', hpc'⟩ := runToEnd_create_none cfg s r hpc hfs
      refine ⟨fun r' => ?_, _, hpc'⟩
      by_cases hr : r' = r
      · subst hr
        refine Or.inr ⟨_, hpc', by simp [hfs'], ?_⟩
        simp [hfs']
      · rw [runToEnd_loc_ne cfg s 6 hr]
        rcases h r' with h' | ⟨res', hpc2, hex2, hiff2⟩
        · exact Or.inl h'
        · have hne : (⟨(cfg r').base, 0⟩ : Name) ≠ ⟨(cfg r).base, 0⟩ := by
            intro he; rw [he] at hex2; exact hex2 hfs
          refine Or.inr ⟨res', hpc2, ?_, ?_⟩
          · rw [hfs', setFile_fs_ne _ _ hne]; exact hex2
          · rw [hfs', setFile_fs_ne _ _ hne]; exact hiff2
    | some f =>
      obtain ⟨hfs', hpc'⟩ := runToEnd_create_some cfg s r f (hs r) hpc hfs
      refine ⟨fun r' => ?_, _, hpc'⟩
      by_cases hr : r' = r
      · subst hr
        refine Or.inr ⟨_, hpc', by simp [hfs', hfs], ?_⟩
        rw [hfs', hfs]
        by_cases hd : f.data = some (rendered (cfg r') 0) <;> simp [hd]
      · rw [runToEnd_loc_ne cfg s 6 hr, hfs']
        exact h r'
  · rw [runToEnd_done cfg s r 6 hpc]
    exact ⟨h, res, hpc⟩

theorem seq_all {cfg : RunId → Cfg} (hs : ∀ r, (cfg r).mode = .single) (order : List RunId) :
    ∀ s, SeqOK cfg s → SeqOK cfg (runSeq cfg s order) ∧
      ∀ r, ((∃ res, (s.loc r).pc = .done 0 res) ∨ r ∈ order) →
        ∃ res, ((runSeq cfg s order).loc r).pc = .done 0 res := by
  induction order with
  | nil => intro s h; exact ⟨h, fun r hr => by simpa [runSeq] using hr⟩
  | cons a rest ih =>
    intro s h
    obtain ⟨h1, res1, hpc1⟩ := seq_step hs h a
    obtain ⟨h2, hall⟩ := ih _ h1
    refine ⟨h2, fun r hr => ?_⟩
    apply hall
    by_cases hra : r = a
    · subst hra; exact Or.inl ⟨res1, hpc1⟩
    · rcases hr with ⟨res, hres⟩ | hmem
      · left; rw [runToEnd_loc_ne cfg s 6 hra]; exact ⟨res, hres⟩
      · right; simpa [hra] using hmem

/-- State between sequential runs that all output kernel `k` of module `b` with the 'single' scheme. -/
def SameOK (fs0 : FS) (b k : Nat) (s : State) : Prop :=
  (∀ r, (s.loc r).pc = .create 0 ∨
    ∃ res, (s.loc r).pc = .done 0 res ∧ res ≠ .failed ∧ s.fs ⟨b, 0⟩ ≠ none) ∧
  (∀ nm, nm ≠ (⟨b, 0⟩ : Name) → s.fs nm = fs0 nm) ∧
  (s.fs ⟨b, 0⟩ = none ∨ ∃ f, s.fs ⟨b, 0⟩ = some f ∧ f.data = some ⟨k, b, some 0⟩ ∧ f.writers.length = 1)

theorem same_step {cfg : RunId → Cfg} {fs0 : FS} {b k : Nat} {s : State} (h : SameOK fs0 b k s)
    (r : RunId) (hc : cfg r = ⟨.single, b, k⟩) :
    SameOK fs0 b k (runToEnd cfg 6 s r) ∧
    (∃ res, ((runToEnd cfg 6 s r).loc r).pc = .done 0 res ∧ res ≠ .failed) ∧
    (runToEnd cfg 6 s r).fs ⟨b, 0⟩ ≠ none := by
  obtain ⟨h1, h2, h3⟩ := h
  have hb : (cfg r).base = b := by rw [hc]
  have hrend : rendered (cfg r) 0 = ⟨k, b, some 0⟩ := by rw [hc]; rfl
  rcases h1 r with hpc | ⟨res, hpc, hres, hex⟩
  · rcases h3 with hnone | ⟨f, hf, hd, hw⟩
    · obtain ⟨hfs', hpc'⟩ := runToEnd_create_none cfg s r hpc (by rw [hb]; exact hnone)
      rw [hb, hrend] at hfs'
      have hex' : (runToEnd cfg 6 s r).fs ⟨b, 0⟩ ≠ none := by simp [hfs']
      refine ⟨⟨fun r' => ?_, fun nm hnm => ?_,
        Or.inr ⟨_, by rw [hfs']; exact setFile_fs_self _ _ _, rfl, rfl⟩⟩, ⟨_, hpc', by simp⟩, hex'⟩
      · by_cases hr : r' = r
        · subst hr; exact Or.inr ⟨_, hpc', by simp, hex'⟩
        · rw [runToEnd_loc_ne cfg s 6 hr]
          rcases h1 r' with h' | ⟨res', h', hres', _⟩
          · exact Or.inl h'
          · exact Or.inr ⟨res', h', hres', hex'⟩
      · rw [hfs', setFile_fs_ne _ _ hnm]; exact h2 nm hnm
    · obtain ⟨hfs', hpc'⟩ := runToEnd_create_some cfg s r f (by rw [hc]) hpc (by rw [hb]; exact hf)
      rw [hrend] at hpc'
      simp only [hd, if_true] at hpc'
      have hex' : (runToEnd cfg 6 s r).fs ⟨b, 0⟩ ≠ none := by simp [hfs', hf]
      refine ⟨⟨fun r' => ?_, fun nm hnm => by rw [hfs']; exact h2 nm hnm,
        Or.inr ⟨f, by rw [hfs']; exact hf, hd, hw⟩⟩, ⟨_, hpc', by simp⟩, hex'⟩
      by_cases hr : r' = r
      · subst hr; exact Or.inr ⟨_, hpc', by simp, hex'⟩
      · rw [runToEnd_loc_ne cfg s 6 hr]
        rcases h1 r' with h' | ⟨res', h', hres', _⟩
        · exact Or.inl h'
        · exact Or.inr ⟨res', h', hres', hex'⟩
  · rw [runToEnd_done cfg s r 6 hpc]
    exact ⟨⟨h1, h2, h3⟩, ⟨res, hpc, hres⟩, hex⟩

theorem same_all {cfg : RunId → Cfg} {fs0 : FS} {b k : Nat} (order : List RunId) :
    ∀ s, SameOK fs0 b k s → (∀ r ∈ order, cfg r = ⟨.single, b, k⟩) →
      SameOK fs0 b k (runSeq cfg s order) ∧
      ∀ r, ((∃ res, (s.loc r).pc = .done 0 res ∧ res ≠ .failed) ∨ r ∈ order) →
        ∃ res, ((runSeq cfg s order).loc r).pc = .done 0 res ∧ res ≠ .failed := by
  induction order with
  | nil => intro s h _; exact ⟨h, fun r hr => by simpa [runSeq] using hr⟩
  | cons a rest ih =>
    intro s h hc
    obtain ⟨h1, ⟨res1, hpc1, hres1⟩, _⟩ := same_step h a (hc a (by simp))
    obtain ⟨h2, hall⟩ := ih _ h1 (fun r hr => hc r (by simp [hr]))
    refine ⟨h2, fun r hr => ?_⟩
    apply hall
    by_cases hra : r = a
    · subst hra; exact Or.inl ⟨res1, hpc1, hres1⟩
    · rcases hr with ⟨res, hres⟩ | hmem
      · left; rw [runToEnd_loc_ne cfg s 6 hra]; exact ⟨res, hres⟩
      · right; simpa [hra] using hmem

/-- next local state for the run-local steps -/
def localNext (c : Cfg) (l : Local) : Local :=
  match l.pc with
  | .rename i fd => { l with pc := .render i fd, tag := some i }
  | .render i fd => { l with pc := if fd then .write i else .readback i, code := some ⟨c.kern, c.base, l.tag⟩ }
  | .close i => { l with pc := .done i .wrote }
  | .compare i got => { l with pc := .done i (if got = l.code then .reused else .failed) }
  | _ => l

theorem step_local (cfg : RunId → Cfg) (s : State) (r : RunId) (hl : (s.loc r).pc.isLocal = true) :
    step cfg s r = s.setLoc r (localNext (cfg r) (s.loc r)) := by
  unfold step localNext
  simp only []
  split <;> rename_i hpc <;> simp [hpc, PC.isLocal] at hl ⊢

theorem setLoc_comm (s : State) {r r' : RunId} (l l' : Local) (h : r ≠ r') :
    (s.setLoc r l).setLoc r' l' = (s.setLoc r' l').setLoc r l := by
  simp only [State.setLoc]
  congr 1
  funext x
  by_cases h1 : x = r <;> by_cases h2 : x = r' <;> simp [h1, h2] <;>
    (intro e; first | exact absurd e h | exact absurd e.symm h)

theorem step_setLoc_other (cfg : RunId → Cfg) (s : State) {r r' : RunId} (l : Local) (h : r ≠ r') :
    step cfg (s.setLoc r l) r' = (step cfg s r').setLoc r l := by
  have hne : r' ≠ r := fun e => h e.symm
  unfold step
  simp only [setLoc_loc_ne _ _ hne, setLoc_fs]
  split <;> (try split) <;>
    first
    | rfl
    | exact setLoc_comm _ _ _ h
    | (simp only [State.setFile, State.setLoc]; congr 1; funext x
       by_cases h1 : x = r <;> by_cases h2 : x = r' <;> simp [h1, h2] <;>
         (intro e; first | exact absurd e h | exact absurd e.symm h))

/-! ## The property -/

/-- **'multiple' scheme, any number of runs, any interleaving, any initial directory.**
(a) files that existed before are never modified; (b) every finished run of the 'multiple' scheme has
written a file that did not exist before, that it created itself, that nobody else wrote, whose
module/routine names carry exactly the suffix of the file name and whose body is the run's own kernel,
and the names used by its PSy layer (`tag`) carry the same suffix; (c) two different runs never end up with
the same file; (d) every file is either an untouched old one or was created by exactly one run, which is the
only possible writer. -/
theorem C29_multiple_fresh (cfg : RunId → Cfg) (fs0 : FS) (sched : List RunId) :
    (∀ nm f, fs0 nm = some f → (run cfg (init fs0) sched).fs nm = some f) ∧
    (∀ r i res, (cfg r).mode = .multiple → ((run cfg (init fs0) sched).loc r).pc = .done i res →
      res = .wrote ∧ fs0 ⟨(cfg r).base, i⟩ = none ∧ ((run cfg (init fs0) sched).loc r).tag = some i ∧
      ∃ f, (run cfg (init fs0) sched).fs ⟨(cfg r).base, i⟩ = some f ∧
        f.data = some ⟨(cfg r).kern, (cfg r).base, some i⟩ ∧ f.owner = some r ∧ f.writers = [r]) ∧
    (∀ r₁ r₂ i₁ i₂, r₁ ≠ r₂ → ((run cfg (init fs0) sched).loc r₁).pc = .done i₁ .wrote →
      ((run cfg (init fs0) sched).loc r₂).pc = .done i₂ .wrote →
      (⟨(cfg r₁).base, i₁⟩ : Name) ≠ ⟨(cfg r₂).base, i₂⟩) ∧
    (∀ nm f, (run cfg (init fs0) sched).fs nm = some f →
      fs0 nm = some f ∨ (fs0 nm = none ∧ ∃ r, f.owner = some r ∧ nm.base = (cfg r).base ∧
        (f.writers = [] ∨ f.writers = [r]))) := by
  have hI := run_inv sched (init_inv cfg fs0)
  generalize run cfg (init fs0) sched = s at hI
  refine ⟨hI.pre, ?_, ?_, ?_⟩
  · intro r i res hm hpc
    have hr := hI.runs r
    unfold RunOK at hr
    cases res <;> simp [hpc] at hr
    · obtain ⟨ht, h0, _, f, hf, hown, hd, hw⟩ := hr
      exact ⟨rfl, h0, ht, f, hf, hd, hown, hw⟩
    · have := hr.2.1.1; rw [hm] at this; cases this
    · have := hr.2.1; rw [hm] at this; cases this
  · intro r₁ r₂ i₁ i₂ hne h1 h2 heq
    have hr1 := hI.runs r₁
    have hr2 := hI.runs r₂
    unfold RunOK at hr1 hr2
    simp [h1] at hr1
    simp [h2] at hr2
    obtain ⟨_, _, _, f1, hf1, ho1, _⟩ := hr1
    obtain ⟨_, _, _, f2, hf2, ho2, _⟩ := hr2
    rw [heq, hf2] at hf1
    cases hf1
    rw [ho2] at ho1
    exact hne (Option.some.inj ho1).symm
  · intro nm f hf
    cases h0 : fs0 nm with
    | some f0 => left; rw [hI.pre nm f0 h0] at hf; exact hf
    | none =>
      right
      obtain ⟨r, ho, hb, hh⟩ := hI.fresh nm f hf h0
      obtain ⟨w, _, _, f', hf', _, hw⟩ := owns_of_held hh (hI.runs r)
      have : (⟨(cfg r).base, nm.idx⟩ : Name) = nm := by cases nm; simp_all
      rw [this, hf] at hf'
      cases hf'
      refine ⟨rfl, r, ho, hb, ?_⟩
      cases w <;> simp at hw
      · exact Or.inl hw.2
      · exact Or.inr hw.2

/-- non-vacuity / sanity: three runs of the same kernel module, fully interleaved. -/
example :
    let s := run (cfgOf [⟨.multiple, 1, 5⟩, ⟨.multiple, 1, 6⟩, ⟨.multiple, 1, 5⟩]) (init emptyFS)
      [0, 1, 2, 1, 2, 2, 0, 0, 1, 1, 2, 2, 2, 1, 0, 0, 1, 2]
    (s.loc 0).pc = .done 0 .wrote ∧ (s.loc 1).pc = .done 1 .wrote ∧ (s.loc 2).pc = .done 2 .wrote ∧
    (s.fs ⟨1, 1⟩).bind (·.data) = some ⟨6, 1, some 1⟩ ∧ (s.fs ⟨1, 2⟩).map (·.writers) = some [2] := by
  decide

/-- A step of an unfinished run always advances its program counter (no run is ever stuck). -/
theorem C29_progress (cfg : RunId → Cfg) (s : State) (r : RunId) (h : (s.loc r).pc.isDone = false) :
    ((step cfg s r).loc r).pc ≠ (s.loc r).pc := by
  unfold step
  simp only []
  split <;> rename_i hpc
  · split <;> (try split) <;> simp [hpc]
  · simp [hpc]
  · split <;> simp [hpc]
  · split <;> simp [hpc]
  · simp [hpc]
  · simp [hpc]
  · simp [hpc]
  · simp [hpc, PC.isDone] at h

/-- **'single' scheme, safety for all interleavings**: a finished run that did not fail carries the suffix
of a file that holds exactly its own transformed kernel (so it never silently uses another version). -/
theorem C29_single_safe (cfg : RunId → Cfg) (fs0 : FS) (sched : List RunId) (r : RunId) (i : Nat) (res : Res)
    (hpc : ((run cfg (init fs0) sched).loc r).pc = .done i res) (hres : res ≠ .failed) :
    ((run cfg (init fs0) sched).loc r).tag = some i ∧ ((cfg r).mode = .single → i = 0) ∧
    ∃ f, (run cfg (init fs0) sched).fs ⟨(cfg r).base, i⟩ = some f ∧ f.data = some (rendered (cfg r) i) := by
  have hI := run_inv sched (init_inv cfg fs0)
  have h := done_ok_file hpc hres (hI.runs r)
  exact ⟨h.1, fun hm => done_single_idx hpc hm (hI.runs r), h.2⟩

/-- **'single' scheme**: of two finished runs with the same kernel module but different transformed
kernels at least one fails — for every interleaving. -/
theorem C29_single_differs_fails (cfg : RunId → Cfg) (fs0 : FS) (sched : List RunId)
    (r₁ r₂ : RunId) (i₁ i₂ : Nat) (res₁ res₂ : Res)
    (hm₁ : (cfg r₁).mode = .single) (hm₂ : (cfg r₂).mode = .single)
    (hb : (cfg r₁).base = (cfg r₂).base) (hk : (cfg r₁).kern ≠ (cfg r₂).kern)
    (h₁ : ((run cfg (init fs0) sched).loc r₁).pc = .done i₁ res₁)
    (h₂ : ((run cfg (init fs0) sched).loc r₂).pc = .done i₂ res₂) :
    res₁ = .failed ∨ res₂ = .failed := by
  by_cases hf1 : res₁ = .failed
  · exact Or.inl hf1
  by_cases hf2 : res₂ = .failed
  · exact Or.inr hf2
  exfalso
  obtain ⟨_, hi1, f1, hfs1, hd1⟩ := C29_single_safe cfg fs0 sched r₁ i₁ res₁ h₁ hf1
  obtain ⟨_, hi2, f2, hfs2, hd2⟩ := C29_single_safe cfg fs0 sched r₂ i₂ res₂ h₂ hf2
  have e1 := hi1 hm₁
  have e2 := hi2 hm₂
  subst e1 e2
  rw [hb, hfs2] at hfs1
  cases hfs1
  rw [hd2] at hd1
  simp [rendered] at hd1
  exact hk hd1.1.symm

/-- non-vacuity of `C29_single_differs_fails`: two different kernels, interleaved; run 1 fails. -/
example :
    let s := run (cfgOf [⟨.single, 1, 5⟩, ⟨.single, 1, 6⟩]) (init emptyFS) [0, 1, 0, 0, 0, 0, 1, 1, 1, 1]
    (s.loc 0).pc = .done 0 .wrote ∧ (s.loc 1).pc = .done 0 .failed := by decide

/-- The full 'single' clause: a finished run fails exactly when the shared file does not hold its kernel
(so runs with identical kernels share the file, and a run whose kernel differs fails). -/
def C29_single_statement : Prop :=
  ∀ (cfg : RunId → Cfg) (fs0 : FS) (sched : List RunId), (∀ r, (cfg r).mode = .single) →
    ∀ r i res, ((run cfg (init fs0) sched).loc r).pc = .done i res →
      (res ≠ .failed ↔
        ∃ f, (run cfg (init fs0) sched).fs ⟨(cfg r).base, 0⟩ = some f ∧ f.data = some (rendered (cfg r) 0))

/-- The defect of the pinned code: run 0 creates `<base>_0_mod.f90`; run 1 (identical kernel) fails to
create it, reads the still empty file and raises GenerationError; run 0 then writes the very kernel run 1
wanted. -/
theorem C29_single_concurrent_counterexample : ¬ C29_single_statement := by
  intro h
  have h1 := h (fun _ => ⟨.single, 1, 5⟩) emptyFS [0, 1, 1, 1, 1, 1, 0, 0, 0, 0] (fun _ => rfl)
    1 0 .failed (by decide)
  exact h1.mpr ⟨⟨some ⟨5, 1, some 0⟩, some 0, [0]⟩, by decide, rfl⟩ rfl

/-- **Partial result proved instead of `C29_single_statement`** (side condition: the schedule is
sequential, i.e. `seqSchedule order` — every run finishes before the next one starts; the order, the number
of runs, repetitions in the order and the initial directory are arbitrary): every listed run finishes, and a
finished run fails exactly when the shared file does not hold its kernel. -/
theorem C29_single_sequential_partial (cfg : RunId → Cfg) (fs0 : FS) (order : List RunId)
    (hs : ∀ r, (cfg r).mode = .single) :
    (∀ r ∈ order, ∃ res, ((run cfg (init fs0) (seqSchedule order)).loc r).pc = .done 0 res) ∧
    ∀ r i res, ((run cfg (init fs0) (seqSchedule order)).loc r).pc = .done i res →
      (res ≠ .failed ↔ ∃ f, (run cfg (init fs0) (seqSchedule order)).fs ⟨(cfg r).base, 0⟩ = some f ∧
        f.data = some (rendered (cfg r) 0)) := by
  rw [runSeq_eq_run]
  have h0 : SeqOK cfg (init fs0) := fun r => Or.inl rfl
  obtain ⟨h, hall⟩ := seq_all hs order _ h0
  refine ⟨fun r hr => hall r (Or.inr hr), fun r i res hpc => ?_⟩
  rcases h r with h' | ⟨res', hpc', _, hiff⟩
  · rw [h'] at hpc; cases hpc
  · rw [hpc'] at hpc; cases hpc; exact hiff

/-- the side condition is satisfiable and the conclusion non-trivial: run 1 differs and fails, run 2 shares. -/
example :
    let s := run (fun r => if r = 1 then ⟨.single, 1, 6⟩ else ⟨.single, 1, 5⟩) (init emptyFS) (seqSchedule [0, 1, 2])
    (s.loc 0).pc = .done 0 .wrote ∧ (s.loc 1).pc = .done 0 .failed ∧ (s.loc 2).pc = .done 0 .reused := by
  decide

/-- **'single' scheme, sequential runs with identical kernels share one file**: if all listed runs output
the same transformed kernel `k` of module `b` and `<b>_0_mod.f90` does not exist beforehand, then after running
them one after the other (any order, any number) every one of them succeeded, `<b>_0_mod.f90` holds that
kernel and was written exactly once, and no other file was created or changed. -/
theorem C29_single_same_kernel_sequential (cfg : RunId → Cfg) (fs0 : FS) (order : List RunId) (b k : Nat)
    (hc : ∀ r ∈ order, cfg r = ⟨.single, b, k⟩) (h0 : fs0 ⟨b, 0⟩ = none) :
    (∀ r ∈ order, ∃ res, ((run cfg (init fs0) (seqSchedule order)).loc r).pc = .done 0 res ∧ res ≠ .failed) ∧
    (order ≠ [] → ∃ f, (run cfg (init fs0) (seqSchedule order)).fs ⟨b, 0⟩ = some f ∧
      f.data = some ⟨k, b, some 0⟩ ∧ f.writers.length = 1) ∧
    (∀ nm, nm ≠ (⟨b, 0⟩ : Name) → (run cfg (init fs0) (seqSchedule order)).fs nm = fs0 nm) := by
  rw [runSeq_eq_run]
  have hinit : SameOK fs0 b k (init fs0) := ⟨fun r => Or.inl rfl, fun _ _ => rfl, Or.inl h0⟩
  obtain ⟨⟨h1, h2, h3⟩, hall⟩ := same_all order _ hinit hc
  refine ⟨fun r hr => hall r (Or.inr hr), fun hne => ?_, h2⟩
  rcases h3 with hnone | h3
  · exfalso
    cases order with
    | nil => exact hne rfl
    | cons a rest =>
      obtain ⟨res, hpc, _⟩ := hall a (Or.inr (by simp))
      rcases h1 a with h' | ⟨_, _, _, hex⟩
      · rw [h'] at hpc; cases hpc
      · exact hex hnone
  · exact h3

example :
    let s := run (fun _ => ⟨.single, 1, 5⟩) (init emptyFS) (seqSchedule [2, 0, 1])
    (s.loc 2).pc = .done 0 .wrote ∧ (s.loc 0).pc = .done 0 .reused ∧ (s.loc 1).pc = .done 0 .reused ∧
    (s.fs ⟨1, 0⟩).map (·.writers) = some [2] := by decide

/-- A sequential HISTORY with a per-run scheme (`cfg r .mode` is the scheme run `r` REQUESTED): 'single' A,
'multiple' A, 'multiple' B, 'single' A, 'single' B.  The 'multiple' runs are covered by `C29_multiple_fresh`, the
'single' ones by `C29_single_safe` (both hold for every mix of schemes); this instance is the one the harness
replays through `psyclone.generator.generate`.  That the scheme (and output directory, API) a real run USES is
the one it requested - Config is a process-wide singleton - is NOT a Lean theorem: it is established by the
end-to-end history family of the harness (harness/props/c29_hist.py). -/
example :
    let s := run (cfgOf [⟨.single, 1, 1⟩, ⟨.multiple, 1, 1⟩, ⟨.multiple, 1, 2⟩, ⟨.single, 1, 1⟩, ⟨.single, 1, 2⟩])
      (init emptyFS) ([0, 1, 2, 3, 4].flatMap (List.replicate 8))
    (s.loc 0).pc = .done 0 .wrote ∧ (s.loc 1).pc = .done 1 .wrote ∧ (s.loc 2).pc = .done 2 .wrote ∧
    (s.loc 3).pc = .done 0 .reused ∧ (s.loc 4).pc = .done 0 .failed := by decide

/-- Run-local steps commute with the steps of every other run: the reduced enumeration of interleavings
(local steps glued to the preceding file-system step) reaches the same states as the full one. -/
theorem C29_local_commutes (cfg : RunId → Cfg) (s : State) (r r' : RunId) (hne : r ≠ r')
    (hl : (s.loc r).pc.isLocal = true) :
    step cfg (step cfg s r) r' = step cfg (step cfg s r') r := by
  have hl' : ((step cfg s r').loc r).pc.isLocal = true := by rw [step_loc_ne cfg s hne]; exact hl
  rw [step_local cfg s r hl, step_local cfg _ r hl', step_loc_ne cfg s hne, step_setLoc_other cfg s _ hne]

end C29
