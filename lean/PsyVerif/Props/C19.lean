import PsyVerif.Lemmas.ADSec
import PsyVerif.Lemmas.ADRun
/-! # C19 — PSyAD adjoints are the exact transpose of the tangent-linear code

Model: `PsyVerif/Model/AD.lean`.  Statements: linear assignments, sequences, DO loops with any
passive bounds/step, IF on passive data, assignments to passive scalars (`passign`) and
array-section assignments that stay in array notation (`sec`, RHS evaluated first).
`adjoint` = `AdjointVisitor.schedule_node/loop_node/ifblock_node` (passive children of a schedule
hoisted in front of the reversed adjoints of the active ones) + `AssignmentTrans.apply` (element
and array notation).  The three fixes found by this check (sign of the first deferred increment,
parenthesised loop offset, harness for non-real arguments) are in `/repo`; the model follows the
fixed code, `adjAssignPinned` keeps the old first one for a witness.

What is proved
* `C19_transpose_partial`: for every program and passive store with `safe p ρ` (decidable) the
  emitted adjoint is the transpose w.r.t. `sem` — assignments with aliasing inside a statement,
  section assignments accepted by `_array_ranges_match`, loops with any start/stop/step, IF,
  hoisted passive statements.
* `C19_accepted_safe_static` / `C19_accepted_transpose`: `Accepted A p` (PSyAD's refusals inside
  the statement language) plus the syntactic exclusion of the known-finding classes
  (`staticallySafe`) give `safe` for every passive store.
* `sem` is the reading with a read-only passive store.  `run` is the Fortran reading (passive
  assignments, DO variable kept after the loop); `C19_run_eq_sem` shows they agree on programs
  without passive assignments whose loop variables are read only inside their loops, and
  `C19_transpose_run` transfers the theorem.
* The full statement `C19_statement` is false of the code as it is: four defect classes have
  kernel-checked witnesses — zero-trip loop with a non-unit step and hidden alias (inside `sem`),
  passive variable re-assigned between active statements and loop variable read after its loop
  (need `run`; the hoisting of `schedule_node` is what breaks them). -/
namespace C19
open MiniF

/-- `S` contains every active location the program reads or writes under `ρ` -/
def Closed (S : Finset Loc) : Stmt → Store → Prop
  | .skip, _ => True
  | .seq a b, ρ => Closed S a ρ ∧ Closed S b ρ
  | .assign l ts, ρ => l.loc ρ ∈ S ∧ ∀ t ∈ ts, t.ref.loc ρ ∈ S
  | .ite c t f, ρ => if eval c ρ ≠ 0 then Closed S t ρ else Closed S f ρ
  | .loop v lo hi st b, ρ =>
      ∀ i ∈ iters (eval lo ρ) (eval hi ρ) (eval st ρ), Closed S b (ρ.set (v, 0, 0) i)
  | .passign _ _, _ => True
  | .sec ev cnt l ts, ρ =>
      ∀ e ∈ secIdx (eval cnt ρ), l.loc (ρ.set (ev, 0, 0) e) ∈ S ∧ ∀ t ∈ ts, t.ref.loc (ρ.set (ev, 0, 0) e) ∈ S

theorem closed_iff_touched (S : Finset Loc) (p : Stmt) (ρ : Store) :
    Closed S p ρ ↔ ∀ l ∈ touched p ρ, l ∈ S := by
  induction p generalizing ρ with
  | skip => simp [Closed, touched]
  | seq a b iha ihb =>
    simp only [Closed, touched, List.mem_append, iha, ihb]
    constructor
    · rintro ⟨h1, h2⟩ l (h | h)
      · exact h1 l h
      · exact h2 l h
    · intro h; exact ⟨fun l hl => h l (Or.inl hl), fun l hl => h l (Or.inr hl)⟩
  | assign lhs ts =>
    simp only [Closed, touched, List.mem_cons, List.mem_map]
    constructor
    · rintro ⟨h1, h2⟩ l (h | ⟨t, ht, rfl⟩)
      · rw [h]; exact h1
      · exact h2 t ht
    · intro h; exact ⟨h _ (Or.inl rfl), fun t ht => h _ (Or.inr ⟨t, ht, rfl⟩)⟩
  | ite c t f iht ihf =>
    simp only [Closed, touched]
    split
    · exact iht ρ
    · exact ihf ρ
  | loop v lo hi st b ih =>
    simp only [Closed, touched, List.mem_flatMap]
    constructor
    · rintro h l ⟨i, hi', hl⟩
      exact (ih _).mp (h i hi') l hl
    · intro h i hi'
      exact (ih _).mpr (fun l hl => h l ⟨i, hi', hl⟩)
  | passign x e => simp [Closed, touched]
  | sec ev cnt lhs ts =>
    simp only [Closed, touched, List.mem_flatMap, List.mem_cons, List.mem_map]
    constructor
    · rintro h l ⟨e, he, (hl | ⟨t, ht, rfl⟩)⟩
      · rw [hl]; exact (h e he).1
      · exact (h e he).2 t ht
    · intro h e he
      exact ⟨h _ ⟨e, he, Or.inl rfl⟩, fun t ht => h _ ⟨e, he, Or.inr ⟨t, ht, rfl⟩⟩⟩

theorem eval_negate (e : Expr) (ρ : Store) : eval (negate e) ρ = -(eval e ρ) := by
  unfold negate
  split
  · next n => split <;> simp [eval, evalUn]
  · simp [eval, evalUn]
  · simp [eval, evalBin]

theorem isUnitLit_eval {st : Expr} (h : isUnitLit st = true) (ρ : Store) : eval st ρ = 1 ∨ eval st ρ = -1 := by
  cases st <;> simp_all [isUnitLit, eval]

/-- the iteration values of the reversed loop, as the code builds its bounds -/
theorem adjoint_loop_iters (lo hi st : Expr) (ρ : Store)
    (h : (isUnitLit st || !spurious (eval lo ρ) (eval hi ρ) (eval st ρ)) = true) :
    iters (eval (revStart lo hi st) ρ) (eval lo ρ) (eval (negate st) ρ) =
      (iters (eval lo ρ) (eval hi ρ) (eval st ρ)).reverse := by
  rw [eval_negate]
  unfold revStart
  by_cases hu : isUnitLit st = true
  · rw [if_pos hu]
    exact iters_rev_unit _ _ _ (isUnitLit_eval hu ρ)
  · rw [if_neg hu]
    have hsp : spurious (eval lo ρ) (eval hi ρ) (eval st ρ) = false := by
      simp only [Bool.or_eq_true, Bool.not_eq_true'] at h
      rcases h with h | h
      · exact absurd h hu
      · exact h
    simp only [eval, evalBin]
    exact iters_rev _ _ _ hsp

theorem foldl_id {α : Type} (L : List α) (f : α → Store → Store) (h : ∀ i a, f i a = a) (a : Store) :
    L.foldl (fun a i => f i a) a = a := by
  induction L generalizing a with
  | nil => rfl
  | cons i L ih => rw [List.foldl_cons, h]; exact ih a

/-- passive statements do not touch the active state -/
theorem sem_passive (s : Stmt) (h : isPassive s = true) : ∀ ρ a, sem s ρ a = a := by
  induction s with
  | skip => intro ρ a; rfl
  | seq p q ihp ihq =>
    intro ρ a
    simp only [isPassive, Bool.and_eq_true] at h
    simp only [sem, ihp h.1, ihq h.2]
  | assign l ts => simp [isPassive] at h
  | ite c t f iht ihf =>
    intro ρ a
    simp only [isPassive, Bool.and_eq_true] at h
    simp only [sem]; split
    · exact iht h.1 ρ a
    · exact ihf h.2 ρ a
  | loop v lo hi st b ih =>
    intro ρ a
    simp only [isPassive] at h
    simp only [sem]
    exact foldl_id _ (fun i a => sem b (ρ.set (v, 0, 0) i) a) (fun i a => ih h _ a) a
  | passign x e => intro ρ a; rfl
  | sec ev cnt l ts => simp [isPassive] at h

theorem sem_pas (p : Stmt) : ∀ ρ a, sem (pas p) ρ a = a := by
  induction p with
  | skip => intro ρ a; rfl
  | seq p q ihp ihq => intro ρ a; simp only [pas, sem, ihp, ihq]
  | assign l ts => intro ρ a; simp [pas, isPassive, sem]
  | ite c t f _ _ =>
    intro ρ a
    unfold pas
    split
    · next h => exact sem_passive _ h ρ a
    · rfl
  | loop v lo hi st b _ =>
    intro ρ a
    unfold pas
    split
    · next h => exact sem_passive _ h ρ a
    · rfl
  | passign x e => intro ρ a; simp [pas, isPassive, sem]
  | sec ev cnt l ts => intro ρ a; simp [pas, isPassive, sem]

/-- core of the proof: structural induction over the program, for the active part of a schedule -/
theorem isAdj_act (S : Finset Loc) (p : Stmt) :
    ∀ ρ, safe p ρ = true → Closed S p ρ → IsAdj S (sem p ρ) (sem (act p) ρ) := by
  induction p with
  | skip => intro ρ _ _; exact IsAdj.id
  | seq a b iha ihb =>
    intro ρ hs hc
    simp only [safe, Bool.and_eq_true] at hs
    have e1 : sem (.seq a b) ρ = fun x => sem b ρ (sem a ρ x) := by funext x; simp only [sem]
    have e2 : sem (act (.seq a b)) ρ = fun y => sem (act a) ρ (sem (act b) ρ y) := by
      funext y; simp only [act, sem]
    rw [e1, e2]
    exact IsAdj.comp (iha ρ hs.1 hc.1) (ihb ρ hs.2 hc.2)
  | assign lhs ts =>
    intro ρ hs hc
    exact isAdj_assign lhs ts ρ hs hc.1 hc.2
  | ite c t f iht ihf =>
    intro ρ hs hc
    by_cases hp : (isPassive t && isPassive f) = true
    · have e1 : sem (.ite c t f) ρ = fun a => a := by
        funext a; exact sem_passive (.ite c t f) (by simpa [isPassive] using hp) ρ a
      have e2 : sem (act (.ite c t f)) ρ = fun a => a := by funext a; simp [act, hp, sem]
      rw [e1, e2]; exact IsAdj.id
    · simp only [safe, Closed] at hs hc
      by_cases h : eval c ρ ≠ 0
      · rw [if_pos h] at hs hc
        have e1 : sem (.ite c t f) ρ = sem t ρ := by funext a; simp [sem, h]
        have e2 : sem (act (.ite c t f)) ρ = sem (act t) ρ := by
          funext a; simp only [act, hp, Bool.false_eq_true, if_false, sem, h, ne_eq, not_false_eq_true, if_true, sem_pas]
        rw [e1, e2]; exact iht ρ hs hc
      · rw [if_neg h] at hs hc
        have e1 : sem (.ite c t f) ρ = sem f ρ := by funext a; simp only [sem, h, if_false]
        have e2 : sem (act (.ite c t f)) ρ = sem (act f) ρ := by
          funext a; simp only [act, hp, Bool.false_eq_true, if_false, sem, h, sem_pas]
        rw [e1, e2]; exact ihf ρ hs hc
  | loop v lo hi st b ih =>
    intro ρ hs hc
    by_cases hp : isPassive b = true
    · have e1 : sem (.loop v lo hi st b) ρ = fun a => a := by
        funext a; exact sem_passive (.loop v lo hi st b) (by simpa [isPassive] using hp) ρ a
      have e2 : sem (act (.loop v lo hi st b)) ρ = fun a => a := by funext a; simp [act, hp, sem]
      rw [e1, e2]; exact IsAdj.id
    · simp only [safe, Bool.and_eq_true, List.all_eq_true] at hs
      have hit := adjoint_loop_iters lo hi st ρ hs.1
      have e2 : sem (act (.loop v lo hi st b)) ρ = fun a =>
          (iters (eval lo ρ) (eval hi ρ) (eval st ρ)).reverse.foldl
            (fun a i => sem (act b) (ρ.set (v, 0, 0) i) a) a := by
        funext a; simp only [act, hp, Bool.false_eq_true, if_false, sem, hit, sem_pas]
      rw [e2]
      exact IsAdj.foldl (fun i => sem b (ρ.set (v, 0, 0) i)) (fun i => sem (act b) (ρ.set (v, 0, 0) i)) _
        (fun i hi' => ih _ (hs.2 i hi') (hc i hi'))
  | passign x e => intro ρ _ _; exact IsAdj.id
  | sec ev cnt lhs ts =>
    intro ρ hs hc
    simp only [safe, Bool.and_eq_true] at hs
    exact isAdj_sec ev cnt lhs ts ρ hs.1 hs.2 hc

theorem sem_adjoint (p : Stmt) (ρ : Store) : sem (adjoint p) ρ = sem (act p) ρ := by
  funext y; simp only [adjoint, sem, sem_pas]

/-! ### `Accepted` and the static conditions -/

/-- an expression that does not mention `ev` does not see the element counter -/
theorem eval_counter_irrelevant {e : Expr} {ev : Nat} (h : ev ∉ exprVars e) (ρ : Store) (n : Int) :
    eval e (ρ.set (ev, 0, 0) n) = eval e ρ := by
  apply eval_congr (V := fun x => x ≠ ev)
  · intro x hx hxe; rw [← exprVars_eq_evars] at hx; exact h (hxe ▸ hx)
  · intro x hx i j
    exact Store.set_other _ _ (fun hc => hx (congrArg Prod.fst hc))

theorem affine_eval {ev : Nat} {s : Expr} (h : affineIn ev s = true) (ρ : Store) :
    ∃ c st : Int, st ≠ 0 ∧ ∀ n, eval s (ρ.set (ev, 0, 0) n) = c + n * st := by
  unfold affineIn at h
  split at h
  · next lo x st =>
    simp only [Bool.and_eq_true, beq_iff_eq, bne_iff_ne, ne_eq, Bool.not_eq_true', List.contains_eq_mem,
      decide_eq_false_iff_not] at h
    obtain ⟨⟨hx, hst⟩, hlo⟩ := h
    refine ⟨eval lo ρ, st, hst, fun n => ?_⟩
    subst hx
    simp only [eval, evalBin, eval_counter_irrelevant hlo, Store.set_same]
  · simp at h

theorem iterVals_ge (lo : Int) (n : Nat) : ∀ x ∈ iterVals lo 1 n, lo ≤ x := by
  induction n generalizing lo with
  | zero => simp [iterVals]
  | succ n ih =>
    intro x hx
    simp only [iterVals, List.mem_cons] at hx
    rcases hx with h | h
    · omega
    · have := ih _ x h; omega

theorem secIdx_nodup (n : Int) : (secIdx n).Nodup := by
  unfold secIdx
  generalize n.toNat = k
  generalize (0 : Int) = lo
  induction k generalizing lo with
  | zero => simp [iterVals]
  | succ k ih =>
    simp only [iterVals, List.nodup_cons]
    exact ⟨fun h => by have := iterVals_ge _ _ _ h; omega, ih _⟩

theorem secLocs_nodup_of_static (ev : Nat) (cnt : Expr) (r : ARef) (ρ : Store) (h : refInjStatic ev r = true) :
    (secLocs ev cnt r ρ).Nodup := by
  unfold secLocs
  apply List.Nodup.map_on _ (secIdx_nodup _)
  intro e _ e' _ hee
  simp only [ARef.loc, Prod.mk.injEq, true_and] at hee
  simp only [refInjStatic, Bool.or_eq_true] at h
  rcases h with h | h
  · obtain ⟨c, st, hst, hv⟩ := affine_eval h ρ
    have := hee.1
    rw [hv e, hv e'] at this
    have h2 : e * st = e' * st := by omega
    exact Int.eq_of_mul_eq_mul_right hst h2
  · obtain ⟨c, st, hst, hv⟩ := affine_eval h ρ
    have := hee.2
    rw [hv e, hv e'] at this
    have h2 : e * st = e' * st := by omega
    exact Int.eq_of_mul_eq_mul_right hst h2

theorem safe_of_staticallySafe (p : Stmt) (h : staticallySafe p = true) : ∀ ρ, safe p ρ = true := by
  induction p with
  | skip => intro ρ; rfl
  | seq a b iha ihb =>
    intro ρ; simp only [staticallySafe, Bool.and_eq_true] at h
    simp [safe, iha h.1 ρ, ihb h.2 ρ]
  | assign l ts =>
    intro ρ
    simp only [staticallySafe, List.all_eq_true] at h
    simp only [safe, noHiddenAlias, List.all_eq_true]
    intro t ht
    have := h t ht
    simp only [Bool.or_eq_true, beq_iff_eq, bne_iff_ne] at this ⊢
    rcases this with h1 | h1
    · exact Or.inl h1
    · right
      exact decide_eq_true (fun hc => h1 (congrArg Prod.fst hc))
  | ite c t f iht ihf =>
    intro ρ; simp only [staticallySafe, Bool.and_eq_true] at h
    simp only [safe]; split
    · exact iht h.1 ρ
    · exact ihf h.2 ρ
  | loop v lo hi st b ih =>
    intro ρ; simp only [staticallySafe, Bool.and_eq_true] at h
    simp only [safe, h.1, Bool.true_or, Bool.true_and, List.all_eq_true]
    intro i _; exact ih h.2 _
  | passign x e => intro ρ; rfl
  | sec ev cnt l ts =>
    intro ρ
    simp only [staticallySafe, Bool.and_eq_true, List.all_eq_true] at h
    simp only [safe, secInj, Bool.and_eq_true, decide_eq_true_eq, List.all_eq_true]
    exact ⟨h.1.1, secLocs_nodup_of_static ev cnt l ρ h.1.2, fun t ht => secLocs_nodup_of_static ev cnt t.ref ρ (h.2 t ht)⟩

/-! ## The property -/

/-- The full statement: for every program of the statement language, every passive store and
every finite set of locations containing what the TL code and its adjoint touch, the generated
adjoint is the transpose (Fortran reading `run`). -/
def C19_statement : Prop :=
  ∀ (p : Stmt) (ρ : Store) (S : Finset Loc), (∀ l ∈ touched p ρ, l ∈ S) → (∀ l ∈ touched (adjoint p) ρ, l ∈ S) →
    ∀ x y, ip S (sem p ρ x) y = ip S x (sem (adjoint p) ρ y)

/-- **Transpose theorem** (all statement forms): whenever the execution meets neither a hidden
alias nor a spurious reversed loop and its section statements are accepted and conformable
(`safe`, decidable), `⟪⟦p⟧ x, y⟫ = ⟪x, ⟦adjoint p⟧ y⟫` for all active states. -/
theorem C19_transpose_partial (p : Stmt) (ρ : Store) (S : Finset Loc)
    (hsafe : safe p ρ = true) (hS : ∀ l ∈ touched p ρ, l ∈ S) :
    ∀ x y, ip S (sem p ρ x) y = ip S x (sem (adjoint p) ρ y) := by
  rw [sem_adjoint]
  exact isAdj_act S p ρ hsafe ((closed_iff_touched S p ρ).mpr hS)

/-- the inner product may be taken over exactly the touched locations -/
theorem C19_transpose_touched (p : Stmt) (ρ : Store) (hsafe : safe p ρ = true) :
    ∀ x y, ip (touched p ρ).toFinset (sem p ρ x) y = ip (touched p ρ).toFinset x (sem (adjoint p) ρ y) :=
  C19_transpose_partial p ρ _ hsafe (fun _ hl => List.mem_toFinset.mpr hl)

/-- routine level: local active variables are zeroed before the adjoint runs, i.e. the adjoint of
the TL routine followed by "forget the locals" -/
theorem C19_transpose_routine (locals : List Nat) (p : Stmt) (ρ : Store) (S : Finset Loc)
    (hsafe : safe p ρ = true) (hS : ∀ l ∈ touched p ρ, l ∈ S) (x y : Store) :
    ip S (sem p ρ x) (sem (seqs (locals.map fun v => .assign ⟨v, .lit 0, .lit 0⟩ [])) ρ y) =
      ip S x (sem (adjointRoutine locals p) ρ y) := by
  simp only [adjointRoutine, sem]
  exact C19_transpose_partial p ρ S hsafe hS x _

/-- **Accepted programs outside the known-finding classes are safe under every passive store.**
`Accepted` contributes the array-notation acceptance rule; `staticallySafe` excludes, syntactically,
non-unit loop steps, a second reference to the LHS array and non-affine section subscripts. -/
theorem C19_accepted_safe_static (A : List Nat) (p : Stmt) (_hacc : Accepted A p = true)
    (h : staticallySafe p = true) : ∀ ρ, safe p ρ = true := safe_of_staticallySafe p h

theorem C19_accepted_transpose (A : List Nat) (p : Stmt) (hacc : Accepted A p = true) (h : staticallySafe p = true)
    (ρ : Store) (S : Finset Loc) (hS : ∀ l ∈ touched p ρ, l ∈ S) :
    ∀ x y, ip S (sem p ρ x) y = ip S x (sem (adjoint p) ρ y) :=
  C19_transpose_partial p ρ S (C19_accepted_safe_static A p hacc h ρ) hS

/-- the array-notation acceptance rule is part of `Accepted` -/
theorem C19_accepted_sections (A : List Nat) (ev : Nat) (cnt : Expr) (l : ARef) (ts : List Term)
    (h : Accepted A (.sec ev cnt l ts) = true) : ∀ t ∈ ts, t.ref.arr = l.arr → t.ref = l := by
  simp only [Accepted, Bool.and_eq_true, secOK, List.all_eq_true] at h
  intro t ht harr
  have := h.2 t ht
  simpa [harr] using this

/-! ### the Fortran reading -/

theorem pureAD_seqs (L : List Stmt) (h : ∀ s ∈ L, pureAD s = true) : pureAD (seqs L) = true := by
  induction L with
  | nil => rfl
  | cons s L ih => simp [seqs, pureAD, h s (by simp), ih (fun u hu => h u (by simp [hu]))]

theorem pureAD_pas (p : Stmt) (h : pureAD p = true) : pureAD (pas p) = true := by
  induction p with
  | skip => rfl
  | seq a b iha ihb =>
    simp only [pureAD, Bool.and_eq_true] at h
    simp [pas, pureAD, iha h.1, ihb h.2]
  | assign l ts => simp [pas, isPassive, pureAD]
  | ite c t f _ _ => unfold pas; split
                     · exact h
                     · rfl
  | loop v lo hi st b _ => unfold pas; split
                           · exact h
                           · rfl
  | passign x e => simp [pureAD] at h
  | sec ev cnt l ts => simp [pas, isPassive, pureAD]

theorem pureAD_act (p : Stmt) (h : pureAD p = true) : pureAD (act p) = true := by
  induction p with
  | skip => rfl
  | seq a b iha ihb =>
    simp only [pureAD, Bool.and_eq_true] at h
    simp [act, pureAD, iha h.1, ihb h.2]
  | assign l ts =>
    simp only [act]
    apply pureAD_seqs
    intro s hs
    simp only [adjAssign, List.mem_append, List.mem_map] at hs
    rcases hs with ⟨t, _, rfl⟩ | hs
    · rfl
    · unfold adjTail at hs
      split at hs
      · simp only [List.mem_singleton] at hs; subst hs; rfl
      · split at hs
        · simp at hs
        · simp only [List.mem_singleton] at hs; subst hs; rfl
      · simp only [List.mem_singleton] at hs; subst hs; rfl
  | ite c t f iht ihf =>
    simp only [pureAD, Bool.and_eq_true] at h
    unfold act; split
    · rfl
    · simp [pureAD, pureAD_pas t h.1, pureAD_pas f h.2, iht h.1, ihf h.2]
  | loop v lo hi st b ih =>
    simp only [pureAD] at h
    unfold act; split
    · rfl
    · simp [pureAD, pureAD_pas b h, ih h]
  | passign x e => rfl
  | sec ev cnt l ts =>
    simp only [act]
    apply pureAD_seqs
    intro s hs
    simp only [adjSec, List.mem_append, List.mem_map] at hs
    rcases hs with ⟨t, _, rfl⟩ | hs
    · rfl
    · unfold adjSecTail at hs
      split at hs
      · simp only [List.mem_singleton] at hs; subst hs; rfl
      · split at hs
        · simp at hs
        · simp only [List.mem_singleton] at hs; subst hs; rfl
      · simp only [List.mem_singleton] at hs; subst hs; rfl

/-- the adjoint of a program without passive assignments has none either -/
theorem pureAD_adjoint (p : Stmt) (h : pureAD p = true) : pureAD (adjoint p) = true := by
  simp [adjoint, pureAD, pureAD_pas p h, pureAD_act p h]

/-- **The two readings coincide**: without passive assignments and with loop variables read only
inside their loops, the Fortran reading `run` (DO variable kept after the loop) computes the
active state of `sem`. -/
theorem C19_run_eq_sem (p : Stmt) (hp : pureAD p = true) (hs : wellScoped p = true) (ρ a : Store) :
    (run p ρ a).2 = sem p ρ a := run_eq_sem p hp hs ρ a

/-- **Transpose theorem in the Fortran reading**: no passive assignments, loop variables read only
inside their loops (in the TL code and in the generated adjoint — both decidable), `safe`. -/
theorem C19_transpose_run (p : Stmt) (ρ : Store) (S : Finset Loc)
    (hp : pureAD p = true) (hs : wellScoped p = true) (hs' : wellScoped (adjoint p) = true)
    (hsafe : safe p ρ = true) (hS : ∀ l ∈ touched p ρ, l ∈ S) :
    ∀ x y, ip S (run p ρ x).2 y = ip S x (run (adjoint p) ρ y).2 := by
  intro x y
  rw [run_eq_sem p hp hs, run_eq_sem (adjoint p) (pureAD_adjoint p hp) hs']
  exact C19_transpose_partial p ρ S hsafe hS x y

/-! ### passive variables -/

theorem lhsArrs_seqs (L : List Stmt) : lhsArrs (seqs L) = L.flatMap lhsArrs := by
  induction L with
  | nil => rfl
  | cons s L ih => simp [seqs, lhsArrs, ih]

theorem lhsArrs_passive (s : Stmt) (h : isPassive s = true) : lhsArrs s = [] := by
  induction s with
  | skip => rfl
  | seq a b iha ihb => simp only [isPassive, Bool.and_eq_true] at h; simp [lhsArrs, iha h.1, ihb h.2]
  | assign l ts => simp [isPassive] at h
  | ite c t f iht ihf => simp only [isPassive, Bool.and_eq_true] at h; simp [lhsArrs, iht h.1, ihf h.2]
  | loop v lo hi st b ih => simp only [isPassive] at h; simp [lhsArrs, ih h]
  | passign x e => rfl
  | sec ev cnt l ts => simp [isPassive] at h

theorem lhsArrs_pas (p : Stmt) : lhsArrs (pas p) = [] := by
  induction p with
  | skip => rfl
  | seq a b iha ihb => simp [pas, lhsArrs, iha, ihb]
  | assign l ts => simp [pas, isPassive, lhsArrs]
  | ite c t f _ _ => unfold pas; split
                     · next h => exact lhsArrs_passive _ h
                     · rfl
  | loop v lo hi st b _ => unfold pas; split
                           · next h => exact lhsArrs_passive _ h
                           · rfl
  | passign x e => simp [pas, isPassive, lhsArrs]
  | sec ev cnt l ts => simp [pas, isPassive, lhsArrs]

theorem lhsArrs_act (p : Stmt) : ∀ a ∈ lhsArrs (act p), a ∈ activeArrs p := by
  induction p with
  | skip => simp [act, lhsArrs]
  | seq a b iha ihb =>
    intro x hx
    simp only [act, lhsArrs, activeArrs, List.mem_append] at hx ⊢
    rcases hx with h | h
    · exact Or.inr (ihb x h)
    · exact Or.inl (iha x h)
  | assign l ts =>
    intro x hx
    simp only [act, lhsArrs_seqs, adjAssign, List.flatMap_append, List.mem_append, List.mem_flatMap,
      List.mem_map] at hx
    simp only [activeArrs, List.mem_cons, List.mem_map]
    rcases hx with ⟨s, ⟨t, ht, rfl⟩, hs⟩ | ⟨s, hs, hx⟩
    · simp only [adjTerm, lhsArrs, List.mem_singleton] at hs
      exact Or.inr ⟨t, (List.mem_filter.mp ht).1, hs.symm⟩
    · left
      unfold adjTail at hs
      split at hs
      · simp only [List.mem_singleton] at hs; subst hs; simpa [lhsArrs] using hx
      · split at hs
        · simp at hs
        · simp only [List.mem_singleton] at hs; subst hs; simpa [lhsArrs] using hx
      · simp only [List.mem_singleton] at hs; subst hs; simpa [lhsArrs] using hx
  | ite c t f iht ihf =>
    intro x hx
    unfold act at hx
    split at hx
    · simp [lhsArrs] at hx
    · simp only [lhsArrs, lhsArrs_pas, List.nil_append, List.mem_append] at hx
      simp only [activeArrs, List.mem_append]
      rcases hx with h | h
      · exact Or.inl (iht x h)
      · exact Or.inr (ihf x h)
  | loop v lo hi st b ih =>
    intro x hx
    unfold act at hx
    split at hx
    · simp [lhsArrs] at hx
    · simp only [lhsArrs, lhsArrs_pas, List.nil_append] at hx
      exact ih x hx
  | passign x e => simp [act, lhsArrs]
  | sec ev cnt l ts =>
    intro x hx
    simp only [act, lhsArrs_seqs, adjSec, List.flatMap_append, List.mem_append, List.mem_flatMap,
      List.mem_map] at hx
    simp only [activeArrs, List.mem_cons, List.mem_map]
    rcases hx with ⟨s, ⟨t, ht, rfl⟩, hs⟩ | ⟨s, hs, hx⟩
    · simp only [adjSecTerm, lhsArrs, List.mem_singleton] at hs
      exact Or.inr ⟨t, (List.mem_filter.mp ht).1, hs.symm⟩
    · left
      unfold adjSecTail at hs
      split at hs
      · simp only [List.mem_singleton] at hs; subst hs; simpa [lhsArrs] using hx
      · split at hs
        · simp at hs
        · simp only [List.mem_singleton] at hs; subst hs; simpa [lhsArrs] using hx
      · simp only [List.mem_singleton] at hs; subst hs; simpa [lhsArrs] using hx

/-- **Passive variables unchanged** (syntactic part): every ARRAY/SCALAR assigned through an active
assignment of the adjoint is an active variable of the TL program -/
theorem C19_passive_unchanged (p : Stmt) : ∀ a ∈ lhsArrs (adjoint p), a ∈ activeArrs p := by
  intro a ha
  simp only [adjoint, lhsArrs, lhsArrs_pas, List.nil_append] at ha
  exact lhsArrs_act p a ha

theorem passiveAssigned_seqs (L : List Stmt) : passiveAssigned (seqs L) = L.flatMap passiveAssigned := by
  induction L with
  | nil => rfl
  | cons s L ih => simp [seqs, passiveAssigned, ih]

theorem passiveAssigned_pas (p : Stmt) : ∀ x ∈ passiveAssigned (pas p), x ∈ passiveAssigned p := by
  induction p with
  | skip => simp [pas, passiveAssigned]
  | seq a b iha ihb =>
    intro x hx
    simp only [pas, passiveAssigned, List.mem_append] at hx ⊢
    exact hx.imp (iha x) (ihb x)
  | assign l ts => simp [pas, isPassive, passiveAssigned]
  | ite c t f _ _ => intro x hx; unfold pas at hx; split at hx
                     · exact hx
                     · simp [passiveAssigned] at hx
  | loop v lo hi st b _ => intro x hx; unfold pas at hx; split at hx
                           · exact hx
                           · simp [passiveAssigned] at hx
  | passign y e => simp [pas, isPassive, passiveAssigned]
  | sec ev cnt l ts => simp [pas, isPassive, passiveAssigned]

theorem passiveAssigned_act (p : Stmt) : ∀ x ∈ passiveAssigned (act p), x ∈ passiveAssigned p := by
  induction p with
  | skip => simp [act, passiveAssigned]
  | seq a b iha ihb =>
    intro x hx
    simp only [act, passiveAssigned, List.mem_append] at hx ⊢
    rcases hx with h | h
    · exact Or.inr (ihb x h)
    · exact Or.inl (iha x h)
  | assign l ts =>
    intro x hx
    simp only [act, passiveAssigned_seqs, adjAssign, List.flatMap_append, List.mem_append, List.mem_flatMap,
      List.mem_map] at hx
    rcases hx with ⟨s, ⟨t, _, rfl⟩, hs⟩ | ⟨s, hs, hx⟩
    · simp [adjTerm, passiveAssigned] at hs
    · unfold adjTail at hs
      split at hs
      · simp only [List.mem_singleton] at hs; subst hs; simp [passiveAssigned] at hx
      · split at hs
        · simp at hs
        · simp only [List.mem_singleton] at hs; subst hs; simp [passiveAssigned] at hx
      · simp only [List.mem_singleton] at hs; subst hs; simp [passiveAssigned] at hx
  | ite c t f iht ihf =>
    intro x hx
    unfold act at hx
    split at hx
    · simp [passiveAssigned] at hx
    · simp only [passiveAssigned, List.mem_append] at hx ⊢
      rcases hx with (h | h) | (h | h)
      · exact Or.inl (passiveAssigned_pas t x h)
      · exact Or.inl (iht x h)
      · exact Or.inr (passiveAssigned_pas f x h)
      · exact Or.inr (ihf x h)
  | loop v lo hi st b ih =>
    intro x hx
    unfold act at hx
    split at hx
    · simp [passiveAssigned] at hx
    · simp only [passiveAssigned, List.mem_append] at hx ⊢
      rcases hx with h | h
      · exact passiveAssigned_pas b x h
      · exact ih x h
  | passign y e => simp [act, passiveAssigned]
  | sec ev cnt l ts =>
    intro x hx
    simp only [act, passiveAssigned_seqs, adjSec, List.flatMap_append, List.mem_append, List.mem_flatMap,
      List.mem_map] at hx
    rcases hx with ⟨s, ⟨t, _, rfl⟩, hs⟩ | ⟨s, hs, hx⟩
    · simp [adjSecTerm, passiveAssigned] at hs
    · unfold adjSecTail at hs
      split at hs
      · simp only [List.mem_singleton] at hs; subst hs; simp [passiveAssigned] at hx
      · split at hs
        · simp at hs
        · simp only [List.mem_singleton] at hs; subst hs; simp [passiveAssigned] at hx
      · simp only [List.mem_singleton] at hs; subst hs; simp [passiveAssigned] at hx

/-- the adjoint assigns no passive variable that the TL code does not assign itself (and, by
construction of `pas`, with the very same statements) -/
theorem C19_passive_assignments (p : Stmt) : ∀ x ∈ passiveAssigned (adjoint p), x ∈ passiveAssigned p := by
  intro x hx
  simp only [adjoint, passiveAssigned, List.mem_append] at hx
  exact hx.elim (passiveAssigned_pas p x) (passiveAssigned_act p x)

/-! ### the loop rule and the single-assignment rule, as stand-alone statements -/

/-- reversed-loop bound rule: same iteration values, reverse order, for every start/stop/step
(zero-trip, negative, non-dividing steps) outside the `spurious` class -/
theorem C19_loop_rule (lo hi s : Int) (h : spurious lo hi s = false) :
    iters (hi - (hi - lo).tmod s) lo (-s) = (iters lo hi s).reverse := iters_rev lo hi s h

/-- inside the `spurious` class the pinned rule runs exactly one iteration that the TL loop never ran -/
theorem C19_loop_rule_defect (lo hi s : Int) (h : spurious lo hi s = true) :
    iters lo hi s = [] ∧ iters (hi - (hi - lo).tmod s) lo (-s) = [lo] := iters_spurious lo hi s h

/-- single assignment, aliasing cases included (LHS on the RHS, repeated variables) -/
theorem C19_assignment_rule (lhs : ARef) (ts : List Term) (ρ : Store) (S : Finset Loc)
    (h : noHiddenAlias lhs ts ρ = true) (hl : lhs.loc ρ ∈ S) (hts : ∀ t ∈ ts, t.ref.loc ρ ∈ S) :
    ∀ x y, ip S (sem (.assign lhs ts) ρ x) y = ip S x (sem (seqs (adjAssign lhs ts)) ρ y) :=
  isAdj_assign lhs ts ρ h hl hts

/-- array-section assignment: accepted (`secOK`) and conformable (`secInj`) ⇒ the array-notation
adjoint is the transpose -/
theorem C19_section_rule (ev : Nat) (cnt : Expr) (lhs : ARef) (ts : List Term) (ρ : Store) (S : Finset Loc)
    (hok : secOK lhs ts = true) (hinj : secInj ev cnt lhs ts ρ = true)
    (hS : ∀ e ∈ secIdx (eval cnt ρ), lhs.loc (ρ.set (ev, 0, 0) e) ∈ S ∧ ∀ t ∈ ts, t.ref.loc (ρ.set (ev, 0, 0) e) ∈ S) :
    ∀ x y, ip S (sem (.sec ev cnt lhs ts) ρ x) y = ip S x (sem (seqs (adjSec ev cnt lhs ts)) ρ y) :=
  isAdj_sec ev cnt lhs ts ρ hok hinj hS

/-! ### witnesses: the defects of the pinned construction -/

def sc (x : Nat) : ARef := ⟨x, .lit 0, .lit 0⟩
def el (a : Nat) (i : Expr) : ARef := ⟨a, i, .lit 0⟩
def unit (l : Loc) : Store := ⟨fun l' => if l' = l then 1 else 0⟩
def zeroStore : Store := ⟨fun _ => 0⟩

theorem ip_pair (a b : Loc) (h : a ≠ b) (x y : Store) : ip {a, b} x y = x a * y a + x b * y b := by
  unfold ip; rw [Finset.sum_pair h]

/-- `do i = 5, 4, 2 ; a(i) = a(i) + b(i)` (ids: a=0, b=1, i=2) — zero trips -/
def zeroTripProg : Stmt :=
  .loop 2 (.lit 5) (.lit 4) (.lit 2) (.assign (el 0 (.var 2)) [⟨false, .lit 1, el 0 (.var 2)⟩, ⟨false, .lit 1, el 1 (.var 2)⟩])

/-- **Finding (zero-trip loop, non-unit step)**: the reversed loop `do i = 4 - MOD(4-5,2), 5, -2`
runs once (`i = 5`): the adjoint is not the transpose of the (empty) TL loop. -/
theorem C19_zero_trip_counterexample :
    ¬ (∀ x y, ip {(0, 5, 0), (1, 5, 0)} (sem zeroTripProg zeroStore x) y =
              ip {(0, 5, 0), (1, 5, 0)} x (sem (adjoint zeroTripProg) zeroStore y)) := by
  intro h
  have := h (unit (1, 5, 0)) (unit (0, 5, 0))
  rw [ip_pair _ _ (by decide), ip_pair _ _ (by decide)] at this
  revert this
  decide

/-- `a(i) = a(n) + b(i)` with `i = n = 3` at run time (ids: a=0, b=1, i=2, n=3) -/
def hiddenAliasProg : Stmt :=
  .assign (el 0 (.var 2)) [⟨false, .lit 1, el 0 (.var 3)⟩, ⟨false, .lit 1, el 1 (.var 2)⟩]
def hiddenAliasStore : Store := storeOf [((2, 0, 0), 3), ((3, 0, 0), 3)]

/-- **Finding (hidden alias)**: `a(n)` is not recognised as the LHS `a(i)`; when `i = n` the emitted
`a(n) = a(n) + a(i); b(i) = b(i) + a(i); a(i) = 0.0` is not the transpose. -/
theorem C19_hidden_alias_counterexample :
    ¬ (∀ x y, ip {(0, 3, 0), (1, 3, 0)} (sem hiddenAliasProg hiddenAliasStore x) y =
              ip {(0, 3, 0), (1, 3, 0)} x (sem (adjoint hiddenAliasProg) hiddenAliasStore y)) := by
  intro h
  have := h (unit (0, 3, 0)) (unit (0, 3, 0))
  rw [ip_pair _ _ (by decide), ip_pair _ _ (by decide)] at this
  revert this
  decide

/-- the full statement is false of the construction as coded -/
theorem C19_statement_false : ¬ C19_statement := by
  intro h
  apply C19_zero_trip_counterexample
  apply h zeroTripProg zeroStore
  · decide
  · decide

/-- `z = a - z` (ids: a=0, z=1): the PINNED `AssignmentTrans` emits `a = a + z` only -/
def signProg : Stmt := .assign (sc 1) [⟨false, .lit 1, sc 0⟩, ⟨true, .lit 1, sc 1⟩]

/-- **Defect of the pinned tree repaired by `fixes/C19-assignment-increment-sign.patch`**: the
operator of the first deferred increment term is dropped. -/
theorem C19_pinned_sign_counterexample :
    ¬ (∀ x y, ip {(0, 0, 0), (1, 0, 0)} (sem signProg zeroStore x) y =
              ip {(0, 0, 0), (1, 0, 0)} x
                (sem (seqs (adjAssignPinned (sc 1) [⟨false, .lit 1, sc 0⟩, ⟨true, .lit 1, sc 1⟩])) zeroStore y)) := by
  intro h
  have := h (unit (1, 0, 0)) (unit (1, 0, 0))
  rw [ip_pair _ _ (by decide), ip_pair _ _ (by decide)] at this
  revert this
  decide

/-! ### non-vacuity and sanity evaluations -/

/-- the fixed construction on `z = a - z`: `a = a + z ; z = -z` -/
example : act signProg =
    seqs [.assign (sc 0) [⟨false, .lit 1, sc 0⟩, ⟨false, .lit 1, sc 1⟩],
          .assign (sc 1) [⟨false, .un .neg (.lit 1), sc 1⟩]] := by decide

example : safe signProg zeroStore = true := by decide
example : safe zeroTripProg zeroStore = false := by decide
example : safe hiddenAliasProg hiddenAliasStore = false := by decide
/-- the same program is safe when `i ≠ n` -/
example : safe hiddenAliasProg (storeOf [((2, 0, 0), 2), ((3, 0, 0), 3)]) = true := by decide

/-- `do i = 1, 6, 2 ; a(i) = 2*a(i) - c*b(i+1) ; if (c > 0) b(i) = a(i)` with c = var 3 -/
def demoProg : Stmt :=
  .loop 2 (.lit 1) (.lit 6) (.lit 2)
    (.seq (.assign (el 0 (.var 2)) [⟨false, .lit 2, el 0 (.var 2)⟩, ⟨true, .var 3, el 1 (.bin .add (.var 2) (.lit 1))⟩])
          (.ite (.bin .gt (.var 3) (.lit 0)) (.assign (el 1 (.var 2)) [⟨false, .lit 1, el 0 (.var 2)⟩]) .skip))
def demoStore : Store := storeOf [((3, 0, 0), 4)]

example : iters 1 6 2 = [1, 3, 5] := by decide
example : iters (6 - Int.tmod (6 - 1) 2) 1 (-2) = [5, 3, 1] := by decide
example : iters 5 4 2 = [] ∧ iters (4 - Int.tmod (4 - 5) 2) 5 (-2) = [5] := by decide
example : spurious 5 4 2 = true ∧ spurious 5 3 2 = false ∧ spurious 1 6 2 = false := by decide
/-- hypotheses of `C19_transpose_partial` are satisfiable on a non-trivial program (loop with
stride 2, increment, subtraction, IF) -/
example : safe demoProg demoStore = true := by decide
example : (touched demoProg demoStore).length = 15 := by decide
example : sem demoProg demoStore (unit (1, 2, 0)) (0, 1, 0) = -4 := by decide
example : sem (adjoint demoProg) demoStore (unit (0, 1, 0)) (1, 2, 0) = -4 := by decide
example : staticallySafe signProg = true := by decide


/-! ### witnesses that need the Fortran reading `run`, and the array-notation acceptance rule -/

theorem ip_unit_right {S : Finset Loc} {l : Loc} (hl : l ∈ S) (x : Store) : ip S x (unit l) = x l := by
  unfold ip unit
  simp only [mul_ite, mul_one, mul_zero]
  rw [Finset.sum_ite_eq' S l, if_pos hl]

theorem ip_unit_left {S : Finset Loc} {l : Loc} (hl : l ∈ S) (y : Store) : ip S (unit l) y = y l := by
  unfold ip unit
  simp only [ite_mul, one_mul, zero_mul]
  rw [Finset.sum_ite_eq' S l, if_pos hl]

/-- `pt = 2 ; a(1) = pt*b(1) ; pt = 3 ; b(2) = pt*a(1)`  (ids: a=0, b=1, pt=2) -/
def reassignProg : Stmt :=
  .seq (.passign 2 (.lit 2)) (.seq (.assign (el 0 (.lit 1)) [⟨false, .var 2, el 1 (.lit 1)⟩])
    (.seq (.passign 2 (.lit 3)) (.assign (el 1 (.lit 2)) [⟨false, .var 2, el 0 (.lit 1)⟩])))
def reassignS : Finset Loc := {(0, 1, 0), (1, 1, 0), (1, 2, 0)}

/-- `schedule_node` puts both passive assignments first -/
example : flat (adjoint reassignProg) =
    [.passign 2 (.lit 2), .passign 2 (.lit 3),
     .assign (el 0 (.lit 1)) [⟨false, .lit 1, el 0 (.lit 1)⟩, ⟨false, .var 2, el 1 (.lit 2)⟩],
     .assign (el 1 (.lit 2)) [],
     .assign (el 1 (.lit 1)) [⟨false, .lit 1, el 1 (.lit 1)⟩, ⟨false, .var 2, el 0 (.lit 1)⟩],
     .assign (el 0 (.lit 1)) []] := by decide

/-- **Finding (passive variable re-assigned between active statements)**: the TL code computes
`b(2) = 6·b(1)`, the generated adjoint (both `pt = …` hoisted, so `pt = 3` everywhere) gives
`b(1) += 9·b(2)`. -/
theorem C19_passive_reassigned_counterexample :
    ¬ (∀ x y, ip reassignS (run reassignProg zeroStore x).2 y =
              ip reassignS x (run (adjoint reassignProg) zeroStore y).2) := by
  intro h
  have := h (unit (1, 1, 0)) (unit (1, 2, 0))
  rw [ip_unit_right (by decide), ip_unit_left (by decide)] at this
  revert this
  decide

/-- `do i = 1, 3 ; a(i) = a(i) + b(i) ; end do ; a(i) = 2*a(i)`  (ids: a=0, b=1, i=2) -/
def afterLoopProg : Stmt :=
  .seq (.loop 2 (.lit 1) (.lit 3) (.lit 1)
          (.assign (el 0 (.var 2)) [⟨false, .lit 1, el 0 (.var 2)⟩, ⟨false, .lit 1, el 1 (.var 2)⟩]))
       (.assign (el 0 (.var 2)) [⟨false, .lit 2, el 0 (.var 2)⟩])
def afterLoopS : Finset Loc :=
  {(0, 0, 0), (0, 1, 0), (0, 2, 0), (0, 3, 0), (0, 4, 0), (1, 1, 0), (1, 2, 0), (1, 3, 0)}

/-- **Finding (loop variable read after its loop)**: the TL code doubles `a(4)` (`i = 4` after
the loop); in the adjoint that statement runs first, with the entry value of `i` (here 0). -/
theorem C19_loop_variable_after_loop_counterexample :
    ¬ (∀ x y, ip afterLoopS (run afterLoopProg zeroStore x).2 y =
              ip afterLoopS x (run (adjoint afterLoopProg) zeroStore y).2) := by
  intro h
  have := h (unit (0, 4, 0)) (unit (0, 4, 0))
  rw [ip_unit_right (by decide), ip_unit_left (by decide)] at this
  revert this
  decide

/-- `a(1:3:2, j) = a(1:3:2, j+1) + 2*b(1:2, j)` as the exporter writes it (ids: a=0, b=1, j=2,
counter 3, two elements): the RHS reference to `a` has a different scalar subscript -/
def shiftedSecProg : Stmt :=
  .sec 3 (.lit 2) ⟨0, .bin .add (.lit 1) (.bin .mul (.var 3) (.lit 2)), .var 2⟩
    [⟨false, .lit 1, ⟨0, .bin .add (.lit 1) (.bin .mul (.var 3) (.lit 2)), .bin .add (.var 2) (.lit 1)⟩⟩,
     ⟨false, .lit 2, ⟨1, .bin .add (.lit 1) (.bin .mul (.var 3) (.lit 1)), .var 2⟩⟩]
def shiftedSecStore : Store := storeOf [((2, 0, 0), 2)]
def shiftedSecS : Finset Loc := {(0, 1, 2), (0, 3, 2), (0, 1, 3), (0, 3, 3), (1, 1, 2), (1, 2, 2)}

/-- `_array_ranges_match` refuses it … -/
example : Accepted [0, 1] shiftedSecProg = false := by decide
example : safe shiftedSecProg shiftedSecStore = false := by decide
/-- … and it has to: `apply` would treat `a(1:3:2, j+1)` as an increment of the LHS and emit only
`b(1:2,j) = b(1:2,j) + 2*a(1:3:2,j)` -/
example : flat (adjoint shiftedSecProg) =
    [.sec 3 (.lit 2) ⟨1, .bin .add (.lit 1) (.bin .mul (.var 3) (.lit 1)), .var 2⟩
      [⟨false, .lit 1, ⟨1, .bin .add (.lit 1) (.bin .mul (.var 3) (.lit 1)), .var 2⟩⟩,
       ⟨false, .lit 2, ⟨0, .bin .add (.lit 1) (.bin .mul (.var 3) (.lit 2)), .var 2⟩⟩]] := by decide

/-- **Why the acceptance rule is needed** (the seeded mutation that dropped it): without
`secOK` the array-notation construction is not a transpose. -/
theorem C19_section_acceptance_needed :
    ¬ (∀ x y, ip shiftedSecS (sem shiftedSecProg shiftedSecStore x) y =
              ip shiftedSecS x (sem (adjoint shiftedSecProg) shiftedSecStore y)) := by
  intro h
  have := h (unit (0, 1, 3)) (unit (0, 1, 2))
  rw [ip_unit_right (by decide), ip_unit_left (by decide)] at this
  revert this
  decide

/-- an accepted section statement with a same-subscript increment:
`a(1:3:2, j) = 3*a(1:3:2, j) + 2*b(1:2, j) - a(1:3:2, j)` -/
def incSecProg : Stmt :=
  .sec 3 (.lit 2) ⟨0, .bin .add (.lit 1) (.bin .mul (.var 3) (.lit 2)), .var 2⟩
    [⟨false, .lit 3, ⟨0, .bin .add (.lit 1) (.bin .mul (.var 3) (.lit 2)), .var 2⟩⟩,
     ⟨false, .lit 2, ⟨1, .bin .add (.lit 1) (.bin .mul (.var 3) (.lit 1)), .var 2⟩⟩,
     ⟨true, .lit 1, ⟨0, .bin .add (.lit 1) (.bin .mul (.var 3) (.lit 2)), .var 2⟩⟩]
example : Accepted [0, 1] incSecProg = true ∧ staticallySafe incSecProg = true := by decide
example : safe incSecProg shiftedSecStore = true := by decide
example : sem incSecProg shiftedSecStore (unit (1, 2, 2)) (0, 3, 2) = 2 := by decide
example : sem (adjoint incSecProg) shiftedSecStore (unit (0, 3, 2)) (1, 2, 2) = 2 := by decide
example : sem (adjoint incSecProg) shiftedSecStore (unit (0, 3, 2)) (0, 3, 2) = 2 := by decide
/-- refusals mirrored by `Accepted`: product of two active variables, active subscript, active
loop bound, passive LHS with an active RHS -/
example : Accepted [0, 1] (.assign (el 0 (.lit 1)) [⟨false, .idx1 1 (.lit 1), el 0 (.lit 2)⟩]) = false := by decide
example : Accepted [0, 1] (.assign (el 0 (.idx1 1 (.lit 1))) []) = false := by decide
example : Accepted [0, 1] (.loop 5 (.lit 1) (.idx1 0 (.lit 1)) (.lit 1) .skip) = false := by decide
example : Accepted [0, 1] (.passign 0 (.lit 1)) = false ∧ Accepted [0, 1] (.passign 7 (.idx1 1 (.lit 1))) = false := by decide
example : Accepted [0, 1] demoProg = true := by decide
/-- hypotheses of `C19_transpose_run` on the demo program -/
example : pureAD demoProg = true ∧ wellScoped demoProg = true ∧ wellScoped (adjoint demoProg) = true := by decide
example : wellScoped afterLoopProg = false ∧ pureAD reassignProg = false := by decide

end C19
