import PsyVerif.Lemmas.AD
/-! # C19 — PSyAD adjoints are the exact transpose of the tangent-linear code

Model: `PsyVerif/Model/AD.lean` (`sem`, `adjoint` = AdjointVisitor + AssignmentTrans in FIX MODE
for the dropped sign of the first deferred increment term and for the unparenthesised loop
offset).  The inner product is taken over any finite set `S` of active locations that
contains everything the program touches.  The pinned construction is NOT a transpose for
all accepted programs: two defect classes remain in the model exactly as coded
(`C19_zero_trip_counterexample`, `C19_hidden_alias_counterexample`), so the full statement
`C19_statement` is refuted and the theorem is proved under the decidable side condition
`safe p ρ` that excludes exactly those two classes.

OUTSIDE the model: assignments to array sections that stay in array notation after
`preprocess_trans` (differing strides) and the acceptance rule `AssignmentTrans._array_ranges_match`
(every RHS occurrence of the LHS array must have identical subscripts).  They are covered by the
check's array-notation stream only: elementwise expansion to MiniF and the transpose test on unit
vectors (harness/props/c19_real.py `export_routine`). -/
namespace C19
open MiniF

/-- `S` contains every active location the program reads or writes under `ρ` -/
def Closed (S : Finset Loc) : Stmt → Store → Prop
  | .skip, _ => True
  | .seq a b, ρ => Closed S a ρ ∧ Closed S b ρ
  | .assign l ts, ρ => l.loc ρ ∈ S ∧ ∀ t ∈ ts, t.ref.loc ρ ∈ S
  | .ite c t f, ρ => if eval c ρ ≠ 0 then Closed S t ρ else Closed S f ρ
  | .loop v lo hi st b, ρ =>
      ∀ i ∈ iters (eval lo ρ) (eval hi ρ) (eval st ρ), Closed S b (ρ.set (v, 0, 0) i)

theorem closed_iff_touched (S : Finset Loc) (p : Stmt) (ρ : Store) :
    Closed S p ρ ↔ ∀ l ∈ touched p ρ, l ∈ S := by
  induction p generalizing ρ with
  | skip => simp [Closed, touched]
  | seq a b iha ihb =>
    simp only [Closed, touched, List.mem_append, iha, ihb]
    constructor
    · rintro ⟨h1, h2⟩ l (h | h)
      · exact h1 l h
      · exact h2 l h
    · intro h; exact ⟨fun l hl => h l (Or.inl hl), fun l hl => h l (Or.inr hl)⟩
  | assign lhs ts =>
    simp only [Closed, touched, List.mem_cons, List.mem_map]
    constructor
    · rintro ⟨h1, h2⟩ l (h | ⟨t, ht, rfl⟩)
      · rw [h]; exact h1
      · exact h2 t ht
    · intro h; exact ⟨h _ (Or.inl rfl), fun t ht => h _ (Or.inr ⟨t, ht, rfl⟩)⟩
  | ite c t f iht ihf =>
    simp only [Closed, touched]
    split
    · exact iht ρ
    · exact ihf ρ
  | loop v lo hi st b ih =>
    simp only [Closed, touched, List.mem_flatMap]
    constructor
    · rintro h l ⟨i, hi', hl⟩
      exact (ih _).mp (h i hi') l hl
    · intro h i hi'
      exact (ih _).mpr (fun l hl => h l ⟨i, hi', hl⟩)

theorem eval_negate (e : Expr) (ρ : Store) : eval (negate e) ρ = -(eval e ρ) := by
  unfold negate
  split
  · next n => split <;> simp [eval, evalUn]
  · simp [eval, evalUn]
  · simp [eval, evalBin]

theorem isUnitLit_eval {st : Expr} (h : isUnitLit st = true) (ρ : Store) : eval st ρ = 1 ∨ eval st ρ = -1 := by
  cases st <;> simp_all [isUnitLit, eval]

/-- the iteration values of the reversed loop, as the code builds its bounds -/
theorem adjoint_loop_iters (lo hi st : Expr) (ρ : Store)
    (h : (isUnitLit st || !spurious (eval lo ρ) (eval hi ρ) (eval st ρ)) = true) :
    iters (eval (revStart lo hi st) ρ) (eval lo ρ) (eval (negate st) ρ) =
      (iters (eval lo ρ) (eval hi ρ) (eval st ρ)).reverse := by
  rw [eval_negate]
  unfold revStart
  by_cases hu : isUnitLit st = true
  · rw [if_pos hu]
    exact iters_rev_unit _ _ _ (isUnitLit_eval hu ρ)
  · rw [if_neg hu]
    have hsp : spurious (eval lo ρ) (eval hi ρ) (eval st ρ) = false := by
      simp only [Bool.or_eq_true, Bool.not_eq_true'] at h
      rcases h with h | h
      · exact absurd h hu
      · exact h
    simp only [eval, evalBin]
    exact iters_rev _ _ _ hsp

/-- core of the proof: structural induction over the program -/
theorem isAdj_adjoint (S : Finset Loc) (p : Stmt) :
    ∀ ρ, safe p ρ = true → Closed S p ρ → IsAdj S (sem p ρ) (sem (adjoint p) ρ) := by
  induction p with
  | skip => intro ρ _ _; exact IsAdj.id
  | seq a b iha ihb =>
    intro ρ hs hc
    simp only [safe, Bool.and_eq_true] at hs
    have e1 : sem (.seq a b) ρ = fun x => sem b ρ (sem a ρ x) := by funext x; simp only [sem]
    have e2 : sem (adjoint (.seq a b)) ρ = fun y => sem (adjoint a) ρ (sem (adjoint b) ρ y) := by
      funext y; simp only [adjoint, sem]
    rw [e1, e2]
    exact IsAdj.comp (iha ρ hs.1 hc.1) (ihb ρ hs.2 hc.2)
  | assign lhs ts =>
    intro ρ hs hc
    exact isAdj_assign lhs ts ρ hs hc.1 hc.2
  | ite c t f iht ihf =>
    intro ρ hs hc
    simp only [safe, Closed] at hs hc
    by_cases h : eval c ρ ≠ 0
    · rw [if_pos h] at hs hc
      have e1 : sem (.ite c t f) ρ = sem t ρ := by funext a; simp [sem, h]
      have e2 : sem (adjoint (.ite c t f)) ρ = sem (adjoint t) ρ := by funext a; simp [adjoint, sem, h]
      rw [e1, e2]; exact iht ρ hs hc
    · rw [if_neg h] at hs hc
      have e1 : sem (.ite c t f) ρ = sem f ρ := by funext a; simp only [sem, h, if_false]
      have e2 : sem (adjoint (.ite c t f)) ρ = sem (adjoint f) ρ := by
        funext a; simp only [adjoint, sem, h, if_false]
      rw [e1, e2]; exact ihf ρ hs hc
  | loop v lo hi st b ih =>
    intro ρ hs hc
    simp only [safe, Bool.and_eq_true, List.all_eq_true] at hs
    have hit := adjoint_loop_iters lo hi st ρ hs.1
    have e2 : sem (adjoint (.loop v lo hi st b)) ρ = fun a =>
        (iters (eval lo ρ) (eval hi ρ) (eval st ρ)).reverse.foldl
          (fun a i => sem (adjoint b) (ρ.set (v, 0, 0) i) a) a := by
      funext a; simp only [adjoint, sem, hit]
    rw [e2]
    exact IsAdj.foldl (fun i => sem b (ρ.set (v, 0, 0) i)) (fun i => sem (adjoint b) (ρ.set (v, 0, 0) i)) _
      (fun i hi' => ih _ (hs.2 i hi') (hc i hi'))

/-! ## The property -/

/-- The full statement: for every program of the accepted linear form, every passive store and
every finite set of locations containing what the TL code and its adjoint touch, the generated
adjoint is the transpose. -/
def C19_statement : Prop :=
  ∀ (p : Stmt) (ρ : Store) (S : Finset Loc), (∀ l ∈ touched p ρ, l ∈ S) → (∀ l ∈ touched (adjoint p) ρ, l ∈ S) →
    ∀ x y, ip S (sem p ρ x) y = ip S x (sem (adjoint p) ρ y)

/-- **Transpose theorem** (all programs, loops with any bounds/step, IF, aliasing inside
assignments): whenever the execution meets neither a hidden alias nor a spurious reversed
loop (`safe`, decidable), `⟪⟦p⟧ x, y⟫ = ⟪x, ⟦adjoint p⟧ y⟫` for all active states. -/
theorem C19_transpose_partial (p : Stmt) (ρ : Store) (S : Finset Loc)
    (hsafe : safe p ρ = true) (hS : ∀ l ∈ touched p ρ, l ∈ S) :
    ∀ x y, ip S (sem p ρ x) y = ip S x (sem (adjoint p) ρ y) :=
  isAdj_adjoint S p ρ hsafe ((closed_iff_touched S p ρ).mpr hS)

/-- the inner product may be taken over exactly the touched locations -/
theorem C19_transpose_touched (p : Stmt) (ρ : Store) (hsafe : safe p ρ = true) :
    ∀ x y, ip (touched p ρ).toFinset (sem p ρ x) y = ip (touched p ρ).toFinset x (sem (adjoint p) ρ y) :=
  C19_transpose_partial p ρ _ hsafe (fun l hl => List.mem_toFinset.mpr hl)

/-- routine level: local active variables are zeroed before the adjoint runs, i.e. the adjoint of
the TL routine followed by "forget the locals" -/
theorem C19_transpose_routine (locals : List Nat) (p : Stmt) (ρ : Store) (S : Finset Loc)
    (hsafe : safe p ρ = true) (hS : ∀ l ∈ touched p ρ, l ∈ S) (x y : Store) :
    ip S (sem p ρ x) (sem (seqs (locals.map fun v => .assign ⟨v, .lit 0, .lit 0⟩ [])) ρ y) =
      ip S x (sem (adjointRoutine locals p) ρ y) := by
  simp only [adjointRoutine, sem]
  exact C19_transpose_partial p ρ S hsafe hS x _

/-- programs whose loops all have a literal unit step and whose assignments only mention the
LHS array through the LHS reference itself are safe under every passive store -/
def staticallySafe : Stmt → Bool
  | .skip => true
  | .seq a b => staticallySafe a && staticallySafe b
  | .assign l ts => ts.all fun t => t.ref == l || t.ref.arr != l.arr
  | .ite _ t f => staticallySafe t && staticallySafe f
  | .loop _ _ _ st b => isUnitLit st && staticallySafe b

theorem safe_of_staticallySafe (p : Stmt) (h : staticallySafe p = true) : ∀ ρ, safe p ρ = true := by
  induction p with
  | skip => intro ρ; rfl
  | seq a b iha ihb =>
    intro ρ; simp only [staticallySafe, Bool.and_eq_true] at h
    simp [safe, iha h.1 ρ, ihb h.2 ρ]
  | assign l ts =>
    intro ρ
    simp only [staticallySafe, List.all_eq_true] at h
    simp only [safe, noHiddenAlias, List.all_eq_true]
    intro t ht
    have := h t ht
    simp only [Bool.or_eq_true, beq_iff_eq, bne_iff_ne] at this ⊢
    rcases this with h1 | h1
    · exact Or.inl h1
    · right
      exact decide_eq_true (fun hc => h1 (congrArg Prod.fst hc))
  | ite c t f iht ihf =>
    intro ρ; simp only [staticallySafe, Bool.and_eq_true] at h
    simp only [safe]; split
    · exact iht h.1 ρ
    · exact ihf h.2 ρ
  | loop v lo hi st b ih =>
    intro ρ; simp only [staticallySafe, Bool.and_eq_true] at h
    simp only [safe, h.1, Bool.true_or, Bool.true_and, List.all_eq_true]
    intro i _; exact ih h.2 _

/-- the transpose property for all passive stores, from a purely syntactic condition -/
theorem C19_transpose_static (p : Stmt) (h : staticallySafe p = true) (ρ : Store) (S : Finset Loc)
    (hS : ∀ l ∈ touched p ρ, l ∈ S) : ∀ x y, ip S (sem p ρ x) y = ip S x (sem (adjoint p) ρ y) :=
  C19_transpose_partial p ρ S (safe_of_staticallySafe p h ρ) hS

/-! ### passive variables -/

theorem lhsArrs_seqs (L : List Stmt) : lhsArrs (seqs L) = L.flatMap lhsArrs := by
  induction L with
  | nil => rfl
  | cons s L ih => simp [seqs, lhsArrs, ih]

/-- **Passive variables unchanged** (syntactic part): every variable assigned by the adjoint is an
active variable of the TL program; the passive store is not an output of `sem` at all, and the
adjoint binds exactly the loop variables of the TL program. -/
theorem C19_passive_unchanged (p : Stmt) : ∀ a ∈ lhsArrs (adjoint p), a ∈ activeArrs p := by
  induction p with
  | skip => simp [adjoint, lhsArrs]
  | seq a b iha ihb =>
    intro x hx
    simp only [adjoint, lhsArrs, activeArrs, List.mem_append] at hx ⊢
    rcases hx with h | h
    · exact Or.inr (ihb x h)
    · exact Or.inl (iha x h)
  | assign l ts =>
    intro x hx
    simp only [adjoint, lhsArrs_seqs, adjAssign, List.flatMap_append, List.mem_append, List.mem_flatMap,
      List.mem_map] at hx
    simp only [activeArrs, List.mem_cons, List.mem_map]
    rcases hx with ⟨s, ⟨t, ht, rfl⟩, hs⟩ | ⟨s, hs, hx⟩
    · simp only [adjTerm, lhsArrs, List.mem_singleton] at hs
      exact Or.inr ⟨t, (List.mem_filter.mp ht).1, hs.symm⟩
    · left
      unfold adjTail at hs
      split at hs
      · simp only [List.mem_singleton] at hs; subst hs; simpa [lhsArrs] using hx
      · split at hs
        · simp at hs
        · simp only [List.mem_singleton] at hs; subst hs; simpa [lhsArrs] using hx
      · simp only [List.mem_singleton] at hs; subst hs; simpa [lhsArrs] using hx
  | ite c t f iht ihf =>
    intro x hx
    simp only [adjoint, lhsArrs, activeArrs, List.mem_append] at hx ⊢
    rcases hx with h | h
    · exact Or.inl (iht x h)
    · exact Or.inr (ihf x h)
  | loop v lo hi st b ih =>
    intro x hx
    simp only [adjoint, lhsArrs, activeArrs] at hx ⊢
    exact ih x hx

theorem loopVars_seqs_adjAssign (l : ARef) (ts : List Term) : loopVars (seqs (adjAssign l ts)) = [] := by
  have : ∀ L : List Stmt, (∀ s ∈ L, loopVars s = []) → loopVars (seqs L) = [] := by
    intro L; induction L with
    | nil => intro _; rfl
    | cons s L ih => intro h; simp [seqs, loopVars, h s (by simp), ih (fun u hu => h u (by simp [hu]))]
  apply this
  intro s hs
  simp only [adjAssign, List.mem_append, List.mem_map] at hs
  rcases hs with ⟨t, _, rfl⟩ | hs
  · rfl
  · unfold adjTail at hs
    split at hs
    · simp only [List.mem_singleton] at hs; subst hs; rfl
    · split at hs
      · simp at hs
      · simp only [List.mem_singleton] at hs; subst hs; rfl
    · simp only [List.mem_singleton] at hs; subst hs; rfl

/-- the adjoint binds the same loop variables as the TL program -/
theorem C19_same_loop_variables (p : Stmt) : ∀ v, v ∈ loopVars (adjoint p) ↔ v ∈ loopVars p := by
  induction p with
  | skip => simp [adjoint]
  | seq a b iha ihb => intro v; simp only [adjoint, loopVars, List.mem_append, iha v, ihb v]; exact Or.comm
  | assign l ts => intro v; simp [adjoint, loopVars_seqs_adjAssign, loopVars]
  | ite c t f iht ihf => intro v; simp only [adjoint, loopVars, List.mem_append, iht v, ihf v]
  | loop v lo hi st b ih => intro w; simp only [adjoint, loopVars, List.mem_cons, ih w]

/-! ### the loop rule and the single-assignment rule, as stand-alone statements -/

/-- reversed-loop bound rule: same iteration values, reverse order, for every start/stop/step
(zero-trip, negative, non-dividing steps) outside the `spurious` class -/
theorem C19_loop_rule (lo hi s : Int) (h : spurious lo hi s = false) :
    iters (hi - (hi - lo).tmod s) lo (-s) = (iters lo hi s).reverse := iters_rev lo hi s h

/-- inside the `spurious` class the pinned rule runs exactly one iteration that the TL loop never ran -/
theorem C19_loop_rule_defect (lo hi s : Int) (h : spurious lo hi s = true) :
    iters lo hi s = [] ∧ iters (hi - (hi - lo).tmod s) lo (-s) = [lo] := iters_spurious lo hi s h

/-- single assignment, aliasing cases included (LHS on the RHS, repeated variables) -/
theorem C19_assignment_rule (lhs : ARef) (ts : List Term) (ρ : Store) (S : Finset Loc)
    (h : noHiddenAlias lhs ts ρ = true) (hl : lhs.loc ρ ∈ S) (hts : ∀ t ∈ ts, t.ref.loc ρ ∈ S) :
    ∀ x y, ip S (sem (.assign lhs ts) ρ x) y = ip S x (sem (adjoint (.assign lhs ts)) ρ y) :=
  isAdj_assign lhs ts ρ h hl hts

/-! ### witnesses: the defects of the pinned construction -/

def sc (x : Nat) : ARef := ⟨x, .lit 0, .lit 0⟩
def el (a : Nat) (i : Expr) : ARef := ⟨a, i, .lit 0⟩
def unit (l : Loc) : Store := ⟨fun l' => if l' = l then 1 else 0⟩
def zeroStore : Store := ⟨fun _ => 0⟩

theorem ip_pair (a b : Loc) (h : a ≠ b) (x y : Store) : ip {a, b} x y = x a * y a + x b * y b := by
  unfold ip; rw [Finset.sum_pair h]

/-- `do i = 5, 4, 2 ; a(i) = a(i) + b(i)` (ids: a=0, b=1, i=2) — zero trips -/
def zeroTripProg : Stmt :=
  .loop 2 (.lit 5) (.lit 4) (.lit 2) (.assign (el 0 (.var 2)) [⟨false, .lit 1, el 0 (.var 2)⟩, ⟨false, .lit 1, el 1 (.var 2)⟩])

/-- **Finding (zero-trip loop, non-unit step)**: the reversed loop `do i = 4 - MOD(4-5,2), 5, -2`
runs once (`i = 5`): the adjoint is not the transpose of the (empty) TL loop. -/
theorem C19_zero_trip_counterexample :
    ¬ (∀ x y, ip {(0, 5, 0), (1, 5, 0)} (sem zeroTripProg zeroStore x) y =
              ip {(0, 5, 0), (1, 5, 0)} x (sem (adjoint zeroTripProg) zeroStore y)) := by
  intro h
  have := h (unit (1, 5, 0)) (unit (0, 5, 0))
  rw [ip_pair _ _ (by decide), ip_pair _ _ (by decide)] at this
  revert this
  decide

/-- `a(i) = a(n) + b(i)` with `i = n = 3` at run time (ids: a=0, b=1, i=2, n=3) -/
def hiddenAliasProg : Stmt :=
  .assign (el 0 (.var 2)) [⟨false, .lit 1, el 0 (.var 3)⟩, ⟨false, .lit 1, el 1 (.var 2)⟩]
def hiddenAliasStore : Store := storeOf [((2, 0, 0), 3), ((3, 0, 0), 3)]

/-- **Finding (hidden alias)**: `a(n)` is not recognised as the LHS `a(i)`; when `i = n` the emitted
`a(n) = a(n) + a(i); b(i) = b(i) + a(i); a(i) = 0.0` is not the transpose. -/
theorem C19_hidden_alias_counterexample :
    ¬ (∀ x y, ip {(0, 3, 0), (1, 3, 0)} (sem hiddenAliasProg hiddenAliasStore x) y =
              ip {(0, 3, 0), (1, 3, 0)} x (sem (adjoint hiddenAliasProg) hiddenAliasStore y)) := by
  intro h
  have := h (unit (0, 3, 0)) (unit (0, 3, 0))
  rw [ip_pair _ _ (by decide), ip_pair _ _ (by decide)] at this
  revert this
  decide

/-- the full statement is false of the construction as coded -/
theorem C19_statement_false : ¬ C19_statement := by
  intro h
  apply C19_zero_trip_counterexample
  apply h zeroTripProg zeroStore
  · decide
  · decide

/-- `z = a - z` (ids: a=0, z=1): the PINNED `AssignmentTrans` emits `a = a + z` only -/
def signProg : Stmt := .assign (sc 1) [⟨false, .lit 1, sc 0⟩, ⟨true, .lit 1, sc 1⟩]

/-- **Defect of the pinned tree repaired by `fixes/C19-assignment-increment-sign.patch`**: the
operator of the first deferred increment term is dropped. -/
theorem C19_pinned_sign_counterexample :
    ¬ (∀ x y, ip {(0, 0, 0), (1, 0, 0)} (sem signProg zeroStore x) y =
              ip {(0, 0, 0), (1, 0, 0)} x (sem (adjointPinned signProg) zeroStore y)) := by
  intro h
  have := h (unit (1, 0, 0)) (unit (1, 0, 0))
  rw [ip_pair _ _ (by decide), ip_pair _ _ (by decide)] at this
  revert this
  decide

/-! ### non-vacuity and sanity evaluations -/

/-- the fixed construction on `z = a - z`: `a = a + z ; z = -z` -/
example : adjoint signProg =
    seqs [.assign (sc 0) [⟨false, .lit 1, sc 0⟩, ⟨false, .lit 1, sc 1⟩],
          .assign (sc 1) [⟨false, .un .neg (.lit 1), sc 1⟩]] := by decide

example : safe signProg zeroStore = true := by decide
example : safe zeroTripProg zeroStore = false := by decide
example : safe hiddenAliasProg hiddenAliasStore = false := by decide
/-- the same program is safe when `i ≠ n` -/
example : safe hiddenAliasProg (storeOf [((2, 0, 0), 2), ((3, 0, 0), 3)]) = true := by decide

/-- `do i = 1, 6, 2 ; a(i) = 2*a(i) - c*b(i+1) ; if (c > 0) b(i) = a(i)` with c = var 3 -/
def demoProg : Stmt :=
  .loop 2 (.lit 1) (.lit 6) (.lit 2)
    (.seq (.assign (el 0 (.var 2)) [⟨false, .lit 2, el 0 (.var 2)⟩, ⟨true, .var 3, el 1 (.bin .add (.var 2) (.lit 1))⟩])
          (.ite (.bin .gt (.var 3) (.lit 0)) (.assign (el 1 (.var 2)) [⟨false, .lit 1, el 0 (.var 2)⟩]) .skip))
def demoStore : Store := storeOf [((3, 0, 0), 4)]

example : iters 1 6 2 = [1, 3, 5] := by decide
example : iters (6 - Int.tmod (6 - 1) 2) 1 (-2) = [5, 3, 1] := by decide
example : iters 5 4 2 = [] ∧ iters (4 - Int.tmod (4 - 5) 2) 5 (-2) = [5] := by decide
example : spurious 5 4 2 = true ∧ spurious 5 3 2 = false ∧ spurious 1 6 2 = false := by decide
/-- hypotheses of `C19_transpose_partial` are satisfiable on a non-trivial program (loop with
stride 2, increment, subtraction, IF) -/
example : safe demoProg demoStore = true := by decide
example : (touched demoProg demoStore).length = 15 := by decide
example : sem demoProg demoStore (unit (1, 2, 0)) (0, 1, 0) = -4 := by decide
example : sem (adjoint demoProg) demoStore (unit (0, 1, 0)) (1, 2, 0) = -4 := by decide
example : staticallySafe signProg = true := by decide

end C19
