import PsyVerif.Lemmas.DeclsGen
import PsyVerif.Lemmas.DeclsSort
import PsyVerif.Lemmas.DeclsStable
import PsyVerif.Lemmas.DeclsModule3
import PsyVerif.Lemmas.DeclsExpr
/-! # C03 — Re-writing is stable after one round trip

Model: `PsyVerif/Model/Decls.lean`: `writeUnitPinned` (pinned `FortranWriter`: access-statement name
lists in symbol-table order), `writeUnit` (the repaired writer proposed in
corpus/C03/proposed-access-stmt-order.patch: name lists sorted, as `gen_use` already does), `readItems`
(`process_declarations` & co.: routine symbols, `use` statements, derived types first, declarations in
text order with unresolved placeholders for names not yet in scope, access statements), `roundTrip`.

Status on the pinned tree: the property is FALSE.
* `C03_pinned_access_counterexample`: `use m, only: b, a` + `public :: b, a` — pass 1 writes the
  access list in table order (b, a), `gen_use` writes the only-list sorted, so pass 2 sees (a, b).
* `C03_forward_ref_counterexample` (holds for the repaired writer too): a constant that reads a
  variable is written before it (C04 known finding); on re-reading the variable is created where the
  constant mentions it, which moves it in front of the other variables — LFRic `constants_mod.f90`.
What is proved for all inputs
* `C03_no_loss`: executable statements / comments / directives / code blocks (opaque tokens) and the
  contained routines come back exactly (same multiset, same order) from write-then-read.
* `C03_access_canonical` / `C03_access_idem`: the repaired access statements depend only on the SET of
  symbols with non-default visibility, not on their order in the table (nor on Python's set order
  in `process_access_statements`), and re-sorting changes nothing.
* `C03_access_trivial_pinned`: with at most one name per access statement the pinned and the repaired
  writers coincide.
* `C03_params_fixpoint`: the constants, re-listed in the order `_gen_parameter_decls` wrote them, are
  written in exactly that order again.
* `C03_read_write_canonical`: a text without forward references (`cleanText`, decidable) is read into
  its canonical table (contained routines, `use` symbols, derived types, other declarations in text
  order) — for modules and routines.
* `C03_stable_routine` (+ `_pinned`): for every ROUTINE whose written text has no forward reference,
  `write₁ (read₁ (write₁ r)) = write₁ r`.
* `C03_stable_module`: the same for every MODULE that satisfies `ModuleCanon` (routine symbols are
  interface blocks or contained routines, unresolved symbols have default visibility, containers of
  imports present) — repaired writer (sorted access lists); `C03_stable_module_pinned`: pinned writer
  when every access statement names at most one symbol.  Built from `C03_read_write_canonical`,
  `genUses_canonical` / `genDecls_canonical` (write_canonical_id), `visOf_accessible` (the reader recovers
  the visibility of every routine / imported symbol) and `access_perm` + `C03_access_canonical`.
* `C03_stable_unit`, `C03_stable_partial`: a file = list of scoping units (modules, routines, each
  with the host names it sees): if every unit meets the decidable `StableSide`, the second write of the
  file equals the first.
* Expressions inside statements / initial values / array bounds (`Lemmas/DeclsExpr.lean`, model = the shared
  `C02` expression model): `C03_prec_order`, `C03_writer_paren_tables`, `C03_reader_tables` — the tables
  `Gen/DeclsOps.lean`, regenerated on every run by RUNNING the live writer on every two-operator tree (and
  the three-level sign shapes) and the live reader on every two-operator token string, equal what the model
  computes (kernel-evaluated); `C03_expr_text_stable`: every tree of unbounded depth with canonical literals
  outside the class `C02.exposed` is written, re-read and written to the same text; `C03_two_operator_trees`:
  all 819 two-operator trees are (including the exposed ones); `C03_expr_statement_counterexample`: the class
  `exposed` is really unstable (`a + (+b)*c` is written `a + +b * c`, not an expression; `a == (+b)*c` gets
  parentheses on the second write) — known finding C03-sign-before-mul; `C03_stmt_stable`: a statement =
  skeleton + expression holes is stable when its holes are; `C03_select_case_stable`: the conditions
  `_process_case_value(_list)` builds for SELECT CASE (value lists, ranges, logical selectors) are.
The one hypothesis checked on the written text is `cleanText` (no forward reference, every name of an
access statement known, arguments declared); that the re-read table has distinct names is derived
(`canon_nodup`).  The host names (`outer`) of a contained routine are a parameter: that re-reading the
module leaves them unchanged is not part of the file-level statement. -/
namespace C03
open Decls

/-- the second write reproduces the first (a refusal of the first write is not a failure) -/
def stable (w : Decls.Unit → Except Err (List Item)) (u : Decls.Unit) : Bool :=
  match w u, roundTrip w u with
  | .error _, _ => true
  | .ok a, .ok b => a == b
  | .ok _, .error _ => false

/-- The full statement for a writer `w`. -/
def C03_statement (w : Decls.Unit → Except Err (List Item)) : Prop :=
  ∀ u : Decls.Unit, Wf u → stable w u = true

theorem stmtsOf_append (a b : List Item) : stmtsOf (a ++ b) = stmtsOf a ++ stmtsOf b := by
  induction a with
  | nil => rfl
  | cons x r ih => cases x <;> simp [stmtsOf, ih]

theorem routinesOf_append (a b : List Item) : routinesOf (a ++ b) = routinesOf a ++ routinesOf b := by
  induction a with
  | nil => rfl
  | cons x r ih => cases x <;> simp [routinesOf, ih]

theorem stmtsOf_stmts (l : List Nat) : stmtsOf (l.map .stmt) = l := by
  induction l with
  | nil => rfl
  | cons x r ih => simp [stmtsOf, ih]

theorem routinesOf_routines (l : List Name) : routinesOf (l.map .routineDef) = l := by
  induction l with
  | nil => rfl
  | cons x r ih => simp [routinesOf, ih]

theorem stmtsOf_none {l : List Item} (h : ∀ x ∈ l, ∀ t, x ≠ .stmt t) : stmtsOf l = [] := by
  induction l with
  | nil => rfl
  | cons x r ih =>
    have hr := ih (fun y hy => h y (List.mem_cons_of_mem _ hy))
    cases x <;> simp_all [stmtsOf]

theorem routinesOf_none {l : List Item} (h : ∀ x ∈ l, ∀ t, x ≠ .routineDef t) : routinesOf l = [] := by
  induction l with
  | nil => rfl
  | cons x r ih =>
    have hr := ih (fun y hy => h y (List.mem_cons_of_mem _ hy))
    cases x <;> simp_all [routinesOf]

theorem mkAccess_kinds (pl : List Name × List Name) : ∀ x ∈ mkAccess pl, ∃ p ns, x = .access p ns := by
  intro x hx
  unfold mkAccess at hx
  rcases List.mem_append.mp hx with h | h
  · split at h
    · simp at h
    · simp at h; exact ⟨_, _, h⟩
  · split at h
    · simp at h
    · simp at h; exact ⟨_, _, h⟩

theorem writeWith_ok {acc : Decls.Unit → List Item} {u : Decls.Unit} {items : List Item}
    (h : writeWith acc u = .ok items) :
    ∃ ds, genDecls u = .ok ds ∧ items = genUses u.syms ++ ds.map (fun s => .decl (normVis u.isModule s))
      ++ (if u.isModule then .defaultAccess u.defPrivate :: acc u else [])
      ++ u.body.map .stmt ++ (if u.isModule then u.routines.map .routineDef else []) := by
  unfold writeWith at h
  split at h
  · cases h
  · rename_i ds hd; cases h; exact ⟨ds, hd, rfl⟩

theorem readItems_fields {m ow : Bool} {outer args : List Name} {items : List Item} {u' : Decls.Unit}
    (h : readItems m ow outer args items = .ok u') :
    u'.body = stmtsOf items ∧ u'.routines = routinesOf items ∧ u'.args = args := by
  unfold readItems at h
  split at h
  · cases h
  · cases h; exact ⟨rfl, rfl, rfl⟩

/-! ## The property -/

/-- `use m, only: b, a` with `private` default and `public :: b, a` -/
def cexAccess : Decls.Unit :=
  { isModule := true, defPrivate := true,
    syms := [{ name := 10, cls := .container false }, { name := 2, cls := .imported 10 },
             { name := 1, cls := .imported 10 }] }

/-- The pinned writer is not stable: the access list follows the table order, the only-list is sorted. -/
theorem C03_pinned_access_counterexample : ¬ C03_statement writeUnitPinned := by
  intro h
  have := h cexAccess (by decide)
  revert this; decide

/-- the repaired writer is stable on that unit -/
example : stable writeUnit cexAccess = true := by decide

/-- two variables and a constant that inquires about the second variable -/
def cexForward : Decls.Unit :=
  { syms := [{ name := 3, cls := .other }, { name := 1, cls := .other },
             { name := 2, cls := .param, ideps := [1] }] }

/-- Even with sorted access statements the round trip is not stable when a declaration is written
before a declaration it reads (the C04 ordering defect): the reader creates the name early. -/
theorem C03_forward_ref_counterexample : ¬ C03_statement writeUnit := by
  intro h
  have := h cexForward (by decide)
  revert this; decide

/-- Executable statements, comments, directives and code blocks (the opaque body tokens) and the
contained routines are neither lost, duplicated nor re-ordered by write-then-read, whatever the
access-statement policy of the writer. -/
theorem C03_no_loss (acc : Decls.Unit → List Item) (hacc : ∀ u, ∀ x ∈ acc u, ∃ p ns, x = .access p ns)
    (u : Decls.Unit) (items : List Item) (h : writeWith acc u = .ok items) (u' : Decls.Unit)
    (hr : readBack u items = .ok u') :
    u'.body = u.body ∧ (u.isModule = true → u'.routines = u.routines) ∧ u'.args = u.args := by
  obtain ⟨ds, _, rfl⟩ := writeWith_ok h
  obtain ⟨hb, hrt, ha⟩ := readItems_fields hr
  rw [hb, hrt, ha]
  · skip
    have huses : ∀ x ∈ genUses u.syms, ∃ c w o, x = .use c w o := by
      intro x hx; unfold genUses at hx
      obtain ⟨c, _, rfl⟩ := List.mem_map.mp hx; exact ⟨_, _, _, rfl⟩
    have hdecl : ∀ x ∈ ds.map (fun s => Item.decl (normVis u.isModule s)), ∃ s, x = .decl s := by
      intro x hx; obtain ⟨s, _, rfl⟩ := List.mem_map.mp hx; exact ⟨_, rfl⟩
    have hmid : ∀ x ∈ (if u.isModule then Item.defaultAccess u.defPrivate :: acc u else []),
        (∃ p, x = .defaultAccess p) ∨ ∃ p ns, x = .access p ns := by
      intro x hx
      split at hx
      · rcases List.mem_cons.mp hx with rfl | hx
        · left; exact ⟨_, rfl⟩
        · right; exact hacc u x hx
      · simp at hx
    refine ⟨?_, ?_, rfl⟩
    · simp only [stmtsOf_append, stmtsOf_stmts]
      rw [stmtsOf_none, stmtsOf_none, stmtsOf_none, stmtsOf_none]
      · simp
      · intro x hx t hc
        split at hx
        · obtain ⟨_, _, rfl⟩ := List.mem_map.mp hx; cases hc
        · simp at hx
      · intro x hx t hc
        rcases hmid x hx with ⟨_, rfl⟩ | ⟨_, _, rfl⟩ <;> cases hc
      · intro x hx t hc; obtain ⟨_, rfl⟩ := hdecl x hx; cases hc
      · intro x hx t hc; obtain ⟨_, _, _, rfl⟩ := huses x hx; cases hc
    · intro hm
      simp only [routinesOf_append, hm, if_true, routinesOf_routines]
      rw [routinesOf_none, routinesOf_none, routinesOf_none, routinesOf_none]
      · simp
      · intro x hx t hc; obtain ⟨_, _, rfl⟩ := List.mem_map.mp hx; cases hc
      · intro x hx t hc
        rcases hmid x (by simpa [hm] using hx) with ⟨_, rfl⟩ | ⟨_, _, rfl⟩ <;> cases hc
      · intro x hx t hc; obtain ⟨_, _, rfl⟩ := List.mem_map.mp hx; cases hc
      · intro x hx t hc; obtain ⟨_, _, _, rfl⟩ := huses x hx; cases hc

/-- The repaired access statements depend only on which symbols have a non-default visibility, not
on the order in which the table (or Python's `set`) lists them. -/
theorem C03_access_canonical (u u' : Decls.Unit) (h1 : (accessLists u).1.Perm (accessLists u').1)
    (h2 : (accessLists u).2.Perm (accessLists u').2) : genAccess u = genAccess u' := by
  unfold genAccess
  simp only [isort_eq_of_perm h1, isort_eq_of_perm h2]

/-- Sorting is idempotent: names read back from a sorted access statement are written identically. -/
theorem C03_access_idem (l : List Name) : isort (isort l) = isort l := isort_idem l

/-- With at most one name per access statement the pinned writer and the repaired one agree. -/
theorem C03_access_trivial_pinned (u : Decls.Unit) (h1 : (accessLists u).1.length ≤ 1)
    (h2 : (accessLists u).2.length ≤ 1) : writeUnitPinned u = writeUnit u := by
  unfold writeUnitPinned writeUnit writeWith genAccess genAccessPinned
  simp only [isort_short h1, isort_short h2]

/-- the dependency graph re-listed in a given order of its keys -/
def relist (g : PGraph) (out : List Name) : PGraph :=
  out.filterMap fun n => g.find? (fun e => e.1 == n)

theorem find_key {g : PGraph} (hnd : (pkeys g).Nodup) {e : Name × List Name} (he : e ∈ g) :
    g.find? (fun x => x.1 == e.1) = some e := by
  cases hf : g.find? (fun x => x.1 == e.1) with
  | none => have := List.find?_eq_none.mp hf e he; simp at this
  | some e' =>
    have h1 : e' ∈ g := List.mem_of_find?_eq_some hf
    have h2 : e'.1 = e.1 := by simpa using List.find?_some hf
    obtain ⟨a, b⟩ := e
    obtain ⟨a', b'⟩ := e'
    simp only at h2
    subst h2
    have := entry_unique hnd h1 he
    subst this; rfl

/-- The constants, re-listed in the order in which `_gen_parameter_decls` wrote them (this is the
symbol-table order after reading the text back), are written in exactly that order again. -/
theorem C03_params_fixpoint (g : PGraph) (hnd : (pkeys g).Nodup) (out : List Name)
    (h : orderParams g = some out) : orderParams (relist g out) = some out := by
  have hperm := orderAux_perm _ _ _ _ hnd h
  have hresp := orderAux_respects _ _ _ _ hnd h
  have houtnd : out.Nodup := hperm.nodup_iff.mpr hnd
  -- keys of the re-listed graph, for every sub-list of `out`
  have hkeys : ∀ l : List Name, (∀ n ∈ l, n ∈ out) → pkeys (relist g l) = l := by
    intro l
    induction l with
    | nil => intro _; rfl
    | cons n r ih =>
      intro hl
      have hn : n ∈ pkeys g := hperm.subset (hl n (by simp))
      obtain ⟨e, he, rfl⟩ := List.mem_map.mp hn
      simp only [relist, List.filterMap_cons, find_key hnd he]
      simp only [pkeys, List.map_cons]
      congr 1
      exact ih (fun m hm => hl m (List.mem_cons_of_mem _ hm))
  have hk := hkeys out (fun _ h => h)
  have hmem : ∀ e ∈ relist g out, e ∈ g := by
    intro e he
    obtain ⟨n, _, hf⟩ := List.mem_filterMap.mp he
    exact List.mem_of_find?_eq_some hf
  have := orderAux_sorted_id (relist g out).length [] (relist g out) (by rw [hk]; exact houtnd) (Nat.le_refl _)
    (by
      intro pre e post hsplit d hd
      right
      have heg : e ∈ g := hmem e (by rw [hsplit]; simp)
      rcases hresp e.1 e.2 d (by cases e; exact heg) hd with h0 | ⟨hin, hlt⟩
      · simp at h0
      · -- `d` is before `e.1` in `out = pkeys pre ++ e.1 :: pkeys post`
        have hsk : out = pkeys pre ++ e.1 :: pkeys post := by
          rw [← hk, hsplit]; simp [pkeys]
        rw [hsk] at hin hlt houtnd
        have hnotpre : e.1 ∉ pkeys pre := by
          intro hc
          have := (List.nodup_append.mp houtnd).2.2 e.1 hc e.1 (by simp)
          exact this rfl
        by_contra hdp
        rw [List.idxOf_append_of_notMem hdp, List.idxOf_append_of_notMem hnotpre, List.idxOf_cons_self] at hlt
        omega)
  unfold orderParams
  rw [this, hk]

/-- **read_write_canonical**: a written text without forward references is read into its canonical
table: contained routines, `use` symbols, derived types, the other declarations in text order. -/
theorem C03_read_write_canonical (u : Decls.Unit) (items : List Item)
    (h : cleanText u.outer u.args items = true) :
    readBack u items = .ok
      { isModule := u.isModule, defPrivate := defPrivateOf items, outerWild := u.outerWild, outer := u.outer,
        syms := canonSyms items, args := u.args, body := stmtsOf items, routines := routinesOf items } :=
  readItems_clean h

/-- what a routine's written text looks like -/
theorem writeUnit_routine {acc : Decls.Unit → List Item} {u : Decls.Unit} (hm : u.isModule = false)
    {items : List Item} (h : writeWith acc u = .ok items) :
    ∃ ds, genDecls u = .ok ds ∧
      items = (u.syms.filter isContainer).map
          (mkUse fun c => isort (names (u.syms.filter fun s => s.cls == .imported c.name)))
        ++ (ds.map nv).map .decl ++ u.body.map .stmt := by
  obtain ⟨ds, hd, rfl⟩ := writeWith_ok h
  refine ⟨ds, hd, ?_⟩
  simp only [hm, Bool.false_eq_true, if_false, List.append_nil]
  rw [List.map_map]
  rfl

/-- **C03 for routines**: if the text written for a routine contains no forward reference
(`cleanText`: every name a declaration reads is declared earlier, imported or host-associated; decidable)
then writing, reading back and writing again gives exactly the same text. -/
theorem C03_stable_routine (u : Decls.Unit) (w : Wf u) (hm : u.isModule = false) (items : List Item)
    (h : writeUnit u = .ok items) (hclean : cleanText u.outer u.args items = true) :
    roundTrip writeUnit u = .ok items := by
  obtain ⟨ds, hd, hitems⟩ := writeUnit_routine hm h
  unfold roundTrip
  rw [h]
  simp only
  rw [C03_read_write_canonical u items hclean]
  simp only
  -- projections of the written text
  set I := fun c : Sym => isort (names (u.syms.filter fun s => s.cls == .imported c.name)) with hI
  set cs := u.syms.filter isContainer with hcs
  have hplain : ∀ x ∈ items, plainItem x = true := by
    intro x hx
    rw [hitems] at hx
    simp only [List.mem_append, List.mem_map] at hx
    rcases hx with (⟨c, _, rfl⟩ | ⟨s, _, rfl⟩) | ⟨t, _, rfl⟩ <;> rfl
  have hro : routinesOf items = [] := routinesOf_plain hplain
  have hdecls : declsOf items = ds.map nv := by
    rw [hitems]; simp only [declsOf_append, declsOf_uses, declsOf_decls, declsOf_stmts, List.nil_append, List.append_nil]
  have hstm : stmtsOf items = u.body := by
    rw [hitems]; simp only [stmtsOf_append', stmtsOf_uses, stmtsOf_decls, stmtsOf_stmts', List.nil_append, List.append_nil]
  have huse : useSyms items items = cs.flatMap (blk (visOf items) I) := by
    conv => lhs; arg 2; rw [hitems]
    simp only [useSyms_append, useSyms_uses, useSyms_decls, useSyms_stmts, List.append_nil]
  have hcan : canonSyms items = canonTab (cs.flatMap (blk (visOf items) I)) (ds.map nv) := by
    unfold canonSyms canonTab
    rw [hro, hdecls, huse]; simp
  have hH : ∀ s ∈ cs.flatMap (blk (visOf items) I),
      s.cls.declarable = false ∧ s.cls ≠ .unresolved ∧ s.cls ≠ .routineBad := by
    intro s hs
    obtain ⟨c, _, hsc⟩ := List.mem_flatMap.mp hs
    simp only [blk, List.mem_cons] at hsc
    rcases hsc with rfl | hsc
    · simp [headSym, Cls.declarable]
    · obtain ⟨n, _, rfl⟩ := List.mem_map.mp hsc
      simp [Cls.declarable]
  have hgd := genDecls_canonical w hd
    { isModule := u.isModule, defPrivate := defPrivateOf items, outerWild := u.outerWild, outer := u.outer,
      syms := canonSyms items, args := u.args, body := stmtsOf items, routines := routinesOf items }
    (by intro hc; rw [hm] at hc; cases hc) _ hH hcan
  have hcsnd : (names cs).Nodup := names_filter_nodup w.nodup isContainer
  have hE : ∀ s ∈ (ds.map nv).filter isDtype ++ (ds.map nv).filter (fun s => !isDtype s),
      s.cls.declarable = true := by
    intro s hs
    have hsd : s ∈ ds.map nv := by
      rcases List.mem_append.mp hs with h | h <;> exact (List.mem_filter.mp h).1
    obtain ⟨t, ht, rfl⟩ := List.mem_map.mp hsd
    rw [nv_cls]
    have := (genDecls_perm w hd).subset ht
    simpa using (List.mem_filter.mp this).2
  have huses : genUses (canonSyms items) = cs.map (mkUse I) := by
    rw [hcan]; unfold canonTab
    rw [List.append_assoc, genUses_canonical (visOf items) I cs _ hcsnd hE]
    apply List.map_congr_left
    intro c _
    simp only [mkUse, hI, isort_idem]
  unfold writeUnit writeWith
  rw [hgd]
  simp only [hm, Bool.false_eq_true, if_false, List.append_nil, huses, hstm]
  have hnv : List.map (fun s => Item.decl (normVis false s)) (ds.map nv) = (ds.map nv).map .decl := by
    rw [List.map_map, List.map_map]
    apply List.map_congr_left
    intro s _
    exact congrArg Item.decl (nv_idem s)
  rw [hnv, hitems]

/-- in a routine there are no access statements: the pinned writer and the repaired one coincide -/
theorem writeUnitPinned_routine (u : Decls.Unit) (hm : u.isModule = false) : writeUnitPinned u = writeUnit u := by
  unfold writeUnitPinned writeUnit writeWith
  simp [hm]

/-- **C03 for routines, pinned writer**: same statement for the code as it is in the pinned tree. -/
theorem C03_stable_routine_pinned (u : Decls.Unit) (w : Wf u) (hm : u.isModule = false) (items : List Item)
    (h : writeUnitPinned u = .ok items) (hclean : cleanText u.outer u.args items = true) :
    roundTrip writeUnitPinned u = .ok items := by
  rw [writeUnitPinned_routine u hm] at h
  have := C03_stable_routine u w hm items h hclean
  unfold roundTrip at this ⊢
  rw [writeUnitPinned_routine u hm, h] at *
  simp only at this ⊢
  cases hr : readBack u items with
  | error e => rw [hr] at this; exact this
  | ok u' =>
    rw [hr] at this
    simp only at this ⊢
    have hm' : u'.isModule = false := by
      unfold readBack readItems at hr
      split at hr
      · cases hr
      · cases hr; exact hm
    rw [writeUnitPinned_routine u' hm']; exact this

/-- what a module's written text looks like -/
theorem writeUnit_module {u : Decls.Unit} (hm : u.isModule = true) {items : List Item}
    (h : writeUnit u = .ok items) : ∃ ds, genDecls u = .ok ds ∧ ModText u ds items := by
  obtain ⟨ds, hd, rfl⟩ := writeWith_ok h
  refine ⟨ds, hd, ⟨?_⟩⟩
  simp only [hm, if_true]
  rw [List.map_map]
  rfl

/-- **C03 for modules** (repaired writer: access-statement names sorted).  If the module satisfies
`ModuleCanon` (routine symbols are interfaces or contained routines, unresolved symbols have default
visibility, containers of imports are present) and its written text contains no forward reference
(`cleanText`), then writing, reading back and writing again gives the same text. -/
theorem C03_stable_module (u : Decls.Unit) (w : Wf u) (hm : u.isModule = true) (mc : ModuleCanon u)
    (items : List Item) (h : writeUnit u = .ok items) (hclean : cleanText u.outer u.args items = true) :
    roundTrip writeUnit u = .ok items := by
  obtain ⟨ds, hd, ht⟩ := writeUnit_module hm h
  have hnd : (names (canonSyms items)).Nodup := canon_nodup w mc ht hclean
  unfold roundTrip
  rw [h]
  simp only
  rw [C03_read_write_canonical u items hclean]
  simp only
  have hmapid : ds.map (nvm true) = ds := by
    conv => rhs; rw [← List.map_id ds]
    apply List.map_congr_left; intro s _; exact nvm_true s
  have hperm := genDecls_perm w hd
  -- the table of `use` and routine symbols contains nothing that is declared
  have hH : ∀ s ∈ routineTab items u.routines ++ useTab u items,
      s.cls.declarable = false ∧ s.cls ≠ .unresolved ∧ s.cls ≠ .routineBad := by
    intro s hs
    rcases List.mem_append.mp hs with h1 | h1
    · obtain ⟨n, _, rfl⟩ := List.mem_map.mp h1; simp [Cls.declarable]
    · obtain ⟨c, _, hsc⟩ := List.mem_flatMap.mp h1
      simp only [blk, List.mem_cons] at hsc
      rcases hsc with rfl | hsc
      · simp [headSym, Cls.declarable]
      · obtain ⟨n, _, rfl⟩ := List.mem_map.mp hsc
        simp [Cls.declarable]
  have hcan : canonSyms items = canonTab (routineTab items u.routines ++ useTab u items) (ds.map (nvm true)) := by
    rw [ht.canon, hmapid]; rfl
  have hargs : ofCls u.syms .arg = [] := by
    obtain ⟨_, _, _, _, _, ha⟩ := genDecls_ok hd
    exact ha hm
  have hgd := genDecls_canonical (m := true) w hd
    { isModule := u.isModule, defPrivate := defPrivateOf items, outerWild := u.outerWild, outer := u.outer,
      syms := canonSyms items, args := u.args, body := stmtsOf items, routines := routinesOf items }
    (fun _ => hargs) _ hH hcan
  -- `use` statements
  have hcsnd : (names (u.syms.filter isContainer)).Nodup := names_filter_nodup w.nodup isContainer
  have hE : ∀ s ∈ ds.filter isDtype ++ ds.filter (fun s => !isDtype s), s.cls.declarable = true := by
    intro s hs
    have hsd : s ∈ ds := by
      rcases List.mem_append.mp hs with h1 | h1 <;> exact (List.mem_filter.mp h1).1
    simpa using (List.mem_filter.mp (hperm.subset hsd)).2
  have huses : genUses (canonSyms items) = genUses u.syms := by
    rw [ht.canon, List.append_assoc, List.append_assoc, genUses_prefix (by
      intro s hs
      obtain ⟨n, _, rfl⟩ := List.mem_map.mp hs
      exact ⟨by simp [isContainer], fun c => by simp [isImp]⟩)]
    unfold useTab
    rw [genUses_canonical (visOf items) _ _ _ hcsnd hE, genUses_eq]
    apply List.map_congr_left
    intro c _
    simp only [mkUse, isort_idem]
  -- access statements
  have hacc : genAccess
      { isModule := u.isModule, defPrivate := defPrivateOf items, outerWild := u.outerWild, outer := u.outer,
        syms := canonSyms items, args := u.args, body := stmtsOf items, routines := routinesOf items }
      = genAccess u := by
    unfold genAccess accessLists
    simp only [ht.defPrivate]
    cases hdp : u.defPrivate with
    | true =>
      simp only [if_true]
      rw [isort_eq_of_perm (access_perm w mc hd ht hnd (·.pub) (fun a b hab => hab)
        (fun s hs hc => by rw [mc.unresolvedDefault s hs hc, hdp]; rfl))]
    | false =>
      simp only [Bool.false_eq_true, if_false]
      rw [isort_eq_of_perm (access_perm w mc hd ht hnd (fun s => !s.pub) (fun a b hab => by simp [hab])
        (fun s hs hc => by simp [mc.unresolvedDefault s hs hc, hdp]))]
  unfold writeUnit writeWith
  rw [hgd]
  simp only
  rw [huses, hacc, ht.stmts, ht.routines, ht.defPrivate]
  simp only [hm, if_true]
  have hdd : List.map (fun s => Item.decl (normVis true s)) (List.map (nvm true) ds)
      = List.map Item.decl (List.map (nvm true) ds) := by
    apply List.map_congr_left
    intro s _
    rfl
  rw [hdd]
  exact congrArg Except.ok ht.eq.symm

/-- **C03 for modules, pinned writer**: when every access statement names at most one symbol the
pinned `gen_access_stmts` (symbol-table order) writes what the repaired one writes, in both passes. -/
theorem C03_stable_module_pinned (u : Decls.Unit) (w : Wf u) (hm : u.isModule = true) (mc : ModuleCanon u)
    (items : List Item) (h : writeUnitPinned u = .ok items) (hclean : cleanText u.outer u.args items = true)
    (h1 : (accessLists u).1.length ≤ 1) (h2 : (accessLists u).2.length ≤ 1) :
    roundTrip writeUnitPinned u = .ok items := by
  rw [C03_access_trivial_pinned u h1 h2] at h
  obtain ⟨ds, hd, ht⟩ := writeUnit_module hm h
  have hnd : (names (canonSyms items)).Nodup := canon_nodup w mc ht hclean
  have hst := C03_stable_module u w hm mc items h hclean
  unfold roundTrip at hst ⊢
  rw [C03_access_trivial_pinned u h1 h2, h] at *
  simp only at hst ⊢
  rw [C03_read_write_canonical u items hclean] at hst ⊢
  simp only at hst ⊢
  rw [C03_access_trivial_pinned]
  · exact hst
  · -- the access lists of the re-read table are permutations of the original ones
    unfold accessLists
    simp only [ht.defPrivate]
    unfold accessLists at h1
    cases hdp : u.defPrivate with
    | true =>
      simp only [hdp, if_true] at h1 ⊢
      rw [(access_perm w mc hd ht hnd (·.pub) (fun a b hab => hab)
        (fun s hs hc => by rw [mc.unresolvedDefault s hs hc, hdp]; rfl)).length_eq]
      exact h1
    | false => simp
  · unfold accessLists
    simp only [ht.defPrivate]
    unfold accessLists at h2
    cases hdp : u.defPrivate with
    | true => simp
    | false =>
      simp only [hdp, Bool.false_eq_true, if_false] at h2 ⊢
      rw [(access_perm w mc hd ht hnd (fun s => !s.pub) (fun a b hab => by simp [hab])
        (fun s hs hc => by simp [mc.unresolvedDefault s hs hc, hdp])).length_eq]
      exact h2

/-! ### a file: modules and routines -/

/-- apply `g` to every program unit; the first refusal is the result -/
def mapUnits (g : Decls.Unit → Except Err (List Item)) : List Decls.Unit → Except Err (List (List Item))
  | [] => .ok []
  | u :: r =>
    match g u with
    | .error e => .error e
    | .ok a =>
      match mapUnits g r with
      | .error e => .error e
      | .ok b => .ok (a :: b)

theorem mapUnits_congr {g k : Decls.Unit → Except Err (List Item)} :
    ∀ (f : List Decls.Unit), (∀ u ∈ f, g u = k u) → mapUnits g f = mapUnits k f := by
  intro f
  induction f with
  | nil => intro _; rfl
  | cons u r ih =>
    intro h
    simp only [mapUnits, h u (by simp), ih (fun v hv => h v (List.mem_cons_of_mem _ hv))]

/-- the decidable side condition of the stability theorem for one program unit: its written text has no
forward reference; a module in addition satisfies `ModuleCanon` -/
def StableSide (u : Decls.Unit) : Prop :=
  ∀ items, writeUnit u = .ok items →
    cleanText u.outer u.args items = true ∧ (u.isModule = true → ModuleCanon u)

/-- one program unit: the second write reproduces the first (a refusal stays a refusal) -/
theorem C03_stable_unit (u : Decls.Unit) (w : Wf u) (hs : StableSide u) : roundTrip writeUnit u = writeUnit u := by
  cases h : writeUnit u with
  | error e => unfold roundTrip; rw [h]
  | ok items =>
    obtain ⟨hc, hmod⟩ := hs items h
    cases hm : u.isModule with
    | false => exact C03_stable_routine u w hm items h hc
    | true =>
      exact C03_stable_module u w hm (hmod hm) items h hc

/-- **C03 for a file** (module(s) and routines, each a scoping unit with its host names): if every
unit is well-formed and meets `StableSide`, writing the file, reading it back and writing it again
gives exactly the text of the first write. -/
theorem C03_stable_partial (f : List Decls.Unit) (hall : ∀ u ∈ f, Wf u ∧ StableSide u) :
    mapUnits (roundTrip writeUnit) f = mapUnits writeUnit f :=
  mapUnits_congr f (fun u hu => C03_stable_unit u (hall u hu).1 (hall u hu).2)


/-! ### expressions inside statements, initial values and array bounds -/

/-- the live `precedence()` table orders the 16 operator strings exactly as the model's `OpTok.prec`
(every pair compared: `<`, `=`, `>`) — a renumbering that keeps the order is harmless, anything else is not -/
theorem C03_prec_order : orderOf Gen.precTable = orderOf (optoks16.map C02.OpTok.prec) := by decide +kernel

/-- the parenthesis decisions of the LIVE writer on every (parent, child, side) of binary / unary operators and
signed literals, and on the three-level sign shapes, are the model's `parenBin` / `parenSignM .narrow` -/
theorem C03_writer_paren_tables :
    Gen.parenBinBin = mParenBinBin ∧ Gen.parenUnBin = mParenUnBin ∧ Gen.parenLitBin = mParenLitBin ∧
    Gen.parenBinUn = mParenBinUn ∧ Gen.parenUnUn = mParenUnUn ∧ Gen.parenSign3 = mParenSign3 := by
  decide +kernel

/-- what the LIVE reader makes of every `b C d P a` and `U b P a` is what the model's `parse` makes of it -/
theorem C03_reader_tables : Gen.readerNest = mReaderNest ∧ Gen.readerPrefix = mReaderPrefix := by
  decide +kernel

/-- Full statement for expressions: whatever tree the reader can produce is written stably. -/
def C03_expr_statement : Prop :=
  ∀ e : C02.Expr, C02.wf .expr e = true → C02.litsCanonical e = true → textStable e = true

def cexPlusMul : C02.Expr := .bin .add va (.bin .mul (.un .plus vb) vd)
def cexRelMul : C02.Expr := .bin .eq va (.bin .mul (.un .plus vb) vd)

/-- FALSE of the HEAD writer: `a + ((+b)*d)` is written `a + +b * d`, which is not an expression;
`a == ((+b)*d)` is written `a == +b * d`, re-read as `a == +(b*d)` and written `a == (+b * d)`. -/
theorem C03_expr_sign_counterexample :
    textStable cexPlusMul = false ∧ textStable cexRelMul = false ∧
    C02.parse (C02.render .narrow .top cexPlusMul) = none ∧
    C02.exposed .top cexPlusMul = true ∧ C02.exposed .top cexRelMul = true := by decide +kernel

theorem C03_expr_statement_counterexample : ¬ C03_expr_statement := by
  intro h
  have := h cexPlusMul (by decide) (by decide)
  rw [C03_expr_sign_counterexample.1] at this
  exact Bool.noConfusion this

/-- the written text of `e` is read back as `e` itself -/
theorem C03_expr_reread (e : C02.Expr) (h : ExprOK e = true) :
    C02.parse (C02.render .narrow .top e) = some e := by
  simp only [ExprOK, Bool.and_eq_true, Bool.not_eq_true'] at h
  exact reread_exact e h.1.1 h.1.2 h.2

/-- **Expression text is stable** (all constructs of the expression model, unbounded depth): outside the
decidable class `exposed`, write–read–write gives the first text again. -/
theorem C03_expr_text_stable (e : C02.Expr) (h : ExprOK e = true) : textStable e = true :=
  exprOK_stable e h

/-- every two-operator tree — all (parent, child, side) over the 15 binary and 3 unary operators,
including the `exposed` ones and the type-incorrect ones — is written stably -/
theorem C03_two_operator_trees : twoOpTrees.all textStable = true := by decide +kernel

/-- **Statements**: a statement / declaration whose holes are stable expressions is read back as itself,
so the second write is the first. -/
theorem C03_stmt_stable (s : XStmt) (h : ∀ e ∈ s.holes, ExprOK e = true) :
    (XStmt.read s.write).map XStmt.write = some s.write := by
  simp [xstmt_read_write s h]

/-- **SELECT CASE**: the condition the reader builds for a CASE (values compared with `==` / `.EQV.`, ranges
with `>=` `<=` `.AND.`, items joined by right-nested `.OR.`) from sign-free stable pieces is stable. -/
theorem C03_select_case_stable (logical : Bool) (sel : C02.Expr) (items : List CaseItem) (c : C02.Expr)
    (hs : Plain sel = true) (hi : ∀ i ∈ items, PlainItem i = true)
    (hc : caseList logical sel items = some c) : ExprOK c = true ∧ textStable c = true := by
  have := plain_exprOK c (caseList_plain logical sel items c hs hi hc)
  exact ⟨this, exprOK_stable c this⟩

/-! ## non-vacuity and sanity evaluations -/

/-- a routine with imports, constants given out of order, arguments, a derived type and locals -/
def uOk : Decls.Unit :=
  { outer := [20], args := [6, 7],
    syms := [{ name := 10, cls := .container false }, { name := 12, cls := .imported 10 },
             { name := 11, cls := .imported 10 },
             { name := 5, cls := .other, xdeps := [2, 7] }, { name := 3, cls := .param, ideps := [2, 11] },
             { name := 2, cls := .param, ideps := [1, 20] }, { name := 1, cls := .param },
             { name := 7, cls := .arg }, { name := 6, cls := .arg, xdeps := [7, 1] },
             { name := 8, cls := .dtype }, { name := 9, cls := .other, xdeps := [8] }],
    body := [100, 101, 100] }

example : Wf uOk := by decide
example : stable writeUnit uOk = true ∧ stable writeUnitPinned uOk = true := by decide
/-- the hypotheses of `C03_stable_routine` are met by `uOk`; the forward-reference unit is excluded -/
example : uOk.isModule = false ∧ (match writeUnit uOk with
    | .ok items => cleanText uOk.outer uOk.args items | .error _ => false) = true := by decide
example : (match writeUnit cexForward with
    | .ok items => cleanText cexForward.outer cexForward.args items | .error _ => true) = false := by decide
example : (writeUnit uOk).toOption.map (fun l => (declsOf l).map (·.name)) = some [1, 2, 3, 7, 6, 8, 5, 9] := by
  decide
example : orderParams [(3, [2]), (2, [1]), (1, [])] = some [1, 2, 3] ∧
    relist [(3, [2]), (2, [1]), (1, [])] [1, 2, 3] = [(1, []), (2, [1]), (3, [2])] := by decide
/-- the counterexample units are well-formed; the first write succeeds on both -/
example : Wf cexAccess ∧ Wf cexForward ∧ (writeUnitPinned cexAccess).toBool ∧ (writeUnit cexForward).toBool := by
  decide
example : (accessLists cexAccess).1 = [2, 1] := by decide

/-- a private module: imports (one public), an interface, two contained routines (one public), a
constant chain, a derived type and variables; one unresolved name from a wildcard import -/
def mOk : Decls.Unit :=
  { isModule := true, defPrivate := true, routines := [30, 31], body := [],
    syms := [{ name := 30, cls := .skipped, routine := true }, { name := 31, cls := .skipped, routine := true, pub := false },
             { name := 10, cls := .container true }, { name := 12, cls := .imported 10 },
             { name := 11, cls := .imported 10, pub := false },
             { name := 40, cls := .unresolved, pub := false },
             { name := 5, cls := .other, pub := false, xdeps := [2, 8] }, { name := 3, cls := .param, ideps := [2, 11] },
             { name := 2, cls := .param, pub := false, ideps := [1] }, { name := 1, cls := .param },
             { name := 8, cls := .dtype }, { name := 4, cls := .iface, routine := true }] }

example : Wf mOk ∧ ModuleCanon mOk := by decide
example : (match writeUnit mOk with
    | .ok items => cleanText mOk.outer mOk.args items | .error _ => false) = true := by decide
example : (accessLists mOk).1 = [30, 12, 4] ∧ stable writeUnit mOk = true := by decide
/-- here the table order of the three public names (routine, import, interface) is already the order
in which the reader re-creates them, so the pinned writer is stable too; `cexAccess` is where it is not -/
example : stable writeUnitPinned mOk = true := by decide

/-! expressions -/
example : twoOpTrees.length = 819 := by decide +kernel
example : ExprOK (.bin .or (.bin .eqv va vb) vd) = true ∧ ExprOK cexPlusMul = false := by decide +kernel
example : Gen.precTable.length = 16 ∧ Gen.parenBinBin.length = 675 ∧ Gen.readerNest.length = 225 := by decide +kernel
/-- the tables are not trivially equal: the seeded swap of the `.EQV.`/`.OR.` levels is rejected -/
example : orderOf [6, 6, 7, 7, 8, 4, 4, 4, 4, 4, 4, 3, 2, 0, 1, 1] ≠ orderOf (optoks16.map C02.OpTok.prec) := by
  decide +kernel
example : (XStmt.read (XStmt.write ⟨7, [.bin .or (.bin .eqv va vb) vd, .bin .add va vb]⟩)).map XStmt.write =
    some (XStmt.write ⟨7, [.bin .or (.bin .eqv va vb) vd, .bin .add va vb]⟩) := by decide +kernel
example : caseList true va [.value vb, .value vd] = some (.bin .or (.bin .eqv va vb) (.bin .eqv va vd)) := by decide
example : (caseList false va [.range (some vb) (some vd), .value vb, .range none (some vd)]).map textStable = some true := by
  decide +kernel

end C03
