import PsyVerif.Lemmas.LineLenFixed
/-! # C18 — Line-length limiting keeps the program and respects the limit

Model: `PsyVerif/Model/LineLen.lean` (`process`, `processLine`, `loop`, `findBreak`, `lineType` mirror
`FortLineLength.process`, `find_break_point`, `_get_line_type`; tables from `Gen/LineLen.lean`).
Specification of "the same program": `logical` (free-form continuation joining, same file).

Quantification: every text (list of lines over code points), every limit `L` (the model's `Nat`
arithmetic equals Python's for `L > maxAffix = 9`, which covers 40..132).

Mode: the model follows the PINNED code (no fix).  The pinned code violates two clauses of the statement:
* "means exactly the same program": false — `C18_same_program_counterexample` (trailing comment),
  `C18_trailing_blank_counterexample`, `C18_compound_eq_counterexample`; proved instead:
  `C18_same_program_partial` under the decidable side condition `SafeFile`;
* "never fails": false — `C18_total_counterexample`; proved instead `C18_total_partial` under `Breakable`.
The clauses "no line longer than the limit" and "applying the limiter again changes nothing" hold in full:
`C18_length`, `C18_idempotent`.

Call sites (generator.main, Kern.rename_and_write in psyGen.py, kernel_tools.run): the glue "every emitted text is
passed through `process 132` when limiting is requested" is modelled by `emit` below and the clauses are lifted to
all emitted texts (`C18_emit_length`, `C18_emit_idempotent`, `C18_emit_same_program_partial`).  That the real call
sites ARE this glue (for algorithm files with and without invokes, PSy layers, transformed kernels, kernel stubs,
`-l output|all`) is NOT a Lean theorem: it is established on every run by the end-to-end family of the harness
(harness/props/c18_e2e.py), which runs the real entry points and evaluates the clauses on every emitted file against
the unlimited output of the same run. -/
namespace C18

/-! ## helper lemmas -/

theorem processLine_length (L : Nat) (l : Line) (ps : List Line) (h : processLine L l = .ok ps) :
    ∀ p ∈ ps, p.length ≤ L := by
  have aux : ∀ l', SplitShape L (lineType l) l' ps → ∀ p ∈ ps, p.length ≤ L := by
    intro l' hs p hp
    obtain ⟨q1, qs, _, hps, _, hlen, hseg, _⟩ := hs
    subst hps
    rcases List.mem_cons.mp hp with rfl | hp
    · exact hlen
    · exact render_length _ _ _ _ _ hseg p hp
  rcases processLine_shape L l ps h with ⟨h1, rfl⟩ | ⟨_, h2, rfl⟩ | ⟨_, hs | hs⟩
  · simpa using h1
  · simp; omega
  · exact aux _ hs
  · exact aux _ hs

theorem processLine_short (L : Nat) (l : Line) (h : l.length ≤ L) : processLine L l = .ok [l] := by
  unfold processLine
  rw [if_neg (by omega)]

theorem process_short (L : Nat) (ls : List Line) (h : ∀ l ∈ ls, l.length ≤ L) : process L ls = .ok ls := by
  induction ls with
  | nil => rfl
  | cons l ls ih =>
    simp only [process]
    rw [processLine_short L l (h l List.mem_cons_self), ih (fun x hx => h x (List.mem_cons_of_mem _ hx))]
    rfl

theorem process_cons_ok (L : Nat) (l : Line) (ls out : List Line) (h : process L (l :: ls) = .ok out) :
    ∃ ps qs, processLine L l = .ok ps ∧ process L ls = .ok qs ∧ out = ps ++ qs := by
  simp only [process] at h
  split at h
  · cases h
  · rename_i ps hps
    split at h
    · cases h
    · rename_i qs hqs
      cases h
      exact ⟨ps, qs, hps, hqs, rfl⟩

def isOk {α} : Except Err α → Bool
  | .ok _ => true
  | .error _ => false

def okVal {α} : Except Err α → Option α
  | .ok a => some a
  | .error _ => none

def isInternal {α} : Except Err α → Bool
  | .error .internal => true
  | _ => false

def isFuel {α} : Except Err α → Bool
  | .error .fuel => true
  | _ => false

/-- no key of any key list is empty (table fact, re-checked against the regenerated tables) -/
theorem keys_nonempty : ∀ t, ∀ key ∈ Gen.keyList t, key ≠ [] := by
  intro t
  match t with
  | 0 | 1 | 2 | 3 => decide
  | (n + 4) => simp [Gen.keyList]

/-- a blank is a key of every line type (table fact) -/
theorem blank_is_key : ∀ t, [32] ∈ Gen.keyList t := by
  intro t
  match t with
  | 0 | 1 | 2 | 3 => decide
  | (n + 4) => simp [Gen.keyList]

theorem loop_no_fuel (cs ce : Line) (keys : List Line) (L : Nat) (n : Nat) (r : Line)
    (hn : r.length < n) : isFuel (loop cs ce keys L n r) = false := by
  induction n generalizing r with
  | zero => omega
  | succ n ih =>
    simp only [loop]
    split
    · split
      · rfl
      · rename_i bp hbp
        obtain ⟨key, hkey, h1, _, h3, _⟩ := findBreak_spec _ _ _ _ hbp
        have := ih (r.drop bp) (by simp; omega)
        split
        · rfl
        · rename_i e he; rw [he] at this; exact this
    · split <;> rfl

theorem pieces_no_fuel (t L : Nat) (l : Line) (bp : Nat) :
    isFuel (pieces (Gen.contStart t) (Gen.contEnd t) (Gen.keyList t) L l bp) = false := by
  unfold pieces
  have := loop_no_fuel (Gen.contStart t) (Gen.contEnd t) (Gen.keyList t) L (l.length + 1) (l.drop bp)
    (by simp; omega)
  split
  · rfl
  · rename_i e he; rw [he] at this; exact this


/-! ### side condition of the "never fails" clause -/

theorem hasBlank_findBreak (W m : Nat) (s : Line) (keys : List Line) (hk : [32] ∈ keys) (hW : W ≤ m)
    (h : hasBlank W s = true) : ∃ bp, findBreak s m keys = some bp := by
  simp only [hasBlank, List.any_eq_true, List.mem_range, Bool.and_eq_true, decide_eq_true_eq, beq_iff_eq] at h
  obtain ⟨j, hj, hf, hs⟩ := h
  apply findBreak_some_of_rfind s m keys [32] hk
  apply rfind_complete [32] (by simp) _ _ s 0 j (by omega) (by simp; omega)
  obtain ⟨hlt, hget⟩ := List.getElem?_eq_some_iff.mp hs
  rw [List.drop_eq_getElem_cons hlt, hget]
  simp [isPrefix]

theorem suffixesOK_all (csLen W L : Nat) (s : Line) (h : suffixesOK csLen W L s = true) (i : Nat) :
    (s.drop i).length + csLen ≤ L ∨ hasBlank W (s.drop i) = true := by
  simp only [suffixesOK, List.all_eq_true, List.mem_range, Bool.or_eq_true, decide_eq_true_eq] at h
  by_cases hi : i < s.length + 1
  · exact h i hi
  · have h1 := h s.length (by omega)
    have : s.drop i = s.drop s.length := by
      rw [List.drop_eq_nil_iff.mpr (by omega), List.drop_eq_nil_iff.mpr (Nat.le_refl _)]
    rw [this]; exact h1

theorem loop_total (cs ce : Line) (keys : List Line) (hk : [32] ∈ keys) (L : Nat) (n : Nat) (r : Line)
    (hn : r.length < n)
    (h : ∀ i, (r.drop i).length + cs.length ≤ L ∨ hasBlank (L - ce.length - cs.length) (r.drop i) = true) :
    isOk (loop cs ce keys L n r) = true := by
  induction n generalizing r with
  | zero => omega
  | succ n ih =>
    simp only [loop]
    split
    · rename_i hlong
      have h0 := h 0
      simp only [List.drop_zero] at h0
      rcases h0 with h0 | h0
      · omega
      · obtain ⟨bp, hbp⟩ := hasBlank_findBreak _ _ r keys hk (Nat.le_refl _) h0
        rw [hbp]
        obtain ⟨key, hkey, h1, _, h3, _⟩ := findBreak_spec _ _ _ _ hbp
        have := ih (r.drop bp) (by simp; omega) (by intro i; rw [List.drop_drop]; exact h _)
        simp only
        split
        · rfl
        · rename_i e he; rw [he] at this; exact this
    · split <;> rfl

theorem pieces_total (t L : Nat) (l : Line) (bp : Nat)
    (h : ∀ i, ((l.drop bp).drop i).length + (Gen.contStart t).length ≤ L ∨
      hasBlank (L - (Gen.contEnd t).length - (Gen.contStart t).length) ((l.drop bp).drop i) = true) :
    isOk (pieces (Gen.contStart t) (Gen.contEnd t) (Gen.keyList t) L l bp) = true := by
  unfold pieces
  have := loop_total (Gen.contStart t) (Gen.contEnd t) (Gen.keyList t) (blank_is_key t) L (l.length + 1)
    (l.drop bp) (by simp; omega) h
  split
  · rfl
  · rename_i e he; rw [he] at this; exact this

theorem processLine_total (L : Nat) (l : Line) (h : Breakable L l = true) : isOk (processLine L l) = true := by
  unfold processLine
  split
  · rename_i hlong
    simp only [Breakable, Bool.or_eq_true, decide_eq_true_eq, Bool.and_eq_true] at h
    rcases h with h | ⟨h1, h2⟩
    · omega
    · have hsuf := suffixesOK_all _ _ _ _ h2
      simp only
      split
      · rename_i bp hbp
        apply pieces_total
        obtain ⟨key, hkey, hb1, _, hb3, _⟩ := findBreak_spec _ _ _ _ hbp
        intro i
        have : l.drop bp = (lstrip l).drop (bp - fnw l) := by
          rw [← drop_fnw, List.drop_drop]; congr 1; omega
        rw [this, List.drop_drop]
        exact hsuf _
      · split
        · rfl
        · rename_i hns
          rcases h1 with h1 | h1
          · omega
          · obtain ⟨bp, hbp⟩ := hasBlank_findBreak _ (L - (Gen.contEnd (lineType l)).length) (lstrip l)
              (Gen.keyList (lineType l)) (blank_is_key _) (by omega) h1
            rw [hbp]
            simp only
            apply pieces_total
            intro i
            rw [List.drop_drop]
            exact hsuf _
  · rfl


/-! ### the state machine of `logical` on the pieces of one line -/

theorem run_processLine (L : Nat) (st : St) (l : Line) (ps : List Line) (h : processLine L l = .ok ps)
    (hs : l.length ≤ L ∨ safeLine st l = true) : run st ps = step st l := by
  rcases processLine_shape L l ps h with ⟨_, rfl⟩ | ⟨_, _, rfl⟩ | ⟨hlong, hsp⟩
  · exact run_single st l
  · rw [run_single, step_lstrip]
  · have hsafe : safeLine st l = true := by
      rcases hs with hs | hs
      · omega
      · exact hs
    rcases hsp with hsp | hsp
    · exact run_split L st l l ps (Or.inl rfl) hsp hsafe
    · exact run_split L st l (lstrip l) ps (Or.inr rfl) hsp hsafe

theorem run_process (L : Nat) (ls : List Line) : ∀ (st : St) (out : List Line),
    SafeFile L st ls = true → process L ls = .ok out → run st out = run st ls := by
  induction ls with
  | nil => intro st out _ h; simp [process] at h; cases h; rfl
  | cons l ls ih =>
    intro st out hsafe h
    obtain ⟨ps, qs, hps, hqs, rfl⟩ := process_cons_ok L l ls out h
    simp only [SafeFile, Bool.and_eq_true, Bool.or_eq_true, decide_eq_true_eq] at hsafe
    have h1 := run_processLine L st l ps hps hsafe.1
    rw [run_append, h1, run_cons, ih _ qs hsafe.2 hqs]

/-! ## The property -/

/-- The full statement of C18 for the model (all texts, all limits above `maxAffix`). -/
def C18_statement : Prop :=
  ∀ (L : Nat) (ls : List Line), maxAffix < L →
    ∃ out, process L ls = .ok out ∧ (∀ l ∈ out, l.length ≤ L) ∧ logical out = logical ls ∧
      process L out = .ok out

/-- **No output line is longer than the limit** — every text, every limit. -/
theorem C18_length (L : Nat) (ls out : List Line) (h : process L ls = .ok out) :
    ∀ l ∈ out, l.length ≤ L := by
  induction ls generalizing out with
  | nil => simp [process] at h; cases h; simp
  | cons l ls ih =>
    obtain ⟨ps, qs, hps, hqs, rfl⟩ := process_cons_ok L l ls out h
    intro x hx
    rcases List.mem_append.mp hx with hx | hx
    · exact processLine_length L l ps hps x hx
    · exact ih qs hqs x hx

/-- `long_lines` is false of every output. -/
theorem C18_not_long (L : Nat) (ls out : List Line) (h : process L ls = .ok out) : longLines L out = false := by
  have := C18_length L ls out h
  simp only [longLines, List.any_eq_false, decide_eq_true_eq]
  intro l hl; have := this l hl; omega

/-- **Applying the limiter again changes nothing.** -/
theorem C18_idempotent (L : Nat) (ls out : List Line) (h : process L ls = .ok out) :
    process L out = .ok out :=
  process_short L out (C18_length L ls out h)

/-- The model's fuel is adequate: `Err.fuel` is never returned, so every error of the model is the
`InternalError` of `find_break_point`. -/
theorem C18_fuel_adequate (L : Nat) (l : Line) : isFuel (processLine L l) = false := by
  unfold processLine
  split
  · simp only
    split
    · exact pieces_no_fuel _ _ _ _
    · split
      · rfl
      · split
        · exact pieces_no_fuel _ _ _ _
        · rfl
  · rfl


/-- **"Never fails", restricted**: on a text all of whose lines are `Breakable` the limiter returns a result. -/
theorem C18_total_partial (L : Nat) (ls : List Line) (h : ∀ l ∈ ls, Breakable L l = true) :
    ∃ out, process L ls = .ok out := by
  induction ls with
  | nil => exact ⟨[], rfl⟩
  | cons l ls ih =>
    obtain ⟨qs, hqs⟩ := ih (fun x hx => h x (List.mem_cons_of_mem _ hx))
    have := processLine_total L l (h l List.mem_cons_self)
    simp only [process]
    cases hp : processLine L l with
    | error e => rw [hp] at this; cases this
    | ok ps => simp only [hqs]; exact ⟨_, rfl⟩

/-- `x = ` followed by an 80-character name -/
def witUnbreakable : Line := [120, 32, 61, 32] ++ List.replicate 80 97

/-- **"Never fails" is false of the pinned code**: limit 40, an 80-character token → `InternalError`. -/
theorem C18_total_counterexample : isInternal (process 40 [witUnbreakable]) = true := by decide +kernel

example : Breakable 40 witUnbreakable = false := by decide +kernel

/-- `  call sub(alpha, beta, gamma, delta, epsilon, zeta)` is breakable at limit 40 (non-vacuity) -/
def witCall : Line :=
  [32, 32, 99, 97, 108, 108, 32, 115, 117, 98, 40, 97, 108, 112, 104, 97, 44, 32, 98, 101, 116, 97, 44, 32, 103, 97,
   109, 109, 97, 44, 32, 100, 101, 108, 116, 97, 44, 32, 101, 112, 115, 105, 108, 111, 110, 44, 32, 122, 101, 116, 97, 41]

example : Breakable 40 witCall = true ∧ 40 < witCall.length := by decide +kernel
example : okVal (process 40 [witCall]) = some
    [[32, 32, 99, 97, 108, 108, 32, 115, 117, 98, 40, 97, 108, 112, 104, 97, 44, 32, 98, 101, 116, 97, 44, 32, 103,
      97, 109, 109, 97, 44, 32, 100, 101, 108, 116, 97, 44, 32, 38],
     [38, 101, 112, 115, 105, 108, 111, 110, 44, 32, 122, 101, 116, 97, 41]] := by decide +kernel


/-- **Same program, restricted** to texts outside the defect classes of the pinned code: if every line that
has to be split is `safeLine` in the state in which the specification meets it (`SafeFile`: statement and
directive lines without commentary and without trailing white space, directive lines without `==`/`=>`;
comment lines and short lines unrestricted), the output has exactly the logical lines of the input. -/
theorem C18_same_program_partial (L : Nat) (ls out : List Line) (hsafe : SafeFile L St.init ls = true)
    (h : process L ls = .ok out) : logical out = logical ls := by
  unfold logical
  rw [run_process L ls St.init out hsafe h]

/-- `x = 1 + 2 ! a very long trailing comment which` -/
def witComment : Line :=
  [120, 32, 61, 32, 49, 32, 43, 32, 50, 32, 33, 32, 97, 32, 118, 101, 114, 121, 32, 108, 111, 110, 103, 32, 116, 114,
   97, 105, 108, 105, 110, 103, 32, 99, 111, 109, 109, 101, 110, 116, 32, 119, 104, 105, 99, 104]

/-- **"Same program" is false of the pinned code** (limit 40): the trailing comment is split and its second
half becomes the statement `&comment which`. -/
theorem C18_same_program_counterexample :
    (okVal (process 40 [witComment])).map logical ≠ some (logical [witComment]) := by decide +kernel

example : okVal (process 40 [witComment]) = some
    [[120, 32, 61, 32, 49, 32, 43, 32, 50, 32, 33, 32, 97, 32, 118, 101, 114, 121, 32, 108, 111, 110, 103, 32, 116,
      114, 97, 105, 108, 105, 110, 103, 32, 38],
     [38, 99, 111, 109, 109, 101, 110, 116, 32, 119, 104, 105, 99, 104]] := by decide +kernel
example : SafeFile 40 St.init [witComment] = false := by decide +kernel

/-- `x = aaaaaaaa + bbbbbbbbbb + ccccccc &    ` then `  + d` -/
def witTrailingBlank : List Line :=
  [[120, 32, 61, 32, 97, 97, 97, 97, 97, 97, 97, 97, 32, 43, 32, 98, 98, 98, 98, 98, 98, 98, 98, 98, 98, 32, 43, 32,
    99, 99, 99, 99, 99, 99, 99, 32, 38, 32, 32, 32, 32], [32, 32, 43, 32, 100]]

/-- second defect class: blanks after the final `&` of a too-long continued line end the statement early -/
theorem C18_trailing_blank_counterexample :
    (okVal (process 40 witTrailingBlank)).map logical ≠ some (logical witTrailingBlank) := by decide +kernel

/-- `!$omp parallel if(` 27×`a` `==bbbbbbbbbbbbbbbbbbb)` -/
def witCompoundEq : Line :=
  [33, 36, 111, 109, 112, 32, 112, 97, 114, 97, 108, 108, 101, 108, 32, 105, 102, 40] ++ List.replicate 27 97 ++
  [61, 61] ++ List.replicate 19 98 ++ [41]

/-- third defect class: a directive is broken between the two characters of `==` -/
theorem C18_compound_eq_counterexample :
    (okVal (process 40 [witCompoundEq])).map logical ≠ some (logical [witCompoundEq]) := by decide +kernel

/-- The full statement is false of the (model of the) pinned code. -/
theorem C18_statement_false : ¬ C18_statement := by
  intro h
  obtain ⟨out, hout, _⟩ := h 40 [witUnbreakable] (by decide)
  have := C18_total_counterexample
  rw [hout] at this
  cases this

/-! non-vacuity of `C18_same_program_partial`: a text with a continued statement containing a character literal
with `!` and `&`, a directive and a comment, all longer than the limit, satisfies `SafeFile`, is processed, and
its output differs from the input. -/
def witSafe : List Line :=
  [witCall,
   -- `  x = 'a ! b &' // trim(y) // 'and some more text here' &`
   [32, 32, 120, 32, 61, 32, 39, 97, 32, 33, 32, 98, 32, 38, 39, 32, 47, 47, 32, 116, 114, 105, 109, 40, 121, 41, 32,
    47, 47, 32, 39, 97, 110, 100, 32, 115, 111, 109, 101, 32, 109, 111, 114, 101, 32, 116, 101, 120, 116, 32, 104,
    101, 114, 101, 39, 32, 38],
   -- `     & // z`
   [32, 32, 32, 32, 32, 38, 32, 47, 47, 32, 122],
   -- `!$omp parallel do default(shared), private(i,j,k) schedule(static)`
   [33, 36, 111, 109, 112, 32, 112, 97, 114, 97, 108, 108, 101, 108, 32, 100, 111, 32, 100, 101, 102, 97, 117, 108,
    116, 40, 115, 104, 97, 114, 101, 100, 41, 44, 32, 112, 114, 105, 118, 97, 116, 101, 40, 105, 44, 106, 44, 107, 41,
    32, 115, 99, 104, 101, 100, 117, 108, 101, 40, 115, 116, 97, 116, 105, 99, 41],
   -- `   ! a comment that is longer than forty characters, really`
   [32, 32, 32, 33, 32, 97, 32, 99, 111, 109, 109, 101, 110, 116, 32, 116, 104, 97, 116, 32, 105, 115, 32, 108, 111,
    110, 103, 101, 114, 32, 116, 104, 97, 110, 32, 102, 111, 114, 116, 121, 32, 99, 104, 97, 114, 97, 99, 116, 101,
    114, 115, 44, 32, 114, 101, 97, 108, 108, 121]]

example : SafeFile 40 St.init witSafe = true := by decide +kernel
example : (okVal (process 40 witSafe)).map List.length = some 9 := by decide +kernel
example : (okVal (process 40 witSafe)).map logical = some (logical witSafe) := by decide +kernel
example : (logical witSafe).length = 4 := by decide +kernel


/-! ## The call-site glue -/

/-- every emitted text goes through the limiter when limiting is requested (`-l output|all`; always for
transformed kernels) -/
def emit (limit : Bool) (L : Nat) : List (List Line) → Except Err (List (List Line))
  | [] => .ok []
  | t :: ts =>
    match (if limit then process L t else .ok t) with
    | .error e => .error e
    | .ok o =>
      match emit limit L ts with
      | .error e => .error e
      | .ok os => .ok (o :: os)

theorem emit_cons_ok (L : Nat) (t : List Line) (ts : List (List Line)) (os : List (List Line))
    (h : emit true L (t :: ts) = .ok os) :
    ∃ o os', process L t = .ok o ∧ emit true L ts = .ok os' ∧ os = o :: os' := by
  simp only [emit, if_true] at h
  split at h
  · cases h
  · rename_i o ho
    split at h
    · cases h
    · rename_i os' hos
      cases h
      exact ⟨o, os', ho, hos, rfl⟩

/-- no emitted file has a line longer than the limit -/
theorem C18_emit_length (L : Nat) (ts os : List (List Line)) (h : emit true L ts = .ok os) :
    ∀ o ∈ os, ∀ l ∈ o, l.length ≤ L := by
  induction ts generalizing os with
  | nil => simp [emit] at h; cases h; simp
  | cons t ts ih =>
    obtain ⟨o, os', ho, hos, rfl⟩ := emit_cons_ok L t ts os h
    intro x hx
    rcases List.mem_cons.mp hx with rfl | hx
    · exact C18_length L t _ ho
    · exact ih os' hos x hx

/-- re-limiting the emitted files changes nothing -/
theorem C18_emit_idempotent (L : Nat) (ts os : List (List Line)) (h : emit true L ts = .ok os) :
    emit true L os = .ok os := by
  induction ts generalizing os with
  | nil => simp [emit] at h; cases h; rfl
  | cons t ts ih =>
    obtain ⟨o, os', ho, hos, rfl⟩ := emit_cons_ok L t ts os h
    simp only [emit, if_true, C18_idempotent L t o ho, ih os' hos]

/-- every emitted file has the logical lines of its unlimited text (texts outside the defect classes) -/
theorem C18_emit_same_program_partial (L : Nat) (ts os : List (List Line))
    (hsafe : ∀ t ∈ ts, SafeFile L St.init t = true) (h : emit true L ts = .ok os) :
    os.map logical = ts.map logical := by
  induction ts generalizing os with
  | nil => simp [emit] at h; cases h; rfl
  | cons t ts ih =>
    obtain ⟨o, os', ho, hos, rfl⟩ := emit_cons_ok L t ts os h
    simp only [List.map_cons]
    rw [C18_same_program_partial L t o (hsafe t List.mem_cons_self) ho,
      ih os' (fun x hx => hsafe x (List.mem_cons_of_mem _ hx)) hos]


/-! ## FIXED mode: the limiter with the repairs `fixes/C18-compound-operator-split.patch`,
`fixes/C18-unbreakable-fallback.patch`, `fixes/C18-trailing-blank-after-ampersand.patch`
(`Model/LineLenFixed.lean`: `processF`).  The harness selects `process` or `processF` as the deployed model by
probing the live class for `_break_point`; the theorems above are about the pinned definitions, the ones below
about the repaired ones. -/

theorem processLineF_short (L : Nat) (l : Line) (h : l.length ≤ L) : processLineF L l = .ok [l] := by
  unfold processLineF
  rw [if_neg (by omega)]

theorem processF_short (L : Nat) (ls : List Line) (h : ∀ l ∈ ls, l.length ≤ L) : processF L ls = .ok ls := by
  induction ls with
  | nil => rfl
  | cons l ls ih =>
    simp only [processF]
    rw [processLineF_short L l (h l List.mem_cons_self), ih (fun x hx => h x (List.mem_cons_of_mem _ hx))]
    rfl

theorem processF_cons_ok (L : Nat) (l : Line) (ls out : List Line) (h : processF L (l :: ls) = .ok out) :
    ∃ ps qs, processLineF L l = .ok ps ∧ processF L ls = .ok qs ∧ out = ps ++ qs := by
  simp only [processF] at h
  split at h
  · cases h
  · rename_i ps hps
    split at h
    · cases h
    · rename_i qs hqs
      cases h
      exact ⟨ps, qs, hps, hqs, rfl⟩

/-- **No output line is longer than the limit** (repaired code; every text, every limit above `maxAffix = 9`). -/
theorem C18_fixed_length (L : Nat) (hL : maxAffix < L) (ls out : List Line) (h : processF L ls = .ok out) :
    ∀ l ∈ out, l.length ≤ L := by
  rw [maxAffix_eq] at hL
  induction ls generalizing out with
  | nil => simp [processF] at h; cases h; simp
  | cons l ls ih =>
    obtain ⟨ps, qs, hps, hqs, rfl⟩ := processF_cons_ok L l ls out h
    intro x hx
    rcases List.mem_append.mp hx with hx | hx
    · exact processLineF_length L hL l ps hps x hx
    · exact ih qs hqs x hx

/-- **Applying the limiter again changes nothing** (repaired code). -/
theorem C18_fixed_idempotent (L : Nat) (hL : maxAffix < L) (ls out : List Line) (h : processF L ls = .ok out) :
    processF L out = .ok out :=
  processF_short L out (C18_fixed_length L hL ls out h)

theorem run_processLineF (L : Nat) (hL : 9 < L) (st : St) (l : Line) (ps : List Line)
    (h : processLineF L l = .ok ps) (hs : l.length ≤ L ∨ safeLineF st l = true) : run st ps = step st l := by
  rcases processLineF_shape L hL l ps h with ⟨_, rfl⟩ | ⟨hlong, hrest⟩ | ⟨hlong, hrest⟩
  · exact run_single st l
  all_goals
    have hsafe : safeLineF st l = true := by
      rcases hs with hs | hs
      · omega
      · exact hs
    have hw : wrapped l = l := by
      unfold wrapped
      split
      · rename_i hcond
        apply rstrip_of_lastNonWs
        unfold safeLineF noStrip at hsafe
        simp only [Bool.and_eq_true, Bool.or_eq_true, beq_iff_eq, Bool.not_eq_true'] at hsafe hcond
        rcases hsafe.1 with (h1 | h1) | h1
        · simp [h1] at hcond
        · rw [h1] at hcond; simp at hcond
        · exact h1
      · rfl
    rw [hw] at hrest
  · rw [hrest.2, run_single]
  · rcases hrest.2 with ⟨_, rfl⟩ | hsp | hsp
    · rw [run_single, step_lstrip]
    · exact run_splitF L st l l ps (Or.inl rfl) hsp hsafe
    · exact run_splitF L st l (lstrip l) ps (Or.inr rfl) hsp hsafe


theorem run_processF (L : Nat) (hL : 9 < L) (ls : List Line) : ∀ (st : St) (out : List Line),
    SafeFileF L st ls = true → processF L ls = .ok out → run st out = run st ls := by
  induction ls with
  | nil => intro st out _ h; simp [processF] at h; cases h; rfl
  | cons l ls ih =>
    intro st out hsafe h
    obtain ⟨ps, qs, hps, hqs, rfl⟩ := processF_cons_ok L l ls out h
    simp only [SafeFileF, Bool.and_eq_true, Bool.or_eq_true, decide_eq_true_eq] at hsafe
    have h1 := run_processLineF L hL st l ps hps hsafe.1
    rw [run_append, h1, run_cons, ih _ qs hsafe.2 hqs]

/-- **Same program, repaired code**: the side condition `SafeFileF` no longer excludes `==`/`=>` in directives
(every break after `=` is proved to be a token boundary); it still excludes too-long statement/directive lines with
trailing commentary (known finding) or trailing white space. -/
theorem C18_fixed_same_program_partial (L : Nat) (hL : maxAffix < L) (ls out : List Line)
    (hsafe : SafeFileF L St.init ls = true) (h : processF L ls = .ok out) : logical out = logical ls := by
  rw [maxAffix_eq] at hL
  unfold logical
  rw [run_processF L hL ls St.init out hsafe h]

/-- `!$omp parallel num_threads(n=` 16×`a` `==` 25×`b` `)` -/
def witCompoundEq2 : Line :=
  [33, 36, 111, 109, 112, 32, 112, 97, 114, 97, 108, 108, 101, 108, 32, 110, 117, 109, 95, 116, 104, 114, 101, 97, 100, 115, 40, 110, 61] ++ List.replicate 16 97 ++ [61, 61] ++ List.replicate 25 98 ++ [41]

/-- the pinned code cuts this directive between the two `=` … -/
theorem C18_compound_eq_counterexample2 :
    (okVal (process 40 [witCompoundEq2])).map logical ≠ some (logical [witCompoundEq2]) := by decide +kernel
/-- … the repaired code does not, and the text satisfies the (weaker) side condition `SafeFileF`. -/
theorem C18_fixed_compound_eq_witness :
    (okVal (processF 40 [witCompoundEq2])).map logical = some (logical [witCompoundEq2]) ∧
    SafeFileF 40 St.init [witCompoundEq2] = true ∧ SafeFile 40 St.init [witCompoundEq2] = false := by decide +kernel

/-- the old witness has no token boundary in the window: the repaired code refuses (directives are never cut
inside a token) instead of emitting a broken directive -/
theorem C18_fixed_compound_eq_refused : isInternal (processF 40 [witCompoundEq]) = true := by decide +kernel

/-- the unbreakable statement of `C18_total_counterexample` is wrapped by the repaired code, within the limit and
with the same logical lines -/
theorem C18_fixed_unbreakable_witness :
    (okVal (processF 40 [witUnbreakable])).map logical = some (logical [witUnbreakable]) ∧
    (okVal (processF 40 [witUnbreakable])).map List.length = some 4 := by decide +kernel

/-- blanks after the final `&`: repaired -/
theorem C18_fixed_trailing_blank_witness :
    (okVal (processF 40 witTrailingBlank)).map logical = some (logical witTrailingBlank) := by decide +kernel

/-- `!$OMPPARALLELDO` (pinned by test_fail_to_wrap): "never fails" stays false for directives without a token
boundary — known finding C18-unbreakable-raises, now restricted to directive lines -/
theorem C18_fixed_total_counterexample :
    isInternal (processF 14 [[33, 36, 79, 77, 80, 80, 65, 82, 65, 76, 76, 69, 76, 68, 79]]) = true := by decide +kernel

/-- the trailing-comment defect is NOT repaired by the three patches (known finding stays) -/
theorem C18_fixed_same_program_counterexample :
    (okVal (processF 40 [witComment])).map logical ≠ some (logical [witComment]) := by decide +kernel

example : SafeFileF 40 St.init witSafe = true := by decide +kernel
example : (okVal (processF 40 witSafe)).map logical = some (logical witSafe) := by decide +kernel
example : (okVal (processF 40 witSafe)).map List.length = some 9 := by decide +kernel

end C18
