import PsyVerif.Model.Invoke
import PsyVerif.Lemmas.InvokeArgs
import PsyVerif.Lemmas.InvokeFile
/-! # C24 — Generated algorithm and PSy layers agree on invoke arguments

Models: `Model/Invoke.lean` (argument lists and symbol table of ONE invoke), `Model/InvokeFile.lean` (all invokes of
a file: labels, routine names, the two walks of `Alg.gen`; PSy-layer names made by string concatenation; the
PSyIR-based algorithm path).  Lemmas: `Lemmas/InvokeArgs.lean`, `Lemmas/InvokeFile.lean`.

The models follow the FIXED code:
* fixes/C24-stencil-alg-text.patch (committed): stencil extents / directions are passed by their text;
* fixes/C24-two-roles-dedup.patch: an expression used in several roles is passed and declared once;
* fixes/C24-invoke-label-clash.patch: labels are compared as routine names, `invoke_<digit>…` labels are refused.

Quantification: every algorithm file — any number of invokes, of kernel calls, of arguments of every role, any
repetition of texts / roots / spellings, any labels, any reserved names.

Proved for all inputs (default path, `alg_gen.Alg`):
* `C24_same_list`, `C24_same_length`, `C24_binding_coherent`, `C24_actuals_exact`, `C24_actuals_nodup`,
  `C24_dummies_nodup`, `C24_dataflow` (with uniqueness of the position), `C24_literal_passthrough`,
  `C24_accepted_wellformed`, `C24_no_alias_in_kernel`, `C24_holds` (= `C24_statement`),
  `C24_crash_only_if_shared` (the symbol table aborts only when an expression is used in two roles);
* file level: `C24_invoke_matching_any`, `C24_invoke_matching` (k-th rewritten call ↔ routine of the k-th invoke,
  routine names pairwise distinct, a call names exactly one routine).
Refuted, with a partial theorem:
* pinned label check: `C24_routine_names_pinned_counterexample` / `C24_invoke_matching_pinned_partial`;
* names made by string concatenation (`<arg>_proxy`, `map_/ndf_/undf_<space>`): `C24_internal_clash_counterexample`
  / `C24_no_internal_clash_partial` (known finding C24-psy-internal-name-clash, no fix);
* PSyIR-based algorithm path (`LFRIC_TESTING`): `C24_psyir_path_counterexample` / `C24_psyir_path_partial`,
  `C24_psyir_name_counterexample` / `C24_psyir_name_iff` (known findings, path switched off in `generate`). -/
namespace C24

/-! ## helper lemmas -/

theorem mem_regs_pre {k : Kernel} {t : Text} {r : Root} {ro : Role} :
    ((t, r), ro) ∈ (k.filter (isRole .data) ++ k.filter isStencil).filterMap regOf ↔
      ∃ s ∈ k, s.act = .var t r ∧ s.role = ro ∧ ro ≠ .qr := by
  simp only [List.mem_filterMap, List.mem_append, List.mem_filter, isRole, isStencil, decide_eq_true_eq]
  constructor
  · rintro ⟨s, hs, hr⟩
    unfold regOf varOf at hr
    split at hr
    · rename_i t' r' ha
      simp only [Option.map_some, Option.some.injEq, Prod.mk.injEq] at hr
      obtain ⟨⟨rfl, rfl⟩, rfl⟩ := hr
      rcases hs with ⟨hs, hd⟩ | ⟨hs, hst⟩
      · exact ⟨s, hs, ha, rfl, by rw [hd]; decide⟩
      · refine ⟨s, hs, ha, rfl, ?_⟩
        intro e; rw [e] at hst; simp at hst
    · simp at hr
  · rintro ⟨s, hs, ha, rfl, hq⟩
    refine ⟨s, ?_, by simp [regOf, varOf, ha]⟩
    cases hr : s.role
    · exact Or.inl ⟨hs, rfl⟩
    · exact Or.inr ⟨hs, by simp⟩
    · exact Or.inr ⟨hs, by simp⟩
    · exact absurd hr hq

theorem mem_regs_qr {k : Kernel} {t : Text} {r : Root} {ro : Role} :
    ((t, r), ro) ∈ (k.filter (isRole .qr)).filterMap regOf ↔
      ∃ s ∈ k, s.act = .var t r ∧ s.role = ro ∧ ro = .qr := by
  simp only [List.mem_filterMap, List.mem_filter, isRole, decide_eq_true_eq]
  constructor
  · rintro ⟨s, ⟨hs, hq⟩, hr⟩
    unfold regOf varOf at hr
    split at hr
    · rename_i t' r' ha
      simp only [Option.map_some, Option.some.injEq, Prod.mk.injEq] at hr
      obtain ⟨⟨rfl, rfl⟩, rfl⟩ := hr
      exact ⟨s, hs, ha, rfl, hq⟩
    · simp at hr
  · rintro ⟨s, hs, ha, rfl, hq⟩
    exact ⟨s, ⟨hs, hq⟩, by simp [regOf, varOf, ha]⟩

/-- What one accepted kernel-creation step guarantees. -/
theorem kernelStep_ok {st st' : SymTab} {k : Kernel} (h : kernelStep st k = .ok st') (hi : Inv st) :
    Inv st' ∧ (∀ t n, lookupTag st.tags t = some n → lookupTag st'.tags t = some n) ∧
      (∀ s ∈ k, ∀ t r, s.act = .var t r → Registered st' t) ∧ hasDup (dataTexts k) = false := by
  unfold kernelStep at h
  split at h
  · cases h
  · rename_i st1 h1
    split at h
    · cases h
    · rename_i hd
      split at h
      · cases h
      · rename_i st2 h2
        cases h
        have hi1 := regAll_inv _ _ _ h1 hi
        refine ⟨regAll_inv _ _ _ h2 hi1, ?_, ?_, by simpa using hd⟩
        · intro t n hl
          exact regAll_keeps _ _ _ h2 (regAll_keeps _ _ _ h1 hl)
        · intro s hs t r ha
          by_cases hq : s.role = .qr
          · exact regAll_registers _ _ _ h2 ((t, r), s.role) (mem_regs_qr.mpr ⟨s, hs, ha, rfl, hq⟩)
          · have := regAll_registers _ _ _ h1 ((t, r), s.role) (mem_regs_pre.mpr ⟨s, hs, ha, rfl, hq⟩)
            unfold Registered at this ⊢
            obtain ⟨n, hn⟩ := Option.isSome_iff_exists.mp this
            rw [regAll_keeps _ _ _ h2 hn]; rfl

theorem buildK_ok : ∀ (inv : Invoke) (st st' : SymTab), buildK st inv = .ok st' → Inv st →
    Inv st' ∧ (∀ t n, lookupTag st.tags t = some n → lookupTag st'.tags t = some n) ∧
      (∀ k ∈ inv, ∀ s ∈ k, ∀ t r, s.act = .var t r → Registered st' t) ∧
      (∀ k ∈ inv, hasDup (dataTexts k) = false)
  | [], st, st', h, hi => by
    simp only [buildK, Step.ok.injEq] at h
    subst h
    exact ⟨hi, fun _ _ h => h, by simp, by simp⟩
  | k :: ks, st, st', h, hi => by
    simp only [buildK] at h
    split at h
    · rename_i st1 h1
      obtain ⟨hi1, hk1, hr1, hd1⟩ := kernelStep_ok h1 hi
      obtain ⟨hi2, hk2, hr2, hd2⟩ := buildK_ok ks st1 st' h hi1
      refine ⟨hi2, fun t n hl => hk2 t n (hk1 t n hl), ?_, ?_⟩
      · intro k' hk' s hs t r ha
        rcases List.mem_cons.mp hk' with e | hk'
        · subst e
          have := hr1 s hs t r ha
          unfold Registered at this ⊢
          obtain ⟨n, hn⟩ := Option.isSome_iff_exists.mp this
          rw [hk2 t n hn]; rfl
        · exact hr2 k' hk' s hs t r ha
      · intro k' hk'
        rcases List.mem_cons.mp hk' with e | hk'
        · subst e; exact hd1
        · exact hd2 k' hk'
    · cases h
    · cases h

theorem initTab_inv (res : List Name) : Inv (initTab res) := ⟨by simp [initTab], by simp [initTab]⟩

/-- Everything that `generate … = ok out` unfolds to. -/
theorem generate_ok {res : List Name} {inv : Invoke} {out : Output} (h : generate res inv = .ok out) :
    buildK (initTab res) inv = .ok (tableOf res inv) ∧ inv.flatten.any badSlot = false ∧
      out.actuals = actuals inv ∧ out.dummies = dummies (tableOf res inv) inv ∧
      out.kcalls = inv.map (fun k => k.map (kernArg (tableOf res inv))) := by
  unfold generate at h
  split at h
  · cases h
  · cases h
  · rename_i st hb
    split at h
    · cases h
    · rename_i hbad
      have ht : tableOf res inv = st := by simp [tableOf, hb]
      cases h
      exact ⟨by rw [ht, hb], by simpa using hbad, rfl, by rw [ht], by rw [ht]⟩

theorem table_inv {res : List Name} {inv : Invoke} {out : Output} (h : generate res inv = .ok out) :
    Inv (tableOf res inv) :=
  (buildK_ok inv _ _ (generate_ok h).1 (initTab_inv res)).1

theorem table_registered {res : List Name} {inv : Invoke} {out : Output} (h : generate res inv = .ok out)
    {k : Kernel} {s : Slot} {t : Text} {r : Root} (hk : k ∈ inv) (hs : s ∈ k) (ha : s.act = .var t r) :
    Registered (tableOf res inv) t :=
  (buildK_ok inv _ _ (generate_ok h).1 (initTab_inv res)).2.2.1 k hk s hs t r ha

theorem mem_textsOf {inv : Invoke} {ro : Role} {t : Text} :
    t ∈ textsOf ro inv ↔ ∃ k ∈ inv, ∃ s ∈ k, s.role = ro ∧ ∃ r, s.act = .var t r := by
  simp only [textsOf, List.mem_filterMap, List.mem_flatten]
  constructor
  · rintro ⟨s, ⟨k, hk, hs⟩, ht⟩
    unfold textIf at ht
    split at ht
    · rename_i hr
      unfold varOf at ht
      split at ht
      · rename_i t' r' ha
        simp only [Option.map_some, Option.some.injEq] at ht
        subst ht
        exact ⟨k, hk, s, hs, hr, r', ha⟩
      · simp at ht
    · cases ht
  · rintro ⟨k, hk, s, hs, hr, r, ha⟩
    exact ⟨s, ⟨k, hk, hs⟩, by simp [textIf, hr, varOf, ha]⟩

/-- All written non-literal texts, in the order of the four groups. -/
def allTexts (inv : Invoke) : List Text :=
  uniq (textsOf .data inv) ++ uniq (textsOf .extent inv) ++ uniq (textsOf .direction inv)
    ++ uniq (textsOf .qr inv)

theorem mem_allTexts {inv : Invoke} {t : Text} :
    t ∈ allTexts inv ↔ ∃ k ∈ inv, ∃ s ∈ k, ∃ r, s.act = .var t r := by
  simp only [allTexts, List.mem_append, mem_uniq, mem_textsOf]
  constructor
  · rintro (((h | h) | h) | h) <;> obtain ⟨k, hk, s, hs, _, r, ha⟩ := h <;> exact ⟨k, hk, s, hs, r, ha⟩
  · rintro ⟨k, hk, s, hs, r, ha⟩
    cases hr : s.role
    · exact Or.inl (Or.inl (Or.inl ⟨k, hk, s, hs, hr, r, ha⟩))
    · exact Or.inl (Or.inl (Or.inr ⟨k, hk, s, hs, hr, r, ha⟩))
    · exact Or.inl (Or.inr ⟨k, hk, s, hs, hr, r, ha⟩)
    · exact Or.inr ⟨k, hk, s, hs, hr, r, ha⟩

/-- The staged construction of the algorithm list is first-occurrence de-duplication of all groups. -/
theorem actuals_eq (inv : Invoke) : actuals inv = uniq (allTexts inv) := by
  have uu : ∀ l : List Text, uniq (uniq l) = uniq l := fun l => uniqAcc_uniq [] l
  have h1 : ∀ d e x : List Text, uniqAcc (uniq d) (uniq (uniq e ++ uniq x)) = uniqAcc (uniqAcc (uniq d) e) x := by
    intro d e x
    rw [uniqAcc_uniq, uniqAcc_append, uniqAcc_uniq, uniqAcc_uniq]
  unfold actuals allTexts
  rw [h1, uniqAcc_uniq]
  simp only [uniq_append, uniqAcc_uniq, uu]

theorem mem_actuals {inv : Invoke} {t : Text} :
    t ∈ actuals inv ↔ ∃ k ∈ inv, ∃ s ∈ k, ∃ r, s.act = .var t r := by
  rw [actuals_eq, mem_uniq]; exact mem_allTexts

theorem allTexts_registered {res : List Name} {inv : Invoke} {out : Output} (h : generate res inv = .ok out)
    {t : Text} (ht : t ∈ allTexts inv) : Registered (tableOf res inv) t := by
  obtain ⟨k, hk, s, hs, r, ha⟩ := mem_allTexts.mp ht
  exact table_registered h hk hs ha

theorem nameOf_injOn {res : List Name} {inv : Invoke} {out : Output} (h : generate res inv = .ok out)
    (l : List Text) (hl : ∀ t ∈ l, t ∈ allTexts inv) :
    ∀ a ∈ l, ∀ b ∈ l, nameOf (tableOf res inv) a = nameOf (tableOf res inv) b → a = b :=
  fun a ha b hb e => nameOf_inj (table_inv h) (allTexts_registered h (hl a ha)) (allTexts_registered h (hl b hb)) e

/-- The dummy list is the actual list, name by name. -/
theorem dummies_eq {res : List Name} {inv : Invoke} {out : Output} (h : generate res inv = .ok out) :
    dummies (tableOf res inv) inv = (actuals inv).map (nameOf (tableOf res inv)) := by
  have hd : ∀ t ∈ textsOf .data inv, t ∈ allTexts inv := fun t ht => by
    simp only [allTexts, List.mem_append, mem_uniq]; exact Or.inl (Or.inl (Or.inl ht))
  have hq : ∀ t ∈ textsOf .qr inv, t ∈ allTexts inv := fun t ht => by
    simp only [allTexts, List.mem_append, mem_uniq]; exact Or.inr ht
  unfold dummies
  rw [uniq_map _ _ (nameOf_injOn h _ hd), uniq_map _ _ (nameOf_injOn h _ hq), ← List.map_append,
    ← List.map_append, ← List.map_append, actuals_eq]
  exact uniq_map _ _ (nameOf_injOn h _ (fun _ ht => ht))

theorem hasDup_iff {l : List Text} : hasDup l = true ↔ ¬ l.Nodup := by
  induction l with
  | nil => simp [hasDup]
  | cons x xs ih =>
    simp only [hasDup, Bool.or_eq_true, List.contains_iff_mem, ih, List.nodup_cons]
    by_cases hx : x ∈ xs <;> simp [hx]

theorem disjointB_iff {a b : List Text} : disjointB a b = true ↔ ∀ x ∈ a, x ∉ b := by
  simp [disjointB]

/-! ## The property -/

/-- Same length, same order: the actual argument at every position of the rewritten algorithm call is
the source expression of the dummy argument declared at that position of the PSy routine. -/
theorem C24_same_list {res : List Name} {inv : Invoke} {out : Output}
    (h : generate res inv = .ok out) :
    out.actuals = out.dummies.map (sourceOf (tableOf res inv)) := by
  obtain ⟨_, _, ha, hd, _⟩ := generate_ok h
  rw [ha, hd, dummies_eq h, List.map_map]
  have : ∀ t ∈ actuals inv, (sourceOf (tableOf res inv) ∘ nameOf (tableOf res inv)) t = t := by
    intro t ht
    obtain ⟨k, hk, s, hs, r, hv⟩ := mem_actuals.mp ht
    exact sourceOf_nameOf (table_inv h) (table_registered h hk hs hv)
  conv => lhs; rw [← List.map_id (actuals inv)]
  exact List.map_congr_left (fun t ht => (this t ht).symm)

theorem C24_same_length {res : List Name} {inv : Invoke} {out : Output}
    (h : generate res inv = .ok out) : out.actuals.length = out.dummies.length := by
  rw [C24_same_list h, List.length_map]

/-- Position by position: whatever dummy is declared at position `i`, the call passes that dummy's source
expression at position `i`. -/
theorem C24_binding_coherent {res : List Name} {inv : Invoke} {out : Output}
    (h : generate res inv = .ok out) (i : Nat) (n : Name) (hn : out.dummies[i]? = some n) :
    out.actuals[i]? = some (sourceOf (tableOf res inv) n) := by
  rw [C24_same_list h, List.getElem?_map, hn]; rfl

/-- The algorithm call passes exactly the non-literal expressions written in the invoke … -/
theorem C24_actuals_exact {res : List Name} {inv : Invoke} {out : Output}
    (h : generate res inv = .ok out) (t : Text) :
    t ∈ out.actuals ↔ ∃ k ∈ inv, ∃ s ∈ k, ∃ r, s.act = .var t r := by
  rw [(generate_ok h).2.2.1]; exact mem_actuals

/-- … each of them once … -/
theorem C24_actuals_nodup {res : List Name} {inv : Invoke} {out : Output}
    (h : generate res inv = .ok out) : out.actuals.Nodup := by
  rw [(generate_ok h).2.2.1, actuals_eq]; exact nodup_uniq _

/-- … and the PSy routine has a legal dummy-argument list: the names are pairwise distinct, whatever is
repeated, in whatever roles (full theorem on the fixed code; the pinned code declared an expression used as
kernel scalar and stencil extent twice). -/
theorem C24_dummies_nodup {res : List Name} {inv : Invoke} {out : Output}
    (h : generate res inv = .ok out) : out.dummies.Nodup := by
  rw [(generate_ok h).2.2.2.1, dummies_eq h]
  refine nodup_map_of_injOn _ _ (fun a ha b hb e => ?_) (by rw [actuals_eq]; exact nodup_uniq _)
  obtain ⟨k, hk, s, hs, r, hv⟩ := mem_actuals.mp ha
  obtain ⟨k', hk', s', hs', r', hv'⟩ := mem_actuals.mp hb
  exact nameOf_inj (table_inv h) (table_registered h hk hs hv) (table_registered h hk' hs' hv') e

/-- Data flow: for kernel call number `ki` and its argument position `j` holding a non-literal expression
`t`, the PSy layer hands the kernel the symbol `n`, `n` is THE dummy argument at a position `i`, and the
rewritten algorithm call passes `t` at that very position. -/
theorem C24_dataflow {res : List Name} {inv : Invoke} {out : Output}
    (h : generate res inv = .ok out) (ki j : Nat) (k : Kernel) (s : Slot) (t : Text) (r : Root)
    (hk : inv[ki]? = some k) (hs : k[j]? = some s) (ha : s.act = .var t r) :
    ∃ (n : Name) (i : Nat), (out.kcalls[ki]?.bind (·[j]?)) = some (.sym n) ∧
      out.dummies[i]? = some n ∧ out.actuals[i]? = some t ∧
      ∀ i', out.dummies[i']? = some n → i' = i := by
  obtain ⟨_, _, hact, hd, hkc⟩ := generate_ok h
  have hkm : k ∈ inv := List.mem_of_getElem? hk
  have hsm : s ∈ k := List.mem_of_getElem? hs
  have hmem : t ∈ actuals inv := mem_actuals.mpr ⟨k, hkm, s, hsm, r, ha⟩
  obtain ⟨i, hi, hti⟩ := List.getElem_of_mem hmem
  have hdi : out.dummies[i]? = some (nameOf (tableOf res inv) t) := by
    rw [hd, dummies_eq h, List.getElem?_map, List.getElem?_eq_getElem hi, hti]; rfl
  refine ⟨nameOf (tableOf res inv) t, i, ?_, hdi, ?_, ?_⟩
  · rw [hkc, List.getElem?_map, hk]
    simp only [Option.map_some, Option.bind_some, List.getElem?_map, hs]
    simp [kernArg, ha]
  · rw [hact, List.getElem?_eq_getElem hi, hti]
  · intro i' hi'
    obtain ⟨hlt, e⟩ := List.getElem?_eq_some_iff.mp hdi
    obtain ⟨hlt', e'⟩ := List.getElem?_eq_some_iff.mp hi'
    exact (List.getElem_inj (C24_dummies_nodup h)).mp (e'.trans e.symm)

/-- Literals are handed to the kernel unchanged (and, by `C24_actuals_exact`, never appear in the lists). -/
theorem C24_literal_passthrough {res : List Name} {inv : Invoke} {out : Output}
    (h : generate res inv = .ok out) (ki j : Nat) (k : Kernel) (s : Slot) (v : Nat)
    (hk : inv[ki]? = some k) (hs : k[j]? = some s) (ha : s.act = .lit v) :
    (out.kcalls[ki]?.bind (·[j]?)) = some (.lit v) := by
  obtain ⟨_, _, _, _, hkc⟩ := generate_ok h
  rw [hkc, List.getElem?_map, hk]
  simp only [Option.map_some, Option.bind_some, List.getElem?_map, hs]
  simp [kernArg, ha]

/-- An accepted invoke has no argument repeated inside one kernel call and no literal stencil direction. -/
theorem C24_accepted_wellformed {res : List Name} {inv : Invoke} {out : Output}
    (h : generate res inv = .ok out) :
    (∀ k ∈ inv, (dataTexts k).Nodup) ∧
      ¬ ∃ k ∈ inv, ∃ s ∈ k, s.role = .direction ∧ ∃ v, s.act = .lit v := by
  obtain ⟨hb, hbad, _⟩ := generate_ok h
  refine ⟨fun k hk => ?_, ?_⟩
  · have := (buildK_ok inv _ _ hb (initTab_inv res)).2.2.2 k hk
    by_cases hn : (dataTexts k).Nodup
    · exact hn
    · rw [hasDup_iff.mpr hn] at this; cases this
  · rintro ⟨k, hk, s, hs, hr, v, ha⟩
    have : inv.flatten.any badSlot = true := by
      simp only [List.any_eq_true, List.mem_flatten]
      exact ⟨s, ⟨k, hk, hs⟩, by simp [badSlot, hr, ha]⟩
    rw [this] at hbad; cases hbad

/-- In an accepted invoke two different data positions of one kernel call never receive the same symbol. -/
theorem C24_no_alias_in_kernel {res : List Name} {inv : Invoke} {out : Output}
    (h : generate res inv = .ok out) (k : Kernel) (hk : k ∈ inv) :
    ((dataTexts k).map (nameOf (tableOf res inv))).Nodup := by
  refine nodup_map_of_injOn _ _ (fun a ha b hb e => ?_) ((C24_accepted_wellformed h).1 k hk)
  have reg : ∀ t ∈ dataTexts k, Registered (tableOf res inv) t := by
    intro t ht
    obtain ⟨s, hs, hst⟩ := List.mem_filterMap.mp ht
    unfold textIf at hst
    split at hst
    · unfold varOf at hst
      split at hst
      · rename_i t' r' ha'
        simp only [Option.map_some, Option.some.injEq] at hst
        subst hst
        exact table_registered h hk hs ha'
      · simp at hst
    · cases hst
  exact nameOf_inj (table_inv h) (reg a ha) (reg b hb) e

/-- The full statement for one invoke. -/
def C24_statement : Prop :=
  ∀ (res : List Name) (inv : Invoke) (out : Output), generate res inv = .ok out →
    out.actuals = out.dummies.map (sourceOf (tableOf res inv)) ∧ out.dummies.Nodup

theorem C24_holds : C24_statement := fun _ _ _ h => ⟨C24_same_list h, C24_dummies_nodup h⟩

/-! ## aborts: only when an expression is used in two roles -/

def KindsOK (inv : Invoke) (st : SymTab) : Prop :=
  ∀ t k, lookupKind st.kinds t = some k → ∃ ro, k = kindFor ro ∧ t ∈ textsOf ro inv

theorem lookupKind_append (l : List (Text × SymKind)) (t t' : Text) (k : SymKind) :
    lookupKind (l ++ [(t', k)]) t =
      match lookupKind l t with
      | some m => some m
      | none => if t' = t then some k else none := by
  induction l with
  | nil => simp [lookupKind]
  | cons p rest ih =>
    obtain ⟨a, b⟩ := p
    simp only [List.cons_append, lookupKind]
    split
    · rfl
    · exact ih

theorem compat_self (ro : Role) : compat (some (kindFor ro)) ro = true := by cases ro <;> rfl

theorem regR_noCrash {inv : Invoke} {st : SymTab} {q : (Text × Root) × Role}
    (hdis : ∀ t ro ro', t ∈ textsOf ro inv → t ∈ textsOf ro' inv → ro = ro')
    (hk : KindsOK inv st) (hq : q.1.1 ∈ textsOf q.2 inv) :
    ∃ st', regR st q = some st' ∧ KindsOK inv st' := by
  have hc : compat (lookupKind st.kinds q.1.1) q.2 = true := by
    cases hl : lookupKind st.kinds q.1.1 with
    | none => rfl
    | some k =>
      obtain ⟨ro, rfl, hro⟩ := hk _ _ hl
      rw [hdis _ _ _ hro hq]; exact compat_self _
  refine ⟨reg st q.1 (kindFor q.2), by simp [regR, hc], ?_⟩
  unfold reg
  split
  · exact hk
  · intro t k hl
    simp only [lookupKind_append] at hl
    split at hl
    · rename_i m hm; cases hl; exact hk _ _ hm
    · split at hl
      · rename_i e; cases hl; exact ⟨q.2, rfl, e ▸ hq⟩
      · cases hl

theorem regAll_noCrash {inv : Invoke}
    (hdis : ∀ t ro ro', t ∈ textsOf ro inv → t ∈ textsOf ro' inv → ro = ro') :
    ∀ (l : List ((Text × Root) × Role)) (st : SymTab), KindsOK inv st → (∀ q ∈ l, q.1.1 ∈ textsOf q.2 inv) →
      ∃ st', regAll st l = some st' ∧ KindsOK inv st'
  | [], st, hk, _ => ⟨st, rfl, hk⟩
  | q :: rest, st, hk, hq => by
    obtain ⟨st1, h1, hk1⟩ := regR_noCrash hdis hk (hq q (List.mem_cons_self ..))
    obtain ⟨st2, h2, hk2⟩ := regAll_noCrash hdis rest st1 hk1 (fun q' hq' => hq q' (List.mem_cons_of_mem _ hq'))
    exact ⟨st2, by simp [regAll, h1, h2], hk2⟩

theorem kernelStep_noCrash {inv : Invoke} {k : Kernel} (hkin : k ∈ inv)
    (hdis : ∀ t ro ro', t ∈ textsOf ro inv → t ∈ textsOf ro' inv → ro = ro')
    {st : SymTab} (hk : KindsOK inv st) :
    kernelStep st k = .refused ∨ ∃ st', kernelStep st k = .ok st' ∧ KindsOK inv st' := by
  have m1 : ∀ q ∈ (k.filter (isRole .data) ++ k.filter isStencil).filterMap regOf, q.1.1 ∈ textsOf q.2 inv := by
    rintro ⟨⟨t, r⟩, ro⟩ hq
    obtain ⟨s, hs, ha, hr, _⟩ := mem_regs_pre.mp hq
    exact mem_textsOf.mpr ⟨k, hkin, s, hs, hr, r, ha⟩
  have m2 : ∀ q ∈ (k.filter (isRole .qr)).filterMap regOf, q.1.1 ∈ textsOf q.2 inv := by
    rintro ⟨⟨t, r⟩, ro⟩ hq
    obtain ⟨s, hs, ha, hr, _⟩ := mem_regs_qr.mp hq
    exact mem_textsOf.mpr ⟨k, hkin, s, hs, hr, r, ha⟩
  obtain ⟨st1, h1, hk1⟩ := regAll_noCrash hdis _ st hk m1
  obtain ⟨st2, h2, hk2⟩ := regAll_noCrash hdis _ st1 hk1 m2
  unfold kernelStep
  rw [h1]
  by_cases hd : hasDup (dataTexts k) = true
  · left; simp [hd]
  · right; exact ⟨st2, by simp [hd, h2], hk2⟩

theorem buildK_noCrash {inv : Invoke}
    (hdis : ∀ t ro ro', t ∈ textsOf ro inv → t ∈ textsOf ro' inv → ro = ro') :
    ∀ (ks : Invoke), (∀ k ∈ ks, k ∈ inv) → ∀ (st : SymTab), KindsOK inv st → buildK st ks ≠ .crashed
  | [], _, _, _ => by simp [buildK]
  | k :: ks, hsub, st, hk => by
    simp only [buildK]
    rcases kernelStep_noCrash (hsub k (List.mem_cons_self ..)) hdis hk with h | ⟨st', h, hk'⟩
    · rw [h]; simp
    · rw [h]
      exact buildK_noCrash hdis ks (fun k' hk'' => hsub k' (List.mem_cons_of_mem _ hk'')) st' hk'

theorem disjoint_roles {inv : Invoke} (hg : groupsDisjoint inv = true) :
    ∀ t ro ro', t ∈ textsOf ro inv → t ∈ textsOf ro' inv → ro = ro' := by
  simp only [groupsDisjoint, Bool.and_eq_true, disjointB_iff] at hg
  obtain ⟨⟨⟨⟨⟨hde, hdx⟩, hdq⟩, hex⟩, heq⟩, hxq⟩ := hg
  intro t ro ro' h h'
  cases ro <;> cases ro' <;> first
    | rfl
    | exact absurd h' (hde t h) | exact absurd h (hde t h')
    | exact absurd h' (hdx t h) | exact absurd h (hdx t h')
    | exact absurd h' (hdq t h) | exact absurd h (hdq t h')
    | exact absurd h' (hex t h) | exact absurd h (hex t h')
    | exact absurd h' (heq t h) | exact absurd h (heq t h')
    | exact absurd h' (hxq t h) | exact absurd h (hxq t h')

/-- Generation never aborts inside the symbol table unless some expression is used in two different roles. -/
theorem C24_crash_only_if_shared (res : List Name) (inv : Invoke) (hg : groupsDisjoint inv = true) :
    generate res inv ≠ .crashed := by
  have := buildK_noCrash (disjoint_roles hg) inv (fun _ h => h) (initTab res) (by intro t k h; simp [initTab, lookupKind] at h)
  unfold generate
  split
  · rename_i h; exact absurd h this
  · simp
  · split <;> simp

theorem kernelStep_accepts {inv : Invoke} {k : Kernel} (hkin : k ∈ inv)
    (hdis : ∀ t ro ro', t ∈ textsOf ro inv → t ∈ textsOf ro' inv → ro = ro')
    {st : SymTab} (hk : KindsOK inv st) (hnd : hasDup (dataTexts k) = false) :
    ∃ st', kernelStep st k = .ok st' ∧ KindsOK inv st' := by
  rcases kernelStep_noCrash hkin hdis hk with h | h
  · unfold kernelStep at h
    split at h
    · cases h
    · rw [hnd] at h
      simp only [Bool.false_eq_true, if_false] at h
      split at h <;> cases h
  · exact h

theorem buildK_accepts {inv : Invoke}
    (hdis : ∀ t ro ro', t ∈ textsOf ro inv → t ∈ textsOf ro' inv → ro = ro') :
    ∀ (ks : Invoke), (∀ k ∈ ks, k ∈ inv) → (∀ k ∈ ks, hasDup (dataTexts k) = false) →
      ∀ (st : SymTab), KindsOK inv st → ∃ st', buildK st ks = .ok st'
  | [], _, _, st, _ => ⟨st, rfl⟩
  | k :: ks, hsub, hnd, st, hk => by
    obtain ⟨st1, h1, hk1⟩ := kernelStep_accepts (hsub k (List.mem_cons_self ..)) hdis hk (hnd k (List.mem_cons_self ..))
    obtain ⟨st2, h2⟩ := buildK_accepts hdis ks (fun k' h => hsub k' (List.mem_cons_of_mem _ h))
      (fun k' h => hnd k' (List.mem_cons_of_mem _ h)) st1 hk1
    exact ⟨st2, by simp [buildK, h1, h2]⟩

/-- When no expression is used in two roles, an invoke is accepted EXACTLY when no kernel call repeats a data
argument and no stencil direction is a literal (otherwise it is refused with a GenerationError; it never aborts). -/
theorem C24_accepted_iff_of_disjoint (res : List Name) (inv : Invoke) (hg : groupsDisjoint inv = true) :
    (∃ out, generate res inv = .ok out) ↔
      (∀ k ∈ inv, (dataTexts k).Nodup) ∧ ¬ ∃ k ∈ inv, ∃ s ∈ k, s.role = .direction ∧ ∃ v, s.act = .lit v := by
  constructor
  · rintro ⟨out, h⟩; exact C24_accepted_wellformed h
  · rintro ⟨hnd, hlit⟩
    have hnd' : ∀ k ∈ inv, hasDup (dataTexts k) = false := by
      intro k hk
      cases hd : hasDup (dataTexts k) with
      | false => rfl
      | true => exact absurd (hnd k hk) (hasDup_iff.mp hd)
    obtain ⟨st, hst⟩ := buildK_accepts (disjoint_roles hg) inv (fun _ h => h) hnd' (initTab res)
      (by intro t k h; simp [initTab, lookupKind] at h)
    have hbad : inv.flatten.any badSlot = false := by
      cases hb : inv.flatten.any badSlot with
      | false => rfl
      | true =>
        exfalso; apply hlit
        simp only [List.any_eq_true, List.mem_flatten] at hb
        obtain ⟨s, ⟨k, hk, hs⟩, hbs⟩ := hb
        refine ⟨k, hk, s, hs, ?_⟩
        unfold badSlot at hbs
        split at hbs
        · rename_i v hro hac; exact ⟨hro, v, hac⟩
        · cases hbs
    refine ⟨{ actuals := actuals inv, dummies := dummies st inv,
              kcalls := inv.map fun k => k.map (kernArg st) }, ?_⟩
    unfold generate
    rw [hst]
    simp only [hbad, Bool.false_eq_true, if_false]

/-! ## sanity evaluations and non-vacuity -/

/-- The probe of DESIGN.md: `a/A`, `f1/F1`, `fv(1)`, `fv( 2 )`, `fv(3)`: texts a=1 f1=2 f2=3 m1=4 m2=5
fv(1)=6 fv(2)=7 fv(3)=8, root of the three elements = 9 (`fv`); a literal 100 in a built-in. -/
def probe : Invoke :=
  [[⟨.data, .var 1 1, 0⟩, ⟨.data, .var 2 2, 0⟩, ⟨.data, .var 3 3, 0⟩, ⟨.data, .var 4 4, 0⟩, ⟨.data, .var 5 5, 0⟩],
   [⟨.data, .var 1 1, 0⟩, ⟨.data, .var 6 9, 0⟩, ⟨.data, .var 7 9, 0⟩, ⟨.data, .var 4 4, 0⟩, ⟨.data, .var 5 5, 0⟩],
   [⟨.data, .var 2 2, 0⟩, ⟨.data, .lit 100, 0⟩],
   [⟨.data, .var 8 9, 0⟩, ⟨.data, .var 6 9, 0⟩]]

def outOf : Result → Option Output
  | .ok o => some o
  | _ => none

example : (outOf (generate [] probe)).map (·.actuals) = some [1, 2, 3, 4, 5, 6, 7, 8] := by decide
example : (outOf (generate [] probe)).map (·.dummies) =
    some [(1, 0), (2, 0), (3, 0), (4, 0), (5, 0), (9, 0), (9, 1), (9, 2)] := by decide
example : (outOf (generate [] probe)).map (·.kcalls) =
    some [[.sym (1, 0), .sym (2, 0), .sym (3, 0), .sym (4, 0), .sym (5, 0)],
          [.sym (1, 0), .sym (9, 0), .sym (9, 1), .sym (4, 0), .sym (5, 0)],
          [.sym (2, 0), .lit 100],
          [.sym (9, 2), .sym (9, 0)]] := by decide
/-- a reserved name (`cell`, root 7) pushes the argument of that name to `cell_1`. -/
example : (outOf (generate [(7, 0)] [[⟨.data, .var 7 7, 0⟩]])).map (·.dummies) = some [(7, 1)] := by decide
/-- stencil kernel: extents first, then directions (`x_direction` is not passed), then quadrature. -/
example : (outOf (generate [] [[⟨.data, .var 1 1, 0⟩, ⟨.data, .var 2 2, 0⟩, ⟨.extent, .var 10 10, 0⟩, ⟨.direction, .var 11 11, 0⟩,
      ⟨.qr, .var 20 20, 0⟩],
    [⟨.data, .var 1 1, 0⟩, ⟨.data, .var 3 3, 0⟩, ⟨.extent, .var 12 10, 0⟩, ⟨.direction, .dirconst 0, 0⟩,
      ⟨.data, .var 4 4, 0⟩]])).map (·.actuals) = some [1, 2, 3, 4, 10, 12, 11, 20] := by decide
/-- `depth` (2) as kernel scalar, then as stencil extent: passed and declared once (fixed code). -/
def twoRoles : Invoke :=
  [[⟨.data, .var 1 1, 0⟩, ⟨.data, .var 2 2, 0⟩],
   [⟨.data, .var 1 1, 0⟩, ⟨.data, .var 3 3, 0⟩, ⟨.extent, .var 2 2, 0⟩]]
example : (outOf (generate [] twoRoles)).map (fun o => (o.actuals, o.dummies)) =
    some ([1, 2, 3], [(1, 0), (2, 0), (3, 0)]) := by decide
example : groupsDisjoint twoRoles = false := by decide
/-- the other order (extent first, then kernel scalar) aborts with SymbolError; extent then direction and
kernel scalar then direction abort with TypeError; direction then extent / kernel scalar are accepted. -/
example : (match generate [] [[⟨.data, .var 1 1, 0⟩, ⟨.extent, .var 2 2, 0⟩], [⟨.data, .var 2 2, 0⟩]] with
    | .crashed => true | _ => false) = true := by decide
example : (match generate [] [[⟨.data, .var 1 1, 0⟩, ⟨.extent, .var 2 2, 0⟩, ⟨.direction, .var 2 2, 0⟩]] with
    | .crashed => true | _ => false) = true := by decide
example : (match generate [] [[⟨.data, .var 2 2, 0⟩], [⟨.data, .var 1 1, 0⟩, ⟨.extent, .var 3 3, 0⟩, ⟨.direction, .var 2 2, 0⟩]] with
    | .crashed => true | _ => false) = true := by decide
example : (outOf (generate [] [[⟨.data, .var 1 1, 0⟩, ⟨.extent, .var 3 3, 0⟩, ⟨.direction, .var 2 2, 0⟩],
    [⟨.data, .var 2 2, 0⟩, ⟨.extent, .var 2 2, 0⟩]])).map (·.actuals) = some [1, 2, 3] := by decide
/-- the hypotheses of the theorems are satisfiable on non-trivial input -/
example : ∃ out, generate [] probe = .ok out := ⟨_, rfl⟩
example : groupsDisjoint probe = true := by decide
/-- a repeated data argument inside one kernel call is refused; the same text in two kernels is not -/
example : (match generate [] [[⟨.data, .var 1 1, 0⟩, ⟨.data, .var 1 1, 0⟩]] with | .refused => true | _ => false) = true := by
  decide
example : (outOf (generate [] [[⟨.data, .var 1 1, 0⟩], [⟨.data, .var 1 1, 0⟩]])).isSome = true := by decide
/-- a literal direction is refused -/
example : (match generate [] [[⟨.data, .var 1 1, 0⟩, ⟨.extent, .lit 5, 0⟩, ⟨.direction, .lit 6, 0⟩]] with
    | .refused => true | _ => false) = true := by decide
example : (outOf (generate [] [[⟨.data, .var 1 1, 0⟩, ⟨.extent, .lit 5, 0⟩, ⟨.direction, .dirconst 0, 0⟩]])).isSome = true := by
  decide

/-! ## The property, file level: which routine a rewritten call refers to -/

theorem genFileWith_ok {chk : List InvokeDecl → Bool} {res : List Name} {ds : List InvokeDecl} {fo : FileOut}
    (h : genFileWith chk res ds = .ok fo) :
    chk ds = true ∧ ∃ l, psyInvokes res 0 ds = .ok l ∧
      fo.calls = l.map (fun p => (p.name, p.out.actuals)) ∧
      fo.routines = l.map (fun p => (p.name, p.out.dummies)) ∧
      fo.kcalls = l.map (fun p => p.out.kcalls) := by
  unfold genFileWith at h
  split at h
  · cases h
  · rename_i hc
    split at h
    · cases h
    · cases h
    · rename_i l hl
      cases h
      refine ⟨by simpa using hc, l, hl, ?_, rfl, rfl⟩
      have := (psyInvokes_ok res ds 0 l hl).1
      simp only
      rw [← this, rewriteCalls_all]

/-- For ANY number of invokes (either label check): the k-th rewritten call of the algorithm layer carries the
name and the actual arguments of the k-th invoke, and the k-th routine of the PSy module is the one generated
from the k-th invoke (same name, that invoke's dummy list and kernel calls). -/
theorem C24_invoke_matching_any {chk : List InvokeDecl → Bool} {res : List Name} {ds : List InvokeDecl}
    {fo : FileOut} (h : genFileWith chk res ds = .ok fo) :
    fo.calls.length = ds.length ∧ fo.routines.length = ds.length ∧
      ∀ (k : Nat) (d : InvokeDecl), ds[k]? = some d → ∃ o, generate res d.body = .ok o ∧
        fo.calls[k]? = some (routineName k d, o.actuals) ∧
        fo.routines[k]? = some (routineName k d, o.dummies) ∧
        fo.kcalls[k]? = some o.kcalls := by
  obtain ⟨_, l, hl, hc, hr, hk⟩ := genFileWith_ok h
  obtain ⟨hlen, _, hget⟩ := psyInvokes_ok res ds 0 l hl
  refine ⟨by rw [hc, List.length_map, hlen], by rw [hr, List.length_map, hlen], ?_⟩
  intro k d hd
  obtain ⟨o, ho, hlk⟩ := hget k d hd
  simp only [Nat.zero_add] at hlk
  exact ⟨o, ho, by rw [hc, List.getElem?_map, hlk]; rfl, by rw [hr, List.getElem?_map, hlk]; rfl,
    by rw [hk, List.getElem?_map, hlk]; rfl⟩

theorem routine_names_eq {chk : List InvokeDecl → Bool} {res : List Name} {ds : List InvokeDecl}
    {fo : FileOut} (h : genFileWith chk res ds = .ok fo) :
    fo.routines.map Prod.fst = namesFrom 0 ds ∧ fo.calls.map Prod.fst = namesFrom 0 ds := by
  obtain ⟨_, l, hl, hc, hr, _⟩ := genFileWith_ok h
  obtain ⟨_, hn, _⟩ := psyInvokes_ok res ds 0 l hl
  constructor
  · rw [hr, List.map_map, ← hn]; rfl
  · rw [hc, List.map_map, ← hn]; rfl

/-- FIXED code (fixes/C24-invoke-label-clash.patch): matching as above, and the routine names are pairwise
distinct, so every rewritten call refers to exactly one routine of the PSy module: the one of its invoke. -/
theorem C24_invoke_matching {res : List Name} {ds : List InvokeDecl} {fo : FileOut}
    (h : genFile res ds = .ok fo) :
    (∀ (k : Nat) (d : InvokeDecl), ds[k]? = some d → ∃ o, generate res d.body = .ok o ∧
        fo.calls[k]? = some (routineName k d, o.actuals) ∧
        fo.routines[k]? = some (routineName k d, o.dummies)) ∧
      (fo.routines.map Prod.fst).Nodup ∧
      ∀ (k j : Nat) (n : RName) (as : List Text) (dm : List Name),
        fo.calls[k]? = some (n, as) → fo.routines[j]? = some (n, dm) → j = k := by
  have hm := C24_invoke_matching_any h
  have hnd : (fo.routines.map Prod.fst).Nodup := by
    rw [(routine_names_eq h).1]
    exact (names_spec ds [] 0 (by simp) (genFileWith_ok h).1).1
  refine ⟨fun k d hd => ?_, hnd, ?_⟩
  · obtain ⟨o, ho, h1, h2, _⟩ := hm.2.2 k d hd
    exact ⟨o, ho, h1, h2⟩
  · intro k j n as dm hk hj
    have hk' : (fo.calls.map Prod.fst)[k]? = some n := by rw [List.getElem?_map, hk]; rfl
    have hj' : (fo.routines.map Prod.fst)[j]? = some n := by rw [List.getElem?_map, hj]; rfl
    rw [(routine_names_eq h).2, ← (routine_names_eq h).1] at hk'
    obtain ⟨hlt, e⟩ := List.getElem?_eq_some_iff.mp hk'
    obtain ⟨hlt', e'⟩ := List.getElem?_eq_some_iff.mp hj'
    exact (List.getElem_inj hnd).mp (e'.trans e.symm)

/-- The statement about distinct routine names, for the PINNED label check (raw label texts compared). -/
def C24_pinned_names_statement : Prop :=
  ∀ (res : List Name) (ds : List InvokeDecl) (fo : FileOut), genFilePinned res ds = .ok fo →
    (fo.routines.map Prod.fst).Nodup

/-- `call invoke(name="invoke_1", setval_c(f1, 0.0)); call invoke(setval_c(f2, 0.0))`: both routines are
called `invoke_1` on the pinned code. -/
def clashWitness : List InvokeDecl :=
  [⟨some (.preIdx 1), [none], [[⟨.data, .var 1 1, 0⟩, ⟨.data, .lit 9, 0⟩]]⟩,
   ⟨none, [none], [[⟨.data, .var 2 2, 0⟩, ⟨.data, .lit 9, 0⟩]]⟩]

theorem C24_routine_names_pinned_counterexample : ¬ C24_pinned_names_statement := by
  intro h
  have := h [] clashWitness _ rfl
  revert this
  decide

/-- `name="a"` and `name="invoke_a"` in one file: accepted by the pinned check, both called `invoke_a`. -/
example : ¬ (∀ fo, genFilePinned [] [⟨some (.plain 5), [none], [[⟨.data, .var 1 1, 0⟩]]⟩,
    ⟨some (.pre 5), [none], [[⟨.data, .var 2 2, 0⟩]]⟩] = .ok fo → (fo.routines.map Prod.fst).Nodup) := by
  intro h
  have := h _ rfl
  revert this
  decide
/-- both files are refused by the fixed check -/
example : (match genFile [] clashWitness with | .refused => true | _ => false) = true := by decide

/-- Partial theorem for the pinned code: when no label starts with "invoke_" the pinned label check behaves
like the fixed one, so `C24_invoke_matching` applies. -/
theorem C24_invoke_matching_pinned_partial (res : List Name) (ds : List InvokeDecl)
    (hp : noInvokePrefix ds = true) : genFilePinned res ds = genFile res ds := by
  unfold genFilePinned genFile genFileWith
  rw [labelsOKPinned_eq ds [] hp (by simp)]; rfl

/-- non-vacuity: three invokes — named, single user kernel, unnamed with two built-ins -/
def threeInvokes : List InvokeDecl :=
  [⟨some (.plain 7), [none], [[⟨.data, .var 1 1, 0⟩, ⟨.data, .lit 9, 0⟩]]⟩,
   ⟨none, [some 3], [[⟨.data, .var 1 1, 0⟩, ⟨.data, .var 2 2, 0⟩]]⟩,
   ⟨none, [none, none], [[⟨.data, .var 2 2, 0⟩, ⟨.data, .lit 9, 0⟩], [⟨.data, .var 1 1, 0⟩, ⟨.data, .var 2 2, 0⟩]]⟩]
example : noInvokePrefix threeInvokes = true := by decide
def fileOutOf : FileResult → Option FileOut
  | .ok fo => some fo
  | _ => none
example : (fileOutOf (genFile [] threeInvokes)).map (·.calls) =
    some [(.lab 7, [1]), (.idxKern 1 3, [1, 2]), (.idx 2, [2, 1])] := by decide
example : (fileOutOf (genFile [] threeInvokes)).map (·.routines) =
    some [(.lab 7, [(1, 0)]), (.idxKern 1 3, [(1, 0), (2, 0)]), (.idx 2, [(2, 0), (1, 0)])] := by decide

/-! ## PSy-layer internal names (proxies, dofmaps, ndf/undf) against the dummy arguments -/

theorem kernelStep_roots {st st' : SymTab} {k : Kernel} (h : kernelStep st k = .ok st') :
    ∀ p ∈ st'.tags, p ∈ st.tags ∨ ∃ s ∈ k, ∃ r, s.act = .var p.1 r ∧ p.2.1 = r := by
  unfold kernelStep at h
  split at h
  · cases h
  · rename_i st1 h1
    split at h
    · cases h
    · split at h
      · cases h
      · rename_i st2 h2
        cases h
        intro p hp
        rcases regAll_tags _ _ _ h2 p hp with h3 | ⟨q, hq, e1, e2⟩
        · rcases regAll_tags _ _ _ h1 p h3 with h4 | ⟨q, hq, e1, e2⟩
          · exact Or.inl h4
          · obtain ⟨⟨t, r⟩, ro⟩ := q
            obtain ⟨s, hs, ha, _, _⟩ := mem_regs_pre.mp hq
            exact Or.inr ⟨s, hs, r, by simpa [e1] using ha, e2⟩
        · obtain ⟨⟨t, r⟩, ro⟩ := q
          obtain ⟨s, hs, ha, _, _⟩ := mem_regs_qr.mp hq
          exact Or.inr ⟨s, hs, r, by simpa [e1] using ha, e2⟩

theorem buildK_roots : ∀ (inv : Invoke) (st st' : SymTab), buildK st inv = .ok st' →
    ∀ p ∈ st'.tags, p ∈ st.tags ∨ ∃ k ∈ inv, ∃ s ∈ k, ∃ r, s.act = .var p.1 r ∧ p.2.1 = r
  | [], st, st', h, p, hp => by
    simp only [buildK, Step.ok.injEq] at h; subst h; exact Or.inl hp
  | k :: ks, st, st', h, p, hp => by
    simp only [buildK] at h
    split at h
    · rename_i st1 h1
      rcases buildK_roots ks st1 st' h p hp with h2 | ⟨k', hk', s, hs, r, e⟩
      · rcases kernelStep_roots h1 p h2 with h3 | ⟨s, hs, r, e⟩
        · exact Or.inl h3
        · exact Or.inr ⟨k, List.mem_cons_self .., s, hs, r, e⟩
      · exact Or.inr ⟨k', List.mem_cons_of_mem _ hk', s, hs, r, e⟩
    · cases h
    · cases h

/-- Every dummy argument is called after the root of an argument written in the invoke. -/
theorem dummy_root {res : List Name} {inv : Invoke} {out : Output} (h : generate res inv = .ok out)
    {n : Name} (hn : n ∈ dummies (tableOf res inv) inv) :
    ∃ k ∈ inv, ∃ s ∈ k, ∃ t r, s.act = .var t r ∧ n.1 = r := by
  rw [dummies_eq h] at hn
  obtain ⟨t, ht, rfl⟩ := List.mem_map.mp hn
  obtain ⟨k, hk, s, hs, r, hv⟩ := mem_actuals.mp ht
  have hreg := table_registered h hk hs hv
  unfold Registered at hreg
  obtain ⟨n, hl⟩ := Option.isSome_iff_exists.mp hreg
  have hmem := lookupTag_mem hl
  rcases buildK_roots inv _ _ (generate_ok h).1 (t, n) hmem with h0 | ⟨k', hk', s', hs', r', e1, e2⟩
  · simp [initTab] at h0
  · exact ⟨k', hk', s', hs', t, r', e1, by simp only [nameOf, hl, Option.getD_some]; exact e2⟩

/-- The statement one would like: the routine never declares one of its dummy arguments a second time. -/
def C24_internal_names_statement : Prop :=
  ∀ (res : List Name) (inv : Invoke) (I : Internals) (out : Output), generate res inv = .ok out →
    clashes (tableOf res inv) inv I = []

/-- Known finding C24-psy-internal-name-clash: `invoke(testkern_type(a, f1, f1_proxy, …))` — texts/roots
f1 = 1, f1_proxy = 2; the string relation says `f1` + "_proxy" is root 2: the proxy of `f1` IS the dummy. -/
def proxyWitness : Invoke := [[⟨.data, .var 1 1, 0⟩, ⟨.data, .var 2 2, 0⟩]]
def proxyInternals : Internals := { proxied := [1, 2], proxyRoot := [((1, 0), 2)], spaceRoots := [] }

theorem C24_internal_clash_counterexample : ¬ C24_internal_names_statement := by
  intro h
  have := h [] proxyWitness proxyInternals _ rfl
  revert this
  decide

/-- a field called `map_w1` (root 3) in a routine that defines `map_w1` -/
example : clashes (tableOf [] [[⟨.data, .var 1 1, 0⟩, ⟨.data, .var 3 3, 0⟩]]) [[⟨.data, .var 1 1, 0⟩, ⟨.data, .var 3 3, 0⟩]]
    { proxied := [1, 3], proxyRoot := [], spaceRoots := [3] } = [(3, 0)] := by decide

/-- Partial theorem: when no argument of the invoke is called like one of the concatenated names
(`<x>_proxy`, `map_…`, `ndf_…`, `undf_…`), no dummy argument is declared twice or overwritten. -/
theorem C24_no_internal_clash_partial {res : List Name} {inv : Invoke} {I : Internals} {out : Output}
    (h : generate res inv = .ok out) (hn : noReservedNames inv I = true) :
    clashes (tableOf res inv) inv I = [] := by
  unfold clashes
  rw [List.filter_eq_nil_iff]
  intro n hin
  simp only [decide_eq_true_eq]
  intro hd
  have hres : n.1 ∈ reservedRoots I := by
    unfold internalNames at hin
    rcases List.mem_append.mp hin with h1 | h1
    · obtain ⟨t, _, ht⟩ := List.mem_filterMap.mp h1
      cases hl : lookupProxy I.proxyRoot (nameOf (tableOf res inv) t) with
      | none => rw [hl] at ht; simp at ht
      | some r =>
        rw [hl] at ht
        simp only [Option.map_some, Option.some.injEq] at ht
        subst ht
        have : ∀ (l : List (Name × Root)) (m : Name) (r : Root), lookupProxy l m = some r → r ∈ l.map Prod.snd := by
          intro l
          induction l with
          | nil => intro m r hh; simp [lookupProxy] at hh
          | cons p rest ih =>
            intro m r hh
            obtain ⟨a, b⟩ := p
            simp only [lookupProxy] at hh
            split at hh
            · cases hh; simp
            · simp only [List.map_cons, List.mem_cons]; exact Or.inr (ih m r hh)
        exact List.mem_append_left _ (this _ _ _ hl)
    · obtain ⟨r, hr, rfl⟩ := List.mem_map.mp h1
      exact List.mem_append_right _ hr
  obtain ⟨k, hk, s, hs, t, r, ha, e⟩ := dummy_root h hd
  simp only [noReservedNames, List.all_eq_true, List.mem_flatten] at hn
  have := hn s ⟨k, hk, hs⟩
  rw [ha] at this
  simp only [Bool.not_eq_eq_eq_not, Bool.not_true, List.contains_eq_mem, decide_eq_false_iff_not] at this
  exact this (e ▸ hres)

example : noReservedNames proxyWitness proxyInternals = false := by decide
example : noReservedNames probe { proxied := [2, 3], proxyRoot := [((2, 0), 50)], spaceRoots := [60, 61] } = true := by
  decide

/-! ## The PSyIR-based algorithm path (`LFRIC_TESTING`): second `actuals` function -/

/-- The statement one would like: both algorithm paths pass the same list. -/
def C24_psyir_path_statement : Prop := ∀ (inv : Invoke), actualsB inv = actuals inv

/-- Known finding C24-psyir-path-component-repeat: `obj%f2` in one kernel call, `obj%F2` in another — one
text (5), two spelling classes: the PSyIR path passes the expression twice, the PSy routine declares it once. -/
def spellingWitness : Invoke := [[⟨.data, .var 1 1, 1⟩, ⟨.data, .var 5 5, 2⟩], [⟨.data, .var 3 3, 3⟩, ⟨.data, .var 5 5, 4⟩]]

theorem C24_psyir_path_counterexample : ¬ C24_psyir_path_statement := by
  intro h
  have := h spellingWitness
  revert this
  decide

/-- the converse defect: `fa(i+1)` and `fa(1+i)` — two texts (5, 6), one class: passed once, declared twice -/
example : actualsB [[⟨.data, .var 5 9, 7⟩], [⟨.data, .var 6 9, 7⟩]] = [5] ∧
    actuals [[⟨.data, .var 5 9, 7⟩], [⟨.data, .var 6 9, 7⟩]] = [5, 6] := by decide

/-- Partial theorem: when the spelling classes and the texts describe the same partition of the written
expressions, the PSyIR path passes exactly the list of the default path (so all theorems above apply). -/
theorem C24_psyir_path_partial (inv : Invoke) (hc : classesAgree inv = true) : actualsB inv = actuals inv := by
  have hag : ∀ p ∈ allPairs inv, ∀ q ∈ allPairs inv, p.2 = q.2 ↔ p.1 = q.1 := by
    simp only [classesAgree, List.all_eq_true, decide_eq_true_eq] at hc
    exact hc
  have sub : ∀ ro, ∀ p ∈ pairsOf ro inv, p ∈ allPairs inv := by
    intro ro p hp
    simp only [allPairs, List.mem_append]
    cases ro
    · exact Or.inl (Or.inl (Or.inl hp))
    · exact Or.inl (Or.inl (Or.inr hp))
    · exact Or.inl (Or.inr hp)
    · exact Or.inr hp
  -- every stage only ever holds pairs of the invoke
  have stage0 : ∀ ro, ∀ p ∈ uniqByAcc [] (pairsOf ro inv), p ∈ allPairs inv := by
    intro ro p hp
    rcases mem_uniqByAcc_sub _ _ p hp with h | h
    · simp at h
    · exact sub ro p h
  have agree : ∀ (a b : List (Text × Nat)), (∀ p ∈ a, p ∈ allPairs inv) → (∀ p ∈ b, p ∈ allPairs inv) →
      ∀ p ∈ a ++ b, ∀ q ∈ a ++ b, p.2 = q.2 ↔ p.1 = q.1 := by
    intro a b ha hb p hp q hq
    refine hag p ?_ q ?_
    · rcases List.mem_append.mp hp with h | h
      · exact ha p h
      · exact hb p h
    · rcases List.mem_append.mp hq with h | h
      · exact ha q h
      · exact hb q h
  have step : ∀ (a b : List (Text × Nat)), (∀ p ∈ a, p ∈ allPairs inv) → (∀ p ∈ b, p ∈ allPairs inv) →
      (uniqByAcc a b).map Prod.fst = uniqAcc (a.map Prod.fst) (b.map Prod.fst) ∧
      ∀ p ∈ uniqByAcc a b, p ∈ allPairs inv := by
    intro a b ha hb
    refine ⟨uniqByAcc_map b a (agree a b ha hb), ?_⟩
    intro p hp
    rcases mem_uniqByAcc_sub _ _ p hp with h | h
    · exact ha p h
    · exact hb p h
  have u0 : ∀ ro, (uniqByAcc [] (pairsOf ro inv)).map Prod.fst = uniq (textsOf ro inv) := by
    intro ro
    rw [(step [] (pairsOf ro inv) (by simp) (sub ro)).1, pairsOf_map_fst]; rfl
  obtain ⟨e1, m1⟩ := step _ _ (stage0 .data) (stage0 .extent)
  obtain ⟨e2, m2⟩ := step _ _ m1 (stage0 .direction)
  obtain ⟨e3, _⟩ := step _ _ m2 (stage0 .qr)
  unfold actualsB
  rw [e3, e2, e1, u0, u0, u0, u0, actuals_eq]
  have uu : ∀ l : List Text, uniq (uniq l) = uniq l := fun l => uniqAcc_uniq [] l
  unfold allTexts
  simp only [uniq_append, uniqAcc_uniq, uu]

example : classesAgree [[⟨.data, .var 1 1, 1⟩, ⟨.data, .var 2 2, 2⟩], [⟨.data, .var 1 1, 1⟩, ⟨.extent, .var 2 2, 2⟩]] = true := by
  decide
example : classesAgree spellingWitness = false := by decide

/-- Routine name on the PSyIR path: differs from the default path exactly for a LABELLED invoke that
consists of one built-in (the label is ignored there; finding C24-psyir-path-named-builtin). -/
theorem C24_psyir_name_iff (idx : Nat) (d : InvokeDecl) :
    routineNameB idx d ≠ routineName idx d → d.heads = [none] ∧ d.label.isSome := by
  intro hne
  unfold routineNameB at hne
  split at hne
  · rename_i hh
    refine ⟨hh, ?_⟩
    cases hl : d.label with
    | some _ => rfl
    | none => exact absurd (by simp [routineName, hl, hh]) hne
  · exact absurd rfl hne

/-- Known finding C24-psyir-path-named-builtin: `call invoke(name="mine", setval_c(f1, 0.0))` is rewritten to
`call invoke_0(f1)` while the PSy module defines `invoke_mine`. -/
theorem C24_psyir_name_counterexample :
    ¬ ∀ (idx : Nat) (d : InvokeDecl), routineNameB idx d = routineName idx d := by
  intro h
  have := h 0 ⟨some (.plain 7), [none], []⟩
  revert this
  decide

end C24
