import PsyVerif.Model.Invoke
import PsyVerif.Lemmas.InvokeArgs
/-! # C24 — Generated algorithm and PSy layers agree on invoke arguments

Model: `PsyVerif/Model/Invoke.lean` (FIXED code: fixes/C24-stencil-alg-text.patch — the stencil extent /
direction entries of the algorithm-layer list are the argument texts, not the PSy-layer names).
Quantification: every invoke — any number of kernel calls, any number of arguments of every role, any
repetition of texts and roots, any set of reserved names.

Result: the positional agreement of the two lists, the data flow into every kernel argument, literal
pass-through and the exact content of the lists hold for ALL invokes.  Pairwise distinct dummy names do
NOT hold for all invokes on the pinned code (the same expression used in two different roles, e.g. an
integer passed both as a kernel scalar and as a stencil extent, is declared twice): `C24_statement` is
refuted on a witness and `C24_dummies_nodup_partial` is proved under `groupsDisjoint`. -/
namespace C24

/-! ## helper lemmas -/

theorem mem_regOrder {k : Kernel} {s : Slot} : s ∈ regOrder k ↔ s ∈ k := by
  simp only [regOrder, List.mem_append, List.mem_filter, isRole, isStencil, decide_eq_true_eq]
  constructor
  · rintro ((h | h) | h) <;> exact h.1
  · intro h
    cases hr : s.role <;> simp [h]

theorem mem_regList {inv : Invoke} {t : Text} {r : Root} :
    (t, r) ∈ regList inv ↔ ∃ k ∈ inv, ∃ s ∈ k, s.act = .var t r := by
  simp only [regList, List.mem_flatten, List.mem_map]
  constructor
  · rintro ⟨l, ⟨k, hk, rfl⟩, hl⟩
    obtain ⟨s, hs, hv⟩ := List.mem_filterMap.mp hl
    refine ⟨k, hk, s, mem_regOrder.mp hs, ?_⟩
    unfold varOf at hv
    split at hv
    · cases hv; assumption
    · cases hv
  · rintro ⟨k, hk, s, hs, ha⟩
    refine ⟨_, ⟨k, hk, rfl⟩, List.mem_filterMap.mpr ⟨s, mem_regOrder.mpr hs, ?_⟩⟩
    simp [varOf, ha]

theorem build_inv (res : List Name) (inv : Invoke) : Inv (build res inv) :=
  foldl_reg_inv _ _ ⟨by simp, by simp⟩

theorem build_registered {res : List Name} {inv : Invoke} {k : Kernel} {s : Slot} {t : Text} {r : Root}
    (hk : k ∈ inv) (hs : s ∈ k) (ha : s.act = .var t r) : Registered (build res inv) t :=
  foldl_reg_registers (regList inv) _ (t, r) (mem_regList.mpr ⟨k, hk, s, hs, ha⟩)

theorem mem_textsOf {inv : Invoke} {ro : Role} {t : Text} :
    t ∈ textsOf ro inv ↔ ∃ k ∈ inv, ∃ s ∈ k, s.role = ro ∧ ∃ r, s.act = .var t r := by
  simp only [textsOf, List.mem_filterMap, List.mem_flatten]
  constructor
  · rintro ⟨s, ⟨k, hk, hs⟩, ht⟩
    unfold textIf at ht
    split at ht
    · rename_i hr
      unfold varOf at ht
      split at ht
      · rename_i t' r' ha
        simp only [Option.map_some, Option.some.injEq] at ht
        subst ht
        exact ⟨k, hk, s, hs, hr, r', ha⟩
      · simp at ht
    · cases ht
  · rintro ⟨k, hk, s, hs, hr, r, ha⟩
    exact ⟨s, ⟨k, hk, hs⟩, by simp [textIf, hr, varOf, ha]⟩

theorem textsOf_registered {res : List Name} {inv : Invoke} {ro : Role} {t : Text}
    (h : t ∈ textsOf ro inv) : Registered (build res inv) t := by
  obtain ⟨k, hk, s, hs, _, r, ha⟩ := mem_textsOf.mp h
  exact build_registered hk hs ha

theorem nameOf_injOn (res : List Name) (inv : Invoke) (ro : Role) :
    ∀ a ∈ textsOf ro inv, ∀ b ∈ textsOf ro inv,
      nameOf (build res inv) a = nameOf (build res inv) b → a = b :=
  fun _ ha _ hb e => nameOf_inj (build_inv res inv) (textsOf_registered ha) (textsOf_registered hb) e

/-- The dummy list is the actual list, name by name. -/
theorem dummies_eq (res : List Name) (inv : Invoke) :
    dummies (build res inv) inv = (actuals inv).map (nameOf (build res inv)) := by
  simp only [dummies, actuals, List.map_append]
  rw [uniq_map _ _ (nameOf_injOn res inv .data), uniq_map _ _ (nameOf_injOn res inv .qr)]

theorem mem_actuals {inv : Invoke} {t : Text} :
    t ∈ actuals inv ↔ ∃ k ∈ inv, ∃ s ∈ k, ∃ r, s.act = .var t r := by
  simp only [actuals, List.mem_append, mem_uniq, mem_textsOf]
  constructor
  · rintro (((h | h) | h) | h) <;> obtain ⟨k, hk, s, hs, _, r, ha⟩ := h <;> exact ⟨k, hk, s, hs, r, ha⟩
  · rintro ⟨k, hk, s, hs, r, ha⟩
    cases hr : s.role
    · exact Or.inl (Or.inl (Or.inl ⟨k, hk, s, hs, hr, r, ha⟩))
    · exact Or.inl (Or.inl (Or.inr ⟨k, hk, s, hs, hr, r, ha⟩))
    · exact Or.inl (Or.inr ⟨k, hk, s, hs, hr, r, ha⟩)
    · exact Or.inr ⟨k, hk, s, hs, hr, r, ha⟩

theorem actuals_registered {res : List Name} {inv : Invoke} {t : Text} (h : t ∈ actuals inv) :
    Registered (build res inv) t := by
  obtain ⟨k, hk, s, hs, r, ha⟩ := mem_actuals.mp h
  exact build_registered hk hs ha

theorem generate_some {res : List Name} {inv : Invoke} {out : Output} (h : generate res inv = some out) :
    out.actuals = actuals inv ∧ out.dummies = dummies (build res inv) inv ∧
      out.kcalls = inv.map (fun k => k.map (kernArg (build res inv))) := by
  unfold generate at h
  split at h
  · cases h
  · cases h; exact ⟨rfl, rfl, rfl⟩

theorem disjointB_iff {a b : List Text} : disjointB a b = true ↔ ∀ x ∈ a, x ∉ b := by
  simp [disjointB]

theorem nodup_append_uniq {a b : List Text} (ha : a.Nodup) (hb : b.Nodup) (h : ∀ x ∈ a, x ∉ b) :
    (a ++ b).Nodup := by
  rw [List.nodup_append]
  exact ⟨ha, hb, fun x hx y hy e => h x hx (e ▸ hy)⟩

theorem hasDup_iff {l : List Text} : hasDup l = true ↔ ¬ l.Nodup := by
  induction l with
  | nil => simp [hasDup]
  | cons x xs ih =>
    simp only [hasDup, Bool.or_eq_true, List.contains_iff_mem, ih, List.nodup_cons]
    by_cases hx : x ∈ xs <;> simp [hx]

/-! ## The property -/

/-- Same length, same order: the actual argument at every position of the rewritten algorithm call is
the source expression of the dummy argument declared at that position of the PSy routine. -/
theorem C24_same_list {res : List Name} {inv : Invoke} {out : Output}
    (h : generate res inv = some out) :
    out.actuals = out.dummies.map (sourceOf (build res inv)) := by
  obtain ⟨ha, hd, _⟩ := generate_some h
  rw [ha, hd, dummies_eq, List.map_map]
  have : ∀ t ∈ actuals inv, (sourceOf (build res inv) ∘ nameOf (build res inv)) t = t :=
    fun t ht => sourceOf_nameOf (build_inv res inv) (actuals_registered ht)
  conv => lhs; rw [← List.map_id (actuals inv)]
  exact List.map_congr_left (fun t ht => (this t ht).symm)

theorem C24_same_length {res : List Name} {inv : Invoke} {out : Output}
    (h : generate res inv = some out) : out.actuals.length = out.dummies.length := by
  rw [C24_same_list h, List.length_map]

/-- Position by position (also when a name is declared twice): whatever dummy is declared at position
`i`, the call passes that dummy's source expression at position `i`. -/
theorem C24_binding_coherent {res : List Name} {inv : Invoke} {out : Output}
    (h : generate res inv = some out) (i : Nat) (n : Name) (hn : out.dummies[i]? = some n) :
    out.actuals[i]? = some (sourceOf (build res inv) n) := by
  rw [C24_same_list h, List.getElem?_map, hn]; rfl

/-- The algorithm call passes exactly the non-literal expressions written in the invoke. -/
theorem C24_actuals_exact {res : List Name} {inv : Invoke} {out : Output}
    (h : generate res inv = some out) (t : Text) :
    t ∈ out.actuals ↔ ∃ k ∈ inv, ∃ s ∈ k, ∃ r, s.act = .var t r := by
  rw [(generate_some h).1]; exact mem_actuals

/-- Data flow: for kernel call number `ki` and its argument position `j` holding a non-literal expression
`t`, the PSy layer hands the kernel the symbol `n`, `n` is a dummy argument (at some position `i`), and the
rewritten algorithm call passes `t` at that very position. -/
theorem C24_dataflow {res : List Name} {inv : Invoke} {out : Output}
    (h : generate res inv = some out) (ki j : Nat) (k : Kernel) (s : Slot) (t : Text) (r : Root)
    (hk : inv[ki]? = some k) (hs : k[j]? = some s) (ha : s.act = .var t r) :
    ∃ (n : Name) (i : Nat), (out.kcalls[ki]?.bind (·[j]?)) = some (.sym n) ∧
      out.dummies[i]? = some n ∧ out.actuals[i]? = some t := by
  obtain ⟨hact, hd, hkc⟩ := generate_some h
  have hkm : k ∈ inv := List.mem_of_getElem? hk
  have hsm : s ∈ k := List.mem_of_getElem? hs
  have hmem : t ∈ actuals inv := mem_actuals.mpr ⟨k, hkm, s, hsm, r, ha⟩
  obtain ⟨i, hi, hti⟩ := List.getElem_of_mem hmem
  refine ⟨nameOf (build res inv) t, i, ?_, ?_, ?_⟩
  · rw [hkc, List.getElem?_map, hk]
    simp only [Option.map_some, Option.bind_some, List.getElem?_map, hs]
    simp [kernArg, ha]
  · rw [hd, dummies_eq, List.getElem?_map, List.getElem?_eq_getElem hi, hti]; rfl
  · rw [hact, List.getElem?_eq_getElem hi, hti]

/-- Literals are handed to the kernel unchanged (and, by `C24_actuals_exact`, never appear in the lists). -/
theorem C24_literal_passthrough {res : List Name} {inv : Invoke} {out : Output}
    (h : generate res inv = some out) (ki j : Nat) (k : Kernel) (s : Slot) (v : Nat)
    (hk : inv[ki]? = some k) (hs : k[j]? = some s) (ha : s.act = .lit v) :
    (out.kcalls[ki]?.bind (·[j]?)) = some (.lit v) := by
  obtain ⟨_, _, hkc⟩ := generate_some h
  rw [hkc, List.getElem?_map, hk]
  simp only [Option.map_some, Option.bind_some, List.getElem?_map, hs]
  simp [kernArg, ha]

/-- Exactly two kinds of invoke are refused: a non-literal expression passed twice as a data argument of
one kernel call, and a literal stencil direction. -/
theorem C24_refused_iff (res : List Name) (inv : Invoke) :
    generate res inv = none ↔
      (∃ k ∈ inv, ¬ (dataTexts k).Nodup) ∨
      (∃ k ∈ inv, ∃ s ∈ k, s.role = .direction ∧ ∃ v, s.act = .lit v) := by
  have hbad : inv.flatten.any badSlot = true ↔
      ∃ k ∈ inv, ∃ s ∈ k, s.role = .direction ∧ ∃ v, s.act = .lit v := by
    simp only [List.any_eq_true, List.mem_flatten]
    constructor
    · rintro ⟨s, ⟨k, hk, hs⟩, hb⟩
      refine ⟨k, hk, s, hs, ?_⟩
      unfold badSlot at hb
      split at hb
      · rename_i v hro hac; exact ⟨hro, v, hac⟩
      · cases hb
    · rintro ⟨k, hk, s, hs, hr, v, ha⟩
      exact ⟨s, ⟨k, hk, hs⟩, by simp [badSlot, hr, ha]⟩
  have hdup : inv.any (fun k => hasDup (dataTexts k)) = true ↔ ∃ k ∈ inv, ¬ (dataTexts k).Nodup := by
    simp only [List.any_eq_true, hasDup_iff]
  unfold generate refused
  constructor
  · intro h
    split at h
    · rename_i hr
      rcases Bool.or_eq_true_iff.mp hr with h1 | h1
      · exact Or.inl (hdup.mp h1)
      · exact Or.inr (hbad.mp h1)
    · cases h
  · intro h
    have : (inv.any (fun k => hasDup (dataTexts k)) || inv.flatten.any badSlot) = true := by
      rcases h with h | h
      · simp [hdup.mpr h]
      · simp [hbad.mpr h]
    rw [if_pos this]

/-- In an accepted invoke two different data positions of one kernel call never receive the same symbol. -/
theorem C24_no_alias_in_kernel {res : List Name} {inv : Invoke} {out : Output}
    (h : generate res inv = some out) (k : Kernel) (hk : k ∈ inv) :
    ((dataTexts k).map (nameOf (build res inv))).Nodup := by
  have hacc : generate res inv ≠ none := by rw [h]; simp
  have hnd : (dataTexts k).Nodup := by
    by_cases hc : (dataTexts k).Nodup
    · exact hc
    · exact absurd ((C24_refused_iff res inv).mpr (Or.inl ⟨k, hk, hc⟩)) hacc
  refine nodup_map_of_injOn _ _ (fun a ha b hb e => ?_) hnd
  have reg : ∀ t ∈ dataTexts k, Registered (build res inv) t := by
    intro t ht
    obtain ⟨s, hs, hst⟩ := List.mem_filterMap.mp ht
    unfold textIf at hst
    split at hst
    · unfold varOf at hst
      split at hst
      · rename_i t' r' ha'
        simp only [Option.map_some, Option.some.injEq] at hst
        subst hst
        exact build_registered hk hs ha'
      · simp at hst
    · cases hst
  exact nameOf_inj (build_inv res inv) (reg a ha) (reg b hb) e

/-- The dummy names are pairwise distinct exactly when no expression is passed twice. -/
theorem C24_dummies_nodup_iff {res : List Name} {inv : Invoke} {out : Output}
    (h : generate res inv = some out) : out.dummies.Nodup ↔ out.actuals.Nodup := by
  obtain ⟨hact, hd, _⟩ := generate_some h
  rw [hact, hd, dummies_eq]
  constructor
  · intro hn
    exact (List.pairwise_map.mp hn).imp (fun hab e => hab (congrArg _ e))
  · exact nodup_map_of_injOn _ _ (fun a ha b hb e =>
      nameOf_inj (build_inv res inv) (actuals_registered ha) (actuals_registered hb) e)

/-- Partial theorem: when no expression is used in two different roles, the dummy names are pairwise
distinct (so the PSy routine has a legal dummy-argument list and every dummy has ONE position). -/
theorem C24_dummies_nodup_partial {res : List Name} {inv : Invoke} {out : Output}
    (h : generate res inv = some out) (hg : groupsDisjoint inv = true) : out.dummies.Nodup := by
  rw [C24_dummies_nodup_iff h, (generate_some h).1]
  simp only [groupsDisjoint, Bool.and_eq_true, disjointB_iff] at hg
  obtain ⟨⟨⟨⟨⟨hde, hdx⟩, hdq⟩, hex⟩, heq⟩, hxq⟩ := hg
  unfold actuals
  refine nodup_append_uniq (nodup_append_uniq (nodup_append_uniq (nodup_uniq _) (nodup_uniq _) ?_)
    (nodup_uniq _) ?_) (nodup_uniq _) ?_
  · intro x hx; rw [mem_uniq] at hx ⊢; exact hde x hx
  · intro x hx
    rw [mem_uniq]
    rcases List.mem_append.mp hx with hx | hx <;> rw [mem_uniq] at hx
    · exact hdx x hx
    · exact hex x hx
  · intro x hx
    rw [mem_uniq]
    rcases List.mem_append.mp hx with hx | hx
    · rcases List.mem_append.mp hx with hx | hx <;> rw [mem_uniq] at hx
      · exact hdq x hx
      · exact heq x hx
    · rw [mem_uniq] at hx; exact hxq x hx

/-- Under the same side condition the position of a kernel argument's dummy is unique. -/
theorem C24_dataflow_unique_partial {res : List Name} {inv : Invoke} {out : Output}
    (h : generate res inv = some out) (hg : groupsDisjoint inv = true) (n : Name) (i i' : Nat)
    (hi : out.dummies[i]? = some n) (hi' : out.dummies[i']? = some n) : i = i' := by
  have hn := C24_dummies_nodup_partial h hg
  obtain ⟨hlt, e⟩ := List.getElem?_eq_some_iff.mp hi
  obtain ⟨hlt', e'⟩ := List.getElem?_eq_some_iff.mp hi'
  exact (List.getElem_inj hn).mp (e.trans e'.symm)

/-- The full statement, including a legal (duplicate-free) dummy-argument list. -/
def C24_statement : Prop :=
  ∀ (res : List Name) (inv : Invoke) (out : Output), generate res inv = some out →
    out.actuals = out.dummies.map (sourceOf (build res inv)) ∧ out.dummies.Nodup

/-- Witness: `invoke(kern_a(f1, depth), kern_b(f1, f2, depth))` where `depth` is an integer scalar of
`kern_a` and the stencil extent of `f2` in `kern_b` (texts: f1=1, depth=2, f2=3). -/
def dupWitness : Invoke :=
  [[⟨.data, .var 1 1⟩, ⟨.data, .var 2 2⟩],
   [⟨.data, .var 1 1⟩, ⟨.data, .var 3 3⟩, ⟨.extent, .var 2 2⟩]]

theorem C24_dup_dummy_counterexample : ¬ C24_statement := by
  intro h
  have := (h [] dupWitness _ rfl).2
  revert this
  decide

/-! ## sanity evaluations and non-vacuity -/

/-- The probe of DESIGN.md: `a/A`, `f1/F1`, `fv(1)`, `fv( 2 )`, `fv(3)`: texts a=1 f1=2 f2=3 m1=4 m2=5
fv(1)=6 fv(2)=7 fv(3)=8, root of the three elements = 9 (`fv`); a literal 100 in a built-in. -/
def probe : Invoke :=
  [[⟨.data, .var 1 1⟩, ⟨.data, .var 2 2⟩, ⟨.data, .var 3 3⟩, ⟨.data, .var 4 4⟩, ⟨.data, .var 5 5⟩],
   [⟨.data, .var 1 1⟩, ⟨.data, .var 6 9⟩, ⟨.data, .var 7 9⟩, ⟨.data, .var 4 4⟩, ⟨.data, .var 5 5⟩],
   [⟨.data, .var 2 2⟩, ⟨.data, .lit 100⟩],
   [⟨.data, .var 8 9⟩, ⟨.data, .var 6 9⟩]]

example : (generate [] probe).map (·.actuals) = some [1, 2, 3, 4, 5, 6, 7, 8] := by decide
example : (generate [] probe).map (·.dummies) =
    some [(1, 0), (2, 0), (3, 0), (4, 0), (5, 0), (9, 0), (9, 1), (9, 2)] := by decide
example : (generate [] probe).map (·.kcalls) =
    some [[.sym (1, 0), .sym (2, 0), .sym (3, 0), .sym (4, 0), .sym (5, 0)],
          [.sym (1, 0), .sym (9, 0), .sym (9, 1), .sym (4, 0), .sym (5, 0)],
          [.sym (2, 0), .lit 100],
          [.sym (9, 2), .sym (9, 0)]] := by decide
/-- a reserved name (`cell`, root 7) pushes the argument of that name to `cell_1`. -/
example : (generate [(7, 0)] [[⟨.data, .var 7 7⟩]]).map (·.dummies) = some [(7, 1)] := by decide
/-- stencil kernel: extents first, then directions (`x_direction` is not passed), then quadrature. -/
example : (generate [] [[⟨.data, .var 1 1⟩, ⟨.data, .var 2 2⟩, ⟨.extent, .var 10 10⟩, ⟨.direction, .var 11 11⟩,
      ⟨.qr, .var 20 20⟩],
    [⟨.data, .var 1 1⟩, ⟨.data, .var 3 3⟩, ⟨.extent, .var 12 10⟩, ⟨.direction, .dirconst 0⟩,
      ⟨.data, .var 4 4⟩]]).map (·.actuals) = some [1, 2, 3, 4, 10, 12, 11, 20] := by decide
/-- the hypotheses of the theorems are satisfiable on non-trivial input -/
example : ∃ out, generate [] probe = some out := ⟨_, rfl⟩
example : groupsDisjoint probe = true := by decide
example : groupsDisjoint dupWitness = false := by decide
example : ∃ out, generate [] dupWitness = some out ∧ out.dummies = [(1, 0), (2, 0), (3, 0), (2, 0)] :=
  ⟨_, rfl, by decide⟩
/-- a repeated data argument inside one kernel call is refused; the same text in two kernels is not -/
example : generate [] [[⟨.data, .var 1 1⟩, ⟨.data, .var 1 1⟩]] = none := by decide
example : generate [] [[⟨.data, .var 1 1⟩], [⟨.data, .var 1 1⟩]] ≠ none := by decide
/-- a literal direction is refused -/
example : generate [] [[⟨.data, .var 1 1⟩, ⟨.extent, .lit 5⟩, ⟨.direction, .lit 6⟩]] = none := by decide
example : generate [] [[⟨.data, .var 1 1⟩, ⟨.extent, .lit 5⟩, ⟨.direction, .dirconst 0⟩]] ≠ none := by decide

end C24
