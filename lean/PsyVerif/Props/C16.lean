import PsyVerif.Lemmas.C16Base
import PsyVerif.Lemmas.C16Merge
import Mathlib.Data.List.Count
/-! # C16 — Symbol tables keep names unique and lookups scoped

Model: `PsyVerif/Model/SymTab.lean` (`C16.step` mirrors `SymbolTable` of the pinned tree, including the
partial mutations of `merge` before it raises).  Quantification: every state satisfying `Inv` and every
operation, hence every history (`C16_inv_all_histories`), with no bound on the number of tables, scopes,
symbols or operations.

* `C16_inv_preserved` / `C16_inv_all_histories` — keys = lower-cased names, keys distinct, tags present: full.
* `C16_lookup_innermost` (+ `firstHit_some_spec`, `firstHit_none_iff`) — full.
* `C16_fresh`, `C16_next_terminates`, `C16_new_symbol_name_fresh` — full (pigeonhole over injective candidates).
* `C16_atomic` — full for every operation except `merge`.
* `merge`: the pinned code is NOT atomic and does NOT add every non-skipped symbol (4 known findings):
  `C16_merge_atomic_statement` / `C16_merge_once_statement` are refuted on concrete witnesses and
  `C16_no_raise_after_check_partial`, `C16_merge_atomic_partial`, `C16_merge_once_full_partial`,
  `C16_merge_ordinary_exactly_once` are proved under the explicit decidable side conditions `MergeSide`
  (Lemmas/C16Merge.lean); `check_for_clashes` itself is atomic (`C16_merge_check_atomic`, fixed mode:
  fixes/C16-defer-specialise.patch).
-/
namespace C16

/-! ## The property -/

/-! ### the invariant of a state and its preservation by every operation -/

def Inv (st : State) : Prop := ∀ t ∈ st.tabs, TInv t

theorem tab_inv {st : State} (h : Inv st) (t : Nat) : TInv (tab st t) := by
  unfold tab
  rw [List.getD_eq_getElem?_getD]
  cases hg : st.tabs[t]? with
  | none => exact TInv_empty none
  | some x => exact h x (List.mem_of_getElem? hg)

theorem setTab_inv {st : State} (h : Inv st) (t : Nat) {tb : Table} (htb : TInv tb) : Inv (setTab st t tb) := by
  intro x hx
  rcases List.mem_or_eq_of_mem_set hx with hx | hx
  · exact h x hx
  · exact hx ▸ htb

theorem Inv_next {st : State} (h : Inv st) (n : Nat) : Inv { st with next := n } := h

theorem newSymbol_inv {st : State} (h : Inv st) (t : Nat) (root : Name) (tag : Option Name) (sh : Bool)
    (kind : Kind) (ar : Bool) (iface : Iface) (wild : Bool) :
    Inv (newSymbol st t root tag sh kind ar iface wild).2 := by
  unfold newSymbol
  dsimp only
  repeat' split
  all_goals first
    | exact h
    | (apply setTab_inv (Inv_next h _) t; apply addSym_inv (tab_inv h t); assumption)

theorem C16_inv_preserved (st : State) (op : Op) (h : Inv st) : Inv (step st op).2 := by
  cases op with
  | create =>
    intro x hx
    simp only [step, List.mem_append, List.mem_singleton] at hx
    rcases hx with hx | hx
    · exact h x hx
    · subst hx; exact TInv_empty none
  | add t s tag =>
    simp only [step]
    split
    · split
      · exact h
      · rename_i tb htb; exact setTab_inv (Inv_next h _) t (addSym_inv (tab_inv h t) htb)
    · exact h
  | newSymbol t root tag sh kind ar iface wild =>
    simp only [step]; split
    · exact newSymbol_inv h _ _ _ _ _ _ _ _
    · exact h
  | nextName t root sh other => simp only [step]; split <;> exact h
  | lookup t name limit => simp only [step]; repeat' split
                           all_goals exact h
  | lookupTag t tag limit => simp only [step]; repeat' split
                             all_goals exact h
  | findOrCreate t name kind iface =>
    simp only [step]; repeat' split
    all_goals first | exact h | exact newSymbol_inv h _ _ _ _ _ _ _ _
  | findOrCreateTag t tag root kind iface =>
    simp only [step]; repeat' split
    all_goals first | exact h | exact newSymbol_inv h _ _ _ _ _ _ _ _
  | rename t i name =>
    simp only [step]; split
    · split
      · exact h
      · rename_i tb htb; exact setTab_inv h t (renameSym_inv (tab_inv h t) htb)
    · exact h
  | remove t i =>
    simp only [step]; split
    · split
      · exact h
      · split
        · exact h
        · rename_i tb htb; exact setTab_inv h t (removeSym_inv (tab_inv h t) htb)
    · exact h
  | swap t i new =>
    simp only [step]; split
    · split
      · exact h
      · split
        · exact h
        · rename_i tb htb; exact setTab_inv (Inv_next h _) t (swapSym_inv (tab_inv h t) htb)
    · exact h
  | setArgs t is =>
    simp only [step]; split
    · split
      · exact h
      · exact setTab_inv h t (TInv_of_ents_eq (tab_inv h t) rfl rfl)
    · exact h
  | swapProps t i j =>
    simp only [step]; split
    · split
      · rename_i s1 s2 _ _
        have := swapProps_inv (tab_inv h t) s1 s2
        split
        · rename_i e tb heq; rw [heq] at this; exact setTab_inv h t this
        · rename_i tb heq; rw [heq] at this; exact setTab_inv h t this
      · exact h
    · exact h
  | merge t o skip intr =>
    simp only [step]; split
    · have hm := mergeTables_inv ⟨ancEnts st t, ancEnts st o, skip, intr⟩ (tab_inv h t) (tab_inv h o)
      generalize mergeTables ⟨ancEnts st t, ancEnts st o, skip, intr⟩ (tab st t) (tab st o) = r at hm
      obtain ⟨⟨e, s, ot⟩, ph⟩ := r
      cases e with
      | some e => exact setTab_inv (setTab_inv h t hm.1) o hm.2
      | none =>
        refine setTab_inv (setTab_inv h t hm.1) o ⟨by simp, by simp [keys], by simp⟩
    · exact h
  | attach t n =>
    simp only [step]; repeat' split
    all_goals first | exact h | exact setTab_inv h t (TInv_of_ents_eq (tab_inv h t) rfl rfl)
  | detach t =>
    simp only [step]; split
    · exact setTab_inv h t (TInv_of_ents_eq (tab_inv h t) rfl rfl)
    · exact h

theorem C16_inv_all_histories (st : State) (h : Inv st) : ∀ ops : List Op, Inv (run st ops) := by
  intro ops; induction ops generalizing st with
  | nil => exact h
  | cons op r ih => exact ih _ (C16_inv_preserved st op h)

/-! ### lookup returns the symbol of the innermost enclosing scope that has the name -/

/-- the entry of the first table (innermost first) that has key `k` -/
theorem C16_lookup_innermost (st : State) (t : Nat) (name : Name) (limit : Option Nat) :
    lookup st t name limit =
      match firstHit ((chain st t limit).map fun i => (tab st i).ents) (lower name) with
      | some s => .ok s
      | none => .error .key := by
  unfold lookup getSymbols
  rw [getKey_mergeDicts]
  simp only [getKey]
  rfl

theorem C16_lookup_scope_limit_self (st : State) (t n : Nat) (h : (tab st t).node = some n) :
    chain st t (some n) = [t] := by
  have h' : (st.tabs.getD t {}).node = some n := h
  unfold chain
  rw [h']
  dsimp only
  generalize (st.nodes.getD n ⟨[], false⟩).anc = l
  cases l <;> simp [chainFrom]

/-! ### freshness of generated names -/

theorem C16_fresh (st : State) (t : Nat) (root : Name) (sh : Bool) (other : Option Nat) (n : Name)
    (h : (step st (.nextName t root sh other)).1 = .name n) :
    lower n ∉ keys (tab st t).ents ∧
    (sh = false → ∀ i ∈ chain st t none, lower n ∉ keys (tab st i).ents) ∧
    (∀ o, other = some o → lower n ∉ keys (tab st o).ents) := by
  simp only [step] at h
  split at h
  · simp only [Outcome.name.injEq] at h
    subst h
    have hf := nextName_fresh
      (match other with
        | some o => (if sh = true then keys (tab st t).ents else keys (getSymbols st t none)) ++ keys (tab st o).ents
        | none => if sh = true then keys (tab st t).ents else keys (getSymbols st t none)) root
    have hself : ∀ x, x ∉ (if sh = true then keys (tab st t).ents else keys (getSymbols st t none)) →
        x ∉ keys (tab st t).ents ∧ (sh = false → ∀ i ∈ chain st t none, x ∉ keys (tab st i).ents) := by
      intro x hx
      cases sh with
      | true => simp at hx; exact ⟨hx, by simp⟩
      | false =>
        simp only [Bool.false_eq_true, if_false] at hx
        have hall := keys_mergeDicts_nil hx
        refine ⟨?_, fun _ i hi => hall _ (List.mem_map.mpr ⟨i, hi, rfl⟩)⟩
        exact hall _ (List.mem_map.mpr ⟨t, by simp [chain], rfl⟩)
    cases other with
    | none =>
      simp only at hf
      obtain ⟨h1, h2⟩ := hself _ hf
      exact ⟨h1, h2, by simp⟩
    | some o =>
      simp only [List.mem_append, not_or] at hf
      obtain ⟨h1, h2⟩ := hself _ hf.1
      refine ⟨h1, h2, ?_⟩
      intro o' ho'; cases ho'; exact hf.2
  · cases h

theorem C16_next_terminates (existing : List Name) (root : Name) :
    nextIdx existing root (existing.length + 1) 0 ≤ existing.length ∧
    lower (cand root (nextIdx existing root (existing.length + 1) 0)) ∉ existing :=
  ⟨nextIdx_le existing root, nextIdx_fresh existing root⟩

/-- the name given to a symbol created by `new_symbol` is fresh in the same sense -/
theorem C16_new_symbol_name_fresh (st : State) (t : Nat) (root : Name) :
    lower (nextName (keys (getSymbols st t none)) root) ∉ keys (tab st t).ents ∧
    ∀ i ∈ chain st t none, lower (nextName (keys (getSymbols st t none)) root) ∉ keys (tab st i).ents := by
  have hall := keys_mergeDicts_nil (nextName_fresh (keys (getSymbols st t none)) root)
  exact ⟨hall _ (List.mem_map.mpr ⟨t, by simp [chain], rfl⟩), fun i hi => hall _ (List.mem_map.mpr ⟨i, hi, rfl⟩)⟩

/-! ### atomicity -/

/-- the two operations that are not atomic in the pinned code (known findings) -/
def Op.isMerge : Op → Bool
  | .merge .. => true
  | .swapProps .. => true
  | _ => false

theorem newSymbol_atomic (st : State) (t : Nat) (root : Name) (tag : Option Name) (sh : Bool)
    (kind : Kind) (ar : Bool) (iface : Iface) (wild : Bool) (e : Err)
    (h : (newSymbol st t root tag sh kind ar iface wild).1 = .err e) :
    (newSymbol st t root tag sh kind ar iface wild).2.tabs = st.tabs := by
  unfold newSymbol at h ⊢
  dsimp only at h ⊢
  repeat' split
  all_goals first
    | rfl
    | (exfalso; simp_all)

/-- **a rejected operation changes nothing** — every operation except `merge` and `swap_symbol_properties`: if it raises, all tables
(entries, their order, tags, argument lists, attachments) are exactly as before. -/
theorem C16_atomic (st : State) (op : Op) (hop : op.isMerge = false) (e : Err)
    (h : (step st op).1 = .err e) : (step st op).2.tabs = st.tabs := by
  cases op with
  | merge t o skip intr => simp [Op.isMerge] at hop
  | swapProps t i j => simp [Op.isMerge] at hop
  | create => simp [step] at h
  | newSymbol t root tag sh kind ar iface wild =>
    simp only [step] at h ⊢
    split
    · rename_i ht; rw [if_pos ht] at h; exact newSymbol_atomic _ _ _ _ _ _ _ _ _ e h
    · rfl
  | findOrCreate t name kind iface =>
    simp only [step] at h ⊢
    repeat' split
    all_goals first
      | rfl
      | (apply newSymbol_atomic (e := e); simp_all)
  | findOrCreateTag t tag root kind iface =>
    simp only [step] at h ⊢
    repeat' split
    all_goals first
      | rfl
      | (apply newSymbol_atomic (e := e); simp_all)
  | _ =>
    simp only [step] at h ⊢
    repeat' split
    all_goals first
      | rfl
      | (exfalso; simp_all)

/-! ### merge: what is atomic, what is not -/

/-- Full statement of the atomicity clause for `merge` (FALSE for the code, see the counterexamples). -/
def C16_merge_atomic_statement : Prop :=
  ∀ (cx : MergeCtx) (self other : Table), TInv self → TInv other →
    (mergeTables cx self other).1.err ≠ none →
    (mergeTables cx self other).1.self = self ∧ (mergeTables cx self other).1.other = other

/-- a merge that is rejected by `check_for_clashes` (phase 0) leaves both tables untouched
(code with fixes/C16-defer-specialise.patch). -/
theorem C16_merge_check_atomic (cx : MergeCtx) (self other : Table) (hphase : (mergeTables cx self other).2 = 0) :
    (mergeTables cx self other).1.self = self ∧ (mergeTables cx self other).1.other = other := by
  unfold mergeTables at hphase ⊢
  split
  · exact ⟨rfl, rfl⟩
  · exfalso
    rename_i ks hks
    rw [hks] at hphase
    dsimp only at hphase
    generalize containerLoop cx (containersOf (specAll other ks).ents) (specAll self ks) (specAll other ks) = r2 at hphase
    obtain ⟨e2, s2, o2⟩ := r2
    cases e2 with
    | some e => simp at hphase
    | none =>
      dsimp only at hphase
      generalize symbolLoop cx (o2.ents.map Prod.snd) s2 o2 = r3 at hphase
      obtain ⟨e3, s3, o3⟩ := r3
      cases e3 <;> simp at hphase

/-! #### witnesses (the known findings) -/

def nSin : Name := [115, 105, 110]
def nA : Name := [97]
def nV : Name := [118]
def nM : Name := [109]
def nX : Name := [120]
def nZZ : Name := [122, 122]

/-- former finding 1 (repaired by fixes/C16-defer-specialise.patch): self = {sin, a}, other = {sin, a}, all
unresolved generic symbols: the merge is rejected and nothing has been specialised -/
def w1cx : MergeCtx := ⟨[], [], [], [nSin]⟩
def w1self : Table := { ents := [(nSin, ⟨0, nSin, .generic, .unresolved, false⟩), (nA, ⟨2, nA, .generic, .unresolved, false⟩)] }
def w1other : Table := { ents := [(nSin, ⟨1, nSin, .generic, .unresolved, false⟩), (nA, ⟨3, nA, .generic, .unresolved, false⟩)] }

example : (mergeTables w1cx w1self w1other).1.err = some .symbol ∧ (mergeTables w1cx w1self w1other).1.self = w1self ∧
    (mergeTables w1cx w1self w1other).1.other = w1other := by decide

/-- finding 2: self = {v: argument}, other = {m: container, v imported from m}, skip = [v] -/
def w2cx : MergeCtx := ⟨[], [], [2], []⟩
def w2self : Table := { ents := [(nV, ⟨0, nV, .data, .argument, false⟩)] }
def w2other : Table := { ents := [(nM, ⟨1, nM, .container, .automatic, false⟩), (nV, ⟨2, nV, .data, .imp 1 nM none, false⟩)] }

theorem C16_atomic_counterexample_skip :
    TInv w2self ∧ TInv w2other ∧
    (mergeTables w2cx w2self w2other).1.err = some .symbol ∧ (mergeTables w2cx w2self w2other).2 = 1 ∧
    (mergeTables w2cx w2self w2other).1.self ≠ w2self :=
  ⟨⟨by decide, by decide, by decide⟩, ⟨by decide, by decide, by decide⟩, by decide, by decide, by decide⟩

theorem C16_merge_atomic_statement_false : ¬ C16_merge_atomic_statement := by
  intro h
  have := h w2cx w2self w2other C16_atomic_counterexample_skip.1 C16_atomic_counterexample_skip.2.1 (by decide)
  exact C16_atomic_counterexample_skip.2.2.2.2 this.1

/-- finding 3: other = {zz, v imported from container #0 of an enclosing scope}, self = {m: container #3, v imported from it} -/
def w3cx : MergeCtx := ⟨[], [[(nM, ⟨0, nM, .container, .automatic, false⟩)]], [], []⟩
def w3self : Table := { ents := [(nM, ⟨3, nM, .container, .automatic, false⟩), (nV, ⟨4, nV, .data, .imp 3 nM none, false⟩)] }
def w3other : Table := { ents := [(nZZ, ⟨1, nZZ, .data, .automatic, false⟩), (nV, ⟨2, nV, .data, .imp 0 nM none, false⟩)] }

theorem C16_atomic_counterexample_outer_import :
    TInv w3self ∧ TInv w3other ∧
    (mergeTables w3cx w3self w3other).1.err = some .internal ∧ (mergeTables w3cx w3self w3other).2 = 2 ∧
    (mergeTables w3cx w3self w3other).1.self ≠ w3self :=
  ⟨⟨by decide, by decide, by decide⟩, ⟨by decide, by decide, by decide⟩, by decide, by decide, by decide⟩

/-- finding 6: self = {n: IntrinsicSymbol with an argument interface}, other = {zz, n: unresolved IntrinsicSymbol}:
accepted by `check_for_clashes` (both IntrinsicSymbols), then neither can be renamed -/
def w7cx : MergeCtx := ⟨[], [], [], []⟩
def w7self : Table := { ents := [([110], ⟨0, [110], .intrinsic, .argument, false⟩)] }
def w7other : Table := { ents := [(nZZ, ⟨1, nZZ, .data, .automatic, false⟩), ([110], ⟨2, [110], .intrinsic, .unresolved, false⟩)] }

theorem C16_atomic_counterexample_intrinsic :
    TInv w7self ∧ TInv w7other ∧
    (mergeTables w7cx w7self w7other).1.err = some .symbol ∧ (mergeTables w7cx w7self w7other).2 = 2 ∧
    (mergeTables w7cx w7self w7other).1.self ≠ w7self :=
  ⟨⟨by decide, by decide, by decide⟩, ⟨by decide, by decide, by decide⟩, by decide, by decide, by decide⟩

/-! #### swap_symbol_properties -/

/-- finding 5: `swap_symbol_properties(a: generic Symbol, b: DataSymbol argument)` raises TypeError after the
interface of `a` has been replaced -/
def w5tab : Table := { ents := [(nA, ⟨0, nA, .generic, .automatic, false⟩), ([98], ⟨1, [98], .data, .argument, false⟩)] }

theorem C16_swap_props_atomic_counterexample :
    TInv w5tab ∧ (swapProps w5tab ⟨0, nA, .generic, .automatic, false⟩ ⟨1, [98], .data, .argument, false⟩).1 = some .type ∧
    (swapProps w5tab ⟨0, nA, .generic, .automatic, false⟩ ⟨1, [98], .data, .argument, false⟩).2 ≠ w5tab :=
  ⟨⟨by decide, by decide, by decide⟩, by decide, by decide⟩

/-- **partial atomicity of swap_symbol_properties**: when the class of `symbol2` accepts the properties of
`symbol1` (always the case for two symbols of the same class), a rejected call changes nothing. -/
theorem C16_swap_props_atomic_partial (t : Table) (s1 s2 : Sym) (hside : copyAccepts s2.kind s1.kind = true)
    (e : Err) (h : (swapProps t s1 s2).1 = some e) : (swapProps t s1 s2).2 = t := by
  unfold swapProps at h ⊢
  repeat' split
  all_goals first
    | rfl
    | (exfalso; simp_all)

/-! ### merge adds every non-skipped symbol -/

/-- an "ordinary" symbol: not a ContainerSymbol, not imported, not unresolved -/
def Sym.ordinary (o : Sym) : Prop := o.kind ≠ .container ∧ o.iface.isImport = false ∧ o.iface ≠ .unresolved

theorem handleClash_ids (cx : MergeCtx) {self other : Table} (hs : TInv self) (_ho : TInv other) (o : Sym) :
    (∀ j ∈ ids self.ents, j ∈ ids (handleClash cx self other o).self.ents) ∧
    ((handleClash cx self other o).err = none → o.ordinary → o.id ∈ ids (handleClash cx self other o).self.ents) := by
  unfold handleClash
  split
  · rename_i cid cname orig hif
    have : ¬ o.ordinary := by intro h; have := h.2.1; rw [hif] at this; simp [Iface.isImport] at this
    repeat' split
    all_goals exact ⟨fun j hj => hj, fun _ ho' => absurd ho' this⟩
  · split
    · exact ⟨fun j hj => hj, fun he => by simp at he⟩
    · split
      · rename_i hun
        refine ⟨fun j hj => hj, fun _ ho' => ?_⟩
        exfalso; apply ho'.2.2; simp at hun; exact hun.1
      · dsimp only
        split
        · rename_i other' h1
          split
          · rename_i self' h2
            have := addSym_ids h2
            exact ⟨fun j hj => by rw [this]; simp [hj], fun _ _ => by rw [this]; simp⟩
          · exact ⟨fun j hj => hj, fun he => by simp at he⟩
        · split
          · exact ⟨fun j hj => hj, fun he => by simp at he⟩
          · rename_i self' h2
            have hm := renameSym_ids_mono hs h2
            split
            · rename_i self'' h3
              have := addSym_ids h3
              exact ⟨fun j hj => by rw [this]; simp [hm j hj], fun _ _ => by rw [this]; simp⟩
            · exact ⟨hm, fun he => by simp at he⟩
        · exact ⟨fun j hj => hj, fun he => by simp at he⟩

theorem symbolLoop_ids (cx : MergeCtx) : ∀ (l : List Sym) {self other : Table}, TInv self → TInv other →
    (∀ j ∈ ids self.ents, j ∈ ids (symbolLoop cx l self other).self.ents) ∧
    ((symbolLoop cx l self other).err = none → ∀ o ∈ l, o.id ∉ cx.skip → o.ordinary →
      o.id ∈ ids (symbolLoop cx l self other).self.ents) := by
  intro l; induction l with
  | nil => intro s o _ _; exact ⟨fun j hj => hj, fun _ o ho => by simp at ho⟩
  | cons a r ih =>
    intro s o hs ho
    simp only [symbolLoop]
    split
    · rename_i hskip
      obtain ⟨h1, h2⟩ := ih hs ho
      refine ⟨h1, fun he x hx hxs hxo => ?_⟩
      rcases List.mem_cons.mp hx with rfl | hx
      · exfalso
        simp only [Bool.or_eq_true, decide_eq_true_eq, beq_iff_eq] at hskip
        rcases hskip with h | h
        · exact hxs h
        · exact hxo.1 h
      · exact h2 he x hx hxs hxo
    · split
      · rename_i self' h1
        have hids := addSym_ids h1
        obtain ⟨m1, m2⟩ := ih (addSym_inv hs h1) ho
        refine ⟨fun j hj => m1 j (by rw [hids]; simp [hj]), fun he x hx hxs hxo => ?_⟩
        rcases List.mem_cons.mp hx with rfl | hx
        · exact m1 _ (by rw [hids]; simp)
        · exact m2 he x hx hxs hxo
      · have hc := handleClash_ids cx hs ho a
        have hi := handleClash_inv cx hs ho a
        generalize hres : handleClash cx s o a = res at hc hi
        obtain ⟨e, s', o'⟩ := res
        cases e with
        | some e => exact ⟨hc.1, fun he => by simp at he⟩
        | none =>
          obtain ⟨m1, m2⟩ := ih hi.1 hi.2
          refine ⟨fun j hj => m1 j (hc.1 j hj), fun he x hx hxs hxo => ?_⟩
          rcases List.mem_cons.mp hx with rfl | hx
          · exact m1 _ (hc.2 rfl hxo)
          · exact m2 he x hx hxs hxo

/-- Full statement of the merge-once clause (FALSE for the pinned code: see the counterexample): after a
successful merge every non-skipped symbol of the merged table is an entry of the receiving table or was
identified with an entry of the same name that is equally a container / an equal import / unresolved. -/
def C16_merge_once_statement : Prop :=
  ∀ (cx : MergeCtx) (self other : Table), TInv self → TInv other →
    (mergeTables cx self other).1.err = none →
    ∀ p ∈ other.ents, p.2.id ∉ cx.skip →
      p.2.id ∈ ids (mergeTables cx self other).1.self.ents ∨
      ∃ q ∈ self.ents, q.1 = p.1 ∧
        ((q.2.kind = .container ∧ p.2.kind = .container) ∨ (q.2.iface.importEq p.2.iface = true) ∨
         (q.2.iface = .unresolved ∧ p.2.iface = .unresolved))

/-- finding 4: self = {x: container #0, v: local}, other = {v imported from that container #0} -/
def w4cx : MergeCtx := ⟨[], [], [], []⟩
def w4self : Table := { ents := [(nX, ⟨0, nX, .container, .automatic, false⟩), (nV, ⟨1, nV, .data, .automatic, false⟩)] }
def w4other : Table := { ents := [(nV, ⟨2, nV, .data, .imp 0 nX none, false⟩)] }

theorem C16_merge_once_counterexample_outer_import : ¬ C16_merge_once_statement := by
  intro h
  have := h w4cx w4self w4other ⟨by decide, by decide, by decide⟩ ⟨by decide, by decide, by decide⟩ (by decide)
    (nV, ⟨2, nV, .data, .imp 0 nX none, false⟩) (by decide) (by decide)
  revert this; decide

/-- **merge-once, partial**: in the phase that adds the symbols (`_add_symbols_from_table`), every symbol of
the receiving table stays an entry (by identity), and if the phase succeeds every non-skipped ordinary symbol
(not a container, not imported, not unresolved — the defect class of finding 4 and the absorbed cases are
excluded) of the merged table is an entry of the receiving table afterwards. -/
theorem C16_merge_once_partial (cx : MergeCtx) (l : List Sym) (self other : Table) (hs : TInv self) (ho : TInv other) :
    (∀ j ∈ ids self.ents, j ∈ ids (symbolLoop cx l self other).self.ents) ∧
    ((symbolLoop cx l self other).err = none → ∀ o ∈ l, o.id ∉ cx.skip → o.ordinary →
      o.id ∈ ids (symbolLoop cx l self other).self.ents) :=
  symbolLoop_ids cx l hs ho

/-- keys are distinct and determine the entry, so an identity occurs at most once per key; together with
`C16_inv_preserved` this gives "exactly once" for the name of every added symbol. -/
theorem C16_name_occurs_once {t : Table} (h : TInv t) {k : Name} {a b : Sym}
    (ha : (k, a) ∈ t.ents) (hb : (k, b) ∈ t.ents) : a = b := unique_of_nodup h.nodup ha hb


/-! ### merge after the check: no raise, full atomicity, merge-once on the original table

Side conditions `MergeSide` (Lemmas/C16Merge.lean), all decidable: both tables satisfy the invariant; a symbol
object occurs once per table and not in both; no ContainerSymbol and no imported symbol is listed in
`symbols_to_skip` (excludes finding 2); every imported symbol of the merged table is imported from a
ContainerSymbol that is an entry of the merged table (excludes findings 3 and 4); ContainerSymbols are neither
imported nor unresolved and IntrinsicSymbols are unresolved. -/

/-- **(2) no raise after the check**: under the side conditions `merge` is either rejected by
`check_for_clashes` (phase 0) or succeeds (phase 3): the container phase and the symbol phase cannot raise. -/
theorem C16_no_raise_after_check_partial (cx : MergeCtx) (self other : Table) (H : MergeSide cx self other) :
    (mergeTables cx self other).2 = 0 ∨
    ((mergeTables cx self other).2 = 3 ∧ (mergeTables cx self other).1.err = none) := by
  rcases mergeTables_after_check H with ⟨e, he⟩ | ⟨F, O3, he, _⟩
  · left; rw [he]
  · right; rw [he]; exact ⟨rfl, rfl⟩

/-- **full atomicity of merge under the side conditions**: a rejected merge changes neither table. -/
theorem C16_merge_atomic_partial (cx : MergeCtx) (self other : Table) (H : MergeSide cx self other)
    (h : (mergeTables cx self other).1.err ≠ none) :
    (mergeTables cx self other).1.self = self ∧ (mergeTables cx self other).1.other = other := by
  rcases mergeTables_after_check H with ⟨e, he⟩ | ⟨F, O3, he, _⟩
  · rw [he]; exact ⟨rfl, rfl⟩
  · rw [he] at h; exact absurd rfl h

/-- **(1) merge-once on the original table**: after a successful merge, the result keeps the invariant,
every symbol of the receiving table is an entry exactly once (by identity), and every non-skipped symbol of
the ORIGINAL merged table is, by identity, an entry exactly once, or it is a ContainerSymbol absorbed by a
ContainerSymbol of the same name, or it is imported / unresolved and absorbed by an imported / unresolved
entry of the same name (a different object). -/
theorem C16_merge_once_full_partial (cx : MergeCtx) (self other : Table) (H : MergeSide cx self other)
    (h : (mergeTables cx self other).1.err = none) :
    TInv (mergeTables cx self other).1.self ∧
    (∀ j ∈ ids self.ents, (ids (mergeTables cx self other).1.self.ents).count j = 1) ∧
    ∀ p ∈ other.ents, p.2.id ∉ cx.skip →
      (ids (mergeTables cx self other).1.self.ents).count p.2.id = 1 ∨
      (p.2.kind = .container ∧ AbsorbedC (mergeTables cx self other).1.self p.2) ∨
      Absorbed (mergeTables cx self other).1.self p.2 := by
  rcases mergeTables_after_check H with ⟨e, he⟩ | ⟨F, O3, he, hF, hn, hm, hall⟩
  · rw [he] at h; cases h
  · rw [he]
    refine ⟨hF, fun j hj => List.count_eq_one_of_mem hn (hm j hj), fun p hp hps => ?_⟩
    rcases hall p hp hps with h1 | h1 | h1
    · exact Or.inl (List.count_eq_one_of_mem hn h1)
    · exact Or.inr (Or.inl h1)
    · exact Or.inr (Or.inr h1)

/-- **(3) exactly once by identity for ordinary symbols** (not a container, not imported, not unresolved) -/
theorem C16_merge_ordinary_exactly_once (cx : MergeCtx) (self other : Table) (H : MergeSide cx self other)
    (h : (mergeTables cx self other).1.err = none) :
    ∀ p ∈ other.ents, p.2.id ∉ cx.skip → p.2.ordinary →
      (ids (mergeTables cx self other).1.self.ents).count p.2.id = 1 := by
  intro p hp hps hord
  rcases (C16_merge_once_full_partial cx self other H h).2.2 p hp hps with h1 | ⟨h1, _⟩ | ⟨q, _, _, hc⟩
  · exact h1
  · exact absurd h1 hord.1
  · rcases hc with ⟨_, h2⟩ | ⟨_, h2⟩
    · rw [hord.2.1] at h2; cases h2
    · exact absurd h2 hord.2.2

theorem set_getD_self (l : List Table) (t : Nat) (h : t < l.length) : l.set t (l.getD t {}) = l := by
  rw [List.getD_eq_getElem?_getD, List.getElem?_eq_getElem h]; simp

/-- state-level form of `C16_merge_atomic_partial` -/
theorem C16_merge_step_atomic_partial (st : State) (t o : Nat) (skip : List Nat) (intr : List Name)
    (H : MergeSide ⟨ancEnts st t, ancEnts st o, skip, intr⟩ (tab st t) (tab st o)) (e : Err)
    (h : (step st (.merge t o skip intr)).1 = .err e) : (step st (.merge t o skip intr)).2.tabs = st.tabs := by
  simp only [step] at h ⊢
  split at h
  · rename_i hcond
    rw [if_pos hcond]
    have hA := C16_merge_atomic_partial _ _ _ H
    generalize mergeTables ⟨ancEnts st t, ancEnts st o, skip, intr⟩ (tab st t) (tab st o) = r at h hA ⊢
    obtain ⟨⟨er, s, ot⟩, ph⟩ := r
    cases er with
    | none => simp at h
    | some e' =>
      obtain ⟨h1, h2⟩ := hA (by simp)
      simp only at h1 h2
      subst h1; subst h2
      simp only [Bool.and_eq_true, decide_eq_true_eq] at hcond
      have ht : t < st.tabs.length := hcond.1.1.1.1.1
      have ho : o < st.tabs.length := hcond.1.1.1.1.2
      simp only [setTab, tab]
      rw [set_getD_self _ _ ht, set_getD_self _ _ ho]
  · cases h

/-- non-vacuity: the scenario of the seeded mutation C16-2 (receiving table {x: local}; merged table
{mod: container, x_1 and X imported from mod}) satisfies the side conditions, the merge succeeds, the local
is renamed to x_2 and all three symbols of the merged table are entries of the result -/
def w6cx : MergeCtx := ⟨[], [], [], []⟩
def w6self : Table := { ents := [(nX, ⟨0, nX, .data, .automatic, false⟩)] }
def w6other : Table := { ents := [([109, 111, 100], ⟨1, [109, 111, 100], .container, .automatic, false⟩),
  ([120, 95, 49], ⟨2, [120, 95, 49], .data, .imp 1 [109, 111, 100] none, false⟩),
  (nX, ⟨3, [88], .data, .imp 1 [109, 111, 100] none, false⟩)] }

instance (skip : List Nat) (s : Sym) : Decidable (SymOK skip s) := by unfold SymOK; infer_instance

theorem w6_side : MergeSide w6cx w6self w6other :=
  ⟨⟨by decide, by decide, by decide⟩, ⟨by decide, by decide, by decide⟩, by decide, by decide, by decide,
   by decide, by decide, by decide, by decide⟩

example : (mergeTables w6cx w6self w6other).1.err = none ∧
    keys (mergeTables w6cx w6self w6other).1.self.ents = [[109, 111, 100], [120, 95, 50], [120, 95, 49], nX] ∧
    ids (mergeTables w6cx w6self w6other).1.self.ents = [1, 0, 2, 3] := by decide

/-! ### non-vacuity and sanity evaluations -/

def nB : Name := [66]       -- "B"
def st0 : State :=
  { tabs := [{ node := some 0 }, { node := some 1 }, {}],
    nodes := [⟨[], true⟩, ⟨[0], true⟩], next := 0 }

def hist0 : List Op :=
  [.add 0 ⟨nA, .data, .automatic, false⟩ none,           -- outer scope: a
   .add 1 ⟨[65], .data, .automatic, false⟩ (some nB),    -- inner scope: A (shadows a), tagged
   .add 1 ⟨nA, .data, .automatic, false⟩ none,           -- refused: KeyError (same name up to case)
   .newSymbol 1 nA none false .data true .automatic false]  -- becomes a_1

example : Inv st0 := by
  intro t ht; simp [st0] at ht
  rcases ht with rfl | rfl | rfl <;> exact ⟨by simp, by simp [keys], by simp⟩

example : (step (run st0 (hist0.take 2)) (hist0.getD 2 .create)).1 = .err .key := by decide
example : (step (run st0 hist0) (.lookup 1 nA none)).1 = .sym 1 := by decide
example : (step (run st0 hist0) (.lookup 0 nA none)).1 = .sym 0 := by decide
example : (step (run st0 hist0) (.lookup 1 nB none)).1 = .err .key := by decide
example : keys (tab (run st0 hist0) 1).ents = [[97], [97, 95, 49]] := by decide
example : (step (run st0 hist0) (.nextName 1 nA false none)).1 = .name [97, 95, 50] := by decide
example : (step (run st0 hist0) (.nextName 1 nA false none)).1 = .name [97, 95, 50] →
    lower [97, 95, 50] ∉ keys (tab (run st0 hist0) 1).ents := fun h => (C16_fresh _ _ _ _ _ _ h).1
example : copyAccepts .data .data = true := by decide
example : (mergeTables w4cx w4self w4other).2 = 3 := by decide
example : ∃ o : Sym, o.ordinary := ⟨⟨0, nA, .data, .automatic, false⟩, by decide, by decide, by decide⟩

end C16

