import PsyVerif.Model.SymTab
import Std.Data.String.ToNat
import Mathlib.Data.List.Perm.Subperm
import Mathlib.Data.List.Nodup
/-! # C16 — Symbol tables keep names unique and lookups scoped

Model: `PsyVerif/Model/SymTab.lean` (`C16.step` mirrors `SymbolTable` of the pinned tree, including the
partial mutations of `merge` before it raises).  Quantification: every state satisfying `Inv` and every
operation, hence every history (`C16_inv_all_histories`), with no bound on the number of tables, scopes,
symbols or operations.

* `C16_inv_preserved` / `C16_inv_all_histories` — keys = lower-cased names, keys distinct, tags present: full.
* `C16_lookup_innermost` (+ `firstHit_some_spec`, `firstHit_none_iff`) — full.
* `C16_fresh`, `C16_next_terminates`, `C16_new_symbol_name_fresh` — full (pigeonhole over injective candidates).
* `C16_atomic` — full for every operation except `merge`.
* `merge`: the pinned code is NOT atomic and does NOT add every non-skipped symbol (4 known findings):
  `C16_merge_atomic_statement` / `C16_merge_once_statement` are refuted on concrete witnesses and
  `C16_merge_rejected_atomic_partial`, `C16_merge_once_partial` are proved under explicit side conditions.
-/
namespace C16

/-! ## helper lemmas: names -/

theorem lowerC_digit {c : Char} (h : c.isDigit) : lowerC c.toNat = c.toNat := by
  have : 48 ≤ c.toNat ∧ c.toNat ≤ 57 := by
    simp only [Char.isDigit, Bool.and_eq_true, decide_eq_true_eq] at h
    have h1 : '0'.val ≤ c.val := h.1
    have h2 := h.2
    rw [UInt32.le_iff_toNat_le] at h1 h2
    have e1 : '0'.val.toNat = 48 := by decide
    have e2 : '9'.val.toNat = 57 := by decide
    rw [e1] at h1; rw [e2] at h2
    exact ⟨h1, h2⟩
  unfold lowerC; split <;> omega

theorem lower_digits (n : Nat) : lower (digits n) = digits n := by
  unfold lower digits
  rw [List.map_map]
  apply List.map_congr_left
  intro c hc
  exact lowerC_digit (Nat.isDigit_of_mem_toDigits (by omega) (by omega) hc)

theorem digits_inj {m n : Nat} (h : digits m = digits n) : m = n := by
  unfold digits at h
  have h2 : Nat.toDigits 10 m = Nat.toDigits 10 n :=
    List.map_injective_iff.mpr (fun a b hab => Char.toNat_inj.mp hab) h
  apply Nat.repr_injective
  simp [Nat.repr, h2]

theorem lower_cand_succ (root : Name) (i : Nat) :
    lower (cand root (i+1)) = lower root ++ 95 :: digits (i+1) := by
  simp only [cand, lower, List.map_append, List.map_cons]
  congr 1
  · congr 1
    exact lower_digits (i+1)

theorem lower_cand_inj (root : Name) {i j : Nat} (h : lower (cand root i) = lower (cand root j)) : i = j := by
  cases i with
  | zero =>
    cases j with
    | zero => rfl
    | succ j =>
      rw [lower_cand_succ] at h
      have := congrArg List.length h
      simp [cand, lower] at this
  | succ i =>
    cases j with
    | zero =>
      rw [lower_cand_succ] at h
      have := congrArg List.length h
      simp [cand, lower] at this
    | succ j =>
      rw [lower_cand_succ, lower_cand_succ] at h
      have h1 := List.append_cancel_left h
      injection h1 with _ h2
      exact digits_inj h2


/-! ### next_available_name: the loop stops and its result is fresh -/

theorem nextIdx_below (ex : List Name) (root : Name) : ∀ f i j, i ≤ j → j < nextIdx ex root f i →
    lower (cand root j) ∈ ex := by
  intro f; induction f with
  | zero => intro i j h1 h2; simp [nextIdx] at h2; omega
  | succ f ih =>
    intro i j h1 h2
    simp only [nextIdx] at h2
    split at h2
    · rename_i hmem
      by_cases hji : j = i
      · subst hji; exact hmem
      · exact ih (i+1) j (by omega) h2
    · omega

theorem nextIdx_stop (ex : List Name) (root : Name) : ∀ f i,
    lower (cand root (nextIdx ex root f i)) ∉ ex ∨ nextIdx ex root f i = i + f := by
  intro f; induction f with
  | zero => intro i; right; simp [nextIdx]
  | succ f ih =>
    intro i
    simp only [nextIdx]
    split
    · rcases ih (i+1) with h | h
      · left; exact h
      · right; omega
    · left; assumption

theorem pigeon (ex : List Name) (root : Name) (n : Nat)
    (h : ∀ j, j < n → lower (cand root j) ∈ ex) : n ≤ ex.length := by
  have hnd : ((List.range n).map (fun j => lower (cand root j))).Nodup :=
    List.Nodup.map_on (fun a _ b _ hab => lower_cand_inj root hab) List.nodup_range
  have hsub : (List.range n).map (fun j => lower (cand root j)) ⊆ ex := by
    intro x hx
    simp only [List.mem_map, List.mem_range] at hx
    obtain ⟨j, hj, rfl⟩ := hx
    exact h j hj
  have := (List.subperm_of_subset hnd hsub).length_le
  simpa using this

theorem nextIdx_le (ex : List Name) (root : Name) : nextIdx ex root (ex.length + 1) 0 ≤ ex.length :=
  pigeon ex root _ (fun j hj => nextIdx_below ex root _ 0 j (Nat.zero_le _) hj)

theorem nextIdx_fresh (ex : List Name) (root : Name) :
    lower (cand root (nextIdx ex root (ex.length + 1) 0)) ∉ ex := by
  rcases nextIdx_stop ex root (ex.length + 1) 0 with h | h
  · exact h
  · have := nextIdx_le ex root; omega

theorem nextName_fresh (ex : List Name) (root : Name) : lower (nextName ex root) ∉ ex := by
  unfold nextName; exact nextIdx_fresh ex _

/-! ### association lists -/

theorem hasKey_iff {e : Ents} {k : Name} : hasKey e k = true ↔ k ∈ keys e := by
  induction e with
  | nil => simp [hasKey, keys]
  | cons p r ih =>
    obtain ⟨a, s⟩ := p
    simp only [hasKey, keys, List.map_cons, List.mem_cons, Bool.or_eq_true, beq_iff_eq]
    simp only [keys] at ih
    rw [ih]; constructor
    · rintro (h | h); exact Or.inl h.symm; exact Or.inr h
    · rintro (h | h); exact Or.inl h.symm; exact Or.inr h

theorem hasKey_false_iff {e : Ents} {k : Name} : hasKey e k = false ↔ k ∉ keys e := by
  rw [← hasKey_iff]; simp

theorem getKey_some_mem {e : Ents} {k : Name} {s : Sym} (h : getKey e k = some s) : (k, s) ∈ e := by
  induction e with
  | nil => simp [getKey] at h
  | cons p r ih =>
    obtain ⟨a, s'⟩ := p
    simp only [getKey] at h
    split at h
    · rename_i hk; simp at hk; cases h; subst hk; simp
    · exact List.mem_cons_of_mem _ (ih h)

theorem getKey_none_iff {e : Ents} {k : Name} : getKey e k = none ↔ k ∉ keys e := by
  induction e with
  | nil => simp [getKey, keys]
  | cons p r ih =>
    obtain ⟨a, s'⟩ := p
    simp only [getKey, keys, List.map_cons, List.mem_cons, not_or]
    simp only [keys] at ih
    split
    · rename_i hk; simp at hk; simp [hk]
    · rename_i hk; simp at hk; rw [ih]; constructor
      · intro h; exact ⟨fun h' => hk h'.symm, h⟩
      · intro h; exact h.2

theorem getKey_isSome_eq_hasKey (e : Ents) (k : Name) : (getKey e k).isSome = hasKey e k := by
  induction e with
  | nil => simp [getKey, hasKey]
  | cons p r ih =>
    obtain ⟨a, s'⟩ := p
    simp only [getKey, hasKey]
    split
    · rename_i hk; simp [hk]
    · rename_i hk; simp [hk, ih]

theorem unique_of_nodup {e : Ents} (hn : (keys e).Nodup) {k : Name} {a b : Sym}
    (ha : (k, a) ∈ e) (hb : (k, b) ∈ e) : a = b := by
  induction e with
  | nil => simp at ha
  | cons p r ih =>
    simp only [keys, List.map_cons, List.nodup_cons] at hn
    rcases List.mem_cons.mp ha with ha | ha <;> rcases List.mem_cons.mp hb with hb | hb
    · rw [← ha] at hb; injection hb with _ h2; exact h2.symm ▸ rfl
    · exfalso; apply hn.1; rw [← ha]; exact List.mem_map.mpr ⟨_, hb, rfl⟩
    · exfalso; apply hn.1; rw [← hb]; exact List.mem_map.mpr ⟨_, ha, rfl⟩
    · exact ih hn.2 ha hb

theorem mem_delKey {e : Ents} {k : Name} {p : Name × Sym} (h : p ∈ delKey e k) : p ∈ e := by
  induction e with
  | nil => simp [delKey] at h
  | cons q r ih =>
    obtain ⟨a, s⟩ := q
    simp only [delKey] at h
    split at h
    · exact List.mem_cons_of_mem _ h
    · rcases List.mem_cons.mp h with h | h
      · exact h ▸ List.mem_cons_self
      · exact List.mem_cons_of_mem _ (ih h)

theorem mem_delKey_of_ne {e : Ents} {k : Name} {p : Name × Sym} (h : p ∈ e) (hne : p.1 ≠ k) :
    p ∈ delKey e k := by
  induction e with
  | nil => simp at h
  | cons q r ih =>
    obtain ⟨a, s⟩ := q
    simp only [delKey]
    rcases List.mem_cons.mp h with h | h
    · subst h
      split
      · rename_i hk; simp at hk; exact absurd hk hne
      · exact List.mem_cons_self
    · split
      · exact h
      · exact List.mem_cons_of_mem _ (ih h)

theorem keys_delKey_sublist (e : Ents) (k : Name) : (keys (delKey e k)).Sublist (keys e) := by
  induction e with
  | nil => simp [delKey, keys]
  | cons q r ih =>
    obtain ⟨a, s⟩ := q
    simp only [delKey]
    split
    · simp [keys]
    · simp only [keys, List.map_cons]; exact List.Sublist.cons_cons _ ih

theorem not_mem_keys_delKey {e : Ents} (hn : (keys e).Nodup) (k : Name) : k ∉ keys (delKey e k) := by
  induction e with
  | nil => simp [delKey, keys]
  | cons q r ih =>
    obtain ⟨a, s⟩ := q
    simp only [keys, List.map_cons, List.nodup_cons] at hn
    simp only [delKey]
    split
    · rename_i hk; simp at hk; subst hk; exact hn.1
    · rename_i hk; simp at hk
      simp only [keys, List.map_cons, List.mem_cons, not_or]
      exact ⟨fun h => hk h.symm, ih hn.2⟩

theorem getId_some {e : Ents} {i : Nat} {s : Sym} (h : getId e i = some s) :
    s.id = i ∧ ∃ k, (k, s) ∈ e := by
  induction e with
  | nil => simp [getId] at h
  | cons q r ih =>
    obtain ⟨a, s'⟩ := q
    simp only [getId] at h
    split at h
    · rename_i hk; simp at hk; cases h; exact ⟨hk, a, List.mem_cons_self⟩
    · obtain ⟨h1, k, h2⟩ := ih h; exact ⟨h1, k, List.mem_cons_of_mem _ h2⟩

theorem keys_updKey (e : Ents) (k : Name) (f : Sym → Sym) : keys (updKey e k f) = keys e := by
  induction e with
  | nil => simp [updKey, keys]
  | cons q r ih =>
    obtain ⟨a, s⟩ := q
    simp only [updKey]
    split
    · simp [keys]
    · simp only [keys, List.map_cons] at ih ⊢; rw [ih]

theorem mem_updKey {e : Ents} {k : Name} {f : Sym → Sym} {p : Name × Sym} (h : p ∈ updKey e k f) :
    p ∈ e ∨ ∃ s, (p.1, s) ∈ e ∧ p.2 = f s := by
  induction e with
  | nil => simp [updKey] at h
  | cons q r ih =>
    obtain ⟨a, s⟩ := q
    simp only [updKey] at h
    split at h
    · rcases List.mem_cons.mp h with h | h
      · right; exact ⟨s, by rw [h]; exact List.mem_cons_self, by rw [h]⟩
      · left; exact List.mem_cons_of_mem _ h
    · rcases List.mem_cons.mp h with h | h
      · left; rw [h]; exact List.mem_cons_self
      · rcases ih h with h | ⟨s', h1, h2⟩
        · left; exact List.mem_cons_of_mem _ h
        · right; exact ⟨s', List.mem_cons_of_mem _ h1, h2⟩

theorem ids_updKey (e : Ents) (k : Name) (f : Sym → Sym) (hf : ∀ s, (f s).id = s.id) :
    ids (updKey e k f) = ids e := by
  induction e with
  | nil => simp [updKey, ids]
  | cons q r ih =>
    obtain ⟨a, s⟩ := q
    simp only [updKey]
    split
    · simp [ids, hf]
    · simp only [ids, List.map_cons] at ih ⊢; rw [ih]

/-! ### the invariant of one table -/

structure TInv (t : Table) : Prop where
  /-- every key is the lower-cased name of its symbol -/
  keyName : ∀ p ∈ t.ents, p.1 = lower p.2.name
  /-- keys (hence names, case-insensitively) are distinct -/
  nodup : (keys t.ents).Nodup
  /-- tags refer to symbols of this table -/
  tags : ∀ g ∈ t.tags, g.2 ∈ ids t.ents

theorem TInv_empty (n : Option Nat) : TInv { node := n } :=
  ⟨by simp, by simp [keys], by simp⟩

theorem TInv_of_ents_eq {t t' : Table} (h : TInv t) (he : t'.ents = t.ents) (ht : t'.tags = t.tags) : TInv t' :=
  ⟨by rw [he]; exact h.keyName, by rw [he]; exact h.nodup, by rw [he, ht]; exact h.tags⟩

theorem addSym_inv {t t' : Table} {ct : List Name} {s : Sym} {tag : Option Name}
    (h : TInv t) (hr : addSym t ct s tag = .ok t') : TInv t' := by
  unfold addSym at hr
  split at hr
  · cases hr
  · rename_i hk
    have hk' : lower s.name ∉ keys t.ents := by
      apply hasKey_false_iff.mp; simpa using hk
    have hbase : (∀ p ∈ t.ents ++ [(lower s.name, s)], p.1 = lower p.2.name) ∧
        (keys (t.ents ++ [(lower s.name, s)])).Nodup := by
      constructor
      · intro p hp
        rcases List.mem_append.mp hp with hp | hp
        · exact h.keyName p hp
        · simp at hp; subst hp; rfl
      · simp only [keys, List.map_append, List.map_cons, List.map_nil]
        apply List.Nodup.append h.nodup (by simp)
        intro a ha hb; simp at hb; subst hb; exact hk' ha
    have hids : ∀ i ∈ ids t.ents, i ∈ ids (t.ents ++ [(lower s.name, s)]) := by
      intro i hi; simp only [ids, List.map_append, List.mem_append]; exact Or.inl hi
    split at hr
    · split at hr
      · cases hr
      · cases hr
        refine ⟨hbase.1, hbase.2, ?_⟩
        intro g hg
        rcases List.mem_append.mp hg with hg | hg
        · exact hids _ (h.tags g hg)
        · simp at hg; subst hg; simp [ids]
    · cases hr
      exact ⟨hbase.1, hbase.2, fun g hg => hids _ (h.tags g hg)⟩

/-- the entry that `delKey` removes is the entry of the symbol found by identity -/
theorem ids_after_rename {e : Ents} (hk : ∀ p ∈ e, p.1 = lower p.2.name) (hn : (keys e).Nodup)
    {s : Sym} {k : Name} (hs : (k, s) ∈ e) (x : Name × Sym) (hx : x.2.id = s.id) :
    ∀ i ∈ ids e, i ∈ ids (delKey e (lower s.name) ++ [x]) := by
  intro i hi
  simp only [ids, List.mem_map] at hi
  obtain ⟨p, hp, rfl⟩ := hi
  simp only [ids, List.map_append, List.mem_append, List.mem_map]
  by_cases hpk : p.1 = lower s.name
  · right
    have hks : k = lower s.name := hk _ hs
    have : p.2 = s := by
      apply unique_of_nodup hn (k := lower s.name)
      · rw [← hpk]; exact hp
      · rw [← hks]; exact hs
    exact ⟨x, by simp, by rw [this, hx]⟩
  · left; exact ⟨p, mem_delKey_of_ne hp hpk, rfl⟩

theorem renameSym_inv {t t' : Table} {i : Nat} {nn : Name} {dry : Bool}
    (h : TInv t) (hr : renameSym t i nn dry = .ok t') : TInv t' := by
  unfold renameSym at hr
  split at hr
  · cases hr
  · rename_i s hs
    obtain ⟨hid, k, hmem⟩ := getId_some hs
    split at hr
    · cases hr
    · split at hr
      · cases hr
      · rename_i hk
        have hk' : lower nn ∉ keys t.ents := by apply hasKey_false_iff.mp; simpa using hk
        split at hr
        · cases hr; exact h
        · cases hr
          refine ⟨?_, ?_, ?_⟩
          · intro p hp
            rcases List.mem_append.mp hp with hp | hp
            · exact h.keyName p (mem_delKey hp)
            · simp at hp; subst hp; rfl
          · simp only [keys, List.map_append, List.map_cons, List.map_nil]
            apply List.Nodup.append ((keys_delKey_sublist _ _).nodup h.nodup) (by simp)
            intro a ha hb; simp at hb; subst hb
            exact hk' ((keys_delKey_sublist _ _).subset ha)
          · intro g hg
            exact ids_after_rename h.keyName h.nodup hmem _ rfl _ (h.tags g hg)

theorem removeSym_inv {t t' : Table} {s : Sym} (h : TInv t) (hr : removeSym t s = .ok t') : TInv t' := by
  unfold removeSym at hr
  split at hr
  · cases hr
  · split at hr
    · cases hr
    · rename_i s' hs'
      split at hr
      · cases hr
      · rename_i hid
        split at hr
        · cases hr
        · cases hr
          refine ⟨fun p hp => h.keyName p (mem_delKey hp), (keys_delKey_sublist _ _).nodup h.nodup, ?_⟩
          intro g hg
          simp only [List.mem_filter] at hg
          have hgi := h.tags g hg.1
          simp only [ids, List.mem_map] at hgi ⊢
          obtain ⟨p, hp, hpi⟩ := hgi
          refine ⟨p, mem_delKey_of_ne hp ?_, hpi⟩
          intro hpk
          have : p.2 = s' := unique_of_nodup h.nodup (by rw [← hpk]; exact hp) (getKey_some_mem hs')
          have hne : g.2 ≠ s.id := by simpa using hg.2
          have hid' : s'.id = s.id := by simpa using hid
          apply hne; rw [← hpi, this, hid']

theorem swapSym_inv {t t' : Table} {o n : Sym} (h : TInv t) (hr : swapSym t o n = .ok t') : TInv t' := by
  unfold swapSym at hr
  split at hr
  · cases hr
  · split at hr
    · cases hr
    · rename_i t1 h1
      exact addSym_inv (removeSym_inv h h1) hr

theorem updKey_inv {t : Table} {k : Name} {f : Sym → Sym} (h : TInv t)
    (hf : ∀ s, (f s).id = s.id ∧ (f s).name = s.name) : TInv { t with ents := updKey t.ents k f } := by
  refine ⟨?_, ?_, ?_⟩
  · intro p hp
    rcases mem_updKey hp with hp | ⟨s, h1, h2⟩
    · exact h.keyName p hp
    · have := h.keyName _ h1
      simp only at this
      rw [this, h2, (hf s).2]
  · show (keys (updKey t.ents k f)).Nodup
    rw [keys_updKey]; exact h.nodup
  · show ∀ g ∈ t.tags, g.2 ∈ ids (updKey t.ents k f)
    rw [ids_updKey _ _ _ (fun s => (hf s).1)]; exact h.tags

/-! ## The property -/

/-! ### merge keeps the invariant of both tables, whatever happens -/

def PInv (r : MR) : Prop := TInv r.self ∧ TInv r.other

theorem setKind_inv {t : Table} (h : TInv t) (k : Name) (kd : Kind) : TInv (setKind t k kd) :=
  updKey_inv h (fun _ => ⟨rfl, rfl⟩)

theorem checkOne_inv (cx : MergeCtx) {self other : Table} (hs : TInv self) (ho : TInv other) (o : Sym) :
    PInv (checkOne cx self other o) := by
  have hs' : ∀ (b : Bool) k kd, TInv (if b then setKind self k kd else self) := by
    intro b k kd; split; exact setKind_inv hs k kd; exact hs
  have ho' : ∀ (b : Bool) k kd, TInv (if b then setKind other k kd else other) := by
    intro b k kd; split; exact setKind_inv ho k kd; exact ho
  unfold checkOne
  dsimp only
  repeat' split
  all_goals first
    | exact ⟨hs, ho⟩
    | exact ⟨hs' _ _ _, ho⟩
    | exact ⟨hs' _ _ _, ho' _ _ _⟩
    | exact ⟨setKind_inv hs _ _, ho⟩
    | exact ⟨hs, setKind_inv ho _ _⟩
    | exact ⟨setKind_inv hs _ _, setKind_inv ho _ _⟩

theorem checkLoop_inv (cx : MergeCtx) : ∀ (l : List Sym) {self other : Table}, TInv self → TInv other →
    PInv (checkLoop cx l self other) := by
  intro l; induction l with
  | nil => intro s o hs ho; exact ⟨hs, ho⟩
  | cons a r ih =>
    intro s o hs ho
    have h1 := checkOne_inv cx hs ho a
    generalize hres : checkOne cx s o a = res at h1
    obtain ⟨e, s', o'⟩ := res
    cases e with
    | none => simp only [checkLoop, hres]; exact ih h1.1 h1.2
    | some e => simp only [checkLoop, hres]; exact h1

theorem renameFresh_inv {cx : MergeCtx} {self other t' : Table} {i : Nat} {root : Name}
    (hs : TInv self) (h : renameFresh cx self other i root = .ok t') : TInv t' :=
  renameSym_inv hs h

theorem importLoop_inv (cx : MergeCtx) (c : Sym) : ∀ (l : List Sym) {self other : Table}, TInv self →
    TInv other → PInv (importLoop cx c l self other) := by
  intro l; induction l with
  | nil => intro s o hs ho; exact ⟨hs, ho⟩
  | cons i r ih =>
    intro s o hs ho
    simp only [importLoop]
    split
    · exact ⟨hs, ho⟩
    · rename_i self' hstep
      have hs' : TInv self' := by
        split at hstep
        · split at hstep
          · exact renameFresh_inv hs hstep
          · cases hstep; exact hs
        · cases hstep; exact hs
      split
      · exact ⟨hs', ho⟩
      · exact ih hs' (updKey_inv ho (fun _ => ⟨rfl, rfl⟩))

theorem containerLoop_inv (cx : MergeCtx) : ∀ (l : List Sym) {self other : Table}, TInv self →
    TInv other → PInv (containerLoop cx l self other) := by
  intro l; induction l with
  | nil => intro s o hs ho; exact ⟨hs, ho⟩
  | cons c r ih =>
    intro s o hs ho
    simp only [containerLoop]
    split
    · exact ⟨hs, ho⟩
    · rename_i self' hstep
      have hs' : TInv self' := by
        split at hstep
        · split at hstep
          · split at hstep
            · cases hstep
            · rename_i s1 h1
              exact addSym_inv (renameFresh_inv hs h1) hstep
          · split at hstep
            · cases hstep; exact updKey_inv hs (fun _ => ⟨rfl, rfl⟩)
            · cases hstep; exact hs
        · exact addSym_inv hs hstep
      have h1 := importLoop_inv cx c (importedFrom o.ents c.id) hs' ho
      generalize hres : importLoop cx c (importedFrom o.ents c.id) self' o = res at h1
      obtain ⟨e, s', o'⟩ := res
      cases e with
      | none => exact ih h1.1 h1.2
      | some e => exact h1

theorem handleClash_inv (cx : MergeCtx) {self other : Table} (hs : TInv self) (ho : TInv other) (o : Sym) :
    PInv (handleClash cx self other o) := by
  unfold handleClash
  split
  · repeat' split
    all_goals exact ⟨hs, ho⟩
  · split
    · exact ⟨hs, ho⟩
    · split
      · exact ⟨hs, ho⟩
      · dsimp only
        split
        · rename_i other' h1
          have ho' := renameSym_inv ho h1
          split
          · rename_i self' h2; exact ⟨addSym_inv hs h2, ho'⟩
          · exact ⟨hs, ho'⟩
        · split
          · exact ⟨hs, ho⟩
          · rename_i self' h2
            have hs' := renameSym_inv hs h2
            split
            · rename_i self'' h3; exact ⟨addSym_inv hs' h3, ho⟩
            · exact ⟨hs', ho⟩
        · exact ⟨hs, ho⟩

theorem symbolLoop_inv (cx : MergeCtx) : ∀ (l : List Sym) {self other : Table}, TInv self →
    TInv other → PInv (symbolLoop cx l self other) := by
  intro l; induction l with
  | nil => intro s o hs ho; exact ⟨hs, ho⟩
  | cons a r ih =>
    intro s o hs ho
    simp only [symbolLoop]
    split
    · exact ih hs ho
    · split
      · rename_i self' h1; exact ih (addSym_inv hs h1) ho
      · have h1 := handleClash_inv cx hs ho a
        generalize hres : handleClash cx s o a = res at h1
        obtain ⟨e, s', o'⟩ := res
        cases e with
        | none => exact ih h1.1 h1.2
        | some e => exact h1

theorem mergeTables_inv (cx : MergeCtx) {self other : Table} (hs : TInv self) (ho : TInv other) :
    PInv (mergeTables cx self other).1 := by
  unfold mergeTables
  have h1 := checkLoop_inv cx (other.ents.map Prod.snd) hs ho
  generalize checkLoop cx (other.ents.map Prod.snd) self other = r1 at h1
  obtain ⟨e1, s1, o1⟩ := r1
  cases e1 with
  | some e => exact h1
  | none =>
    dsimp only
    have h2 := containerLoop_inv cx (containersOf o1.ents) h1.1 h1.2
    generalize containerLoop cx (containersOf o1.ents) s1 o1 = r2 at h2
    obtain ⟨e2, s2, o2⟩ := r2
    cases e2 with
    | some e => exact h2
    | none =>
      dsimp only
      have h3 := symbolLoop_inv cx (o2.ents.map Prod.snd) h2.1 h2.2
      generalize symbolLoop cx (o2.ents.map Prod.snd) s2 o2 = r3 at h3
      obtain ⟨e3, s3, o3⟩ := r3
      cases e3 with
      | some e => exact h3
      | none => exact h3

/-! ### the invariant of a state and its preservation by every operation -/

def Inv (st : State) : Prop := ∀ t ∈ st.tabs, TInv t

theorem tab_inv {st : State} (h : Inv st) (t : Nat) : TInv (tab st t) := by
  unfold tab
  rw [List.getD_eq_getElem?_getD]
  cases hg : st.tabs[t]? with
  | none => exact TInv_empty none
  | some x => exact h x (List.mem_of_getElem? hg)

theorem setTab_inv {st : State} (h : Inv st) (t : Nat) {tb : Table} (htb : TInv tb) : Inv (setTab st t tb) := by
  intro x hx
  rcases List.mem_or_eq_of_mem_set hx with hx | hx
  · exact h x hx
  · exact hx ▸ htb

theorem Inv_next {st : State} (h : Inv st) (n : Nat) : Inv { st with next := n } := h

theorem newSymbol_inv {st : State} (h : Inv st) (t : Nat) (root : Name) (tag : Option Name) (sh : Bool)
    (kind : Kind) (ar : Bool) (iface : Iface) (wild : Bool) :
    Inv (newSymbol st t root tag sh kind ar iface wild).2 := by
  unfold newSymbol
  dsimp only
  repeat' split
  all_goals first
    | exact h
    | (apply setTab_inv (Inv_next h _) t; apply addSym_inv (tab_inv h t); assumption)

theorem C16_inv_preserved (st : State) (op : Op) (h : Inv st) : Inv (step st op).2 := by
  cases op with
  | create =>
    intro x hx
    simp only [step, List.mem_append, List.mem_singleton] at hx
    rcases hx with hx | hx
    · exact h x hx
    · subst hx; exact TInv_empty none
  | add t s tag =>
    simp only [step]
    split
    · split
      · exact h
      · rename_i tb htb; exact setTab_inv (Inv_next h _) t (addSym_inv (tab_inv h t) htb)
    · exact h
  | newSymbol t root tag sh kind ar iface wild =>
    simp only [step]; split
    · exact newSymbol_inv h _ _ _ _ _ _ _ _
    · exact h
  | nextName t root sh other => simp only [step]; split <;> exact h
  | lookup t name limit => simp only [step]; repeat' split
                           all_goals exact h
  | lookupTag t tag limit => simp only [step]; repeat' split
                             all_goals exact h
  | findOrCreate t name kind iface =>
    simp only [step]; repeat' split
    all_goals first | exact h | exact newSymbol_inv h _ _ _ _ _ _ _ _
  | findOrCreateTag t tag root kind iface =>
    simp only [step]; repeat' split
    all_goals first | exact h | exact newSymbol_inv h _ _ _ _ _ _ _ _
  | rename t i name =>
    simp only [step]; split
    · split
      · exact h
      · rename_i tb htb; exact setTab_inv h t (renameSym_inv (tab_inv h t) htb)
    · exact h
  | remove t i =>
    simp only [step]; split
    · split
      · exact h
      · split
        · exact h
        · rename_i tb htb; exact setTab_inv h t (removeSym_inv (tab_inv h t) htb)
    · exact h
  | swap t i new =>
    simp only [step]; split
    · split
      · exact h
      · split
        · exact h
        · rename_i tb htb; exact setTab_inv (Inv_next h _) t (swapSym_inv (tab_inv h t) htb)
    · exact h
  | setArgs t is =>
    simp only [step]; split
    · split
      · exact h
      · exact setTab_inv h t (TInv_of_ents_eq (tab_inv h t) rfl rfl)
    · exact h
  | merge t o skip intr =>
    simp only [step]; split
    · have hm := mergeTables_inv ⟨ancEnts st t, ancEnts st o, skip, intr⟩ (tab_inv h t) (tab_inv h o)
      generalize mergeTables ⟨ancEnts st t, ancEnts st o, skip, intr⟩ (tab st t) (tab st o) = r at hm
      obtain ⟨⟨e, s, ot⟩, ph⟩ := r
      cases e with
      | some e => exact setTab_inv (setTab_inv h t hm.1) o hm.2
      | none =>
        refine setTab_inv (setTab_inv h t hm.1) o ⟨by simp, by simp [keys], by simp⟩
    · exact h
  | attach t n =>
    simp only [step]; repeat' split
    all_goals first | exact h | exact setTab_inv h t (TInv_of_ents_eq (tab_inv h t) rfl rfl)
  | detach t =>
    simp only [step]; split
    · exact setTab_inv h t (TInv_of_ents_eq (tab_inv h t) rfl rfl)
    · exact h

theorem C16_inv_all_histories (st : State) (h : Inv st) : ∀ ops : List Op, Inv (run st ops) := by
  intro ops; induction ops generalizing st with
  | nil => exact h
  | cons op r ih => exact ih _ (C16_inv_preserved st op h)

/-! ### lookup returns the symbol of the innermost enclosing scope that has the name -/

/-- the entry of the first table (innermost first) that has key `k` -/
def firstHit : List Ents → Name → Option Sym
  | [], _ => none
  | e :: r, k => match getKey e k with
    | some s => some s
    | none => firstHit r k

theorem getKey_append (a b : Ents) (k : Name) :
    getKey (a ++ b) k = match getKey a k with | some s => some s | none => getKey b k := by
  induction a with
  | nil => simp [getKey]
  | cons p r ih =>
    obtain ⟨x, s⟩ := p
    simp only [List.cons_append, getKey]
    split
    · rfl
    · exact ih

theorem getKey_filter (acc e : Ents) (k : Name) (h : hasKey acc k = false) :
    getKey (e.filter (fun p => !hasKey acc p.1)) k = getKey e k := by
  induction e with
  | nil => simp [getKey]
  | cons p r ih =>
    obtain ⟨x, s⟩ := p
    simp only [List.filter_cons]
    by_cases hx : x = k
    · subst hx; simp [h, getKey]
    · split
      · simp only [getKey]; rw [ih]
      · simp only [getKey]
        have : (x == k) = false := by simpa using hx
        rw [this]; simpa using ih

theorem getKey_mergeDicts (r : List Ents) : ∀ (acc : Ents) (k : Name),
    getKey (mergeDicts acc r) k = match getKey acc k with | some s => some s | none => firstHit r k := by
  induction r with
  | nil => intro acc k; simp only [mergeDicts, firstHit]; cases getKey acc k <;> rfl
  | cons e r ih =>
    intro acc k
    simp only [mergeDicts, firstHit]
    rw [ih, getKey_append]
    cases hacc : getKey acc k with
    | some s => rfl
    | none =>
      have : hasKey acc k = false := by rw [← getKey_isSome_eq_hasKey, hacc]; rfl
      simp only [getKey_filter acc e k this]

/-- **lookup is innermost-first**: `lookup` (which indexes the merged dictionary built by `get_symbols`)
returns the entry of the first table of the scope chain — the table itself, then the tables of the
enclosing scoping nodes from the inside out, not beyond `scope_limit` — that has the normalised name,
and raises `KeyError` iff none of them has it. -/
theorem C16_lookup_innermost (st : State) (t : Nat) (name : Name) (limit : Option Nat) :
    lookup st t name limit =
      match firstHit ((chain st t limit).map fun i => (tab st i).ents) (lower name) with
      | some s => .ok s
      | none => .error .key := by
  unfold lookup getSymbols
  rw [getKey_mergeDicts]
  simp only [getKey]
  rfl

theorem firstHit_none_iff {l : List Ents} {k : Name} : firstHit l k = none ↔ ∀ e ∈ l, k ∉ keys e := by
  induction l with
  | nil => simp [firstHit]
  | cons e r ih =>
    simp only [firstHit, List.mem_cons, forall_eq_or_imp]
    cases he : getKey e k with
    | some s =>
      simp only [reduceCtorEq, false_iff, not_and]
      intro h; exact absurd (getKey_none_iff.mpr h) (by simp [he])
    | none => simp only [ih]; exact ⟨fun h => ⟨getKey_none_iff.mp he, h⟩, fun h => h.2⟩

/-- what "first table that has the key" means: position `n` in the chain holds the key, no table before it does -/
theorem firstHit_some_spec {l : List Ents} {k : Name} {s : Sym} (h : firstHit l k = some s) :
    ∃ n, n < l.length ∧ getKey (l.getD n []) k = some s ∧ ∀ m, m < n → k ∉ keys (l.getD m []) := by
  induction l with
  | nil => simp [firstHit] at h
  | cons e r ih =>
    simp only [firstHit] at h
    cases he : getKey e k with
    | some s' =>
      rw [he] at h; cases h
      exact ⟨0, by simp, by simpa using he, by intro m hm; omega⟩
    | none =>
      rw [he] at h
      obtain ⟨n, h1, h2, h3⟩ := ih h
      refine ⟨n+1, by simp; omega, by simpa using h2, ?_⟩
      intro m hm
      cases m with
      | zero => simpa using getKey_none_iff.mp he
      | succ m => simpa using h3 m (by omega)

theorem C16_lookup_scope_limit_self (st : State) (t n : Nat) (h : (tab st t).node = some n) :
    chain st t (some n) = [t] := by
  have h' : (st.tabs.getD t {}).node = some n := h
  unfold chain
  rw [h']
  dsimp only
  generalize (st.nodes.getD n ⟨[], false⟩).anc = l
  cases l <;> simp [chainFrom]

/-! ### freshness of generated names -/

theorem keys_mergeDicts_nil {l : List Ents} {k : Name} (h : k ∉ keys (mergeDicts [] l)) :
    ∀ e ∈ l, k ∉ keys e := by
  have := getKey_none_iff.mpr h
  rw [getKey_mergeDicts] at this
  simp only [getKey] at this
  exact firstHit_none_iff.mp this

/-- **freshness and termination of `next_available_name`**: the returned name clashes (case-insensitively)
neither with this table, nor — unless `shadowing` — with any enclosing scope, nor with `other_table`; and
the search loop stopped by its own test after at most `|existing names|` increments (no fuel exhaustion). -/
theorem C16_fresh (st : State) (t : Nat) (root : Name) (sh : Bool) (other : Option Nat) (n : Name)
    (h : (step st (.nextName t root sh other)).1 = .name n) :
    lower n ∉ keys (tab st t).ents ∧
    (sh = false → ∀ i ∈ chain st t none, lower n ∉ keys (tab st i).ents) ∧
    (∀ o, other = some o → lower n ∉ keys (tab st o).ents) := by
  simp only [step] at h
  split at h
  · simp only [Outcome.name.injEq] at h
    subst h
    have hf := nextName_fresh
      (match other with
        | some o => (if sh = true then keys (tab st t).ents else keys (getSymbols st t none)) ++ keys (tab st o).ents
        | none => if sh = true then keys (tab st t).ents else keys (getSymbols st t none)) root
    have hself : ∀ x, x ∉ (if sh = true then keys (tab st t).ents else keys (getSymbols st t none)) →
        x ∉ keys (tab st t).ents ∧ (sh = false → ∀ i ∈ chain st t none, x ∉ keys (tab st i).ents) := by
      intro x hx
      cases sh with
      | true => simp at hx; exact ⟨hx, by simp⟩
      | false =>
        simp only [Bool.false_eq_true, if_false] at hx
        have hall := keys_mergeDicts_nil hx
        refine ⟨?_, fun _ i hi => hall _ (List.mem_map.mpr ⟨i, hi, rfl⟩)⟩
        exact hall _ (List.mem_map.mpr ⟨t, by simp [chain], rfl⟩)
    cases other with
    | none =>
      simp only at hf
      obtain ⟨h1, h2⟩ := hself _ hf
      exact ⟨h1, h2, by simp⟩
    | some o =>
      simp only [List.mem_append, not_or] at hf
      obtain ⟨h1, h2⟩ := hself _ hf.1
      refine ⟨h1, h2, ?_⟩
      intro o' ho'; cases ho'; exact hf.2
  · cases h

theorem C16_next_terminates (existing : List Name) (root : Name) :
    nextIdx existing root (existing.length + 1) 0 ≤ existing.length ∧
    lower (cand root (nextIdx existing root (existing.length + 1) 0)) ∉ existing :=
  ⟨nextIdx_le existing root, nextIdx_fresh existing root⟩

/-- the name given to a symbol created by `new_symbol` is fresh in the same sense -/
theorem C16_new_symbol_name_fresh (st : State) (t : Nat) (root : Name) :
    lower (nextName (keys (getSymbols st t none)) root) ∉ keys (tab st t).ents ∧
    ∀ i ∈ chain st t none, lower (nextName (keys (getSymbols st t none)) root) ∉ keys (tab st i).ents := by
  have hall := keys_mergeDicts_nil (nextName_fresh (keys (getSymbols st t none)) root)
  exact ⟨hall _ (List.mem_map.mpr ⟨t, by simp [chain], rfl⟩), fun i hi => hall _ (List.mem_map.mpr ⟨i, hi, rfl⟩)⟩

/-! ### atomicity -/

def Op.isMerge : Op → Bool
  | .merge .. => true
  | _ => false

theorem newSymbol_atomic (st : State) (t : Nat) (root : Name) (tag : Option Name) (sh : Bool)
    (kind : Kind) (ar : Bool) (iface : Iface) (wild : Bool) (e : Err)
    (h : (newSymbol st t root tag sh kind ar iface wild).1 = .err e) :
    (newSymbol st t root tag sh kind ar iface wild).2.tabs = st.tabs := by
  unfold newSymbol at h ⊢
  dsimp only at h ⊢
  repeat' split
  all_goals first
    | rfl
    | (exfalso; simp_all)

/-- **a rejected operation changes nothing** — every operation except `merge`: if it raises, all tables
(entries, their order, tags, argument lists, attachments) are exactly as before. -/
theorem C16_atomic (st : State) (op : Op) (hop : op.isMerge = false) (e : Err)
    (h : (step st op).1 = .err e) : (step st op).2.tabs = st.tabs := by
  cases op with
  | merge t o skip intr => simp [Op.isMerge] at hop
  | create => simp [step] at h
  | newSymbol t root tag sh kind ar iface wild =>
    simp only [step] at h ⊢
    split
    · rename_i ht; rw [if_pos ht] at h; exact newSymbol_atomic _ _ _ _ _ _ _ _ _ e h
    · rfl
  | findOrCreate t name kind iface =>
    simp only [step] at h ⊢
    repeat' split
    all_goals first
      | rfl
      | (apply newSymbol_atomic (e := e); simp_all)
  | findOrCreateTag t tag root kind iface =>
    simp only [step] at h ⊢
    repeat' split
    all_goals first
      | rfl
      | (apply newSymbol_atomic (e := e); simp_all)
  | _ =>
    simp only [step] at h ⊢
    repeat' split
    all_goals first
      | rfl
      | (exfalso; simp_all)

/-! ### merge: what is atomic, what is not -/

/-- the receiving table has no unresolved symbol named like a Fortran intrinsic (then
`check_for_clashes` has nothing to specialise) -/
def NoIntrinsicUnresolved (cx : MergeCtx) (self : Table) : Prop :=
  ∀ p ∈ self.ents, p.2.iface = .unresolved → cx.intr.contains (lower p.2.name) = false

instance (cx : MergeCtx) (self : Table) : Decidable (NoIntrinsicUnresolved cx self) := by
  unfold NoIntrinsicUnresolved; infer_instance

theorem checkOne_unchanged (cx : MergeCtx) {self other : Table} (h : NoIntrinsicUnresolved cx self) (o : Sym) :
    (checkOne cx self other o).self = self ∧ (checkOne cx self other o).other = other := by
  have hkey : ∀ this, getKey self.ents (lower o.name) = some this → this.iface = .unresolved →
      cx.intr.contains (lower this.name) = false := fun this hg hi => h _ (getKey_some_mem hg) hi
  unfold checkOne
  dsimp only
  repeat' split
  all_goals first
    | exact ⟨rfl, rfl⟩
    | (exfalso; simp_all)

theorem checkLoop_unchanged (cx : MergeCtx) : ∀ (l : List Sym) {self other : Table}, NoIntrinsicUnresolved cx self →
    (checkLoop cx l self other).self = self ∧ (checkLoop cx l self other).other = other := by
  intro l; induction l with
  | nil => intro s o _; exact ⟨rfl, rfl⟩
  | cons a r ih =>
    intro s o h
    have h1 := checkOne_unchanged cx (other := o) h a
    generalize hres : checkOne cx s o a = res at h1
    obtain ⟨e, s', o'⟩ := res
    simp only at h1
    obtain ⟨rfl, rfl⟩ := h1
    cases e with
    | none => simp only [checkLoop, hres]; exact ih h
    | some e => simp [checkLoop, hres]

/-- Full statement of the atomicity clause for `merge` (FALSE for the pinned code, see the counterexamples). -/
def C16_merge_atomic_statement : Prop :=
  ∀ (cx : MergeCtx) (self other : Table), TInv self → TInv other →
    (mergeTables cx self other).1.err ≠ none →
    (mergeTables cx self other).1.self = self ∧ (mergeTables cx self other).1.other = other

/-- **partial atomicity of merge**: a merge that is rejected by `check_for_clashes` (phase 0) leaves both
tables untouched provided the receiving table has no unresolved symbol with an intrinsic's name. -/
theorem C16_merge_rejected_atomic_partial (cx : MergeCtx) (self other : Table)
    (hside : NoIntrinsicUnresolved cx self) (hphase : (mergeTables cx self other).2 = 0) :
    (mergeTables cx self other).1.self = self ∧ (mergeTables cx self other).1.other = other := by
  have h1 := checkLoop_unchanged cx (other.ents.map Prod.snd) (other := other) hside
  unfold mergeTables at hphase ⊢
  generalize checkLoop cx (other.ents.map Prod.snd) self other = r1 at h1 hphase
  obtain ⟨e1, s1, o1⟩ := r1
  simp only at h1
  obtain ⟨rfl, rfl⟩ := h1
  cases e1 with
  | some e => exact ⟨rfl, rfl⟩
  | none =>
    exfalso
    dsimp only at hphase
    generalize containerLoop cx (containersOf o1.ents) s1 o1 = r2 at hphase
    obtain ⟨e2, s2, o2⟩ := r2
    cases e2 with
    | some e => simp at hphase
    | none =>
      dsimp only at hphase
      generalize symbolLoop cx (o2.ents.map Prod.snd) s2 o2 = r3 at hphase
      obtain ⟨e3, s3, o3⟩ := r3
      cases e3 <;> simp at hphase

/-! #### witnesses (the known findings) -/

def nSin : Name := [115, 105, 110]
def nA : Name := [97]
def nV : Name := [118]
def nM : Name := [109]
def nX : Name := [120]
def nZZ : Name := [122, 122]

/-- finding 1: self = {sin, a}, other = {sin, a}, all unresolved generic symbols, no wildcard imports -/
def w1cx : MergeCtx := ⟨[], [], [], [nSin]⟩
def w1self : Table := { ents := [(nSin, ⟨0, nSin, .generic, .unresolved, false⟩), (nA, ⟨2, nA, .generic, .unresolved, false⟩)] }
def w1other : Table := { ents := [(nSin, ⟨1, nSin, .generic, .unresolved, false⟩), (nA, ⟨3, nA, .generic, .unresolved, false⟩)] }

theorem w1_inv : TInv w1self ∧ TInv w1other :=
  ⟨⟨by decide, by decide, by decide⟩, ⟨by decide, by decide, by decide⟩⟩

theorem C16_atomic_counterexample_specialise : ¬ C16_merge_atomic_statement := by
  intro h
  have := h w1cx w1self w1other w1_inv.1 w1_inv.2 (by decide)
  revert this; decide

/-- finding 2: self = {v: argument}, other = {m: container, v imported from m}, skip = [v] -/
def w2cx : MergeCtx := ⟨[], [], [2], []⟩
def w2self : Table := { ents := [(nV, ⟨0, nV, .data, .argument, false⟩)] }
def w2other : Table := { ents := [(nM, ⟨1, nM, .container, .automatic, false⟩), (nV, ⟨2, nV, .data, .imp 1 nM none, false⟩)] }

theorem C16_atomic_counterexample_skip :
    TInv w2self ∧ TInv w2other ∧ NoIntrinsicUnresolved w2cx w2self ∧
    (mergeTables w2cx w2self w2other).1.err = some .symbol ∧ (mergeTables w2cx w2self w2other).2 = 1 ∧
    (mergeTables w2cx w2self w2other).1.self ≠ w2self :=
  ⟨⟨by decide, by decide, by decide⟩, ⟨by decide, by decide, by decide⟩, by decide, by decide, by decide, by decide⟩

/-- finding 3: other = {zz, v imported from container #0 of an enclosing scope}, self = {m: container #3, v imported from it} -/
def w3cx : MergeCtx := ⟨[], [[(nM, ⟨0, nM, .container, .automatic, false⟩)]], [], []⟩
def w3self : Table := { ents := [(nM, ⟨3, nM, .container, .automatic, false⟩), (nV, ⟨4, nV, .data, .imp 3 nM none, false⟩)] }
def w3other : Table := { ents := [(nZZ, ⟨1, nZZ, .data, .automatic, false⟩), (nV, ⟨2, nV, .data, .imp 0 nM none, false⟩)] }

theorem C16_atomic_counterexample_outer_import :
    TInv w3self ∧ TInv w3other ∧ NoIntrinsicUnresolved w3cx w3self ∧
    (mergeTables w3cx w3self w3other).1.err = some .internal ∧ (mergeTables w3cx w3self w3other).2 = 2 ∧
    (mergeTables w3cx w3self w3other).1.self ≠ w3self :=
  ⟨⟨by decide, by decide, by decide⟩, ⟨by decide, by decide, by decide⟩, by decide, by decide, by decide, by decide⟩

/-! ### merge adds every non-skipped symbol -/

theorem addSym_ids {t t' : Table} {ct : List Name} {s : Sym} {tag : Option Name}
    (hr : addSym t ct s tag = .ok t') : ids t'.ents = ids t.ents ++ [s.id] := by
  unfold addSym at hr
  repeat' split at hr
  all_goals first
    | (cases hr; done)
    | (cases hr; simp [ids])

theorem renameSym_ids_mono {t t' : Table} {i : Nat} {nn : Name} {dry : Bool} (h : TInv t)
    (hr : renameSym t i nn dry = .ok t') : ∀ j ∈ ids t.ents, j ∈ ids t'.ents := by
  unfold renameSym at hr
  split at hr
  · cases hr
  · rename_i s hs
    obtain ⟨hid, k, hmem⟩ := getId_some hs
    repeat' split at hr
    all_goals first
      | (cases hr; done)
      | (cases hr; intro j hj; exact hj)
      | (cases hr; exact ids_after_rename h.keyName h.nodup hmem _ rfl)

/-- an "ordinary" symbol: not a ContainerSymbol, not imported, not unresolved -/
def Sym.ordinary (o : Sym) : Prop := o.kind ≠ .container ∧ o.iface.isImport = false ∧ o.iface ≠ .unresolved

theorem handleClash_ids (cx : MergeCtx) {self other : Table} (hs : TInv self) (_ho : TInv other) (o : Sym) :
    (∀ j ∈ ids self.ents, j ∈ ids (handleClash cx self other o).self.ents) ∧
    ((handleClash cx self other o).err = none → o.ordinary → o.id ∈ ids (handleClash cx self other o).self.ents) := by
  unfold handleClash
  split
  · rename_i cid cname orig hif
    have : ¬ o.ordinary := by intro h; have := h.2.1; rw [hif] at this; simp [Iface.isImport] at this
    repeat' split
    all_goals exact ⟨fun j hj => hj, fun _ ho' => absurd ho' this⟩
  · split
    · exact ⟨fun j hj => hj, fun he => by simp at he⟩
    · split
      · rename_i hun
        refine ⟨fun j hj => hj, fun _ ho' => ?_⟩
        exfalso; apply ho'.2.2; simp at hun; exact hun.1
      · dsimp only
        split
        · rename_i other' h1
          split
          · rename_i self' h2
            have := addSym_ids h2
            exact ⟨fun j hj => by rw [this]; simp [hj], fun _ _ => by rw [this]; simp⟩
          · exact ⟨fun j hj => hj, fun he => by simp at he⟩
        · split
          · exact ⟨fun j hj => hj, fun he => by simp at he⟩
          · rename_i self' h2
            have hm := renameSym_ids_mono hs h2
            split
            · rename_i self'' h3
              have := addSym_ids h3
              exact ⟨fun j hj => by rw [this]; simp [hm j hj], fun _ _ => by rw [this]; simp⟩
            · exact ⟨hm, fun he => by simp at he⟩
        · exact ⟨fun j hj => hj, fun he => by simp at he⟩

theorem symbolLoop_ids (cx : MergeCtx) : ∀ (l : List Sym) {self other : Table}, TInv self → TInv other →
    (∀ j ∈ ids self.ents, j ∈ ids (symbolLoop cx l self other).self.ents) ∧
    ((symbolLoop cx l self other).err = none → ∀ o ∈ l, o.id ∉ cx.skip → o.ordinary →
      o.id ∈ ids (symbolLoop cx l self other).self.ents) := by
  intro l; induction l with
  | nil => intro s o _ _; exact ⟨fun j hj => hj, fun _ o ho => by simp at ho⟩
  | cons a r ih =>
    intro s o hs ho
    simp only [symbolLoop]
    split
    · rename_i hskip
      obtain ⟨h1, h2⟩ := ih hs ho
      refine ⟨h1, fun he x hx hxs hxo => ?_⟩
      rcases List.mem_cons.mp hx with rfl | hx
      · exfalso
        simp only [Bool.or_eq_true, decide_eq_true_eq, beq_iff_eq] at hskip
        rcases hskip with h | h
        · exact hxs h
        · exact hxo.1 h
      · exact h2 he x hx hxs hxo
    · split
      · rename_i self' h1
        have hids := addSym_ids h1
        obtain ⟨m1, m2⟩ := ih (addSym_inv hs h1) ho
        refine ⟨fun j hj => m1 j (by rw [hids]; simp [hj]), fun he x hx hxs hxo => ?_⟩
        rcases List.mem_cons.mp hx with rfl | hx
        · exact m1 _ (by rw [hids]; simp)
        · exact m2 he x hx hxs hxo
      · have hc := handleClash_ids cx hs ho a
        have hi := handleClash_inv cx hs ho a
        generalize hres : handleClash cx s o a = res at hc hi
        obtain ⟨e, s', o'⟩ := res
        cases e with
        | some e => exact ⟨hc.1, fun he => by simp at he⟩
        | none =>
          obtain ⟨m1, m2⟩ := ih hi.1 hi.2
          refine ⟨fun j hj => m1 j (hc.1 j hj), fun he x hx hxs hxo => ?_⟩
          rcases List.mem_cons.mp hx with rfl | hx
          · exact m1 _ (hc.2 rfl hxo)
          · exact m2 he x hx hxs hxo

/-- Full statement of the merge-once clause (FALSE for the pinned code: see the counterexample): after a
successful merge every non-skipped symbol of the merged table is an entry of the receiving table or was
identified with an entry of the same name that is equally a container / an equal import / unresolved. -/
def C16_merge_once_statement : Prop :=
  ∀ (cx : MergeCtx) (self other : Table), TInv self → TInv other →
    (mergeTables cx self other).1.err = none →
    ∀ p ∈ other.ents, p.2.id ∉ cx.skip →
      p.2.id ∈ ids (mergeTables cx self other).1.self.ents ∨
      ∃ q ∈ self.ents, q.1 = p.1 ∧
        ((q.2.kind = .container ∧ p.2.kind = .container) ∨ (q.2.iface.importEq p.2.iface = true) ∨
         (q.2.iface = .unresolved ∧ p.2.iface = .unresolved))

/-- finding 4: self = {x: container #0, v: local}, other = {v imported from that container #0} -/
def w4cx : MergeCtx := ⟨[], [], [], []⟩
def w4self : Table := { ents := [(nX, ⟨0, nX, .container, .automatic, false⟩), (nV, ⟨1, nV, .data, .automatic, false⟩)] }
def w4other : Table := { ents := [(nV, ⟨2, nV, .data, .imp 0 nX none, false⟩)] }

theorem C16_merge_once_counterexample_outer_import : ¬ C16_merge_once_statement := by
  intro h
  have := h w4cx w4self w4other ⟨by decide, by decide, by decide⟩ ⟨by decide, by decide, by decide⟩ (by decide)
    (nV, ⟨2, nV, .data, .imp 0 nX none, false⟩) (by decide) (by decide)
  revert this; decide

/-- **merge-once, partial**: in the phase that adds the symbols (`_add_symbols_from_table`), every symbol of
the receiving table stays an entry (by identity), and if the phase succeeds every non-skipped ordinary symbol
(not a container, not imported, not unresolved — the defect class of finding 4 and the absorbed cases are
excluded) of the merged table is an entry of the receiving table afterwards. -/
theorem C16_merge_once_partial (cx : MergeCtx) (l : List Sym) (self other : Table) (hs : TInv self) (ho : TInv other) :
    (∀ j ∈ ids self.ents, j ∈ ids (symbolLoop cx l self other).self.ents) ∧
    ((symbolLoop cx l self other).err = none → ∀ o ∈ l, o.id ∉ cx.skip → o.ordinary →
      o.id ∈ ids (symbolLoop cx l self other).self.ents) :=
  symbolLoop_ids cx l hs ho

/-- keys are distinct and determine the entry, so an identity occurs at most once per key; together with
`C16_inv_preserved` this gives "exactly once" for the name of every added symbol. -/
theorem C16_name_occurs_once {t : Table} (h : TInv t) {k : Name} {a b : Sym}
    (ha : (k, a) ∈ t.ents) (hb : (k, b) ∈ t.ents) : a = b := unique_of_nodup h.nodup ha hb

/-! ### non-vacuity and sanity evaluations -/

def nB : Name := [66]       -- "B"
def st0 : State :=
  { tabs := [{ node := some 0 }, { node := some 1 }, {}],
    nodes := [⟨[], true⟩, ⟨[0], true⟩], next := 0 }

def hist0 : List Op :=
  [.add 0 ⟨nA, .data, .automatic, false⟩ none,           -- outer scope: a
   .add 1 ⟨[65], .data, .automatic, false⟩ (some nB),    -- inner scope: A (shadows a), tagged
   .add 1 ⟨nA, .data, .automatic, false⟩ none,           -- refused: KeyError (same name up to case)
   .newSymbol 1 nA none false .data true .automatic false]  -- becomes a_1

example : Inv st0 := by
  intro t ht; simp [st0] at ht
  rcases ht with rfl | rfl | rfl <;> exact ⟨by simp, by simp [keys], by simp⟩

example : (step (run st0 (hist0.take 2)) (hist0.getD 2 .create)).1 = .err .key := by decide
example : (step (run st0 hist0) (.lookup 1 nA none)).1 = .sym 1 := by decide
example : (step (run st0 hist0) (.lookup 0 nA none)).1 = .sym 0 := by decide
example : (step (run st0 hist0) (.lookup 1 nB none)).1 = .err .key := by decide
example : keys (tab (run st0 hist0) 1).ents = [[97], [97, 95, 49]] := by decide
example : (step (run st0 hist0) (.nextName 1 nA false none)).1 = .name [97, 95, 50] := by decide
example : (step (run st0 hist0) (.nextName 1 nA false none)).1 = .name [97, 95, 50] →
    lower [97, 95, 50] ∉ keys (tab (run st0 hist0) 1).ents := fun h => (C16_fresh _ _ _ _ _ _ h).1
example : NoIntrinsicUnresolved w2cx w2self := by decide
example : (mergeTables w4cx w4self w4other).2 = 3 := by decide
example : ∃ o : Sym, o.ordinary := ⟨⟨0, nA, .data, .automatic, false⟩, by decide, by decide, by decide⟩

end C16
