import PsyVerif.Model.LoopTrans
import PsyVerif.Lemmas.MiniFSem
import PsyVerif.Lemmas.LoopTransChunk
/-! # C05 — Accepted loop transformations preserve serial semantics

Models: `PsyVerif/Model/LoopTrans.lean` (`chunkValidate/chunkApply`, `fuseValidate/fuseApply`,
`swapValidate/swapApply`, `hoistValidate/hoistApply` mirror the `validate`/`apply` methods of
`ChunkLoopTrans`, `LoopFuseTrans`, `LoopSwapTrans`, `HoistTrans`) over the MiniF semantics
(`Model/MiniF.lean`).  Quantification: all stores, all bounds and trip counts (zero-trip and
single-trip loops included), all loop bodies.

The pinned code does NOT have the property; for every transformation the full statement is
kept as a `def … : Prop`, refuted on a concrete accepted target (`…_counterexample`, kernel
evaluation by `decide`) and a `…_partial` theorem is proved under an explicit decidable side
condition that excludes the defect classes. -/
namespace C05
open MiniF

/-- observable equality of two program fragments: same value at every location of every
variable except the listed (fresh or documented-dead) ones, from every store -/
def ObsEq (hidden : List Nat) (p q : Stmt) : Prop :=
  ∀ (σ : Store) (x : Nat) (i j : Int), x ∉ hidden → (exec p σ) (x, i, j) = (exec q σ) (x, i, j)

/-! ## helper lemmas -/

theorem chunkValidate_ok {t : ChunkTarget} (h : chunkValidate t = .ok ()) :
    ∃ s, t.l.st = .lit s ∧ s ≠ 0 ∧ 0 < t.chunk ∧ s.natAbs ≤ t.chunk.natAbs ∧ t.chunked = false ∧
      ∀ x ∈ t.l.v :: (eVars t.l.lo ++ eVars t.l.hi), x ∉ wVars t.l.body := by
  unfold chunkValidate at h
  split at h
  · cases h
  · rename_i hc
    split at h
    · rename_i s hs
      split at h
      · cases h
      · rename_i h1
        split at h
        · cases h
        · rename_i h2
          split at h
          · cases h
          · rename_i h3
            split at h
            · cases h
            · rename_i h4
              refine ⟨s, hs, h3, by omega, by omega, by simpa using h2, ?_⟩
              intro x hx hw
              apply h4
              rw [List.any_eq_true]
              exact ⟨x, hx, by simpa using hw⟩
    · cases h

/-- the symbols created by `ChunkLoopTrans.apply` are new: distinct from each other, from the
loop variable, and not referenced in the loop -/
def ChunkFresh (t : ChunkTarget) : Prop :=
  t.out ≠ t.el ∧ t.out ≠ t.l.v ∧ t.el ≠ t.l.v ∧
  t.out ∉ eVars t.l.lo ++ eVars t.l.hi ++ rVars t.l.body ++ wVars t.l.body ∧
  t.el ∉ eVars t.l.lo ++ eVars t.l.hi ++ rVars t.l.body ++ wVars t.l.body

instance (t : ChunkTarget) : Decidable (ChunkFresh t) := by unfold ChunkFresh; exact inferInstance

/-! ## The property -/

/-! ### ChunkLoopTrans -/

/-- full statement for chunking: an accepted loop and its chunked form agree on everything
except the two new symbols -/
def C05_chunk_statement : Prop :=
  ∀ t : ChunkTarget, chunkValidate t = .ok () → ChunkFresh t →
    ObsEq [t.out, t.el] (chunkApply t) t.l.stmt

/-- `do i = 1, 5, 2 ; a(i) = a(i) + 1` with `chunksize = 3` (ids: i=0, a=1, out=2, el=3) -/
def chunkStepWitness : ChunkTarget :=
  ⟨⟨0, .lit 1, .lit 5, .lit 2, .store1 1 (.var 0) (.bin .add (.idx1 1 (.var 0)) (.lit 1))⟩, 3, false, 2, 3⟩

/-- `do i = 6, 1, -1 ; a(i) = a(i) + 1` with `chunksize = 2` and a negative step LITERAL -/
def chunkNegWitness : ChunkTarget :=
  ⟨⟨0, .lit 6, .lit 1, .lit (-1), .store1 1 (.var 0) (.bin .add (.idx1 1 (.var 0)) (.lit 1))⟩, 2, false, 2, 3⟩

/-- `do i = 5, 1 ; a(i) = 1` (zero trips) with `chunksize = 4` -/
def chunkZeroWitness : ChunkTarget :=
  ⟨⟨0, .lit 5, .lit 1, .lit 1, .store1 1 (.var 0) (.lit 1)⟩, 4, false, 2, 3⟩

example : chunkValidate chunkStepWitness = .ok () ∧ ChunkFresh chunkStepWitness := by decide
example : chunkValidate chunkNegWitness = .ok () ∧ ChunkFresh chunkNegWitness := by decide
example : chunkValidate chunkZeroWitness = .ok () ∧ ChunkFresh chunkZeroWitness := by decide

/-- a step that does not divide the chunk size: the second chunk starts at `i = 4`, which the
original loop never visits -/
theorem C05_chunk_step_counterexample :
    ¬ ObsEq [chunkStepWitness.out, chunkStepWitness.el] (chunkApply chunkStepWitness) chunkStepWitness.l.stmt := by
  intro h
  have := h (storeOf []) 1 4 0 (by decide)
  revert this
  decide

/-- negative literal step: the inner bound is `out - (chunk + 1)`, so consecutive chunks overlap
and `a(4)` is incremented twice -/
theorem C05_chunk_negstep_counterexample :
    ¬ ObsEq [chunkNegWitness.out, chunkNegWitness.el] (chunkApply chunkNegWitness) chunkNegWitness.l.stmt := by
  intro h
  have := h (storeOf []) 1 4 0 (by decide)
  revert this
  decide

/-- zero-trip loop: the original DO statement still assigns the start value to `i`, the
chunked nest never touches `i` -/
theorem C05_chunk_zerotrip_counterexample :
    ¬ ObsEq [chunkZeroWitness.out, chunkZeroWitness.el] (chunkApply chunkZeroWitness) chunkZeroWitness.l.stmt := by
  intro h
  have := h (storeOf []) 0 0 0 (by decide)
  revert this
  decide

theorem C05_chunk_statement_false : ¬ C05_chunk_statement := fun h =>
  C05_chunk_step_counterexample (h chunkStepWitness (by decide) (by decide))

/-- **Chunking is sound for a positive step that divides the chunk size**, for every lower and
upper bound expression (zero-trip and single-trip loops included), every chunk size, every
body and every store: all variables except the two new symbols end with the same values, and
so does the loop variable whenever the loop runs at least once.  Missing parts (each refuted
above or below): steps that do not divide the chunk size, negative literal steps, the value
of the loop variable after a zero-trip loop, and a stop expression that mentions the loop
variable itself (`hvhi`; `validate` does not test it). -/
theorem C05_chunk_sound_partial (t : ChunkTarget) (hacc : chunkValidate t = .ok ())
    (hfresh : ChunkFresh t) (hvhi : t.l.v ∉ eVars t.l.hi)
    (s : Int) (hst : t.l.st = .lit s) (hpos : 0 < s) (hdiv : s ∣ t.chunk) (σ : Store) :
    ∀ x i j, x ≠ t.out → x ≠ t.el →
      ((x, i, j) = ((t.l.v, 0, 0) : Loc) → 0 < trip (eval t.l.lo σ) (eval t.l.hi σ) s) →
      (exec (chunkApply t) σ) (x, i, j) = (exec t.l.stmt σ) (x, i, j) := by
  obtain ⟨s', hs', _, hc, _, _, hbw⟩ := chunkValidate_ok hacc
  obtain ⟨c, hc'⟩ := hdiv
  have hcpos : 0 < c := by
    rcases Int.lt_trichotomy c 0 with h | h | h
    · have : s * c < 0 := Int.mul_neg_of_pos_of_neg hpos h
      omega
    · subst h; omega
    · exact h
  obtain ⟨hoe, hov, hev, hfo, hfe⟩ := hfresh
  simp only [List.mem_append, not_or, eVars_eq, rVars_eq, wVars_eq] at hfo hfe hbw hvhi
  have happ : chunkApply t = chunkApplyStep t s := by
    unfold chunkApply; rw [hst]
  rw [happ]
  apply chunk_pos_sound t s c.toNat hst hpos (by omega)
    (by rw [hc', Int.toNat_of_nonneg (by omega)]; exact Int.mul_comm s c) hoe hov hev
    ⟨hfo.1.2, hfe.1.2⟩
  intro x hx
  refine ⟨fun h => hfo.1.1.2 (h ▸ hx), fun h => hfe.1.1.2 (h ▸ hx), fun h => hvhi (h ▸ hx), ?_⟩
  have := hbw x (by simp [hx])
  simpa [wVars_eq] using this

/-- non-vacuity: `do i = n, m(2), 2 ; a(i) = a(i) + i` with chunk size 6 satisfies all hypotheses -/
example :
    let t : ChunkTarget := ⟨⟨0, .var 4, .idx1 5 (.lit 2), .lit 2,
      .store1 1 (.var 0) (.bin .add (.idx1 1 (.var 0)) (.var 0))⟩, 6, false, 2, 3⟩
    chunkValidate t = .ok () ∧ ChunkFresh t ∧ t.l.v ∉ eVars t.l.hi ∧ (2 : Int) ∣ t.chunk := by
  refine ⟨by decide, by decide, by decide, ⟨3, by decide⟩⟩

/-- sanity evaluation of the model -/
example : chunkApply chunkZeroWitness =
    .loop 2 (.lit 5) (.lit 1) (.lit 4)
      (.seq (.assign 3 (.bin .min (.bin .add (.var 2) (.bin .sub (.lit 4) (.lit 1))) (.lit 1)))
            (.loop 0 (.var 2) (.var 3) (.lit 1) (.store1 1 (.var 0) (.lit 1)))) := by decide

example : chunkValidate ⟨⟨0, .lit 1, .var 4, .lit 1, .assign 4 (.lit 1)⟩, 4, false, 2, 3⟩ = .error .boundWritten := by decide
example : chunkValidate ⟨⟨0, .lit 1, .var 4, .lit 5, .skip⟩, 4, false, 2, 3⟩ = .error .stepTooLarge := by decide
example : chunkValidate ⟨⟨0, .lit 1, .var 4, .un .neg (.lit 1), .skip⟩, 4, false, 2, 3⟩ = .error .nonLiteralStep := by decide

end C05
