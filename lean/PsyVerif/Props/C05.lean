import PsyVerif.Model.LoopTrans
import PsyVerif.Lemmas.MiniFSem
import PsyVerif.Lemmas.LoopTransChunk
import PsyVerif.Lemmas.LoopTransFuse
import PsyVerif.Lemmas.LoopTransHoist
import PsyVerif.Lemmas.LoopTransHoistBound
import PsyVerif.Lemmas.LoopTransSwap
import PsyVerif.Lemmas.LoopTransReplaceIV
import PsyVerif.Lemmas.LoopTransAccess
import PsyVerif.Lemmas.LoopTransFuseElem
import PsyVerif.Lemmas.LoopTransFold
import PsyVerif.Lemmas.LoopTransFuseHeader
/-! # C05 — Accepted loop transformations preserve serial semantics

Models (`PsyVerif/Model/LoopTrans.lean`, over the MiniF semantics of `Model/MiniF.lean`) mirror the
`validate`/`apply` methods of all eight anchored transformations:

| transformation | model | positive theorem | refutations (kernel `decide`) |
|---|---|---|---|
| ChunkLoopTrans | `chunkValidate/chunkApply` | `C05_chunk_sound_partial` (step > 0 dividing the chunk size) | step ∤ chunk, negative literal step, zero-trip loop variable, stop expression mentions the loop variable |
| LoopFuseTrans | `fuseValidate/fuseApply` | `C05_fuse_sound_elem_partial` (element level, distance 0), `C05_fuse_sound_partial` (independent bodies), `C05_fuse_discipline_passes_arrayCheck` | `a(i)`/`a(i+1)`, reversed arguments |
| LoopSwapTrans | `swapValidate/swapApply` | `C05_swap_sound_partial` (`NoCarriedDep`) | carried dependence |
| HoistTrans | `hoistValidate/hoistApply` | `C05_hoist_sound_partial` (only extra hypothesis: trip count > 0; `hoistValidate_safe`) | zero-trip loop |
| HoistLoopBoundExprTrans | `hoistBoundApply` | `C05_hoistBound_sound` (unconditional up to freshness) | — |
| ReplaceInductionVariablesTrans | `isIV/rivGo/replaceIVApply` | `C05_replaceIV_sound_partial` (on `isIV` + `ReplaceIVExtra`, trip count > 0; `isIV_safe`) | zero-trip loop, variable in the loop header |
| LoopTiling2DTrans | `tileValidate/tileApply` (= chunk ∘ chunk ∘ swap) | — (composition theorem not proved) | inherited dependence |
| FoldConditionalReturnExpressionsTrans | `foldApply` over `RStmt` (MiniF + RETURN) | `C05_foldReturn_sound` (unconditional) | — |

Quantification: all stores, all bound/step expressions and trip counts (zero-trip and single-trip
loops included), all loop bodies.  The pinned code does NOT have the property for six of the
eight transformations; for each the full statement is kept as a `def … : Prop`, refuted on a
concrete accepted target, and a `…_partial` theorem is proved under an explicit decidable (for
interchange: semantic) side condition that excludes exactly the defect classes listed in
`known_findings.d/C05.json`.  Every partial theorem has a non-vacuity `example`. -/
namespace C05
open MiniF

/-- observable equality of two program fragments: same value at every location of every
variable except the listed (fresh or documented-dead) ones, from every store -/
def ObsEq (hidden : List Nat) (p q : Stmt) : Prop :=
  ∀ (σ : Store) (x : Nat) (i j : Int), x ∉ hidden → (exec p σ) (x, i, j) = (exec q σ) (x, i, j)

/-! ## helper lemmas -/

theorem chunkValidate_ok {t : ChunkTarget} (h : chunkValidate t = .ok ()) :
    ∃ s, t.l.st = .lit s ∧ s ≠ 0 ∧ 0 < t.chunk ∧ s.natAbs ≤ t.chunk.natAbs ∧ t.chunked = false ∧
      ∀ x ∈ t.l.v :: (eVars t.l.lo ++ eVars t.l.hi), x ∉ wVars t.l.body := by
  unfold chunkValidate at h
  split at h
  · cases h
  · rename_i hc
    split at h
    · rename_i s hs
      split at h
      · cases h
      · rename_i h1
        split at h
        · cases h
        · rename_i h2
          split at h
          · cases h
          · rename_i h3
            split at h
            · cases h
            · rename_i h4
              refine ⟨s, hs, h3, by omega, by omega, by simpa using h2, ?_⟩
              intro x hx hw
              apply h4
              rw [List.any_eq_true]
              exact ⟨x, hx, by simpa using hw⟩
    · cases h

/-- the symbols created by `ChunkLoopTrans.apply` are new: distinct from each other, from the
loop variable, and not referenced in the loop -/
def ChunkFresh (t : ChunkTarget) : Prop :=
  t.out ≠ t.el ∧ t.out ≠ t.l.v ∧ t.el ≠ t.l.v ∧
  t.out ∉ eVars t.l.lo ++ eVars t.l.hi ++ rVars t.l.body ++ wVars t.l.body ∧
  t.el ∉ eVars t.l.lo ++ eVars t.l.hi ++ rVars t.l.body ++ wVars t.l.body

instance (t : ChunkTarget) : Decidable (ChunkFresh t) := by unfold ChunkFresh; exact inferInstance

theorem fuseValidate_bounds {t : FuseTarget} (h : fuseValidate t = .ok ()) :
    t.l1.lo = t.l2.lo ∧ t.l1.hi = t.l2.hi ∧ t.l1.st = t.l2.st := by
  unfold fuseValidate at h
  split at h
  · cases h
  · split at h
    · cases h
    · rename_i hb
      simp at hb
      exact ⟨hb.1.1, hb.1.2, hb.2⟩

/-- side condition of the fusion theorem: arguments in program order, same loop variable, loop
variable and header variables not written by the bodies, and no variable written by one body
is read or written by the other (variable-level independence) -/
def FuseIndep (t : FuseTarget) : Prop :=
  t.reversed = false ∧ t.l1.v = t.l2.v ∧ t.l1.v ∉ wVars t.l2.body ∧
  (∀ x ∈ eVars t.l1.lo ++ eVars t.l1.hi ++ eVars t.l1.st, x ≠ t.l1.v ∧ x ∉ wVars t.l1.body) ∧
  (∀ x ∈ wVars t.l1.body, x ∉ rVars t.l2.body ∧ x ∉ wVars t.l2.body) ∧
  (∀ x ∈ wVars t.l2.body, x ∉ rVars t.l1.body ∧ x ∉ wVars t.l1.body)

instance (t : FuseTarget) : Decidable (FuseIndep t) := by unfold FuseIndep; exact inferInstance

theorem loop_body_congr (v : Nat) (lo hi st : Expr) {b b' : Stmt} (h : ∀ τ, exec b τ = exec b' τ) (σ : Store) :
    exec (.loop v lo hi st b) σ = exec (.loop v lo hi st b') σ := by
  show runIters (exec b) _ _ _ _ _ _ = runIters (exec b') _ _ _ _ _ _
  rw [funext h]

/-- side condition of the hoisting theorem — the variable-level content of
`HoistTrans._validate_dependencies`: the statement assigns `x`, does not read it, `x` is not the
loop variable, not used in the loop header, not accessed before the statement and not written
after it, and nothing the statement reads is written in the loop -/
def HoistSafe (t : HoistTarget) (x : Nat) : Prop :=
  assignedVar t.s = some x ∧ x ∉ rVars t.s ∧ x ≠ t.v ∧ x ∉ eVars t.lo ++ eVars t.hi ++ eVars t.st ∧
  x ∉ rVars (seqs t.pre) ++ wVars (seqs t.pre) ∧ x ∉ wVars (seqs t.post) ∧
  ∀ r ∈ rVars t.s, r ≠ t.v ∧ r ∉ wVars (seqs t.pre) ∧ r ∉ wVars (seqs t.post)

instance (t : HoistTarget) (x : Nat) : Decidable (HoistSafe t x) := by unfold HoistSafe; exact inferInstance

/-- the symbols created by `HoistLoopBoundExprTrans.apply` are new: pairwise distinct and not
referenced in the loop header or read in the body -/
def HoistBoundFresh (t : HoistBoundTarget) : Prop :=
  (t.fLo ≠ t.fHi ∧ t.fLo ≠ t.fSt ∧ t.fHi ≠ t.fSt) ∧
  ∀ f ∈ [t.fLo, t.fHi, t.fSt], f ∉ eVars t.l.lo ∧ f ∉ eVars t.l.hi ∧ f ∉ eVars t.l.st ∧ f ∉ rVars t.l.body

instance (t : HoistBoundTarget) : Decidable (HoistBoundFresh t) := by unfold HoistBoundFresh; exact inferInstance

/-- what an accepted interchange has been checked for: neither loop variable occurs in the
other loop's start, stop or step expression (all six positions) -/
theorem swapValidate_ok {t : SwapTarget} {vi : Nat} {loI hiI stI : Expr} {B : Stmt}
    (hb : t.body = [.loop vi loI hiI stI B]) (h : swapValidate t = .ok ()) :
    vi ∉ eVars t.lo ++ eVars t.hi ++ eVars t.st ∧ t.v ∉ eVars loI ++ eVars hiI ++ eVars stI := by
  unfold swapValidate at h
  rw [hb] at h
  simp only [List.length_nil, Nat.lt_irrefl, if_false] at h
  split at h
  · cases h
  · rename_i h1
    split at h
    · cases h
    · rename_i h2
      exact ⟨by simpa using h1, by simpa using h2⟩

/-- syntactic part of the interchange side condition: distinct loop variables, not assigned in
the body, no loop referencing its OWN variable in its header, and no header variable written
by the body -/
def SwapFrame (v vi : Nat) (lo hi st loI hiI stI : Expr) (B : Stmt) : Prop :=
  v ≠ vi ∧ v ∉ wVars B ∧ vi ∉ wVars B ∧
  v ∉ eVars lo ++ eVars hi ++ eVars st ∧ vi ∉ eVars loI ++ eVars hiI ++ eVars stI ∧
  ∀ x ∈ eVars lo ++ eVars hi ++ eVars st ++ eVars loI ++ eVars hiI ++ eVars stI, x ∉ wVars B

instance (v vi : Nat) (lo hi st loI hiI stI : Expr) (B : Stmt) :
    Decidable (SwapFrame v vi lo hi st loI hiI stI B) := by unfold SwapFrame; exact inferInstance

/-- a body whose instances are independent: `m(i,j) = m(i,j) + 1` (ids j=0, i=1, m=2) -/
def swapOkBody : Stmt := .store2 2 (.var 1) (.var 0) (.bin .add (.idx2 2 (.var 1) (.var 0)) (.lit 1))

theorem swapOkBody_ncd : NoCarriedDep swapOkBody 0 1 := by
  intro a b a' b' hne x l h1 h2
  have hne' : ¬ (b = b' ∧ a = a') := fun h => hne (by rw [h.1, h.2])
  obtain ⟨y, i, j⟩ := l
  simp only [InstG, swapOkBody, exec, eval, evalBin, Store.set_apply, Prod.mk.injEq] at *
  grind

theorem substE_id {x : Nat} {e a : Expr} (h : x ∉ evars a) : substE x e a = a := by
  induction a with
  | lit n => rfl
  | var y => simp only [evars, List.mem_singleton] at h; simp [substE, Ne.symm h]
  | idx1 arr i ih => simp only [evars, List.mem_cons, not_or] at h; simp [substE, ih h.2]
  | idx2 arr i j ihi ihj =>
    simp only [evars, List.mem_cons, List.mem_append, not_or] at h; simp [substE, ihi h.2.1, ihj h.2.2]
  | un op a ih => simp only [evars] at h; simp [substE, ih h]
  | bin op a b iha ihb => simp only [evars, List.mem_append, not_or] at h; simp [substE, iha h.1, ihb h.2]

theorem substS_id {x : Nat} {e : Expr} {s : Stmt} (h : x ∉ rvars s) : substS x e s = s := by
  induction s with
  | skip => rfl
  | seq a b iha ihb => simp only [rvars, List.mem_append, not_or] at h; simp [substS, iha h.1, ihb h.2]
  | assign y a => simp only [rvars] at h; simp [substS, substE_id h]
  | store1 arr i a =>
    simp only [rvars, List.mem_append, not_or] at h; simp [substS, substE_id h.1, substE_id h.2]
  | store2 arr i j a =>
    simp only [rvars, List.mem_append, not_or] at h
    simp [substS, substE_id h.1.1, substE_id h.1.2, substE_id h.2]
  | ite c t f iht ihf =>
    simp only [rvars, List.mem_append, not_or] at h; simp [substS, substE_id h.1.1, iht h.1.2, ihf h.2]
  | loop w lo hi st b ih =>
    simp only [rvars, List.mem_append, not_or] at h
    simp [substS, substE_id h.1.1.1, substE_id h.1.1.2, substE_id h.1.2, ih h.2]

theorem map_substS_id {x : Nat} {e : Expr} : ∀ {l : List Stmt}, x ∉ rvars (seqs l) → l.map (substS x e) = l
  | [], _ => rfl
  | [a], h => by simp [substS_id (show x ∉ rvars a from h)]
  | a :: b :: l, h => by
    have h' : x ∉ rvars a ∧ x ∉ rvars (seqs (b :: l)) := by
      simpa [seqs, rvars, List.mem_append, not_or] using h
    rw [List.map_cons, substS_id h'.1, map_substS_id h'.2]

theorem exec_seqs_map_substS (x : Nat) (e : Expr) : ∀ (l : List Stmt) (τ : Store),
    exec (seqs (l.map (substS x e))) τ = exec (substS x e (seqs l)) τ
  | [], _ => rfl
  | [a], _ => rfl
  | a :: b :: l, τ => by
    show exec (seqs ((b :: l).map (substS x e))) (exec (substS x e a) τ) = _
    rw [exec_seqs_map_substS x e (b :: l)]
    rfl

/-- side condition of the induction-variable theorem: the variable-level content of
`_is_induction_variable` for the assignment `x = e` between `pre` and `post` (first access,
no later write, right-hand side not written in the body) PLUS what the code does not test:
`x` does not occur in the loop header, the loop variable is not assigned in the body, the step
expression is not modified by the body, `x` / the loop variable are not used as array names -/
def ReplaceIVSafe (v : Nat) (lo hi st : Expr) (pre post : List Stmt) (x : Nat) (e : Expr) : Prop :=
  x ∉ eVars e ∧ x ≠ v ∧ x ∉ eVars lo ++ eVars hi ++ eVars st ∧
  x ∉ rVars (seqs pre) ++ wVars (seqs pre) ∧ x ∉ wVars (seqs post) ∧ x ∉ arrsS (seqs post) ∧ v ∉ arrsE e ∧
  (∀ r ∈ eVars e, r ∉ wVars (seqs pre) ∧ r ∉ wVars (seqs post)) ∧
  (v ∉ wVars (seqs pre) ∧ v ∉ wVars (seqs post)) ∧
  (∀ r ∈ eVars st, r ≠ v ∧ r ∉ wVars (seqs pre) ∧ r ∉ wVars (seqs post))

instance (v : Nat) (lo hi st : Expr) (pre post : List Stmt) (x : Nat) (e : Expr) :
    Decidable (ReplaceIVSafe v lo hi st pre post x e) := by unfold ReplaceIVSafe; exact inferInstance

/-! ## The property -/

/-! ### ChunkLoopTrans -/

/-- full statement for chunking: an accepted loop and its chunked form agree on everything
except the two new symbols -/
def C05_chunk_statement : Prop :=
  ∀ t : ChunkTarget, chunkValidate t = .ok () → ChunkFresh t →
    ObsEq [t.out, t.el] (chunkApply t) t.l.stmt

/-- `do i = 1, 5, 2 ; a(i) = a(i) + 1` with `chunksize = 3` (ids: i=0, a=1, out=2, el=3) -/
def chunkStepWitness : ChunkTarget :=
  ⟨⟨0, .lit 1, .lit 5, .lit 2, .store1 1 (.var 0) (.bin .add (.idx1 1 (.var 0)) (.lit 1))⟩, 3, false, 2, 3⟩

/-- `do i = 6, 1, -1 ; a(i) = a(i) + 1` with `chunksize = 2` and a negative step LITERAL -/
def chunkNegWitness : ChunkTarget :=
  ⟨⟨0, .lit 6, .lit 1, .lit (-1), .store1 1 (.var 0) (.bin .add (.idx1 1 (.var 0)) (.lit 1))⟩, 2, false, 2, 3⟩

/-- `do i = 5, 1 ; a(i) = 1` (zero trips) with `chunksize = 4` -/
def chunkZeroWitness : ChunkTarget :=
  ⟨⟨0, .lit 5, .lit 1, .lit 1, .store1 1 (.var 0) (.lit 1)⟩, 4, false, 2, 3⟩

example : chunkValidate chunkStepWitness = .ok () ∧ ChunkFresh chunkStepWitness := by decide
example : chunkValidate chunkNegWitness = .ok () ∧ ChunkFresh chunkNegWitness := by decide
example : chunkValidate chunkZeroWitness = .ok () ∧ ChunkFresh chunkZeroWitness := by decide

/-- a step that does not divide the chunk size: the second chunk starts at `i = 4`, which the
original loop never visits -/
theorem C05_chunk_step_counterexample :
    ¬ ObsEq [chunkStepWitness.out, chunkStepWitness.el] (chunkApply chunkStepWitness) chunkStepWitness.l.stmt := by
  intro h
  have := h (storeOf []) 1 4 0 (by decide)
  revert this
  decide

/-- negative literal step: the inner bound is `out - (chunk + 1)`, so consecutive chunks overlap
and `a(4)` is incremented twice -/
theorem C05_chunk_negstep_counterexample :
    ¬ ObsEq [chunkNegWitness.out, chunkNegWitness.el] (chunkApply chunkNegWitness) chunkNegWitness.l.stmt := by
  intro h
  have := h (storeOf []) 1 4 0 (by decide)
  revert this
  decide

/-- zero-trip loop: the original DO statement still assigns the start value to `i`, the
chunked nest never touches `i` -/
theorem C05_chunk_zerotrip_counterexample :
    ¬ ObsEq [chunkZeroWitness.out, chunkZeroWitness.el] (chunkApply chunkZeroWitness) chunkZeroWitness.l.stmt := by
  intro h
  have := h (storeOf []) 0 0 0 (by decide)
  revert this
  decide

/-- `do i = 1, i + 3 ; a(i) = a(i) + 1` with `chunksize = 2` (stop expression mentions `i`) -/
def chunkStopWitness : ChunkTarget :=
  ⟨⟨0, .lit 1, .bin .add (.var 0) (.lit 3), .lit 1,
    .store1 1 (.var 0) (.bin .add (.idx1 1 (.var 0)) (.lit 1))⟩, 2, false, 2, 3⟩

/-- the stop expression is copied into every chunk and re-evaluated after the loop variable has
changed: the second chunk runs up to `i = 4` -/
theorem C05_chunk_stop_loopvar_counterexample :
    chunkValidate chunkStopWitness = .ok () ∧
    ¬ ObsEq [chunkStopWitness.out, chunkStopWitness.el] (chunkApply chunkStopWitness) chunkStopWitness.l.stmt := by
  refine ⟨by decide, fun h => ?_⟩
  have := h (storeOf []) 1 4 0 (by decide)
  revert this
  decide

theorem C05_chunk_statement_false : ¬ C05_chunk_statement := fun h =>
  C05_chunk_step_counterexample (h chunkStepWitness (by decide) (by decide))

/-- **Chunking is sound for a positive step that divides the chunk size**, for every lower and
upper bound expression (zero-trip and single-trip loops included), every chunk size, every
body and every store: all variables except the two new symbols end with the same values, and
so does the loop variable whenever the loop runs at least once.  Missing parts (each refuted
above or below): steps that do not divide the chunk size, negative literal steps, the value
of the loop variable after a zero-trip loop, and a stop expression that mentions the loop
variable itself (`hvhi`; `validate` does not test it). -/
theorem C05_chunk_sound_partial (t : ChunkTarget) (hacc : chunkValidate t = .ok ())
    (hfresh : ChunkFresh t) (hvhi : t.l.v ∉ eVars t.l.hi)
    (s : Int) (hst : t.l.st = .lit s) (hpos : 0 < s) (hdiv : s ∣ t.chunk) (σ : Store) :
    ∀ x i j, x ≠ t.out → x ≠ t.el →
      ((x, i, j) = ((t.l.v, 0, 0) : Loc) → 0 < trip (eval t.l.lo σ) (eval t.l.hi σ) s) →
      (exec (chunkApply t) σ) (x, i, j) = (exec t.l.stmt σ) (x, i, j) := by
  obtain ⟨s', hs', _, hc, _, _, hbw⟩ := chunkValidate_ok hacc
  obtain ⟨c, hc'⟩ := hdiv
  have hcpos : 0 < c := by
    rcases Int.lt_trichotomy c 0 with h | h | h
    · have : s * c < 0 := Int.mul_neg_of_pos_of_neg hpos h
      omega
    · subst h; omega
    · exact h
  obtain ⟨hoe, hov, hev, hfo, hfe⟩ := hfresh
  simp only [List.mem_append, not_or, eVars_eq, rVars_eq, wVars_eq] at hfo hfe hbw hvhi
  have happ : chunkApply t = chunkApplyStep t s := by
    unfold chunkApply; rw [hst]
  rw [happ]
  apply chunk_pos_sound t s c.toNat hst hpos (by omega)
    (by rw [hc', Int.toNat_of_nonneg (by omega)]; exact Int.mul_comm s c) hoe hov hev
    ⟨hfo.1.2, hfe.1.2⟩
  intro x hx
  refine ⟨fun h => hfo.1.1.2 (h ▸ hx), fun h => hfe.1.1.2 (h ▸ hx), fun h => hvhi (h ▸ hx), ?_⟩
  have := hbw x (by simp [hx])
  simpa [wVars_eq] using this

/-- non-vacuity: `do i = n, m(2), 2 ; a(i) = a(i) + i` with chunk size 6 satisfies all hypotheses -/
example :
    let t : ChunkTarget := ⟨⟨0, .var 4, .idx1 5 (.lit 2), .lit 2,
      .store1 1 (.var 0) (.bin .add (.idx1 1 (.var 0)) (.var 0))⟩, 6, false, 2, 3⟩
    chunkValidate t = .ok () ∧ ChunkFresh t ∧ t.l.v ∉ eVars t.l.hi ∧ (2 : Int) ∣ t.chunk := by
  refine ⟨by decide, by decide, by decide, ⟨3, by decide⟩⟩

/-- sanity evaluation of the model -/
example : chunkApply chunkZeroWitness =
    .loop 2 (.lit 5) (.lit 1) (.lit 4)
      (.seq (.assign 3 (.bin .min (.bin .add (.var 2) (.bin .sub (.lit 4) (.lit 1))) (.lit 1)))
            (.loop 0 (.var 2) (.var 3) (.lit 1) (.store1 1 (.var 0) (.lit 1)))) := by decide

example : chunkValidate ⟨⟨0, .lit 1, .var 4, .lit 1, .assign 4 (.lit 1)⟩, 4, false, 2, 3⟩ = .error .boundWritten := by decide
example : chunkValidate ⟨⟨0, .lit 1, .var 4, .lit 5, .skip⟩, 4, false, 2, 3⟩ = .error .stepTooLarge := by decide
example : chunkValidate ⟨⟨0, .lit 1, .var 4, .un .neg (.lit 1), .skip⟩, 4, false, 2, 3⟩ = .error .nonLiteralStep := by decide

/-! ### LoopFuseTrans -/

/-- full statement for fusion (the variable of the second loop is documented as no longer
updated when it is renamed, so it is hidden when the two variables differ) -/
def C05_fuse_statement : Prop :=
  ∀ t : FuseTarget, fuseValidate t = .ok () →
    ObsEq (if t.l1.v = t.l2.v then [] else [t.l2.v]) (fuseApply t) t.original

/-- `do i=1,3: a(i)=b(i)+1` followed by `do i=1,3: c(i)=a(i+1)` (ids: i=0, a=1, b=2, c=3) -/
def fuseDistanceWitness : FuseTarget :=
  ⟨⟨0, .lit 1, .lit 3, .lit 1, .store1 1 (.var 0) (.bin .add (.idx1 2 (.var 0)) (.lit 1))⟩,
   ⟨0, .lit 1, .lit 3, .lit 1, .store1 3 (.var 0) (.idx1 1 (.bin .add (.var 0) (.lit 1)))⟩, true, false⟩

/-- `apply(second, first)` for `do i=1,3: a(i)=i` followed by `do i=1,3: c(i)=a(i)` -/
def fuseReversedWitness : FuseTarget :=
  ⟨⟨0, .lit 1, .lit 3, .lit 1, .store1 3 (.var 0) (.idx1 1 (.var 0))⟩,
   ⟨0, .lit 1, .lit 3, .lit 1, .store1 1 (.var 0) (.var 0)⟩, true, true⟩

/-- no dependence-distance test: accepted, and the fused loop reads `a(2)` before writing it -/
theorem C05_fuse_distance_counterexample :
    fuseValidate fuseDistanceWitness = .ok () ∧
    ¬ ObsEq [] (fuseApply fuseDistanceWitness) fuseDistanceWitness.original := by
  refine ⟨by decide, fun h => ?_⟩
  have := h (storeOf []) 3 1 0 (by decide)
  revert this
  decide

/-- the position test uses `abs`: fusing (second, first) is accepted and reverses program order -/
theorem C05_fuse_reversed_counterexample :
    fuseValidate fuseReversedWitness = .ok () ∧
    ¬ ObsEq [] (fuseApply fuseReversedWitness) fuseReversedWitness.original := by
  refine ⟨by decide, fun h => ?_⟩
  have := h (storeOf []) 3 1 0 (by decide)
  revert this
  decide

theorem C05_fuse_statement_false : ¬ C05_fuse_statement := fun h =>
  C05_fuse_distance_counterexample.2 (h fuseDistanceWitness C05_fuse_distance_counterexample.1)

/-- **Fusion is sound for independent bodies**: exact store equality (loop variable included),
for all bounds, steps and trip counts.  Missing part: bodies that share a written variable
(then soundness needs the dependence-distance test that `LoopFuseTrans` lacks — refuted by
`C05_fuse_distance_counterexample`), reversed arguments, differing loop variables. -/
theorem C05_fuse_sound_partial (t : FuseTarget) (hacc : fuseValidate t = .ok ()) (hs : FuseIndep t)
    (σ : Store) : exec (fuseApply t) σ = exec t.original σ := by
  obtain ⟨hlo, hhi, hst⟩ := fuseValidate_bounds hacc
  obtain ⟨hrev, hv, hv2, hb, h12, h21⟩ := hs
  obtain ⟨⟨v1, lo1, hi1, st1, b1⟩, ⟨v2, lo2, hi2, st2, b2⟩, adj, rev⟩ := t
  simp only at hlo hhi hst hrev hv hv2 hb h12 h21
  subst hlo hhi hst hrev hv
  simp only [fuseApply, FuseTarget.original, LoopN.stmt, if_true]
  simp only [List.mem_append, eVars_eq, rVars_eq, wVars_eq] at hv2 hb h12 h21
  exact fuse_indep_sound v1 lo1 hi1 st1 b1 b2 hv2
    (fun x hx => hb x (by rcases hx with h | h | h <;> simp [h])) h12 h21 σ

/-- non-vacuity: `do i=n,m,2: a(i)=b(i)+i` and `do i=n,m,2: c(i)=b(i)*2` are accepted and independent -/
example :
    let t : FuseTarget :=
      ⟨⟨0, .var 4, .var 5, .lit 2, .store1 1 (.var 0) (.bin .add (.idx1 2 (.var 0)) (.var 0))⟩,
       ⟨0, .var 4, .var 5, .lit 2, .store1 3 (.var 0) (.bin .mul (.idx1 2 (.var 0)) (.lit 2))⟩, true, false⟩
    fuseValidate t = .ok () ∧ FuseIndep t := by decide

example : fuseValidate ⟨⟨0, .lit 1, .lit 3, .lit 1, .store1 1 (.lit 2) (.var 0)⟩,
    ⟨0, .lit 1, .lit 3, .lit 1, .store1 3 (.var 0) (.idx1 1 (.lit 2))⟩, true, false⟩ = .error .arrayNoLoopVar := by decide
example : fuseValidate ⟨⟨0, .lit 1, .lit 3, .lit 1, .assign 2 (.var 0)⟩,
    ⟨0, .lit 1, .lit 3, .lit 1, .store1 3 (.var 0) (.var 2)⟩, true, false⟩ = .error .scalarDep := by decide
example : fuseValidate ⟨⟨0, .lit 1, .lit 3, .lit 1, .skip⟩, ⟨0, .lit 1, .lit 4, .lit 1, .skip⟩, true, false⟩
    = .error .boundsDiffer := by decide

/-- side condition of the element-level fusion theorem, for a table `A` of arrays with their
constant subscript offset: arguments in program order, same loop variable (not in the table,
not assigned in the bodies), both bodies access every array of the table only as
`a(v + offset)` with the SAME offset (dependence distance 0 — `DiscS`), every other variable
written by one body is not touched by the other, and the header does not depend on the loop
variable or on what the first body writes -/
def FuseElemSafe (t : FuseTarget) (A : OffTab) : Prop :=
  t.reversed = false ∧ t.l1.v = t.l2.v ∧ A.lookup t.l1.v = none ∧
  DiscS A t.l1.v t.l1.body = true ∧ DiscS A t.l1.v t.l2.body = true ∧
  t.l1.v ∉ wVars t.l1.body ∧ t.l1.v ∉ wVars t.l2.body ∧
  (∀ y ∈ wVars t.l1.body, A.lookup y = none → y ∉ rVars t.l2.body ∧ y ∉ wVars t.l2.body) ∧
  (∀ y ∈ wVars t.l2.body, A.lookup y = none → y ∉ rVars t.l1.body ∧ y ∉ wVars t.l1.body) ∧
  (∀ x ∈ eVars t.l1.lo ++ eVars t.l1.hi ++ eVars t.l1.st, x ≠ t.l1.v ∧ x ∉ wVars t.l1.body)

instance (t : FuseTarget) (A : OffTab) : Decidable (FuseElemSafe t A) := by
  unfold FuseElemSafe; exact inferInstance

/-- **Element-level fusion is sound** (the positive counterpart of the `a(i)`/`a(i+1)` finding):
two accepted loops with the same header whose bodies access every shared written array only at
`loop variable + the same constant` — dependence distance 0, what `_validate_written_array` is
meant to guarantee — fuse to a loop that computes exactly the same store, for all bounds,
steps, trip counts and stores.  Iteration `k` of the second loop commutes with every later
iteration of the first (`inst_commute`, `interleave`).  Missing parts: scalars written in both
loops (the code's write-first rule is textual and not sound for conditional writes), rank-2
shared arrays, subscripts other than `v`, `v + c`, `v - c`. -/
theorem C05_fuse_sound_elem_partial (t : FuseTarget) (hacc : fuseValidate t = .ok ()) (A : OffTab)
    (hs : FuseElemSafe t A) (σ : Store) : exec (fuseApply t) σ = exec t.original σ := by
  obtain ⟨hlo, hhi, hst⟩ := fuseValidate_bounds hacc
  obtain ⟨hrev, hv, hAv, hd1, hd2, hv1, hv2, h12, h21, hb⟩ := hs
  obtain ⟨⟨v1, lo1, hi1, st1, b1⟩, ⟨v2, lo2, hi2, st2, b2⟩, adj, rev⟩ := t
  simp only at hlo hhi hst hrev hv hAv hd1 hd2 hv1 hv2 h12 h21 hb
  subst hlo hhi hst hrev hv
  simp only [fuseApply, FuseTarget.original, LoopN.stmt, if_true]
  simp only [List.mem_append, eVars_eq, rVars_eq, wVars_eq] at hv1 hv2 h12 h21 hb
  exact fuse_elem_sound A v1 lo1 hi1 st1 b1 b2 hAv hd1 hd2 hv1 hv2 h12 h21
    (fun x hx => hb x (by rcases hx with h | h | h <;> simp [h])) σ

/-- under the discipline the model of `_validate_written_array` accepts every table array: the
side condition strengthens the code's test (position of the loop variable) by the distance -/
theorem C05_fuse_discipline_passes_arrayCheck (t : FuseTarget) (A : OffTab) (hs : FuseElemSafe t A)
    (a : Nat) (off : Int) (ha : A.lookup a = some off) :
    fuseArrayCheck t.l1.v (accOf a (sAcc t.l1.body) ++ accOf a (sAcc t.l2.body)) = .ok () := by
  obtain ⟨_, _, _, hd1, hd2, _⟩ := hs
  apply fuseArrayCheck_of_offsets
  intro acc hacc
  simp only [List.mem_append, accOf, List.mem_filter, beq_iff_eq] at hacc
  rcases hacc with ⟨h1, h2⟩ | ⟨h1, h2⟩
  · obtain ⟨i, hi, ho⟩ := sAcc_disc hd1 acc h1 off (by rw [h2]; exact ha)
    exact ⟨i, off, hi, ho⟩
  · obtain ⟨i, hi, ho⟩ := sAcc_disc hd2 acc h1 off (by rw [h2]; exact ha)
    exact ⟨i, off, hi, ho⟩

/-- non-vacuity: `do i: a(i) = b(i) + 1 ; c(i+1) = a(i)` fused with `do i: d(i) = a(i) * c(i+1)`
(a producer/consumer pair at distance 0; ids i=0, a=1, b=2, c=3, d=6) is accepted and safe -/
example :
    let t : FuseTarget :=
      ⟨⟨0, .var 4, .var 5, .lit 1, .seq (.store1 1 (.var 0) (.bin .add (.idx1 2 (.var 0)) (.lit 1)))
          (.store1 3 (.bin .add (.var 0) (.lit 1)) (.idx1 1 (.var 0)))⟩,
       ⟨0, .var 4, .var 5, .lit 1, .store1 6 (.var 0)
          (.bin .mul (.idx1 1 (.var 0)) (.idx1 3 (.bin .add (.var 0) (.lit 1))))⟩, true, false⟩
    fuseValidate t = .ok () ∧ FuseElemSafe t [(1, 0), (3, 1), (6, 0)] := by decide

/-- the distance-1 pair of the finding violates the discipline for every offset of `a` -/
example : ¬ FuseElemSafe fuseDistanceWitness [(1, 0), (3, 0)] ∧ ¬ FuseElemSafe fuseDistanceWitness [(1, 1), (3, 0)] := by
  decide

/-! #### LoopFuseTrans and the loop HEADERS

Fortran evaluates start, stop and step once, on loop entry.  In the original program the header of
the second loop is evaluated AFTER the first loop has run, in the fused program only once, before
both bodies: fusion is only sound when the first body does not write a header variable.  The
real code obtains this from `VariablesAccessInfo(node)` (the loop NODE: the header reads are the
first accesses of every header variable), not from a separate test. -/

/-- **`LoopFuseTrans.validate` protects the headers** (derived from the validate model, not
assumed): for every accepted pair whose first loop variable does not occur in its own header, no
variable of the start/stop/step expressions is written by the first body — so the second loop of
the original program runs over the same iteration space — nor by the second body, and the second
loop variable does not occur in the headers -/
theorem C05_fuse_header_protected (t : FuseTarget) (hacc : fuseValidate t = .ok ())
    (hv : t.l1.v ∉ hdrVars t.l1) :
    t.l2.v ∉ hdrVars t.l1 ∧ ∀ x ∈ hdrVars t.l1, x ∉ wVars t.l1.body ∧ x ∉ wVars t.l2.body :=
  fuseValidate_header_stable hacc hv

/-- non-vacuity: `do i = n, m(2)+k, 2` twice with bodies that only read `n`, `k` is accepted -/
example :
    let t : FuseTarget :=
      ⟨⟨0, .var 4, .bin .add (.idx1 5 (.lit 2)) (.var 6), .lit 2, .store1 1 (.var 0) (.bin .add (.var 4) (.var 0))⟩,
       ⟨0, .var 4, .bin .add (.idx1 5 (.lit 2)) (.var 6), .lit 2, .store1 3 (.var 0) (.bin .mul (.var 6) (.lit 2))⟩,
       true, false⟩
    fuseValidate t = .ok () ∧ t.l1.v ∉ hdrVars t.l1 ∧ hdrVars t.l1 = [4, 5, 6] := by decide

/-- `do i = 1, n ; a(i) = i ; n = 3` followed by `do i = 1, n ; b(i) = 2 * i`
(ids: i=0, a=1, b=2, n=4): the first body writes the stop variable -/
def fuseHeaderWitness : FuseTarget :=
  ⟨⟨0, .lit 1, .var 4, .lit 1, .seq (.store1 1 (.var 0) (.var 0)) (.assign 4 (.lit 3))⟩,
   ⟨0, .lit 1, .var 4, .lit 1, .store1 2 (.var 0) (.bin .mul (.lit 2) (.var 0))⟩, true, false⟩

/-- **gathering the accesses from the loop bodies only is unsound** (the seeded weakening
`VariablesAccessInfo(node.loop_body)`): the witness is then accepted — `n` is written in the first
body and not accessed in the second — although the real `validate` refuses it (the header read
of `n` is the first access in both loops), and with `n = 5` the fused loop assigns `b(4)`, which
the original second loop (`do i = 1, 3`) never reaches -/
theorem C05_fuse_bodyonly_counterexample :
    fuseValidateBodyOnly fuseHeaderWitness = .ok () ∧
    fuseValidate fuseHeaderWitness = .error .scalarDep ∧
    ¬ ObsEq [] (fuseApply fuseHeaderWitness) fuseHeaderWitness.original := by
  refine ⟨by decide, by decide, fun h => ?_⟩
  have := h (storeOf [((4, 0, 0), 5)]) 2 4 0 (by decide)
  revert this
  decide

/-- the same holds when the header variable is the FIRST access (a write) of both bodies — the
write-first rule of `_validate_written_scalar` alone would let the pair pass — and when the
header reads an array element that the first body overwrites -/
example :
    let t : FuseTarget :=
      ⟨⟨0, .lit 1, .var 4, .lit 1, .seq (.assign 4 (.lit 3)) (.store1 1 (.var 0) (.var 4))⟩,
       ⟨0, .lit 1, .var 4, .lit 1, .seq (.assign 4 (.lit 3)) (.store1 2 (.var 0) (.var 4))⟩, true, false⟩
    fuseValidateBodyOnly t = .ok () ∧ fuseValidate t = .error .scalarDep := by decide
example :
    let t : FuseTarget :=
      ⟨⟨0, .lit 1, .idx1 3 (.lit 2), .lit 1, .store1 3 (.var 0) (.lit 1)⟩,
       ⟨0, .lit 1, .idx1 3 (.lit 2), .lit 1, .store1 2 (.var 0) (.var 0)⟩, true, false⟩
    fuseValidateBodyOnly t = .ok () ∧ fuseValidate t = .error .arrayNoLoopVar := by decide

/-- `FuseIndep` without its header clause: what remains to be assumed once acceptance is known -/
def FuseIndepCore (t : FuseTarget) : Prop :=
  t.reversed = false ∧ t.l1.v = t.l2.v ∧ t.l1.v ∉ wVars t.l2.body ∧ t.l1.v ∉ hdrVars t.l1 ∧
  (∀ x ∈ wVars t.l1.body, x ∉ rVars t.l2.body ∧ x ∉ wVars t.l2.body) ∧
  (∀ x ∈ wVars t.l2.body, x ∉ rVars t.l1.body ∧ x ∉ wVars t.l1.body)

instance (t : FuseTarget) : Decidable (FuseIndepCore t) := by unfold FuseIndepCore; exact inferInstance

theorem fuseIndep_of_validate {t : FuseTarget} (hacc : fuseValidate t = .ok ()) (hc : FuseIndepCore t) :
    FuseIndep t := by
  obtain ⟨h1, h2, h3, h4, h5, h6⟩ := hc
  have hs := (fuseValidate_header_stable hacc h4).2
  exact ⟨h1, h2, h3, fun x hx => ⟨fun e => h4 (e ▸ hx), (hs x hx).1⟩, h5, h6⟩

/-- **Fusion of independent bodies, header hypothesis discharged by `validate`**: the statement
of `C05_fuse_sound_partial` without the assumption that the header variables are not written by
the first body — that is what acceptance guarantees (`C05_fuse_header_protected`) -/
theorem C05_fuse_sound_validated_partial (t : FuseTarget) (hacc : fuseValidate t = .ok ())
    (hs : FuseIndepCore t) (σ : Store) : exec (fuseApply t) σ = exec t.original σ :=
  C05_fuse_sound_partial t hacc (fuseIndep_of_validate hacc hs) σ

example :
    let t : FuseTarget :=
      ⟨⟨0, .var 4, .var 5, .lit 2, .store1 1 (.var 0) (.bin .add (.idx1 2 (.var 0)) (.var 0))⟩,
       ⟨0, .var 4, .var 5, .lit 2, .store1 3 (.var 0) (.bin .mul (.idx1 2 (.var 0)) (.lit 2))⟩, true, false⟩
    fuseValidate t = .ok () ∧ FuseIndepCore t := by decide

/-- `FuseElemSafe` without its header clause -/
def FuseElemCore (t : FuseTarget) (A : OffTab) : Prop :=
  t.reversed = false ∧ t.l1.v = t.l2.v ∧ A.lookup t.l1.v = none ∧
  DiscS A t.l1.v t.l1.body = true ∧ DiscS A t.l1.v t.l2.body = true ∧
  t.l1.v ∉ wVars t.l1.body ∧ t.l1.v ∉ wVars t.l2.body ∧
  (∀ y ∈ wVars t.l1.body, A.lookup y = none → y ∉ rVars t.l2.body ∧ y ∉ wVars t.l2.body) ∧
  (∀ y ∈ wVars t.l2.body, A.lookup y = none → y ∉ rVars t.l1.body ∧ y ∉ wVars t.l1.body) ∧
  t.l1.v ∉ hdrVars t.l1

instance (t : FuseTarget) (A : OffTab) : Decidable (FuseElemCore t A) := by
  unfold FuseElemCore; exact inferInstance

/-- **Element-level fusion, header hypothesis discharged by `validate`** -/
theorem C05_fuse_sound_elem_validated_partial (t : FuseTarget) (hacc : fuseValidate t = .ok ()) (A : OffTab)
    (hs : FuseElemCore t A) (σ : Store) : exec (fuseApply t) σ = exec t.original σ := by
  obtain ⟨h1, h2, h3, h4, h5, h6, h7, h8, h9, h10⟩ := hs
  have hh := (fuseValidate_header_stable hacc h10).2
  exact C05_fuse_sound_elem_partial t hacc A
    ⟨h1, h2, h3, h4, h5, h6, h7, h8, h9, fun x hx => ⟨fun e => h10 (e ▸ hx), (hh x hx).1⟩⟩ σ

example :
    let t : FuseTarget :=
      ⟨⟨0, .var 4, .var 5, .lit 1, .seq (.store1 1 (.var 0) (.bin .add (.idx1 2 (.var 0)) (.lit 1)))
          (.store1 3 (.bin .add (.var 0) (.lit 1)) (.idx1 1 (.var 0)))⟩,
       ⟨0, .var 4, .var 5, .lit 1, .store1 6 (.var 0)
          (.bin .mul (.idx1 1 (.var 0)) (.idx1 3 (.bin .add (.var 0) (.lit 1))))⟩, true, false⟩
    fuseValidate t = .ok () ∧ FuseElemCore t [(1, 0), (3, 1), (6, 0)] := by decide

/-! ### LoopSwapTrans -/

/-- full statement for interchange -/
def C05_swap_statement : Prop :=
  ∀ t : SwapTarget, swapValidate t = .ok () → ObsEq [] (swapApply t) t.original

/-- `do j=1,2: do i=1,2: m(i,j) = m(i-1,j+1) + 1` (ids: j=0, i=1, m=2) -/
def swapWitness : SwapTarget :=
  ⟨0, .lit 1, .lit 2, .lit 1,
   [.loop 1 (.lit 1) (.lit 2) (.lit 1)
      (.store2 2 (.var 1) (.var 0)
        (.bin .add (.idx2 2 (.bin .sub (.var 1) (.lit 1)) (.bin .add (.var 0) (.lit 1))) (.lit 1)))]⟩

/-- `LoopSwapTrans.validate` has no dependence test: the nest is accepted and `m(2,1)` differs -/
theorem C05_swap_dependence_counterexample :
    swapValidate swapWitness = .ok () ∧ ¬ ObsEq [] (swapApply swapWitness) swapWitness.original := by
  refine ⟨by decide, fun h => ?_⟩
  have := h (storeOf []) 2 2 1 (by decide)
  revert this
  decide

/-- **Interchange is sound when the body carries no dependence**: for an accepted nest with
arbitrary (rectangular) bound and step expressions and trip counts, if the instances of the
body for different index pairs commute (`NoCarriedDep`, the semantic test `LoopSwapTrans` does
not make), every location except the two loop variables ends with the same value.  Missing
parts: bodies with carried dependences (`C05_swap_dependence_counterexample`), the final
values of the loop variables (zero-trip finding), headers that mention their own variable
or variables the body writes (`SwapFrame`). -/
theorem C05_swap_sound_partial (t : SwapTarget) (hacc : swapValidate t = .ok ())
    (vi : Nat) (loI hiI stI : Expr) (B : Stmt) (hb : t.body = [.loop vi loI hiI stI B])
    (hf : SwapFrame t.v vi t.lo t.hi t.st loI hiI stI B) (hnc : NoCarriedDep B t.v vi) (σ : Store) :
    ∀ l : Loc, l ≠ (t.v, 0, 0) → l ≠ (vi, 0, 0) → (exec (swapApply t) σ) l = (exec t.original σ) l := by
  obtain ⟨hc1, hc2⟩ := swapValidate_ok hb hacc
  obtain ⟨hne, hwo, hwi, hoo, hii, hw⟩ := hf
  simp only [List.mem_append, not_or, eVars_eq, wVars_eq] at hc1 hc2 hwo hwi hoo hii hw
  have hS : swapApply t = .loop vi loI hiI stI (.loop t.v t.lo t.hi t.st B) := by
    unfold swapApply; rw [hb]
  have hO : t.original = .loop t.v t.lo t.hi t.st (.loop vi loI hiI stI B) := by
    unfold SwapTarget.original; rw [hb]; rfl
  rw [hS, hO]
  exact swap_sound B t.v vi hne hwo hwi t.lo t.hi t.st loI hiI stI
    (fun x hx => ⟨fun h => by subst h; rcases hx with h | h | h <;> simp_all,
                  fun h => by subst h; rcases hx with h | h | h <;> simp_all,
                  hw x (by rcases hx with h | h | h <;> simp [h])⟩)
    (fun x hx => ⟨fun h => by subst h; rcases hx with h | h | h <;> simp_all,
                  fun h => by subst h; rcases hx with h | h | h <;> simp_all,
                  hw x (by rcases hx with h | h | h <;> simp [h])⟩)
    hnc σ

/-- non-vacuity: `do j = n, k, 2 ; do i = 1, 8 ; m(i,j) = m(i,j) + 1` is accepted, framed and
carries no dependence -/
example :
    let t : SwapTarget := ⟨0, .var 4, .var 5, .lit 2, [.loop 1 (.lit 1) (.lit 8) (.lit 1) swapOkBody]⟩
    swapValidate t = .ok () ∧ SwapFrame t.v 1 t.lo t.hi t.st (.lit 1) (.lit 8) (.lit 1) swapOkBody ∧
    NoCarriedDep swapOkBody t.v 1 := ⟨by decide, by decide, swapOkBody_ncd⟩

theorem C05_swap_statement_false : ¬ C05_swap_statement := fun h =>
  C05_swap_dependence_counterexample.2 (h swapWitness C05_swap_dependence_counterexample.1)

example : swapValidate ⟨0, .lit 1, .lit 2, .lit 1, [.loop 1 (.lit 1) (.var 0) (.lit 1) .skip]⟩
    = .error .outerVarInInnerBounds := by decide
example : swapValidate ⟨0, .lit 1, .lit 2, .lit 1, [.loop 1 (.lit 1) (.lit 2) (.lit 1) .skip, .skip]⟩
    = .error .notSingleInner := by decide

/-! ### HoistTrans -/

/-- full statement for hoisting -/
def C05_hoist_statement : Prop :=
  ∀ t : HoistTarget, hoistValidate t = .ok () → ObsEq [] (hoistApply t) t.original

/-- `do i = 5, 1 ; t = 7 ; a(i) = t` (ids: i=0, a=1, t=2): zero trips -/
def hoistZeroWitness : HoistTarget :=
  ⟨0, .lit 5, .lit 1, .lit 1, [], .assign 2 (.lit 7), [.store1 1 (.var 0) (.var 2)]⟩

/-- no trip-count test: the hoisted assignment runs although the loop body never does -/
theorem C05_hoist_zero_trip_counterexample :
    hoistValidate hoistZeroWitness = .ok () ∧ ¬ ObsEq [] (hoistApply hoistZeroWitness) hoistZeroWitness.original := by
  refine ⟨by decide, fun h => ?_⟩
  have := h (storeOf []) 2 0 0 (by decide)
  revert this
  decide

theorem C05_hoist_statement_false : ¬ C05_hoist_statement := fun h =>
  C05_hoist_zero_trip_counterexample.2 (h hoistZeroWitness C05_hoist_zero_trip_counterexample.1)

theorem assignedVar_wVars {s : Stmt} {x : Nat} (h : assignedVar s = some x) : wVars s = [x] := by
  cases s <;> simp_all [assignedVar, wVars]

/-- **what `HoistTrans.validate` guarantees**: an accepted target satisfies `HoistSafe` — derived
from the model of `_validate_dependencies` (access lists, `is_accessed_before`, the count of
WRITE accesses, `is_written` of the read signatures) -/
theorem hoistValidate_safe {t : HoistTarget} (h : hoistValidate t = .ok ()) : ∃ x, HoistSafe t x := by
  unfold hoistValidate at h
  split at h
  · cases h
  · rename_i x hx
    simp only at h
    split at h
    · cases h
    · rename_i h1
      split at h
      · cases h
      · rename_i h2
        split at h
        · cases h
        · rename_i h3
          split at h
          · cases h
          · rename_i h4
            simp only [Bool.or_eq_true, decide_eq_true_eq, not_or, gt_iff_lt, Nat.not_lt,
              Nat.le_zero_eq] at h2
            have hw : wVars t.s = [x] := assignedVar_wVars hx
            have hpre := not_mem_of_accOf_nil h2.2
            -- the statement itself contributes one WRITE of x to the loop's access list
            have hcount : countWrites x (sAcc t.original)
                = countWrites x (sAcc (seqs t.pre)) + countWrites x (sAcc t.s) + countWrites x (sAcc (seqs t.post))
                  + (if t.v = x then 1 else 0) := by
              simp only [HoistTarget.original, sAcc, countWrites_append, countWrites_eAcc, sAcc_seqs,
                List.flatMap_append, List.flatMap_cons]
              simp only [countWrites, List.filter_cons, List.filter_nil]
              by_cases hv : t.v = x <;> simp [hv] <;> omega
            have hs1 : 0 < countWrites x (sAcc t.s) := countWrites_pos_of_wVars (by rw [hw]; simp)
            refine ⟨x, hx, by simpa using h1, h2.1.1, h2.1.2, ?_, ?_, ?_⟩
            · simp only [List.mem_append, not_or]; exact hpre
            · intro hp
              have := countWrites_pos_of_wVars hp
              omega
            · intro r hr
              have hnw : r ∉ wVars t.original := by
                intro hm
                apply h4
                rw [List.any_eq_true]
                exact ⟨r, hr, by simpa using hm⟩
              simp only [HoistTarget.original, wVars, List.mem_cons, not_or] at hnw
              have h5 := hnw.2
              rw [mem_wVars_seqs_append, mem_wVars_seqs_cons] at h5
              exact ⟨hnw.1, fun hh => h5 (Or.inl hh), fun hh => h5 (Or.inr (Or.inr hh))⟩

/-- **Hoisting is sound when the loop runs at least once**: for every accepted target (the
only hypothesis besides acceptance is a positive trip count) the hoisted program computes
exactly the same store, for every loop header, surrounding statements and store.  Missing
part: zero-trip loops (refuted by `C05_hoist_zero_trip_counterexample`; `HoistTrans` has no
trip-count test). -/
theorem C05_hoist_sound_partial (t : HoistTarget) (hacc : hoistValidate t = .ok ()) (σ : Store)
    (hn : 0 < trip (eval t.lo σ) (eval t.hi σ) (eval t.st σ)) :
    exec (hoistApply t) σ = exec t.original σ := by
  obtain ⟨x, hx, hxr, hxv, hxb, hxp, hxq, hR⟩ := hoistValidate_safe hacc
  simp only [List.mem_append, not_or, eVars_eq, rVars_eq, wVars_eq] at hxr hxb hxp hxq hR
  have h1 : exec t.original σ = exec (.loop t.v t.lo t.hi t.st (.seq (seqs t.pre) (.seq t.s (seqs t.post)))) σ := by
    apply loop_body_congr
    intro τ
    rw [exec_seqs_append, exec_seqs_cons]
    rfl
  have h2 : exec (hoistApply t) σ
      = exec (.seq t.s (.loop t.v t.lo t.hi t.st (.seq (seqs t.pre) (seqs t.post)))) σ := by
    show exec (.loop t.v t.lo t.hi t.st (seqs (t.pre ++ t.post))) (exec t.s σ) = _
    apply loop_body_congr
    intro τ
    rw [exec_seqs_append]
    rfl
  rw [h1, h2]
  exact (hoist_sound_core t.v x t.lo t.hi t.st (seqs t.pre) t.s (seqs t.post) hx hxr hxv
    ⟨hxb.1.1, hxb.1.2, hxb.2⟩ hxp hxq hR σ hn).symm

/-- non-vacuity: `do i = 1, n ; b(i) = 1 ; t = s0 + 2 ; a(i) = t` is accepted and safe -/
example :
    let t : HoistTarget := ⟨0, .lit 1, .var 5, .lit 1, [.store1 3 (.var 0) (.lit 1)],
      .assign 2 (.bin .add (.var 4) (.lit 2)), [.store1 1 (.var 0) (.var 2)]⟩
    hoistValidate t = .ok () ∧ HoistSafe t 2 := by decide

example : hoistValidate ⟨0, .lit 1, .lit 5, .lit 1, [], .assign 2 (.var 0), []⟩ = .error .hoistReadsWritten := by decide
example : hoistValidate ⟨0, .lit 1, .lit 5, .lit 1, [.store1 1 (.var 0) (.var 2)], .assign 2 (.lit 1), []⟩
    = .error .hoistAccessedBefore := by decide
example : hoistValidate ⟨0, .lit 1, .lit 5, .lit 1, [], .assign 2 (.lit 1), [.assign 2 (.lit 3)]⟩
    = .error .hoistOtherWrite := by decide

/-! ### HoistLoopBoundExprTrans -/

/-- **Hoisting loop-bound expressions is sound, unconditionally**: for every loop (any bound
and step expressions, any trip count, any body) and every store, the loop preceded by the
assignments of its non-trivial bounds to the new scalars leaves every variable except the
new scalars with the same value.  Only hypothesis: the created symbols are new. -/
theorem C05_hoistBound_sound (t : HoistBoundTarget) (_hacc : hoistBoundValidate t = .ok ())
    (hfresh : HoistBoundFresh t) (σ : Store) :
    ∀ x i j, x ≠ t.fLo → x ≠ t.fHi → x ≠ t.fSt →
      (exec (hoistBoundApply t) σ) (x, i, j) = (exec t.l.stmt σ) (x, i, j) := by
  obtain ⟨hd, hf⟩ := hfresh
  apply hoistBound_sound t hd
  intro f hfm
  have := hf f (by rcases hfm with h | h | h <;> simp [h])
  simpa [eVars_eq, rVars_eq] using this

/-- non-vacuity and sanity: `do i = n+1, b(2), -1` hoists start, stop and the (non-literal) step -/
example :
    let t : HoistBoundTarget := ⟨⟨0, .bin .add (.var 4) (.lit 1), .idx1 2 (.lit 2), .un .neg (.lit 1),
      .store1 1 (.var 0) (.var 0)⟩, 5, 6, 7⟩
    hoistBoundValidate t = .ok () ∧ HoistBoundFresh t ∧
    hoistBoundApply t = .seq (.assign 7 (.un .neg (.lit 1))) (.seq (.assign 6 (.idx1 2 (.lit 2)))
      (.seq (.assign 5 (.bin .add (.var 4) (.lit 1)))
        (.loop 0 (.var 5) (.var 6) (.var 7) (.store1 1 (.var 0) (.var 0))))) := by decide

example : hoistBoundApply ⟨⟨0, .lit 1, .var 4, .lit 1, .skip⟩, 5, 6, 7⟩ = .loop 0 (.lit 1) (.var 4) (.lit 1) .skip := by decide

/-! ### ReplaceInductionVariablesTrans -/

/-- full statement for induction-variable replacement -/
def C05_replaceIV_statement : Prop :=
  ∀ t : ReplaceIVTarget, replaceIVValidate t = .ok () → ObsEq [] (replaceIVApply t) t.original

/-- `do i = 5, 1 ; t = i + 2 ; a(i) = t` (ids i=0, a=1, t=2): zero trips -/
def replaceIVZeroWitness : ReplaceIVTarget :=
  ⟨0, .lit 5, .lit 1, .lit 1, [.assign 2 (.bin .add (.var 0) (.lit 2)), .store1 1 (.var 0) (.var 2)]⟩

/-- `do i = t, 3 ; t = i - 2 ; a(i) = t`: the replaced variable occurs in the loop header -/
def replaceIVHeaderWitness : ReplaceIVTarget :=
  ⟨0, .var 2, .lit 3, .lit 1, [.assign 2 (.bin .sub (.var 0) (.lit 2)), .store1 1 (.var 0) (.var 2)]⟩

/-- sanity: what `apply` produces for the zero-trip witness -/
example : replaceIVApply replaceIVZeroWitness =
    .seq (.loop 0 (.lit 5) (.lit 1) (.lit 1) (.store1 1 (.var 0) (.bin .add (.var 0) (.lit 2))))
      (.assign 2 (.bin .add (.bin .sub (.var 0) (.lit 1)) (.lit 2))) := by decide

/-- second write, read before the assignment, right-hand side written in the body: not replaced -/
example : replaceIVApply ⟨0, .lit 1, .lit 3, .lit 1, [.assign 2 (.var 0), .assign 2 (.bin .mul (.lit 2) (.var 2))]⟩
    = .loop 0 (.lit 1) (.lit 3) (.lit 1) (.seq (.assign 2 (.var 0)) (.assign 2 (.bin .mul (.lit 2) (.var 2)))) := by decide
example : replaceIVApply ⟨0, .lit 1, .lit 3, .lit 1, [.store1 1 (.var 0) (.var 2), .assign 2 (.var 0)]⟩
    = .loop 0 (.lit 1) (.lit 3) (.lit 1) (.seq (.store1 1 (.var 0) (.var 2)) (.assign 2 (.var 0))) := by decide

/-- the post-loop assignment `t = (i - 1) + 2` runs although the loop body never did -/
theorem C05_replaceIV_zero_trip_counterexample :
    replaceIVValidate replaceIVZeroWitness = .ok () ∧
    ¬ ObsEq [] (replaceIVApply replaceIVZeroWitness) replaceIVZeroWitness.original := by
  refine ⟨rfl, fun h => ?_⟩
  have := h (storeOf []) 2 0 0 (by decide)
  revert this
  decide

/-- the substitution also rewrites the loop header: `do i = i - 2, 3` starts at -2 -/
theorem C05_replaceIV_header_counterexample :
    replaceIVValidate replaceIVHeaderWitness = .ok () ∧
    ¬ ObsEq [] (replaceIVApply replaceIVHeaderWitness) replaceIVHeaderWitness.original := by
  refine ⟨rfl, fun h => ?_⟩
  have := h (storeOf []) 1 (-2) 0 (by decide)
  revert this
  decide

theorem C05_replaceIV_statement_false : ¬ C05_replaceIV_statement := fun h =>
  C05_replaceIV_zero_trip_counterexample.2 (h replaceIVZeroWitness rfl)

/-- what `_is_induction_variable` does NOT test (each omission is a finding class or an
untested corner): the replaced variable is not the loop variable and does not occur in the loop
header, it is not used as an array name, the loop variable is not assigned in the body, and the
step expression is not modified by the body -/
def ReplaceIVExtra (v : Nat) (lo hi st : Expr) (pre post : List Stmt) (x : Nat) (e : Expr) : Prop :=
  x ≠ v ∧ x ∉ eVars lo ++ eVars hi ++ eVars st ∧ x ∉ arrsS (seqs post) ∧ v ∉ arrsE e ∧
  (v ∉ wVars (seqs pre) ∧ v ∉ wVars (seqs post)) ∧
  (∀ r ∈ eVars st, r ≠ v ∧ r ∉ wVars (seqs pre) ∧ r ∉ wVars (seqs post))

instance (v : Nat) (lo hi st : Expr) (pre post : List Stmt) (x : Nat) (e : Expr) :
    Decidable (ReplaceIVExtra v lo hi st pre post x e) := by unfold ReplaceIVExtra; exact inferInstance

/-- **what `_is_induction_variable` guarantees**: together with the untested conditions it yields
`ReplaceIVSafe` -/
theorem isIV_safe {v : Nat} {lo hi st : Expr} {pre post : List Stmt} {x : Nat} {e : Expr}
    (h : isIV (pre ++ .assign x e :: post) pre.length x e = true)
    (hx : ReplaceIVExtra v lo hi st pre post x e) : ReplaceIVSafe v lo hi st pre post x e := by
  unfold isIV at h
  simp only [Bool.and_eq_true, List.all_eq_true, Bool.not_eq_true', decide_eq_false_iff_not,
    List.isEmpty_iff] at h
  obtain ⟨⟨h1, h2⟩, h3⟩ := h
  rw [List.take_left'  rfl] at h2
  have hdrop : List.drop (pre.length + 1) (pre ++ Stmt.assign x e :: post) = post := by
    simp
  rw [hdrop] at h3
  have hpre := not_mem_of_accOf_nil (y := x) (s := seqs pre) (by rw [h2]; rfl)
  have hbody : ∀ y, y ∈ wVars (seqs (pre ++ Stmt.assign x e :: post)) ↔
      y ∈ wVars (seqs pre) ∨ y = x ∨ y ∈ wVars (seqs post) := by
    intro y
    rw [mem_wVars_seqs_append, mem_wVars_seqs_cons]
    simp [wVars]
  obtain ⟨e1, e2, e3, e4, e5, e6⟩ := hx
  refine ⟨?_, e1, e2, ?_, h3, e3, e4, ?_, e5, e6⟩
  · intro hxe
    exact h1 x hxe ((hbody x).2 (Or.inr (Or.inl rfl)))
  · simp only [List.mem_append, not_or]; exact hpre
  · intro r hr
    have := h1 r hr
    rw [hbody] at this
    exact ⟨fun hh => this (Or.inl hh), fun hh => this (Or.inr (Or.inr hh))⟩

/-- **One induction-variable replacement is sound when the loop runs at least once**: whenever
`_is_induction_variable` accepts the assignment `x = e` at its position in the loop body, the
loop with the assignment removed and `x` replaced by `e` in the rest of the body, followed by
`x = e[v := v - step]`, leaves every scalar and array element as the original loop does — for
all headers, bodies and stores with a positive trip count, under the explicitly named extra
conditions `ReplaceIVExtra` that the code does not test.  (`apply` iterates this step; since
`x` is not read before its assignment the model's substitution of the whole body equals the
one used here — `map_substS_id`.)  Missing parts: zero-trip loops and a replaced variable in
the loop header (both refuted above), a body that modifies the step expression or the loop
variable, and the locations `(x, i, j) ≠ (x, 0, 0)` that a scalar never uses. -/
theorem C05_replaceIV_sound_partial (v : Nat) (lo hi st : Expr) (pre post : List Stmt) (x : Nat) (e : Expr)
    (hiv : isIV (pre ++ .assign x e :: post) pre.length x e = true)
    (hextra : ReplaceIVExtra v lo hi st pre post x e) (σ : Store)
    (hn : 0 < trip (eval lo σ) (eval hi σ) (eval st σ)) :
    ∀ l : Loc, (l.1 = x → l = (x, 0, 0)) →
      (exec (.seq (.loop v lo hi st (seqs ((pre ++ post).map (substS x e))))
                  (.assign x (substE v (.bin .sub (.var v) st) e))) σ) l
        = (exec (.loop v lo hi st (seqs (pre ++ .assign x e :: post))) σ) l := by
  obtain ⟨hxe, hxv, hxh, hxp, hxq, harr, hve, hep, hvw, hst⟩ := isIV_safe hiv hextra
  simp only [List.mem_append, not_or, eVars_eq, rVars_eq, wVars_eq] at hxe hxh hxp hxq hep hvw hst
  have hO : exec (.loop v lo hi st (seqs (pre ++ .assign x e :: post))) σ
      = exec (.loop v lo hi st (.seq (seqs pre) (.seq (.assign x e) (seqs post)))) σ := by
    apply loop_body_congr
    intro τ
    rw [exec_seqs_append, exec_seqs_cons]
    rfl
  have hN : ∀ τ, exec (.loop v lo hi st (seqs ((pre ++ post).map (substS x e)))) τ
      = exec (.loop v lo hi st (.seq (seqs pre) (substS x e (seqs post)))) τ := by
    intro τ
    apply loop_body_congr
    intro ρ
    rw [List.map_append, map_substS_id hxp.1, exec_seqs_append, exec_seqs_map_substS]
    rfl
  intro l hl
  rw [hO]
  show (exec (.assign x _) (exec (.loop v lo hi st (seqs ((pre ++ post).map (substS x e)))) σ)) l = _
  rw [hN]
  exact replaceIV_step_sound v x lo hi st e (seqs pre) (seqs post) hxe hxv ⟨hxh.1.1, hxh.1.2, hxh.2⟩ hxp hxq
    harr hve hep hvw hst σ hn l hl

/-- the model's `apply` performs exactly this step on an accepted candidate -/
example : replaceIVApply ⟨0, .var 4, .var 5, .lit 2, [.store1 3 (.var 0) (.lit 1),
      .assign 2 (.bin .add (.var 0) (.var 7)), .store1 1 (.var 0) (.var 2)]⟩
    = .seq (.loop 0 (.var 4) (.var 5) (.lit 2)
        (seqs ([Stmt.store1 3 (.var 0) (.lit 1), .store1 1 (.var 0) (.var 2)].map (substS 2 (.bin .add (.var 0) (.var 7))))))
      (.assign 2 (substE 0 (.bin .sub (.var 0) (.lit 2)) (.bin .add (.var 0) (.var 7)))) := by decide

/-- non-vacuity: `do i = n, m, 2 ; b(i) = 1 ; t = i + s ; a(i) = t ; c(t) = i` -/
example :
    isIV ([Stmt.store1 3 (.var 0) (.lit 1)] ++ .assign 2 (.bin .add (.var 0) (.var 7)) ::
      [.store1 1 (.var 0) (.var 2), .store1 6 (.var 2) (.var 0)]) 1 2 (.bin .add (.var 0) (.var 7)) = true ∧
    ReplaceIVExtra 0 (.var 4) (.var 5) (.lit 2) [.store1 3 (.var 0) (.lit 1)]
      [.store1 1 (.var 0) (.var 2), .store1 6 (.var 2) (.var 0)] 2 (.bin .add (.var 0) (.var 7)) := by decide

/-! ### LoopTiling2DTrans -/

/-- full statement for 2D tiling (composition chunk ∘ chunk ∘ swap of the real code) -/
def C05_tile_statement : Prop :=
  ∀ t : TileTarget, tileValidate t = .ok () →
    ObsEq [t.outO, t.elO, t.outI, t.elI] (tileApply t) t.original

/-- `do j=1,2: do i=1,4: m(i,j) = m(i+2,j-1) + 1` with `tilesize = 2` (ids: j=0, i=1, m=2) -/
def tileWitness : TileTarget :=
  ⟨0, .lit 1, .lit 2, .lit 1,
   [.loop 1 (.lit 1) (.lit 4) (.lit 1)
      (.store2 2 (.var 1) (.var 0)
        (.bin .add (.idx2 2 (.bin .add (.var 1) (.lit 2)) (.bin .sub (.var 0) (.lit 1))) (.lit 1)))],
   2, 3, 4, 5, 6⟩

/-- tiling inherits the missing dependence test of `LoopSwapTrans`: accepted, and `m(1,2)` is
computed before `m(3,1)` -/
theorem C05_tile_dependence_counterexample :
    tileValidate tileWitness = .ok () ∧
    ¬ ObsEq [tileWitness.outO, tileWitness.elO, tileWitness.outI, tileWitness.elI]
        (tileApply tileWitness) tileWitness.original := by
  refine ⟨by decide, fun h => ?_⟩
  have := h (storeOf []) 2 1 2 (by decide)
  revert this
  decide

theorem C05_tile_statement_false : ¬ C05_tile_statement := fun h =>
  C05_tile_dependence_counterexample.2 (h tileWitness C05_tile_dependence_counterexample.1)

example : tileValidate { tileWitness with tile := 0 } = .error .badOption := by decide
example : tileValidate { tileWitness with st := .lit 3 } = .error .stepTooLarge := by decide

/-! ### the candidate repairs (`fixes/C05-*.patch`, flags of `Fixes`) -/

/-- with all flags off the flagged functions are the pinned ones -/
theorem chunkValidateF_pinned (t : ChunkTarget) : chunkValidateF {} t = chunkValidate t := by
  unfold chunkValidateF chunkValidate
  simp

theorem fuseValidateF_pinned (t : FuseTarget) : fuseValidateF {} t = fuseValidate t := by
  unfold fuseValidateF
  split
  · rename_i h
    unfold fuseValidate
    rw [if_pos h]
  · simp

theorem tileValidateF_pinned (t : TileTarget) : tileValidateF {} t = tileValidate t := by
  unfold tileValidateF tileValidate
  simp only [chunkValidateF_pinned]

/-- a repaired `validate` accepts only what the pinned one accepts, and what the two new tests
guarantee -/
theorem chunkValidateF_ok {f : Fixes} {t : ChunkTarget} (h : chunkValidateF f t = .ok ()) :
    chunkValidate t = .ok () ∧
    (f.chunkDiv = true → ∃ s, t.l.st = .lit s ∧ s ∣ t.chunk) ∧
    (f.chunkSelf = true → t.l.v ∉ eVars t.l.lo ++ eVars t.l.hi) := by
  unfold chunkValidateF at h
  split at h
  · cases h
  rename_i hc
  split at h
  · rename_i s hs
    split at h
    · cases h
    rename_i h1
    split at h
    · cases h
    rename_i h2
    split at h
    · cases h
    rename_i h3
    split at h
    · cases h
    rename_i h4
    split at h
    · cases h
    rename_i h5
    split at h
    · cases h
    rename_i h6
    refine ⟨?_, ?_, ?_⟩
    · unfold chunkValidate
      rw [if_neg hc, hs]
      dsimp only
      rw [if_neg h1, if_neg h2, if_neg h3, if_neg h6]
    · intro hf
      refine ⟨s, hs, ?_⟩
      simp only [hf, Bool.true_and, bne_iff_ne, ne_eq, Decidable.not_not] at h4
      exact Int.natAbs_dvd_natAbs.mp (Nat.dvd_of_mod_eq_zero h4)
    · intro hf
      simpa [hf] using h5
  · cases h

theorem fuseValidateF_ok {f : Fixes} {t : FuseTarget} (h : fuseValidateF f t = .ok ()) :
    fuseValidate t = .ok () ∧ (f.fuseOrder = true → t.reversed = false) := by
  unfold fuseValidateF at h
  split at h
  · cases h
  · split at h
    · cases h
    · rename_i h2
      refine ⟨h, fun hf => ?_⟩
      simpa [hf] using h2

/-- **Chunking with the two repairs is sound for every positive step**: the hypotheses "the step
divides the chunk size" and "the stop expression does not mention the loop variable" of
`C05_chunk_sound_partial` are now guaranteed by `validate`.  Still missing: negative literal
steps (the inner bound `out - (chunk + 1)` is pinned by an existing test) and the value of the
loop variable after a zero-trip loop. -/
theorem C05_chunk_sound_fixed_partial (f : Fixes) (hd : f.chunkDiv = true) (hself : f.chunkSelf = true)
    (t : ChunkTarget) (hacc : chunkValidateF f t = .ok ()) (hfresh : ChunkFresh t)
    (s : Int) (hst : t.l.st = .lit s) (hpos : 0 < s) (σ : Store) :
    ∀ x i j, x ≠ t.out → x ≠ t.el →
      ((x, i, j) = ((t.l.v, 0, 0) : Loc) → 0 < trip (eval t.l.lo σ) (eval t.l.hi σ) s) →
      (exec (chunkApply t) σ) (x, i, j) = (exec t.l.stmt σ) (x, i, j) := by
  obtain ⟨h0, h1, h2⟩ := chunkValidateF_ok hacc
  obtain ⟨s', hs', hdiv⟩ := h1 hd
  have hss : s' = s := by rw [hst] at hs'; cases hs'; rfl
  subst hss
  have hv := h2 hself
  exact C05_chunk_sound_partial t h0 hfresh (fun hm => hv (List.mem_append_right _ hm)) s' hst hpos hdiv σ

/-- non-vacuity, and the three chunk witnesses that the repairs turn into refusals -/
example :
    let t : ChunkTarget := ⟨⟨0, .var 4, .idx1 5 (.lit 2), .lit 2,
      .store1 1 (.var 0) (.bin .add (.idx1 1 (.var 0)) (.var 0))⟩, 6, false, 2, 3⟩
    chunkValidateF ⟨true, true, true⟩ t = .ok () ∧ ChunkFresh t := by decide
example : chunkValidateF ⟨true, true, true⟩ chunkStepWitness = .error .stepNotDividing := by decide
example : chunkValidateF ⟨true, true, true⟩ chunkStopWitness = .error .boundSelf := by decide
example : chunkValidateF ⟨true, true, true⟩ chunkNegWitness = .ok () := by decide

/-- **Fusion with the argument-order repair**: `apply(second, first)` is refused, so the
hypothesis `reversed = false` of the fusion theorems is guaranteed by `validate` -/
theorem C05_fuse_sound_fixed_partial (f : Fixes) (ho : f.fuseOrder = true) (t : FuseTarget)
    (hacc : fuseValidateF f t = .ok ())
    (hs : t.l1.v = t.l2.v ∧ t.l1.v ∉ wVars t.l2.body ∧ t.l1.v ∉ hdrVars t.l1 ∧
      (∀ x ∈ wVars t.l1.body, x ∉ rVars t.l2.body ∧ x ∉ wVars t.l2.body) ∧
      (∀ x ∈ wVars t.l2.body, x ∉ rVars t.l1.body ∧ x ∉ wVars t.l1.body)) (σ : Store) :
    exec (fuseApply t) σ = exec t.original σ := by
  obtain ⟨h0, h1⟩ := fuseValidateF_ok hacc
  exact C05_fuse_sound_validated_partial t h0 ⟨h1 ho, hs⟩ σ

example : fuseValidateF ⟨true, false, false⟩ fuseReversedWitness = .error .notAdjacent := by decide
example :
    let t : FuseTarget :=
      ⟨⟨0, .var 4, .var 5, .lit 2, .store1 1 (.var 0) (.bin .add (.idx1 2 (.var 0)) (.var 0))⟩,
       ⟨0, .var 4, .var 5, .lit 2, .store1 3 (.var 0) (.bin .mul (.idx1 2 (.var 0)) (.lit 2))⟩, true, false⟩
    fuseValidateF ⟨true, false, false⟩ t = .ok () := by decide

/-! ### FoldConditionalReturnExpressionsTrans -/

/-- **Folding conditional returns is sound, unconditionally**: for every routine body (any
nesting of IfBlocks with RETURNs outside loops, dead code after a RETURN, else branches, several
conditional returns in a row) and every store, the folded routine ends with exactly the same
store as the original. -/
theorem C05_foldReturn_sound (body : List RStmt) (_hacc : foldValidate body = .ok ()) (σ : Store) :
    (execR (seqsR (foldApply body)) σ).1 = (execR (seqsR body) σ).1 :=
  fold_sound body σ

/-- the docstring example: two conditional returns followed by code -/
example : foldApply [.ite (.bin .lt (.var 0) (.lit 5)) .ret .skip false,
      .ite (.bin .gt (.var 0) (.lit 10)) .ret .skip false, .base (.assign 1 (.lit 7))]
    = [.ite (.un .not (.bin .lt (.var 0) (.lit 5)))
        (.ite (.un .not (.bin .gt (.var 0) (.lit 10))) (.base (.assign 1 (.lit 7))) .skip false) .skip false] := by
  decide

/-- an IfBlock with an else branch, or whose first statement is not the RETURN, is left alone -/
example : foldApply [.ite (.var 0) .ret (.base (.assign 1 (.lit 1))) true, .base (.assign 1 (.lit 7))]
    = [.ite (.var 0) .ret (.base (.assign 1 (.lit 1))) true, .base (.assign 1 (.lit 7))] := by decide
example : foldApply [.ite (.var 0) (.seq (.base (.assign 1 (.lit 1))) .ret) .skip false, .base (.assign 1 (.lit 7))]
    = [.ite (.var 0) (.seq (.base (.assign 1 (.lit 1))) .ret) .skip false, .base (.assign 1 (.lit 7))] := by decide

end C05
