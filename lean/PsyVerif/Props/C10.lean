import PsyVerif.Model.Directives
import PsyVerif.Gen.Directives
/-! # C10 — Directive trees produced by accepted transformations are valid

Model: `PsyVerif/Model/Directives.lean`.
* `writer` mirrors the `validate_global_constraints` of every OpenMP/OpenACC directive node
  (parallel, do, parallel do, teams distribute parallel do, loop, single(nowait), master, taskloop,
  dynamic task, taskwait, target, atomic, simd, declare target; acc parallel, kernels, data, loop,
  atomic, enter data, update, routine) as run by the PSyIR visitor, with the outcome
  accept / GenerationError / IndexError.  MODE: fixed code — /repo with the `fix:` commits d0e6145
  (OpenMP close nesting), 053c279 (OpenACC nesting), 26670ce (rectangular collapse), f63f3e2 (no
  OpenMP/OpenACC mixing), 3023462 (teams / simd regions), b01d4e9 (acc routine / update / enter data
  placement).  The one remaining known finding (`nowait` printed on `!$omp single`) is excluded by
  the explicit side condition of `C10_writer_guards_partial`; `C10_writer_guards` has no exclusions.
* `guardedValid` / `specValid` are the OpenMP 4.5/5.0 and OpenACC 2.6 nesting, loop-association,
  rectangularity and no-mixing rules (each clause cites its source in the model file).
* `applyOp` / `Reachable` model the SHAPE of the directive-inserting transformations.

Quantification: `C10_writer_guards` — every statement forest over the modelled node kinds (any depth,
width, collapse values, positions), hence every tree any history of transformations can build,
without using the transformation model; `C10_total` — every tree reachable from a directive-free
program by any sequence of `applyOp` steps (any length).

Tie to the code: `Gen/Directives.lean` (truth table of the real checks on a catalogue, regenerated
on every run, `C10_table_agrees`), and the harness correspondence on random histories/forests for
`writer` and, step by step, for `applyOp`. -/
namespace C10

/-! ## helper lemmas -/

theorem andThen_accept {a b : Outcome} (h : a.andThen b = .accept) : a = .accept ∧ b = .accept := by
  cases a <;> cases b <;> simp_all [Outcome.andThen]

theorem guard_accept {b : Bool} (h : guard b = .accept) : b = true := by
  cases b <;> simp_all [guard]

theorem closelyIn_any {p : Kind → Bool} {ctx : Ctx} (h : closelyIn p ctx = true) :
    ctx.any p = true := by
  induction ctx with
  | nil => simp [closelyIn] at h
  | cons a rest ih =>
    simp only [closelyIn, Bool.or_eq_true, Bool.and_eq_true] at h
    simp only [List.any_cons, Bool.or_eq_true]
    rcases h with h | ⟨_, h⟩
    · exact Or.inl h
    · exact Or.inr (ih h)

theorem any_mono {p q : Kind → Bool} (hpq : ∀ a, p a = true → q a = true) {ctx : Ctx}
    (h : ctx.any p = true) : ctx.any q = true := by
  rw [List.any_eq_true] at h ⊢
  obtain ⟨a, ha, hp⟩ := h
  exact ⟨a, ha, hpq a hp⟩

theorem plainPar_isOmpPar (a : Kind) (h : isPlainPar a = true) : isOmpPar a = true := by
  cases a <;> simp_all [isPlainPar, isOmpPar]

theorem single_isSerial (a : Kind) (h : isSingle a = true) : isSerial a = true := by
  cases a <;> simp_all [isSingle, isSerial]

/-! ### the context invariant: every ancestor passed its own ancestor checks -/

/-- the part of `nodeOut` of an ancestor that later checks rely on -/
def ctxGuard (rest : Ctx) (a : Kind) : Bool :=
  match a with
  | .ompTask => rest.any isSingle
  | .ompSingle _ | .ompMaster => rest.any isPlainPar
  | .ompTaskloop => rest.any isSerial
  | _ => true

def ctxOK : Ctx → Bool
  | [] => true
  | a :: rest => ctxGuard rest a && ctxOK rest

theorem taskPlace_single {ctx : Ctx} (h : taskPlace ctx = true) : ctx.any isSingle = true := by
  induction ctx with
  | nil => simp [taskPlace] at h
  | cons a rest ih =>
    simp only [List.any_cons, Bool.or_eq_true]
    cases a <;> simp_all [taskPlace, isSingle]

theorem nodeOut_ctxGuard {ar pos ctx k body} (h : nodeOut ar pos ctx k body = .accept) :
    ctxGuard ctx k = true := by
  cases k <;> simp only [ctxGuard] <;> simp only [nodeOut] at h
  · have := guard_accept h; simp only [Bool.and_eq_true] at this; exact this.1.1
  · have := guard_accept h; simp only [Bool.and_eq_true] at this; exact this.1.1
  · have := guard_accept h; simp only [Bool.and_eq_true] at this; exact this.1
  · exact taskPlace_single (guard_accept h)

theorem ctxOK_serial_par {ctx : Ctx} (ok : ctxOK ctx = true) (h : ctx.any isSerial = true) :
    ctx.any isPlainPar = true := by
  induction ctx with
  | nil => simp at h
  | cons a rest ih =>
    simp only [ctxOK, Bool.and_eq_true] at ok
    simp only [List.any_cons, Bool.or_eq_true] at h ⊢
    rcases h with h | h
    · right
      cases a <;> simp_all [isSerial, ctxGuard]
    · exact Or.inr (ih ok.2 h)

theorem ctxOK_task_serial {ctx : Ctx} (ok : ctxOK ctx = true) (h : ctx.any isTask = true) :
    ctx.any isSerial = true := by
  induction ctx with
  | nil => simp at h
  | cons a rest ih =>
    simp only [ctxOK, Bool.and_eq_true] at ok
    simp only [List.any_cons, Bool.or_eq_true] at h ⊢
    rcases h with h | h
    · right
      have ha : a = .ompTask := by cases a <;> simp_all [isTask]
      subst ha
      have := ok.1
      simp only [ctxGuard] at this
      exact any_mono single_isSerial this
    · exact Or.inr (ih ok.2 h)

/-- If no ancestor satisfies `p`, every serial ancestor would satisfy `p`, and `q` only adds explicit
tasks to `p`, then the node is not closely nested in a `q` region. -/
theorem no_closely {p q : Kind → Bool} {ctx : Ctx} (ok : ctxOK ctx = true)
    (hq : ∀ a, q a = true → p a = true ∨ isTask a = true)
    (hs : ∀ a, isSerial a = true → p a = true)
    (hp : ctx.any p = false) : closelyIn q ctx = false := by
  cases hc : closelyIn q ctx with
  | false => rfl
  | true =>
    exfalso
    have hany := closelyIn_any hc
    rw [List.any_eq_true] at hany
    obtain ⟨a, ha, hqa⟩ := hany
    rw [List.any_eq_false] at hp
    rcases hq a hqa with h | h
    · exact hp a ha h
    · have : ctx.any isTask = true := List.any_eq_true.mpr ⟨a, ha, h⟩
      have := ctxOK_task_serial ok this
      rw [List.any_eq_true] at this
      obtain ⟨b, hb, hsb⟩ := this
      exact hp b hb (hs b hsb)

theorem singleLoop_assoc {body : Forest} (h : singleLoop body = true) : assocLoops 1 body = true := by
  unfold singleLoop at h
  split at h
  · simp [assocLoops]
  · cases h

/-- `_validate_collapse_value` accepting means the collapsed loops are perfectly nested … -/
theorem collapseOmp_assoc (n d : Nat) (body : Forest) (h : collapseOmp n d body = .accept) :
    assocLoops n body = true := by
  fun_induction collapseOmp n d body with
  | case1 => simp [assocLoops]
  | case2 => cases h
  | case3 n d dep body hr hne ih => simp only [assocLoops]; exact ih h
  | case4 => cases h
  | case5 => cases h

/-- … and form a rectangular iteration space (a). -/
theorem collapseOmp_rect (n d : Nat) (body : Forest) (h : collapseOmp n d body = .accept) :
    rectNest n d body = true := by
  fun_induction collapseOmp n d body with
  | case1 => simp [rectNest]
  | case2 => cases h
  | case3 n d dep body hr hne ih =>
    simp only [rectNest, Bool.and_eq_true]; exact ⟨hr, ih h⟩
  | case4 => cases h
  | case5 n d f hf =>
    cases h

theorem collapseAcc_assoc (n d : Nat) (body : Forest) (h : collapseAcc n d body = true) :
    assocLoops n body = true := by
  fun_induction collapseAcc n d body with
  | case1 => simp [assocLoops]
  | case2 n d dep body ih =>
    simp only [Bool.and_eq_true] at h
    simp only [assocLoops]; exact ih h.2
  | case3 => cases h

theorem collapseAcc_rect (n d : Nat) (body : Forest) (h : collapseAcc n d body = true) :
    rectNest n d body = true := by
  fun_induction collapseAcc n d body with
  | case1 => simp [rectNest]
  | case2 n d dep body ih =>
    simp only [Bool.and_eq_true] at h
    simp only [rectNest, Bool.and_eq_true]; exact ⟨h.1, ih h.2⟩
  | case3 => cases h

/-- single loop + collapse check ⇒ `max c 1` perfectly nested loops. -/
theorem assoc_of_single_collapse {c d : Nat} {body : Forest} (hs : singleLoop body = true)
    (hc : collapseOmp c d body = .accept) : assocLoops (max c 1) body = true := by
  cases c with
  | zero => exact singleLoop_assoc hs
  | succ c =>
    have : max (c + 1) 1 = c + 1 := by omega
    rw [this]; exact collapseOmp_assoc _ _ _ hc

theorem max_one_cases (c : Nat) : (c = 0 ∧ max c 1 = 1) ∨ max c 1 = c := by omega

/-- One node: what `validate_global_constraints` accepts satisfies the nesting/association rules
(given that the ancestors passed their own checks). -/
theorem nodeOut_core (ar : Env) (pos : Pos) (ctx : Ctx) (k : Kind) (body : Forest)
    (ok : ctxOK ctx = true) (h : nodeOut ar pos ctx k body = .accept) :
    nodeCore ar pos ctx k body = true := by
  cases k with
  | stmt | astmt | codeBlock | block | loop | ompTarget => simp [nodeCore]
  | ompTaskwait =>
    have := guard_accept h
    simp only [nodeCore]
    exact any_mono plainPar_isOmpPar this
  | ompSingle nw =>
    have := guard_accept h
    simp only [Bool.and_eq_true, Bool.not_eq_true'] at this
    obtain ⟨⟨h1, h2⟩, h3⟩ := this
    simp only [nodeCore, Bool.and_eq_true, Bool.not_eq_true']
    refine ⟨any_mono plainPar_isOmpPar h1,
      no_closely (p := fun a => isDoLike a || isSerial a || isTaskloop a) ok ?_ ?_ ?_⟩
    · intro a ha; cases a <;> simp_all [isDoLike, isSerial, isTaskloop, isTask]
    · intro a ha; simp [ha]
    · rw [List.any_eq_false] at h2 h3 ⊢
      intro a ha
      have := h2 a ha; have := h3 a ha
      simp_all
  | ompMaster =>
    have := guard_accept h
    simp only [Bool.and_eq_true, Bool.not_eq_true'] at this
    obtain ⟨⟨h1, h2⟩, h3⟩ := this
    simp only [nodeCore, Bool.and_eq_true, Bool.not_eq_true']
    refine ⟨any_mono plainPar_isOmpPar h1,
      no_closely (p := fun a => isDoLike a || isSerial a || isTaskloop a) ok ?_ ?_ ?_⟩
    · intro a ha; cases a <;> simp_all [isDoLike, isSerial, isSingle, isTaskloop, isTask]
    · intro a ha; simp [ha]
    · rw [List.any_eq_false] at h2 h3 ⊢
      intro a ha
      have := h2 a ha; have := h3 a ha
      simp_all
  | ompParallel =>
    have := guard_accept h
    simpa [nodeCore] using this
  | ompParallelDo c =>
    obtain ⟨hg, hc⟩ := andThen_accept h
    have := guard_accept hg
    simp only [Bool.and_eq_true, Bool.not_eq_true'] at this
    simp only [nodeCore, Bool.and_eq_true, Bool.not_eq_true']
    exact ⟨this.1, assoc_of_single_collapse this.2 hc⟩
  | ompTeamsDPD c =>
    obtain ⟨hg, hc⟩ := andThen_accept h
    have := guard_accept hg
    simp only [Bool.and_eq_true, Bool.not_eq_true'] at this
    simp only [nodeCore, Bool.and_eq_true, Bool.not_eq_true']
    exact ⟨⟨this.1.1, this.1.2⟩, assoc_of_single_collapse this.2 hc⟩
  | ompDo c =>
    obtain ⟨hg, hc⟩ := andThen_accept h
    have := guard_accept hg
    simp only [Bool.and_eq_true, Bool.not_eq_true'] at this
    obtain ⟨⟨h1, h2⟩, h3⟩ := this
    simp only [nodeCore, Bool.and_eq_true, Bool.not_eq_true']
    refine ⟨⟨any_mono plainPar_isOmpPar h1,
      no_closely (p := fun a => isDoLike a || isSerial a || isTaskloop a) ok ?_ ?_ h2⟩,
      assoc_of_single_collapse h3 hc⟩
    · intro a ha; cases a <;> simp_all [isDoLike, isSerial, isTaskloop, isTask]
    · intro a ha; simp [ha]
  | ompTaskloop =>
    have := guard_accept h
    simp only [Bool.and_eq_true] at this
    simp only [nodeCore, Bool.and_eq_true]
    exact ⟨⟨any_mono plainPar_isOmpPar (ctxOK_serial_par ok this.1), this.1⟩, singleLoop_assoc this.2⟩
  | ompTask =>
    have hs := taskPlace_single (guard_accept h)
    simp only [nodeCore, Bool.and_eq_true]
    exact ⟨any_mono plainPar_isOmpPar (ctxOK_serial_par ok (any_mono single_isSerial hs)), hs⟩
  | ompLoop c =>
    obtain ⟨hg, hc⟩ := andThen_accept h
    have := guard_accept hg
    simp only [Bool.and_eq_true, Bool.not_eq_true'] at this
    obtain ⟨⟨h1, h2⟩, h3⟩ := this
    simp only [nodeCore, Bool.and_eq_true, Bool.not_eq_true']
    exact ⟨⟨h2, h3⟩, assoc_of_single_collapse h1 hc⟩
  | ompAtomic =>
    have := guard_accept h
    simpa [nodeCore] using this
  | ompSimd =>
    have := guard_accept h
    simp only [Bool.and_eq_true, Bool.not_eq_true'] at this
    simp only [nodeCore, Bool.and_eq_true, Bool.not_eq_true']
    exact ⟨singleLoop_assoc this.1, this.2⟩
  | ompDeclareTarget =>
    have := guard_accept h
    simp only [Bool.and_eq_true] at this
    simp only [nodeCore, Bool.and_eq_true]
    refine ⟨this.1, ?_⟩
    cases pos <;> simp_all
  | accParallel | accKernels | accData =>
    have := guard_accept h
    simp only [Bool.and_eq_true, Bool.not_eq_true'] at this
    simpa [nodeCore] using this.1.1.1
  | accLoop c =>
    have := guard_accept h
    simp only [Bool.and_eq_true] at this
    simp only [nodeCore, Bool.and_eq_true]
    exact ⟨this.1.1.1.1, collapseAcc_assoc _ _ _ this.1.1.1.2⟩
  | accAtomic =>
    have := guard_accept h
    simp only [Bool.and_eq_true] at this
    simpa [nodeCore] using this.1.1.1
  | accEnterData | accUpdate =>
    have := guard_accept h
    simp only [Bool.and_eq_true, Bool.not_eq_true'] at this
    simpa [nodeCore] using this.1
  | accRoutine =>
    have := guard_accept h
    simpa [nodeCore] using this

/-- One node: collapsed nests of accepted loop directives are rectangular (a). -/
theorem nodeOut_rect (ar : Env) (pos : Pos) (ctx : Ctx) (k : Kind) (body : Forest)
    (h : nodeOut ar pos ctx k body = .accept) : nodeRect k body = true := by
  cases k <;> simp only [nodeRect] <;> simp only [nodeOut] at h
  · exact collapseOmp_rect _ _ _ (andThen_accept h).2
  · exact collapseOmp_rect _ _ _ (andThen_accept h).2
  · exact collapseOmp_rect _ _ _ (andThen_accept h).2
  · exact collapseOmp_rect _ _ _ (andThen_accept h).2
  · rename_i c
    have := guard_accept h
    simp only [Bool.and_eq_true] at this
    rcases max_one_cases c with ⟨hc, _⟩ | hc
    · subst hc; simp [rectNest]
    · rw [hc] at this; exact collapseAcc_rect _ _ _ this.1.1.1.2

/-- One node: an accepted OpenACC directive has no OpenMP ancestor (b). -/
theorem nodeOut_acc_ctx (ar : Env) (pos : Pos) (ctx : Ctx) (k : Kind) (body : Forest)
    (h : nodeOut ar pos ctx k body = .accept) (hk : isAcc k = true) : ctx.any isOmp = false := by
  cases k <;> simp [isAcc] at hk <;> simp only [nodeOut] at h <;>
    have := guard_accept h <;> simp only [Bool.and_eq_true, Bool.not_eq_true'] at this
  · exact this.1.1.2
  · exact this.1.1.2
  · exact this.1.1.2
  · exact this.1.1.2
  · exact this.1.1.2
  · exact this.2
  · exact this.2
  · have h1 := this.1
    cases ctx <;> simp_all

/-- One node: an accepted OpenACC region directive contains no OpenMP directive (b). -/
theorem nodeOut_acc_body (ar : Env) (pos : Pos) (ctx : Ctx) (k : Kind) (body : Forest)
    (h : nodeOut ar pos ctx k body = .accept) (hk : isAcc k = true) (hl : isLeaf k = false) :
    containsOmp body = false := by
  cases k <;> simp [isAcc] at hk <;> simp [isLeaf] at hl <;> simp only [nodeOut] at h <;>
    have := guard_accept h <;> simp only [Bool.and_eq_true, Bool.not_eq_true'] at this <;>
    exact this.1.2

theorem containsOmp_cons_false {k : Kind} {body rest : Forest}
    (h : containsOmp (.cons k body rest) = false) :
    isOmp k = false ∧ (isLeaf k = false → containsOmp body = false) ∧ containsOmp rest = false := by
  simp only [containsOmp, Bool.or_eq_false_iff, Bool.and_eq_false_iff, Bool.not_eq_false'] at h
  refine ⟨h.1.1, ?_, h.2⟩
  intro hl
  rcases h.1.2 with h' | h'
  · rw [hl] at h'; cases h'
  · exact h'

/-- The whole forest, any context that passed its own checks. -/
theorem writerAux_spec (ar : Env) : ∀ (t : Forest) (pos : Pos) (ctx : Ctx),
    writerAux ar pos ctx t = .accept → ctxOK ctx = true →
    (ctx.any isAcc = true → containsOmp t = false) →
    coreOk ar pos ctx t = true ∧ rectOk t = true ∧ mixOk ctx t = true := by
  intro t
  induction t with
  | nil => intro pos ctx _ _ _; simp [coreOk, rectOk, mixOk]
  | cons k body rest ihb ihr =>
    intro pos ctx h ok hmix
    simp only [writerAux] at h
    obtain ⟨h1, h23⟩ := andThen_accept h
    obtain ⟨h2, h3⟩ := andThen_accept h23
    have hcore := nodeOut_core ar pos ctx k body ok h1
    have hrect := nodeOut_rect ar pos ctx k body h1
    -- the node's mixing rule
    have hnm : nodeMix ctx k = true := by
      simp only [nodeMix, Bool.and_eq_true, Bool.not_eq_true', Bool.and_eq_false_iff]
      constructor
      · cases hA : ctx.any isAcc with
        | false => exact Or.inr rfl
        | true => exact Or.inl (containsOmp_cons_false (hmix hA)).1
      · cases hk : isAcc k with
        | false => exact Or.inl rfl
        | true => exact Or.inr (nodeOut_acc_ctx ar pos ctx k body h1 hk)
    -- the following siblings
    have hrest := ihr (pos.next k) ctx h3 ok
      (fun hA => (containsOmp_cons_false (hmix hA)).2.2)
    -- the body
    cases hl : isLeaf k with
    | true =>
      simp only [coreOk, rectOk, mixOk, hl, Bool.and_eq_true, Bool.and_true]
      exact ⟨⟨hcore, hrest.1⟩, ⟨hrect, hrest.2.1⟩, ⟨hnm, hrest.2.2⟩⟩
    | false =>
      rw [hl] at h2
      have ok' : ctxOK (k :: ctx) = true := by
        simp only [ctxOK, Bool.and_eq_true]; exact ⟨nodeOut_ctxGuard h1, ok⟩
      have hbody := ihb .first (k :: ctx) h2 ok' (by
        intro hA
        simp only [List.any_cons, Bool.or_eq_true] at hA
        cases hk : isAcc k with
        | true => exact nodeOut_acc_body ar pos ctx k body h1 hk hl
        | false =>
          rw [hk] at hA
          rcases hA with hA | hA
          · cases hA
          · exact (containsOmp_cons_false (hmix hA)).2.1 hl)
      simp only [coreOk, rectOk, mixOk, hl, Bool.and_eq_true]
      exact ⟨⟨⟨hcore, hbody.1⟩, hrest.1⟩, ⟨⟨hrect, hbody.2.1⟩, hrest.2.1⟩, ⟨⟨hnm, hbody.2.2⟩, hrest.2.2⟩⟩

/-! ### the IndexError of `_validate_collapse_value` is unreachable by transformation histories -/

/-- the `c` loops the collapse check will walk through have non-empty bodies (shapes that make the
check raise `GenerationError` first are fine) -/
def chainSafe : Nat → Forest → Bool
  | 0, _ => true
  | n+1, .cons (.loop _) body .nil =>
    match body with
    | .nil => false
    | _ => chainSafe n body
  | _+1, _ => true

def collapseOf : Kind → Nat
  | .ompDo c | .ompParallelDo c | .ompTeamsDPD c | .ompLoop c => c
  | _ => 0

/-- invariant of histories: every OpenMP loop directive is safe for its collapse value -/
def safe : Forest → Bool
  | .nil => true
  | .cons k body rest => chainSafe (collapseOf k) body && safe body && safe rest

theorem chainSafe_no_crash (n d : Nat) (f : Forest) (h : chainSafe n f = true) :
    collapseOmp n d f ≠ .crash := by
  fun_induction collapseOmp n d f with
  | case1 => simp
  | case2 => simp [chainSafe] at h
  | case3 n d dep body hr hne ih =>
    apply ih
    cases body with
    | nil => exact absurd rfl hne
    | cons k b r => simpa [chainSafe] using h
  | case4 => simp
  | case5 => simp

theorem guard_ne_crash (b : Bool) : guard b ≠ .crash := by cases b <;> simp [guard]

theorem andThen_ne_crash {a b : Outcome} (ha : a ≠ .crash) (hb : b ≠ .crash) :
    a.andThen b ≠ .crash := by
  cases a <;> cases b <;> simp_all [Outcome.andThen]

theorem nodeOut_no_crash (ar : Env) (pos : Pos) (ctx : Ctx) (k : Kind) (body : Forest)
    (h : chainSafe (collapseOf k) body = true) : nodeOut ar pos ctx k body ≠ .crash := by
  cases k <;> simp only [nodeOut] <;>
    first
    | exact guard_ne_crash _
    | exact andThen_ne_crash (guard_ne_crash _) (chainSafe_no_crash _ _ _ h)
    | simp

theorem safe_no_crash (ar : Env) : ∀ (t : Forest) (pos : Pos) (ctx : Ctx), safe t = true →
    writerAux ar pos ctx t ≠ .crash := by
  intro t
  induction t with
  | nil => intro pos ctx _; simp [writerAux]
  | cons k body rest ihb ihr =>
    intro pos ctx h
    simp only [safe, Bool.and_eq_true] at h
    simp only [writerAux]
    refine andThen_ne_crash (nodeOut_no_crash ar pos ctx k body h.1.1) (andThen_ne_crash ?_ (ihr _ _ h.2))
    cases isLeaf k
    · exact ihb _ _ h.1.2
    · simp

/-- what `ParallelLoopTrans.validate` has walked through is safe for the writer -/
theorem chainLen_chainSafe : ∀ (c : Nat) (f : Forest) (m : Nat), chainLen f = some m → c ≤ m →
    chainSafe c f = true := by
  intro c
  induction c with
  | zero => intro f m _ _; simp [chainSafe]
  | succ c ih =>
    intro f m hm hc
    cases f with
    | nil => simp [chainLen] at hm; omega
    | cons k body rest =>
      cases k with
      | loop d =>
        cases rest with
        | cons k' b' r' => simp [chainSafe]
        | nil =>
          cases body with
          | nil => simp [chainLen] at hm
          | cons k2 b2 r2 =>
            simp only [chainLen, Option.map_eq_some_iff] at hm
            obtain ⟨m', hm', rfl⟩ := hm
            simp only [chainSafe]
            exact ih _ m' hm' (by omega)
      | _ => simp [chainLen] at hm; omega

/-- a local rewrite that keeps the invariant -/
def Good (g : Forest → Option Forest) : Prop :=
  ∀ f f', g f = some f' →
    f' ≠ .nil ∧ (safe f = true → safe f' = true) ∧ (∀ n, chainSafe n f = true → chainSafe n f' = true)

theorem chainSafe_of_rest_ne_nil (n : Nat) (k : Kind) (b r : Forest) (h : r ≠ .nil) :
    chainSafe n (.cons k b r) = true := by
  cases n with
  | zero => simp [chainSafe]
  | succ n =>
    cases r with
    | nil => exact absurd rfl h
    | cons k' b' r' => cases k <;> simp [chainSafe]

theorem chainSafe_of_not_loop (n : Nat) (k : Kind) (b r : Forest) (h : ∀ d, k ≠ .loop d) :
    chainSafe n (.cons k b r) = true := by
  cases n with
  | zero => simp [chainSafe]
  | succ n =>
    cases k with
    | loop d => exact absurd rfl (h d)
    | _ => simp [chainSafe]

theorem good_atSib (i : Nat) {g : Forest → Option Forest} (hg : Good g) : Good (atSib i g) := by
  induction i with
  | zero => intro f f' h; exact hg f f' (by simpa [atSib] using h)
  | succ i ih =>
    intro f f' h
    cases f with
    | nil => simp [atSib] at h
    | cons k b r =>
      simp only [atSib, Option.map_eq_some_iff] at h
      obtain ⟨r', hr', rfl⟩ := h
      obtain ⟨hne, hs, _⟩ := ih r r' hr'
      refine ⟨by simp, ?_, fun n _ => chainSafe_of_rest_ne_nil n k b r' hne⟩
      intro hsafe
      simp only [safe, Bool.and_eq_true] at hsafe ⊢
      exact ⟨hsafe.1, hs hsafe.2⟩

theorem good_inBody {g : Forest → Option Forest} (hg : Good g) : Good (inBody g) := by
  intro f f' h
  cases f with
  | nil => simp [inBody] at h
  | cons k b r =>
    simp only [inBody] at h
    split at h
    · cases h
    · simp only [Option.map_eq_some_iff] at h
      obtain ⟨b', hb', rfl⟩ := h
      obtain ⟨hne, hs, hc⟩ := hg b b' hb'
      refine ⟨by simp, ?_, ?_⟩
      · intro hsafe
        simp only [safe, Bool.and_eq_true] at hsafe ⊢
        exact ⟨⟨hc _ hsafe.1.1, hs hsafe.1.2⟩, hsafe.2⟩
      · intro n hn
        cases n with
        | zero => simp [chainSafe]
        | succ n =>
          cases k with
          | loop d =>
            cases r with
            | cons k' b2 r' => simp [chainSafe]
            | nil =>
              cases b' with
              | nil => exact absurd rfl hne
              | cons k2 b2 r2 =>
                cases b with
                | nil => simp [chainSafe] at hn
                | cons k3 b3 r3 =>
                  simp only [chainSafe] at hn ⊢
                  exact hc n hn
          | _ => simp [chainSafe]

theorem good_modifyAt (p : List Nat) {g : Forest → Option Forest} (hg : Good g) :
    Good (modifyAt p g) := by
  induction p with
  | nil => exact hg
  | cons i p ih => exact good_atSib i (good_inBody ih)

theorem safe_splitSibs : ∀ (n : Nat) (f s post : Forest), splitSibs n f = some (s, post) →
    safe f = true → safe s = true ∧ safe post = true := by
  intro n
  induction n with
  | zero => intro f s post h hs; simp [splitSibs] at h; obtain ⟨rfl, rfl⟩ := h; simp [safe, hs]
  | succ n ih =>
    intro f s post h hs
    cases f with
    | nil => simp [splitSibs] at h
    | cons k b r =>
      simp only [splitSibs, Option.map_eq_some_iff] at h
      obtain ⟨⟨s', post'⟩, hsp, heq⟩ := h
      simp only [Prod.mk.injEq] at heq
      obtain ⟨rfl, rfl⟩ := heq
      simp only [safe, Bool.and_eq_true] at hs ⊢
      obtain ⟨h1, h2⟩ := ih r s' post' hsp hs.2
      exact ⟨⟨hs.1, h1⟩, h2⟩

theorem good_wrapRegion (k : Kind) (len : Nat) : Good (wrapRegion k len) := by
  intro f f' h
  simp only [wrapRegion] at h
  split at h
  · rename_i hk
    simp only [Bool.and_eq_true] at hk
    simp only [Option.map_eq_some_iff] at h
    obtain ⟨⟨seg, post⟩, hsp, rfl⟩ := h
    have hnl : ∀ d, k ≠ .loop d := by intro d hd; subst hd; simp [isRegionKind] at hk
    have hc0 : collapseOf k = 0 := by cases k <;> simp_all [isRegionKind, collapseOf]
    refine ⟨by simp, ?_, fun n _ => chainSafe_of_not_loop n k seg post hnl⟩
    intro hs
    obtain ⟨h1, h2⟩ := safe_splitSibs _ _ _ _ hsp hs
    simp [safe, hc0, chainSafe, h1, h2]
  · cases h

theorem transCollapseOk_chainSafe {c : Nat} {f : Forest} (h : transCollapseOk c f = true) :
    chainSafe c f = true := by
  simp only [transCollapseOk, Bool.or_eq_true, Bool.and_eq_true, beq_iff_eq, decide_eq_true_eq] at h
  rcases h with rfl | ⟨_, h⟩
  · simp [chainSafe]
  · split at h
    · rename_i m hm
      exact chainLen_chainSafe c f m hm (by simpa using h)
    · cases h

theorem good_wrapLoop (k : Kind) : Good (wrapLoop k) := by
  intro f f' h
  simp only [wrapLoop] at h
  split at h
  · rename_i c d b r hk
    split at h
    · rename_i htc
      simp only [Option.some.injEq] at h
      subst h
      have hnl : ∀ d', k ≠ .loop d' := by intro d' hd; subst hd; simp [loopDirCollapse] at hk
      have hc : chainSafe (collapseOf k) (.cons (.loop d) b .nil) = true := by
        cases k <;> simp [loopDirCollapse] at hk <;> simp only [collapseOf]
        all_goals first
          | (subst hk; exact transCollapseOk_chainSafe htc)
          | simp [chainSafe]
      refine ⟨by simp, ?_, fun n _ => chainSafe_of_not_loop n k _ r hnl⟩
      intro hs
      simp only [safe, Bool.and_eq_true] at hs ⊢
      simp only [collapseOf, chainSafe] at hs
      exact ⟨⟨hc, ⟨by simp [collapseOf, chainSafe], hs.1.2⟩, trivial⟩, hs.2⟩
    · cases h
  · cases h

theorem good_insertLeaf (k : Kind) : Good (insertLeaf k) := by
  intro f f' h
  simp only [insertLeaf] at h
  split at h
  · rename_i hk
    simp only [Option.some.injEq] at h
    subst h
    have hnl : ∀ d, k ≠ .loop d := by intro d hd; subst hd; simp [isStandalone] at hk
    have hc0 : collapseOf k = 0 := by cases k <;> simp_all [isStandalone, collapseOf]
    refine ⟨by simp, ?_, fun n _ => chainSafe_of_not_loop n k .nil f hnl⟩
    intro hs
    simp [safe, hc0, chainSafe, hs]
  · cases h

theorem applyOp_safe (op : Op) (t t' : Forest) (h : applyOp op t = some t') (hs : safe t = true) :
    safe t' = true := by
  cases op with
  | region k path lo len =>
    exact (good_modifyAt path (good_atSib lo (good_wrapRegion k len)) t t' h).2.1 hs
  | loopDir k path idx =>
    exact (good_modifyAt path (good_atSib idx (good_wrapLoop k)) t t' h).2.1 hs
  | leaf k path idx =>
    exact (good_modifyAt path (good_atSib idx (good_insertLeaf k)) t t' h).2.1 hs

theorem dirFree_safe : ∀ t : Forest, dirFree t = true → safe t = true := by
  intro t
  induction t with
  | nil => intro _; simp [safe]
  | cons k body rest ihb ihr =>
    intro h
    simp only [dirFree, Bool.and_eq_true, Bool.not_eq_true', Bool.or_eq_false_iff] at h
    have hc0 : collapseOf k = 0 := by cases k <;> simp_all [isOmp, collapseOf]
    simp [safe, hc0, chainSafe, ihb h.1.2, ihr h.2]

theorem reachable_safe {t : Forest} (h : Reachable t) : safe t = true := by
  induction h with
  | start t hd => exact dirFree_safe t hd
  | step t t' op _ hap ih => exact applyOp_safe op t t' hap ih

/-! ## The property -/

/-- **Main theorem** (all trees): whatever the writer's code-generation-time checks accept satisfies
every nesting / association rule (`coreOk`: loop, worksharing, task and taskwait constructs inside a
parallel region; no nested parallel regions; no worksharing / master construct closely nested in a
worksharing / master / taskloop / task region; teams strictly inside target; nothing but
parallel/loop/simd inside an `omp loop` region and nothing but simd/loop/atomic inside a simd region;
collapse(n) and every loop-associated directive over perfectly nested loops; atomic over one update
statement; taskloop/task inside single(/master); declarative directives at the top of the routine;
no OpenACC compute/data/enter-data/update construct inside a compute construct; `acc loop` inside a
compute construct or in an `acc routine`; no compute or OpenMP construct in an `acc routine`), has
rectangular collapsed nests (`rectOk`) and does not nest OpenMP in OpenACC or vice versa (`mixOk`). -/
theorem C10_writer_guards (t : Forest) (h : writerAccepts t = true) : guardedValid t := by
  unfold writerAccepts writer at h
  have := writerAux_spec (envOf t) t .first [] (by simpa using h) rfl (by simp)
  exact this

/-- The `IndexError` of `_validate_collapse_value` (the only non-`GenerationError` exception of the
modelled checks) is the REAL outcome on some trees … -/
theorem C10_crash_exists :
    writer (.cons (.ompParallelDo 2) (.cons (.loop 0) (.cons (.loop 0) .nil .nil) .nil) .nil) = .crash := by
  decide

/-- … exactly when a loop the collapse check walks through is empty (`safe` fails) … -/
theorem C10_crash_needs_unsafe (t : Forest) (h : writer t = .crash) : safe t = false := by
  cases hs : safe t with
  | false => rfl
  | true => exact absurd h (safe_no_crash (envOf t) t .first [] hs)

/-- … in particular it needs an empty loop body … -/
theorem loopsNonEmpty_body {k : Kind} {b r : Forest} (h : loopsNonEmpty (.cons k b r) = true) :
    loopsNonEmpty b = true := by
  simp only [loopsNonEmpty, Bool.and_eq_true] at h
  exact h.1.2

theorem chainSafe_of_nonEmpty : ∀ (n : Nat) (f : Forest), loopsNonEmpty f = true → chainSafe n f = true := by
  intro n
  induction n with
  | zero => intro f _; simp [chainSafe]
  | succ n ih =>
    intro f h
    cases f with
    | nil => simp [chainSafe]
    | cons k b r =>
      cases k with
      | loop d =>
        cases r with
        | cons k' b' r' => simp [chainSafe]
        | nil =>
          cases b with
          | nil => simp [loopsNonEmpty] at h
          | cons k2 b2 r2 =>
            simp only [chainSafe]
            exact ih _ (loopsNonEmpty_body h)
      | _ => simp [chainSafe]

theorem nonEmpty_safe : ∀ t : Forest, loopsNonEmpty t = true → safe t = true := by
  intro t
  induction t with
  | nil => intro _; simp [safe]
  | cons k body rest ihb ihr =>
    intro h
    have h' := h
    simp only [loopsNonEmpty, Bool.and_eq_true] at h'
    simp only [safe, Bool.and_eq_true]
    exact ⟨⟨chainSafe_of_nonEmpty _ _ h'.1.2, ihb h'.1.2⟩, ihr h'.2⟩

theorem C10_crash_needs_empty_loop (t : Forest) (h : writer t = .crash) : loopsNonEmpty t = false := by
  cases hs : loopsNonEmpty t with
  | false => rfl
  | true =>
    have := C10_crash_needs_unsafe t h
    rw [nonEmpty_safe t hs] at this
    cases this

/-- … and **no history of accepted transformations reaches it**: for every tree obtained from a
directive-free program (empty loops allowed) by any number of region / loop-directive / stand-alone
directive insertions accepted by the transformations (`ParallelLoopTrans.validate` itself raises
`IndexError`, i.e. does not accept, when its collapse walk meets an empty loop), the writer either
accepts or raises `GenerationError`. -/
theorem C10_total (t : Forest) (h : Reachable t) : writer t = .accept ∨ writer t = .genError := by
  have := safe_no_crash (envOf t) t .first [] (reachable_safe h)
  unfold writer
  cases hw : writerAux (envOf t) .first [] t <;> simp_all

/-- The hand-written `writer` agrees with the truth table obtained by running the real
`validate_global_constraints` of every node on the catalogue of small nestings
(`Gen/Directives.lean`, regenerated from the working tree on every run). -/
theorem C10_table_agrees : Gen.tableOk writer = true := by decide +kernel

/-- The same for MODULES: `writerC` (every routine validated with its own routine-level facts, first
exception wins) agrees with the real sweep over whole Containers on the module catalogue (all ordered
pairs of 16 routine shapes — with / without `acc routine`, `declare target`, compute regions, OpenMP,
orphaned loop directives — and all triples of 6 of them), regenerated on every run. -/
theorem C10_ctable_agrees : Gen.ctableOk writerC = true := by decide +kernel

/-! ### the class catalogue (introspection of the working tree, regenerated on every run) -/

/-- every directive kind of the model, with a representative parameter -/
def allKinds : List Kind :=
  [.stmt, .astmt, .codeBlock, .block, .loop 0, .ompParallel, .ompDo 0, .ompParallelDo 0, .ompTeamsDPD 0, .ompLoop 0,
   .ompSingle false, .ompMaster, .ompTaskloop, .ompTask, .ompTaskwait, .ompTarget, .ompAtomic, .ompSimd,
   .ompDeclareTarget, .accParallel, .accKernels, .accData, .accLoop 0, .accAtomic, .accEnterData, .accUpdate,
   .accRoutine]

/-- a kind `applyOp` can insert -/
def insertable (k : Kind) : Bool := isRegionKind k || (loopDirCollapse k).isSome || isStandalone k

/-- Every `Directive` subclass found in the working tree is a model kind, or an API-specific subclass
that inherits the modelled checks unchanged (defines no `validate_global_constraints` of its own), or
one of the nine pinned base classes.  A new directive class, or a subclass that starts overriding the
checks, makes this fail. -/
theorem C10_classes_covered :
    Gen.directiveClasses.all (fun c =>
      match c.2.2.1 with
      | "kind" => c.2.2.2.isSome
      | "subclass" => c.2.2.2.isSome && c.2.1 != c.1
      | _ => ["ACCRegionDirective", "ACCStandaloneDirective", "OMPRegionDirective", "OMPSerialDirective",
              "OMPStandaloneDirective", "OMPTaskDirective", "RegionDirective", "StandaloneDirective"].contains c.1)
      = true := by decide

/-- every directive kind of the model (all kinds but statements, if-blocks and loops) is the exact
model of some class of the working tree -/
theorem C10_kinds_are_classes :
    allKinds.all (fun k => !(isOmp k || isAcc k) ||
      Gen.directiveClasses.any (fun c => c.2.2.1 == "kind" && c.2.2.2 == some k)) = true := by decide

/-- which class defines the checks each modelled class runs (a class that gains or loses its own
`validate_global_constraints` changes this list) -/
theorem C10_check_owners_pinned :
    (Gen.directiveClasses.filter (fun c => c.2.1 != c.1)).map (fun c => (c.1, c.2.1)) =
      [("DynACCEnterDataDirective", "ACCEnterDataDirective"), ("DynamicOMPTaskDirective", "OMPTaskDirective"),
       ("GOACCEnterDataDirective", "ACCEnterDataDirective"), ("OMPMasterDirective", "OMPSerialDirective"),
       ("OMPRegionDirective", "Node"), ("OMPSingleDirective", "OMPSerialDirective"),
       ("OMPStandaloneDirective", "Node"), ("OMPTargetDirective", "Node"), ("RegionDirective", "Node"),
       ("StandaloneDirective", "Node")] := by decide

/-- every directive that ANY transformation of the working tree creates (observed by applying every
generic transformation to probe programs, plus constructor calls in the source of every
transformation class, inherited through subclasses) is a kind `applyOp` inserts … -/
theorem C10_creators_modelled :
    Gen.createdKinds.all (fun p => match p.2 with
      | some k => insertable k
      | none => false) = true := by decide

/-- … and every kind `applyOp` inserts is created by a real transformation (the transformation model
has no operation without a counterpart). -/
theorem C10_ops_are_real :
    allKinds.all (fun k => !(insertable k) || Gen.createdKinds.any (fun p => p.2 == some k)) = true := by
  decide

/-- the transformations that create directives, pinned: a new directive-creating transformation
changes this list -/
theorem C10_creators_pinned :
    Gen.creators.map (·.1) =
      ["ACCDataTrans", "ACCEnterDataTrans", "ACCKernelsTrans", "ACCLoopTrans", "ACCParallelTrans",
       "ACCRoutineTrans", "ACCUpdateTrans", "Dynamo0p3OMPLoopTrans", "DynamoOMPParallelLoopTrans",
       "GOceanOMPLoopTrans", "GOceanOMPParallelLoopTrans", "OMPDeclareTargetTrans", "OMPLoopTrans",
       "OMPMasterTrans", "OMPParallelLoopTrans", "OMPParallelTrans", "OMPSingleTrans", "OMPTargetTrans",
       "OMPTaskTrans", "OMPTaskloopTrans", "OMPTaskwaitTrans"] := by decide

/-- The full statement of the property on the model. -/
def C10_statement : Prop := ∀ t, writerAccepts t = true → specValid t

open Kind Forest in
/-- `!$omp parallel` / `!$omp single nowait`: accepted; the writer prints `nowait` on the opening
line, which is not Fortran OpenMP 4.5 syntax (gfortran 12: "Failed to match clause"). -/
def witnessNowait : Forest :=
  cons ompParallel (cons (ompSingle true) (cons stmt nil nil) nil) nil

/-- Known finding C10-single-nowait-placement: the full statement fails on the model. -/
theorem C10_counterexample_nowait : ¬ C10_statement := by
  intro h
  have := h witnessNowait (by decide)
  exact absurd this.2 (by decide)

/-- What is proved instead of `C10_statement`: outside that finding class (side condition decidable
and satisfiable, see the examples) accepted trees satisfy the whole specification. -/
theorem C10_writer_guards_partial (t : Forest) (h : writerAccepts t = true)
    (hnw : nowaitOk t = true) : specValid t :=
  ⟨C10_writer_guards t h, hnw⟩

/-! ## The property for modules with several routines

`Container` = list of routines, each validated with its own routine-level facts; histories apply
each transformation to one routine (`COp`). -/

theorem writerC_accept_iff (c : Container) :
    writerC c = .accept ↔ ∀ r, r ∈ c → writer r = .accept := by
  induction c with
  | nil => simp [writerC]
  | cons r rs ih =>
    simp only [writerC, List.mem_cons, forall_eq_or_imp]
    constructor
    · intro h
      obtain ⟨h1, h2⟩ := andThen_accept h
      exact ⟨h1, ih.mp h2⟩
    · intro ⟨h1, h2⟩
      rw [h1, ih.mpr h2]; rfl

/-- **Main theorem, multi-routine form**: if the writer accepts a module, every routine satisfies the
nesting / association / rectangularity / no-mixing rules, each with respect to ITS OWN routine-level
facts (`envOf r`): an orphaned `acc loop` needs the `acc routine` directive of the routine it is in,
`acc routine` constrains the routine it is in. -/
theorem C10_container_guards (c : Container) (h : writerAcceptsC c = true) : guardedValidC c := by
  intro r hr
  have h' : writerC c = .accept := by simpa [writerAcceptsC] using h
  exact C10_writer_guards r (by simp [writerAccepts, (writerC_accept_iff c).mp h' r hr])

theorem C10_container_guards_partial (c : Container) (h : writerAcceptsC c = true)
    (hnw : nowaitOkC c = true) : specValidC c := by
  intro r hr
  refine ⟨C10_container_guards c h r hr, ?_⟩
  simp only [nowaitOkC, List.all_eq_true] at hnw
  exact hnw r hr

/-- the Boolean container verdicts the driver prints are the per-routine rules -/
theorem guardedValidC_iff (c : Container) :
    guardedValidC c ↔ (coreOkC c = true ∧ rectOkC c = true ∧ mixOkC c = true) := by
  simp only [guardedValidC, guardedValid, coreOkC, rectOkC, mixOkC, List.all_eq_true]
  constructor
  · intro h; exact ⟨fun r hr => (h r hr).1, fun r hr => (h r hr).2.1, fun r hr => (h r hr).2.2⟩
  · intro ⟨h1, h2, h3⟩ r hr; exact ⟨h1 r hr, h2 r hr, h3 r hr⟩

/-- a step changes exactly one routine, by an accepted single-routine transformation -/
theorem modifyNth_mem {g : Forest → Option Forest} : ∀ (i : Nat) (c c' : Container),
    modifyNth i g c = some c' → ∀ r', r' ∈ c' → r' ∈ c ∨ ∃ r, r ∈ c ∧ g r = some r' := by
  intro i c
  induction c generalizing i with
  | nil => intro c' h; simp [modifyNth] at h
  | cons r rs ih =>
    intro c' h r' hr'
    cases i with
    | zero =>
      simp only [modifyNth, Option.map_eq_some_iff] at h
      obtain ⟨r2, hg, rfl⟩ := h
      simp only [List.mem_cons] at hr'
      rcases hr' with rfl | hr'
      · exact Or.inr ⟨r, by simp, hg⟩
      · exact Or.inl (by simp [hr'])
    | succ i =>
      simp only [modifyNth, Option.map_eq_some_iff] at h
      obtain ⟨rs', hm, rfl⟩ := h
      simp only [List.mem_cons] at hr'
      rcases hr' with rfl | hr'
      · exact Or.inl (by simp)
      · rcases ih i rs' hm r' hr' with h1 | ⟨r2, h2, h3⟩
        · exact Or.inl (by simp [h1])
        · exact Or.inr ⟨r2, by simp [h2], h3⟩

/-- every routine of a reachable module is reachable by a single-routine history -/
theorem reachableC_each {c : Container} (h : ReachableC c) : ∀ r, r ∈ c → Reachable r := by
  induction h with
  | start c hd =>
    intro r hr
    exact .start r (List.all_eq_true.mp hd r hr)
  | step c c' o _ hap ih =>
    intro r' hr'
    rcases modifyNth_mem o.ri c c' hap r' hr' with h1 | ⟨r, h2, h3⟩
    · exact ih r' h1
    · exact .step r r' o.op (ih r h2) h3

theorem writerC_ne_crash (c : Container) (h : ∀ r, r ∈ c → writer r ≠ .crash) :
    writerC c ≠ .crash := by
  induction c with
  | nil => simp [writerC]
  | cons r rs ih =>
    simp only [writerC]
    exact andThen_ne_crash (h r (by simp)) (ih (fun r' hr' => h r' (by simp [hr'])))

/-- **Totality, multi-routine form**: for every module reachable from a directive-free module by any
interleaving of accepted transformations on any of its routines, the writer accepts or raises
`GenerationError`. -/
theorem C10_container_total (c : Container) (h : ReachableC c) :
    writerC c = .accept ∨ writerC c = .genError := by
  have := writerC_ne_crash c (fun r hr => by
    have := C10_total r (reachableC_each h r hr)
    rcases this with h1 | h1 <;> simp [h1])
  cases hw : writerC c <;> simp_all

/-- **Frame**: a transformation on routine `i` leaves every other routine of the module untouched … -/
theorem C10_step_frame (g : Forest → Option Forest) : ∀ (i : Nat) (c c' : Container),
    modifyNth i g c = some c' → c'.length = c.length ∧ ∀ j, j ≠ i → c'[j]? = c[j]? := by
  intro i c
  induction c generalizing i with
  | nil => intro c' h; simp [modifyNth] at h
  | cons r rs ih =>
    intro c' h
    cases i with
    | zero =>
      simp only [modifyNth, Option.map_eq_some_iff] at h
      obtain ⟨r2, _, rfl⟩ := h
      refine ⟨by simp, ?_⟩
      intro j hj
      cases j with
      | zero => exact absurd rfl hj
      | succ j => simp
    | succ i =>
      simp only [modifyNth, Option.map_eq_some_iff] at h
      obtain ⟨rs', hm, rfl⟩ := h
      obtain ⟨hl, hf⟩ := ih i rs' hm
      refine ⟨by simp [hl], ?_⟩
      intro j hj
      cases j with
      | zero => simp
      | succ j => simpa using hf j (by omega)

/-- … hence the writer's verdict on every other routine is unchanged: validity is a per-routine
matter, no transformation of routine `i` can make (or break) the directives of routine `j`. -/
theorem C10_step_local (o : COp) (c c' : Container) (h : applyCOp o c = some c') (j : Nat)
    (hj : j ≠ o.ri) : (c'[j]?).map writer = (c[j]?).map writer := by
  rw [(C10_step_frame _ o.ri c c' h).2 j hj]

/-! ### the cross-routine leak: a weakened lookup (whole tree instead of enclosing routine) -/

open Kind Forest in
/-- module with two routines: `acc routine` in the first, an orphaned `acc loop` (no parallel /
kernels region, routine not an `acc routine`) in the second -/
def witnessLeak : Container :=
  [cons accRoutine nil (cons (loop 0) (cons stmt nil nil) nil),
   cons (accLoop 0) (cons (loop 0) (cons stmt nil nil) nil) nil]

open Kind Forest in
/-- it is produced by two accepted transformations on DIFFERENT routines of a directive-free module
(`ACCRoutineTrans` on routine 0, `ACCLoopTrans` on the loop of routine 1) -/
theorem witnessLeak_reachable : ReachableC witnessLeak :=
  .step [cons accRoutine nil (cons (loop 0) (cons stmt nil nil) nil), cons (loop 0) (cons stmt nil nil) nil] _
    ⟨1, .loopDir (accLoop 0) [] 0⟩
    (.step [cons (loop 0) (cons stmt nil nil) nil, cons (loop 0) (cons stmt nil nil) nil] _
      ⟨0, .leaf accRoutine [] 0⟩ (.start _ (by decide)) (by decide))
    (by decide)

/-- the code's per-routine rule refuses it … -/
theorem C10_leak_refused : writerC witnessLeak = .genError := by decide

/-- … **the weakened rule accepts it although it is invalid**: `guardedValidC` cannot be proved for a
writer whose `acc routine` lookup searches the whole tree. -/
theorem C10_leak_counterexample :
    writerLeakC witnessLeak = .accept ∧ ¬ guardedValidC witnessLeak := by
  refine ⟨by decide, ?_⟩
  intro h
  have := (guardedValidC_iff witnessLeak).mp h
  exact absurd this.1 (by decide)

open Kind Forest in
/-- routine with an orphaned `acc loop` -/
def orphanAccLoop : Forest := cons (accLoop 0) (cons (loop 0) (cons stmt nil nil) nil) nil

/-- The weakened rule is not local either: a step on routine 0 (inserting `acc routine`) flips the
verdict on routine 1, which `C10_step_local` excludes for the code's rule. -/
theorem C10_leak_not_local :
    writerLeakC [.cons .stmt .nil .nil, orphanAccLoop] = .genError ∧
    applyCOp ⟨0, .leaf .accRoutine [] 0⟩ [.cons .stmt .nil .nil, orphanAccLoop]
      = some [.cons .accRoutine .nil (.cons .stmt .nil .nil), orphanAccLoop] ∧
    writerLeakC [.cons .accRoutine .nil (.cons .stmt .nil .nil), orphanAccLoop] = .accept ∧
    writerC [.cons .accRoutine .nil (.cons .stmt .nil .nil), orphanAccLoop] = .genError := by
  decide

/-- On a module with ONE routine the weakened rule and the code's rule coincide: no single-routine
input family can tell them apart (why the seeded change C10-3 needed multi-routine inputs). -/
theorem C10_leak_invisible_single (r : Forest) : writerLeakC [r] = writerC [r] := by
  simp only [writerLeakC, writerLeakAux, writerC, writer, leakEnv, envOf, List.any_cons, List.any_nil,
    Bool.or_false]

/-! ## non-vacuity and sanity evaluations -/
section examples
open Kind Forest

/-- a 2-deep perfect nest with one statement -/
def nest2 : Forest := cons (loop 0) (cons (loop 0) (cons stmt nil nil) nil) nil
/-- `do k; do j; s; enddo; s; enddo` -/
def imperfect : Forest := cons (loop 0) (cons (loop 0) (cons stmt nil nil) (cons stmt nil nil)) nil
/-- `do i; do j = 1, i; s` -/
def triangular : Forest := cons (loop 0) (cons (loop 1) (cons stmt nil nil) nil) nil

/-- a valid `parallel { do collapse(2) }` nest is accepted and satisfies the whole spec
(hypotheses of `C10_writer_guards` and `C10_writer_guards_partial` are satisfiable). -/
example : writerAccepts (cons ompParallel (cons (ompDo 2) nest2 nil) nil) = true := by decide
example : nowaitOk (cons ompParallel (cons (ompDo 2) nest2 nil) nil) = true := by decide
example : writerAccepts (cons accParallel (cons (accLoop 2) nest2 nil) nil) = true := by decide
example : writerAccepts (cons ompParallel (cons (ompSingle false) (cons ompTaskloop nest2 nil) nil) nil) = true := by
  decide
example : writerAccepts (cons ompParallel (cons (ompSingle false) (cons ompTask nest2 nil) nil) nil) = true := by
  decide
example : writerAccepts (cons ompTarget (cons (ompTeamsDPD 2) nest2 nil) nil) = true := by decide
example : writerAccepts (cons accRoutine nil (cons (accLoop 0) nest2 nil)) = true := by decide
example : writerAccepts (cons ompDeclareTarget nil (cons accRoutine nil nest2)) = true := by decide
example : writerAccepts (cons (ompParallelDo 0) (cons (loop 0) (cons ompAtomic (cons astmt nil nil) nil) nil) nil)
    = true := by decide
-- the three histories probed while designing the check are refused
/-- orphan `omp do` inside a `parallel do` on the outer loop -/
example : writer (cons (ompParallelDo 0) (cons (loop 0) (cons (ompDo 0) nest2 nil) nil) nil)
    = .genError := by decide
/-- `parallel` around a `parallel do` -/
example : writer (cons ompParallel (cons (ompParallelDo 0) nest2 nil) nil) = .genError := by decide
/-- `collapse(2)` over a nest made imperfect -/
example : writer (cons ompParallel (cons (ompDo 2) imperfect nil) nil) = .genError := by decide
-- refusals added by the committed fixes
example : writer (cons ompParallel (cons (ompDo 0) (cons (loop 0) (cons (ompDo 0) nest2 nil) nil) nil) nil)
    = .genError := by decide
example : writer (cons ompParallel (cons (ompLoop 2) imperfect nil) nil) = .genError := by decide
example : writer (cons accParallel (cons (accLoop 2) imperfect nil) nil) = .genError := by decide
example : writer (cons accParallel (cons accKernels nest2 nil) nil) = .genError := by decide
-- refusals added by the candidate fixes (a)–(d): the former known findings and the new kinds
example : writer (cons (ompParallelDo 2) triangular nil) = .genError := by decide
example : writer (cons accParallel (cons (accLoop 2) triangular nil) nil) = .genError := by decide
example : writer (cons accParallel (cons (ompParallelDo 0) nest2 nil) nil) = .genError := by decide
example : writer (cons ompParallel (cons accKernels nest2 nil) nil) = .genError := by decide
example : writer (cons ompTarget (cons (ompLoop 0) (cons (loop 0) (cons (ompTeamsDPD 0) nest2 nil) nil) nil) nil)
    = .genError := by decide
example : writer (cons ompSimd (cons (loop 0) (cons ompTarget nest2 nil) nil) nil) = .genError := by decide
example : writer (cons stmt nil (cons accRoutine nil nest2)) = .genError := by decide
example : writer (cons accRoutine nil (cons accParallel nest2 nil)) = .genError := by decide
example : writer (cons accKernels (cons accUpdate nil nest2) nil) = .genError := by decide
-- the spec rejects what the writer rejects here, and more
example : coreOk ⟨false, false⟩ .first [] (cons (ompDo 0) nest2 nil) = false := by decide
example : rectOk (cons (ompParallelDo 2) triangular nil) = false := by decide
example : mixOk [] (cons accParallel (cons (ompParallelDo 0) nest2 nil) nil) = false := by decide
example : nowaitOk witnessNowait = false := by decide
-- transformations: a history and its result; the collapse walk refuses an empty loop
example : applyOp (.loopDir (ompDo 2) [] 0) nest2 = some (cons (ompDo 2) nest2 nil) := by decide
example : applyOp (.region ompParallel [] 0 1) (cons (ompDo 2) nest2 nil)
    = some (cons ompParallel (cons (ompDo 2) nest2 nil) nil) := by decide
example : applyOp (.loopDir (ompDo 2) [] 0) (cons (loop 0) (cons (loop 0) nil nil) nil) = none := by decide
example : Reachable (cons ompParallel (cons (ompDo 2) nest2 nil) nil) :=
  .step (cons (ompDo 2) nest2 nil) _ (.region ompParallel [] 0 1)
    (.step nest2 _ (.loopDir (ompDo 2) [] 0) (.start nest2 (by decide)) (by decide)) (by decide)
-- modules with several routines
example : writerAcceptsC [cons accRoutine nil (cons (accLoop 0) nest2 nil), cons accParallel (cons (accLoop 2) nest2 nil) nil]
    = true := by decide
example : nowaitOkC [cons accRoutine nil (cons (accLoop 0) nest2 nil), cons accParallel (cons (accLoop 2) nest2 nil) nil]
    = true := by decide
example : writerC [cons accRoutine nil nest2, cons (accLoop 0) nest2 nil] = .genError := by decide
example : writerC [cons accParallel nest2 nil, cons accRoutine nil nest2] = .accept := by decide
example : writerC [cons accParallel nest2 nil, cons accRoutine nil (cons accParallel nest2 nil)] = .genError := by decide
example : applyCOp ⟨1, .loopDir (accLoop 0) [] 0⟩ [nest2, nest2] = some [nest2, cons (accLoop 0) nest2 nil] := by decide
example : applyCOp ⟨2, .loopDir (accLoop 0) [] 0⟩ [nest2, nest2] = none := by decide
example : hasAccRoutine (cons accRoutine nil nest2) = true ∧ hasAccRoutine nest2 = false := by decide
example : hasDeclareTarget (cons ompDeclareTarget nil nest2) = true := by decide
end examples

end C10
