import PsyVerif.Model.Directives
import PsyVerif.Gen.Directives
/-! # C10 — Directive trees produced by accepted transformations are valid

Model: `PsyVerif/Model/Directives.lean` (`writer` mirrors the `validate_global_constraints` of every
OpenMP/OpenACC directive node as run by the PSyIR visitor, WITH the fixes `fixes/C10-*.patch`).
Quantification: every statement forest over the modelled node kinds — any depth, any width, any
collapse values — hence every tree any history of transformations can build, without modelling the
transformations themselves. -/
namespace C10

/-! ## helper lemmas -/

theorem andThen_accept {a b : Outcome} (h : a.andThen b = .accept) : a = .accept ∧ b = .accept := by
  cases a <;> cases b <;> simp_all [Outcome.andThen]

theorem guard_accept {b : Bool} (h : guard b = .accept) : b = true := by
  cases b <;> simp_all [guard]

theorem closelyIn_any {p : Kind → Bool} {ctx : Ctx} (h : closelyIn p ctx = true) :
    ctx.any p = true := by
  induction ctx with
  | nil => simp [closelyIn] at h
  | cons a rest ih =>
    simp only [closelyIn, Bool.or_eq_true, Bool.and_eq_true] at h
    simp only [List.any_cons, Bool.or_eq_true]
    rcases h with h | ⟨_, h⟩
    · exact Or.inl h
    · exact Or.inr (ih h)

theorem not_closelyIn_of_not_any {p : Kind → Bool} {ctx : Ctx} (h : ctx.any p = false) :
    closelyIn p ctx = false := by
  cases hc : closelyIn p ctx with
  | false => rfl
  | true => rw [closelyIn_any hc] at h; cases h

theorem any_mono {p q : Kind → Bool} (hpq : ∀ a, p a = true → q a = true) {ctx : Ctx}
    (h : ctx.any p = true) : ctx.any q = true := by
  rw [List.any_eq_true] at h ⊢
  obtain ⟨a, ha, hp⟩ := h
  exact ⟨a, ha, hpq a hp⟩

theorem any_false_mono {p q : Kind → Bool} (hpq : ∀ a, p a = true → q a = true) {ctx : Ctx}
    (h : ctx.any q = false) : ctx.any p = false := by
  cases hc : ctx.any p with
  | false => rfl
  | true => rw [any_mono hpq hc] at h; cases h

theorem plainPar_isOmpPar (a : Kind) (h : isPlainPar a = true) : isOmpPar a = true := by
  cases a <;> simp_all [isPlainPar, isOmpPar]

theorem singleLoop_assoc {body : Forest} (h : singleLoop body = true) : assocLoops 1 body = true := by
  unfold singleLoop at h
  split at h
  · simp [assocLoops]
  · cases h

/-- `_validate_collapse_value` accepting means the collapsed loops are perfectly nested. -/
theorem collapseOmp_assoc (n : Nat) (body : Forest) (h : collapseOmp n body = .accept) :
    assocLoops n body = true := by
  fun_induction collapseOmp n body with
  | case1 => simp [assocLoops]
  | case2 => cases h
  | case3 n d body hne ih => simp only [assocLoops]; exact ih h
  | case4 => cases h

theorem collapseAcc_assoc (n : Nat) (body : Forest) (h : collapseAcc n body = true) :
    assocLoops n body = true := by
  fun_induction collapseAcc n body with
  | case1 => simp [assocLoops]
  | case2 n d body ih => simp only [assocLoops]; exact ih h
  | case3 => cases h

/-- single loop + collapse check ⇒ `max c 1` perfectly nested loops. -/
theorem assoc_of_single_collapse {c : Nat} {body : Forest} (hs : singleLoop body = true)
    (hc : collapseOmp c body = .accept) : assocLoops (max c 1) body = true := by
  cases c with
  | zero => exact singleLoop_assoc hs
  | succ c =>
    have : max (c + 1) 1 = c + 1 := by omega
    rw [this]; exact collapseOmp_assoc _ _ hc

/-- One node: what `validate_global_constraints` accepts satisfies the core rules. -/
theorem nodeOut_core (ctx : Ctx) (k : Kind) (body : Forest) (h : nodeOut ctx k body = .accept) :
    nodeCore ctx k body = true := by
  cases k with
  | stmt | block | loop | ompTarget | accEnterData => simp [nodeCore]
  | ompTaskwait =>
    have := guard_accept h
    simp only [nodeCore]
    exact any_mono plainPar_isOmpPar this
  | ompSingle =>
    have := guard_accept h
    simp only [Bool.and_eq_true, Bool.not_eq_true'] at this
    obtain ⟨⟨h1, h2⟩, h3⟩ := this
    simp only [nodeCore, Bool.and_eq_true, Bool.not_eq_true']
    refine ⟨any_mono plainPar_isOmpPar h1, not_closelyIn_of_not_any ?_⟩
    rw [List.any_eq_false] at h2 h3 ⊢
    intro a ha
    have := h2 a ha; have := h3 a ha
    simp_all
  | ompMaster =>
    have := guard_accept h
    simp only [Bool.and_eq_true, Bool.not_eq_true'] at this
    obtain ⟨⟨h1, h2⟩, h3⟩ := this
    simp only [nodeCore, Bool.and_eq_true, Bool.not_eq_true']
    refine ⟨any_mono plainPar_isOmpPar h1, not_closelyIn_of_not_any ?_⟩
    rw [List.any_eq_false] at h2 h3 ⊢
    intro a ha
    have := h2 a ha; have := h3 a ha
    cases a <;> simp_all [isSerial, isDoLike, isTaskloop]
  | ompParallel =>
    have := guard_accept h
    simpa [nodeCore] using this
  | ompParallelDo c =>
    obtain ⟨hg, hc⟩ := andThen_accept h
    have := guard_accept hg
    simp only [Bool.and_eq_true, Bool.not_eq_true'] at this
    simp only [nodeCore, Bool.and_eq_true, Bool.not_eq_true']
    exact ⟨this.1, assoc_of_single_collapse this.2 hc⟩
  | ompDo c =>
    obtain ⟨hg, hc⟩ := andThen_accept h
    have := guard_accept hg
    simp only [Bool.and_eq_true, Bool.not_eq_true'] at this
    obtain ⟨⟨h1, h2⟩, h3⟩ := this
    simp only [nodeCore, Bool.and_eq_true, Bool.not_eq_true']
    exact ⟨⟨any_mono plainPar_isOmpPar h1, not_closelyIn_of_not_any h2⟩,
           assoc_of_single_collapse h3 hc⟩
  | ompTaskloop =>
    have := guard_accept h
    simp only [Bool.and_eq_true] at this
    simp only [nodeCore, Bool.and_eq_true]
    exact ⟨this.1, singleLoop_assoc this.2⟩
  | ompLoop c =>
    obtain ⟨hg, hc⟩ := andThen_accept h
    have := guard_accept hg
    simp only [Bool.and_eq_true, Bool.not_eq_true'] at this
    obtain ⟨⟨h1, h2⟩, h3⟩ := this
    simp only [nodeCore, Bool.and_eq_true, Bool.not_eq_true']
    exact ⟨⟨h2, h3⟩, assoc_of_single_collapse h1 hc⟩
  | accParallel | accKernels | accData =>
    have := guard_accept h
    simpa [nodeCore] using this
  | accLoop c =>
    have := guard_accept h
    simp only [Bool.and_eq_true] at this
    simp only [nodeCore, Bool.and_eq_true]
    exact ⟨this.1, collapseAcc_assoc _ _ this.2⟩

theorem writer_core : ∀ (t : Forest) (ctx : Ctx), writer ctx t = .accept → coreOk ctx t = true := by
  intro t
  induction t with
  | nil => intro ctx _; simp [coreOk]
  | cons k body rest ihb ihr =>
    intro ctx h
    simp only [writer] at h
    obtain ⟨h1, h23⟩ := andThen_accept h
    obtain ⟨h2, h3⟩ := andThen_accept h23
    simp only [coreOk, Bool.and_eq_true]
    exact ⟨⟨nodeOut_core ctx k body h1, ihb _ h2⟩, ihr _ h3⟩

theorem collapseOmp_no_crash (n : Nat) (body : Forest) (hne : loopsNonEmpty body = true) :
    collapseOmp n body ≠ .crash := by
  fun_induction collapseOmp n body with
  | case1 => simp
  | case2 => simp [loopsNonEmpty] at hne
  | case3 n d body hb ih =>
    apply ih
    simp only [loopsNonEmpty, Bool.and_eq_true] at hne
    exact hne.1.2
  | case4 => simp

theorem guard_ne_crash (b : Bool) : guard b ≠ .crash := by cases b <;> simp [guard]

theorem andThen_ne_crash {a b : Outcome} (ha : a ≠ .crash) (hb : b ≠ .crash) :
    a.andThen b ≠ .crash := by
  cases a <;> cases b <;> simp_all [Outcome.andThen]

theorem nodeOut_no_crash (ctx : Ctx) (k : Kind) (body : Forest) (h : loopsNonEmpty body = true) :
    nodeOut ctx k body ≠ .crash := by
  cases k <;> simp only [nodeOut] <;>
    first
    | exact guard_ne_crash _
    | exact andThen_ne_crash (guard_ne_crash _) (collapseOmp_no_crash _ _ h)
    | simp

theorem writer_no_crash : ∀ (t : Forest) (ctx : Ctx), loopsNonEmpty t = true →
    writer ctx t ≠ .crash := by
  intro t
  induction t with
  | nil => intro ctx _; simp [writer]
  | cons k body rest ihb ihr =>
    intro ctx h
    simp only [loopsNonEmpty, Bool.and_eq_true] at h
    simp only [writer]
    exact andThen_ne_crash (nodeOut_no_crash ctx k body h.1.2)
      (andThen_ne_crash (ihb _ h.1.2) (ihr _ h.2))

/-! ## The property -/

/-- **Main theorem** (all trees, all depths/widths/collapse values): whatever the writer's
code-generation-time checks accept satisfies every core nesting / association rule — loop and
worksharing directives inside a parallel region, no nested parallel regions, no worksharing /
master construct closely nested in a worksharing / master / taskloop region, nothing but
parallel/loop inside an `omp loop` region, collapse(n) and every loop-associated directive over
perfectly nested loops, taskloop inside single/master, no OpenACC compute/data construct inside a
compute construct, `acc loop` inside a compute construct. -/
theorem C10_writer_guards (t : Forest) (h : writerAccepts t = true) : coreValid t := by
  unfold writerAccepts at h
  exact writer_core t [] (by simpa using h)

/-- The writer's outcome on the modelled node set is acceptance or a `GenerationError`; the only
other exception (`IndexError` in `_validate_collapse_value`) needs a collapsed loop with an empty
body, which no transformation history produces. -/
theorem C10_total (t : Forest) (h : loopsNonEmpty t = true) :
    writer [] t = .accept ∨ writer [] t = .genError := by
  have := writer_no_crash t [] h
  cases hw : writer [] t <;> simp_all

/-- The hand-written `writer` agrees with the truth table obtained by running the real
`validate_global_constraints` of every node on the catalogue of small nestings
(`Gen/Directives.lean`, regenerated from the working tree on every run). -/
theorem C10_table_agrees : Gen.tableOk (fun t => writer [] t) = true := by decide +kernel

/-- The full statement of the property on the model: accepted ⇒ core rules ∧ rectangular collapsed
nests ∧ no OpenMP/OpenACC mixing. -/
def C10_statement : Prop := ∀ t, writerAccepts t = true → specValid t

open Kind Forest in
/-- `!$omp parallel do collapse(2)` over `do i / do j = 1, i`: accepted, not rectangular. -/
def witnessRect : Forest :=
  cons (ompParallelDo 2) (cons (loop 0) (cons (loop 1) (cons stmt nil nil) nil) nil) nil

open Kind Forest in
/-- `!$acc parallel` around `!$omp parallel do`: accepted, mixes the two APIs. -/
def witnessMix : Forest :=
  cons accParallel (cons (ompParallelDo 0) (cons (loop 0) (cons stmt nil nil) nil) nil) nil

/-- Known finding C10-collapse-nonrectangular: the statement fails on the model. -/
theorem C10_counterexample_rect : ¬ C10_statement := by
  intro h
  have := h witnessRect (by decide)
  exact absurd this.2.1 (by decide)

/-- Known finding C10-omp-acc-mixing: a second, independent counterexample. -/
theorem C10_counterexample_mix : writerAccepts witnessMix = true ∧ ¬ specValid witnessMix := by
  refine ⟨by decide, fun h => absurd h.2.2 (by decide)⟩

/-- What is proved instead of `C10_statement`: outside the two finding classes (side conditions
decidable and satisfiable, see the examples) accepted trees satisfy the whole specification. -/
theorem C10_writer_guards_partial (t : Forest) (h : writerAccepts t = true)
    (hrect : rectOk t = true) (hmix : mixOk [] t = true) : specValid t :=
  ⟨C10_writer_guards t h, hrect, hmix⟩

/-! ## non-vacuity and sanity evaluations -/
section examples
open Kind Forest

/-- a 2-deep perfect nest with one statement -/
def nest2 : Forest := cons (loop 0) (cons (loop 0) (cons stmt nil nil) nil) nil
/-- `do k; do j; s; enddo; s; enddo` -/
def imperfect : Forest := cons (loop 0) (cons (loop 0) (cons stmt nil nil) (cons stmt nil nil)) nil

/-- a valid `parallel { do collapse(2) }` nest is accepted and satisfies the whole spec
(hypotheses of `C10_writer_guards` and `C10_writer_guards_partial` are satisfiable). -/
example : writerAccepts (cons ompParallel (cons (ompDo 2) nest2 nil) nil) = true := by decide
example : coreOk [] (cons ompParallel (cons (ompDo 2) nest2 nil) nil) = true
    ∧ rectOk (cons ompParallel (cons (ompDo 2) nest2 nil) nil) = true
    ∧ mixOk [] (cons ompParallel (cons (ompDo 2) nest2 nil) nil) = true := by decide
example : loopsNonEmpty (cons ompParallel (cons (ompDo 2) nest2 nil) nil) = true := by decide
example : writerAccepts (cons accParallel (cons (accLoop 2) nest2 nil) nil) = true := by decide
example : writerAccepts (cons ompParallel (cons ompSingle (cons ompTaskloop nest2 nil) nil) nil) = true := by
  decide
-- the three probed histories are refused
/-- orphan `omp do` inside a `parallel do` on the outer loop -/
example : writer [] (cons (ompParallelDo 0) (cons (loop 0) (cons (ompDo 0) nest2 nil) nil) nil)
    = .genError := by decide
/-- `parallel` around a `parallel do` -/
example : writer [] (cons ompParallel (cons (ompParallelDo 0) nest2 nil) nil) = .genError := by decide
/-- `collapse(2)` over a nest made imperfect -/
example : writer [] (cons ompParallel (cons (ompDo 2) imperfect nil) nil) = .genError := by decide
-- refusals added by the fixes
example : writer [] (cons ompParallel (cons (ompDo 0) (cons (loop 0) (cons (ompDo 0) nest2 nil) nil) nil) nil)
    = .genError := by decide
example : writer [] (cons ompParallel (cons (ompLoop 2) imperfect nil) nil) = .genError := by decide
example : writer [] (cons accParallel (cons (accLoop 2) imperfect nil) nil) = .genError := by decide
example : writer [] (cons accParallel (cons accKernels nest2 nil) nil) = .genError := by decide
example : writer [] (cons ompParallel (cons ompSingle (cons ompTaskloop (cons ompTaskloop nest2 nil) nil) nil) nil)
    = .genError := by decide
-- the IndexError case
example : writer [] (cons (ompParallelDo 2) (cons (loop 0) (cons (loop 0) nil nil) nil) nil) = .crash := by
  decide
-- the spec rejects what the writer rejects here, and more
example : coreOk [] (cons (ompDo 0) nest2 nil) = false := by decide
example : rectOk witnessRect = false := by decide
example : mixOk [] witnessMix = false := by decide
end examples

end C10
