import PsyVerif.Lemmas.DepPart
import PsyVerif.Lemmas.DepWhile
import PsyVerif.Lemmas.DepSig
/-! # C08 — loops reported parallelisable have no loop-carried dependence

Model: `PsyVerif/Model/DepTools.lean` mirrors `DependencyTools.can_loop_be_parallelised` on MiniF loops
(`_partition`, `_independent_0_var`, `_get_dependency_distance`, `_independent_multi_subscript`,
`_is_loop_carried_dependency`, `_array_access_parallelisable`, `_is_scalar_parallelisable`, message codes) in
FIXED mode: fixes/C08-dvar-loop (name loop), C08-integer-division, C08-symbolic-coefficient, C08-stale-subscript,
C08-inner-variable-subscript.  Per-iteration footprints are the element-level events of the tracing semantics
`execT` (`execT_agrees` ties it to `MiniF.exec`).

* `C08_partial` / `C08_sequential`: "parallelisable" implies no loop-carried conflict, for ALL subscript forms of
  MiniF (affine `c·i + d` with symbolic `d`, several loop variables and subscripts through the partition logic,
  `/`, MOD, index arrays, products), all values of the symbols, all stores, all trip counts — under the single
  decidable side condition `ScalarsUnconditional` (plus the Fortran well-formedness `WellFormed`).
* That side condition is needed: `conditional_scalar_counterexample`, `C08_counterexample : ¬ C08_statement`
  (known finding C08-conditional-scalar, pinned by `test_scalar_parallelise`).
* The four repaired classes: `intdiv_refused`, `stale_subscript_refused`, `inner_variable_refused`,
  `symbolic_coefficient_refused` (the conflict is real and the fixed analysis refuses the loop).
* Termination: `depDistance_terminates` / `C08_terminates` (fixed `d_<var>` loop, fuel = |symbol map| + 1),
  `dvar_loop_diverges` / `dvar_loop_trace` (the pinned loop spins on `{d_i, d1_i}`), `partition_terminates`
  (the literal `while` loop of `_partition` with fuel `len + 1` computes the partition the proofs use).
* Structure members: the variable ids are SIGNATURES (`Model/DepSig.lean`: `cfg%off`, `p(i)%x`, `g%a(i)`);
  `C08_partial_sig` restates `C08_partial` for signature-level storage under the checked precondition `sigTabOk`
  (no access to a whole structure next to one of its members); `member_stale_refused` /
  `stale_by_name_counterexample`: the modified-subscript-variable test must compare FULL signatures. -/
namespace C08
open MiniF

/-! ## helper lemmas: accesses -/

theorem exprAcc_read (c : Bool) (e : Expr) : ∀ a ∈ exprAcc c e, a.write = false ∧ a.subs.length ≤ 2 := by
  induction e with
  | lit n => intro a h; simp [exprAcc] at h
  | var x => intro a h; simp only [exprAcc, List.mem_singleton] at h; subst h; simp
  | idx1 y i ih =>
    intro a h
    simp only [exprAcc, List.mem_append, List.mem_singleton] at h
    rcases h with h | h
    · exact ih a h
    · subst h; simp
  | idx2 y i j ihi ihj =>
    intro a h
    simp only [exprAcc, List.mem_append, List.mem_singleton] at h
    rcases h with (h | h) | h
    · exact ihi a h
    · exact ihj a h
    · subst h; simp
  | un op e ih => intro a h; exact ih a (by simpa only [exprAcc] using h)
  | bin op p q ihp ihq =>
    intro a h
    simp only [exprAcc, List.mem_append] at h
    rcases h with h | h
    · exact ihp a h
    · exact ihq a h

theorem stmtAcc_spec (c : Bool) (s : Stmt) :
    ∀ a ∈ stmtAcc c s, a.subs.length ≤ 2 ∧ (a.write = true → a.var ∈ C08.wvars s) := by
  induction s generalizing c with
  | skip => intro a h; simp [stmtAcc] at h
  | seq p q ihp ihq =>
    intro a h
    simp only [stmtAcc, List.mem_append] at h
    rcases h with h | h
    · exact ⟨(ihp c a h).1, fun hw => by simp only [C08.wvars]; exact List.mem_append_left _ ((ihp c a h).2 hw)⟩
    · exact ⟨(ihq c a h).1, fun hw => by simp only [C08.wvars]; exact List.mem_append_right _ ((ihq c a h).2 hw)⟩
  | assign x e =>
    intro a h
    simp only [stmtAcc, List.mem_append, List.mem_singleton] at h
    rcases h with h | h
    · exact ⟨(exprAcc_read c e a h).2, fun hw => by rw [(exprAcc_read c e a h).1] at hw; exact absurd hw (by simp)⟩
    · subst h; simp [C08.wvars]
  | store1 y i e =>
    intro a h
    simp only [stmtAcc, List.mem_append, List.mem_singleton] at h
    rcases h with (h | h) | h
    · exact ⟨(exprAcc_read c e a h).2, fun hw => by rw [(exprAcc_read c e a h).1] at hw; exact absurd hw (by simp)⟩
    · exact ⟨(exprAcc_read c i a h).2, fun hw => by rw [(exprAcc_read c i a h).1] at hw; exact absurd hw (by simp)⟩
    · subst h; simp [C08.wvars]
  | store2 y i j e =>
    intro a h
    simp only [stmtAcc, List.mem_append, List.mem_singleton] at h
    rcases h with ((h | h) | h) | h
    · exact ⟨(exprAcc_read c e a h).2, fun hw => by rw [(exprAcc_read c e a h).1] at hw; exact absurd hw (by simp)⟩
    · exact ⟨(exprAcc_read c i a h).2, fun hw => by rw [(exprAcc_read c i a h).1] at hw; exact absurd hw (by simp)⟩
    · exact ⟨(exprAcc_read c j a h).2, fun hw => by rw [(exprAcc_read c j a h).1] at hw; exact absurd hw (by simp)⟩
    · subst h; simp [C08.wvars]
  | ite cnd t f iht ihf =>
    intro a h
    simp only [stmtAcc, List.mem_append] at h
    rcases h with (h | h) | h
    · exact ⟨(exprAcc_read c cnd a h).2, fun hw => by rw [(exprAcc_read c cnd a h).1] at hw; exact absurd hw (by simp)⟩
    · exact ⟨(iht true a h).1, fun hw => by simp only [C08.wvars]; exact List.mem_append_left _ ((iht true a h).2 hw)⟩
    · exact ⟨(ihf true a h).1, fun hw => by simp only [C08.wvars]; exact List.mem_append_right _ ((ihf true a h).2 hw)⟩
  | loop v lo hi st b ih =>
    intro a h
    simp only [stmtAcc, List.mem_append, List.mem_cons, List.not_mem_nil, or_false] at h
    rcases h with (((h | h) | h) | h) | h
    · rcases h with h | h <;> subst h <;> simp [C08.wvars]
    · exact ⟨(exprAcc_read c lo a h).2, fun hw => by rw [(exprAcc_read c lo a h).1] at hw; exact absurd hw (by simp)⟩
    · exact ⟨(exprAcc_read c hi a h).2, fun hw => by rw [(exprAcc_read c hi a h).1] at hw; exact absurd hw (by simp)⟩
    · exact ⟨(exprAcc_read c st a h).2, fun hw => by rw [(exprAcc_read c st a h).1] at hw; exact absurd hw (by simp)⟩
    · exact ⟨(ih true a h).1, fun hw => by simp only [C08.wvars]; exact List.mem_cons_of_mem _ ((ih true a h).2 hw)⟩

theorem body_mem_loopAccesses (v : Nat) (lo hi st : Expr) (body : Stmt) :
    ∀ a ∈ stmtAcc false body, a ∈ loopAccesses v lo hi st body := by
  intro a h
  simp only [loopAccesses]
  exact List.mem_append_right _ h

/-! ## helper lemmas: the scans of `_array_access_parallelisable` -/

theorem scanOthers_none (lvars : List Nat) (dn : List (Nat × Nat)) (w : Access) (pw : Nat) :
    ∀ (os : List Access) (q : Nat), scanOthers lvars dn w pw os q = none →
      ∀ o ∈ os, indepPair lvars dn w.subs o.subs = true := by
  intro os
  induction os with
  | nil => intro q _ o h; simp at h
  | cons o' os ih =>
    intro q hs o ho
    simp only [scanOthers] at hs
    split at hs
    · rename_i hind
      simp only [List.mem_cons] at ho
      rcases ho with rfl | ho
      · exact hind
      · exact ih _ hs o ho
    · exact absurd hs (by simp)

theorem scanWrites_none (lvars : List Nat) (dn : List (Nat × Nat)) (all : List Access) :
    ∀ (ws : List Access) (pw : Nat), scanWrites lvars dn all ws pw = none →
      ∀ w ∈ ws, w.write = true → ∀ o ∈ all, indepPair lvars dn w.subs o.subs = true := by
  intro ws
  induction ws with
  | nil => intro pw _ w h; simp at h
  | cons w' ws ih =>
    intro pw hs w hw hwr o ho
    simp only [scanWrites] at hs
    simp only [List.mem_cons] at hw
    split at hs
    · rename_i hw'
      split at hs
      · exact absurd hs (by simp)
      · rename_i hso
        rcases hw with rfl | hw
        · exact scanOthers_none lvars dn w pw all 0 hso o ho
        · exact ih _ hs w hw hwr o ho
    · rename_i hw'
      rcases hw with rfl | hw
      · exact absurd hwr hw'
      · exact ih _ hs w hw hwr o ho

theorem arrayPar_none {lvars : List Nat} {dn : List (Nat × Nat)} {accs : List Access}
    (h : arrayPar lvars dn accs = none) {w o : Access} (hw : w ∈ accs) (hwr : w.write = true) (ho : o ∈ accs) :
    indepPair lvars dn w.subs o.subs = true := by
  simp only [arrayPar] at h
  split at h
  · rename_i hall
    simp only [List.all_eq_true, Bool.not_eq_eq_eq_not, Bool.not_true] at hall
    rw [hall w hw] at hwr
    exact absurd hwr (by simp)
  · exact scanWrites_none lvars dn accs accs 0 h w hw hwr o ho

/-! ## helper lemmas: a separating position separates the locations -/

theorem sub_mem {es : List Expr} {p : Nat} (h : p < es.length) : sub es p ∈ es := by
  simp only [sub, List.getD_eq_getElem?_getD, List.getElem?_eq_getElem h, Option.getD_some]
  exact List.getElem_mem h

/-- every written variable has a write access in the summary -/
theorem wvars_has_write (c : Bool) (s : Stmt) :
    ∀ y ∈ C08.wvars s, ∃ a ∈ stmtAcc c s, a.var = y ∧ a.write = true := by
  induction s generalizing c with
  | skip => intro y h; simp [C08.wvars] at h
  | seq p q ihp ihq =>
    intro y h
    simp only [C08.wvars, List.mem_append] at h
    rcases h with h | h
    · obtain ⟨a, ha, h1, h2⟩ := ihp c y h
      exact ⟨a, by simp only [stmtAcc]; exact List.mem_append_left _ ha, h1, h2⟩
    · obtain ⟨a, ha, h1, h2⟩ := ihq c y h
      exact ⟨a, by simp only [stmtAcc]; exact List.mem_append_right _ ha, h1, h2⟩
  | assign x e =>
    intro y h
    simp only [C08.wvars, List.mem_singleton] at h
    exact ⟨⟨x, true, [], c⟩, by simp [stmtAcc], h.symm, rfl⟩
  | store1 x i e =>
    intro y h
    simp only [C08.wvars, List.mem_singleton] at h
    exact ⟨⟨x, true, [i], c⟩, by simp [stmtAcc], h.symm, rfl⟩
  | store2 x i j e =>
    intro y h
    simp only [C08.wvars, List.mem_singleton] at h
    exact ⟨⟨x, true, [i, j], c⟩, by simp [stmtAcc], h.symm, rfl⟩
  | ite cnd t f iht ihf =>
    intro y h
    simp only [C08.wvars, List.mem_append] at h
    rcases h with h | h
    · obtain ⟨a, ha, h1, h2⟩ := iht true y h
      exact ⟨a, by simp only [stmtAcc]; exact List.mem_append_left _ (List.mem_append_right _ ha), h1, h2⟩
    · obtain ⟨a, ha, h1, h2⟩ := ihf true y h
      exact ⟨a, by simp only [stmtAcc]; exact List.mem_append_right _ ha, h1, h2⟩
  | loop v lo hi st b ih =>
    intro y h
    simp only [C08.wvars, List.mem_cons] at h
    rcases h with h | h
    · exact ⟨⟨v, true, [], c⟩, by simp [stmtAcc], h.symm, rfl⟩
    · obtain ⟨a, ha, h1, h2⟩ := ih true y h
      exact ⟨a, by simp only [stmtAcc]; exact List.mem_append_right _ ha, h1, h2⟩

/-! ## The property -/

/-- Fortran rules the model relies on: the loop variable is not assigned in the body and loop variables are
never subscripted -/
def WellFormed (v : Nat) (lo hi st : Expr) (body : Stmt) : Prop :=
  v ∉ C08.wvars body ∧ ∀ x ∈ loopVars body, isArray (accsOf x (loopAccesses v lo hi st body)) = false

/-- the one remaining side condition: every scalar the body writes and the analysis lets pass (it skips loop
variables; it accepts a scalar whose first access is a write) is written unconditionally before it is read -/
def ScalarsUnconditional (v : Nat) (lo hi st : Expr) (body : Stmt) : Prop :=
  ∀ x ∈ C08.wvars body, isArray (accsOf x (loopAccesses v lo hi st body)) = false →
    (x ∈ loopVars body ∨ scalarPar (accsOf x (loopAccesses v lo hi st body)) = none) →
    mustWriteFirst x body = true

instance (v : Nat) (lo hi st : Expr) (body : Stmt) : Decidable (WellFormed v lo hi st body) := by
  unfold WellFormed; infer_instance
instance (v : Nat) (lo hi st : Expr) (body : Stmt) : Decidable (ScalarsUnconditional v lo hi st body) := by
  unfold ScalarsUnconditional; infer_instance

/-- iteration `val` (run from `σ`) writes `l`, iteration `val'` (run from `σ'`) reads or writes `l` -/
def Conflict (v : Nat) (body : Stmt) (σ σ' : Store) (val val' : Int) (l : Loc) : Prop :=
  (true, l) ∈ iterTrace v body σ val ∧ ∃ b, (b, l) ∈ iterTrace v body σ' val'

/-- what "no loop-carried dependence" means for the loop `do v = lo, hi, st; body`: two distinct iterations, run
from stores that differ at most on what the loop itself assigns, touch a common location with a write only if it
is a scalar every iteration unconditionally writes before reading -/
def Independent (v : Nat) (body : Stmt) : Prop :=
  ∀ (σ σ' : Store), AgreeOff (v :: C08.wvars body) σ σ' → ∀ (val val' : Int), val ≠ val' →
    ∀ l, Conflict v body σ σ' val val' l → ∃ x, l = (x, 0, 0) ∧ privScalar body x = true

/-- the property at full strength (still FALSE of the analysis: `conditional_scalar_counterexample`) -/
def C08_statement : Prop :=
  ∀ (dn : List (Nat × Nat)) (v : Nat) (lo hi st : Expr) (body : Stmt),
    WellFormed v lo hi st body → canParallelise dn v lo hi st body = true → Independent v body

/-- **tracing semantics = MiniF semantics** -/
theorem execT_agrees (s : Stmt) (σ : Store) : (execT s σ).1 = exec s σ := execT_fst s σ

/-- the two accesses of an independent pair of an array whose subscripts passed the stale-variable test never
touch the same element in two different iterations -/
theorem pair_sound {dn : List (Nat × Nat)} {v : Nat} {lo hi st : Expr} {body : Stmt} {a1 a2 : Access}
    (h1 : a1 ∈ stmtAcc false body) (h2 : a2 ∈ stmtAcc false body) (hvar : a2.var = a1.var)
    (hstale : staleSubscript (v :: loopVars body) (loopAccesses v lo hi st body)
      (accsOf a1.var (loopAccesses v lo hi st body)) = false)
    (hind : indepPair (v :: loopVars body) dn a1.subs a2.subs = true)
    (hv : v ∉ C08.wvars body)
    {σ σ' τ1 τ2 : Store} {val val' : Int} (hval : val ≠ val')
    (hσ : AgreeOff (v :: C08.wvars body) σ σ')
    (hτ1 : AgreeOff (C08.wvars body) (σ.set (v, 0, 0) val) τ1)
    (hτ2 : AgreeOff (C08.wvars body) (σ'.set (v, 0, 0) val') τ2) :
    locOf a1 τ1 ≠ locOf a2 τ2 := by
  -- the two stores agree on everything the body does not write, except the loop variable
  have hag : ∀ x, x ∉ C08.wvars body → x ≠ v → ∀ p q, τ1 (x, p, q) = τ2 (x, p, q) := by
    intro x hx hxv p q
    have hne : (x, p, q) ≠ ((v, 0, 0) : Loc) := fun he => hxv (congrArg Prod.fst he)
    rw [← hτ1 x hx p q, ← hτ2 x hx p q, Store.set_other _ _ hne, Store.set_other _ _ hne]
    exact hσ x (by simp [hx, hxv]) p q
  have hv1 : τ1 (v, 0, 0) = val := by rw [← hτ1 v hv 0 0]; simp
  have hv2 : τ2 (v, 0, 0) = val' := by rw [← hτ2 v hv 0 0]; simp
  -- the stale-variable test: a variable of a subscript that the body writes is a loop variable
  have hloopvar : ∀ a ∈ stmtAcc false body, a.var = a1.var → ∀ s ∈ a.subs, ∀ y ∈ C08.evars s,
      y ∈ C08.wvars body → y ∈ v :: loopVars body := by
    intro a ha hax s hs y hy hyw
    apply Classical.byContradiction
    intro hnl
    obtain ⟨wa, hwa, hwv, hww⟩ := wvars_has_write false body y hyw
    have : staleSubscript (v :: loopVars body) (loopAccesses v lo hi st body)
        (accsOf a1.var (loopAccesses v lo hi st body)) = true := by
      simp only [staleSubscript, List.any_eq_true, Bool.and_eq_true, Bool.not_eq_eq_eq_not, Bool.not_true,
        decide_eq_false_iff_not, isWritten, beq_iff_eq]
      refine ⟨a, ?_, s, hs, y, hy, hnl, wa, body_mem_loopAccesses v lo hi st body wa hwa, hwv, hww⟩
      simp only [accsOf, List.mem_filter, beq_iff_eq]
      exact ⟨body_mem_loopAccesses v lo hi st body a ha, hax⟩
    rw [hstale] at this
    exact absurd this (by simp)
  obtain ⟨p, hp1, hp2, hsep⟩ := indepPair_separates hind
  have hm1 := sub_mem hp1
  have hm2 := sub_mem hp2
  have hne : eval (sub a1.subs p) τ1 ≠ eval (sub a2.subs p) τ2 := by
    rcases hsep with ⟨hi0, hfree⟩ | ⟨hd0, honly⟩
    · apply indep0_sound hi0
      intro x hx p' q'
      have hxl : x ∉ v :: loopVars body := by
        intro hxl
        rcases hx with hx | hx
        · exact (hfree x hxl).1 hx
        · exact (hfree x hxl).2 hx
      have hxw : x ∉ C08.wvars body := by
        intro hxw
        rcases hx with hx | hx
        · exact hxl (hloopvar a1 h1 rfl _ hm1 x hx hxw)
        · exact hxl (hloopvar a2 h2 hvar _ hm2 x hx hxw)
      exact hag x hxw (fun he => hxl (he ▸ List.mem_cons_self)) p' q'
    · intro heq
      have := dist0_sound hd0 τ1 τ2 (by
        intro x hxv hx p' q'
        have hxw : x ∉ C08.wvars body := by
          intro hxw
          have hxl : x ∈ v :: loopVars body := by
            rcases hx with hx | hx
            · exact hloopvar a1 h1 rfl _ hm1 x hx hxw
            · exact hloopvar a2 h2 hvar _ hm2 x hx hxw
          rcases hx with hx | hx
          · exact (honly x hxl hxv).1 hx
          · exact (honly x hxl hxv).2 hx
        exact hag x hxw hxv p' q') heq
      rw [hv1, hv2] at this
      exact hval this
  have hl1 := (stmtAcc_spec false body a1 h1).1
  intro hloc
  simp only [locOf, Prod.mk.injEq] at hloc
  have hp : p = 0 ∨ p = 1 := by omega
  rcases hp with rfl | rfl
  · exact hne hloc.2.1
  · exact hne hloc.2.2

/-- **C08, partial** (FIXED analysis: name loop, integer division, symbolic coefficients, stale subscripts and
inner-variable subscripts repaired): if the model of `can_loop_be_parallelised` reports the loop parallelisable
and accepted scalars are written unconditionally, then no location is written by one iteration and read or written
by another — except scalars every iteration unconditionally writes before reading.  All subscript forms
(symbolic offsets and coefficients, `/`, MOD, index arrays, several loop variables, rank 1 and 2), all values
of the symbols, all stores. -/
theorem C08_partial (dn : List (Nat × Nat)) (v : Nat) (lo hi st : Expr) (body : Stmt)
    (hwf : WellFormed v lo hi st body) (hpar : canParallelise dn v lo hi st body = true)
    (hsc : ScalarsUnconditional v lo hi st body) :
    Independent v body := by
  intro σ σ' hσ val val' hval l ⟨hw, b, ho⟩
  obtain ⟨hv, hlv⟩ := hwf
  obtain ⟨a1, ha1, hk1, τ1, hτ1, hl1⟩ := execT_explained false body _ _ hw
  obtain ⟨a2, ha2, hk2, τ2, hτ2, hl2⟩ := execT_explained false body _ _ ho
  simp only at hk1 hl1 hl2
  have hx : a1.var = a2.var := by
    have := hl1.symm.trans hl2
    simp only [locOf, Prod.mk.injEq] at this
    exact this.1
  have hwv : a1.var ∈ C08.wvars body := (stmtAcc_spec false body a1 ha1).2 hk1
  have hall1 := body_mem_loopAccesses v lo hi st body a1 ha1
  have hall2 := body_mem_loopAccesses v lo hi st body a2 ha2
  have hxv : a1.var ≠ v := fun he => hv (he ▸ hwv)
  -- verdict of the model for this variable
  have hverd : varVerdict (v :: loopVars body) dn (loopAccesses v lo hi st body) a1.var = none := by
    simp only [canParallelise, List.all_eq_true, Option.isNone_iff_eq_none] at hpar
    exact hpar a1 hall1
  have hm1 : a1 ∈ accsOf a1.var (loopAccesses v lo hi st body) := by
    simp only [accsOf, List.mem_filter, beq_self_eq_true, and_true]; exact hall1
  have hm2 : a2 ∈ accsOf a1.var (loopAccesses v lo hi st body) := by
    simp only [accsOf, List.mem_filter, beq_iff_eq]; exact ⟨hall2, hx.symm⟩
  by_cases harr : isArray (accsOf a1.var (loopAccesses v lo hi st body)) = true
  · -- array: no stale subscript variable, and the pair was tested and found independent
    have hnl : a1.var ∉ v :: loopVars body := by
      intro hmem
      simp only [List.mem_cons] at hmem
      rcases hmem with he | hmem
      · exact hxv he
      · rw [hlv _ hmem] at harr; exact absurd harr (by simp)
    simp only [varVerdict, if_neg hnl, harr, if_true] at hverd
    split at hverd
    · exact absurd hverd (by simp)
    · rename_i hstale
      have hstale' : staleSubscript (v :: loopVars body) (loopAccesses v lo hi st body)
          (accsOf a1.var (loopAccesses v lo hi st body)) = false := by simpa using hstale
      have hind := arrayPar_none hverd hm1 hk1 hm2
      exact absurd (hl1.symm.trans hl2)
        (pair_sound ha1 ha2 hx.symm hstale' hind hv hval hσ hτ1 hτ2)
  · -- scalar: accepted, hence unconditionally written first
    have harr' : isArray (accsOf a1.var (loopAccesses v lo hi st body)) = false := by simpa using harr
    have hacc : a1.var ∈ loopVars body ∨ scalarPar (accsOf a1.var (loopAccesses v lo hi st body)) = none := by
      by_cases hmem : a1.var ∈ loopVars body
      · exact Or.inl hmem
      · right
        have hnl : a1.var ∉ v :: loopVars body := by
          simp only [List.mem_cons, not_or]; exact ⟨hxv, hmem⟩
        simpa only [varVerdict, if_neg hnl, harr', Bool.false_eq_true, if_false] using hverd
    have hmw := hsc a1.var hwv harr' hacc
    have hsubs : a1.subs = [] := by
      simp only [isArray, List.any_eq_false, Bool.not_eq_eq_eq_not] at harr'
      have := harr' a1 hm1
      simpa using this
    refine ⟨a1.var, ?_, ?_⟩
    · rw [hl1]; simp [locOf, hsubs, sub, eval]
    · simp only [privScalar, Bool.and_eq_true, Bool.not_eq_eq_eq_not, Bool.not_true, hmw, and_true]
      simp only [isArray, List.any_eq_false] at harr' ⊢
      intro a ha
      apply harr' a
      simp only [accsOf, List.mem_filter] at ha ⊢
      exact ⟨body_mem_loopAccesses v lo hi st body a ha.1, ha.2⟩

/-! ## The sequentially executed loop -/

/-- trace number `a` of the sequential run is the trace of one iteration started from a store that differs from
the initial one only on the loop variable and on variables the body writes -/
theorem iterTraces_spec (v : Nat) (body : Stmt) (lo step : Int) :
    ∀ (n : Nat) (k : Int) (σ : Store) (a : Nat), a < n →
      ∃ σa, AgreeOff (v :: C08.wvars body) σ σa ∧
        (iterTraces v body lo step n k σ)[a]? = some (iterTrace v body σa (lo + (k + a) * step)) := by
  intro n
  induction n with
  | zero => intro k σ a h; exact absurd h (Nat.not_lt_zero _)
  | succ n ih =>
    intro k σ a h
    cases a with
    | zero => exact ⟨σ, AgreeOff.refl _ _, by simp [iterTraces, iterTrace]⟩
    | succ a =>
      obtain ⟨σa, h1, h2⟩ := ih (k + 1) (execT body (σ.set (v, 0, 0) (lo + k * step))).1 a (by omega)
      refine ⟨σa, AgreeOff.trans ?_ h1, ?_⟩
      · rw [execT_fst]
        exact (agreeOff_set (AgreeOff.refl _ σ) (by simp) _ _ _).trans
          ((exec_agreeOff body _).mono (fun x hx => List.mem_cons_of_mem _ hx))
      · simp only [iterTraces, List.getElem?_cons_succ, h2]
        have : k + 1 + (a : Int) = k + ((a + 1 : Nat) : Int) := by push_cast; omega
        rw [this]

/-- **C08 for the running loop**: under the hypotheses of `C08_partial`, in the sequential execution of the loop
(any start value, non-zero step, any trip count, any initial store) two different iterations never touch a common
location with a write, except privatisable scalars. -/
theorem C08_sequential (dn : List (Nat × Nat)) (v : Nat) (lo hi st : Expr) (body : Stmt)
    (hwf : WellFormed v lo hi st body) (hpar : canParallelise dn v lo hi st body = true)
    (hsc : ScalarsUnconditional v lo hi st body)
    (l0 step : Int) (hstep : step ≠ 0) (n : Nat) (σ : Store) (a b : Nat) (ha : a < n) (hb : b < n) (hab : a ≠ b)
    (ta tb : List Ev) (hta : (iterTraces v body l0 step n 0 σ)[a]? = some ta)
    (htb : (iterTraces v body l0 step n 0 σ)[b]? = some tb)
    (l : Loc) (hw : (true, l) ∈ ta) (bb : Bool) (ho : (bb, l) ∈ tb) :
    ∃ x, l = (x, 0, 0) ∧ privScalar body x = true := by
  obtain ⟨σa, hσa, hea⟩ := iterTraces_spec v body l0 step n 0 σ a ha
  obtain ⟨σb, hσb, heb⟩ := iterTraces_spec v body l0 step n 0 σ b hb
  rw [hta] at hea
  rw [htb] at heb
  simp only [Option.some.injEq] at hea heb
  subst hea heb
  have hag : AgreeOff (v :: C08.wvars body) σa σb := fun x hx p q => (hσa x hx p q).symm.trans (hσb x hx p q)
  have hval : l0 + (0 + (a : Int)) * step ≠ l0 + (0 + (b : Int)) * step := by
    intro he
    have h1 : (a : Int) * step = (b : Int) * step := by
      simp only [Int.zero_add] at he
      omega
    have h2 := Int.eq_of_mul_eq_mul_right hstep h1
    exact hab (by exact_mod_cast h2)
  exact C08_partial dn v lo hi st body hwf hpar hsc σa σb hag _ _ hval l ⟨hw, bb, ho⟩

/-! ## Termination of the `d_<var>` name loop -/

theorem freshLoop_spec (taken : List Nat) :
    ∀ (fuel idx : Nat), (taken.filter (fun x => decide (idx ≤ x))).length < fuel →
      ∃ n, freshLoop taken fuel idx = some n ∧ n ∉ taken ∧ idx ≤ n ∧ ∀ m, idx ≤ m → m < n → m ∈ taken := by
  intro fuel
  induction fuel with
  | zero => intro idx h; exact absurd h (Nat.not_lt_zero _)
  | succ fuel ih =>
    intro idx h
    simp only [freshLoop]
    split
    · rename_i hmem
      have hlt : (taken.filter (fun x => decide (idx + 1 ≤ x))).length
          < (taken.filter (fun x => decide (idx ≤ x))).length := by
        have hff : taken.filter (fun x => decide (idx + 1 ≤ x))
            = (taken.filter (fun x => decide (idx ≤ x))).filter (fun x => decide (idx + 1 ≤ x)) := by
          rw [List.filter_filter]
          apply List.filter_congr
          intro x _
          by_cases hx : idx + 1 ≤ x
          · have : idx ≤ x := by omega
            simp [hx, this]
          · simp [hx]
        rw [hff]
        apply List.length_filter_lt_length_iff_exists.mpr
        exact ⟨idx, by simp [hmem], by simp⟩
      obtain ⟨n, h1, h2, h3, h4⟩ := ih (idx + 1) (by omega)
      refine ⟨n, h1, h2, by omega, ?_⟩
      intro m hm hmn
      by_cases he : m = idx
      · exact he ▸ hmem
      · exact h4 m (by omega) hmn
    · rename_i hmem
      exact ⟨idx, rfl, hmem, Nat.le_refl _, fun m h1 h2 => absurd h1 (by omega)⟩

/-- the FIXED name loop always finds a name: the first candidate `d_<var>, d1_<var>, d2_<var>, …` that is not
a key of the symbol map; the fuel `|symbol map| + 1` is never exhausted -/
theorem depDistance_terminates (taken : List Nat) :
    ∃ n, freshD taken = some n ∧ n ∉ taken ∧ ∀ m, m < n → m ∈ taken := by
  obtain ⟨n, h1, h2, _, h4⟩ := freshLoop_spec taken (taken.length + 1) 0
    (Nat.lt_succ_of_le (List.length_filter_le _ _))
  exact ⟨n, h1, h2, fun m hm => h4 m (Nat.zero_le _) hm⟩

/-- the analysis answers for every pair of subscripts: `depDistance` never fails for lack of fuel -/
theorem C08_terminates (dn : List (Nat × Nat)) (w o : Expr) : (freshD (takenOf dn w o)).isSome = true := by
  obtain ⟨n, h, _⟩ := depDistance_terminates (takenOf dn w o)
  simp [h]

/-- the PINNED loop (no `idx += 1`) never returns when both `d_<var>` and `d1_<var>` are taken, whatever the fuel -/
theorem dvar_loop_diverges : ∀ fuel, freshPinned [0, 1] fuel = none := by
  have h : ∀ fuel cand, cand ∈ [0, 1] → pinnedLoop [0, 1] fuel cand = none := by
    intro fuel
    induction fuel with
    | zero => intro cand _; rfl
    | succ fuel ih =>
      intro cand hc
      simp only [pinnedLoop, hc, if_true]
      exact ih 1 (by simp)
  intro fuel
  exact h fuel 0 (by simp)

example : freshD [0, 1] = some 2 := by decide
example : freshD [1, 0, 2, 5] = some 3 := by decide
example : freshPinned [0] 5 = some 1 := by decide

/-- **`_partition` terminates**: the literal Python while loop (one pass per loop variable, fuel = current length
+ 1) never runs out of fuel and returns exactly the partition the soundness proof reasons about -/
theorem partition_terminates (lvars : List Nat) (w o : List Expr) :
    partitionW lvars w o = some (partition lvars w o) :=
  partitionW_fold lvars _

/-- the counterexample trace of the pinned name loop on `{d_<var>, d1_<var>}`: after the first step the candidate
is `d1_<var>` forever (the hang the fix removes); the fixed loop answers `d2_<var>` in three steps -/
theorem dvar_loop_trace : ∀ fuel, pinnedLoop [0, 1] (fuel + 1) 0 = pinnedLoop [0, 1] fuel 1 ∧
    pinnedLoop [0, 1] (fuel + 1) 1 = pinnedLoop [0, 1] fuel 1 ∧ freshLoop [0, 1] 3 0 = some 2 := by
  intro fuel
  refine ⟨by simp [pinnedLoop], by simp [pinnedLoop], by decide⟩

/-! ## Witnesses (ids: i=0, a=1, b=2, c=3, t=4, j=5, m=6, n=7) -/

def zeroStore : Store := ⟨fun _ => 0⟩

/-- `do i: if (b(i) > 10) t = b(i); c(i) = t` -/
def condBody : Stmt :=
  .seq (.ite (.bin .gt (.idx1 2 (.var 0)) (.lit 10)) (.assign 4 (.idx1 2 (.var 0))) .skip)
    (.store1 3 (.var 0) (.var 4))

def condStore : Store := storeOf [((2, 0, 0), 11)]

/-- reported parallelisable, but iteration 0 (condition true) writes `t` and iteration 1 (condition false) reads it;
`t` is not a scalar every iteration unconditionally writes -/
theorem conditional_scalar_counterexample :
    canParallelise [] 0 (.lit 0) (.lit 5) (.lit 1) condBody = true ∧
    WellFormed 0 (.lit 0) (.lit 5) (.lit 1) condBody ∧
    Conflict 0 condBody condStore condStore 0 1 (4, 0, 0) ∧ privScalar condBody 4 = false ∧
    ¬ ScalarsUnconditional 0 (.lit 0) (.lit 5) (.lit 1) condBody := by
  refine ⟨by decide, by decide, ⟨by decide, false, by decide⟩, by decide, by decide⟩

/-- the property at full strength fails on the model: the first *textual* write of a scalar is taken for an
unconditional one (known finding C08-conditional-scalar; the behaviour is pinned by
`dependency_tools_test.py::test_scalar_parallelise`, which expects a scalar first written in an inner loop to be
accepted) -/
theorem C08_counterexample : ¬ C08_statement := by
  intro h
  obtain ⟨hpar, hwf, hc, hp, _⟩ := conditional_scalar_counterexample
  obtain ⟨x, hx, hpx⟩ := h [] 0 (.lit 0) (.lit 5) (.lit 1) condBody hwf hpar condStore condStore
    (AgreeOff.refl _ _) 0 1 (by decide) (4, 0, 0) hc
  simp only [Prod.mk.injEq] at hx
  rw [← hx.1, hp] at hpx
  exact absurd hpx (by simp)

/-! ### the four repaired defect classes: the conflict is real, and the (fixed) analysis refuses the loop -/

/-- `do i = 0, 5: a(i/2+1) = b(i)` -/
def intdivBody : Stmt := .store1 1 (.bin .add (.bin .div (.var 0) (.lit 2)) (.lit 1)) (.idx1 2 (.var 0))

/-- iterations 0 and 1 both write `a(1)`; a subscript with `/` is no longer handed to SymPy: write-write race -/
theorem intdiv_refused :
    Conflict 0 intdivBody zeroStore zeroStore 0 1 (1, 1, 0) ∧
    messages [] 0 (.lit 0) (.lit 5) (.lit 1) intdivBody = [(201, 1)] := by
  refine ⟨⟨by decide, true, by decide⟩, by decide⟩

/-- `do i: t = b(i); a(i+t) = 1` -/
def staleBody : Stmt := .seq (.assign 4 (.idx1 2 (.var 0))) (.store1 1 (.bin .add (.var 0) (.var 4)) (.lit 1))

def staleStore : Store := storeOf [((2, 0, 0), 1)]

/-- with `b(0)=1, b(1)=0` iterations 0 and 1 both write `a(1)`; the subscript uses `t`, which the loop assigns -/
theorem stale_subscript_refused :
    Conflict 0 staleBody staleStore staleStore 0 1 (1, 1, 0) ∧
    messages [] 0 (.lit 0) (.lit 5) (.lit 1) staleBody = [(202, 1)] := by
  refine ⟨⟨by decide, true, by decide⟩, by decide⟩

/-- `do i: do j = 1, 2: m(i+j, j-j+1) = 1` -/
def innerBody : Stmt :=
  .loop 5 (.lit 1) (.lit 2) (.lit 1)
    (.store2 6 (.bin .add (.var 0) (.var 5)) (.bin .add (.bin .sub (.var 5) (.var 5)) (.lit 1)) (.lit 1))

/-- (i,j)=(1,2) and (2,1) both write `m(3,1)`; the multi-subscript test skips subscripts using `j` -/
theorem inner_variable_refused :
    Conflict 0 innerBody zeroStore zeroStore 1 2 (6, 3, 1) ∧
    messages [] 0 (.lit 1) (.lit 4) (.lit 1) innerBody = [(201, 6)] := by
  refine ⟨⟨by decide, true, by decide⟩, by decide⟩

/-- `do i: a(n*i+1) = b(i)` -/
def symcoefBody : Stmt :=
  .store1 1 (.bin .add (.bin .mul (.var 7) (.var 0)) (.lit 1)) (.idx1 2 (.var 0))

/-- with `n = 0` every iteration writes `a(1)`; a product with the loop variable gives no distance -/
theorem symbolic_coefficient_refused :
    Conflict 0 symcoefBody zeroStore zeroStore 1 2 (1, 1, 0) ∧
    messages [] 0 (.lit 1) (.lit 4) (.lit 1) symcoefBody = [(201, 1)] := by
  refine ⟨⟨by decide, true, by decide⟩, by decide⟩

/-! ## Non-vacuity and sanity evaluations -/

/-- `do i: t = b(i); a(i+n) = a(i+n) + t; do j = 1, 3: m(i, j) = m(i, j+1) + a(i+n)` -/
def goodBody : Stmt :=
  .seq (.assign 4 (.idx1 2 (.var 0)))
    (.seq (.store1 1 (.bin .add (.var 0) (.var 7)) (.bin .add (.idx1 1 (.bin .add (.var 0) (.var 7))) (.var 4)))
      (.loop 5 (.lit 1) (.lit 3) (.lit 1)
        (.store2 6 (.var 0) (.var 5)
          (.bin .add (.idx2 6 (.var 0) (.bin .add (.var 5) (.lit 1))) (.idx1 1 (.bin .add (.var 0) (.var 7)))))))

/-- all hypotheses of `C08_partial` hold together on a loop with a private scalar, an array update with a symbolic
offset and a nest -/
example : WellFormed 0 (.lit 0) (.var 7) (.lit 1) goodBody ∧
    canParallelise [] 0 (.lit 0) (.var 7) (.lit 1) goodBody = true ∧
    ScalarsUnconditional 0 (.lit 0) (.var 7) (.lit 1) goodBody := by
  refine ⟨by decide, by decide, by decide⟩

example : Independent 0 goodBody :=
  C08_partial [] 0 (.lit 0) (.var 7) (.lit 1) goodBody (by decide) (by decide) (by decide)

-- the exception is exercised: both iterations write the private scalar `t`
example : Conflict 0 goodBody zeroStore zeroStore 0 1 (4, 0, 0) ∧ privScalar goodBody 4 = true :=
  ⟨⟨by decide, true, by decide⟩, by decide⟩

-- `a(i) = a(i-1)`: dependency (202); `a(5) = b(i)`: write-write race (201); `t = t + b(i)`: reduction (102)
example : messages [] 0 (.lit 1) (.lit 5) (.lit 1)
    (.store1 1 (.var 0) (.idx1 1 (.bin .sub (.var 0) (.lit 1)))) = [(202, 1)] := by decide
example : messages [] 0 (.lit 1) (.lit 5) (.lit 1) (.store1 1 (.lit 5) (.idx1 2 (.var 0))) = [(201, 1)] := by decide
example : messages [] 0 (.lit 1) (.lit 5) (.lit 1)
    (.assign 4 (.bin .add (.var 4) (.idx1 2 (.var 0)))) = [(102, 4)] := by decide
example : messages [] 0 (.lit 1) (.lit 5) (.lit 1) (.assign 4 (.idx1 2 (.var 0))) = [(101, 4)] := by decide
-- `a(2*i) = a(2*i+1)`: distance -1/2 is not an integer, reported as a dependency, as the real code does
example : depDistance 0 [] (.bin .mul (.lit 2) (.var 0)) (.bin .add (.bin .mul (.lit 2) (.var 0)) (.lit 1)) = none := by
  decide
example : depDistance 0 [] (.var 0) (.bin .sub (.var 0) (.lit 1)) = some 1 := by decide
-- names `d_i` (id 8) and `d1_i` (id 9) in the subscripts: the fixed loop picks `d2_i`, the distance is still found
example : depDistance 0 [(8, 0), (9, 1)] (.bin .add (.var 0) (.var 8)) (.bin .add (.var 0) (.var 8)) = some 0 := by
  decide
-- `never_equal`: only a non-zero INTEGER difference separates two loop-variable-free subscripts, and any `/` is
-- refused outright (n has id 7)
example : independent0 (.bin .div (.var 7) (.lit 2)) (.bin .div (.bin .add (.var 7) (.lit 1)) (.lit 2)) = false := by
  decide
example : independent0 (.bin .add (.bin .div (.var 7) (.lit 2)) (.lit 1)) (.bin .div (.var 7) (.lit 2)) = false := by
  decide
example : independent0 (.bin .add (.var 7) (.lit 1)) (.var 7) = true := by decide
example : independent0 (.bin .mod (.var 7) (.lit 3)) (.bin .add (.bin .mod (.var 7) (.lit 3)) (.lit 1)) = true := by
  decide
example : independent0 (.var 7) (.var 8) = false := by decide
-- `do i: m(n/2, i) = m((n+1)/2, i-1) + 1` (m has id 6) is a dependency (202)
example : messages [] 0 (.lit 2) (.lit 5) (.lit 1)
    (.store2 6 (.bin .div (.var 7) (.lit 2)) (.var 0)
      (.bin .add (.idx2 6 (.bin .div (.bin .add (.var 7) (.lit 1)) (.lit 2)) (.bin .sub (.var 0) (.lit 1))) (.lit 1)))
    = [(202, 6)] := by decide

/-! ## Structure members: the variables are signatures -/

/-- **C08, partial, for signature-level storage.**  Let the ids of the loop be signatures (`tab`), pairwise
distinct and none a proper prefix of another (`sigTabOk`: no whole-structure access next to a member access).  If
iteration `val` writes a piece of storage and iteration `val'` touches storage that OVERLAPS it (same signature and
subscripts — `cfg%off`, `p(3)%x`, `g%a(3)` — or a containing structure), the two events are the same MiniF location
and it is a scalar (possibly a scalar member such as `cfg%off`) every iteration unconditionally writes before
reading.  In particular distinct members of one structure (`cfg%off`, `cfg%n2`) and equally named members of
different structures never conflict, and nothing else does either. -/
theorem C08_partial_sig (tab : SigTab) (hok : sigTabOk tab = true)
    (dn : List (Nat × Nat)) (v : Nat) (lo hi st : Expr) (body : Stmt)
    (hwf : WellFormed v lo hi st body) (hpar : canParallelise dn v lo hi st body = true)
    (hsc : ScalarsUnconditional v lo hi st body)
    (σ σ' : Store) (hσ : AgreeOff (v :: C08.wvars body) σ σ') (val val' : Int) (hval : val ≠ val')
    (l l' : Loc) (b : Bool) (hw : (true, l) ∈ iterTrace v body σ val) (ho : (b, l') ∈ iterTrace v body σ' val')
    (s s' : SLoc) (hs : slocOf tab l = some s) (hs' : slocOf tab l' = some s') (hov : overlaps s s') :
    l' = l ∧ ∃ x, l = (x, 0, 0) ∧ privScalar body x = true := by
  simp only [slocOf, Option.map_eq_some_iff] at hs hs'
  obtain ⟨t, ht, rfl⟩ := hs
  obtain ⟨t', ht', rfl⟩ := hs'
  have hll : l' = l := by
    rcases hov with ⟨h1, h2⟩ | h | h
    · simp only at h1 h2
      subst h1
      have hid := sigOf_inj (sigTabOk_nodup hok) ht ht'
      simp only [Prod.mk.injEq] at h2
      obtain ⟨a, p, q⟩ := l
      obtain ⟨a', p', q'⟩ := l'
      simp only at hid h2
      rw [hid, h2.1, h2.2]
    · simp only at h
      rw [sigTabOk_noPrefix hok ht ht'] at h
      exact absurd h (by simp)
    · simp only at h
      rw [sigTabOk_noPrefix hok ht' ht] at h
      exact absurd h (by simp)
  subst hll
  exact ⟨rfl, C08_partial dn v lo hi st body hwf hpar hsc σ σ' hσ val val' hval l' ⟨hw, b, ho⟩⟩

/-- ids: i=0, a=1, b=2, c=3, `cfg%off`=8, `cfg%n2`=9 (base `cfg`=20, members `off`=21, `n2`=22) -/
def memberTab : SigTab :=
  [(0, ⟨0, []⟩), (1, ⟨1, []⟩), (2, ⟨2, []⟩), (3, ⟨3, []⟩), (8, ⟨20, [21]⟩), (9, ⟨20, [22]⟩)]

/-- `do i: cfg%off = b(i); a(i + cfg%off) = 1` -/
def memberStaleBody : Stmt :=
  .seq (.assign 8 (.idx1 2 (.var 0))) (.store1 1 (.bin .add (.var 0) (.var 8)) (.lit 1))

/-- the member `cfg%off` is recomputed in every iteration and used in the subscript of `a`: with `b(0)=1, b(1)=0`
iterations 0 and 1 both write `a(1)`, and the analysis (which compares full signatures) refuses the loop -/
theorem member_stale_refused :
    sigTabOk memberTab = true ∧ sigCovers memberTab [0, 1, 2, 8] = true ∧
    Conflict 0 memberStaleBody staleStore staleStore 0 1 (1, 1, 0) ∧
    messages [] 0 (.lit 0) (.lit 5) (.lit 1) memberStaleBody = [(202, 1)] := by
  refine ⟨by decide, by decide, ⟨by decide, true, by decide⟩, by decide⟩

/-- recording only the base name (`Signature.var_name`) of what the loop modifies is UNSOUND: `cfg` is no
signature used in a subscript, the test finds nothing, the pairwise test accepts `a(i + cfg%off)` (distance 0 with
`cfg%off` taken for loop invariant) — and the conflict of `member_stale_refused` is real -/
theorem stale_by_name_counterexample :
    let all := loopAccesses 0 (.lit 0) (.lit 5) (.lit 1) memberStaleBody
    staleSubscriptBy (nameKey memberTab) [0] all (accsOf 1 all) = false ∧
    staleSubscriptBy sigKey [0] all (accsOf 1 all) = true ∧
    arrayPar [0] [] (accsOf 1 all) = none ∧
    Conflict 0 memberStaleBody staleStore staleStore 0 1 (1, 1, 0) := by
  refine ⟨by decide, by decide, by decide, ⟨by decide, true, by decide⟩⟩

/-- `do i: cfg%n2 = b(i); c(i) = cfg%n2; a(i + cfg%off) = a(i + cfg%off) + 1`: a SIBLING member is modified, the
subscript member is not -/
def memberSiblingBody : Stmt :=
  .seq (.assign 9 (.idx1 2 (.var 0)))
    (.seq (.store1 3 (.var 0) (.var 9))
      (.store1 1 (.bin .add (.var 0) (.var 8)) (.bin .add (.idx1 1 (.bin .add (.var 0) (.var 8))) (.lit 1))))

/-- non-vacuity of `C08_partial_sig` on a loop with members: all hypotheses hold, the loop is accepted although
`cfg%n2` (same base name as the subscript member `cfg%off`) is modified -/
example : sigTabOk memberTab = true ∧ WellFormed 0 (.lit 0) (.lit 5) (.lit 1) memberSiblingBody ∧
    canParallelise [] 0 (.lit 0) (.lit 5) (.lit 1) memberSiblingBody = true ∧
    ScalarsUnconditional 0 (.lit 0) (.lit 5) (.lit 1) memberSiblingBody := by
  refine ⟨by decide, by decide, by decide, by decide⟩

-- the exception is exercised at signature level: both iterations write the private scalar member `cfg%n2`
example : Conflict 0 memberSiblingBody zeroStore zeroStore 0 1 (9, 0, 0) ∧ privScalar memberSiblingBody 9 = true ∧
    slocOf memberTab (9, 0, 0) = some (⟨20, [22]⟩, 0, 0) :=
  ⟨⟨by decide, true, by decide⟩, by decide, by decide⟩

-- a whole-structure access next to a member access is outside the precondition
example : sigTabOk [(8, ⟨20, [21]⟩), (10, ⟨20, []⟩)] = false := by decide
example : sigTabOk [(8, ⟨20, [21]⟩), (10, ⟨20, [21]⟩)] = false := by decide
example : overlaps (⟨20, []⟩, 0, 0) (⟨20, [21]⟩, 0, 0) := Or.inr (Or.inl (by decide))
example : nameKey memberTab 8 = none ∧ nameKey memberTab 1 = some 1 := by decide

end C08
