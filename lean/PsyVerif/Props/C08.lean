import PsyVerif.Model.DepTools
import PsyVerif.Lemmas.MiniFSem
/-! # C08 — loops reported parallelisable have no loop-carried dependence -/
namespace C08
open MiniF

/-! ## The property -/

end C08
