import PsyVerif.Gen.BuiltinsThm
/-! # C20 — LFRic built-ins compute their documented operations

`Gen/Builtins.lean` (regenerated from the live tree on every run) holds, for every entry of
`BUILTIN_MAP`: the statement `lower_to_language_level` produces inside the generated DoF loop
(with the loop's lower bound and the zero-initialisation of a reduction variable as they appear in
the generated PSy layer), the formula of its section in `doc/user_guide/dynamo0p3.rst`, its argument
metadata and the loop's upper bound under the four DM × COMPUTE_ANNEXED_DOFS settings.
`Gen/BuiltinsThm.lean` proves `Correct b` for each of them; this file states the property over
the whole generated table and the general facts about the DoF loop (all upper bounds, all values).

Documented DoF range (`docBound`): developer guide, "Dof iterators" (APIs.rst): without distributed
memory "iterate over all dofs" (`undf`); with distributed memory "only iterates over owned dofs"
(`last_dof_owned`); with COMPUTE_ANNEXED_DOFS "loops which iterate over both owned and annexed dofs"
(`last_dof_annexed`).  Reductions are over owned DoFs in every distributed-memory setting (property
statement: "the documented sum ... over owned DoFs"; a global sum combines the partitions' partial
sums, so an annexed DoF — owned by a neighbour — must not be counted twice). -/
namespace C20

/-! ## helper lemmas -/

theorem mem_dofs (n df : Nat) : df ∈ dofs n ↔ 1 ≤ df ∧ df ≤ n := by
  simp only [dofs, List.mem_range'_1]; omega

theorem dofs_nodup (n : Nat) : (dofs n).Nodup := List.nodup_range'

theorem isInt_trunc (q : Rat) : ∃ z : Int, trunc q = z := ⟨_, rfl⟩

/-! ## The property -/

/-- For every built-in of the generated table, under every DM × annexed setting, for every DoF layout of a
partition and all field/scalar values: running the generated code (zero-initialisation, loop from its
generated lower bound to its generated upper bound, lowered statement) gives exactly the state that the
documented formula describes when applied to the documented DoF range.  (Equality of whole states:
every DoF inside the range gets the documented value, every DoF outside it and every other argument is
unchanged, a reduction variable ends up holding the documented sum.) -/
def C20_statement : Prop :=
  ∀ b ∈ Gen.table, ∀ (dm annexed : Bool) (L : Layout) (env : Env),
    b.code.run ((b.bound dm annexed).value L) env
      = b.doc.apply ((docBound dm annexed b.isReduction).value L) env

theorem C20_builtins_compute_documented : C20_statement :=
  fun b hb dm annexed L env => (Gen.all_correct b hb).run_eq dm annexed L env

/-- All per-built-in facts: code = formula on every range, bounds, written argument, reduction kind, same
domain of definition, statement independent of the setting. -/
theorem C20_all_correct : ∀ b ∈ Gen.table, Correct b := Gen.all_correct

/-- The loop bound generated under each setting is the documented one. -/
theorem C20_bounds_documented :
    ∀ b ∈ Gen.table, ∀ dm annexed, b.bound dm annexed = docBound dm annexed b.isReduction :=
  fun b hb => (Gen.all_correct b hb).bounds

/-- `DO df = lo, lo+n-1` executes its body at exactly the DoFs `lo..lo+n-1`, once each, in order. -/
theorem C20_dof_loop_covers_range (body : Stmt) (lo n : Nat) (env : Env) :
    loopN body lo n env = (visits lo n).foldl (fun e df => exec body df e) env
    ∧ visits lo n = List.range' lo n
    ∧ ∀ df, (visits lo n).count df = if lo ≤ df ∧ df < lo + n then 1 else 0 :=
  ⟨loopN_eq_foldl body lo n env, visits_eq_range' lo n, count_visits lo n⟩

/-- Element-wise built-ins, every upper bound `n`, every statement `f_t(df) = e`: after the loop each DoF of
`1..n` of the target holds `e` evaluated on the *initial* values at that DoF (so `inc_` built-ins that read
their own target are covered), and nothing else changed. -/
theorem C20_elementwise_loop (t : Nat) (e : Expr) (n : Nat) (env : Env) :
    (∀ i df, (loopN (.fassign t e) 1 n env).fld i df
        = if i = t ∧ 1 ≤ df ∧ df ≤ n then eval env df e else env.fld i df)
    ∧ (loopN (.fassign t e) 1 n env).scal = env.scal := by
  rw [loop_fassign]; exact ⟨fun _ _ => rfl, rfl⟩

/-- OpenMP-parallelised element-wise loops: executing the statement once per DoF of `1..n` in *any* order
(any interleaving of whole iterations across threads) gives the result of the sequential loop. -/
theorem C20_elementwise_order_irrelevant (t : Nat) (e : Expr) (n : Nat) (l : List Nat)
    (hp : l.Perm (visits 1 n)) (env : Env) :
    l.foldl (fun en df => exec (.fassign t e) df en) env = loopN (.fassign t e) 1 n env :=
  loop_fassign_any_order t e n l hp env

/-- Reductions, every upper bound `n`: zero-initialisation followed by the accumulation loop leaves
`Σ_{df ∈ 1..n} e(df)` in the reduction variable whatever it held before, and changes nothing else. -/
theorem C20_reduction_is_sum (t : Nat) (z rhs e : Expr) (hz : ∀ env, eval env 0 z = 0)
    (h : ∀ env df, eval env df rhs = env.scal t + eval env df e) (hu : usesScal t e = false)
    (n : Nat) (env : Env) :
    ((Code.mk [.sassign t z] 1 (.sassign t rhs)).run n env).scal t
        = sumOver (fun df => eval env df e) (dofs n)
    ∧ (∀ i, i ≠ t → ((Code.mk [.sassign t z] 1 (.sassign t rhs)).run n env).scal i = env.scal i)
    ∧ ((Code.mk [.sassign t z] 1 (.sassign t rhs)).run n env).fld = env.fld := by
  rw [implements_sum hz h hu n env]
  refine ⟨by simp [Doc.apply], fun i hi => by simp [Doc.apply, hi], rfl⟩

/-- The sum does not depend on the order in which the DoFs (or per-thread partial sums) are added. -/
theorem C20_reduction_order_irrelevant (f : Nat → Rat) {l1 l2 : List Nat} (h : l1.Perm l2) :
    sumOver f l1 = sumOver f l2 := sumOver_perm f h

theorem C20_reduction_partial_sums (f : Nat → Rat) (l1 l2 : List Nat) :
    sumOver f (l1 ++ l2) = sumOver f l1 + sumOver f l2 := sumOver_append f l1 l2

/-- OpenMP `reduction(+:s)` semantics (OpenMP 5.2 §5.5.8): every thread accumulates its share of the
iterations into a private copy initialised to 0, and the copies are added to the original value at the end.
Whatever the schedule (any split of the DoFs `1..n` into per-thread chunks, in any order — `static`, `dynamic`,
`guided`, `auto`, `runtime`, with or without chunk size, or none), the result is the documented sum.  The
reproducible scheme (`l_s(1,th_idx)` per thread, then `s = s + l_s(1,th_idx)` sequentially) is the same sum.

PRECONDITION, evaluated on the generated PSy-layer text on every run by `omp_sharing_issue` in
`harness/props/c20.py`: the loop that accumulates into the scalar is work-shared under a directive that
carries `reduction(+:s)` (so that the per-thread copies exist), or it accumulates into `l_s(1,th_idx)` with
`th_idx` private, `l_s` zeroed before and summed into `s` after the parallel region.  Without that clause the
accumulation is a concurrent read-modify-write of a shared variable: see `C20_unprotected_accumulation_loses_updates`. -/
theorem C20_omp_reduction_clause (f : Nat → Rat) (n : Nat) (chunks : List (List Nat))
    (h : chunks.flatten.Perm (dofs n)) (s0 : Rat) :
    s0 + (chunks.map (sumOver f)).sum = s0 + sumOver f (dofs n) := by
  rw [← sumOver_flatten, sumOver_perm f h]

/-- Without the clause two threads may both read the old value; one contribution is lost. -/
theorem C20_unprotected_accumulation_loses_updates :
    ∃ s x y : Rat, racyTwoThreads s x y ≠ s + x + y :=
  ⟨0, 1, 1, by simp only [racyTwoThreads]; norm_num⟩

/-- Known finding C20-redundant-computation-on-reduction: a reduction loop extended into the halo
(`Dynamo0p3RedundantComputationTrans` accepts it) sums more than the owned DoFs. -/
theorem C20_reduction_over_halo_differs :
    ∃ f : Nat → Rat, sumOver f (dofs 4) ≠ sumOver f (dofs 3) :=
  ⟨fun _ => 1, by simp only [sumOver, dofs]; norm_num⟩

/-- Known finding C20-reprod-sum-read-in-region: in the reproducible scheme the shared scalar still holds its
zero-initialisation until the sequential combining loop after the parallel region has run. -/
theorem C20_reprod_sum_unavailable_before_combination :
    ∃ (f : Nat → Rat) (n : Nat), (0 : Rat) ≠ 0 + sumOver f (dofs n) :=
  ⟨fun _ => 1, 1, by simp only [sumOver, dofs]; norm_num⟩

/-! ### Loop fusion (LFRicLoopFuseTrans) -/

/-- Full-strength fusion statement: fusing any two adjacent DoF loops preserves the result.  FALSE in general
(see the two counterexamples); `LFRicLoopFuseTrans.validate` is what has to exclude the bad cases, and the
check evaluates every accepted fusion history of generated invokes against the documented formulas. -/
def C20_fusion_statement : Prop :=
  ∀ (s1 s2 : Stmt) (n : Nat) (E : Env), loopL [s1, s2] 1 n E = loopN s2 1 n (loopN s1 1 n E)

/-- Fusing `do df: s1` ; `do df: s2` into `do df: s1; s2` preserves the final state for every upper bound and all
values, provided no reduction variable (scalar written) of one statement is read or written by the other.
Field dependences need no hypothesis: a built-in statement at DoF `df` reads and writes element `df` only, so
`s2` sees exactly the values `s1` wrote at the same `df` or values `s1` never writes. -/
theorem C20_fusion_sound_partial (s1 s2 : Stmt) (hi : scalIndep s1 s2) (n : Nat) (E : Env) :
    loopL [s1, s2] 1 n E = loopN s2 1 n (loopN s1 1 n E) :=
  fusion_sound s1 s2 hi n E

/-- hypotheses satisfiable on a non-trivial pair: `f0 = a*f0` then `s2 = s2 + f0*f1` -/
example : scalIndep (.fassign 0 (.mul (.scal 0) (.fld 0))) (.sassign 2 (.add (.scal 2) (.mul (.fld 0) (.fld 1)))) := by
  intro t
  by_cases h : t = 2 <;> simp [Stmt.writesScal, Stmt.readsScal, usesScal, h] <;> omega

def fusionEnv : Env := ⟨fun _ _ => 1, fun _ => 0, fun _ => 0, fun _ => 0⟩

/-- A reduction followed by a reader of its result (`X_innerproduct/sum_X(asum, f1)` then
`inc_a_times_X(asum, f1)`, the seeded scenario): the fused loop multiplies by the *partial* sum. -/
theorem C20_fusion_reduction_then_reader_counterexample : ¬ C20_fusion_statement := by
  intro h
  have := congrArg (fun e => e.fld 1 1)
    (h (.sassign 0 (.add (.scal 0) (.fld 1))) (.fassign 1 (.mul (.scal 0) (.fld 1))) 2 fusionEnv)
  simp only [loopL, loopN, execList, exec, eval, setFld, setScal, fusionEnv] at this
  norm_num at this

/-- Known finding C20-fusion-reader-before-reduction: a reader of a scalar followed by a reduction into the same
scalar (`inc_a_times_X(asum, f1)` then `sum_X(asum, f2)`; the zero-initialisation of `asum` is placed in front
of the fused loop).  Even without the misplaced initialisation the fused loop reads partial sums. -/
theorem C20_fusion_reader_then_reduction_counterexample :
    ∃ (s1 s2 : Stmt) (n : Nat) (E : Env), loopL [s1, s2] 1 n E ≠ loopN s2 1 n (loopN s1 1 n E) := by
  refine ⟨.fassign 1 (.mul (.scal 0) (.fld 1)), .sassign 0 (.add (.scal 0) (.fld 1)), 2,
    ⟨fun _ _ => 1, fun _ => 1, fun _ => 0, fun _ => 0⟩, ?_⟩
  intro h
  have := congrArg (fun e => e.fld 1 2) h
  simp only [loopL, loopN, execList, exec, eval, setFld, setScal] at this
  norm_num at this

/-- With the layout of the developer guide (owned DoFs first) the annexed range contains the owned range:
computing annexed DoFs never loses an owned DoF. -/
theorem C20_annexed_range_covers_owned (L : Layout) (h : L.owned ≤ L.annexed) (df : Nat)
    (hdf : df ∈ dofs ((docBound true false false).value L)) : df ∈ dofs ((docBound true true false).value L) := by
  simp only [docBound, Bound.value, mem_dofs] at *
  simp at *
  omega

/-- Every built-in of the table whose result is an integer-valued field has a right-hand side that stays
inside the integers (no `/`, `**`, `MOD`; `INT(..)` of a real field is accepted) … -/
theorem C20_integer_builtins_syntax :
    ∀ b ∈ Gen.table, b.isIntArg b.doc.target = true →
      intValued b.isIntArg b.code.body.rhs = true := by decide

/-- … hence, whenever the integer-typed arguments hold integers, so does every element the generated loop
writes: modelling integer fields inside the rationals loses nothing. -/
theorem C20_integer_builtins_closed (b : Builtin) (hb : b ∈ Gen.table) (hint : b.isIntArg b.doc.target = true)
    (env : Env) (df : Nat)
    (hf : ∀ i, b.isIntArg i = true → IsInt (env.fld i df)) (hs : ∀ i, b.isIntArg i = true → IsInt (env.scal i)) :
    IsInt (eval env df b.code.body.rhs) :=
  eval_isInt b.isIntArg env df hf hs _ (C20_integer_builtins_syntax b hb hint)

/-! ## Non-vacuity and sanity evaluations -/

example : Gen.b_int_X_plus_Y ∈ Gen.table := by simp [Gen.table]
example : Gen.b_int_X_plus_Y.isIntArg Gen.b_int_X_plus_Y.doc.target = true := by decide


example : 0 < Gen.table.length := by decide

/-- hypotheses of `C20_reduction_is_sum` are satisfiable: the exported inner-product statement -/
example : ∀ env df, eval env df (.add (.scal 0) (.mul (.fld 1) (.fld 2)))
    = env.scal 0 + eval env df (.mul (.fld 1) (.fld 2)) := fun _ _ => rfl
example : usesScal 0 (.mul (.fld 1) (.fld 2)) = false := by decide
example : docBound false true false = .undf ∧ docBound true false false = .owned
    ∧ docBound true true false = .annexed ∧ docBound true true true = .owned := by decide
example : visits 1 4 = [1, 2, 3, 4] := by decide
example : [3, 1, 4, 2].Perm (visits 1 4) := by decide
example : ([[3, 1], [], [4, 2]] : List (List Nat)).flatten.Perm (dofs 4) := by decide
example : dofs 3 = [1, 2, 3] := by decide

/-- a *wrong* lowering is refuted by the model: `X_minus_Y` with swapped operands differs from the formula -/
theorem C20_model_detects_swapped_operands :
    ¬ (∀ env df, eval env df (.sub (.fld 2) (.fld 1)) = eval env df (.sub (.fld 1) (.fld 2))) := by
  intro h
  have := h ⟨fun i _ => if i = 1 then 1 else 0, fun _ => 0, fun _ => 0, fun _ => 0⟩ 1
  simp only [eval] at this
  norm_num at this
  exact absurd this (by decide)

end C20
