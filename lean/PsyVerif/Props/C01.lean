import PsyVerif.Model.Frontend
import PsyVerif.Lemmas.MiniFSem
import PsyVerif.Lemmas.Frontend
/-! # C01 — Reading and re-writing Fortran preserves program behaviour

Model: `Model/Frontend.lean` (`Src`, standard semantics `run`/`execSrc`/`execWhere`, lowering
`lower` mirroring `Fparser2Reader`); lemmas: `Lemmas/Frontend.lean` (WHERE, rank 1 and 2).
The model follows the reader with the two committed fixes (WHERE loop extent `upper - lower + 1`;
case-insensitive construct-name check).

What is proved (all stores, all array extents and bounds, every `fuel` of the DO WHILE semantics):
* `C01_lower_sound` — whole programs (arbitrarily nested SELECT CASE, IF / ELSE IF, DO with
  optional step, DO WHILE / DO forever, named DO / IF constructs, EXIT / CYCLE / GO TO / labelled
  statements, WHERE / ELSEWHERE of rank 1 and 2, array assignment, CodeBlocks): if every WHERE of
  the program is refused (CodeBlock) or elemental (`good`), the lowered program behaves as the
  source program.  Corollaries per construct: `C01_lower_case_sound` (ALL case lists),
  `C01_lower_do_sound`, `C01_lower_if_sound`, `C01_lower_while_sound`.
* `C01_lower_where_sound_partial` — rank-1 and rank-2 WHERE: under the decidable side condition
  `whereElemental` the generated loop nest computes the STANDARD semantics (masks once, statement
  by statement over the whole shape) at every location but its fresh loop variables.
* CodeBlocks: `C01_lower_codeBlock_id` (verbatim re-emission: lowering is the identity on a
  CodeBlock), `C01_lower_jump`, `C01_named_do_refused` / `C01_named_do_lowered` (a named DO is
  kept whole iff its name is referred to inside), `C01_named_if_dropped`, `C01_where_refused`,
  `C01_codeBlock_exec`.
* `C01_lowered_is_minif` / `toMiniF_exec` — a lowered program without CodeBlocks and WHILE loops
  IS a MiniF program with the same `MiniF.exec`.
* the pinned reader is wrong outside the side condition: `C01_statement` (full claim) is refuted
  by `C01_statement_false`; kernel-checked witnesses `C01_where_sum_counterexample`,
  `C01_where_stride_counterexample`, `C01_where_element_counterexample` (three known findings).
Conventions: the first matching CASE is executed (= the unique match for standard-conforming,
non-overlapping cases); a lowered WHERE leaves `extent + 1` in its loop variables and the source
semantics of `whereC` does the same to these scratch variables (`whereScratch`); EXIT / CYCLE /
GO TO are opaque (identity) in the model — the lowering only wraps them in CodeBlocks and their
behaviour is checked end to end (gfortran) by the harness; array reductions (SUM, MAXVAL, MINVAL,
PRODUCT of a rank-1 array) are evaluated over the declared extent. -/
namespace C01
open MiniF

variable {fuel : Nat}

/-! ## SELECT CASE -/

theorem litE_eval (n : Int) (σ : Store) : eval (litE n) σ = n := by
  unfold litE
  split
  · simp [eval, evalUn]
  · rfl

theorem b2i_ne_zero (b : Bool) : (b2i b ≠ 0) ↔ b = true := by
  cases b <;> simp [b2i]

theorem caseCond_eval (lg : Bool) (sel : Expr) (cv : CaseVal) (σ : Store) :
    (eval (caseCond lg sel cv) σ ≠ 0) ↔ matchVal lg (eval sel σ) cv = true := by
  cases cv with
  | val c =>
    by_cases h : lg
    · simp [caseCond, matchVal, h, eval, evalBin, b2i_ne_zero]
    · simp [caseCond, matchVal, h, eval, evalBin, b2i_ne_zero, litE_eval]
  | range lo hi =>
    cases lo <;> cases hi <;>
      simp [caseCond, matchVal, eval, evalBin, b2i_ne_zero, litE_eval, b2i]
    all_goals (try (split <;> split <;> simp_all))

theorem caseConds_eval (lg : Bool) (sel : Expr) (vals : List CaseVal) (σ : Store) :
    (eval (caseConds lg sel vals) σ ≠ 0) ↔ vals.any (matchVal lg (eval sel σ)) = true := by
  induction vals with
  | nil => simp [caseConds, eval]
  | cons v vs ih =>
    cases vs with
    | nil => simpa [caseConds] using caseCond_eval lg sel v σ
    | cons w ws =>
      have h1 := caseCond_eval lg sel v σ
      simp only [caseConds, eval, evalBin, List.any_cons] at ih ⊢
      rw [b2i_ne_zero]
      simp only [Bool.or_eq_true, bne_iff_ne, ne_eq] at h1 ih ⊢
      rw [h1, ih]

/-- a case chain in which no case matched leaves the store unchanged -/
theorem run_chain_nomatch (env : Env) (s : Src) :
    wf s true = true → ∀ lg v σ, (run fuel env s lg v σ).1 = false → (run fuel env s lg v σ).2 = σ := by
  induction s with
  | caseItem vals body rest _ ihr =>
    intro h lg v σ
    simp only [wf, Bool.and_eq_true] at h
    simp only [run]
    split
    · simp
    · exact ihr h.2 lg v σ
  | caseDefault body rest _ ihr =>
    intro h lg v σ
    simp only [run]
    split <;> simp_all
  | caseEnd => intro _ lg v σ _; rfl
  | _ => intro h; simp [wf] at h

/-- the leaf obligation of the whole-program theorem: a lowered WHERE behaves as the
standard semantics (with the scratch-variable convention of `run`) -/
def WhereLeaf (fuel : Nat) (env : Env) : Prop :=
  ∀ tag wv cl s, lowerWhere env wv cl = some s → whereElemental env wv cl = true →
    ∀ σ, execSrc fuel env s σ = execSrc fuel env (.whereC tag wv cl) σ

theorem low_sound (env : Env) (hw : WhereLeaf fuel env) (s : Src) :
    (wf s false = true → good env s = true → ∀ σ, execSrc fuel env (lower env s) σ = execSrc fuel env s σ) ∧
    (wf s true = true → good env s = true → ∀ lg sel d σ,
      (run fuel env (low env s lg sel d) false 0 σ).2 =
        if (run fuel env s lg (eval sel σ) σ).1 then (run fuel env s lg (eval sel σ) σ).2
        else (run fuel env d false 0 σ).2) := by
  induction s with
  | skip => exact ⟨fun _ _ _ => rfl, fun h => by simp [wf] at h⟩
  | assign x e => exact ⟨fun _ _ _ => rfl, fun h => by simp [wf] at h⟩
  | store1 a i e => exact ⟨fun _ _ _ => rfl, fun h => by simp [wf] at h⟩
  | store2 a i j e => exact ⟨fun _ _ _ => rfl, fun h => by simp [wf] at h⟩
  | arrAssign t a sc rhs => exact ⟨fun _ _ _ => rfl, fun h => by simp [wf] at h⟩
  | codeBlock s _ => exact ⟨fun _ _ _ => rfl, fun h => by simp [wf] at h⟩
  | jump t k n => exact ⟨fun _ _ _ => rfl, fun h => by simp [wf] at h⟩
  | doWhile c b ih =>
    refine ⟨fun h g σ => ?_, fun h => by simp [wf] at h⟩
    simp only [wf, Bool.and_eq_true, Bool.not_eq_true'] at h
    simp only [good] at g
    have hb := ih.1 h.2 g
    simp only [execSrc, lower] at hb ⊢
    simp only [low, run]
    have hf : (fun τ => (run fuel env (low env b false (.lit 0) .skip) false 0 τ).2) =
        (fun τ => (run fuel env b false 0 τ).2) := funext hb
    rw [hf]
  | namedDo tag name inner ih =>
    refine ⟨fun h g σ => ?_, fun h => by simp [wf] at h⟩
    simp only [wf, Bool.and_eq_true, Bool.not_eq_true'] at h
    simp only [good] at g
    simp only [lower, low]
    split
    · rfl
    · rename_i hn
      simp only [Bool.or_eq_true] at g
      rcases g with g | g
      · exact absurd g hn
      · exact ih.1 h.2 g σ
  | namedIf name inner ih =>
    refine ⟨fun h g σ => ?_, fun h => by simp [wf] at h⟩
    simp only [wf, Bool.and_eq_true, Bool.not_eq_true'] at h
    simp only [good] at g
    exact ih.1 h.2 g σ
  | seq a b iha ihb =>
    refine ⟨fun h g σ => ?_, fun h => by simp [wf] at h⟩
    simp only [wf, Bool.and_eq_true, Bool.not_eq_true'] at h
    simp only [good, Bool.and_eq_true] at g
    have ha := iha.1 h.1.2 g.1
    have hb := ihb.1 h.2 g.2
    simp only [execSrc, lower] at ha hb ⊢
    simp only [low, run, ha, hb]
  | ifc c t f iht ihf =>
    refine ⟨fun h g σ => ?_, fun h => by simp [wf] at h⟩
    simp only [wf, Bool.and_eq_true, Bool.not_eq_true'] at h
    simp only [good, Bool.and_eq_true] at g
    have ha := iht.1 h.1.2 g.1
    have hb := ihf.1 h.2 g.2
    simp only [execSrc, lower] at ha hb ⊢
    simp only [low, run, ha, hb]
  | doc v lo hi st b ih =>
    refine ⟨fun h g σ => ?_, fun h => by simp [wf] at h⟩
    simp only [wf, Bool.and_eq_true, Bool.not_eq_true'] at h
    simp only [good] at g
    have hb := ih.1 h.2 g
    simp only [execSrc, lower] at hb ⊢
    simp only [low, run]
    have hf : (fun τ => (run fuel env (low env b false (.lit 0) .skip) false 0 τ).2) =
        (fun τ => (run fuel env b false 0 τ).2) := funext hb
    rw [hf]
    cases st <;> rfl
  | selectCase lg sel cs ih =>
    refine ⟨fun h g σ => ?_, fun h => by simp [wf] at h⟩
    simp only [wf, Bool.and_eq_true, Bool.not_eq_true'] at h
    simp only [good] at g
    have hc := ih.2 h.2 g lg sel .skip σ
    simp only [execSrc, lower, low, run] at hc ⊢
    rw [hc]
    split
    · rfl
    · rename_i hn
      exact (run_chain_nomatch env cs h.2 lg _ σ (by simpa using hn)).symm
  | caseItem vals body rest ihb ihr =>
    refine ⟨fun h => by simp [wf] at h, fun h g lg sel d σ => ?_⟩
    simp only [wf, Bool.and_eq_true] at h
    simp only [good, Bool.and_eq_true] at g
    have hb := ihb.1 h.1.2 g.1 σ
    have hr := ihr.2 h.2 g.2 lg sel d σ
    simp only [execSrc, lower] at hb
    simp only [low, run]
    by_cases hm : vals.any (matchVal lg (eval sel σ)) = true
    · have hc := (caseConds_eval lg sel vals σ).2 hm
      simp only [ne_eq] at hc
      simp [hm, hc, hb]
    · have hc : eval (caseConds lg sel vals) σ = 0 :=
        Decidable.byContradiction fun h' => hm ((caseConds_eval lg sel vals σ).1 h')
      simp [hm, hc, hr]
  | caseDefault body rest ihb ihr =>
    refine ⟨fun h => by simp [wf] at h, fun h g lg sel d σ => ?_⟩
    simp only [wf, Bool.and_eq_true] at h
    simp only [good, Bool.and_eq_true] at g
    have hb := ihb.1 h.1.2 g.1 σ
    have hr := ihr.2 h.2 g.2 lg sel (low env body false (.lit 0) .skip) σ
    simp only [execSrc, lower] at hb
    simp only [low, run]
    rw [hr, hb]
    split <;> simp
  | caseEnd =>
    refine ⟨fun h => by simp [wf] at h, fun _ _ lg sel d σ => ?_⟩
    simp [low, run]
  | whereC tag wv cl =>
    refine ⟨fun _ g σ => ?_, fun h => by simp [wf] at h⟩
    simp only [good, Bool.or_eq_true, Option.isNone_iff_eq_none] at g
    simp only [lower, low]
    cases hl : lowerWhere env wv cl with
    | none => rfl
    | some s =>
      rcases g with g | g
      · rw [hl] at g; cases g
      · exact hw tag wv cl s hl g σ

/-- `Src` programs without source-only constructs are MiniF programs with the same semantics -/
theorem toMiniF_exec (env : Env) (s : Src) : ∀ m, toMiniF s = some m → ∀ σ, execSrc fuel env s σ = exec m σ := by
  induction s with
  | skip => intro m h σ; cases h; rfl
  | assign x e => intro m h σ; cases h; rfl
  | store1 a i e => intro m h σ; cases h; rfl
  | store2 a i j e => intro m h σ; cases h; rfl
  | seq a b iha ihb =>
    intro m h σ
    simp only [toMiniF] at h
    cases ha : toMiniF a with
    | none => simp [ha] at h
    | some x =>
      cases hb : toMiniF b with
      | none => simp [ha, hb] at h
      | some y =>
        simp only [ha, hb, Option.some.injEq] at h
        subst h
        have h1 := iha x ha
        have h2 := ihb y hb
        simp only [execSrc] at h1 h2 ⊢
        simp only [run, exec, h1, h2]
  | ifc c t f iht ihf =>
    intro m h σ
    simp only [toMiniF] at h
    cases ha : toMiniF t with
    | none => simp [ha] at h
    | some x =>
      cases hb : toMiniF f with
      | none => simp [ha, hb] at h
      | some y =>
        simp only [ha, hb, Option.some.injEq] at h
        subst h
        have h1 := iht x ha
        have h2 := ihf y hb
        simp only [execSrc] at h1 h2 ⊢
        simp only [run, exec, h1, h2]
  | doc v lo hi st b ih =>
    intro m h σ
    cases st with
    | none => simp [toMiniF] at h
    | some e =>
      simp only [toMiniF] at h
      cases hb : toMiniF b with
      | none => simp [hb] at h
      | some x =>
        simp only [hb, Option.some.injEq] at h
        subst h
        have h1 := ih x hb
        simp only [execSrc] at h1 ⊢
        have hf : (fun τ => (run fuel env b false 0 τ).2) = exec x := funext h1
        simp only [run, exec, hf]
  | selectCase lg sel cs _ => intro m h; simp [toMiniF] at h
  | caseItem vals body rest _ _ => intro m h; simp [toMiniF] at h
  | caseDefault body rest _ _ => intro m h; simp [toMiniF] at h
  | caseEnd => intro m h; simp [toMiniF] at h
  | whereC t wv cl => intro m h; simp [toMiniF] at h
  | arrAssign t a sc rhs => intro m h; simp [toMiniF] at h
  | codeBlock s _ => intro m h; simp [toMiniF] at h
  | doWhile c b _ => intro m h; simp [toMiniF] at h
  | namedDo t n i _ => intro m h; simp [toMiniF] at h
  | namedIf n i _ => intro m h; simp [toMiniF] at h
  | jump t k n => intro m h; simp [toMiniF] at h

theorem whereLeaf (env : Env) : WhereLeaf fuel env :=
  fun tag wv cl s hl he σ => where_lowered_sound env tag wv cl s hl he σ

/-! ## The property -/

/-- **C01, full statement** (model level): lowering never changes the behaviour of a
well-formed program.  FALSE of the pinned reader (see the counterexamples): kept as a `def`. -/
def C01_statement : Prop :=
  ∀ (fuel : Nat) (env : Env) (s : Src), wf s false = true → ∀ σ, execSrc fuel env (lower env s) σ = execSrc fuel env s σ

/-- **whole programs**: if every WHERE in the program is refused (CodeBlock) or elemental
(`good`), the lowered program — IF chains for SELECT CASE, loops for WHERE, defaults for DO
steps, verbatim CodeBlocks — has the behaviour of the source program, for all inputs. -/
theorem C01_lower_sound (env : Env) (s : Src) (hwf : wf s false = true) (hg : good env s = true) (σ : Store) :
    execSrc fuel env (lower env s) σ = execSrc fuel env s σ :=
  (low_sound env (whereLeaf env) s).1 hwf hg σ

/-- **SELECT CASE** → IF chain (`==`, `>=`/`<=`, `.EQV.`, selector re-evaluated in every
test, default body last) is sound for ALL case lists: values, ranges `lo:hi`, `lo:`, `:hi`,
empty ranges, lists, default in any position or absent, integer and logical selectors.
(MiniF expressions have no side effects, so every selector is pure.) -/
theorem C01_lower_case_sound (env : Env) (lg : Bool) (sel : Expr) (cs : Src)
    (hwf : wf cs true = true) (hg : good env cs = true) (σ : Store) :
    execSrc fuel env (lower env (.selectCase lg sel cs)) σ = execSrc fuel env (.selectCase lg sel cs) σ :=
  C01_lower_sound env _ (by simpa [wf] using hwf) (by simpa [good] using hg) σ

/-- **DO**: a missing step becomes the literal 1; unconditional. -/
theorem C01_lower_do_sound (env : Env) (v : Nat) (lo hi : Expr) (st : Option Expr) (b : Src)
    (hwf : wf b false = true) (hg : good env b = true) (σ : Store) :
    execSrc fuel env (lower env (.doc v lo hi st b)) σ = execSrc fuel env (.doc v lo hi st b) σ :=
  C01_lower_sound env _ (by simpa [wf] using hwf) (by simpa [good] using hg) σ

/-- **IF / ELSE IF / ELSE** (nested IfBlocks); unconditional. -/
theorem C01_lower_if_sound (env : Env) (c : Expr) (t f : Src)
    (hwf : wf t false = true ∧ wf f false = true) (hg : good env t = true ∧ good env f = true) (σ : Store) :
    execSrc fuel env (lower env (.ifc c t f)) σ = execSrc fuel env (.ifc c t f) σ :=
  C01_lower_sound env _ (by simp [wf, hwf.1, hwf.2]) (by simp [good, hg.1, hg.2]) σ

/-- a lowered program without CodeBlocks is a MiniF program with the same behaviour (`MiniF.exec`) -/
theorem C01_lowered_is_minif (env : Env) (s : Src) (m : Stmt) (h : toMiniF (lower env s) = some m)
    (hwf : wf s false = true) (hg : good env s = true) (σ : Store) : exec m σ = execSrc fuel env s σ := by
  rw [← toMiniF_exec env _ m h σ]
  exact C01_lower_sound env s hwf hg σ

theorem whereScratch_other (wv : Nat) (sh : Option (Nat × Option Nat)) (τ : Store) (l : Loc)
    (h1 : l ≠ (wv, 0, 0)) (h2 : l ≠ (wv + 1, 0, 0)) : whereScratch wv sh τ l = τ l := by
  unfold whereScratch
  split
  · rfl
  · rw [Store.set_apply, if_neg h1]
  · split
    · rw [Store.set_apply, if_neg h2]
    · rw [Store.set_apply, if_neg h2, Store.set_apply, if_neg h1]

/-- **WHERE / ELSEWHERE, partial — rank 1 and rank 2**: for an elemental construct (every section of
the construct's rank with unit strides, sections of assigned arrays aligned with the assignments,
no reduction over an assigned array, scalar parts independent of the assigned arrays, fresh loop
variables) the generated loop nest — one loop for rank 1, `do widx2 … do widx1 …` for rank 2, with
`lbound + widx − 1` indexing per dimension — computes the STANDARD semantics (`execWhere`: masks
once, statement by statement over the whole shape) at every location other than the fresh loop
variables — for all array extents and bounds and all stores. -/
theorem C01_lower_where_sound_partial (env : Env) (tag wv : Nat) (cl : WClauses) (s : Src)
    (hl : lowerWhere env wv cl = some s) (he : whereElemental env wv cl = true) (σ : Store)
    (l : Loc) (hne : l ≠ (wv, 0, 0)) (hne1 : l ≠ (wv + 1, 0, 0)) :
    execSrc fuel env s σ l = execWhere env cl σ l := by
  rw [where_lowered_sound env tag wv cl s hl he σ]
  simp only [execSrc, run]
  exact whereScratch_other wv _ _ l hne hne1

/-- a refused WHERE (CodeBlock) keeps the source statement -/
theorem C01_where_refused (env : Env) (tag wv : Nat) (cl : WClauses) (h : lowerWhere env wv cl = none) :
    lower env (.whereC tag wv cl) = .codeBlock (.whereC tag wv cl) := by
  simp [lower, low, h]

/-- **DO WHILE / DO forever** → WhileLoop (a missing condition becomes `.TRUE.`); unconditional, every fuel. -/
theorem C01_lower_while_sound (env : Env) (c : Option Expr) (b : Src)
    (hwf : wf b false = true) (hg : good env b = true) (σ : Store) :
    execSrc fuel env (lower env (.doWhile c b)) σ = execSrc fuel env (.doWhile c b) σ :=
  C01_lower_sound env _ (by simpa [wf] using hwf) (by simpa [good] using hg) σ

/-! ### CodeBlocks: unsupported statements and named constructs -/

/-- **verbatim re-emission**: lowering is the identity on a CodeBlock -/
theorem C01_lower_codeBlock_id (env : Env) (s : Src) : lower env (.codeBlock s) = .codeBlock s := rfl

/-- EXIT / CYCLE / GO TO / labelled statements are CodeBlocks holding the statement itself -/
theorem C01_lower_jump (env : Env) (t k : Nat) (n : Option Nat) :
    lower env (.jump t k n) = .codeBlock (.jump t k n) := rfl

/-- `_do_construct_handler`: a named DO (counted or WHILE) whose name is referred to inside — by
`EXIT name` / `CYCLE name`, at any depth — is kept whole, as ONE CodeBlock holding the construct -/
theorem C01_named_do_refused (env : Env) (tag name : Nat) (inner : Src) (h : refersTo name inner = true) :
    lower env (.namedDo tag name inner) = .codeBlock (.namedDo tag name inner) := by
  simp [lower, low, h]

/-- otherwise the construct name is dropped and the DO is lowered as usual (every EXIT / CYCLE inside
becomes its own CodeBlock, by `C01_lower_jump`) -/
theorem C01_named_do_lowered (env : Env) (tag name : Nat) (inner : Src) (h : refersTo name inner = false) :
    lower env (.namedDo tag name inner) = lower env inner := by
  simp [lower, low, h]

/-- the name of an IF construct is always dropped (even if `EXIT name` refers to it: known finding
`C01-named-if-exit`, the re-written program does not compile) -/
theorem C01_named_if_dropped (env : Env) (name : Nat) (inner : Src) :
    lower env (.namedIf name inner) = lower env inner := rfl

/-- whatever a CodeBlock holds, it behaves as the statement it holds -/
theorem C01_codeBlock_exec (env : Env) (s : Src) (σ : Store) :
    execSrc fuel env (.codeBlock s) σ = execSrc fuel env s σ := rfl

/-- `rows: do i = 1, 3; do j = 1, 3; if (j > i) cycle rows; x = x + j; end do; end do rows` -/
def rowsLoop : Src :=
  .namedDo 7 500 (.doc 0 (.lit 1) (.lit 3) none
    (.doc 1 (.lit 1) (.lit 3) none
      (.seq (.ifc (.bin .gt (.var 1) (.var 0)) (.jump 8 1 (some 500)) .skip)
            (.assign 2 (.bin .add (.var 2) (.var 1))))))

/-- the same loop nest with an unnamed `cycle` -/
def rowsLoop' : Src :=
  .namedDo 7 500 (.doc 0 (.lit 1) (.lit 3) none
    (.doc 1 (.lit 1) (.lit 3) none
      (.seq (.ifc (.bin .gt (.var 1) (.var 0)) (.jump 8 1 none) .skip)
            (.assign 2 (.bin .add (.var 2) (.var 1))))))

example : lower [] rowsLoop = .codeBlock rowsLoop := by decide
example : lower [] rowsLoop' =
    .doc 0 (.lit 1) (.lit 3) (some (.lit 1))
      (.doc 1 (.lit 1) (.lit 3) (some (.lit 1))
        (.seq (.ifc (.bin .gt (.var 1) (.var 0)) (.codeBlock (.jump 8 1 none)) .skip)
              (.assign 2 (.bin .add (.var 2) (.var 1))))) := by decide
example : wf rowsLoop false = true ∧ good [] rowsLoop = true := by decide
/-- `do while (k < 3); k = k + 1; end do` from k = 0, with enough fuel and with too little -/
example : execSrc 10 [] (.doWhile (some (.bin .lt (.var 0) (.lit 3))) (.assign 0 (.bin .add (.var 0) (.lit 1))))
    (storeOf []) (0, 0, 0) = 3 := by decide +kernel
example : execSrc 2 [] (.doWhile (some (.bin .lt (.var 0) (.lit 3))) (.assign 0 (.bin .add (.var 0) (.lit 1))))
    (storeOf []) (0, 0, 0) = 2 := by decide +kernel
example : lower [] (.doWhile none .skip) = .doWhile (some (.lit 1)) .skip := by decide

/-! ### the two probed defects, on the model -/

def envW : Env := [(0, ⟨1, 5, true, 0, 0⟩), (1, ⟨1, 5, true, 0, 0⟩)]

/-- `where (a(:) > 2) a(:) = sum(a)` -/
def wSum : Src := .whereC 1 9 (.masked (.bin .gt (.sec 0 Sec.full) (.scal (.lit 2))) [⟨0, Sec.full, .red .sum 0, none⟩] .nil)
def σSum : Store := storeOf [((0, 1, 0), 1), ((0, 2, 0), 2), ((0, 3, 0), 3), ((0, 4, 0), 4), ((0, 5, 0), 5)]

/-- the lowered loop re-evaluates SUM(a): a(4) becomes 27 instead of 15 -/
theorem C01_where_sum_counterexample :
    execSrc 0 envW wSum σSum (0, 4, 0) = 15 ∧ execSrc 0 envW (lower envW wSum) σSum (0, 4, 0) = 27 := by
  decide +kernel

/-- `where (b(:) > 0) b(:) = a(5:1:-1)` -/
def wStride : Src :=
  .whereC 2 9 (.masked (.bin .gt (.sec 1 Sec.full) (.scal (.lit 0))) [⟨1, Sec.full, .sec 0 ⟨some 5, some 1, some (-1)⟩, none⟩] .nil)
def σStride : Store := storeOf
  [((0, 1, 0), 10), ((0, 2, 0), 20), ((0, 3, 0), 30), ((0, 4, 0), 40), ((0, 5, 0), 50),
   ((1, 1, 0), -1), ((1, 2, 0), 0), ((1, 3, 0), 1), ((1, 4, 0), 2), ((1, 5, 0), 3)]

/-- the stride is ignored: b(3) gets a(7) (out of bounds, 0 here) instead of a(3) = 30 -/
theorem C01_where_stride_counterexample :
    execSrc 0 envW wStride σStride (1, 3, 0) = 30 ∧ execSrc 0 envW (lower envW wStride) σStride (1, 3, 0) = 0 := by
  decide +kernel

/-- `where (a(:) > 0) a(:) = a(:) + a(1)` -/
def wElem : Src :=
  .whereC 3 9 (.masked (.bin .gt (.sec 0 Sec.full) (.scal (.lit 0)))
    [⟨0, Sec.full, .bin .add (.sec 0 Sec.full) (.scal (.idx1 0 (.lit 1))), none⟩] .nil)

/-- the element `a(1)` is re-read after it has been assigned: a(2) becomes 4 instead of 3 -/
theorem C01_where_element_counterexample :
    execSrc 0 envW wElem σSum (0, 2, 0) = 3 ∧ execSrc 0 envW (lower envW wElem) σSum (0, 2, 0) = 4 := by
  decide +kernel

theorem C01_statement_false : ¬ C01_statement := by
  intro h
  have h1 := congrArg (fun τ : Store => τ (0, 4, 0)) (h 0 envW wSum (by decide) σSum)
  have h2 := C01_where_sum_counterexample
  simp only [h2.1, h2.2] at h1
  exact absurd h1 (by decide)

/-! ### non-vacuity and sanity -/

/-- a three-statement WHERE / ELSEWHERE(mask) / ELSEWHERE over arrays with different lower bounds -/
def env₀ : Env := [(0, ⟨0, 3, true, 0, 0⟩), (1, ⟨2, 5, true, 0, 0⟩), (2, ⟨-3, 0, false, 0, 0⟩), (3, ⟨1, 9, true, 0, 0⟩)]
def w₀ : WClauses :=
  .masked (.bin .gt (.sec 0 Sec.full) (.scal (.var 7)))
    [⟨1, Sec.full, .bin .add (.sec 0 Sec.full) (.sec 3 ⟨some 4, some 7, none⟩), none⟩,
     ⟨0, Sec.full, .bin .mul (.sec 1 ⟨some 2, some 5, none⟩) (.red .sum 3), none⟩]
    (.masked (.bin .lt (.sec 2 Sec.full) (.scal (.lit 0))) [⟨2, Sec.full, .un .abs (.sec 0 Sec.full), none⟩]
      (.final [⟨1, Sec.full, .scal (.lit 0), none⟩]))

example : whereElemental env₀ 9 w₀ = true := by decide
example : (lowerWhere env₀ 9 w₀).isSome = true := by decide
example : good env₀ (.whereC 1 9 w₀) = true := by decide
example : whereElemental envW 9 (match wSum with | .whereC _ _ cl => cl | _ => .nil) = false := by decide
example : whereElemental envW 9 (match wStride with | .whereC _ _ cl => cl | _ => .nil) = false := by decide

/-- `select case (n); case (1); case default; case (2:3, 7); case (:0); end select` with bodies `x := k` -/
def sel₀ : Src :=
  .selectCase false (.var 0)
    (.caseItem [.val 1] (.assign 1 (.lit 1))
      (.caseDefault (.assign 1 (.lit 5))
        (.caseItem [.range (some 2) (some 3), .val 7] (.assign 1 (.lit 2))
          (.caseItem [.range none (some 0)] (.assign 1 (.lit 3)) .caseEnd))))

example : wf sel₀ false = true ∧ good [] sel₀ = true := by decide
example : lower [] sel₀ =
    .ifc (.bin .eq (.var 0) (.lit 1)) (.assign 1 (.lit 1))
      (.ifc (.bin .or (.bin .and (.bin .ge (.var 0) (.lit 2)) (.bin .le (.var 0) (.lit 3))) (.bin .eq (.var 0) (.lit 7)))
        (.assign 1 (.lit 2))
        (.ifc (.bin .le (.var 0) (.lit 0)) (.assign 1 (.lit 3)) (.assign 1 (.lit 5)))) := by decide
example : execSrc 0 [] sel₀ (storeOf [((0, 0, 0), 7)]) (1, 0, 0) = 2 := by decide +kernel
example : execSrc 0 [] sel₀ (storeOf [((0, 0, 0), 4)]) (1, 0, 0) = 5 := by decide +kernel
example : execSrc 0 [] sel₀ (storeOf [((0, 0, 0), -4)]) (1, 0, 0) = 3 := by decide +kernel
example : execSrc 0 env₀ (lower env₀ (.whereC 1 9 w₀)) (storeOf [((0, 1, 0), 4), ((3, 5, 0), 2)]) (1, 3, 0) = 6 := by
  decide +kernel

/-- rank 2: `where (m(:,:) > 1) q(:,:) = m(:,:) + p(2:4, 0:3); m(:,:) = 0; elsewhere q(:,:) = 3`
with `m(2:4, 0:3)`, `q(0:2, 1:4)`, `p(1:5, 0:3)` -/
def env₂ : Env := [(0, ⟨2, 4, true, 0, 3⟩), (1, ⟨0, 2, true, 1, 4⟩), (2, ⟨1, 5, true, 0, 3⟩)]
def w₂ : WClauses :=
  .masked (.bin .gt (.sec2 0 Sec.full Sec.full) (.scal (.lit 1)))
    [⟨1, Sec.full, .bin .add (.sec2 0 Sec.full Sec.full) (.sec2 2 ⟨some 2, some 4, none⟩ ⟨some 0, some 3, none⟩), some Sec.full⟩,
     ⟨0, Sec.full, .scal (.lit 0), some Sec.full⟩]
    (.final [⟨1, Sec.full, .scal (.lit 3), some Sec.full⟩])

example : whereElemental env₂ 9 w₂ = true := by decide
example : whereRank2 env₂ w₂ = true := by decide
example : lowerWhere env₂ 9 w₂ = some
    (.doc 10 (.lit 1) (.bin .add (.bin .sub (.lit 3) (.lit 0)) (.lit 1)) (some (.lit 1))
      (.doc 9 (.lit 1) (.bin .add (.bin .sub (.lit 4) (.lit 2)) (.lit 1)) (some (.lit 1))
        (lowerClauses env₂ 9 w₂))) := by decide
example : execSrc 0 env₂ (lower env₂ (.whereC 1 9 w₂)) (storeOf [((0, 3, 2), 5), ((2, 3, 2), 7)]) (1, 1, 3) = 12 := by
  decide +kernel
example : execSrc 0 env₂ (.whereC 1 9 w₂) (storeOf [((0, 3, 2), 5), ((2, 3, 2), 7)]) (1, 1, 3) = 12 := by
  decide +kernel
example : execSrc 0 env₂ (.whereC 1 9 w₂) (storeOf [((0, 3, 2), 5), ((2, 3, 2), 7)]) (1, 0, 1) = 3 := by
  decide +kernel
/-- `where (a(:) > 2) a(:) = maxval(b)`: elemental (the reduction reads an array that is not assigned) -/
example : whereElemental envW 9
    (.masked (.bin .gt (.sec 0 Sec.full) (.scal (.lit 2))) [⟨0, Sec.full, .red .maxval 1, none⟩] .nil) = true := by decide
/-- a reduction with a named `dim` argument is refused (CodeBlock) -/
example : lowerWhere envW 9
    (.masked (.bin .gt (.sec 0 Sec.full) (.scal (.lit 2))) [⟨0, Sec.full, .redDim .maxval 1, none⟩] .nil) = none := by decide
example : eval (redExpr .maxval 0 1 3) σSum = 3 ∧ eval (redExpr .minval 0 1 5) σSum = 1 ∧
    eval (redExpr .sum 0 1 5) σSum = 15 ∧ eval (redExpr .product 0 1 4) σSum = 24 := by decide +kernel
/-- a rank-1 section inside a rank-2 WHERE is refused (CodeBlock) -/
example : lowerWhere env₂ 9 (.masked (.bin .gt (.sec2 0 Sec.full Sec.full) (.sec 2 Sec.full)) [] .nil) = none := by
  decide

end C01
