import PsyVerif.Model.Frontend
import PsyVerif.Lemmas.MiniFSem
/-! # C01 — Reading and re-writing Fortran preserves program behaviour -/
namespace C01
open MiniF

/-! ## SELECT CASE -/

theorem litE_eval (n : Int) (σ : Store) : eval (litE n) σ = n := by
  unfold litE
  split
  · simp [eval, evalUn]
  · rfl

theorem b2i_ne_zero (b : Bool) : (b2i b ≠ 0) ↔ b = true := by
  cases b <;> simp [b2i]

theorem caseCond_eval (lg : Bool) (sel : Expr) (cv : CaseVal) (σ : Store) :
    (eval (caseCond lg sel cv) σ ≠ 0) ↔ matchVal lg (eval sel σ) cv = true := by
  cases cv with
  | val c =>
    by_cases h : lg
    · simp [caseCond, matchVal, h, eval, evalBin, b2i_ne_zero]
    · simp [caseCond, matchVal, h, eval, evalBin, b2i_ne_zero, litE_eval]
  | range lo hi =>
    cases lo <;> cases hi <;>
      simp [caseCond, matchVal, eval, evalBin, b2i_ne_zero, litE_eval, b2i]
    all_goals (try (split <;> split <;> simp_all))

end C01
