import PsyVerif.Model.Frontend
import PsyVerif.Lemmas.MiniFSem
/-! # C01 — Reading and re-writing Fortran preserves program behaviour -/
namespace C01
open MiniF

/-! ## SELECT CASE -/

theorem litE_eval (n : Int) (σ : Store) : eval (litE n) σ = n := by
  unfold litE
  split
  · simp [eval, evalUn]
  · rfl

theorem b2i_ne_zero (b : Bool) : (b2i b ≠ 0) ↔ b = true := by
  cases b <;> simp [b2i]

theorem caseCond_eval (lg : Bool) (sel : Expr) (cv : CaseVal) (σ : Store) :
    (eval (caseCond lg sel cv) σ ≠ 0) ↔ matchVal lg (eval sel σ) cv = true := by
  cases cv with
  | val c =>
    by_cases h : lg
    · simp [caseCond, matchVal, h, eval, evalBin, b2i_ne_zero]
    · simp [caseCond, matchVal, h, eval, evalBin, b2i_ne_zero, litE_eval]
  | range lo hi =>
    cases lo <;> cases hi <;>
      simp [caseCond, matchVal, eval, evalBin, b2i_ne_zero, litE_eval, b2i]
    all_goals (try (split <;> split <;> simp_all))

theorem caseConds_eval (lg : Bool) (sel : Expr) (vals : List CaseVal) (σ : Store) :
    (eval (caseConds lg sel vals) σ ≠ 0) ↔ vals.any (matchVal lg (eval sel σ)) = true := by
  induction vals with
  | nil => simp [caseConds, eval]
  | cons v vs ih =>
    cases vs with
    | nil => simpa [caseConds] using caseCond_eval lg sel v σ
    | cons w ws =>
      have h1 := caseCond_eval lg sel v σ
      simp only [caseConds, eval, evalBin, List.any_cons] at ih ⊢
      rw [b2i_ne_zero]
      simp only [Bool.or_eq_true, bne_iff_ne, ne_eq] at h1 ih ⊢
      rw [h1, ih]

/-- a case chain in which no case matched leaves the store unchanged -/
theorem run_chain_nomatch (env : Env) (s : Src) :
    wf s true = true → ∀ lg v σ, (run env s lg v σ).1 = false → (run env s lg v σ).2 = σ := by
  induction s with
  | caseItem vals body rest _ ihr =>
    intro h lg v σ
    simp only [wf, Bool.and_eq_true] at h
    simp only [run]
    split
    · simp
    · exact ihr h.2 lg v σ
  | caseDefault body rest _ ihr =>
    intro h lg v σ
    simp only [run]
    split <;> simp_all
  | caseEnd => intro _ lg v σ _; rfl
  | _ => intro h; simp [wf] at h

/-- the leaf obligation of the whole-program theorem: a lowered WHERE behaves as the
standard semantics (with the scratch-variable convention of `run`) -/
def WhereLeaf (env : Env) : Prop :=
  ∀ tag wv cl s, lowerWhere env wv cl = some s → whereElemental env wv cl = true →
    ∀ σ, execSrc env s σ = execSrc env (.whereC tag wv cl) σ

theorem low_sound (env : Env) (hw : WhereLeaf env) (s : Src) :
    (wf s false = true → good env s = true → ∀ σ, execSrc env (lower env s) σ = execSrc env s σ) ∧
    (wf s true = true → good env s = true → ∀ lg sel d σ,
      (run env (low env s lg sel d) false 0 σ).2 =
        if (run env s lg (eval sel σ) σ).1 then (run env s lg (eval sel σ) σ).2
        else (run env d false 0 σ).2) := by
  induction s with
  | skip => exact ⟨fun _ _ _ => rfl, fun h => by simp [wf] at h⟩
  | assign x e => exact ⟨fun _ _ _ => rfl, fun h => by simp [wf] at h⟩
  | store1 a i e => exact ⟨fun _ _ _ => rfl, fun h => by simp [wf] at h⟩
  | store2 a i j e => exact ⟨fun _ _ _ => rfl, fun h => by simp [wf] at h⟩
  | arrAssign t a sc rhs => exact ⟨fun _ _ _ => rfl, fun h => by simp [wf] at h⟩
  | codeBlock s _ => exact ⟨fun _ _ _ => rfl, fun h => by simp [wf] at h⟩
  | seq a b iha ihb =>
    refine ⟨fun h g σ => ?_, fun h => by simp [wf] at h⟩
    simp only [wf, Bool.and_eq_true, Bool.not_eq_true'] at h
    simp only [good, Bool.and_eq_true] at g
    have ha := iha.1 h.1.2 g.1
    have hb := ihb.1 h.2 g.2
    simp only [execSrc, lower] at ha hb ⊢
    simp only [low, run, ha, hb]
  | ifc c t f iht ihf =>
    refine ⟨fun h g σ => ?_, fun h => by simp [wf] at h⟩
    simp only [wf, Bool.and_eq_true, Bool.not_eq_true'] at h
    simp only [good, Bool.and_eq_true] at g
    have ha := iht.1 h.1.2 g.1
    have hb := ihf.1 h.2 g.2
    simp only [execSrc, lower] at ha hb ⊢
    simp only [low, run, ha, hb]
  | doc v lo hi st b ih =>
    refine ⟨fun h g σ => ?_, fun h => by simp [wf] at h⟩
    simp only [wf, Bool.and_eq_true, Bool.not_eq_true'] at h
    simp only [good] at g
    have hb := ih.1 h.2 g
    simp only [execSrc, lower] at hb ⊢
    simp only [low, run]
    have hf : (fun τ => (run env (low env b false (.lit 0) .skip) false 0 τ).2) =
        (fun τ => (run env b false 0 τ).2) := funext hb
    rw [hf]
    cases st <;> rfl
  | selectCase lg sel cs ih =>
    refine ⟨fun h g σ => ?_, fun h => by simp [wf] at h⟩
    simp only [wf, Bool.and_eq_true, Bool.not_eq_true'] at h
    simp only [good] at g
    have hc := ih.2 h.2 g lg sel .skip σ
    simp only [execSrc, lower, low, run] at hc ⊢
    rw [hc]
    split
    · rfl
    · rename_i hn
      exact (run_chain_nomatch env cs h.2 lg _ σ (by simpa using hn)).symm
  | caseItem vals body rest ihb ihr =>
    refine ⟨fun h => by simp [wf] at h, fun h g lg sel d σ => ?_⟩
    simp only [wf, Bool.and_eq_true] at h
    simp only [good, Bool.and_eq_true] at g
    have hb := ihb.1 h.1.2 g.1 σ
    have hr := ihr.2 h.2 g.2 lg sel d σ
    simp only [execSrc, lower] at hb
    simp only [low, run]
    by_cases hm : vals.any (matchVal lg (eval sel σ)) = true
    · have hc := (caseConds_eval lg sel vals σ).2 hm
      simp only [ne_eq] at hc
      simp [hm, hc, hb]
    · have hc : eval (caseConds lg sel vals) σ = 0 :=
        Decidable.byContradiction fun h' => hm ((caseConds_eval lg sel vals σ).1 h')
      simp [hm, hc, hr]
  | caseDefault body rest ihb ihr =>
    refine ⟨fun h => by simp [wf] at h, fun h g lg sel d σ => ?_⟩
    simp only [wf, Bool.and_eq_true] at h
    simp only [good, Bool.and_eq_true] at g
    have hb := ihb.1 h.1.2 g.1 σ
    have hr := ihr.2 h.2 g.2 lg sel (low env body false (.lit 0) .skip) σ
    simp only [execSrc, lower] at hb
    simp only [low, run]
    rw [hr, hb]
    split <;> simp
  | caseEnd =>
    refine ⟨fun h => by simp [wf] at h, fun _ _ lg sel d σ => ?_⟩
    simp [low, run]
  | whereC tag wv cl =>
    refine ⟨fun _ g σ => ?_, fun h => by simp [wf] at h⟩
    simp only [good, Bool.or_eq_true, Option.isNone_iff_eq_none] at g
    simp only [lower, low]
    cases hl : lowerWhere env wv cl with
    | none => rfl
    | some s =>
      rcases g with g | g
      · rw [hl] at g; cases g
      · exact hw tag wv cl s hl g σ

end C01
