import PsyVerif.Model.PSyData
/-! # C28 — PSyData regions are entered and left in matched pairs

Model: `PsyVerif/Model/PSyData.lean`.  MODE: **fixed** — `C28.validate`/`C28.safe` model
`PSyDataTrans.validate` with `fixes/C28-exit-in-region.patch` applied (regions containing an
EXIT/CYCLE of a loop outside the region, a GOTO, the target of a GOTO, or a RETURN are
refused).  The pinned rule (`excluded_node_types = (Return,)` only) is `C28.validatePinned`;
`exit_in_region_counterexample` shows, kernel-checked, that it does not give the property.

Quantification: all programs of `C28.Stmt` (arbitrary nesting of IF, loops, EXIT, CYCLE, RETURN,
forward GOTO), all histories of accepted `apply` calls of the four transformations at any
placement, and all inputs = all oracles `Nat → Nat` answering every branch condition and
every loop trip count. -/
namespace C28

/-- Properly nested, matched start/stop events. -/
inductive Dyck : List Ev → Prop
  | nil : Dyck []
  | wrap (v : Nat) {w : List Ev} : Dyck w → Dyck (Ev.start v :: (w ++ [Ev.stop v]))
  | append {w1 w2 : List Ev} : Dyck w1 → Dyck w2 → Dyck (w1 ++ w2)

/-- Every PSyData node of the program satisfies the (fixed) region rule; no raw lowered calls. -/
def AcceptedAll (T : List Nat) : Stmt → Bool
  | .seq a b => AcceptedAll T a && AcceptedAll T b
  | .ite a b => AcceptedAll T a && AcceptedAll T b
  | .loop b => AcceptedAll T b
  | .region _ b => safe T false b && AcceptedAll T b
  | .emit _ => false
  | _ => true

/-- A program that has not been instrumented. -/
def plain : Stmt → Bool
  | .seq a b => plain a && plain b
  | .ite a b => plain a && plain b
  | .loop b => plain b
  | .region _ _ => false
  | .emit _ => false
  | _ => true

/-- Programs obtained from an uninstrumented program by any sequence of accepted `apply` calls
(FIXED validate). -/
inductive Reachable : Stmt → Prop
  | init {p : Stmt} : plain p = true → Reachable p
  | step {c : Ctx} {pre mid post : List Stmt} {r : RInfo} {q : Stmt} :
      Reachable (original c pre mid post) → applyAt c pre mid post r = .ok q → Reachable q

/-- The same with the PINNED validate. -/
inductive ReachablePinned : Stmt → Prop
  | init {p : Stmt} : plain p = true → ReachablePinned p
  | step {c : Ctx} {pre mid post : List Stmt} {r : RInfo} {q : Stmt} :
      ReachablePinned (original c pre mid post) → applyAtPinned c pre mid post r = .ok q →
      ReachablePinned q

/-- The property (first clause) for a notion of "instrumented program". -/
def C28_statement_for (R : Stmt → Prop) : Prop :=
  ∀ p, R p → ∀ o : Nat → Nat, Dyck (run o p).ev ∧ Dyck (run o (lower p)).ev

def C28_statement : Prop := C28_statement_for Reachable
def C28_statement_pinned : Prop := C28_statement_for ReachablePinned

/-! ## helper lemmas -/

theorem dyck_check_aux {w : List Ev} (h : Dyck w) :
    ∀ st rest, dyckCheck st (w ++ rest) = dyckCheck st rest := by
  induction h with
  | nil => intro st rest; rfl
  | wrap v _ ih =>
    intro st rest
    simp only [List.cons_append, List.append_assoc, List.nil_append, dyckCheck, ih]
    simp
  | append _ _ ih1 ih2 =>
    intro st rest
    rw [List.append_assoc, ih1, ih2]

theorem dyck_check {w : List Ev} (h : Dyck w) : dyckCheck [] w = true := by
  have := dyck_check_aux h [] []
  simpa [dyckCheck] using this

theorem dyck_insert {u : List Ev} (hu : Dyck u) {x : List Ev} (hx : Dyck x) :
    ∀ a b, u = a ++ b → Dyck (a ++ x ++ b) := by
  induction hu with
  | nil =>
    intro a b h
    have := List.append_eq_nil_iff.mp h.symm
    obtain ⟨rfl, rfl⟩ := this
    simpa using hx
  | @wrap v w hw ih =>
    intro a b h
    cases a with
    | nil =>
      simp only [List.nil_append] at h ⊢
      subst h
      exact Dyck.append hx (Dyck.wrap v hw)
    | cons e a' =>
      simp only [List.cons_append, List.cons.injEq] at h
      obtain ⟨rfl, h⟩ := h
      rcases List.eq_nil_or_concat b with rfl | ⟨b', l, rfl⟩
      · simp only [List.append_nil] at h ⊢
        subst h
        exact Dyck.append (Dyck.wrap v hw) hx
      · rw [List.concat_eq_append, ← List.append_assoc] at h
        have h2 := List.append_inj' h rfl
        obtain ⟨hw', hl⟩ := h2
        cases hl
        have := Dyck.wrap v (ih a' b' hw')
        simpa [List.concat_eq_append, List.append_assoc] using this
  | @append w1 w2 h1 h2 ih1 ih2 =>
    intro a b h
    rcases List.append_eq_append_iff.mp h with ⟨c, rfl, rfl⟩ | ⟨c, rfl, rfl⟩
    · -- a = w1 ++ c, w2 = c ++ b
      have := Dyck.append h1 (ih2 c b rfl)
      simpa [List.append_assoc] using this
    · -- w1 = a ++ c, b = c ++ w2
      have := Dyck.append (ih1 a c rfl) h2
      simpa [List.append_assoc] using this

theorem dyck_of_check : ∀ (w : List Ev) (st : List Nat), dyckCheck st w = true →
    Dyck (st.reverse.map Ev.start ++ w) := by
  intro w
  induction w with
  | nil =>
    intro st h
    cases st with
    | nil => exact Dyck.nil
    | cons _ _ => simp [dyckCheck] at h
  | cons e w ih =>
    intro st h
    cases e with
    | start v =>
      have := ih (v :: st) (by simpa [dyckCheck] using h)
      simpa [List.append_assoc] using this
    | stop v =>
      cases st with
      | nil => simp [dyckCheck] at h
      | cons t st' =>
        simp only [dyckCheck, Bool.and_eq_true, beq_iff_eq] at h
        obtain ⟨rfl, h⟩ := h
        have hpair : Dyck [Ev.start t, Ev.stop t] := by simpa using Dyck.wrap t Dyck.nil
        have := dyck_insert (ih st' h) hpair (st'.reverse.map Ev.start) w rfl
        simpa [List.append_assoc] using this

/-- While control looks for a label that GOTOs use, an accepted region body is skipped
entirely: no jump lands inside a region. -/
theorem safe_seek (o : Nat → Nat) {T : List Nat} {L : Nat} (hL : L ∈ T) :
    ∀ (s : Stmt) (d : Bool) (k : Nat), safe T d s = true →
      exec o s (some L) k = ⟨[], .jumping L, k⟩ := by
  intro s
  induction s with
  | seq a b iha ihb =>
    intro d k h
    simp only [safe, Bool.and_eq_true] at h
    simp [exec, iha d k h.1, ihb d k h.2]
  | region r b ih =>
    intro d k h
    simp only [safe] at h
    simp [exec, ih d k h]
  | label l =>
    intro d k h
    simp only [safe, Bool.not_eq_true', List.contains_eq_mem, decide_eq_false_iff_not] at h
    have : l ≠ L := fun e => h (e ▸ hL)
    simp [exec, this]
  | _ => intro d k h; simp [exec, idle]

/-- Outcomes that a region-safe statement can have. -/
def OutOK (d : Bool) (x : Out) : Prop :=
  x = .normal ∨ (d = true ∧ (x = .exiting ∨ x = .cycling))

theorem iter_out (f : Nat → Res) (hf : ∀ k, OutOK true (f k).out) :
    ∀ n k, (iter f n k).out = .normal := by
  intro n
  induction n with
  | zero => intro k; rfl
  | succ n ih =>
    intro k
    rcases hf k with h | ⟨_, h | h⟩ <;> simp [iter, h, ih]

theorem safe_out (o : Nat → Nat) (T : List Nat) :
    ∀ (s : Stmt) (d : Bool) (k : Nat), safe T d s = true → OutOK d (exec o s none k).out := by
  intro s
  induction s with
  | seq a b iha ihb =>
    intro d k h
    simp only [safe, Bool.and_eq_true] at h
    have ha := iha d k h.1
    rcases ha with ha | ⟨hd, ha | ha⟩
    · simp only [exec, ha]; exact ihb d _ h.2
    · simp only [exec, ha]; exact Or.inr ⟨hd, Or.inl rfl⟩
    · simp only [exec, ha]; exact Or.inr ⟨hd, Or.inr rfl⟩
  | ite a b iha ihb =>
    intro d k h
    simp only [safe, Bool.and_eq_true] at h
    simp only [exec]
    split
    · exact iha d _ h.1
    · exact ihb d _ h.2
  | loop b ih =>
    intro d k h
    simp only [safe] at h
    simp only [exec]
    exact Or.inl (iter_out _ (fun k' => ih true k' h) _ _)
  | region r b ih =>
    intro d k h
    simp only [safe] at h
    have hb := ih d k h
    rcases hb with hb | ⟨hd, hb | hb⟩
    · simp only [exec, hb]; exact Or.inl rfl
    · simp only [exec, hb]; exact Or.inr ⟨hd, Or.inl rfl⟩
    · simp only [exec, hb]; exact Or.inr ⟨hd, Or.inr rfl⟩
  | exit => intro d k h; simp only [safe] at h; simp [exec, OutOK, h]
  | cycle => intro d k h; simp only [safe] at h; simp [exec, OutOK, h]
  | ret => intro d k h; simp [safe] at h
  | goto l => intro d k h; simp [safe] at h
  | _ => intro d k h; simp [exec, idle, OutOK]

/-- A jump that is under way looks for a label in `T`. -/
def JumpsIn (T : List Nat) (r : Res) : Prop := ∀ L, r.out = .jumping L → L ∈ T

theorem iter_dyck {T : List Nat} (f : Nat → Res)
    (hf : ∀ k, Dyck (f k).ev ∧ JumpsIn T (f k)) :
    ∀ n k, Dyck (iter f n k).ev ∧ JumpsIn T (iter f n k) := by
  intro n
  induction n with
  | zero => intro k; exact ⟨Dyck.nil, fun L h => by simp [iter] at h⟩
  | succ n ih =>
    intro k
    obtain ⟨hd, hj⟩ := hf k
    have := ih (f k).k
    cases hout : (f k).out with
    | normal => simp only [iter, hout]; exact ⟨Dyck.append hd this.1, this.2⟩
    | cycling => simp only [iter, hout]; exact ⟨Dyck.append hd this.1, this.2⟩
    | exiting => simp only [iter, hout]; exact ⟨hd, fun L h => by simp at h⟩
    | returning => simp only [iter, hout]; exact ⟨hd, hj⟩
    | jumping l => simp only [iter, hout]; exact ⟨hd, hj⟩

/-- Core lemma: every statement of an accepted program contributes a balanced trace, in run
mode and while a jump is under way. -/
theorem exec_dyck (o : Nat → Nat) (T : List Nat) :
    ∀ (s : Stmt) (m : Option Nat) (k : Nat), (∀ l ∈ targets s, l ∈ T) → AcceptedAll T s = true →
      (∀ L, m = some L → L ∈ T) →
      Dyck (exec o s m k).ev ∧ JumpsIn T (exec o s m k) := by
  intro s
  induction s with
  | seq a b iha ihb =>
    intro m k ht hacc hm
    simp only [AcceptedAll, Bool.and_eq_true] at hacc
    have hta : ∀ l ∈ targets a, l ∈ T := fun l hl => ht l (by simp [targets, hl])
    have htb : ∀ l ∈ targets b, l ∈ T := fun l hl => ht l (by simp [targets, hl])
    obtain ⟨hda, hja⟩ := iha m k hta hacc.1 hm
    cases hout : (exec o a m k).out with
    | normal =>
      obtain ⟨hdb, hjb⟩ := ihb none (exec o a m k).k htb hacc.2 (by simp)
      simp only [exec, hout]; exact ⟨Dyck.append hda hdb, hjb⟩
    | jumping L =>
      obtain ⟨hdb, hjb⟩ := ihb (some L) (exec o a m k).k htb hacc.2
        (by intro L' h; cases h; exact hja L hout)
      simp only [exec, hout]; exact ⟨Dyck.append hda hdb, hjb⟩
    | exiting => simp only [exec, hout]; exact ⟨hda, hja⟩
    | cycling => simp only [exec, hout]; exact ⟨hda, hja⟩
    | returning => simp only [exec, hout]; exact ⟨hda, hja⟩
  | ite a b iha ihb =>
    intro m k ht hacc hm
    simp only [AcceptedAll, Bool.and_eq_true] at hacc
    have hta : ∀ l ∈ targets a, l ∈ T := fun l hl => ht l (by simp [targets, hl])
    have htb : ∀ l ∈ targets b, l ∈ T := fun l hl => ht l (by simp [targets, hl])
    cases m with
    | none =>
      simp only [exec]
      split
      · exact iha none _ hta hacc.1 (by simp)
      · exact ihb none _ htb hacc.2 (by simp)
    | some L =>
      simp only [exec]
      exact ⟨Dyck.nil, fun L' h => by cases h; exact hm L rfl⟩
  | loop b ih =>
    intro m k ht hacc hm
    simp only [AcceptedAll] at hacc
    have htb : ∀ l ∈ targets b, l ∈ T := fun l hl => ht l (by simpa [targets] using hl)
    cases m with
    | none =>
      simp only [exec]
      exact iter_dyck _ (fun k' => ih none k' htb hacc (by simp)) _ _
    | some L =>
      simp only [exec]
      exact ⟨Dyck.nil, fun L' h => by cases h; exact hm L rfl⟩
  | region r b ih =>
    intro m k ht hacc hm
    simp only [AcceptedAll, Bool.and_eq_true] at hacc
    cases m with
    | none =>
      have htb : ∀ l ∈ targets b, l ∈ T := fun l hl => ht l (by simpa [targets] using hl)
      obtain ⟨hdb, _⟩ := ih none k htb hacc.2 (by simp)
      have hn : (exec o b none k).out = .normal := by
        rcases safe_out o T b false k hacc.1 with h | ⟨h, _⟩
        · exact h
        · cases h
      simp only [exec, hn]
      refine ⟨?_, fun L h => by simp at h⟩
      simpa using Dyck.wrap r.var hdb
    | some L =>
      have := safe_seek o (hm L rfl) b false k hacc.1
      simp only [exec, this]
      exact ⟨by simpa using Dyck.nil, fun L' h => by cases h; exact hm L rfl⟩
  | emit e => intro m k ht hacc hm; simp [AcceptedAll] at hacc
  | goto l =>
    intro m k ht hacc hm
    cases m with
    | none =>
      simp only [exec]
      exact ⟨Dyck.nil, fun L h => by cases h; exact ht l (by simp [targets])⟩
    | some L =>
      simp only [exec]
      exact ⟨Dyck.nil, fun L' h => by cases h; exact hm L rfl⟩
  | label l =>
    intro m k ht hacc hm
    cases m with
    | none => simp only [exec]; exact ⟨Dyck.nil, fun L h => by simp at h⟩
    | some L =>
      simp only [exec]
      split
      · exact ⟨Dyck.nil, fun L h => by simp at h⟩
      · exact ⟨Dyck.nil, fun L' h => by cases h; exact hm L rfl⟩
  | skip =>
    intro m k ht hacc hm
    cases m with
    | none => exact ⟨Dyck.nil, fun L h => by simp [exec, idle] at h⟩
    | some L => exact ⟨Dyck.nil, fun L' h => by simp [exec, idle] at h; cases h; exact hm L rfl⟩
  | basic cb =>
    intro m k ht hacc hm
    cases m with
    | none => exact ⟨Dyck.nil, fun L h => by simp [exec, idle] at h⟩
    | some L => exact ⟨Dyck.nil, fun L' h => by simp [exec, idle] at h; cases h; exact hm L rfl⟩
  | exit =>
    intro m k ht hacc hm
    cases m with
    | none => exact ⟨Dyck.nil, fun L h => by simp [exec] at h⟩
    | some L => exact ⟨Dyck.nil, fun L' h => by simp [exec] at h; cases h; exact hm L rfl⟩
  | cycle =>
    intro m k ht hacc hm
    cases m with
    | none => exact ⟨Dyck.nil, fun L h => by simp [exec] at h⟩
    | some L => exact ⟨Dyck.nil, fun L' h => by simp [exec] at h; cases h; exact hm L rfl⟩
  | ret =>
    intro m k ht hacc hm
    cases m with
    | none => exact ⟨Dyck.nil, fun L h => by simp [exec] at h⟩
    | some L => exact ⟨Dyck.nil, fun L' h => by simp [exec] at h; cases h; exact hm L rfl⟩

/-- Lowering (PSyDataNode → PreStart call, body, PostEnd call) does not change any execution. -/
theorem exec_lower (o : Nat → Nat) :
    ∀ (s : Stmt) (m : Option Nat) (k : Nat), exec o (lower s) m k = exec o s m k := by
  intro s
  induction s with
  | seq a b iha ihb => intro m k; simp only [lower, exec, iha, ihb]
  | ite a b iha ihb => intro m k; cases m <;> simp only [lower, exec, iha, ihb]
  | loop b ih =>
    intro m k
    cases m with
    | none => simp only [lower, exec]; congr 1; funext k'; exact ih none k'
    | some L => simp only [lower, exec]
  | region r b ih =>
    intro m k
    cases m with
    | none =>
      cases hout : (exec o b none k).out <;> simp [lower, exec, ih, hout]
    | some L =>
      cases hout : (exec o b (some L) k).out <;> simp [lower, exec, ih, hout]
  | _ => intro m k; rfl

/-! ### `apply` keeps every region accepted -/

theorem safe_seqs_append (T : List Nat) (d : Bool) (xs ys : List Stmt) :
    safe T d (seqs (xs ++ ys)) = (safe T d (seqs xs) && safe T d (seqs ys)) := by
  induction xs with
  | nil => simp [seqs, safe]
  | cons x xs ih => simp [seqs, safe, ih, Bool.and_assoc]

theorem acc_seqs_append (T : List Nat) (xs ys : List Stmt) :
    AcceptedAll T (seqs (xs ++ ys)) = (AcceptedAll T (seqs xs) && AcceptedAll T (seqs ys)) := by
  induction xs with
  | nil => simp [seqs, AcceptedAll]
  | cons x xs ih => simp [seqs, AcceptedAll, ih, Bool.and_assoc]

theorem targets_seqs_append (xs ys : List Stmt) :
    targets (seqs (xs ++ ys)) = targets (seqs xs) ++ targets (seqs ys) := by
  induction xs with
  | nil => simp [seqs, targets]
  | cons x xs ih => simp [seqs, targets, ih]

theorem safe_wrap (T : List Nat) (d : Bool) (pre mid post : List Stmt) (r : RInfo) :
    safe T d (seqs (pre ++ [Stmt.region r (seqs mid)] ++ post)) =
    safe T d (seqs (pre ++ mid ++ post)) := by
  simp [safe_seqs_append, seqs, safe]

theorem targets_wrap (pre mid post : List Stmt) (r : RInfo) :
    targets (seqs (pre ++ [Stmt.region r (seqs mid)] ++ post)) =
    targets (seqs (pre ++ mid ++ post)) := by
  simp [targets_seqs_append, seqs, targets]

theorem acc_wrap (T : List Nat) (pre mid post : List Stmt) (r : RInfo)
    (hs : safe T false (seqs mid) = true)
    (h : AcceptedAll T (seqs (pre ++ mid ++ post)) = true) :
    AcceptedAll T (seqs (pre ++ [Stmt.region r (seqs mid)] ++ post)) = true := by
  simp only [acc_seqs_append, Bool.and_eq_true] at h
  simp [acc_seqs_append, seqs, AcceptedAll, h.1.1, h.1.2, h.2, hs]

theorem safe_plug (T : List Nat) (c : Ctx) {x y : Stmt} (h : ∀ d, safe T d x = safe T d y) :
    ∀ d, safe T d (plug c x) = safe T d (plug c y) := by
  induction c with
  | hole => exact h
  | seqL c b ih => intro d; simp only [plug, safe, ih d]
  | seqR a c ih => intro d; simp only [plug, safe, ih d]
  | iteT c b ih => intro d; simp only [plug, safe, ih d]
  | iteE a c ih => intro d; simp only [plug, safe, ih d]
  | loopB c ih => intro d; simp only [plug, safe, ih true]
  | regionB r c ih => intro d; simp only [plug, safe, ih d]

theorem targets_plug (c : Ctx) {x y : Stmt} (h : targets x = targets y) :
    targets (plug c x) = targets (plug c y) := by
  induction c with
  | hole => exact h
  | _ => simp_all [plug, targets]

theorem acc_plug (T : List Nat) (c : Ctx) {x y : Stmt} (hs : ∀ d, safe T d x = safe T d y)
    (ha : AcceptedAll T x = true → AcceptedAll T y = true) :
    AcceptedAll T (plug c x) = true → AcceptedAll T (plug c y) = true := by
  induction c with
  | hole => exact ha
  | regionB r c ih =>
    intro h
    simp only [plug, AcceptedAll, Bool.and_eq_true] at h ⊢
    exact ⟨by rw [← safe_plug T c hs]; exact h.1, ih h.2⟩
  | _ => simp_all [plug, AcceptedAll]

theorem validate_ok_safe {kind : Kind} {T : List Nat} {mid : List Stmt}
    (h : validate kind T mid = .ok) : safe T false (seqs mid) = true := by
  unfold validate at h
  split at h
  · cases h
  · split at h
    · cases h
    · simp_all

theorem plain_accepted (T : List Nat) : ∀ p, plain p = true → AcceptedAll T p = true := by
  intro p
  induction p <;> simp_all [plain, AcceptedAll]

theorem applyAt_ok {c : Ctx} {pre mid post : List Stmt} {r : RInfo} {q : Stmt}
    (h : applyAt c pre mid post r = .ok q) :
    q = wrapped c pre mid post r ∧
    validate r.kind (targets (original c pre mid post)) mid = .ok := by
  unfold applyAt at h
  split at h
  · rename_i hv; cases h; exact ⟨rfl, hv⟩
  · cases h

theorem reachable_accepted {p : Stmt} (h : Reachable p) : AcceptedAll (targets p) p = true := by
  induction h with
  | init hp => exact plain_accepted _ _ hp
  | @step c pre mid post r q _ happ ih =>
    obtain ⟨rfl, hv⟩ := applyAt_ok happ
    have ht : targets (wrapped c pre mid post r) = targets (original c pre mid post) :=
      targets_plug c (targets_wrap pre mid post r)
    rw [ht]
    exact acc_plug _ c (fun d => (safe_wrap _ d pre mid post r).symm)
      (acc_wrap _ pre mid post r (validate_ok_safe hv)) ih

/-! ### region names -/

theorem nameFrom_auto_ge (routine : Nat) :
    ∀ (rs : List RInfo) (i : Nat) (n : RName), n ∈ nameFrom routine i rs → isAuto n = true →
      ∃ j, i ≤ j ∧ n = RName.auto routine j := by
  intro rs
  induction rs with
  | nil => intro i n h; simp [nameFrom] at h
  | cons r rest ih =>
    intro i n h ha
    simp only [nameFrom, List.mem_cons] at h
    rcases h with h | h
    · subst h
      cases hn : r.name with
      | none => exact ⟨i, Nat.le_refl _, by simp⟩
      | some mn => simp [hn, isAuto] at ha
    · obtain ⟨j, hj, e⟩ := ih (i+1) n h ha
      exact ⟨j, by omega, e⟩

theorem nameFrom_nodup (routine : Nat) :
    ∀ (rs : List RInfo) (i : Nat), ((nameFrom routine i rs).filter isAuto).Nodup := by
  intro rs
  induction rs with
  | nil => intro i; simp [nameFrom]
  | cons r rest ih =>
    intro i
    simp only [nameFrom]
    cases hn : r.name with
    | some mn => simpa [List.filter, isAuto] using ih (i+1)
    | none =>
      simp only [List.filter, isAuto]
      refine List.nodup_cons.mpr ⟨?_, ih (i+1)⟩
      intro hmem
      have hm := List.mem_filter.mp hmem
      obtain ⟨j, hj, e⟩ := nameFrom_auto_ge routine rest (i+1) _ hm.1 hm.2
      cases e
      omega

theorem Table.get_set (t : Table) (key key' : Nat × Nat) (v : Nat) :
    (t.set key v).get key' = if key = key' then v else t.get key' := by
  induction t with
  | nil =>
    by_cases h : key = key' <;> simp [Table.set, Table.get, h]
  | cons e rest ih =>
    obtain ⟨k, n⟩ := e
    by_cases hk : k = key
    · subst hk
      by_cases h : k = key' <;> simp [Table.set, Table.get, h]
    · by_cases h : key = key'
      · subst h; simp [Table.set, Table.get, hk, ih]
      · simp [Table.set, Table.get, hk, ih, h]

theorem uniqueNames_ge :
    ∀ (reqs : List Req) (t : Table) (m b i : Nat), GName.gen m b i ∈ uniqueNames t reqs →
      t.get (m, b) ≤ i := by
  intro reqs
  induction reqs with
  | nil => intro t m b i h; simp [uniqueNames] at h
  | cons q rest ih =>
    intro t m b i h
    cases q with
    | user m' r' =>
      simp only [uniqueNames, uniqueName, List.mem_cons] at h
      rcases h with h | h
      · cases h
      · exact ih t m b i h
    | auto m' b' =>
      simp only [uniqueNames, uniqueName, List.mem_cons] at h
      rcases h with h | h
      · cases h; exact Nat.le_refl _
      · have := ih _ m b i h
        rw [Table.get_set] at this
        split at this
        · rename_i e; cases e; omega
        · exact this

theorem uniqueNames_nodup :
    ∀ (reqs : List Req) (t : Table), ((uniqueNames t reqs).filter GName.isGen).Nodup := by
  intro reqs
  induction reqs with
  | nil => intro t; simp [uniqueNames]
  | cons q rest ih =>
    intro t
    cases q with
    | user m r => simpa [uniqueNames, uniqueName, List.filter, GName.isGen] using ih t
    | auto m b =>
      simp only [uniqueNames, uniqueName, List.filter, GName.isGen]
      refine List.nodup_cons.mpr ⟨?_, ih _⟩
      intro hmem
      have := uniqueNames_ge rest _ m b _ (List.mem_filter.mp hmem).1
      rw [Table.get_set] at this
      simp only [if_true] at this
      exact Nat.not_succ_le_self _ this

/-! ## The property -/

/-- **Matched pairs for every accepted program** (also the partial theorem for the pinned code:
`AcceptedAll` is exactly the side condition "no escaping transfer").  `T` may be any superset of
the labels used by GOTOs. -/
theorem C28_dyck_of_accepted (p : Stmt) (T : List Nat) (hT : ∀ l ∈ targets p, l ∈ T)
    (h : AcceptedAll T p = true) (o : Nat → Nat) :
    Dyck (run o p).ev ∧ Dyck (run o (lower p)).ev := by
  have := (exec_dyck o T p none 0 hT h (by simp)).1
  exact ⟨this, by unfold run; rw [exec_lower]; exact this⟩

example : AcceptedAll [7] (.seq (.loop (.region ⟨0, .profile, none⟩
    (.loop (.seq (.ite .exit .skip) (.basic false))))) (.seq (.goto 7) (.label 7))) = true := by decide

/-- **C28, FIXED code**: in every program produced from an uninstrumented program by any
sequence of accepted applications of the four transformations, every execution (every oracle)
calls PreStart/PostEnd in properly nested, matched pairs — for the PSyIR with PSyData nodes and
for the lowered code. -/
theorem C28_dyck : C28_statement := by
  intro p hp o
  exact C28_dyck_of_accepted p (targets p) (fun _ h => h) (reachable_accepted hp) o

/-- The stack-discipline checker that the harness runs on the traces of the real instrumented
code (and that the gfortran stub library implements) decides exactly `Dyck`. -/
theorem C28_dyck_iff_check (w : List Ev) : Dyck w ↔ dyckCheck [] w = true :=
  ⟨dyck_check, fun h => by simpa using dyck_of_check w [] h⟩

/-- No control transfer leaves an accepted region between its start and its end: its body
always completes normally, so `PostEnd` is reached. -/
theorem C28_no_escape (o : Nat → Nat) (T : List Nat) (b : Stmt) (k : Nat)
    (h : safe T false b = true) : (exec o b none k).out = .normal := by
  rcases safe_out o T b false k h with h | ⟨h, _⟩
  · exact h
  · cases h

/-- No jump enters an accepted region: while a GOTO looks for its label the region is skipped
without any event. -/
theorem C28_no_jump_in (o : Nat → Nat) (T : List Nat) (b : Stmt) (d : Bool) (k L : Nat) (hL : L ∈ T)
    (h : safe T d b = true) : exec o b (some L) k = ⟨[], .jumping L, k⟩ :=
  safe_seek o hL b d k h

/-- `apply` is accepted exactly when `validate` accepts, and then only wraps the statements. -/
theorem C28_apply_spec (c : Ctx) (pre mid post : List Stmt) (r : RInfo) (q : Stmt)
    (h : applyAt c pre mid post r = .ok q) :
    q = wrapped c pre mid post r ∧ safe (targets (original c pre mid post)) false (seqs mid) = true ∧
    mid ≠ [] := by
  obtain ⟨e, hv⟩ := applyAt_ok h
  refine ⟨e, validate_ok_safe hv, ?_⟩
  rintro rfl
  simp [validate] at hv

/-- `ExtractTrans` additionally never accepts a CodeBlock or a nested ExtractNode. -/
theorem C28_extract_excludes (T : List Nat) (mid : List Stmt)
    (h : validate .extract T mid = .ok) : extractExcluded (seqs mid) = false := by
  unfold validate at h
  split at h
  · cases h
  · split at h
    · cases h
    · split at h
      · cases h
      · simp_all

/-- Removing the instrumentation gives back the statements: the region placement is exactly the
chosen range. -/
theorem C28_regions_wrapped (pre mid post : List Stmt) (r : RInfo) :
    regions (seqs (pre ++ [Stmt.region r (seqs mid)] ++ post)) =
    regions (seqs pre) ++ r :: (regions (seqs mid) ++ regions (seqs post)) := by
  have app : ∀ xs ys : List Stmt, regions (seqs (xs ++ ys)) = regions (seqs xs) ++ regions (seqs ys) := by
    intro xs ys
    induction xs with
    | nil => simp [seqs, regions]
    | cons x xs ih => simp [seqs, regions, ih]
  simp [app, seqs, regions]

/-- **Names, lowering scheme**: the regions of a routine that have no user-supplied name get
pairwise distinct `(routine, r<idx>)` names. -/
theorem C28_names_unique (routine : Nat) (p : Stmt) :
    ((loweredNames routine p).filter isAuto).Nodup :=
  nameFrom_nodup routine (regions p) 0

/-- **Names, `get_unique_region_name`**: whatever the state of the used-names table and whatever
the sequence of requests, the generated `(module, base:r<idx>)` names are pairwise distinct
(user-supplied names are passed through and may coincide: aggregation). -/
theorem C28_names_unique_table (t : Table) (reqs : List Req) :
    ((uniqueNames t reqs).filter GName.isGen).Nodup :=
  uniqueNames_nodup reqs t

/-- The generated region names of the routines of one file (`(routine name, body)` each; routines
of different modules may have the same name). -/
def fileNames (rs : List (Nat × Stmt)) : List RName :=
  rs.flatMap fun r => (loweredNames r.1 r.2).filter isAuto

/-- Full-strength name clause for a file: all generated names pairwise distinct. -/
def C28_names_statement : Prop := ∀ rs : List (Nat × Stmt), (fileNames rs).Nodup

theorem auto_name_routine {routine : Nat} {p : Stmt} {n : RName}
    (h : n ∈ (loweredNames routine p).filter isAuto) : ∃ j, n = RName.auto routine j := by
  have hm := List.mem_filter.mp h
  obtain ⟨j, _, e⟩ := nameFrom_auto_ge routine (regions p) 0 n hm.1 hm.2
  exact ⟨j, e⟩

/-- **Names across routines (partial)**: if the instrumented routines of a file have pairwise
distinct names, all generated region names are pairwise distinct. -/
theorem C28_names_unique_file_partial (rs : List (Nat × Stmt)) (h : (rs.map Prod.fst).Nodup) :
    (fileNames rs).Nodup := by
  induction rs with
  | nil => simp [fileNames]
  | cons r rest ih =>
    simp only [List.map_cons, List.nodup_cons] at h
    simp only [fileNames, List.flatMap_cons]
    refine List.nodup_append.mpr ⟨C28_names_unique r.1 r.2, ih h.2, ?_⟩
    intro a ha b hb hab
    subst hab
    obtain ⟨j, e⟩ := auto_name_routine ha
    obtain ⟨r', hr', hb'⟩ := List.mem_flatMap.mp hb
    obtain ⟨j', e'⟩ := auto_name_routine hb'
    rw [e] at e'
    have hr : r.1 = r'.1 := by injection e'
    exact h.1 (List.mem_map.mpr ⟨r', hr', hr.symm⟩)

/-- **Pinned code violates the name clause** (kernel-checked witness, known finding
`C28-same-routine-name`): `lower_to_language_level` uses the *routine* name as module name, so two
routines called `work` in two modules of one file both get the region `("work", "r0")`. -/
theorem same_routine_name_counterexample : ¬ C28_names_statement := by
  intro h
  have := h [(5, .region ⟨0, .profile, none⟩ (.basic false)), (5, .region ⟨0, .profile, none⟩ (.basic false))]
  exact absurd this (by decide)

example : (fileNames [(5, .region ⟨0, .profile, none⟩ .skip), (6, .region ⟨0, .profile, none⟩ .skip)]).Nodup := by
  decide

/-! ### non-vacuity and sanity evaluations -/

def rP : RInfo := ⟨0, .profile, none⟩
def rE : RInfo := ⟨1, .extract, none⟩

/-- `do; if (c) exit; x; end do` -/
def exitLoopBody : List Stmt := [.ite .exit .skip, .basic false]

/-- region around a whole loop that contains EXIT and CYCLE: accepted, and reachable. -/
example : applyAt .hole [] [.loop (seqs (exitLoopBody ++ [.ite .cycle .skip]))] [.ret] rP =
    .ok (seqs [.region rP (seqs [.loop (seqs (exitLoopBody ++ [.ite .cycle .skip]))]), .ret]) := by
  rfl

example : Reachable (seqs [.region rP (seqs [.loop (seqs exitLoopBody)]), .ret]) :=
  Reachable.step (c := .hole) (pre := []) (mid := [.loop (seqs exitLoopBody)]) (post := [.ret]) (r := rP)
    (Reachable.init (by decide)) (by rfl)

/-- the loop body with the EXIT is refused by the fixed rule, accepted by the pinned rule. -/
example : applyAt (.seqL (.loopB .hole) .skip) [] exitLoopBody [] rP = .error .transfer := by rfl
example : applyAtPinned (.seqL (.loopB .hole) .skip) [] exitLoopBody [] rP =
    .ok (seqs [.loop (seqs [.region rP (seqs exitLoopBody)])]) := by rfl
/-- RETURN, GOTO and a GOTO target in the region are refused; ExtractTrans refuses CodeBlocks. -/
example : validate .profile [] [.ite .ret .skip] = .transfer := by decide
example : validate .nanTest [3] [.basic false, .label 3] = .transfer := by decide
example : validate .readOnly [] [.basic false, .label 3] = .ok := by decide
example : validate .extract [] [.basic true] = .excluded := by decide
example : validate .extract [] [.loop (.basic false)] = .ok := by decide
example : validate .profile [] [] = .empty := by decide

/-- the trace of an accepted program under an oracle that takes the EXIT in the 2nd iteration. -/
example : (run (fun k => if k = 0 then 3 else if k = 2 then 1 else 0)
    (.region rP (.seq (.loop (.region rE (.basic false))) (.loop (seqs exitLoopBody))))).ev =
    [.start 0, .start 1, .stop 1, .start 1, .stop 1, .start 1, .stop 1, .stop 0] := by decide

example : dyckCheck [] [.start 0, .start 1, .stop 1, .stop 0] = true := by decide
example : dyckCheck [] [.start 0, .start 1, .stop 0, .stop 1] = false := by decide
example : loweredNames 9 (seqs [.region rP (.region ⟨2, .profile, some (4, 5)⟩ .skip), .region rE .skip]) =
    [.auto 9 0, .user 4 5, .auto 9 2] := by decide
example : uniqueNames [] [.auto 1 2, .auto 1 2, .user 1 2, .auto 1 3, .auto 1 2] =
    [.gen 1 2 0, .gen 1 2 1, .user 1 2, .gen 1 3 0, .gen 1 2 2] := by decide

/-! ### the pinned code does not have the property -/

/-- `do; <region> if (c) exit; x <end region>; end do` — what pinned `ProfileTrans` produces. -/
def exitWitness : Stmt := seqs [.loop (seqs [.region rP (seqs exitLoopBody)])]

theorem exitWitness_reachable_pinned : ReachablePinned exitWitness :=
  ReachablePinned.step (c := .seqL (.loopB .hole) .skip) (pre := []) (mid := exitLoopBody) (post := [])
    (r := rP)
    (ReachablePinned.init (by decide)) (by rfl)

/-- one iteration, condition true: `PreStart`, `EXIT` — `PostEnd` is never called. -/
theorem exitWitness_trace : (run (fun _ => 1) exitWitness).ev = [.start 0] := by decide

/-- **Pinned code violates C28** (kernel-checked witness): with `excluded_node_types = (Return,)`
only, `ProfileTrans` accepts the body of a loop containing `EXIT`, and an execution leaves the
region between `PreStart` and `PostEnd`. -/
theorem exit_in_region_counterexample : ¬ C28_statement_pinned := by
  intro h
  have := dyck_check (h exitWitness exitWitness_reachable_pinned (fun _ => 1)).1
  rw [exitWitness_trace] at this
  exact absurd this (by decide)

/-- The fixed rule refuses that placement. -/
theorem exit_in_region_refused_fixed :
    applyAt (.seqL (.loopB .hole) .skip) [] exitLoopBody [] rP = .error .transfer := by rfl

/-- Pinned `ExtractTrans` (`excluded_node_types` without `Return`) accepts a region containing
RETURN; the fixed rule refuses it. -/
theorem return_in_extract_region_pinned :
    validatePinned .extract [.ite .ret .skip] = .ok ∧ validate .extract [] [.ite .ret .skip] = .transfer := by
  decide

end C28
