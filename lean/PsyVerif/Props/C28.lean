import PsyVerif.Model.PSyData
import Std.Data.String.ToNat
/-! # C28 — PSyData regions are entered and left in matched pairs

Model: `PsyVerif/Model/PSyData.lean`.  MODE: **fixed** — `C28.validate`/`C28.safe` model
`PSyDataTrans.validate` with `fixes/C28-exit-in-region.patch` and
`fixes/C28-return-in-codeblock.patch` applied (regions containing an EXIT/CYCLE — plain or with a
construct name — of a loop outside the region, a GOTO, the target of a GOTO, or a RETURN are
refused).  The pinned rule (`excluded_node_types = (Return,)` only) is `C28.validatePinned`;
`exit_in_region_counterexample` shows, kernel-checked, that it does not give the property.

Quantification: all programs of `C28.Stmt` (arbitrary nesting of IF, loops, directives, multi-level
EXIT/CYCLE, RETURN, forward GOTO), all histories of accepted `apply` calls of the four
transformations at any placement and with any options that keep `node-type-check` on, and all
inputs = all oracles `Nat → Nat` answering every branch condition and every loop trip count. -/
namespace C28

/-- Properly nested, matched start/stop events. -/
inductive Dyck : List Ev → Prop
  | nil : Dyck []
  | wrap (v : Nat) {w : List Ev} : Dyck w → Dyck (Ev.start v :: (w ++ [Ev.stop v]))
  | append {w1 w2 : List Ev} : Dyck w1 → Dyck w2 → Dyck (w1 ++ w2)

/-- Every PSyData node of the program satisfies the (fixed) region rule; no raw lowered calls. -/
def AcceptedAll (T : List Nat) : Stmt → Bool
  | .seq a b => AcceptedAll T a && AcceptedAll T b
  | .ite a b => AcceptedAll T a && AcceptedAll T b
  | .loop _ b => AcceptedAll T b
  | .dir _ b => AcceptedAll T b
  | .region _ b => safe false T 0 b && AcceptedAll T b
  | .emit _ => false
  | _ => true

/-- A program that has not been instrumented. -/
def plain : Stmt → Bool
  | .seq a b => plain a && plain b
  | .ite a b => plain a && plain b
  | .loop _ b => plain b
  | .dir _ b => plain b
  | .region _ _ => false
  | .emit _ => false
  | _ => true

/-- Programs obtained from an uninstrumented program by any sequence of accepted `apply` calls
(FIXED validate; any transformation, placement, region name, option set with `node-type-check`
left on). -/
inductive Reachable : Stmt → Prop
  | init {p : Stmt} : plain p = true → Reachable p
  | step {c : Ctx} {pre mid post : List Stmt} {kind : Kind} {name : Option (Nat × Nat)} {opts : Opts}
      {clash : Bool} {q : Stmt} :
      Reachable (original c pre mid post) → opts.typeCheck = true →
      applyAt c pre mid post kind name opts clash = .ok q → Reachable q

/-- The same with the PINNED validate. -/
inductive ReachablePinned : Stmt → Prop
  | init {p : Stmt} : plain p = true → ReachablePinned p
  | step {c : Ctx} {pre mid post : List Stmt} {kind : Kind} {name : Option (Nat × Nat)} {opts : Opts}
      {clash : Bool} {q : Stmt} :
      ReachablePinned (original c pre mid post) → opts.typeCheck = true →
      applyAtPinned c pre mid post kind name opts clash = .ok q → ReachablePinned q

/-- Histories in which the user may switch `node-type-check` off (FIXED validate). -/
inductive ReachableUnchecked : Stmt → Prop
  | init {p : Stmt} : plain p = true → ReachableUnchecked p
  | step {c : Ctx} {pre mid post : List Stmt} {kind : Kind} {name : Option (Nat × Nat)} {opts : Opts}
      {clash : Bool} {q : Stmt} :
      ReachableUnchecked (original c pre mid post) →
      applyAt c pre mid post kind name opts clash = .ok q → ReachableUnchecked q

/-- The property (first clause) for a notion of "instrumented program". -/
def C28_statement_for (R : Stmt → Prop) : Prop :=
  ∀ p, R p → ∀ o : Nat → Nat, Dyck (run o p).ev ∧ Dyck (run o (lower p)).ev

def C28_statement : Prop := C28_statement_for Reachable
def C28_statement_pinned : Prop := C28_statement_for ReachablePinned

/-! ## helper lemmas -/

theorem dyck_check_aux {w : List Ev} (h : Dyck w) :
    ∀ st rest, dyckCheck st (w ++ rest) = dyckCheck st rest := by
  induction h with
  | nil => intro st rest; rfl
  | wrap v _ ih =>
    intro st rest
    simp only [List.cons_append, List.append_assoc, List.nil_append, dyckCheck, ih]
    simp
  | append _ _ ih1 ih2 =>
    intro st rest
    rw [List.append_assoc, ih1, ih2]

theorem dyck_check {w : List Ev} (h : Dyck w) : dyckCheck [] w = true := by
  have := dyck_check_aux h [] []
  simpa [dyckCheck] using this

theorem dyck_insert {u : List Ev} (hu : Dyck u) {x : List Ev} (hx : Dyck x) :
    ∀ a b, u = a ++ b → Dyck (a ++ x ++ b) := by
  induction hu with
  | nil =>
    intro a b h
    have := List.append_eq_nil_iff.mp h.symm
    obtain ⟨rfl, rfl⟩ := this
    simpa using hx
  | @wrap v w hw ih =>
    intro a b h
    cases a with
    | nil =>
      simp only [List.nil_append] at h ⊢
      subst h
      exact Dyck.append hx (Dyck.wrap v hw)
    | cons e a' =>
      simp only [List.cons_append, List.cons.injEq] at h
      obtain ⟨rfl, h⟩ := h
      rcases List.eq_nil_or_concat b with rfl | ⟨b', l, rfl⟩
      · simp only [List.append_nil] at h ⊢
        subst h
        exact Dyck.append (Dyck.wrap v hw) hx
      · rw [List.concat_eq_append, ← List.append_assoc] at h
        have h2 := List.append_inj' h rfl
        obtain ⟨hw', hl⟩ := h2
        cases hl
        have := Dyck.wrap v (ih a' b' hw')
        simpa [List.concat_eq_append, List.append_assoc] using this
  | @append w1 w2 h1 h2 ih1 ih2 =>
    intro a b h
    rcases List.append_eq_append_iff.mp h with ⟨c, rfl, rfl⟩ | ⟨c, rfl, rfl⟩
    · -- a = w1 ++ c, w2 = c ++ b
      have := Dyck.append h1 (ih2 c b rfl)
      simpa [List.append_assoc] using this
    · -- w1 = a ++ c, b = c ++ w2
      have := Dyck.append (ih1 a c rfl) h2
      simpa [List.append_assoc] using this

theorem dyck_of_check : ∀ (w : List Ev) (st : List Nat), dyckCheck st w = true →
    Dyck (st.reverse.map Ev.start ++ w) := by
  intro w
  induction w with
  | nil =>
    intro st h
    cases st with
    | nil => exact Dyck.nil
    | cons _ _ => simp [dyckCheck] at h
  | cons e w ih =>
    intro st h
    cases e with
    | start v =>
      have := ih (v :: st) (by simpa [dyckCheck] using h)
      simpa [List.append_assoc] using this
    | stop v =>
      cases st with
      | nil => simp [dyckCheck] at h
      | cons t st' =>
        simp only [dyckCheck, Bool.and_eq_true, beq_iff_eq] at h
        obtain ⟨rfl, h⟩ := h
        have hpair : Dyck [Ev.start t, Ev.stop t] := by simpa using Dyck.wrap t Dyck.nil
        have := dyck_insert (ih st' h) hpair (st'.reverse.map Ev.start) w rfl
        simpa [List.append_assoc] using this

/-- While control looks for a label that GOTOs use, an accepted region body is skipped
entirely: no jump lands inside a region. -/
theorem safe_seek (o : Nat → Nat) {ar : Bool} {T : List Nat} {L : Nat} (hL : L ∈ T) :
    ∀ (s : Stmt) (d : Nat) (k : Nat), safe ar T d s = true →
      exec o s (some L) k = ⟨[], .jumping L, k⟩ := by
  intro s
  induction s with
  | seq a b iha ihb =>
    intro d k h
    simp only [safe, Bool.and_eq_true] at h
    simp [exec, iha d k h.1, ihb d k h.2]
  | region r b ih =>
    intro d k h
    simp only [safe] at h
    simp [exec, ih d k h]
  | label l =>
    intro d k h
    simp only [safe, Bool.not_eq_true', List.contains_eq_mem, decide_eq_false_iff_not] at h
    have : l ≠ L := fun e => h (e ▸ hL)
    simp [exec, this]
  | _ => intro d k h; simp [exec, idle]

/-- Outcomes that a region-safe statement can have below `d` loops of the region. -/
def OutOK (d : Nat) (x : Out) : Prop :=
  x = .normal ∨ ∃ n, n < d ∧ (x = .exiting n ∨ x = .cycling n)

theorem iter_out (f : Nat → Res) (d : Nat) (hf : ∀ k, OutOK (d+1) (f k).out) :
    ∀ n k, OutOK d (iter f n k).out := by
  intro n
  induction n with
  | zero => intro k; exact Or.inl rfl
  | succ n ih =>
    intro k
    rcases hf k with h | ⟨j, hj, h | h⟩
    · simp only [iter, h]; exact ih _
    · cases j with
      | zero => simp only [iter, h]; exact Or.inl rfl
      | succ j => simp only [iter, h]; exact Or.inr ⟨j, by omega, Or.inl rfl⟩
    · cases j with
      | zero => simp only [iter, h]; exact ih _
      | succ j => simp only [iter, h]; exact Or.inr ⟨j, by omega, Or.inr rfl⟩

theorem safe_out (o : Nat → Nat) (T : List Nat) :
    ∀ (s : Stmt) (d : Nat) (k : Nat), safe false T d s = true → OutOK d (exec o s none k).out := by
  intro s
  induction s with
  | seq a b iha ihb =>
    intro d k h
    simp only [safe, Bool.and_eq_true] at h
    have ha := iha d k h.1
    rcases ha with ha | ⟨j, hj, ha | ha⟩
    · simp only [exec, ha]; exact ihb d _ h.2
    · simp only [exec, ha]; exact Or.inr ⟨j, hj, Or.inl rfl⟩
    · simp only [exec, ha]; exact Or.inr ⟨j, hj, Or.inr rfl⟩
  | ite a b iha ihb =>
    intro d k h
    simp only [safe, Bool.and_eq_true] at h
    simp only [exec]
    split
    · exact iha d _ h.1
    · exact ihb d _ h.2
  | loop p b ih =>
    intro d k h
    simp only [safe] at h
    simp only [exec]
    exact iter_out _ d (fun k' => ih (d+1) k' h) _ _
  | dir dd b ih =>
    intro d k h
    simp only [safe] at h
    simp only [exec]
    exact ih d k h
  | region r b ih =>
    intro d k h
    simp only [safe] at h
    have hb := ih d k h
    rcases hb with hb | ⟨j, hj, hb | hb⟩
    · simp only [exec, hb]; exact Or.inl rfl
    · simp only [exec, hb]; exact Or.inr ⟨j, hj, Or.inl rfl⟩
    · simp only [exec, hb]; exact Or.inr ⟨j, hj, Or.inr rfl⟩
  | exit n =>
    intro d k h
    simp only [safe, decide_eq_true_eq] at h
    exact Or.inr ⟨n, h, Or.inl rfl⟩
  | cycle n =>
    intro d k h
    simp only [safe, decide_eq_true_eq] at h
    exact Or.inr ⟨n, h, Or.inr rfl⟩
  | ret cb => intro d k h; simp [safe] at h
  | goto l => intro d k h; simp [safe] at h
  | _ => intro d k h; simp [exec, idle, OutOK]

/-- A jump that is under way looks for a label in `T`. -/
def JumpsIn (T : List Nat) (r : Res) : Prop := ∀ L, r.out = .jumping L → L ∈ T

theorem iter_dyck {T : List Nat} (f : Nat → Res)
    (hf : ∀ k, Dyck (f k).ev ∧ JumpsIn T (f k)) :
    ∀ n k, Dyck (iter f n k).ev ∧ JumpsIn T (iter f n k) := by
  intro n
  induction n with
  | zero => intro k; exact ⟨Dyck.nil, fun L h => by simp [iter] at h⟩
  | succ n ih =>
    intro k
    obtain ⟨hd, hj⟩ := hf k
    have := ih (f k).k
    cases hout : (f k).out with
    | normal => simp only [iter, hout]; exact ⟨Dyck.append hd this.1, this.2⟩
    | cycling j =>
      cases j with
      | zero => simp only [iter, hout]; exact ⟨Dyck.append hd this.1, this.2⟩
      | succ j => simp only [iter, hout]; exact ⟨hd, fun L h => by simp at h⟩
    | exiting j =>
      cases j with
      | zero => simp only [iter, hout]; exact ⟨hd, fun L h => by simp at h⟩
      | succ j => simp only [iter, hout]; exact ⟨hd, fun L h => by simp at h⟩
    | returning => simp only [iter, hout]; exact ⟨hd, hj⟩
    | jumping l => simp only [iter, hout]; exact ⟨hd, hj⟩

/-- Core lemma: every statement of an accepted program contributes a balanced trace, in run
mode and while a jump is under way. -/
theorem exec_dyck (o : Nat → Nat) (T : List Nat) :
    ∀ (s : Stmt) (m : Option Nat) (k : Nat), (∀ l ∈ targets s, l ∈ T) → AcceptedAll T s = true →
      (∀ L, m = some L → L ∈ T) →
      Dyck (exec o s m k).ev ∧ JumpsIn T (exec o s m k) := by
  intro s
  induction s with
  | seq a b iha ihb =>
    intro m k ht hacc hm
    simp only [AcceptedAll, Bool.and_eq_true] at hacc
    have hta : ∀ l ∈ targets a, l ∈ T := fun l hl => ht l (by simp [targets, hl])
    have htb : ∀ l ∈ targets b, l ∈ T := fun l hl => ht l (by simp [targets, hl])
    obtain ⟨hda, hja⟩ := iha m k hta hacc.1 hm
    cases hout : (exec o a m k).out with
    | normal =>
      obtain ⟨hdb, hjb⟩ := ihb none (exec o a m k).k htb hacc.2 (by simp)
      simp only [exec, hout]; exact ⟨Dyck.append hda hdb, hjb⟩
    | jumping L =>
      obtain ⟨hdb, hjb⟩ := ihb (some L) (exec o a m k).k htb hacc.2
        (by intro L' h; cases h; exact hja L hout)
      simp only [exec, hout]; exact ⟨Dyck.append hda hdb, hjb⟩
    | exiting j => simp only [exec, hout]; exact ⟨hda, hja⟩
    | cycling j => simp only [exec, hout]; exact ⟨hda, hja⟩
    | returning => simp only [exec, hout]; exact ⟨hda, hja⟩
  | ite a b iha ihb =>
    intro m k ht hacc hm
    simp only [AcceptedAll, Bool.and_eq_true] at hacc
    have hta : ∀ l ∈ targets a, l ∈ T := fun l hl => ht l (by simp [targets, hl])
    have htb : ∀ l ∈ targets b, l ∈ T := fun l hl => ht l (by simp [targets, hl])
    cases m with
    | none =>
      simp only [exec]
      split
      · exact iha none _ hta hacc.1 (by simp)
      · exact ihb none _ htb hacc.2 (by simp)
    | some L =>
      simp only [exec]
      exact ⟨Dyck.nil, fun L' h => by cases h; exact hm L rfl⟩
  | loop p b ih =>
    intro m k ht hacc hm
    simp only [AcceptedAll] at hacc
    have htb : ∀ l ∈ targets b, l ∈ T := fun l hl => ht l (by simpa [targets] using hl)
    cases m with
    | none =>
      simp only [exec]
      exact iter_dyck _ (fun k' => ih none k' htb hacc (by simp)) _ _
    | some L =>
      simp only [exec]
      exact ⟨Dyck.nil, fun L' h => by cases h; exact hm L rfl⟩
  | dir dd b ih =>
    intro m k ht hacc hm
    simp only [AcceptedAll] at hacc
    have htb : ∀ l ∈ targets b, l ∈ T := fun l hl => ht l (by simpa [targets] using hl)
    cases m with
    | none => simp only [exec]; exact ih none k htb hacc (by simp)
    | some L =>
      simp only [exec]
      exact ⟨Dyck.nil, fun L' h => by cases h; exact hm L rfl⟩
  | region r b ih =>
    intro m k ht hacc hm
    simp only [AcceptedAll, Bool.and_eq_true] at hacc
    cases m with
    | none =>
      have htb : ∀ l ∈ targets b, l ∈ T := fun l hl => ht l (by simpa [targets] using hl)
      obtain ⟨hdb, _⟩ := ih none k htb hacc.2 (by simp)
      have hn : (exec o b none k).out = .normal := by
        rcases safe_out o T b 0 k hacc.1 with h | ⟨j, hj, _⟩
        · exact h
        · omega
      simp only [exec, hn]
      refine ⟨?_, fun L h => by simp at h⟩
      simpa using Dyck.wrap r.var hdb
    | some L =>
      have := safe_seek o (hm L rfl) b 0 k hacc.1
      simp only [exec, this]
      exact ⟨by simpa using Dyck.nil, fun L' h => by cases h; exact hm L rfl⟩
  | emit e => intro m k ht hacc hm; simp [AcceptedAll] at hacc
  | goto l =>
    intro m k ht hacc hm
    cases m with
    | none =>
      simp only [exec]
      exact ⟨Dyck.nil, fun L h => by cases h; exact ht l (by simp [targets])⟩
    | some L =>
      simp only [exec]
      exact ⟨Dyck.nil, fun L' h => by cases h; exact hm L rfl⟩
  | label l =>
    intro m k ht hacc hm
    cases m with
    | none => simp only [exec]; exact ⟨Dyck.nil, fun L h => by simp at h⟩
    | some L =>
      simp only [exec]
      split
      · exact ⟨Dyck.nil, fun L h => by simp at h⟩
      · exact ⟨Dyck.nil, fun L' h => by cases h; exact hm L rfl⟩
  | skip =>
    intro m k ht hacc hm
    cases m with
    | none => exact ⟨Dyck.nil, fun L h => by simp [exec, idle] at h⟩
    | some L => exact ⟨Dyck.nil, fun L' h => by simp [exec, idle] at h; cases h; exact hm L rfl⟩
  | basic cb =>
    intro m k ht hacc hm
    cases m with
    | none => exact ⟨Dyck.nil, fun L h => by simp [exec, idle] at h⟩
    | some L => exact ⟨Dyck.nil, fun L' h => by simp [exec, idle] at h; cases h; exact hm L rfl⟩
  | exit n =>
    intro m k ht hacc hm
    cases m with
    | none => exact ⟨Dyck.nil, fun L h => by simp [exec] at h⟩
    | some L => exact ⟨Dyck.nil, fun L' h => by simp [exec] at h; cases h; exact hm L rfl⟩
  | cycle n =>
    intro m k ht hacc hm
    cases m with
    | none => exact ⟨Dyck.nil, fun L h => by simp [exec] at h⟩
    | some L => exact ⟨Dyck.nil, fun L' h => by simp [exec] at h; cases h; exact hm L rfl⟩
  | ret cb =>
    intro m k ht hacc hm
    cases m with
    | none => exact ⟨Dyck.nil, fun L h => by simp [exec] at h⟩
    | some L => exact ⟨Dyck.nil, fun L' h => by simp [exec] at h; cases h; exact hm L rfl⟩

/-- Lowering (PSyDataNode → PreStart call, body, PostEnd call) does not change any execution. -/
theorem exec_lower (o : Nat → Nat) :
    ∀ (s : Stmt) (m : Option Nat) (k : Nat), exec o (lower s) m k = exec o s m k := by
  intro s
  induction s with
  | seq a b iha ihb => intro m k; simp only [lower, exec, iha, ihb]
  | ite a b iha ihb => intro m k; cases m <;> simp only [lower, exec, iha, ihb]
  | loop p b ih =>
    intro m k
    cases m with
    | none => simp only [lower, exec]; congr 1; funext k'; exact ih none k'
    | some L => simp only [lower, exec]
  | dir d b ih =>
    intro m k
    cases m with
    | none => simp only [lower, exec, ih]
    | some L => simp only [lower, exec]
  | region r b ih =>
    intro m k
    cases m with
    | none =>
      cases hout : (exec o b none k).out <;> simp [lower, exec, ih, hout]
    | some L =>
      cases hout : (exec o b (some L) k).out <;> simp [lower, exec, ih, hout]
  | _ => intro m k; rfl

/-! ### `apply` keeps every region accepted -/

theorem safe_seqs_append (ar : Bool) (T : List Nat) (d : Nat) (xs ys : List Stmt) :
    safe ar T d (seqs (xs ++ ys)) = (safe ar T d (seqs xs) && safe ar T d (seqs ys)) := by
  induction xs with
  | nil => simp [seqs, safe]
  | cons x xs ih => simp [seqs, safe, ih, Bool.and_assoc]

theorem acc_seqs_append (T : List Nat) (xs ys : List Stmt) :
    AcceptedAll T (seqs (xs ++ ys)) = (AcceptedAll T (seqs xs) && AcceptedAll T (seqs ys)) := by
  induction xs with
  | nil => simp [seqs, AcceptedAll]
  | cons x xs ih => simp [seqs, AcceptedAll, ih, Bool.and_assoc]

theorem targets_seqs_append (xs ys : List Stmt) :
    targets (seqs (xs ++ ys)) = targets (seqs xs) ++ targets (seqs ys) := by
  induction xs with
  | nil => simp [seqs, targets]
  | cons x xs ih => simp [seqs, targets, ih]

theorem safe_wrap (ar : Bool) (T : List Nat) (d : Nat) (pre mid post : List Stmt) (r : RInfo) :
    safe ar T d (seqs (pre ++ [Stmt.region r (seqs mid)] ++ post)) =
    safe ar T d (seqs (pre ++ mid ++ post)) := by
  simp [safe_seqs_append, seqs, safe]

theorem targets_wrap (pre mid post : List Stmt) (r : RInfo) :
    targets (seqs (pre ++ [Stmt.region r (seqs mid)] ++ post)) =
    targets (seqs (pre ++ mid ++ post)) := by
  simp [targets_seqs_append, seqs, targets]

theorem acc_wrap (T : List Nat) (pre mid post : List Stmt) (r : RInfo)
    (hs : safe false T 0 (seqs mid) = true)
    (h : AcceptedAll T (seqs (pre ++ mid ++ post)) = true) :
    AcceptedAll T (seqs (pre ++ [Stmt.region r (seqs mid)] ++ post)) = true := by
  simp only [acc_seqs_append, Bool.and_eq_true] at h
  simp [acc_seqs_append, seqs, AcceptedAll, h.1.1, h.1.2, h.2, hs]

theorem safe_plug (ar : Bool) (T : List Nat) (c : Ctx) {x y : Stmt}
    (h : ∀ d, safe ar T d x = safe ar T d y) :
    ∀ d, safe ar T d (plug c x) = safe ar T d (plug c y) := by
  induction c with
  | hole => exact h
  | seqL c b ih => intro d; simp only [plug, safe, ih d]
  | seqR a c ih => intro d; simp only [plug, safe, ih d]
  | iteT c b ih => intro d; simp only [plug, safe, ih d]
  | iteE a c ih => intro d; simp only [plug, safe, ih d]
  | loopB p c ih => intro d; simp only [plug, safe, ih (d+1)]
  | dirB dd c ih => intro d; simp only [plug, safe, ih d]
  | regionB r c ih => intro d; simp only [plug, safe, ih d]

theorem targets_plug (c : Ctx) {x y : Stmt} (h : targets x = targets y) :
    targets (plug c x) = targets (plug c y) := by
  induction c with
  | hole => exact h
  | _ => simp_all [plug, targets]

theorem acc_plug (T : List Nat) (c : Ctx) {x y : Stmt}
    (hs : ∀ d, safe false T d x = safe false T d y)
    (ha : AcceptedAll T x = true → AcceptedAll T y = true) :
    AcceptedAll T (plug c x) = true → AcceptedAll T (plug c y) = true := by
  induction c with
  | hole => exact ha
  | regionB r c ih =>
    intro h
    simp only [plug, AcceptedAll, Bool.and_eq_true] at h ⊢
    exact ⟨by rw [← safe_plug false T c hs]; exact h.1, ih h.2⟩
  | _ => simp_all [plug, AcceptedAll]

theorem validate_ok_safe {kind : Kind} {opts : Opts} {clash : Bool} {T : List Nat} {c : Ctx}
    {mid : List Stmt} (htc : opts.typeCheck = true)
    (h : validate kind opts clash T c mid = .ok) : safe false T 0 (seqs mid) = true := by
  unfold validate at h
  repeat (split at h; · cases h)
  simp_all

theorem plain_accepted (T : List Nat) : ∀ p, plain p = true → AcceptedAll T p = true := by
  intro p
  induction p <;> simp_all [plain, AcceptedAll]

theorem applyAt_ok {c : Ctx} {pre mid post : List Stmt} {kind : Kind} {name : Option (Nat × Nat)}
    {opts : Opts} {clash : Bool} {q : Stmt}
    (h : applyAt c pre mid post kind name opts clash = .ok q) :
    q = wrapped c pre mid post (newRegion c pre mid post kind name) ∧
    validate kind opts clash (targets (original c pre mid post)) c mid = .ok := by
  unfold applyAt at h
  split at h
  · rename_i hv; cases h; exact ⟨rfl, hv⟩
  · cases h

theorem reachable_accepted {p : Stmt} (h : Reachable p) : AcceptedAll (targets p) p = true := by
  induction h with
  | init hp => exact plain_accepted _ _ hp
  | @step c pre mid post kind name opts clash q _ htc happ ih =>
    obtain ⟨rfl, hv⟩ := applyAt_ok happ
    have ht : targets (wrapped c pre mid post (newRegion c pre mid post kind name)) =
        targets (original c pre mid post) :=
      targets_plug c (targets_wrap pre mid post _)
    rw [ht]
    exact acc_plug _ c (fun d => (safe_wrap false _ d pre mid post _).symm)
      (acc_wrap _ pre mid post _ (validate_ok_safe htc hv)) ih

/-! ### region names -/

theorem nameFrom_auto_ge (routine : Nat) :
    ∀ (rs : List RInfo) (i : Nat) (n : RName), n ∈ nameFrom routine i rs → isAuto n = true →
      ∃ j, i ≤ j ∧ n = RName.auto routine j := by
  intro rs
  induction rs with
  | nil => intro i n h; simp [nameFrom] at h
  | cons r rest ih =>
    intro i n h ha
    simp only [nameFrom, List.mem_cons] at h
    rcases h with h | h
    · subst h
      cases hn : r.name with
      | none => exact ⟨i, Nat.le_refl _, by simp⟩
      | some mn => simp [hn, isAuto] at ha
    · obtain ⟨j, hj, e⟩ := ih (i+1) n h ha
      exact ⟨j, by omega, e⟩

theorem nameFrom_nodup (routine : Nat) :
    ∀ (rs : List RInfo) (i : Nat), ((nameFrom routine i rs).filter isAuto).Nodup := by
  intro rs
  induction rs with
  | nil => intro i; simp [nameFrom]
  | cons r rest ih =>
    intro i
    simp only [nameFrom]
    cases hn : r.name with
    | some mn => simpa [List.filter, isAuto] using ih (i+1)
    | none =>
      simp only [List.filter, isAuto]
      refine List.nodup_cons.mpr ⟨?_, ih (i+1)⟩
      intro hmem
      have hm := List.mem_filter.mp hmem
      obtain ⟨j, hj, e⟩ := nameFrom_auto_ge routine rest (i+1) _ hm.1 hm.2
      cases e
      omega

theorem Table.get_set (t : Table) (key key' : Nat × Nat) (v : Nat) :
    (t.set key v).get key' = if key = key' then v else t.get key' := by
  induction t with
  | nil =>
    by_cases h : key = key' <;> simp [Table.set, Table.get, h]
  | cons e rest ih =>
    obtain ⟨k, n⟩ := e
    by_cases hk : k = key
    · subst hk
      by_cases h : k = key' <;> simp [Table.set, Table.get, h]
    · by_cases h : key = key'
      · subst h; simp [Table.set, Table.get, hk, ih]
      · simp [Table.set, Table.get, hk, ih, h]

theorem uniqueNames_ge :
    ∀ (reqs : List Req) (t : Table) (m b i : Nat), GName.gen m b i ∈ uniqueNames t reqs →
      t.get (m, b) ≤ i := by
  intro reqs
  induction reqs with
  | nil => intro t m b i h; simp [uniqueNames] at h
  | cons q rest ih =>
    intro t m b i h
    cases q with
    | user m' r' =>
      simp only [uniqueNames, uniqueName, List.mem_cons] at h
      rcases h with h | h
      · cases h
      · exact ih t m b i h
    | auto m' b' =>
      simp only [uniqueNames, uniqueName, List.mem_cons] at h
      rcases h with h | h
      · cases h; exact Nat.le_refl _
      · have := ih _ m b i h
        rw [Table.get_set] at this
        split at this
        · rename_i e; cases e; omega
        · exact this

theorem uniqueNames_nodup :
    ∀ (reqs : List Req) (t : Table), ((uniqueNames t reqs).filter GName.isGen).Nodup := by
  intro reqs
  induction reqs with
  | nil => intro t; simp [uniqueNames]
  | cons q rest ih =>
    intro t
    cases q with
    | user m r => simpa [uniqueNames, uniqueName, List.filter, GName.isGen] using ih t
    | auto m b =>
      simp only [uniqueNames, uniqueName, List.filter, GName.isGen]
      refine List.nodup_cons.mpr ⟨?_, ih _⟩
      intro hmem
      have := uniqueNames_ge rest _ m b _ (List.mem_filter.mp hmem).1
      rw [Table.get_set] at this
      simp only [if_true] at this
      exact Nat.not_succ_le_self _ this


/-! ### PSyData variables -/

theorem le_foldl_max (used : List Nat) : ∀ (acc : Nat) (u : Nat), u ∈ used ∨ u ≤ acc → u ≤ used.foldl max acc := by
  induction used with
  | nil =>
    intro acc u h
    rcases h with h | h
    · cases h
    · simpa using h
  | cons x xs ih =>
    intro acc u h
    simp only [List.foldl_cons]
    apply ih
    rcases h with h | h
    · rcases List.mem_cons.mp h with rfl | h
      · exact Or.inr (Nat.le_max_right _ _)
      · exact Or.inl h
    · exact Or.inr (Nat.le_trans h (Nat.le_max_left _ _))

theorem firstFree_fresh (kind : Nat) (used : List Nat) :
    ∀ (fuel n : Nat), firstFree kind used fuel n ∉ used := by
  intro fuel
  induction fuel with
  | zero =>
    intro n hmem
    have := le_foldl_max used 0 _ (Or.inl hmem)
    simp only [firstFree] at this
    omega
  | succ fuel ih =>
    intro n
    simp only [firstFree]
    split
    · exact ih (n+1)
    · rename_i h; simpa using h

theorem nextVar_fresh (kind : Kind) (used : List Nat) : nextVar kind used ∉ used :=
  firstFree_fresh _ _ _ _

theorem usedVars_seqs_append (xs ys : List Stmt) :
    usedVars (seqs (xs ++ ys)) = usedVars (seqs xs) ++ usedVars (seqs ys) := by
  induction xs with
  | nil => simp [seqs, usedVars]
  | cons x xs ih => simp [seqs, usedVars, ih]

theorem usedVars_wrap_perm (pre mid post : List Stmt) (r : RInfo) :
    (usedVars (seqs (pre ++ [Stmt.region r (seqs mid)] ++ post))).Perm
    (r.var :: usedVars (seqs (pre ++ mid ++ post))) := by
  simp only [usedVars_seqs_append, seqs, usedVars, List.append_assoc,
    List.cons_append]
  exact List.perm_middle

theorem usedVars_plug_perm (c : Ctx) {x y : Stmt} {v : Nat}
    (h : (usedVars x).Perm (v :: usedVars y)) :
    (usedVars (plug c x)).Perm (v :: usedVars (plug c y)) := by
  induction c with
  | hole => exact h
  | seqL c b ih => simp only [plug, usedVars]; exact (ih.append_right _)
  | seqR a c ih =>
    simp only [plug, usedVars]
    exact (ih.append_left (usedVars a)).trans List.perm_middle
  | iteT c b ih => simp only [plug, usedVars]; exact (ih.append_right _)
  | iteE a c ih =>
    simp only [plug, usedVars]
    exact (ih.append_left (usedVars a)).trans List.perm_middle
  | loopB p c ih => simpa only [plug, usedVars] using ih
  | dirB d c ih => simpa only [plug, usedVars] using ih
  | regionB r c ih =>
    simp only [plug, usedVars]
    exact (ih.cons r.var).trans (List.Perm.swap _ _ _)

theorem plain_usedVars : ∀ p, plain p = true → usedVars p = [] := by
  intro p
  induction p <;> simp_all [plain, usedVars]

theorem genCodeNamesFrom_ge (module : Nat) :
    ∀ (ns : List (Option (Nat × Nat) × Nat)) (i m b j : Nat),
      GName.gen m b j ∈ genCodeNamesFrom module i ns → i ≤ j := by
  intro ns
  induction ns with
  | nil => intro i m b j h; simp [genCodeNamesFrom] at h
  | cons x rest ih =>
    intro i m b j h
    obtain ⟨nm, base⟩ := x
    cases nm with
    | some mr =>
      obtain ⟨m', r'⟩ := mr
      simp only [genCodeNamesFrom, List.mem_cons] at h
      rcases h with h | h
      · cases h
      · have := ih (i+1) m b j h; omega
    | none =>
      simp only [genCodeNamesFrom, List.mem_cons] at h
      rcases h with h | h
      · cases h; exact Nat.le_refl _
      · have := ih (i+1) m b j h; omega

theorem genCodeNamesFrom_nodup (module : Nat) :
    ∀ (ns : List (Option (Nat × Nat) × Nat)) (i : Nat),
      ((genCodeNamesFrom module i ns).filter GName.isGen).Nodup := by
  intro ns
  induction ns with
  | nil => intro i; simp [genCodeNamesFrom]
  | cons x rest ih =>
    intro i
    obtain ⟨nm, base⟩ := x
    cases nm with
    | some mr =>
      obtain ⟨m', r'⟩ := mr
      simpa [genCodeNamesFrom, List.filter, GName.isGen] using ih (i+1)
    | none =>
      simp only [genCodeNamesFrom, List.filter, GName.isGen]
      refine List.nodup_cons.mpr ⟨?_, ih (i+1)⟩
      intro hmem
      have := genCodeNamesFrom_ge module rest (i+1) _ _ _ (List.mem_filter.mp hmem).1
      omega

/-! ### names as strings -/

/-- Splitting at the FIRST occurrence of a separator is unique. -/
theorem split_first_sep {sep : Char} :
    ∀ (a b x y : List Char), sep ∉ a → sep ∉ b → a ++ sep :: x = b ++ sep :: y → a = b ∧ x = y := by
  intro a
  induction a with
  | nil =>
    intro b x y _ hb h
    cases b with
    | nil => simpa using h
    | cons c b' =>
      simp only [List.nil_append, List.cons_append, List.cons.injEq] at h
      exact absurd (h.1 ▸ List.mem_cons_self) hb
  | cons c a' ih =>
    intro b x y ha hb h
    cases b with
    | nil =>
      simp only [List.nil_append, List.cons_append, List.cons.injEq] at h
      exact absurd (h.1 ▸ List.mem_cons_self) ha
    | cons c' b' =>
      simp only [List.cons_append, List.cons.injEq] at h
      obtain ⟨rfl, h⟩ := h
      have := ih b' x y (fun hm => ha (List.mem_cons_of_mem _ hm)) (fun hm => hb (List.mem_cons_of_mem _ hm)) h
      exact ⟨by rw [this.1], this.2⟩

/-- Splitting at the LAST occurrence of a separator is unique. -/
theorem split_last_sep {sep : Char} (xs ys d1 d2 : List Char) (h1 : sep ∉ d1) (h2 : sep ∉ d2)
    (h : xs ++ sep :: d1 = ys ++ sep :: d2) : xs = ys ∧ d1 = d2 := by
  have hr := congrArg List.reverse h
  simp only [List.reverse_append, List.reverse_cons, List.append_assoc, List.singleton_append] at hr
  have := split_first_sep d1.reverse d2.reverse xs.reverse ys.reverse (by simpa using h1) (by simpa using h2) hr
  exact ⟨List.reverse_inj.mp this.2, List.reverse_inj.mp this.1⟩

theorem colon_not_in_repr (n : Nat) : ':' ∉ (Nat.repr n).toList := by
  intro h
  rw [Nat.toList_repr] at h
  simpa using Nat.isDigit_of_mem_toDigits (by decide) (by decide) h

/-- `f"{base}:r{idx}"` -/
def regionString (base : List Char) (idx : Nat) : List Char :=
  base ++ ':' :: ('r' :: (Nat.repr idx).toList)

/-- `f"{module}-{region}"`: the key under which the run-time libraries and the extraction driver
file names identify a region. -/
def keyString (module region : List Char) : List Char := module ++ '-' :: region

/-! ## The property -/

/-- **Matched pairs for every accepted program** (also the partial theorem for the pinned code:
`AcceptedAll` is exactly the side condition "no escaping transfer").  `T` may be any superset of
the labels used by GOTOs. -/
theorem C28_dyck_of_accepted (p : Stmt) (T : List Nat) (hT : ∀ l ∈ targets p, l ∈ T)
    (h : AcceptedAll T p = true) (o : Nat → Nat) :
    Dyck (run o p).ev ∧ Dyck (run o (lower p)).ev := by
  have := (exec_dyck o T p none 0 hT h (by simp)).1
  exact ⟨this, by unfold run; rw [exec_lower]; exact this⟩

example : AcceptedAll [7] (.seq (.loop true (.region ⟨0, .profile, none⟩
    (.loop false (.seq (.ite (.exit 0) .skip) (.basic false))))) (.seq (.goto 7) (.label 7))) = true := by
  decide

/-- **C28, FIXED code**: in every program produced from an uninstrumented program by any
sequence of accepted applications of the four transformations, every execution (every oracle)
calls PreStart/PostEnd in properly nested, matched pairs — for the PSyIR with PSyData nodes and
for the lowered code. -/
theorem C28_dyck : C28_statement := by
  intro p hp o
  exact C28_dyck_of_accepted p (targets p) (fun _ h => h) (reachable_accepted hp) o

/-- The stack-discipline checker that the harness runs on the traces of the real instrumented
code (and that the gfortran stub library implements) decides exactly `Dyck`. -/
theorem C28_dyck_iff_check (w : List Ev) : Dyck w ↔ dyckCheck [] w = true :=
  ⟨dyck_check, fun h => by simpa using dyck_of_check w [] h⟩

/-- No control transfer — plain or multi-level EXIT/CYCLE, RETURN, GOTO — leaves an accepted
region between its start and its end: its body always completes normally, so `PostEnd` is
reached. -/
theorem C28_no_escape (o : Nat → Nat) (T : List Nat) (b : Stmt) (k : Nat)
    (h : safe false T 0 b = true) : (exec o b none k).out = .normal := by
  rcases safe_out o T b 0 k h with h | ⟨j, hj, _⟩
  · exact h
  · omega

/-- No jump enters an accepted region: while a GOTO looks for its label the region is skipped
without any event. -/
theorem C28_no_jump_in (o : Nat → Nat) (ar : Bool) (T : List Nat) (b : Stmt) (d k L : Nat) (hL : L ∈ T)
    (h : safe ar T d b = true) : exec o b (some L) k = ⟨[], .jumping L, k⟩ :=
  safe_seek o hL b d k h

/-- `apply` is accepted exactly when `validate` accepts, and then only wraps the statements in a
node with a fresh PSyData variable. -/
theorem C28_apply_spec (c : Ctx) (pre mid post : List Stmt) (kind : Kind) (name : Option (Nat × Nat))
    (opts : Opts) (clash : Bool) (q : Stmt) (htc : opts.typeCheck = true)
    (h : applyAt c pre mid post kind name opts clash = .ok q) :
    q = wrapped c pre mid post (newRegion c pre mid post kind name) ∧
    safe false (targets (original c pre mid post)) 0 (seqs mid) = true ∧ mid ≠ [] ∧
    (newRegion c pre mid post kind name).var ∉ usedVars (original c pre mid post) := by
  obtain ⟨e, hv⟩ := applyAt_ok h
  refine ⟨e, validate_ok_safe htc hv, ?_, nextVar_fresh _ _⟩
  rintro rfl
  simp [validate] at hv

/-- What `validate` refuses besides control transfers: empty lists, placements directly inside an
`OMPDoDirective`/`ACCLoopDirective` or anywhere inside OpenACC (and, for the extracting/verifying
transformations, inside parallel regions or cutting a loop from its directive), invalid `prefix`
or `region_name` options, and clashes with the PSyData symbol names. -/
theorem C28_refusals (kind : Kind) (opts : Opts) (clash : Bool) (T : List Nat) (c : Ctx)
    (mid : List Stmt) (h : validate kind opts clash T c mid = .ok) :
    mid ≠ [] ∧ dirRefused kind c mid = false ∧ opts.nameOK = true ∧ opts.prefixOK = true ∧
    clash = false := by
  unfold validate at h
  repeat (split at h; · cases h)
  simp_all

/-- `ExtractTrans` additionally never accepts a CodeBlock or a nested ExtractNode (unless the
node-type check is switched off). -/
theorem C28_extract_excludes (opts : Opts) (clash : Bool) (T : List Nat) (c : Ctx) (mid : List Stmt)
    (htc : opts.typeCheck = true)
    (h : validate .extract opts clash T c mid = .ok) : extractExcluded (seqs mid) = false := by
  unfold validate at h
  repeat (split at h; · cases h)
  simp_all

/-- **PSyData variables**: every PSyData node of a reachable program has its own variable
(`next_available_name`), so `start v`/`stop v` identify the region. -/
theorem C28_vars_distinct {p : Stmt} (h : Reachable p) : (usedVars p).Nodup := by
  induction h with
  | init hp => simp [plain_usedVars _ hp]
  | @step c pre mid post kind name opts clash q _ htc happ ih =>
    obtain ⟨rfl, _⟩ := applyAt_ok happ
    have hp := usedVars_plug_perm c (usedVars_wrap_perm pre mid post (newRegion c pre mid post kind name))
    refine (List.Perm.nodup_iff hp).mpr (List.nodup_cons.mpr ⟨?_, ih⟩)
    exact nextVar_fresh _ _

/-- Removing the instrumentation gives back the statements: the region placement is exactly the
chosen range. -/
theorem C28_regions_wrapped (pre mid post : List Stmt) (r : RInfo) :
    regions (seqs (pre ++ [Stmt.region r (seqs mid)] ++ post)) =
    regions (seqs pre) ++ r :: (regions (seqs mid) ++ regions (seqs post)) := by
  have app : ∀ xs ys : List Stmt, regions (seqs (xs ++ ys)) = regions (seqs xs) ++ regions (seqs ys) := by
    intro xs ys
    induction xs with
    | nil => simp [seqs, regions]
    | cons x xs ih => simp [seqs, regions, ih]
  simp [app, seqs, regions]

/-- **Names, lowering scheme**: the regions of a routine that have no user-supplied name get
pairwise distinct `(routine, r<idx>)` names. -/
theorem C28_names_unique (routine : Nat) (p : Stmt) :
    ((loweredNames routine p).filter isAuto).Nodup :=
  nameFrom_nodup routine (regions p) 0

/-- **Names, `get_unique_region_name`**: whatever the state of the used-names table and whatever
the sequence of requests, the generated `(module, base:r<idx>)` names are pairwise distinct
(user-supplied names are passed through and may coincide: aggregation). -/
theorem C28_names_unique_table (t : Table) (reqs : List Req) :
    ((uniqueNames t reqs).filter GName.isGen).Nodup :=
  uniqueNames_nodup reqs t

/-- **Names, `gen_code` scheme (PSyKAl)**: the generated names of all PSyData nodes of a PSy-layer
module are pairwise distinct. -/
theorem C28_names_unique_gen_code (module : Nat) (nodes : List (Option (Nat × Nat) × Nat)) :
    ((genCodeNames module nodes).filter GName.isGen).Nodup :=
  genCodeNamesFrom_nodup module nodes 0

/-- **Names as strings**: `f"{base}:r{idx}"` determines `base` and `idx` (the index is decimal,
so the last `:` of the string is the separator). -/
theorem C28_name_string_injective (b1 b2 : List Char) (i j : Nat)
    (h : regionString b1 i = regionString b2 j) : b1 = b2 ∧ i = j := by
  have hn : ∀ n, ':' ∉ 'r' :: (Nat.repr n).toList := by
    intro n hm
    rcases List.mem_cons.mp hm with h | h
    · cases h
    · exact colon_not_in_repr n h
  obtain ⟨hb, hd⟩ := split_last_sep b1 b2 _ _ (hn i) (hn j) h
  refine ⟨hb, ?_⟩
  have : (Nat.repr i).toList = (Nat.repr j).toList := by simpa using hd
  exact Nat.repr_injective (String.toList_injective this)

/-- `f"{module}-{region}"` determines the pair, provided module names contain no `-` (they are
Fortran identifiers). -/
theorem C28_key_string_injective (m1 m2 r1 r2 : List Char) (h1 : '-' ∉ m1) (h2 : '-' ∉ m2)
    (h : keyString m1 r1 = keyString m2 r2) : m1 = m2 ∧ r1 = r2 :=
  split_first_sep m1 m2 r1 r2 h1 h2 h

/-- The complete generated key `module-base:r<idx>` determines module, base and index. -/
theorem C28_full_name_string_injective (m1 m2 b1 b2 : List Char) (i j : Nat)
    (h1 : '-' ∉ m1) (h2 : '-' ∉ m2)
    (h : keyString m1 (regionString b1 i) = keyString m2 (regionString b2 j)) :
    m1 = m2 ∧ b1 = b2 ∧ i = j := by
  obtain ⟨hm, hr⟩ := C28_key_string_injective _ _ _ _ h1 h2 h
  exact ⟨hm, C28_name_string_injective _ _ _ _ hr⟩

example : regionString "invoke_0:kern".toList 12 = "invoke_0:kern:r12".toList := by decide

/-- Without the hypothesis the key is ambiguous. -/
example : keyString "a-b".toList "c".toList = keyString "a".toList "b-c".toList := by decide

/-- The generated region names of the routines of one file (`(routine name, body)` each; routines
of different modules may have the same name). -/
def fileNames (rs : List (Nat × Stmt)) : List RName :=
  rs.flatMap fun r => (loweredNames r.1 r.2).filter isAuto

/-- Full-strength name clause for a file: all generated names pairwise distinct. -/
def C28_names_statement : Prop := ∀ rs : List (Nat × Stmt), (fileNames rs).Nodup

theorem auto_name_routine {routine : Nat} {p : Stmt} {n : RName}
    (h : n ∈ (loweredNames routine p).filter isAuto) : ∃ j, n = RName.auto routine j := by
  have hm := List.mem_filter.mp h
  obtain ⟨j, _, e⟩ := nameFrom_auto_ge routine (regions p) 0 n hm.1 hm.2
  exact ⟨j, e⟩

/-- **Names across routines (partial)**: if the instrumented routines of a file have pairwise
distinct names, all generated region names are pairwise distinct. -/
theorem C28_names_unique_file_partial (rs : List (Nat × Stmt)) (h : (rs.map Prod.fst).Nodup) :
    (fileNames rs).Nodup := by
  induction rs with
  | nil => simp [fileNames]
  | cons r rest ih =>
    simp only [List.map_cons, List.nodup_cons] at h
    simp only [fileNames, List.flatMap_cons]
    refine List.nodup_append.mpr ⟨C28_names_unique r.1 r.2, ih h.2, ?_⟩
    intro a ha b hb hab
    subst hab
    obtain ⟨j, e⟩ := auto_name_routine ha
    obtain ⟨r', hr', hb'⟩ := List.mem_flatMap.mp hb
    obtain ⟨j', e'⟩ := auto_name_routine hb'
    rw [e] at e'
    have hr : r.1 = r'.1 := by injection e'
    exact h.1 (List.mem_map.mpr ⟨r', hr', hr.symm⟩)

/-- **Pinned code violates the name clause** (kernel-checked witness, known finding
`C28-same-routine-name`): `lower_to_language_level` uses the *routine* name as module name, so two
routines called `work` in two modules of one file both get the region `("work", "r0")`. -/
theorem same_routine_name_counterexample : ¬ C28_names_statement := by
  intro h
  have := h [(5, .region ⟨0, .profile, none⟩ (.basic false)), (5, .region ⟨0, .profile, none⟩ (.basic false))]
  exact absurd this (by decide)

example : (fileNames [(5, .region ⟨0, .profile, none⟩ .skip), (6, .region ⟨0, .profile, none⟩ .skip)]).Nodup := by
  decide

/-- **The two PSyKAl numbering schemes overlap** (kernel-checked witness, known finding
`C28-mixed-naming-schemes`): the first name handed out by `get_unique_region_name` for
`(module, base)` (used by `LFRicExtractTrans`/`GOceanExtractTrans`) is the name that `gen_code`
gives to a non-extraction node with the same base at position 0 of the module.  Within each
scheme names are distinct (`C28_names_unique_table`, `C28_names_unique_gen_code`). -/
theorem mixed_naming_schemes_counterexample :
    ∃ n, n ∈ uniqueNames [] [.auto 1 2] ∧ n ∈ genCodeNames 1 [(none, 2), (some (1, 9), 2)] ∧
      n.isGen = true := ⟨.gen 1 2 0, by decide, by decide, rfl⟩

/-! ### non-vacuity and sanity evaluations -/

def rP : RInfo := ⟨0, .profile, none⟩
def rE : RInfo := ⟨1, .extract, none⟩
def dflt : Opts := {}

/-- `do; if (c) exit; x; end do` -/
def exitLoopBody : List Stmt := [.ite (.exit 0) .skip, .basic false]

/-- region around a whole loop that contains EXIT and CYCLE: accepted, and reachable. -/
example : applyAt .hole [] [.loop true (seqs (exitLoopBody ++ [.ite (.cycle 0) .skip]))] [.ret false]
    .profile none dflt false =
    .ok (seqs [.region rP (seqs [.loop true (seqs (exitLoopBody ++ [.ite (.cycle 0) .skip]))]), .ret false]) := by
  rfl

example : Reachable (seqs [.region rP (seqs [.loop true (seqs exitLoopBody)]), .ret false]) :=
  Reachable.step (c := .hole) (pre := []) (mid := [.loop true (seqs exitLoopBody)]) (post := [.ret false])
    (kind := .profile) (name := none) (opts := dflt) (clash := false)
    (Reachable.init (by decide)) rfl (by rfl)

/-- the second profile node of a routine gets the next free variable `profile_psy_data_1` (id 4). -/
example : applyAt (.seqR (.region rP (.basic false)) .hole) [] [.basic false] [] .profile none dflt false =
    .ok (.seq (.region rP (.basic false)) (seqs [.region ⟨4, .profile, none⟩ (seqs [.basic false])])) := by
  rfl

/-- the loop body with the EXIT is refused by the fixed rule, accepted by the pinned rule. -/
example : applyAt (.seqL (.loopB true .hole) .skip) [] exitLoopBody [] .profile none dflt false =
    .error .transfer := by rfl
example : applyAtPinned (.seqL (.loopB true .hole) .skip) [] exitLoopBody [] .profile none dflt false =
    .ok (seqs [.loop true (seqs [.region rP (seqs exitLoopBody)])]) := by rfl
/-- RETURN (PSyIR node or inside a CodeBlock), GOTO and a GOTO target in the region are refused;
ExtractTrans refuses CodeBlocks. -/
example : validate .profile dflt false [] .hole [.ite (.ret false) .skip] = .transfer := by decide
example : validate .profile dflt false [] .hole [.basic true, .ite (.ret true) .skip] = .transfer := by decide
example : validate .nanTest dflt false [3] .hole [.basic false, .label 3] = .transfer := by decide
example : validate .readOnly dflt false [] .hole [.basic false, .label 3] = .ok := by decide
example : validate .extract dflt false [] .hole [.basic true] = .excluded := by decide
example : validate .extract dflt false [] .hole [.loop true (.basic false)] = .ok := by decide
example : validate .profile dflt false [] .hole [] = .empty := by decide
/-- multi-level EXIT: `outer: do; <region> do; if (c) exit outer; end do <end region>; end do outer`
is refused although the EXIT is inside a loop of the region; `exit` of the inner loop is fine. -/
example : validate .profile dflt false [] (.loopB false .hole) [.loop false (.ite (.exit 1) .skip)] =
    .transfer := by decide
example : validate .profile dflt false [] (.loopB false .hole) [.loop false (.ite (.exit 0) .skip)] =
    .ok := by decide
example : validate .profile dflt false [] .hole
    [.loop false (.loop false (.seq (.ite (.exit 1) .skip) (.ite (.cycle 1) .skip)))] = .ok := by decide
/-- directives, options, symbol clash. -/
example : validate .profile dflt false [] (.dirB .ompDo .hole) [.loop true (.basic false)] = .directive := by
  decide
example : validate .profile dflt false [] (.dirB .ompParallel .hole) [.loop true (.basic false)] = .ok := by
  decide
example : validate .nanTest dflt false [] (.dirB .ompParallel .hole) [.loop true (.basic false)] =
    .directive := by decide
example : validate .profile dflt false [] (.dirB .accKernels (.loopB true .hole)) [.basic false] =
    .directive := by decide
example : validate .extract dflt false [] (.dirB .ompParallel (.loopB true .hole)) [.basic false] =
    .directive := by decide
example : validate .profile { prefixOK := false } false [] .hole [.basic false] = .option := by decide
example : validate .profile dflt true [] .hole [.basic false] = .clash := by decide
example : validate .profile { typeCheck := false } false [] .hole [.ite (.ret false) .skip] = .ok := by decide
example : validate .profile { typeCheck := false } false [] .hole [.ite (.ret true) .skip] = .transfer := by
  decide

/-- the trace of an accepted program under an oracle that takes the EXIT in the 2nd iteration. -/
example : (run (fun k => if k = 0 then 3 else if k = 2 then 1 else 0)
    (.region rP (.seq (.loop true (.region rE (.basic false))) (.loop true (seqs exitLoopBody))))).ev =
    [.start 0, .start 1, .stop 1, .start 1, .stop 1, .start 1, .stop 1, .stop 0] := by decide

/-- `exit 1` leaves two loops at once. -/
example : (run (fun _ => 2) (.loop false (.seq (.loop false (.seq (.emit (.start 7)) (.exit 1)))
    (.emit (.stop 7))))).ev = [.start 7] := by decide

example : dyckCheck [] [.start 0, .start 1, .stop 1, .stop 0] = true := by decide
example : dyckCheck [] [.start 0, .start 1, .stop 0, .stop 1] = false := by decide
example : loweredNames 9 (seqs [.region rP (.region ⟨2, .profile, some (4, 5)⟩ .skip), .region rE .skip]) =
    [.auto 9 0, .user 4 5, .auto 9 2] := by decide
example : uniqueNames [] [.auto 1 2, .auto 1 2, .user 1 2, .auto 1 3, .auto 1 2] =
    [.gen 1 2 0, .gen 1 2 1, .user 1 2, .gen 1 3 0, .gen 1 2 2] := by decide
example : genCodeNames 8 [(none, 1), (some (2, 3), 1), (none, 4)] = [.gen 8 1 0, .user 2 3, .gen 8 4 2] := by
  decide

/-! ### the pinned code does not have the property -/

/-- `do; <region> if (c) exit; x <end region>; end do` — what pinned `ProfileTrans` produces. -/
def exitWitness : Stmt := seqs [.loop true (seqs [.region rP (seqs exitLoopBody)])]

theorem exitWitness_reachable_pinned : ReachablePinned exitWitness :=
  ReachablePinned.step (c := .seqL (.loopB true .hole) .skip) (pre := []) (mid := exitLoopBody) (post := [])
    (kind := .profile) (name := none) (opts := dflt) (clash := false)
    (ReachablePinned.init (by decide)) rfl (by rfl)

/-- one iteration, condition true: `PreStart`, `EXIT` — `PostEnd` is never called. -/
theorem exitWitness_trace : (run (fun _ => 1) exitWitness).ev = [.start 0] := by decide

/-- **Pinned code violates C28** (kernel-checked witness): with `excluded_node_types = (Return,)`
only, `ProfileTrans` accepts the body of a loop containing `EXIT`, and an execution leaves the
region between `PreStart` and `PostEnd`. -/
theorem exit_in_region_counterexample : ¬ C28_statement_pinned := by
  intro h
  have := dyck_check (h exitWitness exitWitness_reachable_pinned (fun _ => 1)).1
  rw [exitWitness_trace] at this
  exact absurd this (by decide)

/-- The fixed rule refuses that placement. -/
theorem exit_in_region_refused_fixed :
    applyAt (.seqL (.loopB true .hole) .skip) [] exitLoopBody [] .profile none dflt false =
    .error .transfer := by rfl

/-- Pinned `ExtractTrans` (`excluded_node_types` without `Return`) accepts a region containing
RETURN; pinned code accepts a RETURN hidden in a CodeBlock; the fixed rule refuses both. -/
theorem return_in_region_pinned :
    validatePinned .extract dflt false .hole [.ite (.ret false) .skip] = .ok ∧
    validate .extract dflt false [] .hole [.ite (.ret false) .skip] = .transfer ∧
    validatePinned .profile dflt false .hole [.basic true, .ite (.ret true) .skip] = .ok ∧
    validate .profile dflt false [] .hole [.basic true, .ite (.ret true) .skip] = .transfer := by
  decide

/-- `options["node-type-check"] = False` is an explicit opt-out: a PSyIR `Return` is then accepted
and the property is lost (this is why `Reachable` keeps the check on). -/
theorem node_type_check_off_counterexample : ¬ C28_statement_for ReachableUnchecked := by
  intro h
  have hr : ReachableUnchecked (seqs [.region rP (seqs [.ite (.ret false) .skip])]) :=
    ReachableUnchecked.step (c := .hole) (pre := []) (mid := [.ite (.ret false) .skip]) (post := [])
      (kind := .profile) (name := none) (opts := { typeCheck := false }) (clash := false)
      (ReachableUnchecked.init (by decide)) (by rfl)
  have := dyck_check (h _ hr (fun _ => 1)).1
  exact absurd this (by decide)

end C28
