import PsyVerif.Model.OMP
import PsyVerif.Lemmas.MiniFSem
namespace C09
open MiniF

/-- `do i = 0, 1; if (b(i) > 10) t = b(i); c(i) = t; enddo` with i=0, t=1, b=2, c=3 -/
def condBody : Stmt :=
  .seq (.ite (.bin .gt (.idx1 2 (.var 0)) (.lit 10)) (.assign 1 (.idx1 2 (.var 0))) .skip)
       (.store1 3 (.var 0) (.var 1))

def condLoop : ParDo := annotate 0 (.lit 0) (.lit 1) (.lit 1) condBody

example : condLoop.priv = [0] ∧ condLoop.fpriv = [1] := by decide

end C09
