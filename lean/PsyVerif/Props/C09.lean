import PsyVerif.Model.OMP
import PsyVerif.Lemmas.OMPSem
import PsyVerif.Lemmas.MiniFSem
import PsyVerif.Lemmas.OMPFine
import PsyVerif.Lemmas.OMPInfer
import PsyVerif.Lemmas.OMPStatic
import PsyVerif.Model.OMPPairs
import PsyVerif.Lemmas.OMPPairs
/-! # C09 — OpenMP-parallelised loops compute the serial result on any schedule

* `C09_partial`: for every loop, all clause lists, every store, every trip count and EVERY
  whole-iteration schedule (any number of threads, any assignment of iterations to threads, any
  order): if the iterations are pairwise Bernstein-independent on shared locations (`IterIndep`,
  the guarantee the dependence analysis — property C08 — is supposed to give) and no iteration
  reads a privatised variable before writing it (`ScalarsUnconditional`), the parallel run does
  not read an undefined private copy and leaves every shared location as the serial loop does.
* `C09_race_free_iteration_atomic`: the same for EVERY statement-granularity interleaving of the
  threads (`execOMPfine`) — whole-iteration granularity is a theorem, not an assumption.
* `C09_static_indep`, `C09_static_uncond`, `C09_static`, `C09_static_fine`: two static, store-free
  checks (`staticIndepB`: distance 0 in the parallel variable for every written array, written
  scalars privatised; `staticUncondB`: definite assignment of privatised variables) imply the two
  hypotheses at every store, so for this class nothing is evaluated per input.
* `C09_pair_loop_complete`, `C09_pair_loop_reports_failing_pair`, `C09_pairs_indep`, `C09_pairs_static`, `C09_validate_pairs_indep`,
  `C09_untested_pairs_admitted` + three `C09_skip_*_counterexample`: the array part of `validate` is the
  double loop over ALL ordered pairs (write, other access of the same array) of
  `_array_access_parallelisable`; it is complete; on the calibrated fragment acceptance implies
  `IterIndep` at every store; leaving the pairs whose other access stands in an EARLIER statement,
  in a LATER statement, or the self pair untested admits a racy program in each case.
* `C09_infer_sharing_spec`: what `infer_sharing_attributes` (`inferSharing`) guarantees.
* The pinned code violates the full statement: `conditional_private_counterexample`,
  `written_once_shared_counterexample` (both refute `C09_statement`), `intdiv_counterexample`.

Trusted base specific to C09: the meaning of `private`/`firstprivate`/shared and of a thread's
view as modelled by `execOMP`/`execOMPfine` (top-level statements of the body are atomic steps),
sequential consistency (no weak-memory effects, no real timing), MiniF + exporter. -/
namespace C09
open MiniF

/-! ## hypotheses -/

/-- the driver's Boolean check is the hypothesis of the theorem -/
theorem iterIndepB_iff (P : ParDo) (σ : Store) : iterIndepB P σ = true ↔ IterIndep P σ := by
  simp only [iterIndepB, IterIndep, List.all_eq_true, List.mem_range, Bool.or_eq_true, beq_iff_eq,
    Bool.and_eq_true, Bool.not_eq_true', List.contains_eq_mem, decide_eq_true_eq, decide_eq_false_iff_not]
  constructor
  · intro h k hk k' hk' hne l hl hp
    rcases h k hk k' hk' with h | h
    · exact absurd h hne
    · rcases h l hl with h | h
      · exact absurd h hp
      · exact h
  · intro h k hk k' hk'
    by_cases hne : k = k'
    · exact Or.inl hne
    · refine Or.inr (fun l hl => ?_)
      by_cases hp : l.1 ∈ P.privs
      · exact Or.inl hp
      · exact Or.inr (h k hk k' hk' hne l hl hp)

theorem scalarsUncondB_iff (P : ParDo) (σ : Store) :
    scalarsUncondB P σ = true ↔ ScalarsUnconditional P σ := by
  simp only [scalarsUncondB, ScalarsUnconditional, List.all_eq_true, List.mem_range, Bool.or_eq_true,
    beq_iff_eq, Bool.not_eq_true', List.contains_eq_mem, decide_eq_false_iff_not]

instance (P : ParDo) (σ : Store) : Decidable (IterIndep P σ) := decidable_of_iff _ (iterIndepB_iff P σ)
instance (P : ParDo) (σ : Store) : Decidable (ScalarsUnconditional P σ) :=
  decidable_of_iff _ (scalarsUncondB_iff P σ)

/-! ## the invariant: iterations done so far have deposited their serial effect -/

/-- `ρ` holds, on shared locations, the effect of exactly the iterations in `D`: a location
written by iteration `k ∈ D` has the value iteration `k` computes from the entry store, every
other location still has its entry value. -/
def Inv (P : ParDo) (σ₀ : Store) (D : Nat → Prop) (ρ : Store) : Prop :=
  ∀ l : Loc, l.1 ∉ P.privs →
    (∀ k, D k → l ∈ (P.iterFp σ₀ k).2 → ρ l = exec P.body (P.iterStore σ₀ k) l) ∧
    ((∀ k, D k → l ∉ (P.iterFp σ₀ k).2) → ρ l = σ₀ l)

theorem Inv.congr {P : ParDo} {σ₀ : Store} {D D' : Nat → Prop} {ρ ρ' : Store}
    (h : Inv P σ₀ D ρ) (hD : ∀ k, D' k ↔ D k) (hρ : ∀ l : Loc, l.1 ∉ P.privs → ρ' l = ρ l) :
    Inv P σ₀ D' ρ' := by
  intro l hl
  rw [hρ l hl]
  exact ⟨fun k hk => (h l hl).1 k ((hD k).mp hk), fun hk => (h l hl).2 (fun k hk' => hk k ((hD k).mpr hk'))⟩

theorem v_mem_privs (P : ParDo) : P.v ∈ P.privs := by simp [ParDo.privs]

theorem ne_v_of_shared (P : ParDo) {l : Loc} (hl : l.1 ∉ P.privs) : l ≠ (P.v, 0, 0) := by
  intro h; subst h; exact hl (v_mem_privs P)

/-- **one iteration, run in any thread's view of a store satisfying the invariant**: it has the
same footprint as at loop entry and extends the invariant.  (This is where Bernstein
independence and write-before-read of privatised scalars are used; the commutation of two
iterations is the special case of two steps.) -/
theorem iter_step (P : ParDo) (σ₀ : Store) (hI : IterIndep P σ₀) (hS : ScalarsUnconditional P σ₀)
    {D : Nat → Prop} (hD : ∀ j, D j → j < P.trips σ₀) {ρ V : Store} (hInv : Inv P σ₀ D ρ)
    (hV : ∀ l : Loc, l.1 ∉ P.privs → V l = ρ l) {k : Nat} (hk : k < P.trips σ₀) (hkD : ¬ D k) :
    fp P.body (V.set (P.v, 0, 0) (eval P.lo σ₀ + (k : Int) * eval P.step σ₀)) = P.iterFp σ₀ k ∧
    Inv P σ₀ (fun j => j = k ∨ D j)
      (exec P.body (V.set (P.v, 0, 0) (eval P.lo σ₀ + (k : Int) * eval P.step σ₀))) := by
  have hne : ∀ j, D j → j ≠ k := fun j hj h => hkD (h ▸ hj)
  -- the view agrees with the entry store on the exposed reads of iteration k
  have hag : AgreeL (fun l => l ∈ (P.iterFp σ₀ k).1) (P.iterStore σ₀ k)
      (V.set (P.v, 0, 0) (eval P.lo σ₀ + (k : Int) * eval P.step σ₀)) := by
    intro l hl
    rcases hS k hk l hl with h | h
    · subst h; simp [ParDo.iterStore]
    · have hlv := ne_v_of_shared P h
      simp only [ParDo.iterStore, set_apply, if_neg hlv]
      rw [hV l h]
      refine ((hInv l h).2 (fun j hj hw => ?_)).symm
      exact (hI j (hD j hj) k hk (hne j hj) l hw h).1 hl
  obtain ⟨e, a⟩ := (fp_sound P.body).loc _ _ _ (fun l hl => hl) hag
  have e' : fp P.body (V.set (P.v, 0, 0) (eval P.lo σ₀ + (k : Int) * eval P.step σ₀)) = P.iterFp σ₀ k := e
  refine ⟨e', fun l hl => ?_⟩
  have hlv := ne_v_of_shared P hl
  have hframe : l ∉ (P.iterFp σ₀ k).2 →
      exec P.body (V.set (P.v, 0, 0) (eval P.lo σ₀ + (k : Int) * eval P.step σ₀)) l = ρ l := by
    intro hw
    rw [(fp_sound P.body).frame _ l (by rw [e']; exact hw), set_apply, if_neg hlv, hV l hl]
  constructor
  · intro j hj hw
    rcases hj with hj | hj
    · subst hj
      exact (a l (Or.inr hw)).symm
    · have hwk : l ∉ (P.iterFp σ₀ k).2 := (hI j (hD j hj) k hk (hne j hj) l hw hl).2
      rw [hframe hwk]
      exact (hInv l hl).1 j hj hw
  · intro hnw
    rw [hframe (hnw k (Or.inl rfl))]
    exact (hInv l hl).2 (fun j hj => hnw j (Or.inr hj))

/-! ## the serial loop -/

theorem serial_inv (P : ParDo) (σ₀ : Store) (hI : IterIndep P σ₀) (hS : ScalarsUnconditional P σ₀) :
    ∀ m, m ≤ P.trips σ₀ →
      Inv P σ₀ (fun j => j < m) (iters (exec P.body) P.v (eval P.lo σ₀) (eval P.step σ₀) m 0 σ₀) := by
  intro m
  induction m with
  | zero =>
    intro _ l _
    exact ⟨fun k hk => absurd hk (Nat.not_lt_zero k), fun _ => rfl⟩
  | succ m ih =>
    intro hm
    have ih' := ih (Nat.le_of_succ_le hm)
    rw [iters_succ_last]
    have := (iter_step P σ₀ hI hS (D := fun j => j < m) (fun j hj => Nat.lt_of_lt_of_le hj (Nat.le_of_succ_le hm))
      ih' (fun _ _ => rfl) (k := m) hm (Nat.lt_irrefl m)).2
    simp only [Int.zero_add]
    exact this.congr (fun j => by omega) (fun _ _ => rfl)

/-- a store that holds the effect of all iterations agrees with the serial loop on shared locations -/
theorem sharedEq_serial_of_inv (P : ParDo) (σ : Store) (hI : IterIndep P σ) (hS : ScalarsUnconditional P σ)
    {ρ : Store} (invO : Inv P σ (fun j => j < P.trips σ) ρ) : SharedEq P.privs ρ (exec P.serial σ) := by
  intro l hl
  have invS := serial_inv P σ hI hS (P.trips σ) (Nat.le_refl _)
  have hser : exec P.serial σ l =
      iters (exec P.body) P.v (eval P.lo σ) (eval P.step σ) (P.trips σ) 0 σ l := by
    simp only [ParDo.serial, exec, runIters_eq_iters, set_apply, if_neg (ne_v_of_shared P hl)]
    rfl
  rw [hser]
  by_cases h : ∃ k, k < P.trips σ ∧ l ∈ (P.iterFp σ k).2
  · obtain ⟨k, hk, hw⟩ := h
    rw [(invO l hl).1 k hk hw, (invS l hl).1 k hk hw]
  · have hn : ∀ k, k < P.trips σ → l ∉ (P.iterFp σ k).2 := fun k hk hw => h ⟨k, hk, hw⟩
    rw [(invO l hl).2 hn, (invS l hl).2 hn]

/-! ## the parallel loop -/

/-- every thread's undefined copies are privatised variables -/
def ThreadsOK (P : ParDo) (σ₀ : Store) (s : OState) : Prop :=
  ∀ t, ∀ x ∈ (threadMem σ₀ P.undef0 s.thr t).undef, x ∈ P.privs

theorem stepOMP_eq (P : ParDo) (lo step : Int) (σ₀ : Store) (s : OState) (t k : Nat) (V' : PStore)
    (h : execP P.body ⟨(view P.privs s.shared (threadMem σ₀ P.undef0 s.thr t)).st.set (P.v, 0, 0)
        (lo + (k : Int) * step),
      (view P.privs s.shared (threadMem σ₀ P.undef0 s.thr t)).undef.filter (· ≠ P.v)⟩ = some V') :
    stepOMP P lo step σ₀ s t k = some ⟨unview P.privs s.shared V'.st, (t, V') :: s.thr⟩ := by
  simp only [stepOMP, h]

theorem step_ok (P : ParDo) (σ₀ : Store) (hI : IterIndep P σ₀) (hS : ScalarsUnconditional P σ₀)
    {D : Nat → Prop} (hD : ∀ j, D j → j < P.trips σ₀) (s : OState) (hInv : Inv P σ₀ D s.shared)
    (hT : ThreadsOK P σ₀ s) (t : Nat) {k : Nat} (hk : k < P.trips σ₀) (hkD : ¬ D k) :
    ∃ s', stepOMP P (eval P.lo σ₀) (eval P.step σ₀) σ₀ s t k = some s' ∧
      Inv P σ₀ (fun j => j = k ∨ D j) s'.shared ∧ ThreadsOK P σ₀ s' := by
  have hview : ∀ l : Loc, l.1 ∉ P.privs →
      (view P.privs s.shared (threadMem σ₀ P.undef0 s.thr t)).st l = s.shared l := by
    intro l hl
    simp [view, hl]
  obtain ⟨e, hinv'⟩ := iter_step P σ₀ hI hS hD hInv hview hk hkD
  obtain ⟨U', eP, sub, _⟩ := execP_sound P.body
    ((view P.privs s.shared (threadMem σ₀ P.undef0 s.thr t)).st.set (P.v, 0, 0)
      (eval P.lo σ₀ + (k : Int) * eval P.step σ₀))
    ((view P.privs s.shared (threadMem σ₀ P.undef0 s.thr t)).undef.filter (· ≠ P.v))
    (by
      intro x hx hm
      rw [e] at hm
      have hx' := List.mem_filter.mp hx
      have hxv : x ≠ P.v := by simpa using hx'.2
      rcases hS k hk _ hm with h | h
      · exact hxv (congrArg Prod.fst h)
      · exact h (hT t x hx'.1))
  refine ⟨_, stepOMP_eq P _ _ σ₀ s t k _ eP, ?_, ?_⟩
  · exact hinv'.congr (fun _ => Iff.rfl) (fun l hl => by simp [unview, hl])
  · intro t' x hx
    simp only [threadMem, List.lookup_cons] at hx
    by_cases htt : t' = t
    · subst htt
      simp only [beq_self_eq_true] at hx
      exact hT t' x (List.mem_filter.mp (sub x hx)).1
    · have : (t' == t) = false := by simpa using htt
      simp only [this] at hx
      exact hT t' x hx

theorem runSched_ok (P : ParDo) (σ₀ : Store) (hI : IterIndep P σ₀) (hS : ScalarsUnconditional P σ₀) :
    ∀ (sched : List (Nat × Nat)) (D : Nat → Prop) (s : OState),
      (∀ j, D j → j < P.trips σ₀) → Inv P σ₀ D s.shared → ThreadsOK P σ₀ s →
      (∀ k ∈ sched.map Prod.snd, k < P.trips σ₀ ∧ ¬ D k) → (sched.map Prod.snd).Nodup →
      ∃ s', runSched P (eval P.lo σ₀) (eval P.step σ₀) σ₀ sched s = some s' ∧
        Inv P σ₀ (fun j => j ∈ sched.map Prod.snd ∨ D j) s'.shared := by
  intro sched
  induction sched with
  | nil =>
    intro D s _ hInv _ _ _
    exact ⟨s, rfl, hInv.congr (fun k => by simp) (fun _ _ => rfl)⟩
  | cons tk rest ih =>
    intro D s hD hInv hT hks hnd
    obtain ⟨t, k⟩ := tk
    simp only [List.map_cons, List.nodup_cons] at hnd
    have hk := hks k (by simp)
    obtain ⟨s₁, e₁, inv₁, t₁⟩ := step_ok P σ₀ hI hS hD s hInv hT t hk.1 hk.2
    obtain ⟨s₂, e₂, inv₂⟩ := ih (fun j => j = k ∨ D j) s₁
      (fun j hj => by rcases hj with hj | hj; exact hj ▸ hk.1; exact hD j hj) inv₁ t₁
      (fun j hj => ⟨(hks j (by simp [hj])).1, fun h => by
        rcases h with h | h
        · exact hnd.1 (h ▸ hj)
        · exact (hks j (by simp [hj])).2 h⟩) hnd.2
    refine ⟨s₂, by simp only [runSched, e₁, e₂], inv₂.congr (fun j => ?_) (fun _ _ => rfl)⟩
    simp only [List.map_cons, List.mem_cons]
    constructor
    · rintro ((h | h) | h)
      · exact Or.inr (Or.inl h)
      · exact Or.inl h
      · exact Or.inr (Or.inr h)
    · rintro (h | h | h)
      · exact Or.inl (Or.inr h)
      · exact Or.inl (Or.inl h)
      · exact Or.inr h

/-! ## The property -/

/-- **C09 (under the hypotheses that exclude the known defect classes).**  For ALL schedules —
any number of threads, any assignment of iterations to threads, any interleaving of whole
iterations — all stores and all trip counts: the parallel loop never reads an undefined private
copy and leaves every shared location exactly as the serial loop does.  (Excluded, as in the
property statement: the values of the privatised variables after the region.) -/
theorem C09_partial (P : ParDo) (σ : Store) (hI : IterIndep P σ) (hS : ScalarsUnconditional P σ)
    (sched : List (Nat × Nat)) (hv : ValidSched (P.trips σ) sched) :
    ∃ τ, execOMP P sched σ = some τ ∧ SharedEq P.privs τ (exec P.serial σ) := by
  have hmem : ∀ k, k ∈ sched.map Prod.snd ↔ k < P.trips σ := fun k => by
    rw [hv.mem_iff, List.mem_range]
  have hnd : (sched.map Prod.snd).Nodup := hv.nodup_iff.mpr List.nodup_range
  obtain ⟨s', e, inv⟩ := runSched_ok P σ hI hS sched (fun _ => False) ⟨σ, []⟩
    (fun _ h => h.elim) (fun l _ => ⟨fun _ h => h.elim, fun _ => rfl⟩)
    (fun t x hx => by
      simp only [threadMem, List.lookup_nil, ParDo.undef0] at hx
      exact (List.mem_filter.mp hx).1)
    (fun k hk => ⟨(hmem k).mp hk, fun h => h⟩) hnd
  have invO : Inv P σ (fun j => j < P.trips σ) s'.shared :=
    inv.congr (fun k => by simp [hmem k]) (fun _ _ => rfl)
  exact ⟨s'.shared, by simp only [execOMP, e], sharedEq_serial_of_inv P σ hI hS invO⟩

/-- **Iteration granularity is not an assumption.**  In the finer semantics `execOMPfine` the
threads interleave at the granularity of the top-level STATEMENTS of the loop body (each thread
runs its iterations' statements in order, an `if` or an inner loop being one step; a fine
schedule is any interleaving of the per-thread statement sequences, with any dynamic assignment
of iterations to threads).  Under the same two hypotheses EVERY fine-grained interleaving:
never reads an undefined private copy, and — once all iterations are complete — leaves the
shared store exactly as the serial loop does, hence exactly as every whole-iteration schedule
of `execOMP` does.  (Proved for all bodies of the form `seqs ss`, the form the exporter emits;
the steps of different threads touch disjoint shared locations or only read them, which the
invariant `FInvWith` captures without a commutation argument.) -/
theorem C09_race_free_iteration_atomic (P : ParDo) (ss : List Stmt) (hb : P.body = seqs ss) (σ : Store)
    (hI : IterIndep P σ) (hS : ScalarsUnconditional P σ) (events : List (Nat × Nat)) :
    match execOMPfine P ss events σ with
    | .poison => False
    | .invalid => True
    | .ok s => s.Complete (P.trips σ) →
        SharedEq P.privs s.shared (exec P.serial σ) ∧
        ∀ sched, ValidSched (P.trips σ) sched →
          ∃ τ, execOMP P sched σ = some τ ∧ SharedEq P.privs s.shared τ := by
  have h := runFine_inv P σ ss hb hI hS events _ ⟨_, init_inv P σ ss⟩
  have e : execOMPfine P ss events σ = runFine P σ (progOf P σ ss) events
      ⟨σ, [], fun k => if k < P.trips σ then progOf P σ ss k else [], fun _ => none⟩ := rfl
  rw [e]
  cases hr : runFine P σ (progOf P σ ss) events
      ⟨σ, [], fun k => if k < P.trips σ then progOf P σ ss k else [], fun _ => none⟩ with
  | poison => rw [hr] at h; exact h
  | invalid => exact trivial
  | ok s =>
    rw [hr] at h
    obtain ⟨pre, inv⟩ := h
    intro hc
    have hpre : ∀ k, k < P.trips σ → execList (pre k) σ = exec P.body (P.iterStore σ k) := by
      intro k hk
      have := inv.split k hk
      rw [hc k hk, List.append_nil] at this
      rw [← this, exec_progOf P σ ss hb]
    have invO : Inv P σ (fun j => j < P.trips σ) s.shared := fun l hl =>
      ⟨fun k hk hw => by rw [(inv.sh l hl).1 k hk hw, hpre k hk], fun hn => (inv.sh l hl).2 hn⟩
    have hser := sharedEq_serial_of_inv P σ hI hS invO
    refine ⟨hser, fun sched hv => ?_⟩
    obtain ⟨τ, eτ, hτ⟩ := C09_partial P σ hI hS sched hv
    exact ⟨τ, eτ, fun l hl => (hser l hl).trans (hτ l hl).symm⟩

/-- the theorem for the clauses PSyclone infers (`annotate` = `infer_sharing_attributes`) -/
theorem C09_partial_inferred (v : Nat) (lo hi step : Expr) (body : Stmt) (σ : Store)
    (hI : IterIndep (annotate v lo hi step body) σ)
    (hS : ScalarsUnconditional (annotate v lo hi step body) σ)
    (sched : List (Nat × Nat)) (hv : ValidSched ((annotate v lo hi step body).trips σ) sched) :
    ∃ τ, execOMP (annotate v lo hi step body) sched σ = some τ ∧
      SharedEq (annotate v lo hi step body).privs τ (exec (.loop v lo hi step body) σ) :=
  C09_partial _ σ hI hS sched hv

/-- Two independent iterations commute on shared locations (Bernstein, element level): the
two-iteration instance of the theorem, for one thread or two. -/
theorem C09_iterations_commute (P : ParDo) (σ : Store) (hI : IterIndep P σ)
    (hS : ScalarsUnconditional P σ) (h2 : P.trips σ = 2) (t t' : Nat) :
    ∃ τ τ', execOMP P [(t, 0), (t', 1)] σ = some τ ∧ execOMP P [(t', 1), (t, 0)] σ = some τ' ∧
      SharedEq P.privs τ τ' := by
  obtain ⟨τ, e, h⟩ := C09_partial P σ hI hS [(t, 0), (t', 1)]
    (by rw [h2]; show List.Perm [0, 1] (List.range 2); decide)
  obtain ⟨τ', e', h'⟩ := C09_partial P σ hI hS [(t', 1), (t, 0)]
    (by rw [h2]; show List.Perm [1, 0] (List.range 2); decide)
  exact ⟨τ, τ', e, e', fun l hl => (h l hl).trans (h' l hl).symm⟩

/-- **What `infer_sharing_attributes` guarantees** (over the access sequence of
`reference_accesses`), for every loop `L` and scalar `x`:
* a scalar it makes `private` is written in the loop and its FIRST access is a write;
* a scalar it makes `firstprivate` (or reports as needing synchronisation) is written in the loop;
* a scalar whose first access is a READ and that the loop writes is never `private`: it is
  `firstprivate` or reported as needing synchronisation (which makes lowering raise).
(It does NOT guarantee that the write happens on every path — `conditional_private_counterexample`.) -/
theorem C09_infer_sharing_spec (L : Stmt) (x : Nat) :
    (x ∈ (inferSharing L).priv → x ∈ wvars L ∧ (scanStmt x L false {}).first = 2) ∧
    (x ∈ (inferSharing L).fpriv ∨ x ∈ (inferSharing L).sync → x ∈ wvars L) ∧
    (x ∈ stmtScalars L → (scanStmt x L false {}).first = 1 → 1 ≤ (scanStmt x L false {}).nwrite →
      x ∉ (inferSharing L).priv ∧ (x ∈ (inferSharing L).fpriv ∨ x ∈ (inferSharing L).sync)) := by
  have hok := scanStmt_ok x L false ScanOK.init
  obtain ⟨_, _, hc, hn, hs⟩ := hok
  have hw : ∀ d, classify L x = some d → x ∈ wvars L := by
    intro d hd
    apply Classical.byContradiction
    intro hnw
    have := scanStmt_decided_of_not_written x L false {} hnw
    rw [(classify_eq L x d hd).1] at this
    cases this
  refine ⟨?_, ?_, ?_⟩
  · intro hp
    simp only [inferSharing, List.mem_filter, beq_iff_eq] at hp
    exact ⟨hw 0 hp.2, (hs 0 (classify_eq L x 0 hp.2).1).2.2.1 rfl⟩
  · intro hp
    simp only [inferSharing, List.mem_filter, beq_iff_eq] at hp
    rcases hp with hp | hp
    · exact hw 1 hp.2
    · exact hw 2 hp.2
  · intro hx hf hwr
    cases hd : (scanStmt x L false {}).decided with
    | none => have := (hn hd).1; omega
    | some d =>
      obtain ⟨_, _, h0, h12, _⟩ := hs d hd
      have hcl : classify L x = some d := by
        have := hc hf
        simp only [classify]
        rw [if_neg (by omega)]
        exact hd
      have hmem : x ∈ (stmtScalars L).eraseDups := List.mem_eraseDups.mpr hx
      simp only [inferSharing, List.mem_filter, beq_iff_eq, hcl, hmem, true_and, Option.some.injEq]
      rcases h12 hf with h | h
      · subst h; simp
      · subst h; simp

/-! ## static sufficient conditions: no per-input evaluation for the common class -/

/-- **Static independence ⇒ `IterIndep` at every store.**  `staticIndepB`: every array written in
the body has one subscript position that holds `v + c` (same `c`) in EVERY access to that array
— distance 0 in the parallel variable — and every scalar written in the body is privatised. -/
theorem C09_static_indep (P : ParDo) (h : staticIndepB P = true) : ∀ σ, IterIndep P σ :=
  iterIndep_of_static P h

/-- **Definite assignment ⇒ `ScalarsUnconditional` at every store.**  `staticUncondB`: on every
path through the body a privatised variable is assigned before it is read (an `if` defines what
both branches define, an inner loop defines only its own variable). -/
theorem C09_static_uncond (P : ParDo) (h : staticUncondB P = true) : ∀ σ, ScalarsUnconditional P σ :=
  scalarsUncond_of_static P h

/-- For loops passing the two static checks the conclusion of `C09_partial` holds for all
stores, all trip counts and all schedules without evaluating anything on the input … -/
theorem C09_static (P : ParDo) (hi : staticIndepB P = true) (hu : staticUncondB P = true) (σ : Store)
    (sched : List (Nat × Nat)) (hv : ValidSched (P.trips σ) sched) :
    ∃ τ, execOMP P sched σ = some τ ∧ SharedEq P.privs τ (exec P.serial σ) :=
  C09_partial P σ (C09_static_indep P hi σ) (C09_static_uncond P hu σ) sched hv

/-- … and likewise for every statement-granularity interleaving. -/
theorem C09_static_fine (P : ParDo) (ss : List Stmt) (hb : P.body = seqs ss)
    (hi : staticIndepB P = true) (hu : staticUncondB P = true) (σ : Store) (events : List (Nat × Nat)) :
    match execOMPfine P ss events σ with
    | .poison => False
    | .invalid => True
    | .ok s => s.Complete (P.trips σ) → SharedEq P.privs s.shared (exec P.serial σ) := by
  have h := C09_race_free_iteration_atomic P ss hb σ (C09_static_indep P hi σ) (C09_static_uncond P hu σ) events
  cases hr : execOMPfine P ss events σ with
  | poison => rw [hr] at h; exact h
  | invalid => exact trivial
  | ok s => rw [hr] at h; exact fun hc => (h hc).1

/-! ## the full statement, and why the pinned code does not satisfy it -/

/-- independence on array locations only — what the array part of the dependence analysis (C08)
is to guarantee; scalars are the business of `validateScalars` + `inferSharing` -/
def ArraysIndep (P : ParDo) (σ : Store) : Prop :=
  ∀ k < P.trips σ, ∀ k' < P.trips σ, k ≠ k' → ∀ l ∈ (P.iterFp σ k).2, l.1 ∉ stmtScalars P.serial →
    l ∉ (P.iterFp σ k').1 ∧ l ∉ (P.iterFp σ k').2

/-- Boolean form of `ArraysIndep` -/
def arraysIndepB (P : ParDo) (σ : Store) : Bool :=
  (List.range (P.trips σ)).all fun k => (List.range (P.trips σ)).all fun k' =>
    k == k' || (P.iterFp σ k).2.all fun l =>
      (stmtScalars P.serial).contains l.1 || (!(P.iterFp σ k').1.contains l && !(P.iterFp σ k').2.contains l)

theorem arraysIndepB_iff (P : ParDo) (σ : Store) : arraysIndepB P σ = true ↔ ArraysIndep P σ := by
  simp only [arraysIndepB, ArraysIndep, List.all_eq_true, List.mem_range, Bool.or_eq_true, beq_iff_eq,
    Bool.and_eq_true, Bool.not_eq_true', List.contains_eq_mem, decide_eq_true_eq, decide_eq_false_iff_not]
  constructor
  · intro h k hk k' hk' hne l hl hp
    rcases h k hk k' hk' with h | h
    · exact absurd h hne
    · rcases h l hl with h | h
      · exact absurd h hp
      · exact h
  · intro h k hk k' hk'
    by_cases hne : k = k'
    · exact Or.inl hne
    · refine Or.inr (fun l hl => ?_)
      by_cases hp : l.1 ∈ stmtScalars P.serial
      · exact Or.inl hp
      · exact Or.inr (h k hk k' hk' hne l hl hp)

instance (P : ParDo) (σ : Store) : Decidable (ArraysIndep P σ) := decidable_of_iff _ (arraysIndepB_iff P σ)

/-- The property at full strength: every loop whose scalars pass `validate` and whose array
accesses are independent gives the serial result on every schedule.  FALSE for the pinned code. -/
def C09_statement : Prop :=
  ∀ (v : Nat) (lo hi step : Expr) (body : Stmt) (σ : Store) (sched : List (Nat × Nat)),
    validateScalars (.loop v lo hi step body) = true →
    (inferSharing (.loop v lo hi step body)).sync = [] →
    ArraysIndep (annotate v lo hi step body) σ →
    ValidSched ((annotate v lo hi step body).trips σ) sched →
    ∃ τ, execOMP (annotate v lo hi step body) sched σ = some τ ∧
      SharedEq (annotate v lo hi step body).privs τ (exec (.loop v lo hi step body) σ)

/-- `if (b(i) > 10) t = b(i); c(i) = t`   (ids: i=0, t=1, b=2, c=3) -/
def condBody : Stmt :=
  .seq (.ite (.bin .gt (.idx1 2 (.var 0)) (.lit 10)) (.assign 1 (.idx1 2 (.var 0))) .skip)
       (.store1 3 (.var 0) (.var 1))

/-- t = 5, b(0) = 20, b(1) = 3 -/
def condStore : Store := storeOf [((1, 0, 0), 5), ((2, 0, 0), 20), ((2, 1, 0), 3)]

example : (inferSharing (.loop 0 (.lit 0) (.lit 1) (.lit 1) condBody)) = ⟨[0], [1], []⟩ := by decide

/-- The conditionally written scalar is accepted and made firstprivate; on the schedule
"thread 0 runs iteration 0, thread 1 runs iteration 1" the parallel run stores the stale
`t = 5` into `c(1)` where the serial run stores `20`. -/
theorem conditional_private_counterexample : ¬ C09_statement := by
  intro h
  obtain ⟨τ, hτ, heq⟩ := h 0 (.lit 0) (.lit 1) (.lit 1) condBody condStore [(0, 0), (1, 1)]
    (by decide) (by decide) (by decide) (by decide)
  have e1 : (execOMP (annotate 0 (.lit 0) (.lit 1) (.lit 1) condBody) [(0, 0), (1, 1)] condStore).map
      (fun τ => τ.get (3, 1, 0)) = some 5 := by decide
  have e2 : (exec (.loop 0 (.lit 0) (.lit 1) (.lit 1) condBody) condStore).get (3, 1, 0) = 20 := by decide
  have e3 := heq (3, 1, 0) (by decide)
  rw [hτ] at e1
  simp only [Option.map_some, Option.some.injEq] at e1
  rw [e1, e2] at e3
  exact absurd e3 (by decide)

/-- `do i = 0, 1; if (b(i) > 10) then; do j = 1, 1; t = b(i); enddo; endif; c(i) = t` gets
`private(t)` (the write sits in a loop, the IfBlock is outside that loop): the second thread
reads an UNDEFINED copy (ids: i=0, t=1, b=2, c=3, j=4). -/
def condInnerBody : Stmt :=
  .seq (.ite (.bin .gt (.idx1 2 (.var 0)) (.lit 10))
          (.loop 4 (.lit 1) (.lit 1) (.lit 1) (.assign 1 (.idx1 2 (.var 0)))) .skip)
       (.store1 3 (.var 0) (.var 1))

theorem undefined_private_counterexample :
    (annotate 0 (.lit 0) (.lit 1) (.lit 1) condInnerBody).priv = [0, 4, 1] ∧
    execOMP (annotate 0 (.lit 0) (.lit 1) (.lit 1) condInnerBody) [(0, 0), (1, 1)] condStore = none := by
  decide

/-- `t = b(i); c(i) = 7`  (ids as above): `t` has a single access, passes `validate`
(WARN_SCALAR_WRITTEN_ONCE is ignored) and stays shared. -/
def onceBody : Stmt := .seq (.assign 1 (.idx1 2 (.var 0))) (.store1 3 (.var 0) (.lit 7))

/-- Running the iterations in the order 1, 0 leaves `t = b(0) = 20`; the serial loop leaves
`t = b(1) = 3`, and `t` is shared. -/
theorem written_once_shared_counterexample : ¬ C09_statement := by
  intro h
  obtain ⟨τ, hτ, heq⟩ := h 0 (.lit 0) (.lit 1) (.lit 1) onceBody condStore [(0, 1), (1, 0)]
    (by decide) (by decide) (by decide) (by decide)
  have e1 : (execOMP (annotate 0 (.lit 0) (.lit 1) (.lit 1) onceBody) [(0, 1), (1, 0)] condStore).map
      (fun τ => τ.get (1, 0, 0)) = some 20 := by decide
  have e2 : (exec (.loop 0 (.lit 0) (.lit 1) (.lit 1) onceBody) condStore).get (1, 0, 0) = 3 := by decide
  have e3 := heq (1, 0, 0) (by decide)
  rw [hτ] at e1
  simp only [Option.map_some, Option.some.injEq] at e1
  rw [e1, e2] at e3
  exact absurd e3 (by decide)

/-- `c(i/2+1) = b(i)` for i = 0, 1 (inherited from C08, which reports it parallelisable): the
iterations are not independent and the order 1, 0 leaves `c(1) = b(0)` instead of `b(1)`. -/
def intdivLoop : ParDo :=
  annotate 0 (.lit 0) (.lit 1) (.lit 1)
    (.store1 3 (.bin .add (.bin .div (.var 0) (.lit 2)) (.lit 1)) (.idx1 2 (.var 0)))

theorem intdiv_counterexample :
    ¬ IterIndep intdivLoop condStore ∧
    (execOMP intdivLoop [(0, 1), (1, 0)] condStore).map (fun τ => τ.get (3, 1, 0)) = some 20 ∧
    (exec intdivLoop.serial condStore).get (3, 1, 0) = 3 := by
  decide

/-! ## non-vacuity and sanity evaluations -/

/-- `t = b(i) + 1; c(i) = t * 2` over i = 0..2 -/
def goodBody : Stmt :=
  .seq (.assign 1 (.bin .add (.idx1 2 (.var 0)) (.lit 1))) (.store1 3 (.var 0) (.bin .mul (.var 1) (.lit 2)))

def goodLoop : ParDo := annotate 0 (.lit 0) (.lit 2) (.lit 1) goodBody

example : goodLoop.priv = [0, 1] ∧ goodLoop.fpriv = [] := by decide
/-- the hypotheses of `C09_partial` are satisfiable on a non-trivial loop (3 iterations, a temporary) -/
example : IterIndep goodLoop condStore ∧ ScalarsUnconditional goodLoop condStore ∧ goodLoop.trips condStore = 3 := by
  decide
example : ValidSched 3 [(1, 2), (0, 0), (1, 1)] := by decide
/-- … and the conclusion, evaluated: iteration order 2,0,1 on two threads gives c = (42, 8, 2) as serially -/
example : (execOMP goodLoop [(1, 2), (0, 0), (1, 1)] condStore).map
    (fun τ => [τ.get (3, 0, 0), τ.get (3, 1, 0), τ.get (3, 2, 0)]) = some [42, 8, 2] := by decide
example : ((exec goodLoop.serial condStore).get (3, 0, 0), (exec goodLoop.serial condStore).get (3, 1, 0),
    (exec goodLoop.serial condStore).get (3, 2, 0)) = (42, 8, 2) := by decide
/-- the conditional loop violates exactly `ScalarsUnconditional`, the written-once loop exactly `IterIndep` -/
example : IterIndep (annotate 0 (.lit 0) (.lit 1) (.lit 1) condBody) condStore ∧
    ¬ ScalarsUnconditional (annotate 0 (.lit 0) (.lit 1) (.lit 1) condBody) condStore := by decide
example : ¬ IterIndep (annotate 0 (.lit 0) (.lit 1) (.lit 1) onceBody) condStore ∧
    ScalarsUnconditional (annotate 0 (.lit 0) (.lit 1) (.lit 1) onceBody) condStore := by decide
/-- `validate`'s scalar rule: a reduction and a read-then-write are refused, need_sync is reported -/
example : validateScalars (.loop 0 (.lit 0) (.lit 1) (.lit 1) (.assign 1 (.bin .add (.var 1) (.idx1 2 (.var 0))))) = false := by
  decide
example : (inferSharing (.loop 0 (.lit 0) (.lit 1) (.lit 1)
    (.assign 1 (.bin .add (.var 1) (.idx1 2 (.var 0)))))).sync = [1] := by decide
/-- a scalar read in the loop bounds and written in the body is firstprivate -/
example : (inferSharing (.loop 0 (.lit 0) (.var 1) (.lit 1)
    (.seq (.assign 1 (.lit 3)) (.store1 3 (.var 0) (.var 1))))).fpriv = [1] := by decide


/-! ## the array part of `validate`: the pair loop of `_array_access_parallelisable` -/

/-- **The pair loop is complete**: it reports nothing iff EVERY ordered pair (write access `w`,
access `o` of the same variable — read or write, `w` itself included, in whatever statement `o`
stands relative to `w`) passes the test. -/
theorem C09_pair_loop_complete (test : SAcc → SAcc → Bool) (accs : List SAcc) :
    firstFail test accs = none ↔
      ∀ w ∈ accs, w.write = true → ∀ o ∈ accs, o.arr = w.arr → test w o = true := by
  simp only [firstFail, firstFailWith_none]
  constructor
  · intro h w hw hwr o ho ha
    rcases h w hw hwr o ho ha with h' | h'
    · cases h'
    · exact h'
  · intro h w hw hwr o ho ha
    exact Or.inr (h w hw hwr o ho ha)

/-- … and a reported pair is a genuine failing pair of the access sequence. -/
theorem C09_pair_loop_reports_failing_pair (test : SAcc → SAcc → Bool) (accs : List SAcc) (w o : SAcc)
    (h : firstFail test accs = some (w, o)) :
    w ∈ accs ∧ w.write = true ∧ o ∈ accs ∧ o.arr = w.arr ∧ test w o = false := by
  obtain ⟨h1, h2, h3, h4, _, h6⟩ := firstFailWith_some h
  exact ⟨h1, h2, h3, h4, h6⟩

/-- A loop that leaves a class `skip` of pairs untested accepts exactly when every failing pair is
in that class: each untested failing pair is admitted. -/
theorem C09_untested_pairs_admitted (skip test : SAcc → SAcc → Bool) (accs : List SAcc) :
    firstFailWith skip test accs = none ↔
      ∀ w ∈ accs, w.write = true → ∀ o ∈ accs, o.arr = w.arr → test w o = false → skip w o = true := by
  rw [firstFailWith_none]
  constructor
  · intro h w hw hwr o ho ha ht
    rcases h w hw hwr o ho ha with h' | h'
    · exact h'
    · rw [ht] at h'; cases h'
  · intro h w hw hwr o ho ha
    cases ht : test w o with
    | true => exact Or.inr rfl
    | false => exact Or.inl (h w hw hwr o ho ha ht)

/-- **Acceptance by the pair loop ⇒ `IterIndep` at every store** (fragment: subscripts that are
literals or `x ± c`; any other subscript makes the pair fail).  `pairsIndepB`: the parallel variable
is never assigned, every assigned scalar and inner loop variable is privatised, and every pair
(write, other) of the shared accesses of the body passes `pairTest` — the model of
`_is_loop_carried_dependency`.  Strictly more general than `staticIndepB` (see the example below). -/
theorem C09_pairs_indep (P : ParDo) (h : pairsIndepB P = true) : ∀ σ, IterIndep P σ :=
  iterIndep_of_pairs P h

/-- … hence the serial result on every schedule, without evaluating anything on the input. -/
theorem C09_pairs_static (P : ParDo) (hi : pairsIndepB P = true) (hu : staticUncondB P = true) (σ : Store)
    (sched : List (Nat × Nat)) (hv : ValidSched (P.trips σ) sched) :
    ∃ τ, execOMP P sched σ = some τ ∧ SharedEq P.privs τ (exec P.serial σ) :=
  C09_partial P σ (C09_pairs_indep P hi σ) (C09_static_uncond P hu σ) sched hv

/-- **From the model of `validate` to the theorem's hypothesis.**  If the array pair loop of
`validateArrays` (the accesses of the whole loop, bounds included, restricted to the variables used
with subscripts — what `_array_access_parallelisable` sees) reports nothing, and the scalars the
body assigns are privatised by the directive's clauses, then `pairsIndepB` holds, hence
`IterIndep` at every store. -/
theorem C09_validate_pairs_indep (P : ParDo) (hs : scalarsOK P.v P.privs P.body = true)
    (hv : validateArrays P.v P.lo P.hi P.step P.body = true) : ∀ σ, IterIndep P σ :=
  C09_pairs_indep P (pairsIndepB_of_validate P hs hv)

/-- non-vacuity: `goodLoop` satisfies both hypotheses -/
example : scalarsOK goodLoop.v goodLoop.privs goodLoop.body = true ∧
    validateArrays goodLoop.v goodLoop.lo goodLoop.hi goodLoop.step goodLoop.body = true := by decide

/-! ### every class of untested pairs admits a racy program -/

/-- pairs whose other access belongs to an EARLIER statement than the write -/
def skipEarlier (w o : SAcc) : Bool := decide (o.pos < w.pos)
/-- pairs whose other access belongs to a LATER statement than the write -/
def skipLater (w o : SAcc) : Bool := decide (w.pos < o.pos)
/-- the pair of a write with itself -/
def skipSelf (w o : SAcc) : Bool := w == o

/-- `b(i) = a(i-1); a(i) = c(i) + 1` for i = 1, 2  (ids: i=0, a=1, b=2, c=3): the read of `a(i-1)`
stands in an earlier statement than the write of `a(i)` -/
def recEarlier : ParDo :=
  annotate 0 (.lit 1) (.lit 2) (.lit 1)
    (.seq (.store1 2 (.var 0) (.idx1 1 (.bin .sub (.var 0) (.lit 1))))
          (.store1 1 (.var 0) (.bin .add (.idx1 3 (.var 0)) (.lit 1))))

/-- the same two statements in the other order -/
def recLater : ParDo :=
  annotate 0 (.lit 1) (.lit 2) (.lit 1)
    (.seq (.store1 1 (.var 0) (.bin .add (.idx1 3 (.var 0)) (.lit 1)))
          (.store1 2 (.var 0) (.idx1 1 (.bin .sub (.var 0) (.lit 1)))))

/-- `a(1) = c(i)`: every iteration writes the same element -/
def sameElem : ParDo := annotate 0 (.lit 1) (.lit 2) (.lit 1) (.store1 1 (.lit 1) (.idx1 3 (.var 0)))

/-- a(0) = 7, c(1) = 10, c(2) = 20 -/
def recStore : Store := storeOf [((1, 0, 0), 7), ((3, 1, 0), 10), ((3, 2, 0), 20)]

/-- Leaving the (write, EARLIER other) pairs untested accepts the first-order recurrence spelt over
two statements; the deployed loop refuses it; the iterations are not independent and running
iteration 1 (i = 2) before iteration 0 stores the stale `a(1) = 0` into `b(2)` where the serial
loop stores `11`. -/
theorem C09_skip_earlier_counterexample :
    pairsIndepSkipB skipEarlier recEarlier = true ∧ pairsIndepB recEarlier = false ∧
    ¬ IterIndep recEarlier recStore ∧
    (execOMP recEarlier [(0, 1), (1, 0)] recStore).map (fun τ => τ.get (2, 2, 0)) = some 0 ∧
    (exec recEarlier.serial recStore).get (2, 2, 0) = 11 := by
  decide

/-- likewise for the (write, LATER other) pairs -/
theorem C09_skip_later_counterexample :
    pairsIndepSkipB skipLater recLater = true ∧ pairsIndepB recLater = false ∧
    ¬ IterIndep recLater recStore ∧
    (execOMP recLater [(0, 1), (1, 0)] recStore).map (fun τ => τ.get (2, 2, 0)) = some 0 ∧
    (exec recLater.serial recStore).get (2, 2, 0) = 11 := by
  decide

/-- … and for the pair of a write with itself (write-write race on one element) -/
theorem C09_skip_self_counterexample :
    pairsIndepSkipB skipSelf sameElem = true ∧ pairsIndepB sameElem = false ∧
    ¬ IterIndep sameElem recStore ∧
    (execOMP sameElem [(0, 1), (1, 0)] recStore).map (fun τ => τ.get (1, 1, 0)) = some 10 ∧
    (exec sameElem.serial recStore).get (1, 1, 0) = 20 := by
  decide

/-! ### non-vacuity of the pair-loop theorems -/

/-- `goodLoop` (a temporary, two arrays) is accepted by the pair loop and by definite assignment -/
example : pairsIndepB goodLoop = true ∧ staticUncondB goodLoop = true ∧ inPairFragment goodLoop = true := by decide
/-- the same statements as `recEarlier` at distance 0 are accepted in both orders -/
example : pairsIndepB (annotate 0 (.lit 1) (.lit 2) (.lit 1)
    (.seq (.store1 2 (.var 0) (.idx1 1 (.var 0))) (.store1 1 (.var 0) (.bin .add (.idx1 3 (.var 0)) (.lit 1))))) = true ∧
  pairsIndepB (annotate 0 (.lit 1) (.lit 2) (.lit 1)
    (.seq (.store1 1 (.var 0) (.bin .add (.idx1 3 (.var 0)) (.lit 1))) (.store1 2 (.var 0) (.idx1 1 (.var 0))))) = true := by
  decide
/-- `do i; do j = 1, 2; m(i, i) = m(i, j) + m(j, i)` (m=5, j=4): every pair with the write is
separated at SOME position (not the same one), so the pair loop accepts while the one-position
check `staticIndepB` does not -/
example :
    let P := annotate 0 (.lit 1) (.lit 3) (.lit 1)
      (.loop 4 (.lit 1) (.lit 2) (.lit 1)
        (.store2 5 (.var 0) (.var 0) (.bin .add (.idx2 5 (.var 0) (.var 4)) (.idx2 5 (.var 4) (.var 0)))))
    pairsIndepB P = true ∧ staticIndepB P = false := by decide
/-- the pair loop on an abstract access list: two writes and a read of one array, the test fails
only on (second write, read) — that pair is reported -/
example : firstFail (fun w o => !(w.pos == 2 && o.pos == 1))
    [⟨7, true, [], 0⟩, ⟨7, false, [], 1⟩, ⟨7, true, [], 2⟩, ⟨8, true, [], 3⟩] =
    some (⟨7, true, [], 2⟩, ⟨7, false, [], 1⟩) := by decide
/-- `validateModel` (scalar rule + pair loop over the arrays): the recurrence is refused in both
statement orders, the distance-0 body is accepted -/
example : validateModel 0 (.lit 1) (.lit 2) (.lit 1) recEarlier.body = false ∧
    validateModel 0 (.lit 1) (.lit 2) (.lit 1) recLater.body = false ∧
    validateModel 0 (.lit 0) (.lit 2) (.lit 1) goodBody = true := by decide

/-! ### the fine-grained semantics, evaluated -/

def FOut.at (o : FOut) (l : Loc) : Option Int :=
  match o with
  | .ok s => some (s.shared.get l)
  | _ => none

def FOut.isComplete (o : FOut) (n : Nat) : Bool :=
  match o with
  | .ok s => (List.range n).all fun k => (s.rem k).isEmpty
  | _ => false

/-- top-level statements of `goodBody` -/
def goodStmts : List Stmt :=
  [.assign 1 (.bin .add (.idx1 2 (.var 0)) (.lit 1)), .store1 3 (.var 0) (.bin .mul (.var 1) (.lit 2))]

example : goodLoop.body = seqs goodStmts := by decide

/-- threads 0 and 1 interleave the micro-steps of iterations 0 and 2 statement by statement,
then thread 1 runs iteration 1: complete, and c = (42, 8, 2) as serially -/
example :
    let o := execOMPfine goodLoop goodStmts
      [(0, 0), (1, 2), (1, 2), (0, 0), (1, 2), (0, 0), (1, 1), (1, 1), (1, 1)] condStore
    o.isComplete 3 = true ∧ [o.at (3, 0, 0), o.at (3, 1, 0), o.at (3, 2, 0)] = [some 42, some 8, some 2] := by
  decide

/-- an event that is not enabled (thread 0 starts iteration 1 while in the middle of iteration 0) -/
example : (execOMPfine goodLoop goodStmts [(0, 0), (0, 1)] condStore).at (3, 0, 0) = none := by decide

/-- the conditional loop under the fine semantics: thread 1 runs iteration 1 between the
statements of thread 0's iteration 0 and stores the stale firstprivate `t = 5` into `c(1)` -/
example :
    (execOMPfine (annotate 0 (.lit 0) (.lit 1) (.lit 1) condBody)
      [.ite (.bin .gt (.idx1 2 (.var 0)) (.lit 10)) (.assign 1 (.idx1 2 (.var 0))) .skip,
       .store1 3 (.var 0) (.var 1)]
      [(0, 0), (1, 1), (0, 0), (1, 1), (1, 1), (0, 0)] condStore).at (3, 1, 0) = some 5 := by decide

/-! ### the static checks, evaluated -/

example : staticIndepB goodLoop = true ∧ staticUncondB goodLoop = true := by decide
/-- the conditional loop fails definite assignment, the written-once and `i/2+1` loops fail static independence -/
example : staticUncondB (annotate 0 (.lit 0) (.lit 1) (.lit 1) condBody) = false := by decide
example : staticIndepB (annotate 0 (.lit 0) (.lit 1) (.lit 1) onceBody) = false := by decide
example : staticIndepB intdivLoop = false := by decide
/-- nest `do i; do j = 1, 3; m(j+1, i) = m(j, i) + b(j)` (m=5, j=4): distance 0 in `i` — statically independent;
the wavefront `m(j+1, i) = m(j, i-1) + b(j)` is not -/
example : staticIndepB (annotate 0 (.lit 2) (.lit 5) (.lit 1)
    (.loop 4 (.lit 1) (.lit 3) (.lit 1)
      (.store2 5 (.bin .add (.var 4) (.lit 1)) (.var 0)
        (.bin .add (.idx2 5 (.var 4) (.var 0)) (.idx1 2 (.var 4)))))) = true := by decide
example : staticIndepB (annotate 0 (.lit 2) (.lit 5) (.lit 1)
    (.loop 4 (.lit 1) (.lit 3) (.lit 1)
      (.store2 5 (.bin .add (.var 4) (.lit 1)) (.var 0)
        (.bin .add (.idx2 5 (.var 4) (.bin .sub (.var 0) (.lit 1))) (.idx1 2 (.var 4)))))) = false := by decide

end C09
